import MuscleModel.Wildcard.Proofs5

/-!
# C15 — Wildcard patterns match exactly the strings their documented syntax denotes

Property theorems only (lemmas: `Wildcard/Proofs.lean`, `Proofs2.lean`, `Proofs3.lean`, `Proofs4.lean`, `Proofs5.lean`; table facts: `Tables.lean`).

* Specification: `Pat.Matches` / `Top.denote` (documented meaning of a pattern tree), `Top.render` (its text).
* Code mirrors (`Wildcard/Code.lean`): `translateLoop`/`setPattern` = `StringMatcher::SetPattern`,
  `matchCompiled`/`matchRange` = `StringMatcher::Match`, `escape` = `EscapeRegexTokens`, `unescape` =
  `RemoveEscapeChars`, `canMatchMultiple` = `CanWildcardStringMatchMultipleValues`.
* `Ere`, `Ere.Matches`, `Ere.render`: POSIX extended regular expressions; `GlibcOK libc` is the trusted statement
  that glibc's `regcomp`/`regexec` implement them on the well-formed fragment.

`WF` = inside the documented grammar: unescaped literals are plain characters, classes are non-empty and contain
none of `] [ ^ - \` as members (every other character, `, . + * ?` included, is an ordinary member), precedence
is respected, numbers in a range list are below `MUSCLE_NO_LIMIT`, and the body does not begin with an unescaped
`~`, backtick or `<`.

Three deviations of the code from the documentation were found with this check and repaired in /repo; their
trigger inputs stay in the corpus as regression cases (corpus/C15/wc-regress-*.ops) and the hypotheses the
theorems once needed because of them are gone:
* F9 — `Match` on a range list looked only at a numeric prefix of the subject and wrapped at 2^32
  (`range_spec_documented`, `match_spec_ranges`: now for every subject);
* "class" — the translation loop rewrote `, . + * ?` inside `[..]` too (`class_translation_exact`, and `WF` admits
  those members);
* "tick" — `EscapeRegexTokens` left a leading backtick unescaped (`escape_exact`: now for every C string).
The `IsRegexToken` table and the list of characters `SetPattern` keeps a backslash in front of are not typed in:
they are regenerated from /repo on every run (`Muscle.Gen.*`) and every fact the proofs use about them is
re-derived from the generated tables (`Wildcard/Tables.lean`).
-/

set_option linter.unusedSimpArgs false
set_option linter.unusedVariables false

namespace Muscle.Props.C15
open Muscle Muscle.Wildcard

/-- The executable matcher the driver runs is the specification relation. -/
theorem denote_spec (p : Pat) (s : Bytes) : p.denote s = true ↔ Pat.Matches p s :=
  denote_iff p s

/-- The character loop of `SetPattern` emits exactly the rendering of the intended ERE
    (a string homomorphism with two pieces of state — the escape mode and the "inside a class" marker — which are
    both off at every token boundary). -/
theorem translate_render (p : Pat) (h : p.WF = true) :
    translateLoop false none p.render = (toEre p).render := by
  have := translateLoop_render p [] h
  simpa [translateLoop] using this

/-- `SetPattern` on the text of a documented pattern: negate flag from the `~`, no ranges, and
    `regcomp` receives `^(` intended ERE `)$`. -/
theorem setPattern_render (neg : Bool) (p : Pat) (h : (Top.pat neg p).WF = true) :
    (setPattern (Top.pat neg p).render).negate = neg ∧
    (setPattern (Top.pat neg p).render).ranges = [] ∧
    (setPattern (Top.pat neg p).render).regex = some (Ere.anchored (toEre p).render) := by
  simp only [Top.WF, Bool.and_eq_true] at h
  have := setPattern_body neg p.render h.2
  simp only [translate, translate_render p h.1] at this
  exact this

/-- POSIX matching of the intended ERE is the documented meaning of the pattern (whole string). -/
theorem toEre_correct (p : Pat) (s : Bytes) : Ere.Matches (toEre p) s ↔ p.denote s = true := by
  rw [denote_iff]; exact toEre_matches p s

/-- …and the intended ERE lies in the fragment for which glibc is trusted. -/
theorem toEre_wf (p : Pat) (h : p.WF = true) : (toEre p).WF = true :=
  toEre_WF p h

/-- End to end, for every documented pattern (incl. a leading `~`) and every subject: if glibc implements
    POSIX ERE (`GlibcOK`), `Match` after `SetPattern` answers the documented meaning. -/
theorem match_spec (libc : Libc) (hg : GlibcOK libc) (neg : Bool) (p : Pat) (h : (Top.pat neg p).WF = true)
    (s : Bytes) :
    matchCompiled libc (setPattern (Top.pat neg p).render) s = (Top.pat neg p).denote s := by
  obtain ⟨h1, h2, h3⟩ := setPattern_render neg p h
  simp only [Top.WF, Bool.and_eq_true] at h
  obtain ⟨f, hf, hfs⟩ := hg (toEre p) (toEre_WF p h.1)
  have hd : f s = p.denote s := by
    rw [Bool.eq_iff_iff, hfs s, toEre_correct]
  simp only [matchCompiled, h1, h2, h3, hf, hd, List.isEmpty_nil, if_true, Top.denote]
  cases neg <;> cases p.denote s <;> rfl

/-- Former finding "class" (repaired): the loop of `SetPattern` copies a whole character class — members `, . + * ?`
    included — to `regcomp` unchanged, and is outside the class again after its closing `]`. -/
theorem class_translation_exact (neg : Bool) (items : List ClsItem) (rest : Bytes)
    (h : (Pat.cls neg items).WF = true) :
    translateLoop false none ((Pat.cls neg items).render ++ rest)
      = (Pat.cls neg items).render ++ translateLoop false none rest := by
  simp only [Pat.WF, Bool.and_eq_true] at h
  exact translateLoop_class neg items rest (by intro e; subst e; simp at h) h.2

/-- What `Match` does with a range list, exactly: the whole subject must be a decimal number, and its value —
    clamped, not wrapped, to `MUSCLE_NO_LIMIT` — must lie in one of the stored ranges. -/
theorem range_spec_code (rs : List (Nat × Nat)) (s : Bytes) :
    matchRange rs s = true ↔
      (isDecimal s = true ∧ ∃ r ∈ rs, r.1 ≤ min (decVal s) noLimit ∧ min (decVal s) noLimit ≤ r.2) :=
  matchRange_iff rs s

/-- The documented statement — "matches ASCII representations of integers in that range", "`<21->` matches all
    integers greater than or equal to 21" — for every documented range list and EVERY subject (integers of any
    size; anything that is not a string of digits is not matched). -/
theorem range_spec_documented (neg : Bool) (rs : List RangeSpec) (hwf : (Top.ranges neg rs).WF = true) (s : Bytes) :
    (matchRange (rs.map RangeSpec.toId) s != neg) = (Top.ranges neg rs).denote s := by
  simp only [Top.denote, matchRange_toId neg rs hwf s]

/-- `SetPattern` reads the text of a documented range list `[~]<a-b,c,d-,-e>` as exactly the ranges it denotes
    (tokenizer, `DigitsOnly`, `Atoull`, the trailing `>` that the last clause still carries), and compiles no regex. -/
theorem setPattern_ranges (neg : Bool) (rs : List RangeSpec) (hwf : (Top.ranges neg rs).WF = true) :
    (setPattern (Top.ranges neg rs).render).negate = neg ∧
    (setPattern (Top.ranges neg rs).render).ranges = rs.map RangeSpec.toId ∧
    (setPattern (Top.ranges neg rs).render).regex = none :=
  setPattern_rangeList neg rs hwf

/-- End to end for range lists (no libc involved), for every subject: `Match` after `SetPattern` answers the
    documented meaning, negation included. -/
theorem match_spec_ranges (libc : Libc) (neg : Bool) (rs : List RangeSpec) (hwf : (Top.ranges neg rs).WF = true)
    (s : Bytes) :
    matchCompiled libc (setPattern (Top.ranges neg rs).render) s = (Top.ranges neg rs).denote s := by
  obtain ⟨h1, h2, h3⟩ := setPattern_ranges neg rs hwf
  rw [← range_spec_documented neg rs hwf s]
  have hne : (rs.map RangeSpec.toId).isEmpty = false := by
    simp only [Top.WF, Bool.and_eq_true, Bool.not_eq_true'] at hwf
    simpa using hwf.1
  simp only [matchCompiled, h1, h2, hne, Bool.false_eq_true, if_false]
  cases neg <;> cases matchRange (rs.map RangeSpec.toId) s <;> rfl

/-- `RemoveEscapeChars` undoes `EscapeRegexTokens`, for every string. -/
theorem unescape_escape (s : Bytes) : unescape (escape s) = s :=
  unescapeAux_escapeAux s true

/-- `EscapeRegexTokens(s)` is the text of a documented pattern that denotes `s` and nothing else — for every
    NUL-free string (a C string).  (Before the fix "EscapeRegexTokens() escapes a leading backtick" this needed the
    hypothesis that `s` does not start with a backtick; the regression case is corpus/C15/wc-known-tick.ops.) -/
theorem escape_exact (s : Bytes) (h0 : ∀ c ∈ s, c ≠ 0) :
    ∃ p : Pat, (Top.pat false p).WF = true ∧ (Top.pat false p).render = escape s ∧
      ∀ t, (Top.pat false p).denote t = true ↔ t = s := by
  refine ⟨litsOf true s, ?_, ?_, ?_⟩
  · simp only [Top.WF, Bool.and_eq_true]
    exact ⟨litsOf_WF s h0 true, by rw [litsOf_render]; exact escape_firstOK s⟩
  · simp [Top.render, litsOf_render, escape]
  · intro t
    simp only [Top.denote, Bool.bne_false, denote_iff]
    exact litsOf_matches s true t

/-- …hence, with glibc trusted, the real `Match` on the escaped pattern accepts `s` and no other string. -/
theorem escape_exact_code (libc : Libc) (hg : GlibcOK libc) (s : Bytes) (h0 : ∀ c ∈ s, c ≠ 0) (t : Bytes) :
    matchCompiled libc (setPattern (escape s)) t = true ↔ t = s := by
  obtain ⟨p, hwf, hr, hd⟩ := escape_exact s h0
  rw [← hr, match_spec libc hg false p hwf t]
  exact hd t

/-- …and the escaped pattern is reported single-valued (`IsPatternUnique`). -/
theorem escape_single_valued (s : Bytes) : canMatchMultiple (escape s) = false :=
  canMatchMultiple_escape s

/-- A documented pattern that `CanWildcardStringMatchMultipleValues` calls single-valued denotes exactly one
    string: its own text with the escapes removed (what the hash-lookup fast path of tree traversal looks up). -/
theorem unique_sound (t : Top) (hwf : t.WF = true) (h : canMatchMultiple t.render = false) (s : Bytes) :
    t.denote s = true ↔ s = unescape t.render := by
  cases t with
  | ranges neg rs =>
    exfalso
    cases neg
    · simp [Top.render, canMatchMultiple_lt] at h
    · simp [Top.render, canMatchMultiple_tilde] at h
  | pat neg p =>
    cases neg with
    | true => exfalso; simp [Top.render, canMatchMultiple_tilde] at h
    | false =>
      simp only [Top.WF, Bool.and_eq_true] at hwf
      simp only [Top.render, Bool.false_eq_true, if_false, List.nil_append] at h ⊢
      have hl := canMatchMultiple_false_litOnly p hwf.1 h
      have hu := unescapeAux_render p hl [] hwf.1
      simp only [List.append_nil, unescapeAux] at hu
      simp only [Top.denote, Bool.bne_false, denote_iff, unescape, hu]
      exact litOnly_matches p hl s

/-- The same through the flag `SetPattern` stores: `IsPatternUnique()` ⇒ exactly the unescaped text matches. -/
theorem isPatternUnique_sound (t : Top) (hwf : t.WF = true) (h : (setPattern t.render).isUnique = true) (s : Bytes) :
    t.denote s = true ↔ s = unescape t.render := by
  simp only [Compiled.isUnique, Bool.and_eq_true, Bool.not_eq_true', setPattern_canMulti] at h
  exact unique_sound t hwf h.1.2 s

/-- Whenever two different strings match, the "can match multiple values" test says yes. -/
theorem multi_complete (t : Top) (hwf : t.WF = true) (s₁ s₂ : Bytes) (hne : s₁ ≠ s₂)
    (h1 : t.denote s₁ = true) (h2 : t.denote s₂ = true) : canMatchMultiple t.render = true := by
  cases hc : canMatchMultiple t.render
  · exfalso
    have e1 := (unique_sound t hwf hc s₁).1 h1
    have e2 := (unique_sound t hwf hc s₂).1 h2
    exact hne (e1.trans e2.symm)
  · rfl

/-- The model driver predicts `Match` for a non-range pattern text only through `inGrammar`, and what it prints
    is `t.denote`: for every text it accepts there is a well-formed tree that renders to exactly that text, so
    (with glibc trusted) the prediction is what the mirrored code computes.  The parser itself is not trusted. -/
theorem driver_prediction (libc : Libc) (hg : GlibcOK libc) (pat : Bytes) (neg : Bool) (p : Pat)
    (h : inGrammar pat = some (.pat neg p)) (s : Bytes) :
    matchCompiled libc (setPattern pat) s = (Top.pat neg p).denote s := by
  unfold inGrammar at h
  split at h
  · rename_i t _
    split at h
    · rename_i hc
      simp only [Bool.and_eq_true, beq_iff_eq] at hc
      cases h
      rw [← hc.2]
      exact match_spec libc hg neg p hc.1 s
    · cases h
  · cases h

/-- The driver's pattern parser is sound for every input: whatever tree it returns renders back to exactly the
    text it was given and has a well-formed body (the prefix-character condition `firstOK` of `Top.WF` is checked
    separately by `inGrammar`).  Completeness (`parseTop (render t) = some t`) is not proved: a text the parser
    wrongly rejects only costs a `?` (counted in the evidence), never a wrong prediction. -/
theorem parseTop_sound (pat : Bytes) (t : Top) (h : parseTop pat = some t) :
    t.render = pat ∧ ∃ neg p, t = .pat neg p ∧ p.WF = true :=
  parseTop_sound_aux pat t h

/-! ## Non-vacuity -/

/-- `~(a|?b[^0-1])*\*` : every constructor; well-formed; the text is what the generator would print -/
def sample : Top :=
  .pat true (.seq (.grp (.alt true (.seq (.lit false 97) .eps) (.seq .any (.seq (.lit false 98) (.seq (.cls true [.rng 48 49]) .eps)))))
                  (.seq .star (.seq (.lit true 42) .eps)))

example : sample.WF = true := by decide
example : sample.render = [126, 40, 97, 124, 63, 98, 91, 94, 48, 45, 49, 93, 41, 42, 92, 42] := by decide
example : (setPattern sample.render).regex
    = some [94, 40, 40, 97, 124, 46, 98, 91, 94, 48, 45, 49, 93, 41, 46, 42, 92, 42, 41, 36] := by decide  -- ^((a|.b[^0-1]).*\*)$
example : sample.denote [97, 42] = false ∧ sample.denote [97] = true := by decide
example : inGrammar sample.render = some sample := by decide

/-- escape: `a*` ↦ `a\*`, which denotes `a*` and not `ab` -/
example : escape [97, 42] = [97, 92, 42] ∧ canMatchMultiple (escape [97, 42]) = false := by decide

/-- a single-valued pattern (`a\*`) and a multi-valued one (`a*`, matching `a` and `ab`) -/
example : canMatchMultiple (Top.pat false (.seq (.lit false 97) (.lit true 42))).render = false := by decide
example : (Top.pat false (.seq (.lit false 97) .star)).denote [97] = true ∧
          (Top.pat false (.seq (.lit false 97) .star)).denote [97, 98] = true := by decide

/-- a documented range list: `~<19-21,25,30->` -/
example : (Top.ranges true [.span (some 19) (some 21), .one 25, .span (some 30) none]).WF = true := by decide
example : (Top.ranges true [.span (some 19) (some 21), .one 25, .span (some 30) none]).render
    = [126, 60, 49, 57, 45, 50, 49, 44, 50, 53, 44, 51, 48, 45, 62] := by
  simp [Top.render, renderRanges, RangeSpec.render, decimal]

/-- former finding F9 (repaired): `<5-7>` no longer matches `6x` or `4294967302`; `06` is a representation of 6;
    an integer too large for 32 bits still matches the open-ended `<5->` -/
example : parseRanges [60, 53, 45, 55, 62] = [(5, 7)] := by decide
example : matchRange [(5, 7)] [54, 120] = false ∧ rangeDenote [.span (some 5) (some 7)] [54, 120] = false := by decide
example : matchRange [(5, 7)] [52, 50, 57, 52, 57, 54, 55, 51, 48, 50] = false := by decide
example : matchRange [(5, 7)] [48, 54] = true ∧ rangeDenote [.span (some 5) (some 7)] [48, 54] = true := by decide
example : matchRange [(5, 4294967295)] [57, 57, 57, 57, 57, 57, 57, 57, 57, 57, 57, 57] = true ∧
          rangeDenote [.span (some 5) none] [57, 57, 57, 57, 57, 57, 57, 57, 57, 57, 57, 57] = true := by decide

/-- former finding "class" (repaired): `[a,b]` and `[?]` reach regcomp as they are; `[]a]`-style first members and
    an escaped `]` are tracked as regcomp sees them -/
example : translateLoop false none [91, 97, 44, 98, 93, 44] = [91, 97, 44, 98, 93, 124] ∧
          translateLoop false none [91, 63, 93, 63] = [91, 63, 93, 46] := by decide
example : (Pat.cls false [.ch 97, .ch 44, .ch 98]).WF = true := by decide
example : translateLoop false none [91, 93, 44, 93, 44] = [91, 93, 44, 93, 124] ∧
          translateLoop false none [91, 94, 93, 44, 93, 44] = [91, 94, 93, 44, 93, 124] := by decide

/-- former finding "tick" (fixed in /repo): a leading backtick is escaped, so the pattern is not a raw regex -/
example : escape [96, 97] = [92, 96, 97] ∧ (setPattern (escape [96, 97])).regex = some [94, 40, 96, 97, 41, 36] := by decide

end Muscle.Props.C15
