import MuscleModel.Engines.Common
import MuscleModel.Conc.ThreadPool

/-! Engine `tp` (C19): one op line = pool size + initially registered clients + user-thread programs + a schedule,
executed on the interleaving model of `ThreadPool`.  Line and result formats are documented at the top of
`harness/tp.cpp`. -/

namespace Muscle.Eng.TPEngine
open Muscle Muscle.Eng Muscle.Conc Muscle.Conc.TP

def maxUser : Nat := 4
def maxClients : Nat := 6
def maxPool : Nat := 6
def tailCap : Nat := 4000

/-- `s<c>` submit, `r<c>` register, `u<c>` unregister, `D` shutdown; Message id of the k-th op of thread t = 100*t + k -/
def parseOps (t : Nat) (nc : Nat) : Nat → List Char → Option (List Op)
  | _, [] => some []
  | k, 'D' :: rest => (parseOps t nc (k + 1) rest).map (Op.shutdown :: ·)
  | k, a :: d :: rest =>
    if d.isDigit ∧ d.toNat - '0'.toNat < nc then
      let c := d.toNat - '0'.toNat
      match a with
      | 's' => (parseOps t nc (k + 1) rest).map (Op.sub c (100 * t + k) :: ·)
      | 'r' => (parseOps t nc (k + 1) rest).map (Op.reg c :: ·)
      | 'u' => (parseOps t nc (k + 1) rest).map (Op.unreg c :: ·)
      | _ => none
    else none
  | _, _ => none

def parseProg (nc : Nat) (t : Nat) (s : String) : Option (List Op) :=
  if s = "-" then some [] else if s.isEmpty ∨ s.length > 40 then none else parseOps t nc 0 s.toList

def parseProgs (nc : Nat) : Nat → List String → Option (List (List Op))
  | _, [] => some []
  | t, s :: ss => match parseProg nc t s, parseProgs nc (t + 1) ss with
    | some p, some ps => some (p :: ps)
    | _, _ => none

def parseEv (s : String) : Option Ev :=
  match nat? s with
  | some k => if k < maxUser + maxPool then some (.run k) else none
  | none => none

def parseRegs (s : String) : Option (List Client) :=
  if s.isEmpty ∨ s.length > maxClients ∨ s.toList.any (fun ch => ch ≠ '0' ∧ ch ≠ '1') then none
  else some ((List.range s.length).filter fun i => s.toList[i]? = some '1')

def outTok : Out → String
  | .subOk => "s+" | .subErr => "s!" | .regOk => "r+" | .regNoop => "r=" | .unregOk => "u+" | .unregNoop => "u="
  | .shut n => s!"D{n}" | .enter c m => s!"E{c}/{m}" | .exit c m => s!"X{c}/{m}" | .threadExit => "Z"

def outToks (l : List Out) : String := if l.isEmpty then "." else ",".intercalate (l.map outTok)

def joinComma (l : List String) : String := if l.isEmpty then "_" else ",".intercalate l

def snapshot (c : Cfg) : String :=
  let p := c.p
  "A=" ++ joinComma (p.availR.reverse.map toString) ++ " B=" ++ joinComma (p.active.map toString) ++
  " R=" ++ joinComma (p.regK.map fun k => s!"{k}/{if p.flag k then 1 else 0}") ++
  " P=" ++ joinComma (p.pendK.map fun k => s!"{k}/{(p.pend k).length}") ++
  " Q=" ++ joinComma (p.defK.map fun k => s!"{k}/{(p.defr k).length}") ++
  " W=" ++ joinComma (p.waitK.map toString) ++ s!" S={if p.shut then 1 else 0} N={p.idc}"

def evName : Ev → String
  | .run t => toString t
  | .timeout t => "T" ++ toString t

/-- the explicit schedule with the SKIP rule -/
def runEvents : Cfg → List Ev → List String → Cfg × List String
  | c, [], acc => (c, acc.reverse)
  | c, e :: es, acc =>
    match TP.step c e with
    | some (c', o) => runEvents c' es ((evName e ++ ":" ++ outToks o) :: acc)
    | none => runEvents c es ((evName e ++ ":-") :: acc)

def firstSome (c : Cfg) : List Tid → Option (Ev × Cfg × List Out)
  | [] => none
  | i :: is => match TP.step c (.run i) with
    | some (c', o) => some (.run i, c', o)
    | none => firstSome c is

/-- the TAIL rule (lowest-numbered runnable scheduler thread; there are no time-out events) -/
def runTail : Nat → Cfg → List String → Cfg × List String
  | 0, c, acc => (c, acc.reverse)
  | fuel + 1, c, acc =>
    match firstSome c (List.range (c.nU + c.p.idc)) with
    | some (e, c', o) => runTail fuel c' ((evName e ++ ":" ++ outToks o) :: acc)
    | none => (c, acc.reverse)

def runLine (toks : List String) : String :=
  match toks with
  | "x" :: ms :: rs :: ns :: rest =>
    match nat? ms, parseRegs rs, nat? ns with
    | some maxT, some regs, some n =>
      if maxT > maxPool ∨ n < 1 ∨ n > maxUser ∨ rest.length < n then "bad-op" else
      match parseProgs rs.length 0 (rest.take n), (rest.drop n).mapM parseEv with
      | some progs, some evs =>
        let c0 := Cfg.init maxT regs progs
        let (c1, l1) := runEvents c0 evs []
        let (c2, l2) := runTail tailCap c1 []
        let unfinished := (List.range n).filter fun i => (c2.uth i).pc ≠ .done
        let verdict := if unfinished.isEmpty then "done" else "deadlock B=" ++ ",".intercalate (unfinished.map toString)
        " ".intercalate (l1 ++ ["|"] ++ l2 ++ [verdict, snapshot c2])
      | _, _ => "bad-op"
    | _, _, _ => "bad-op"
  | _ => "bad-op"

def step (_ : Unit) (toks : List String) : Unit × String :=
  match toks with
  | ["case", n] => ((), "case " ++ n)
  | _ => ((), runLine toks)

def engine : Engine := { σ := Unit, init := (), step := step }

end Muscle.Eng.TPEngine
