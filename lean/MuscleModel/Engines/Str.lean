import MuscleModel.Engines.Common
import MuscleModel.Generated.Constants
import MuscleModel.Containers.StrBuf

/-! Engine `str` (C17): a register file of Strings.  In-place operations run on the buffer layer
(`StrBuf.step`, with alias operands resolved exactly as the C++ harness passes them); `const` methods are
the list functions of `StrSpec` applied to the register's value, their result stored through
`String(const String &)`.  Only values and return values are printed, never capacities or modes. -/

namespace Muscle.Eng.StrEngine
open Muscle Muscle.Eng Muscle.Containers Muscle.Containers.StrBuf

def small : Nat := Muscle.Gen.strSmallLen
def nregs : Nat := 6

abbrev Regs := List Buf

def getR (rs : Regs) (i : Nat) : Buf := rs.getD i (empty small)
def setR (rs : Regs) (i : Nat) (b : Buf) : Regs := rs.set i b
def valR (rs : Regs) (i : Nat) : Bytes := abs (getR rs i)

def reg? (s : String) : Option Nat := do let n ← nat? s; if n < nregs then some n else none
def u32? (s : String) : Option Nat := do let n ← nat? s; if n < 4294967296 then some n else none
def chr? (s : String) : Option UInt8 := do let n ← nat? s; if 1 ≤ n ∧ n ≤ 255 then some (UInt8.ofNat n) else none
def hex? (s : String) : Option Bytes := do let b ← bytesOfTok s; if StrSpec.nulFreeB b then some b else none

/-- `const String &` operand relative to target register `R`: `r<R>` is the String itself -/
def sArg? (rs : Regs) (R : Nat) (tok : String) : Option Arg :=
  match tok.toList with
  | 'r' :: d => do let j ← reg? (String.ofList d); if j = R then some .self else some (.ext (valR rs j))
  | _ => do let b ← hex? tok; some (.ext b)

/-- value of a `const String &` operand -/
def sVal? (rs : Regs) (tok : String) : Option Bytes :=
  match tok.toList with
  | 'r' :: d => do let j ← reg? (String.ofList d); some (valR rs j)
  | _ => hex? tok

/-- `const char *` operand relative to target register `R`: `p<R>+<off>` points into the String itself -/
def pArg? (rs : Regs) (R : Nat) (tok : String) : Option Ptr :=
  match tok.toList with
  | 'p' :: d =>
    match (String.ofList d).splitOn "+" with
    | [j, off] => do
      let j ← reg? j
      let off ← nat? off
      if off ≤ (valR rs j).length then (if j = R then some (.own off) else some (.ext ((valR rs j).drop off))) else none
    | _ => none
  | _ => do let b ← hex? tok; some (.ext b)

def pVal? (rs : Regs) (tok : String) : Option Bytes :=
  match tok.toList with
  | 'p' :: d =>
    match (String.ofList d).splitOn "+" with
    | [j, off] => do
      let j ← reg? j
      let off ← nat? off
      if off ≤ (valR rs j).length then some ((valR rs j).drop off) else none
    | _ => none
  | _ => hex? tok

def bad (rs : Regs) : Regs × String := (rs, "bad-op")
def bstr (b : Bool) : String := if b then "true" else "false"

/-- an in-place operation on register `R`; `ret` renders the return value -/
def mutate (rs : Regs) (R : Nat) (op : Op) (ret : Int → String) : Regs × String :=
  let (b, v) := StrBuf.step small (getR rs R) op
  (setR rs R b, ret v ++ " " ++ tokOfBytes (abs b))

def okRet (_ : Int) : String := "ok"
def numRet (v : Int) : String := toString v

/-- `F[D] = <value>` -/
def store (rs : Regs) (D : Nat) (v : Bytes) : Regs × String := (setR rs D (ofBytes small v), tokOfBytes v)

/-- `F[D] = F[R].f(…)` for a const method that edits a copy: `String ret(*this)`, then the in-place operation -/
def storeOp (rs : Regs) (D R : Nat) (op : Op) : Regs × String :=
  let (b, _) := StrBuf.step small (ofBytes small (valR rs R)) op
  (setR rs D b, tokOfBytes (abs b))

def query (rs : Regs) (s : String) : Regs × String := (rs, s)

/-- the (key, value) operands of a table replacement, `Put` in order -/
def pairs? (rs : Regs) : List String → Option (List (Bytes × Bytes))
  | [] => some []
  | k :: v :: r => do
    let k ← sVal? rs k
    let v ← sVal? rs v
    let t ← pairs? rs r
    some ((k, v) :: t)
  | [_] => none

def bool? (s : String) : Option Bool := do let n ← nat? s; if n = 0 then some false else if n = 1 then some true else none

def step (rs : Regs) (toks : List String) : Regs × String :=
  match toks with
  | ["case", n] => (List.replicate nregs (empty small), "case " ++ n)
  -- ---------------------------------------------------------------- in-place
  | ["set", r, p, m] =>
    match reg? r, u32? m with
    | some R, some m => match pArg? rs R p with
      | some p => mutate rs R (.setCstr p m) okRet
      | none => bad rs
    | _, _ => bad rs
  | ["setfrom", r, a, f, e] =>
    match reg? r, u32? f, u32? e with
    | some R, some f, some e => match sArg? rs R a with
      | some a => mutate rs R (.setFrom a f e) okRet
      | none => bad rs
    | _, _, _ => bad rs
  | ["app", r, a] =>
    match reg? r with
    | some R => match sArg? rs R a with
      | some a => mutate rs R (.appendStr a) okRet
      | none => bad rs
    | none => bad rs
  | ["appc", r, p] =>
    match reg? r with
    | some R => match pArg? rs R p with
      | some p => mutate rs R (.appendCstr p) okRet
      | none => bad rs
    | none => bad rs
  | ["appch", r, c] =>
    match reg? r, chr? c with
    | some R, some c => mutate rs R (.appendChar c) okRet
    | _, _ => bad rs
  | ["ins", r, i, p, m] =>
    match reg? r, u32? i, u32? m with
    | some R, some i, some m => match pArg? rs R p with
      | some p => mutate rs R (.insertChars i p m) okRet
      | none => bad rs
    | _, _, _ => bad rs
  | ["rmch", r, c] =>
    match reg? r, chr? c with
    | some R, some c => mutate rs R (.removeLastChar c) okRet
    | _, _ => bad rs
  | ["rm", r, a] =>
    match reg? r with
    | some R => match sArg? rs R a with
      | some a => mutate rs R (.removeLastStr a) okRet
      | none => bad rs
    | none => bad rs
  | ["rmc", r, p] =>
    match reg? r with
    | some R => match pArg? rs R p with
      | some p => mutate rs R (.removeLastCstr p) okRet
      | none => bad rs
    | none => bad rs
  | ["repch", r, c1, c2, m, i] =>
    match reg? r, chr? c1, chr? c2, u32? m, u32? i with
    | some R, some c1, some c2, some m, some i => mutate rs R (.replaceChar c1 c2 m i) numRet
    | _, _, _, _, _ => bad rs
  | ["rep", r, a1, a2, m, i] =>
    match reg? r, u32? m, u32? i with
    | some R, some m, some i => match sArg? rs R a1, sArg? rs R a2 with
      | some a1, some a2 => mutate rs R (.replaceStr a1 a2 m i) numRet
      | _, _ => bad rs
    | _, _, _ => bad rs
  | ["rev", r] => match reg? r with | some R => mutate rs R .reverse okRet | none => bad rs
  | ["clear", r] => match reg? r with | some R => mutate rs R .clear okRet | none => bad rs
  | ["flush", r] => match reg? r with | some R => mutate rs R .flush okRet | none => bad rs
  | ["shrink", r, e] =>
    match reg? r, u32? e with
    | some R, some e => if e ≤ 100000 then mutate rs R (.shrink e) okRet else bad rs
    | _, _ => bad rs
  | ["prealloc", r, n] =>
    match reg? r, u32? n with
    | some R, some n => if n ≤ 100000 then mutate rs R (.prealloc n) okRet else bad rs
    | _, _ => bad rs
  | ["truncc", r, n] =>
    match reg? r, u32? n with
    | some R, some n => mutate rs R (.truncChars n) okRet
    | _, _ => bad rs
  | ["trunct", r, n] =>
    match reg? r, u32? n with
    | some R, some n => mutate rs R (.truncTo n) okRet
    | _, _ => bad rs
  | ["setch", r, i, c] =>
    match reg? r, u32? i, chr? c with
    | some R, some i, some c => if i < (valR rs R).length then mutate rs R (.setChar i c) okRet else bad rs
    | _, _, _ => bad rs
  | ["swap", r, d] =>
    match reg? r, reg? d with
    | some R, some D =>
      let x := getR rs R; let y := getR rs D
      (setR (setR rs R y) D x, "ok " ++ tokOfBytes (abs (getR (setR (setR rs R y) D x) R)))
    | _, _ => bad rs
  -- ---------------------------------------------------------------- value-returning const methods
  | ["sub", d, r, a, b] =>
    match reg? d, reg? r, u32? a, u32? b with
    | some D, some R, some a, some b => store rs D (StrSpec.substring (valR rs R) a b)
    | _, _, _, _ => bad rs
  | ["subaft", d, r, m] =>
    match reg? d, reg? r, sVal? rs m with
    | some D, some R, some m => store rs D (StrSpec.substringAfterLast (valR rs R) m)
    | _, _, _ => bad rs
  | ["subaftc", d, r, m] =>
    match reg? d, reg? r, pVal? rs m with
    | some D, some R, some m => store rs D (StrSpec.substringAfterLast (valR rs R) m)
    | _, _, _ => bad rs
  | ["subto", d, r, a, m] =>
    match reg? d, reg? r, u32? a, sVal? rs m with
    | some D, some R, some a, some m => store rs D (StrSpec.substringUntil (valR rs R) a m)
    | _, _, _, _ => bad rs
  | ["wins", d, r, i, a, m] =>
    match reg? d, reg? r, u32? i, sVal? rs a, u32? m with
    | some D, some R, some i, some a, some m => storeOp rs D R (.insertChars i (.ext a) m)
    | _, _, _, _, _ => bad rs
  | ["winsc", d, r, i, a, m] =>
    match reg? d, reg? r, u32? i, pVal? rs a, u32? m with
    | some D, some R, some i, some a, some m => storeOp rs D R (.insertChars i (.ext a) m)
    | _, _, _, _, _ => bad rs
  | ["winsch", d, r, i, c, n] =>
    match reg? d, reg? r, u32? i, chr? c, u32? n with
    | some D, some R, some i, some c, some n => if n ≤ 100000 then storeOp rs D R (.insertChar i c n) else bad rs
    | _, _, _, _, _ => bad rs
  | ["pad", d, r, n, right, c] =>
    match reg? d, reg? r, u32? n, u32? right, chr? c with
    | some D, some R, some n, some right, some c =>
      if n ≤ 100000 ∧ right ≤ 1 then store rs D (StrSpec.paddedBy (valR rs R) n (right == 1) c) else bad rs
    | _, _, _, _, _ => bad rs
  | ["lower", d, r] => match reg? d, reg? r with | some D, some R => storeOp rs D R .toLower | _, _ => bad rs
  | ["upper", d, r] => match reg? d, reg? r with | some D, some R => storeOp rs D R .toUpper | _, _ => bad rs
  | ["mixed", d, r] => match reg? d, reg? r with | some D, some R => storeOp rs D R .toMixed | _, _ => bad rs
  | ["trim", d, r] => match reg? d, reg? r with | some D, some R => store rs D (StrSpec.trimmed (valR rs R)) | _, _ => bad rs
  | ["wrepch", d, r, c1, c2, m, i] =>
    match reg? d, reg? r, chr? c1, chr? c2, u32? m, u32? i with
    | some D, some R, some c1, some c2, some m, some i => storeOp rs D R (.replaceChar c1 c2 m i)
    | _, _, _, _, _, _ => bad rs
  | ["wrep", d, r, a1, a2, m, i] =>
    match reg? d, reg? r, sVal? rs a1, sVal? rs a2, u32? m, u32? i with
    | some D, some R, some a1, some a2, some m, some i => storeOp rs D R (.replaceStr (.ext a1) (.ext a2) m i)
    | _, _, _, _, _, _ => bad rs
  | ["wonum", d, r] =>
    match reg? d, reg? r with
    | some D, some R =>
      let (v, k) := StrSpec.withoutNumericSuffix (valR rs R)
      (setR rs D (ofBytes small v), tokOfBytes v ++ " " ++ toString k)
    | _, _ => bad rs
  | ["arg", d, r, a] =>
    match reg? d, reg? r, sVal? rs a with
    | some D, some R, some a => store rs D (StrSpec.argStr (valR rs R) a)
    | _, _, _ => bad rs
  | ["argi", d, r, k, v] =>
    match reg? d, reg? r, nat? v with
    | some D, some R, some v =>
      if v < 18446744073709551616 then
        if k = "i32" then (if v < 4294967296 then store rs D (StrSpec.argInt (valR rs R) (StrSpec.toInt32 v)) else bad rs)
        else if k = "u32" then (if v < 4294967296 then store rs D (StrSpec.argInt (valR rs R) v) else bad rs)
        else if k = "i64" then store rs D (StrSpec.argInt (valR rs R) (if v < 9223372036854775808 then (v : Int) else (v : Int) - 18446744073709551616))
        else if k = "u64" then store rs D (StrSpec.argInt (valR rs R) v)
        else bad rs
      else bad rs
    | _, _, _ => bad rs
  | ["argf", r, v] =>
    -- `Arg(double)`: printf formatting is outside the model; the harness compares it with snprintf and prints `ok`
    match reg? r, nat? v with
    | some _, some v => if v < 18446744073709551616 then (rs, "ok") else bad rs
    | _, _ => bad rs
  | ["wword", d, r, i, a, sep] =>
    match reg? d, reg? r, u32? i, sVal? rs a, pVal? rs sep with
    | some D, some R, some i, some a, some sep => store rs D (StrSpec.withInsertedWord (valR rs R) i a sep)
    | _, _, _, _, _ => bad rs
  | ["indent", d, r, n, c] =>
    match reg? d, reg? r, u32? n, chr? c with
    | some D, some R, some n, some c => if n ≤ 1000 then store rs D (StrSpec.indentedBy (valR rs R) n c) else bad rs
    | _, _, _, _ => bad rs
  | ["wesc", d, r, set, c] =>
    match reg? d, reg? r, pVal? rs set, chr? c with
    | some D, some R, some set, some c => store rs D (StrSpec.withCharsEscaped (valR rs R) set c)
    | _, _, _, _ => bad rs
  | ["wsuf", d, r, a] => match reg? d, reg? r, sVal? rs a with | some D, some R, some a => store rs D (StrSpec.withSuffix (valR rs R) a) | _, _, _ => bad rs
  | ["wpre", d, r, a] => match reg? d, reg? r, sVal? rs a with | some D, some R, some a => store rs D (StrSpec.withPrefix (valR rs R) a) | _, _, _ => bad rs
  | ["wsufch", d, r, c] => match reg? d, reg? r, chr? c with | some D, some R, some c => store rs D (StrSpec.withSuffixChar (valR rs R) c) | _, _, _ => bad rs
  | ["wprech", d, r, c] => match reg? d, reg? r, chr? c with | some D, some R, some c => store rs D (StrSpec.withPrefixChar (valR rs R) c) | _, _, _ => bad rs
  | ["wosuf", d, r, a, m, ci] =>
    match reg? d, reg? r, sVal? rs a, u32? m, bool? ci with
    | some D, some R, some a, some m, some ci => store rs D (StrSpec.withoutSuffix ci (valR rs R) a m)
    | _, _, _, _, _ => bad rs
  | ["wopre", d, r, a, m, ci] =>
    match reg? d, reg? r, sVal? rs a, u32? m, bool? ci with
    | some D, some R, some a, some m, some ci => store rs D (StrSpec.withoutPrefix ci (valR rs R) a m)
    | _, _, _, _, _ => bad rs
  | ["wosufch", d, r, c, m, ci] =>
    match reg? d, reg? r, chr? c, u32? m, bool? ci with
    | some D, some R, some c, some m, some ci => store rs D (StrSpec.withoutSuffixChar ci (valR rs R) c m)
    | _, _, _, _, _ => bad rs
  | ["woprech", d, r, c, m, ci] =>
    match reg? d, reg? r, chr? c, u32? m, bool? ci with
    | some D, some R, some c, some m, some ci => store rs D (StrSpec.withoutPrefixChar ci (valR rs R) c m)
    | _, _, _, _, _ => bad rs
  | "trep" :: r :: m :: ps =>
    match reg? r, u32? m, pairs? rs ps with
    | some R, some m, some ps =>
      if ps.length ≤ 4 then
        let table := ps.foldl (fun t kv => StrSpec.tablePut t kv.1 kv.2) []
        let (o, n) := StrSpec.replaceTable (valR rs R) table m
        -- `if (ret > 0) SwapContents(writeTo)`
        ((if n = 0 then rs else setR rs R (ofBytes small o)), toString n ++ " " ++ tokOfBytes o)
      else bad rs
    | _, _, _ => bad rs
  | ["dist", r, a, m] =>
    match reg? r, sVal? rs a, u32? m with
    | some R, some a, some m => query rs (toString (StrSpec.distanceTo (valR rs R) a m))
    | _, _, _ => bad rs
  | ["plus", d, a, b] =>
    match reg? d, sVal? rs a, sVal? rs b with
    | some D, some a, some b => store rs D (a ++ b)
    | _, _, _ => bad rs
  -- ---------------------------------------------------------------- queries
  | ["len", r] => match reg? r with | some R => query rs (toString (valR rs R).length) | none => bad rs
  | ["dump", r] => match reg? r with | some R => query rs (tokOfBytes (valR rs R)) | none => bad rs
  | ["at", r, i] =>
    match reg? r, u32? i with
    | some R, some i => if i < (valR rs R).length then query rs (toString ((valR rs R).getD i 0).toNat) else bad rs
    | _, _ => bad rs
  | ["idxch", r, c, f] =>
    match reg? r, chr? c, u32? f with
    | some R, some c, some f => query rs (toString (StrSpec.indexOfChar (valR rs R) c f))
    | _, _, _ => bad rs
  | ["lidxch", r, c, f] =>
    match reg? r, chr? c, u32? f with
    | some R, some c, some f => query rs (toString (StrSpec.lastIndexOfChar (valR rs R) c f))
    | _, _, _ => bad rs
  | ["idxich", r, c, f] =>
    match reg? r, chr? c, u32? f with
    | some R, some c, some f => query rs (toString (StrSpec.indexOfCharCI (valR rs R) c f))
    | _, _, _ => bad rs
  | ["lidxich", r, c, f] =>
    match reg? r, chr? c, u32? f with
    | some R, some c, some f => query rs (toString (StrSpec.lastIndexOfCharCI (valR rs R) c f))
    | _, _, _ => bad rs
  | ["idx", r, a, f] =>
    match reg? r, sVal? rs a, u32? f with
    | some R, some a, some f => query rs (toString (StrSpec.indexOf (valR rs R) a f))
    | _, _, _ => bad rs
  | ["idxc", r, a, f] =>
    match reg? r, pVal? rs a, u32? f with
    | some R, some a, some f => query rs (toString (StrSpec.indexOf (valR rs R) a f))
    | _, _, _ => bad rs
  | ["lidx", r, a] =>
    match reg? r, sVal? rs a with
    | some R, some a => query rs (toString (StrSpec.lastIndexOf (valR rs R) a))
    | _, _ => bad rs
  | ["lidx2", r, a, f] =>
    match reg? r, sVal? rs a, u32? f with
    | some R, some a, some f => query rs (toString (StrSpec.lastIndexOfFrom (valR rs R) a f))
    | _, _, _ => bad rs
  | ["idxi", r, a, f] =>
    match reg? r, sVal? rs a, u32? f with
    | some R, some a, some f => query rs (toString (StrSpec.indexOfCI (valR rs R) a f))
    | _, _, _ => bad rs
  | ["lidxi", r, a, f] =>
    match reg? r, sVal? rs a, u32? f with
    | some R, some a, some f => query rs (toString (StrSpec.lastIndexOfCI (valR rs R) a f))
    | _, _, _ => bad rs
  | ["sw", r, a] => match reg? r, sVal? rs a with | some R, some a => query rs (bstr (StrSpec.startsWith (valR rs R) a)) | _, _ => bad rs
  | ["ew", r, a] => match reg? r, sVal? rs a with | some R, some a => query rs (bstr (StrSpec.endsWith (valR rs R) a)) | _, _ => bad rs
  | ["swi", r, a] => match reg? r, sVal? rs a with | some R, some a => query rs (bstr (StrSpec.startsWithCI (valR rs R) a)) | _, _ => bad rs
  | ["ewi", r, a] => match reg? r, sVal? rs a with | some R, some a => query rs (bstr (StrSpec.endsWithCI (valR rs R) a)) | _, _ => bad rs
  | ["eq", r, a] => match reg? r, sVal? rs a with | some R, some a => query rs (bstr (valR rs R == a)) | _, _ => bad rs
  | ["eqi", r, a] => match reg? r, sVal? rs a with | some R, some a => query rs (bstr (StrSpec.cmpCI (valR rs R) a == 0)) | _, _ => bad rs
  | ["cmp", r, a] => match reg? r, sVal? rs a with | some R, some a => query rs (toString (StrSpec.cmpBytes (valR rs R) a)) | _, _ => bad rs
  | ["cmpi", r, a] => match reg? r, sVal? rs a with | some R, some a => query rs (toString (StrSpec.cmpCI (valR rs R) a)) | _, _ => bad rs
  | ["ncmp", r, a] => match reg? r, sVal? rs a with | some R, some a => query rs (toString (StrSpec.natCmp false (valR rs R) a)) | _, _ => bad rs
  | ["ncmpi", r, a] => match reg? r, sVal? rs a with | some R, some a => query rs (toString (StrSpec.natCmp true (valR rs R) a)) | _, _ => bad rs
  | ["swc", r, a] => match reg? r, pVal? rs a with | some R, some a => query rs (bstr (StrSpec.startsWith (valR rs R) a)) | _, _ => bad rs
  | ["ewc", r, a] => match reg? r, pVal? rs a with | some R, some a => query rs (bstr (StrSpec.endsWith (valR rs R) a)) | _, _ => bad rs
  | ["swch", r, c] => match reg? r, chr? c with | some R, some c => query rs (bstr (StrSpec.startsWithChar (valR rs R) c)) | _, _ => bad rs
  | ["ewch", r, c] => match reg? r, chr? c with | some R, some c => query rs (bstr (StrSpec.endsWithChar (valR rs R) c)) | _, _ => bad rs
  | ["pnum", r, d] => match reg? r, u32? d with | some R, some d => query rs (toString (StrSpec.parseNumericSuffix (valR rs R) d)) | _, _ => bad rs
  | ["swnum", r, a] =>
    match reg? r, u32? a with
    | some R, some a => if a ≤ 1 then query rs (bstr (StrSpec.startsWithNumber (valR rs R) (a == 1))) else bad rs
    | _, _ => bad rs
  | ["cnt", r, a, f] =>
    match reg? r, sVal? rs a, u32? f with
    | some R, some a, some f => query rs (toString (StrSpec.countInstances (valR rs R) a f))
    | _, _, _ => bad rs
  | ["cntch", r, c, f] =>
    match reg? r, chr? c, u32? f with
    | some R, some c, some f => query rs (toString (StrSpec.countChar (valR rs R) c f))
    | _, _, _ => bad rs
  | ["flat", r] =>
    match reg? r with
    | some R => let f := StrSpec.flatten (valR rs R); query rs ("ok " ++ toString f.length ++ " " ++ tokOfBytes f)
    | none => bad rs
  | ["unflat", r, api, hx] =>
    match reg? r, bytesOfTok hx with
    | some R, some v =>
      if api = "bytes" ∨ api = "flat" ∨ api = "lp" ∨ api = "msg" then
        let (b, st) := StrBuf.step small (getR rs R) (.unflatten v)
        if st = 0 then
          -- bytes consumed as the harness reports them: `UnflattenFromBytes` and the Message path have no
          -- cursor (the harness prints `FlattenedSize()`), `ReadFlat` advances by what `Unflatten` read,
          -- `ReadFlatWithLengthPrefix` always by 4 + the declared length
          let sl := (abs b).length
          let used := if api = "lp" then 4 + v.length else sl + 1
          (setR rs R b, "ok " ++ toString used ++ " " ++ tokOfBytes (abs b))
        else (setR rs R (StrBuf.clear (getR rs R)), "err")   -- what a failed parse leaves behind is not compared: the harness clears the String
      else bad rs
    | _, _ => bad rs
  | _ => bad rs

def engine : Engine := { σ := Regs, init := List.replicate nregs (empty small), step := step }

end Muscle.Eng.StrEngine
