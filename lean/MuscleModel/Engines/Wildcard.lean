import MuscleModel.Engines.Common
import MuscleModel.Wildcard.Parse

/-! Engine `wc` (C15): one `StringMatcher` plus the free functions of regex/StringMatcher.h.

Result lines:
* `pat <hex>` / `gpat <hex>` → `ok`/`err` of `SetPattern(s, true)`; predicted for range patterns, for patterns that need no
  `regcomp`, and for patterns inside the documented grammar (glibc accepts those); `?` otherwise — whether
  libc's `regcomp` accepts an expression outside the grammar is libc's business.
* `flags`       → `u=<IsPatternUnique> l=<IsPatternListOfUniqueValues> n=<IsNegate>`; always predicted.
* `tostr`       → `ToString()`; always predicted (exposes the parsed ranges).
* `match <hex>` → `1`/`0`; predicted from `denote` for patterns inside the grammar, from the mirrored range code
  for range patterns; `?` otherwise (only absence of a crash is checked there).
* `esc`/`unesc`/`cmm`/`tok` → `EscapeRegexTokens`, `RemoveEscapeChars`,
  `CanWildcardStringMatchMultipleValues`+`HasRegexTokens`, `IsRegexToken`; always predicted. -/

namespace Muscle.Eng.WcEngine
open Muscle Muscle.Wildcard Muscle.Eng

structure St where
  c : Compiled := {}
  tree : Option Top := none

def b01 (b : Bool) : String := if b then "1" else "0"

/-- op-line byte strings are C strings: a NUL byte makes the op unparseable on both sides -/
def cstr? (tok : String) : Option Bytes :=
  match bytesOfTok tok with
  | some b => if b.any (· == 0) then none else some b
  | none => none

def noLibc : Libc := fun _ => none

/-- `pat` / `gpat` (a pattern the generator announces as documented: the model must then be able to
    predict it, so a drift between the generator's grammar and the model's shows up as a mismatch) -/
def doPat (st : St) (announced : Bool) (hx : String) : St × String :=
  match cstr? hx with
  | some b =>
    let c := setPattern b
    let t := inGrammar b
    let st' : St := { c := c, tree := t }
    if !c.ranges.isEmpty || c.regex.isNone then (st', "ok")
    else if t.isSome then (st', "ok")
    else (st', if announced then "outside-model-grammar" else "?")
  | none => (st, "bad-op")

def step (st : St) (toks : List String) : St × String :=
  match toks with
  | ["case", n] => ({}, "case " ++ n)
  | ["pat", hx] => doPat st false hx
  | ["gpat", hx] => doPat st true hx
  | ["flags"] =>
    (st, "u=" ++ b01 st.c.isUnique ++ " l=" ++ b01 st.c.uvList ++ " n=" ++ b01 st.c.negate)
  | ["tostr"] => (st, tokOfBytes st.c.toStr)
  | ["match", hx] =>
    match cstr? hx with
    | some s =>
      if !st.c.ranges.isEmpty || st.c.regex.isNone then (st, b01 (matchCompiled noLibc st.c s))
      else match st.tree with
        | some t => (st, b01 (t.denote s))
        | none => (st, "?")
    | none => (st, "bad-op")
  | ["esc", hx] =>
    match cstr? hx with
    | some s => (st, tokOfBytes (escape s))
    | none => (st, "bad-op")
  | ["unesc", hx] =>
    match cstr? hx with
    | some s => (st, tokOfBytes (unescape s))
    | none => (st, "bad-op")
  | ["cmm", hx] =>
    match cstr? hx with
    | some s =>
      let r := canMatchMultipleAux s
      (st, "m=" ++ b01 r.1 ++ " c=" ++ b01 r.2 ++ " h=" ++ b01 (hasRegexTokens s))
    | none => (st, "bad-op")
  | ["tok", c, f] =>
    match nat? c, nat? f with
    | some c, some f => if c < 256 ∧ f < 2 then (st, b01 (isRegexToken (UInt8.ofNat c) (f == 1))) else (st, "bad-op")
    | _, _ => (st, "bad-op")
  | _ => (st, "bad-op")

def engine : Engine := { σ := St, init := {}, step := step }

end Muscle.Eng.WcEngine
