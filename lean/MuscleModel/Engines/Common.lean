import MuscleModel.Base.Bytes

/-! Helpers shared by the op-line interpreters of the model driver. -/

namespace Muscle.Eng
open Muscle

def tokens (line : String) : List String :=
  (line.trimAscii.toString.splitOn " ").filter (· ≠ "")

def nat? (s : String) : Option Nat := s.toNat?

def okErr {α} : Option α → String
  | some _ => "ok"
  | none => "err"

/-- a line-protocol engine: state, reset, one step per op line -/
structure Engine where
  σ : Type
  init : σ
  step : σ → List String → σ × String

end Muscle.Eng
