import MuscleModel.Engines.Common
import MuscleModel.Conc.RWMutex

/-! Engine `rw` (C18): one op line = thread programs + a schedule, executed on the interleaving model of
`ReaderWriterMutex`.  Line and result formats are documented at the top of `harness/rw.cpp`. -/

namespace Muscle.Eng.RWEngine
open Muscle Muscle.Eng Muscle.Conc Muscle.Conc.RW

def maxThreads : Nat := 6
def tailCap : Nat := 4000

def opOfChar : Char → Option Op
  | 'R' => some (.lockR .block) | 'W' => some (.lockW .block)
  | 'r' => some (.lockR .try_)  | 'w' => some (.lockW .try_)
  | 'p' => some (.lockR .timed) | 'q' => some (.lockW .timed)
  | 'u' => some .unlockR        | 'v' => some .unlockW
  | _ => none

def parseProg (s : String) : Option (List Op) :=
  if s = "-" then some [] else if s.isEmpty then none else s.toList.mapM opOfChar

def parseEv (s : String) : Option Ev :=
  if s.startsWith "T" then
    match nat? (s.drop 1).toString with
    | some k => if k < maxThreads then some (.timeout k) else none
    | none => none
  else
    match nat? s with
    | some k => if k < maxThreads then some (.run k) else none
    | none => none

def evName : Ev → String
  | .run t => toString t
  | .timeout t => "T" ++ toString t

def joinComma (l : List String) : String := if l.isEmpty then "_" else ",".intercalate l

/-- the harness's table of unreleased successful acquisitions -/
def holders (n : Nat) (c : Cfg) : String :=
  joinComma ((List.range n).filterMap fun i =>
    let th := c.th i
    if th.hr + th.hw > 0 then some s!"{i}/{th.hr}/{th.hw}" else none)

def stCode : St → String
  | .ok => "+" | .timedOut => "t" | .failed => "e"

def outTok (n : Nat) (c' : Cfg) : Option St → String
  | none => "."
  | some st => stCode st ++ holders n c'

def snapshot (c : Cfg) : String :=
  let s := c.mx
  "E=" ++ joinComma (s.exec.map fun t => s!"{t}/{s.ro t}/{s.rw t}") ++
  " R=" ++ joinComma (s.waitR.map toString) ++ " W=" ++ joinComma (s.waitW.map toString) ++ s!" T={s.total}"

/-- the explicit schedule with the SKIP rule; events naming a thread ≥ n are skipped -/
def runEvents (n : Nat) : Cfg → List Ev → List String → Cfg × List String
  | c, [], acc => (c, acc.reverse)
  | c, e :: es, acc =>
    let t := match e with | .run t => t | .timeout t => t
    match (if t < n then RW.step c e else none) with
    | some (c', o) => runEvents n c' es ((evName e ++ ":" ++ outTok n c' o) :: acc)
    | none => runEvents n c es ((evName e ++ ":-") :: acc)

def firstSome (c : Cfg) (mk : Tid → Ev) : List Tid → Option (Ev × Cfg × Option St)
  | [] => none
  | i :: is => match RW.step c (mk i) with
    | some (c', o) => some (mk i, c', o)
    | none => firstSome c mk is

/-- the TAIL rule -/
def runTail (n : Nat) : Nat → Cfg → List String → Cfg × List String
  | 0, c, acc => (c, acc.reverse)
  | fuel + 1, c, acc =>
    match (firstSome c Ev.run (List.range n)).orElse (fun _ => firstSome c Ev.timeout (List.range n)) with
    | some (e, c', o) => runTail n fuel c' ((evName e ++ ":" ++ outTok n c' o) :: acc)
    | none => (c, acc.reverse)

def runLine (toks : List String) : String :=
  match toks with
  | "x" :: pw :: ns :: rest =>
    match (if pw = "0" then some false else if pw = "1" then some true else none), nat? ns with
    | some prefW, some n =>
      if n < 1 ∨ n > maxThreads ∨ rest.length < n then "bad-op" else
      match (rest.take n).mapM parseProg, (rest.drop n).mapM parseEv with
      | some progs, some evs =>
        let c0 := Cfg.init prefW progs
        let (c1, l1) := runEvents n c0 evs []
        let (c2, l2) := runTail n tailCap c1 []
        let unfinished := (List.range n).filter fun i => (c2.th i).pc ≠ .done
        let enabled := (List.range n).any fun i => (RW.step c2 (.run i)).isSome || (RW.step c2 (.timeout i)).isSome
        let verdict := if unfinished.isEmpty then "done"
                       else (if enabled then "livelock" else "deadlock") ++ " B=" ++ ",".intercalate (unfinished.map toString)
        " ".intercalate (l1 ++ ["|"] ++ l2 ++ [verdict, snapshot c2])
      | _, _ => "bad-op"
    | _, _ => "bad-op"
  | _ => "bad-op"

def step (_ : Unit) (toks : List String) : Unit × String :=
  match toks with
  | ["case", n] => ((), "case " ++ n)
  | _ => ((), runLine toks)

def engine : Engine := { σ := Unit, init := (), step := step }

end Muscle.Eng.RWEngine
