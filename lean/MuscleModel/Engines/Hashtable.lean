import MuscleModel.Engines.Common
import MuscleModel.Containers.HTab

/-!
Engine `ht` (C09): two tables of one kind (`Hashtable` / `OrderedKeysHashtable` / `OrderedValuesHashtable`)
and key type (`uint32` / `String`), `int` values, four iterator slots.  Every table operation is the
corresponding `Tab` function of `Containers/HTab.lean` applied to the table's order list and the
iterators currently registered with it.

Key arguments are literals (`42`, `x6162`) or references into table `t` resolved before the call, as the
C++ harness passes a reference obtained from the table: `@f`/`@l` first/last key, `@a<i>` key at position
`i`, `@i<n>` current key of iterator `n`; the same tokens as value arguments name the value objects.
-/

namespace Muscle.Eng.HtEngine
open Muscle Muscle.Eng Muscle.Containers

structure KeyOps (K : Type) where
  parse : String → Option K
  render : K → String
  lt : K → K → Bool

/-- an unsigned 32-bit decimal token (at most 10 digits, as the harness parses it) -/
def u32? (s : String) : Option Nat :=
  if s.length ≤ 10 then (match nat? s with | some n => if n < 4294967296 then some n else none | none => none) else none

def u32Ops : KeyOps Nat :=
  { parse := u32?
    render := toString
    lt := fun a b => decide (a < b) }

def ltBytes : List UInt8 → List UInt8 → Bool
  | [], [] => false
  | [], _ :: _ => true
  | _ :: _, [] => false
  | a :: r, b :: s => if a < b then true else if b < a then false else ltBytes r s

def strOps : KeyOps (List UInt8) :=
  { parse := fun s => match bytesOfTok s with | some b => if b.contains 0 then none else some b | none => none
    render := tokOfBytes
    lt := ltBytes }

structure Slot (K : Type) where
  owner : Nat
  it : Iter K Nat

structure World (K : Type) where
  kind : Nat                       -- 0 Hashtable, 1 OrderedKeysHashtable, 2 OrderedValuesHashtable
  m0 : OMap K Nat
  as0 : Bool
  m1 : OMap K Nat
  as1 : Bool
  slots : List (Option (Slot K))   -- 4 iterator slots
  /- `_tableSize == 0` (the source of a move construction, `PreallocatedItemSlotsCount(0)`, or swapped with one);
     such a table is always empty -/
  zc0 : Bool := false
  zc1 : Bool := false
  /- behaviour switches for three findings, probed from the real code by the generator and passed on the `init`
     line (bit set = the defect is present; 0 = the behaviour the property demands):
     q1 (R1) a put into a table with no slots fails with B_OUT_OF_MEMORY for ever;
     q2 (R2) `SwapWithTable` swaps the two values in place without re-positioning the entries;
     q3 (R3) `Put` on an existing key re-positions the entry although auto-sort is disabled -/
  q1 : Bool := false
  q2 : Bool := false
  q3 : Bool := false

section
variable {K : Type} [DecidableEq K] (ko : KeyOps K)

def ltKey : K × Nat → K × Nat → Bool := fun a b => ko.lt a.1 b.1
def ltVal : K × Nat → K × Nat → Bool := fun a b => decide (a.2 < b.2)

def ltOf (kind : Nat) : Option (K × Nat → K × Nat → Bool) :=
  if kind = 1 then some (ltKey ko) else if kind = 2 then some ltVal else none

def World.new (kind : Nat) (quirks : Nat := 0) : World K :=
  { kind := kind, m0 := [], as0 := true, m1 := [], as1 := true, slots := [none, none, none, none],
    q1 := quirks % 2 = 1, q2 := (quirks / 2) % 2 = 1, q3 := (quirks / 4) % 2 = 1 }

def World.zc (w : World K) (t : Nat) : Bool := if t = 0 then w.zc0 else w.zc1
def World.setZc (w : World K) (t : Nat) (b : Bool) : World K := if t = 0 then { w with zc0 := b } else { w with zc1 := b }
/-- R1 as the code stands: `EnsureTableAllocated` asks for an array of 0 entries and reports out-of-memory -/
def World.blocked (w : World K) (t : Nat) : Bool := w.q1 && w.zc t

def World.mOf (w : World K) (t : Nat) : OMap K Nat := if t = 0 then w.m0 else w.m1

def gather (t : Nat) (slots : List (Option (Slot K))) : List (Iter K Nat) :=
  slots.filterMap (fun s => match s with
    | some s => if s.owner = t then some s.it else none
    | none => none)

def scatter (t : Nat) : List (Option (Slot K)) → List (Iter K Nat) → List (Option (Slot K))
  | [], _ => []
  | none :: r, its => none :: scatter t r its
  | some s :: r, its =>
    if s.owner = t then
      match its with
      | i :: its' => some { s with it := i } :: scatter t r its'
      | [] => some s :: scatter t r []
    else some s :: scatter t r its

def World.tab (w : World K) (t : Nat) : Tab K Nat :=
  { m := w.mOf t, its := gather t w.slots, autoSort := if t = 0 then w.as0 else w.as1, respectFlag := !w.q3 }

def World.setTab (w : World K) (t : Nat) (tb : Tab K Nat) : World K :=
  let sl := scatter t w.slots tb.its
  if t = 0 then { w with m0 := tb.m, as0 := tb.autoSort, slots := sl }
  else { w with m1 := tb.m, as1 := tb.autoSort, slots := sl }

def World.upd (w : World K) (t : Nat) (f : Tab K Nat → Tab K Nat) : World K := w.setTab t (f (w.tab t))

/-- a put-family call on table `t`: fails without effect on a table with no slots (R1), else allocates -/
def World.putOp (w : World K) (t : Nat) (f : Tab K Nat → Tab K Nat) (ok fail : String) : World K × String :=
  if w.blocked t then (w, fail) else ((w.upd t f).setZc t false, ok)

def kv (p : K × Nat) : String := ko.render p.1 ++ ":" ++ toString p.2

def peekStr (w : World K) (i : Nat) : String :=
  match w.slots.getD i none with
  | some s => match s.it.peek (w.mOf s.owner) with
    | some p => kv ko p
    | none => "end"
  | none => "noit"

def dumpStr (m : OMap K Nat) : String :=
  m.foldl (fun acc p => acc ++ " " ++ kv ko p) ("n=" ++ toString m.length)

inductive Arg (α : Type) where
  | val (a : α)
  | noref
  | bad

def tab? (s : String) : Option Nat := match s with | "0" => some 0 | "1" => some 1 | _ => none
def slot? (s : String) : Option Nat := match s with | "0" => some 0 | "1" => some 1 | "2" => some 2 | "3" => some 3 | _ => none
def bool? (s : String) : Option Bool := match s with | "0" => some false | "1" => some true | _ => none
def val? (s : String) : Option Nat := match u32? s with | some n => if n < 2147483648 then some n else none | none => none

/-- a table entry named by a reference token -/
def refEntry (w : World K) (t : Nat) (tok : String) : Arg (K × Nat) :=
  let m := w.mOf t
  if tok = "@f" then (match m.head? with | some p => .val p | none => .noref)
  else if tok = "@l" then (match m.getLast? with | some p => .val p | none => .noref)
  else if tok.startsWith "@a" then
    match nat? (tok.drop 2).toString with
    | some i => (match m[i]? with | some p => .val p | none => .noref)
    | none => .bad
  else if tok.startsWith "@i" then
    match slot? (tok.drop 2).toString with
    | some i => (match w.slots.getD i none with
      | some s => (match s.it.peek (w.mOf s.owner) with | some p => .val p | none => .noref)
      | none => .noref)
    | none => .bad
  else .bad

def keyArg (w : World K) (t : Nat) (tok : String) : Arg K :=
  if tok.startsWith "@" then (match refEntry w t tok with | .val p => .val p.1 | .noref => .noref | .bad => .bad)
  else match ko.parse tok with | some k => .val k | none => .bad

def valArg (w : World K) (t : Nat) (tok : String) : Arg Nat :=
  if tok.startsWith "@" then (match refEntry w t tok with | .val p => .val p.2 | .noref => .noref | .bad => .bad)
  else match val? tok with | some v => .val v | none => .bad

/-- run `f` with table, key and value resolved -/
def withKV (w : World K) (t k v : String) (f : Nat → K → Nat → World K × String) : World K × String :=
  match tab? t with
  | none => (w, "bad-op")
  | some t =>
    match keyArg ko w t k, valArg w t v with
    | .val k, .val v => f t k v
    | .bad, _ => (w, "bad-op")
    | _, .bad => (w, "bad-op")
    | _, _ => (w, "noref")

def withK (w : World K) (t k : String) (f : Nat → K → World K × String) : World K × String :=
  match tab? t with
  | none => (w, "bad-op")
  | some t =>
    match keyArg ko w t k with
    | .val k => f t k
    | .bad => (w, "bad-op")
    | .noref => (w, "noref")

def withKKV (w : World K) (t k k2 v : String) (f : Nat → K → K → Nat → World K × String) : World K × String :=
  match tab? t with
  | none => (w, "bad-op")
  | some t =>
    match keyArg ko w t k, keyArg ko w t k2, valArg w t v with
    | .val k, .val k2, .val v => f t k k2 v
    | .bad, _, _ => (w, "bad-op")
    | _, .bad, _ => (w, "bad-op")
    | _, _, .bad => (w, "bad-op")
    | _, _, _ => (w, "noref")

def withKK (w : World K) (t k k2 : String) (f : Nat → K → K → World K × String) : World K × String :=
  match tab? t with
  | none => (w, "bad-op")
  | some t =>
    match keyArg ko w t k, keyArg ko w t k2 with
    | .val k, .val k2 => f t k k2
    | .bad, _ => (w, "bad-op")
    | _, .bad => (w, "bad-op")
    | _, _ => (w, "noref")

def withT (w : World K) (t : String) (f : Nat → World K × String) : World K × String :=
  match tab? t with
  | none => (w, "bad-op")
  | some t => f t

def optV : Option Nat → String
  | some v => "ok " ++ toString v
  | none => "none"

def idxStr (n len : Nat) : String := if n < len then toString n else "-1"

def setSlot (w : World K) (i : Nat) (s : Option (Slot K)) : World K := { w with slots := w.slots.set i s }

def step (w : World K) (toks : List String) : World K × String :=
  let lt? := ltOf ko w.kind
  match toks with
  | ["put", t, k, v] => withKV ko w t k v fun t k v => w.putOp t (·.putAux lt? k v) "ok" "err"
  | ["putp", t, k, v] => withKV ko w t k v fun t k v =>
      w.putOp t (·.putAux lt? k v) (match get (w.mOf t) k with | some o => "ok old=" ++ toString o | none => "ok new") "err new"
  | ["putd", t, k] => withK ko w t k fun t k => w.putOp t (·.putAux lt? k 0) "ok" "err"
  | ["pag", t, k, v] => withKV ko w t k v fun t k v => w.putOp t (·.putAux lt? k v) ("ok " ++ toString v) "err"
  | ["gop", t, k, v] => withKV ko w t k v fun t k v =>
      match get (w.mOf t) k with
      | some o => (w, "ok " ++ toString o)          -- `GetOrPut`: an existing entry is returned untouched
      | none => w.putOp t (·.putAux lt? k v) ("ok " ++ toString v) "err"
  | ["pinp", t, k, v] => withKV ko w t k v fun t k v =>
      if has (w.mOf t) k then (w, "null") else w.putOp t (·.putAux lt? k v) ("ok " ++ toString v) "null"
  | ["por", t, k, v] => withKV ko w t k v fun t k v =>
      if v = 0 then (w.upd t (·.removeKey k), "ok") else w.putOp t (·.putAux lt? k v) "ok" "err"
  | ["pfront", t, k, v] => withKV ko w t k v fun t k v => w.putOp t (·.putAtFront lt? k v) "ok" "err"
  | ["pback", t, k, v] => withKV ko w t k v fun t k v => w.putOp t (·.putAtBack lt? k v) "ok" "err"
  | ["pbefore", t, k, k2, v] => withKKV ko w t k k2 v fun t k k2 v => w.putOp t (·.putBefore lt? k k2 v) "ok" "err"
  | ["pbehind", t, k, k2, v] => withKKV ko w t k k2 v fun t k k2 v => w.putOp t (·.putBehind lt? k k2 v) "ok" "err"
  | ["ppos", t, k, p, v] =>
      match u32? p with
      | some p => withKV ko w t k v fun t k v => w.putOp t (·.putAtPosition lt? k p v) "ok" "err"
      | none => (w, "bad-op")
  | ["get", t, k] => withK ko w t k fun t k => (w, optV (get (w.mOf t) k))
  | ["getd", t, k] => withK ko w t k fun t k => (w, toString ((get (w.mOf t) k).getD 0))
  | ["has", t, k] => withK ko w t k fun t k => (w, toString (has (w.mOf t) k))
  | ["hasv", t, v] => withT w t fun t =>
      match valArg w t v with
      | .val v => (w, toString ((w.mOf t).any (fun p => p.2 = v)))
      | .noref => (w, "noref")
      | .bad => (w, "bad-op")
  | ["idx", t, k] => withK ko w t k fun t k => (w, idxStr (indexOf (w.mOf t) k) (w.mOf t).length)
  | ["idxv", t, v, b] => withT w t fun t =>
      match valArg w t v, bool? b with
      | .val v, some b =>
        let m := w.mOf t
        if b then
          (match (m.reverse.findIdx? (fun p => p.2 = v)) with
           | some i => (w, toString (m.length - 1 - i))
           | none => (w, "-1"))
        else (match m.findIdx? (fun p => p.2 = v) with | some i => (w, toString i) | none => (w, "-1"))
      | .noref, some _ => (w, "noref")
      | _, _ => (w, "bad-op")
  | ["keyat", t, i] => withT w t fun t =>
      match u32? i with
      | some i => (w, match (w.mOf t)[i]? with | some p => "ok " ++ ko.render p.1 | none => "none")
      | none => (w, "bad-op")
  | ["valat", t, i] => withT w t fun t =>
      match u32? i with
      | some i => (w, match (w.mOf t)[i]? with | some p => "ok " ++ toString p.2 | none => "none")
      | none => (w, "bad-op")
  | ["first", t] => withT w t fun t => (w, match (w.mOf t).head? with | some p => "ok " ++ kv ko p | none => "none")
  | ["last", t] => withT w t fun t => (w, match (w.mOf t).getLast? with | some p => "ok " ++ kv ko p | none => "none")
  | ["kbefore", t, k] => withK ko w t k fun t k =>
      (w, match nbr (w.mOf t) true k with | some x => "ok " ++ ko.render x | none => "none")
  | ["kafter", t, k] => withK ko w t k fun t k =>
      (w, match nbr (w.mOf t) false k with | some x => "ok " ++ ko.render x | none => "none")
  | ["rem", t, k] => withK ko w t k fun t k =>
      if has (w.mOf t) k then (w.upd t (·.removeKey k), "ok") else (w, "err")
  | ["remv", t, k] => withK ko w t k fun t k =>
      match get (w.mOf t) k with
      | some v => (w.upd t (·.removeKey k), "ok " ++ toString v)
      | none => (w, "err")
  | ["remd", t, k] => withK ko w t k fun t k =>
      match get (w.mOf t) k with
      | some v => (w.upd t (·.removeKey k), toString v)
      | none => (w, "0")
  | ["remf", t] => withT w t fun t =>
      match (w.mOf t).head? with
      | some p => (w.upd t (·.removeKey p.1), "ok " ++ kv ko p)
      | none => (w, "err")
  | ["reml", t] => withT w t fun t =>
      match (w.mOf t).getLast? with
      | some p => (w.upd t (·.removeKey p.1), "ok " ++ kv ko p)
      | none => (w, "err")
  | ["remt", t] => withT w t fun t =>
      let ks := keys (w.mOf (1 - t))
      (w.upd t (·.removeAll ks), toString (ks.filter (fun k => has (w.mOf t) k)).length)
  | ["isect", t] => withT w t fun t =>
      let o := w.mOf (1 - t)
      (w.upd t (·.intersect o), toString ((keys (w.mOf t)).filter (fun k => !has o k)).length)
  | ["clear", t, r] => withT w t fun t =>
      match bool? r with
      | some r => ((w.upd t (·.clear)).setZc t (w.zc t && !r), "ok")   -- `Clear(true)` goes back to the default capacity
      | none => (w, "bad-op")
  | ["mfront", t, k] => withK ko w t k fun t k =>
      if has (w.mOf t) k then (w.upd t (·.moveFrontAux k), "ok") else (w, "err")
  | ["mback", t, k] => withK ko w t k fun t k =>
      if has (w.mOf t) k then (w.upd t (·.moveBackAux k), "ok") else (w, "err")
  | ["mbefore", t, k, k2] => withKK ko w t k k2 fun t k k2 =>
      if has (w.mOf t) k ∧ has (w.mOf t) k2 ∧ k ≠ k2 then (w.upd t (·.moveBeforeAux k k2), "ok") else (w, "err")
  | ["mbehind", t, k, k2] => withKK ko w t k k2 fun t k k2 =>
      if has (w.mOf t) k ∧ has (w.mOf t) k2 ∧ k ≠ k2 then (w.upd t (·.moveBehindAux k k2), "ok") else (w, "err")
  | ["mpos", t, k, p] =>
      match u32? p with
      | some p => withK ko w t k fun t k =>
          if has (w.mOf t) k then (w.upd t (·.movePosAux k p), "ok") else (w, "err")
      | none => (w, "bad-op")
  | ["gmf", t, k] => withK ko w t k fun t k =>
      match get (w.mOf t) k with
      | some v => (w.upd t (·.moveFrontAux k), "ok " ++ toString v)
      | none => (w, "none")
  | ["gmb", t, k] => withK ko w t k fun t k =>
      match get (w.mOf t) k with
      | some v => (w.upd t (·.moveBackAux k), "ok " ++ toString v)
      | none => (w, "none")
  | ["sortk", t] => withT w t fun t => (w.upd t (·.sort (ltKey ko)), "ok")
  | ["sortv", t] => withT w t fun t => (w.upd t (·.sort ltVal), "ok")
  | ["sort", t] => withT w t fun t =>
      match lt? with
      | some lt => (w.upd t (·.sort lt), "ok")
      | none => (w, "ok")
  | ["autosort", t, en, now] => withT w t fun t =>
      match lt?, bool? en, bool? now with
      | some _, some en, some now => (w.upd t (·.setAutoSort lt? en now), "ok")
      | _, _, _ => (w, "bad-op")
  | ["repos", t, k] =>
      match lt? with
      | some _ => withK ko w t k fun t k =>
          if has (w.mOf t) k then (w.upd t (·.reposition lt? k), "ok") else (w, "err")
      | none => (w, "bad-op")
  | ["ensure", t, n, s] => withT w t fun t =>
      match u32? n, bool? s with
      | some n, some _ =>
        if n = 4294967295 then (w, "err")
        else if n ≤ 1000000 then (w.setZc t (w.zc t && n = 0), "ok")   -- a table without slots stays so only for `EnsureSize(0)`
        else (w, "bad-op")
      | _, _ => (w, "bad-op")
  | ["shrink", t, n] => withT w t fun t =>
      match u32? n with
      | some n => if n ≤ 1000000 then (w.setZc t (w.zc t && n = 0), "ok") else (w, "bad-op")
      | none => (w, "bad-op")
  | ["ecp", t, n] => withT w t fun t =>        -- `EnsureCanPut(n)`
      match u32? n with
      | some n =>
        if n = 4294967295 then (w, "err")      -- overflows `GetNumItems()+n`, or asks for MUSCLE_NO_LIMIT slots
        else if n ≤ 1000000 then (w.setZc t (w.zc t && n = 0), "ok")
        else (w, "bad-op")
      | none => (w, "bad-op")
  | ["copy", t] => withT w t fun t =>       -- `CopyFrom` calls `EnsureSize(n)` first when the source has items
      ((w.upd t (·.copyFrom lt? (w.mOf (1 - t)) true)).setZc t (w.zc t && (w.mOf (1 - t)).isEmpty), "ok")
  | ["putall", t] => withT w t fun t =>
      ((w.upd t (·.copyFrom lt? (w.mOf (1 - t)) false)).setZc t (w.zc t && (w.mOf (1 - t)).isEmpty), "ok")
  | ["cctor", t] => withT w t fun t =>
      (w, dumpStr ko ((Tab.empty : Tab K Nat).copyFrom lt? (w.mOf t) true).m)
  | ["swap"] =>
      ({ w with m0 := w.m1, m1 := w.m0, zc0 := w.zc1, zc1 := w.zc0,
                slots := w.slots.map (fun s => s.map (fun s => { s with owner := 1 - s.owner })) }, "ok")
  | ["massign", t] => withT w t fun _ =>      -- `a = std::move(b)` is `a.SwapContents(b)`
      ({ w with m0 := w.m1, m1 := w.m0, zc0 := w.zc1, zc1 := w.zc0,
                slots := w.slots.map (fun s => s.map (fun s => { s with owner := 1 - s.owner })) }, "ok")
  | ["movector", t] => withT w t fun t =>
      -- table `1-t` is replaced by `new Table(std::move(table t))`: the new object (auto-sort on) takes t's array,
      -- entries and iterators; t is left with no slots; the old `1-t` is destroyed (its iterators detach)
      let w1 := w.upd (1 - t) (fun tb => { tb.clear with autoSort := true })
      let sl := w1.slots.map (fun s => s.map (fun s => if s.owner = t then { s with owner := 1 - t } else
                  { s with owner := 2 }))      -- owner 2 = no table: detached iterators (cur = none) never look at one
      let w2 := if t = 0 then { w1 with m1 := w1.m0, m0 := [], zc1 := w1.zc0, zc0 := true, slots := sl }
                else { w1 with m0 := w1.m1, m1 := [], zc0 := w1.zc1, zc1 := true, slots := sl }
      (w2, "ok")
  | ["mkpre", t, n] => withT w t fun t =>     -- table t := new Table(PreallocatedItemSlotsCount(n))
      match u32? n with
      | some n =>
        if n ≤ 1000000 then ((w.upd t (fun tb => { tb.clear with autoSort := true })).setZc t (n = 0), "ok") else (w, "bad-op")
      | none => (w, "bad-op")
  | ["setv", t, k, v] => withKV ko w t k v fun t k v =>     -- `*t.Get(k) = v`: in-place update, nothing re-positioned
      if has (w.mOf t) k then (w.upd t (fun tb => { tb with m := setVal tb.m k v }), "ok") else (w, "none")
  | ["swt", t, k] => withK ko w t k fun t k =>              -- `SwapWithTable(k, other)`
      let o := 1 - t
      match get (w.mOf t) k, get (w.mOf o) k with
      | none, none => (w, "err")
      | some a, some b =>
        if w.q2 then
          (((w.upd t (fun tb => { tb with m := setVal tb.m k b })).upd o (fun tb => { tb with m := setVal tb.m k a })), "ok")
        else (((w.upd t (·.putAux lt? k b)).upd o (·.putAux lt? k a)), "ok")
      | some a, none =>
        if w.blocked o then (w, "err") else ((((w.upd o (·.putAux lt? k a)).setZc o false).upd t (·.removeKey k)), "ok")
      | none, some b =>
        if w.blocked t then (w, "err") else ((((w.upd t (·.putAux lt? k b)).setZc t false).upd o (·.removeKey k)), "ok")
  | ["eq", o] =>
      match bool? o with
      | some o => (w, toString (isEqualTo w.m0 w.m1 o))
      | none => (w, "bad-op")
  | ["mtt", t, k] => withK ko w t k fun t k =>
      match get (w.mOf t) k with
      | some v =>
        if w.blocked (1 - t) then (w, "err")
        else ((((w.upd (1 - t) (·.putAux lt? k v)).setZc (1 - t) false).upd t (·.removeKey k)), "ok")
      | none => (w, "err")
  | ["ctt", t, k] => withK ko w t k fun t k =>
      match get (w.mOf t) k with
      | some v => if w.blocked (1 - t) then (w, "err") else ((w.upd (1 - t) (·.putAux lt? k v)).setZc (1 - t) false, "ok")
      | none => (w, "err")
  | ["destroy", t] => withT w t fun t => ((w.upd t (fun tb => { tb.clear with autoSort := true })).setZc t false, "ok")
  | ["n", t] => withT w t fun t => (w, toString (w.mOf t).length)
  | ["dump", t] => withT w t fun t => (w, dumpStr ko (w.mOf t))
  | ["itnew", i, t, b] =>
      match slot? i, tab? t, bool? b with
      | some i, some t, some b =>
        let w' := setSlot w i (some { owner := t, it := Iter.start (w.mOf t) b })
        (w', peekStr ko w' i)
      | _, _, _ => (w, "bad-op")
  | ["itat", i, t, k, b] =>
      match slot? i, bool? b with
      | some i, some b => withK ko w t k fun t k =>
          let w' := setSlot w i (some { owner := t, it := Iter.startAt (w.mOf t) k b })
          (w', peekStr ko w' i)
      | _, _ => (w, "bad-op")
  | ["itnext", i] =>
      match slot? i with
      | some i =>
        (match w.slots.getD i none with
         | some s => let w' := setSlot w i (some { s with it := s.it.next (w.mOf s.owner) }); (w', peekStr ko w' i)
         | none => (w, "noit"))
      | none => (w, "bad-op")
  | ["itprev", i] =>
      match slot? i with
      | some i =>
        (match w.slots.getD i none with
         | some s => let w' := setSlot w i (some { s with it := s.it.prev (w.mOf s.owner) }); (w', peekStr ko w' i)
         | none => (w, "noit"))
      | none => (w, "bad-op")
  | ["itpeek", i] =>
      match slot? i with
      | some i => (w, peekStr ko w i)
      | none => (w, "bad-op")
  | ["itdrop", i] =>
      match slot? i with
      | some i => (match w.slots.getD i none with | some _ => (setSlot w i none, "ok") | none => (w, "noit"))
      | none => (w, "bad-op")
  | ["itback", i, b] =>
      match slot? i, bool? b with
      | some i, some b =>
        (match w.slots.getD i none with
         | some s => (setSlot w i (some { s with it := { s.it with back := b } }), "ok")
         | none => (w, "noit"))
      | _, _ => (w, "bad-op")
  | ["itcopy", i, j] =>
      match slot? i, slot? j with
      | some i, some j =>
        (match w.slots.getD i none with
         | some s => (setSlot w j (some s), "ok")
         | none => (w, "noit"))
      | _, _ => (w, "bad-op")
  | _ => (w, "bad-op")

end

/-- the two key types share one interpreter -/
inductive St where
  | none
  | u (w : World Nat)
  | s (w : World (List UInt8))

def kind? : String → Option Nat
  | "h" => some 0
  | "k" => some 1
  | "v" => some 2
  | _ => none

def stepSt (st : St) (toks : List String) : St × String :=
  match toks with
  | ["case", n] => (.none, "case " ++ n)
  | ["init", k, kt, hm] =>
    match kind? k, nat? hm with
    | some k, some _ =>
      if kt = "u" then (.u (World.new k), "ok") else if kt = "s" then (.s (World.new k), "ok") else (st, "bad-op")
    | _, _ => (st, "bad-op")
  | ["init", k, kt, hm, q] =>
    match kind? k, nat? hm, nat? q with
    | some k, some _, some q =>
      if q ≥ 8 then (st, "bad-op")
      else if kt = "u" then (.u (World.new k q), "ok") else if kt = "s" then (.s (World.new k q), "ok") else (st, "bad-op")
    | _, _, _ => (st, "bad-op")
  | _ =>
    match st with
    | .none => (st, "noinit")
    | .u w => let r := step u32Ops w toks; (.u r.1, r.2)
    | .s w => let r := step strOps w toks; (.s r.1, r.2)

def engine : Engine := { σ := St, init := .none, step := stepSt }

end Muscle.Eng.HtEngine
