import MuscleModel.Engines.Common
import MuscleModel.Containers.QRing

/-!
Engine `q` (C16): three `Queue<ItemType>` registers driven through the public API.

Items are `Option Nat`: `some v` is the value `v` (an `int32` or a canary holding `v`), `none` is an
item whose value the API leaves unspecified — the slot handed out by the no-argument
`AddTailAndGet()/AddHeadAndGet()` of a trivial item type, documented as uninitialised, until it is
written.  A result line that would show such an item is `?` (no prediction).  An operation whose
effect depends on the *value* of an unspecified item (search, sort, compare, remove-by-value)
poisons its register: every later result of that register is `?` until it is cleared or assigned.
The generator writes the item (or removes it) before it uses such operations, so `?` stays rare.
-/

namespace Muscle.Eng.QueueEngine
open Muscle Muscle.Eng Muscle.Containers

abbrev Item := Option Nat
abbrev R := Ring Item

structure St where
  ready : Bool
  cfg : ItemCfg Item
  regs : List (Option R)      -- `none` = poisoned

def nregs : Nat := 3
def maxVal : Nat := 2147483648        -- item values are below 2^31
def maxU32 : Nat := 4294967296
def maxSlots : Nat := 4096            -- the harness rejects larger pre-allocations

def mkCfg (ty sq : Nat) : ItemCfg Item :=
  { dflt := some 0, junk := none, clear := ty ≠ 0, moves := ty = 1, sq := sq }

def init : St := { ready := false, cfg := mkCfg 0 3, regs := [] }

def ltItem (keyed : Bool) : Item → Item → Bool
  | some a, some b => if keyed then a / 16 < b / 16 else a < b
  | _, _ => false

def reg? (s : String) : Option Nat := do let n ← nat? s; if n < nregs then pure n else none
def val? (s : String) : Option Nat := do let n ← nat? s; if n < maxVal then pure n else none
def u32? (s : String) : Option Nat := do let n ← nat? s; if n < maxU32 then pure n else none
def slots? (s : String) : Option Nat := do let n ← nat? s; if n ≤ maxSlots then pure n else none
def bool? (s : String) : Option Bool := match s with | "0" => some false | "1" => some true | _ => none
def vals? (s : String) : Option (List Item) :=
  if s = "-" then some [] else (s.splitOn ",").mapM (fun t => (val? t).map some)

def showItem : Item → Option String
  | some v => some (toString v)
  | none => none

def showItems (l : List Item) : Option String := do
  let ss ← l.mapM showItem
  pure (String.intercalate " " (toString l.length :: ss))

def orQ (o : Option String) : String := o.getD "?"

def getReg (st : St) (r : Nat) : Option R := (st.regs.getD r none)
def setReg (st : St) (r : Nat) (q : Option R) : St := { st with regs := st.regs.set r q }

def hasJunk (c : ItemCfg Item) (q : R) : Bool := (q.abs c).any (· == none)

/-- positional op on one register: never poisons -/
def pos (st : St) (r : Nat) (f : R → R × String) : St × String :=
  match getReg st r with
  | none => (st, "?")
  | some q => let (q', s) := f q; (setReg st r (some q'), s)

/-- value-dependent op on one register: poisons it when an unspecified item is visible -/
def dep (st : St) (r : Nat) (f : R → R × String) : St × String :=
  match getReg st r with
  | none => (st, "?")
  | some q => if hasJunk st.cfg q then (setReg st r none, "?") else let (q', s) := f q; (setReg st r (some q'), s)

/-- read-only value-dependent query on two registers -/
def qry2 (st : St) (r s : Nat) (f : R → R → String) : St × String :=
  match getReg st r, getReg st s with
  | some a, some b => if hasJunk st.cfg a || hasJunk st.cfg b then (st, "?") else (st, f a b)
  | _, _ => (st, "?")

/-- the items `[start, start+num)` (clipped) of a source queue, as `AddTailMulti/InsertItemsAt` select them -/
def selItems (c : ItemCfg Item) (src : R) (start num : Nat) : List Item :=
  ((src.abs c).drop start).take (Ring.clipNum src.count start num)

def okS (b : Bool) : String := if b then "ok" else "err"
def idxS : Option Nat → String
  | some i => toString i
  | none => "-1"

def step (st : St) (toks : List String) : St × String :=
  let c := st.cfg
  match toks with
  | ["case", n] => (init, "case " ++ n)
  | ["new", ty, sq] =>
    match nat? ty, nat? sq with
    | some ty, some sq =>
      if ty < 3 ∧ 0 < sq ∧ sq ≤ 64 then
        let c := mkCfg ty sq
        ({ ready := true, cfg := c, regs := List.replicate nregs (some (Ring.empty c)) }, "ok")
      else (st, "bad-op")
    | _, _ => (st, "bad-op")
  | _ =>
  if !st.ready then (st, "bad-op") else
  match toks with
  | ["addtail", r, v] =>
    match reg? r, val? v with
    | some r, some v => pos st r fun q => (q.addTail c (some v), "ok")
    | _, _ => (st, "bad-op")
  | ["addhead", r, v] =>
    match reg? r, val? v with
    | some r, some v => pos st r fun q => (q.addHead c (some v), "ok")
    | _, _ => (st, "bad-op")
  | ["addtaild", r] =>
    match reg? r with
    | some r => pos st r fun q => (q.addTail c c.dflt, "ok")
    | _ => (st, "bad-op")
  | ["addheadd", r] =>
    match reg? r with
    | some r => pos st r fun q => (q.addHead c c.dflt, "ok")
    | _ => (st, "bad-op")
  | ["addtailat", r, i] =>
    match reg? r, u32? i with
    | some r, some i =>
      match getReg st r with
      | none => (st, "?")
      | some q => if i < q.count then (setReg st r (some (q.addTail c (q.get c i))), "ok") else (st, "bad-op")
    | _, _ => (st, "bad-op")
  | ["addheadat", r, i] =>
    match reg? r, u32? i with
    | some r, some i =>
      match getReg st r with
      | none => (st, "?")
      | some q => if i < q.count then (setReg st r (some (q.addHead c (q.get c i))), "ok") else (st, "bad-op")
    | _, _ => (st, "bad-op")
  | "tailget" :: r :: rest =>
    match reg? r, (match rest with | [] => some none | [v] => (val? v).map some | _ => none) with
    | some r, some w => pos st r fun q =>
        let q1 := q.addTailRaw c
        -- the slot is handed out as it is: unspecified for a trivial item type, until written
        let q2 := match w with
          | some v => { q1 with slots := q1.slots.set q1.tail (some v) }
          | none => if c.clear then q1 else { q1 with slots := q1.slots.set q1.tail none }
        (q2, "ok")
    | _, _ => (st, "bad-op")
  | "headget" :: r :: rest =>
    match reg? r, (match rest with | [] => some none | [v] => (val? v).map some | _ => none) with
    | some r, some w => pos st r fun q =>
        let q1 := q.addHeadRaw c
        let q2 := match w with
          | some v => { q1 with slots := q1.slots.set q1.head (some v) }
          | none => if c.clear then q1 else { q1 with slots := q1.slots.set q1.head none }
        (q2, "ok")
    | _, _ => (st, "bad-op")
  | ["remhead", r] =>
    match reg? r with
    | some r => pos st r fun q =>
        let v := q.get c 0
        let (q', ok) := q.removeHead c
        (q', if ok then orQ ((showItem v).map ("ok " ++ ·)) else "err")
    | _ => (st, "bad-op")
  | ["remtail", r] =>
    match reg? r with
    | some r => pos st r fun q =>
        let v := q.get c (q.count - 1)
        let (q', ok) := q.removeTail c
        (q', if ok then orQ ((showItem v).map ("ok " ++ ·)) else "err")
    | _ => (st, "bad-op")
  | ["remheadm", r, n] =>
    match reg? r, u32? n with
    | some r, some n => pos st r fun q => let (q', k) := q.removeHeadMulti c n; (q', toString k)
    | _, _ => (st, "bad-op")
  | ["remtailm", r, n] =>
    match reg? r, u32? n with
    | some r, some n => pos st r fun q => let (q', k) := q.removeTailMulti c n; (q', toString k)
    | _, _ => (st, "bad-op")
  | ["remat", r, i] =>
    match reg? r, u32? i with
    | some r, some i => pos st r fun q =>
        let v := q.get c i
        let (q', ok) := q.removeItemAt c i
        (q', if ok then orQ ((showItem v).map ("ok " ++ ·)) else "err")
    | _, _ => (st, "bad-op")
  | ["get", r, i] =>
    match reg? r, u32? i with
    | some r, some i => pos st r fun q =>
        (q, match q.getItemAt c i with | some v => orQ ((showItem v).map ("ok " ++ ·)) | none => "err")
    | _, _ => (st, "bad-op")
  | ["set", r, i, v] =>
    match reg? r, u32? i, val? v with
    | some r, some i, some v => pos st r fun q => let (q', ok) := q.replaceItemAt i (some v); (q', okS ok)
    | _, _, _ => (st, "bad-op")
  | ["ins", r, i, v] =>
    match reg? r, u32? i, val? v with
    | some r, some i, some v => pos st r fun q => (q.insertItemAt c i (some v), "ok")
    | _, _, _ => (st, "bad-op")
  | ["insat", r, i, j] =>
    match reg? r, u32? i, u32? j with
    | some r, some i, some j =>
      match getReg st r with
      | none => (st, "?")
      | some q => if j < q.count then (setReg st r (some (q.insertItemAt c i (q.get c j))), "ok") else (st, "bad-op")
    | _, _, _ => (st, "bad-op")
  | ["insq", r, i, s, start, num] =>
    match reg? r, u32? i, reg? s, u32? start, u32? num with
    | some r, some i, some s, some start, some num =>
      match getReg st r, getReg st s with
      | some q, some src =>
        if r = s then (setReg st r (some (q.insertItemsSelf c i start num)), "ok")
        else (setReg st r (some (q.insertItemsAt c i (selItems c src start num) true)), "ok")
      | _, _ => (setReg st r none, "?")
    | _, _, _, _, _ => (st, "bad-op")
  | ["addtailq", r, s, start, num] =>
    match reg? r, reg? s, u32? start, u32? num with
    | some r, some s, some start, some num =>
      match getReg st r, getReg st s with
      | some q, some src =>
        if r = s then (setReg st r (some (q.addTailSelf c start num)), "ok")
        else (setReg st r (some (q.addTailMulti c (selItems c src start num))), "ok")
      | _, _ => (setReg st r none, "?")
    | _, _, _, _ => (st, "bad-op")
  | ["addheadq", r, s, start, num] =>
    match reg? r, reg? s, u32? start, u32? num with
    | some r, some s, some start, some num =>
      match getReg st r, getReg st s with
      | some q, some src =>
        if r = s then (setReg st r (some (q.addHeadSelf c start num)), "ok")
        else (setReg st r (some (q.addHeadMulti c (selItems c src start num))), "ok")
      | _, _ => (setReg st r none, "?")
    | _, _, _, _ => (st, "bad-op")
  | ["insa", r, i, vs] =>
    match reg? r, u32? i, vals? vs with
    | some r, some i, some xs => pos st r fun q => (q.insertItemsAt c i xs false, "ok")
    | _, _, _ => (st, "bad-op")
  | ["addtaila", r, vs] =>
    match reg? r, vals? vs with
    | some r, some xs => pos st r fun q => (q.addTailMulti c xs, "ok")
    | _, _ => (st, "bad-op")
  | ["addheada", r, vs] =>
    match reg? r, vals? vs with
    | some r, some xs => pos st r fun q => (q.addHeadMulti c xs, "ok")
    | _, _ => (st, "bad-op")
  | ["clear", r, rel] =>
    match reg? r, bool? rel with
    | some r, some rel =>
      match getReg st r with
      | some q => (setReg st r (some (q.clear c rel)), "ok")
      | none => (setReg st r (some (Ring.empty c)), "ok")   -- an empty queue again, whatever it held
    | _, _ => (st, "bad-op")
  | ["ensure", r, n, sn, extra, shrink] =>
    match reg? r, slots? n, bool? sn, slots? extra, bool? shrink with
    | some r, some n, some sn, some extra, some shrink => pos st r fun q => (q.ensureSizeAux c n sn extra shrink, "ok")
    | _, _, _, _, _ => (st, "bad-op")
  | ["shrinkfit", r, extra] =>
    match reg? r, slots? extra with
    | some r, some extra => pos st r fun q => (q.ensureSizeAux c (q.count + extra) false 0 true, "ok")
    | _, _ => (st, "bad-op")
  | ["idx", r, v, a, b] =>
    match reg? r, val? v, u32? a, u32? b with
    | some r, some v, some a, some b => dep st r fun q => (q, idxS (q.indexOf c (some v) a b))
    | _, _, _, _ => (st, "bad-op")
  | ["lidx", r, v, a, b] =>
    match reg? r, val? v, u32? a, u32? b with
    | some r, some v, some a, some b => dep st r fun q => (q, idxS (q.lastIndexOf c (some v) a b))
    | _, _, _, _ => (st, "bad-op")
  | ["swap", r, i, j] =>
    match reg? r, u32? i, u32? j with
    | some r, some i, some j =>
      match getReg st r with
      | none => (st, "?")
      | some q => if i < q.count ∧ j < q.count then (setReg st r (some (q.swap c i j)), "ok") else (st, "bad-op")
    | _, _, _ => (st, "bad-op")
  | ["rev", r, a, b] =>
    match reg? r, u32? a, u32? b with
    | some r, some a, some b => pos st r fun q => (q.reverse c a b, "ok")
    | _, _, _ => (st, "bad-op")
  | ["sort", r, a, b, k] =>
    match reg? r, u32? a, u32? b, bool? k with
    | some r, some a, some b, some k => dep st r fun q => (q.sort c (ltItem k) a b, "ok")
    | _, _, _, _ => (st, "bad-op")
  | ["inssorted", r, v] =>
    match reg? r, val? v with
    | some r, some v => dep st r fun q => let (q', i) := q.insertSortedPos c (ltItem false) (some v); (q', toString i)
    | _, _ => (st, "bad-op")
  | ["remall", r, v] =>
    match reg? r, val? v with
    | some r, some v => dep st r fun q => let (q', n) := q.removeAll c (some v); (q', toString n)
    | _, _ => (st, "bad-op")
  | ["remallat", r, i] =>
    match reg? r, u32? i with
    | some r, some i =>
      match getReg st r with
      | none => (st, "?")
      | some q =>
        if i < q.count then dep st r fun q => let (q', n) := q.removeAll c (q.get c i); (q', toString n)
        else (st, "bad-op")
    | _, _ => (st, "bad-op")
  | ["remfirst", r, v] =>
    match reg? r, val? v with
    | some r, some v => dep st r fun q => let (q', ok) := q.removeFirst c (some v); (q', okS ok)
    | _, _ => (st, "bad-op")
  | ["remlast", r, v] =>
    match reg? r, val? v with
    | some r, some v => dep st r fun q => let (q', ok) := q.removeLast c (some v); (q', okS ok)
    | _, _ => (st, "bad-op")
  | ["remdup", r] =>
    match reg? r with
    | some r => dep st r fun q => let (q', n) := q.removeDups c (ltItem false); (q', toString n)
    | _ => (st, "bad-op")
  | ["remsdup", r] =>
    match reg? r with
    | some r => dep st r fun q => let (q', n) := q.removeSortedDups c; (q', toString n)
    | _ => (st, "bad-op")
  | ["starts", r, s] =>
    match reg? r, reg? s with
    | some r, some s => qry2 st r s fun a b => toString (a.startsWith c (b.abs c))
    | _, _ => (st, "bad-op")
  | ["ends", r, s] =>
    match reg? r, reg? s with
    | some r, some s => qry2 st r s fun a b => toString (a.endsWith c (b.abs c))
    | _, _ => (st, "bad-op")
  | ["eq", r, s] =>
    match reg? r, reg? s with
    | some r, some s => if r = s then (st, "true") else qry2 st r s fun a b => toString (a.equals c (b.abs c))
    | _, _ => (st, "bad-op")
  | ["cmp", r, s] =>
    match reg? r, reg? s with
    | some r, some s => qry2 st r s fun a b =>
        match lexCompare (ltItem false) (a.abs c) (b.abs c) with | 0 => "lt" | 1 => "eq" | _ => "gt"
    | _, _ => (st, "bad-op")
  | ["startsi", r, v] =>
    match reg? r, val? v with
    | some r, some v => pos st r fun q =>
        (q, if q.count = 0 then "false" else match q.get c 0 with | some x => toString (x == v) | none => "?")
    | _, _ => (st, "bad-op")
  | ["endsi", r, v] =>
    match reg? r, val? v with
    | some r, some v => pos st r fun q =>
        (q, if q.count = 0 then "false" else match q.get c (q.count - 1) with | some x => toString (x == v) | none => "?")
    | _, _ => (st, "bad-op")
  | ["head", r] =>
    match reg? r with
    | some r => pos st r fun q => (q, orQ (showItem (if q.count = 0 then c.dflt else q.get c 0)))
    | _ => (st, "bad-op")
  | ["tail", r] =>
    match reg? r with
    | some r => pos st r fun q => (q, orQ (showItem (if q.count = 0 then c.dflt else q.get c (q.count - 1))))
    | _ => (st, "bad-op")
  | ["norm", r] =>
    match reg? r with
    | some r => pos st r fun q => let q' := q.normalize c; (q', if q'.isNormalized then "ok" else "not-normalized")
    | _ => (st, "bad-op")
  | ["copy", r, s] =>
    match reg? r, reg? s with
    | some r, some s =>
      if r = s then (st, "ok") else
      match getReg st s with
      | none => (setReg st r none, "ok")
      | some src => (setReg st r (some (((getReg st r).getD (Ring.empty c)).assign c (src.abs c))), "ok")
    | _, _ => (st, "bad-op")
  | ["copyfrom", r, s] =>
    match reg? r, reg? s with
    | some r, some s =>
      if r = s then (st, "ok") else
      match getReg st s with
      | none => (setReg st r none, "ok")
      | some src => (setReg st r (some (((getReg st r).getD (Ring.empty c)).copyFrom c (src.abs c))), "ok")
    | _, _ => (st, "bad-op")
  | ["move", r, s] =>
    match reg? r, reg? s with
    | some r, some s =>
      if r = s then (st, "ok") else      -- `Plunder(*this)` returns at once (repair of the self-move finding)
      match getReg st r, getReg st s with
      | some a, some b => let (a', b') := plunder c a b; (setReg (setReg st r (some a')) s (some b'), "ok")
      | _, _ => (setReg (setReg st r none) s none, "ok")
    | _, _ => (st, "bad-op")
  | ["swapc", r, s] =>
    match reg? r, reg? s with
    | some r, some s =>
      if r = s then (st, "ok") else
      match getReg st r, getReg st s with
      | some a, some b => let (a', b') := swapContents c a b; (setReg (setReg st r (some a')) s (some b'), "ok")
      | _, _ => (setReg (setReg st r none) s none, "ok")
    | _, _ => (st, "bad-op")
  | ["movector", r, s] =>       -- regs[r] is replaced by `Queue(std::move(regs[s]))`
    match reg? r, reg? s with
    | some r, some s =>
      if r = s then (st, "bad-op") else
      match getReg st s with
      | some b => let (a', b') := plunder c (Ring.empty c) b; (setReg (setReg st r (some a')) s (some b'), "ok")
      | none => (setReg (setReg st r none) s none, "ok")
    | _, _ => (st, "bad-op")
  | ["copyctor", r, s] =>       -- regs[r] is replaced by `Queue(regs[s])`
    match reg? r, reg? s with
    | some r, some s =>
      if r = s then (st, "bad-op") else
      match getReg st s with
      | some b => (setReg st r (some ((Ring.empty c).assign c (b.abs c))), "ok")
      | none => (setReg st r none, "ok")
    | _, _ => (st, "bad-op")
  | ["insap", r, i, j, n] =>    -- InsertItemsAt(i, &q[j], n clipped to the contiguous run)
    match reg? r, u32? i, u32? j, u32? n with
    | some r, some i, some j, some n =>
      match getReg st r with
      | none => (st, "?")
      | some q =>
        if j < q.count ∧ 0 < n then (setReg st r (some (q.insertItemsOwn c i j (min n (q.contigFrom j)))), "ok") else (st, "bad-op")
    | _, _, _, _ => (st, "bad-op")
  | ["addtailap", r, j, n] =>   -- AddTailMulti(&q[j], n clipped)
    match reg? r, u32? j, u32? n with
    | some r, some j, some n =>
      match getReg st r with
      | none => (st, "?")
      | some q =>
        if j < q.count ∧ 0 < n then (setReg st r (some (q.addTailMulti c (((q.abs c).drop j).take (min n (q.contigFrom j))))), "ok") else (st, "bad-op")
    | _, _, _ => (st, "bad-op")
  | ["addheadap", r, j, n] =>   -- AddHeadMulti(&q[j], n clipped)
    match reg? r, u32? j, u32? n with
    | some r, some j, some n =>
      match getReg st r with
      | none => (st, "?")
      | some q =>
        if j < q.count ∧ 0 < n then (setReg st r (some (q.addHeadMulti c (((q.abs c).drop j).take (min n (q.contigFrom j))))), "ok") else (st, "bad-op")
    | _, _, _ => (st, "bad-op")
  | ["setat", r, i, j] =>       -- ReplaceItemAt(i, q[j])
    match reg? r, u32? i, u32? j with
    | some r, some i, some j =>
      match getReg st r with
      | none => (st, "?")
      | some q =>
        if j < q.count then let (q', ok) := q.replaceItemAt i (q.get c j); (setReg st r (some q'), okS ok) else (st, "bad-op")
    | _, _, _ => (st, "bad-op")
  | ["remfirstat", r, j] =>     -- RemoveFirstInstanceOf(q[j])
    match reg? r, u32? j with
    | some r, some j =>
      match getReg st r with
      | none => (st, "?")
      | some q =>
        if j < q.count then dep st r fun q => let (q', ok) := q.removeFirst c (q.get c j); (q', okS ok) else (st, "bad-op")
    | _, _ => (st, "bad-op")
  | ["remlastat", r, j] =>      -- RemoveLastInstanceOf(q[j])
    match reg? r, u32? j with
    | some r, some j =>
      match getReg st r with
      | none => (st, "?")
      | some q =>
        if j < q.count then dep st r fun q => let (q', ok) := q.removeLast c (q.get c j); (q', okS ok) else (st, "bad-op")
    | _, _ => (st, "bad-op")
  | ["inssortedat", r, j] =>    -- InsertItemAtSortedPosition(q[j])
    match reg? r, u32? j with
    | some r, some j =>
      match getReg st r with
      | none => (st, "?")
      | some q =>
        if j < q.count then dep st r fun q => let (q', i) := q.insertSortedPos c (ltItem false) (q.get c j); (q', toString i) else (st, "bad-op")
    | _, _ => (st, "bad-op")
  | ["dump", r] =>
    match reg? r with
    | some r => pos st r fun q => (q, orQ (showItems (q.abs c)))
    | _ => (st, "bad-op")
  | _ => (st, "bad-op")

def engine : Engine := { σ := St, init := init, step := step }

end Muscle.Eng.QueueEngine
