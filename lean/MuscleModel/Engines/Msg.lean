import MuscleModel.Engines.Common
import MuscleModel.Wire.Ops
import MuscleModel.Wire.Checksum

/-! Engine `msg` (C01, C08, C02-cpp): a register file of Messages driven by the public API. -/

namespace Muscle.Eng.MsgEngine
open Muscle Muscle.Wire Muscle.Gen Muscle.Eng

abbrev Regs := List Msg   -- 8 registers

def getR (rs : Regs) (i : Nat) : Msg := rs.getD i (.mk 0 [])
def setR (rs : Regs) (i : Nat) (m : Msg) : Regs := rs.set i m

def splitComma (s : String) : List String := s.splitOn ","

/-- parse `<type> <value…>` into a `Val`; numeric values are unsigned bit patterns in decimal -/
def parseVal (rs : Regs) : List String → Option Val
  | ["bool", v] => do let n ← nat? v; pure (.fixed tcBool (leN 1 (if n = 0 then 0 else 1)))
  | ["i8", v] => do let n ← nat? v; pure (.fixed tcInt8 (leN 1 n))
  | ["i16", v] => do let n ← nat? v; pure (.fixed tcInt16 (leN 2 n))
  | ["i32", v] => do let n ← nat? v; pure (.fixed tcInt32 (leN 4 n))
  | ["i64", v] => do let n ← nat? v; pure (.fixed tcInt64 (leN 8 n))
  | ["f32", v] => do let n ← nat? v; pure (.fixed tcFloat (leN 4 n))
  | ["f64", v] => do let n ← nat? v; pure (.fixed tcDouble (leN 8 n))
  | ["pt", v] => do
      match (splitComma v).mapM nat? with
      | some [a, b] => pure (.fixed tcPoint (leN 4 a ++ leN 4 b))
      | _ => none
  | ["rc", v] => do
      match (splitComma v).mapM nat? with
      | some [a, b, c, d] => pure (.fixed tcRect (leN 4 a ++ leN 4 b ++ leN 4 c ++ leN 4 d))
      | _ => none
  | ["str", v] => do let b ← bytesOfTok v; pure (.str b)
  | ["raw", tc, v] => do let t ← nat? tc; let b ← bytesOfTok v; pure (.raw t b)
  | ["msg", r] => do let i ← nat? r; pure (.msg (getR rs i))
  | ["ptr", _] => pure (.opq tcPointer)
  | ["tag", _] => pure (.opq tcTag)
  | _ => none

def upd (rs : Regs) (i : Nat) (r : Option Msg) : Regs × String :=
  match r with
  | some m => (setR rs i m, "ok")
  | none => (rs, "err")

def step (rs : Regs) (toks : List String) : Regs × String :=
  match toks with
  | ["case", n] => (List.replicate 8 (.mk 0 []), "case " ++ n)
  | ["new", r, w] =>
    match nat? r, nat? w with
    | some i, some w => (setR rs i (.mk w []), "ok")
    | _, _ => (rs, "bad-op")
  | "add" :: r :: nm :: rest =>
    match nat? r, bytesOfTok nm, parseVal rs rest with
    | some i, some nm, some v => upd rs i (addVal false nm v (getR rs i))
    | _, _, _ => (rs, "bad-op")
  | "pre" :: r :: nm :: rest =>
    match nat? r, bytesOfTok nm, parseVal rs rest with
    | some i, some nm, some v => upd rs i (addVal true nm v (getR rs i))
    | _, _, _ => (rs, "bad-op")
  | ["rem", r, nm, idx] =>
    match nat? r, bytesOfTok nm, nat? idx with
    | some i, some nm, some k => upd rs i (removeData nm k (getR rs i))
    | _, _, _ => (rs, "bad-op")
  | ["rmn", r, nm] =>
    match nat? r, bytesOfTok nm with
    | some i, some nm => upd rs i (removeName nm (getR rs i))
    | _, _ => (rs, "bad-op")
  | "rep" :: r :: ok :: nm :: idx :: rest =>
    match nat? r, nat? ok, bytesOfTok nm, nat? idx, parseVal rs rest with
    | some i, some ok, some nm, some k, some v =>
      -- the harness replaces B_RAW_TYPE items through `ReplaceFlat`, whose inline branch
      -- (`ReplaceFlatCountableDataItem`, FIELD_STATE_INLINE) ignores the index
      let k' := match v, lookupField nm (getR rs i).fields with
        | .raw tc _, some (.raws tc' .inl _) => if tc = tcRaw ∧ tc' = tcRaw ∧ ok = 0 then 0 else k
        | _, _ => k
      upd rs i (replaceVal (ok ≠ 0) nm k' v (getR rs i))
    | _, _, _, _, _ => (rs, "bad-op")
  | ["ren", r, o, n] =>
    match nat? r, bytesOfTok o, bytesOfTok n with
    | some i, some o, some n => upd rs i (rename o n (getR rs i))
    | _, _, _ => (rs, "bad-op")
  | ["copy", a, b] =>
    match nat? a, nat? b with
    | some i, some j => (setR rs j (getR rs i), "ok")
    | _, _ => (rs, "bad-op")
  | ["flat", r] =>
    match nat? r with
    | some i =>
      let m := getR rs i
      (rs, "ok " ++ toString (sizeMsg m) ++ " " ++ tokOfBytes (encode m))
    | none => (rs, "bad-op")
  | ["cksum", r] =>
    match nat? r with
    | some i => (rs, "ok " ++ toString (checksumMsg (getR rs i)))
    | none => (rs, "bad-op")
  | ["unflat", r, hx] =>
    match nat? r, bytesOfTok hx with
    | some i, some b =>
      match decode maxMessageNestingDepth b with
      | some m => (setR rs i m, "ok")
      | none => (setR rs i (.mk 0 []), "err")   -- what a failed parse leaves behind is unspecified: the harness resets the object
    | _, _ => (rs, "bad-op")
  | ["tripreg", _, _] => (rs, "ok")
  | ["dump", r] =>
    match nat? r with
    | some i => (rs, dumpMsg (getR rs i))
    | none => (rs, "bad-op")
  | ["eq", a, b] =>
    match nat? a, nat? b with
    | some i, some j =>
      let x := getR rs i; let y := getR rs j
      if hasOpaque x || hasOpaque y then (rs, "?")
      else if i = j then (rs, "true")   -- `operator==` short-cuts on object identity (`this == &rhs`)
      -- a value holding a NaN is unequal to itself unless the two objects share the sub-Message
      -- (identity short-cut again); sharing is not part of the value model, so no prediction then
      else if !(msgEq x x) || !(msgEq y y) then (rs, "?")
      else (rs, toString (msgEq x y))
    | _, _ => (rs, "bad-op")
  | _ => (rs, "bad-op")

def engine : Engine := { σ := Regs, init := List.replicate 8 (.mk 0 []), step := step }

end Muscle.Eng.MsgEngine
