import MuscleModel.Engines.Common
import MuscleModel.Filter.Archive
import MuscleModel.Filter.Parser

/-! Engine `qf` (C14): four filter slots.

* `tree <i> <prefix form>`   build a filter through the public constructors / setters → `ok`
* `mk <i> <archive hex>`     `CreateQueryFilter(archive)` → `ok` / `err` (`badmsg` if the bytes are no Message)
* `rt <i> <j>`               slot j := `CreateQueryFilter(SaveToArchive(slot i))` → `ok` / `err` / `none`
* `arch <i>`                 canonical dump of `SaveToArchive(slot i)` (or `none`)
* `eval <i> <message hex> [<node name hex> <child count>]` → `true` / `false` (`none`, `badmsg`)
* `expr <expression hex>`   `CreateQueryFilterFromExpression(string)` → `ok <archive dump of the filter>` / `err`
  (`?` when an operand goes through `atof` outside the exactly modelled subset)
* `exprt <expression hex> <prefix form>`  same result as `expr`; the harness additionally checks (direct oracle) that
  the filter equals the given tree, which is what the documented grammar says the expression denotes

Prefix form of a tree (one token per argument; `-` = absent; byte strings `x<hex>`):
`what lo hi` | `exists fn idx tc` | `num ty fn idx op mop val mask dflt` | `cc fn idx op mop val mask dflt`
| `str fn idx op val dflt` | `nn fn idx op val dflt` | `raw fn idx op tc val dflt`
| `msg fn idx defmsg 0` | `msg fn idx defmsg 1 F` | `min n k F…` | `max n k F…` | `xor k F…`.

`?` (no prediction) is printed for `eval` only when the result depends on something outside the
model: one of the four wildcard/regex string operators (StringMatcher, property C15), or a
raw-data filter reaching a Message/pointer/tag field, where `FindData` hands out the bytes of the
reference object itself (an address). -/

namespace Muscle.Eng.FilterEngine
open Muscle Muscle.Wire Muscle.Gen Muscle.Eng Muscle.Filter

abbrev Slots := List (Option Filter)

def getS (s : Slots) (i : Nat) : Option Filter := (s.getD i none)

def u32? (s : String) : Option Nat := match nat? s with | some n => if n < 4294967296 then some n else none | none => none
def u8? (s : String) : Option Nat := match nat? s with | some n => if n < 256 then some n else none | none => none
def nulFreeB (b : Bytes) : Bool := !b.contains 0
def name? (s : String) : Option Bytes := match bytesOfTok s with | some b => if nulFreeB b then some b else none | none => none
def optName? (s : String) : Option (Option Bytes) := if s = "-" then some none else (name? s).map some
def optBytes? (s : String) : Option (Option Bytes) := if s = "-" then some none else (bytesOfTok s).map some

def numTy? : String → Option NumTy
  | "bool" => some .bool | "f64" => some .f64 | "f32" => some .f32 | "i64" => some .i64 | "i32" => some .i32
  | "i16" => some .i16 | "i8" => some .i8 | "pt" => some .pt | "rc" => some .rc | _ => none

/-- operand bytes of the right size (a `bool` is 0 or 1) -/
def numVal? (ty : NumTy) (s : String) : Option Bytes :=
  match bytesOfTok s with
  | some b => if b.length = ty.size ∧ (ty ≠ .bool ∨ b = [0] ∨ b = [1]) then some b else none
  | none => none
def optNumVal? (ty : NumTy) (s : String) : Option (Option Bytes) := if s = "-" then some none else (numVal? ty s).map some

def optMsg? (s : String) : Option (Option Msg) :=
  if s = "-" then some none else
  match bytesOfTok s with
  | some b => (decode maxMessageNestingDepth b).map some
  | none => none

def parseKids (p : List String → Option (Filter × List String)) : Nat → List String → Option (List Filter × List String)
  | 0, ts => some ([], ts)
  | k+1, ts =>
    match p ts with
    | none => none
    | some (f, ts) =>
      match parseKids p k ts with
      | none => none
      | some (fs, ts) => some (f :: fs, ts)

def parseTree : Nat → List String → Option (Filter × List String)
  | 0, _ => none
  | fuel+1, ts =>
    match ts with
    | "what" :: lo :: hi :: r => do pure (.what (← u32? lo) (← u32? hi), r)
    | "exists" :: fn :: idx :: tc :: r => do pure (.valueExists (← name? fn) (← u32? idx) (← u32? tc), r)
    | "num" :: ty :: fn :: idx :: op :: mop :: val :: mask :: d :: r => do
        let ty ← numTy? ty
        pure (.num ty (← name? fn) (← u32? idx) (← u8? op) (← u8? mop) (← numVal? ty val) (← numVal? ty mask) (← optNumVal? ty d), r)
    | "cc" :: fn :: idx :: op :: mop :: val :: mask :: d :: r => do
        pure (.childCount (← name? fn) (← u32? idx) (← u8? op) (← u8? mop) (← numVal? .i32 val) (← numVal? .i32 mask) (← optNumVal? .i32 d), r)
    | "str" :: fn :: idx :: op :: val :: d :: r => do
        pure (.str (← name? fn) (← u32? idx) (← u8? op) (← name? val) (← optName? d), r)
    | "nn" :: fn :: idx :: op :: val :: d :: r => do
        pure (.nodeName (← name? fn) (← u32? idx) (← u8? op) (← name? val) (← optName? d), r)
    | "raw" :: fn :: idx :: op :: tc :: val :: d :: r => do
        pure (.raw (← name? fn) (← u32? idx) (← u8? op) (← u32? tc) (← optBytes? val) (← optBytes? d), r)
    | "msg" :: fn :: idx :: dm :: "0" :: r => do
        pure (.msgAny (← name? fn) (← u32? idx) (← optMsg? dm), r)
    | "msg" :: fn :: idx :: dm :: "1" :: r => do
        let fn ← name? fn; let idx ← u32? idx; let dm ← optMsg? dm
        let (kid, r) ← parseTree fuel r
        pure (.msgKid fn idx kid dm, r)
    | "min" :: n :: k :: r => do
        let n ← u32? n; let k ← u8? k
        let (kids, r) ← parseKids (parseTree fuel) k r
        pure (.minMatch n kids, r)
    | "max" :: n :: k :: r => do
        let n ← u32? n; let k ← u8? k
        let (kids, r) ← parseKids (parseTree fuel) k r
        pure (.maxMatch n kids, r)
    | "xor" :: k :: r => do
        let k ← u8? k
        let (kids, r) ← parseKids (parseTree fuel) k r
        pure (.xor kids, r)
    | _ => none

mutual
/-- does the result depend on something outside the model (see the header comment)? -/
def unpred : Filter → Msg → Bool
  | .raw fn _ _ tc _ _, m =>
      match lookupField fn m.fields with
      | some (.msgs _ _) => tc = tcAny || tc = tcMessage
      | some (.opaque t _) => tc = tcAny || tc = t
      | _ => false
  | .str _ _ op _ _, _ => sopWild ≤ op && op < sopCount
  | .nodeName _ _ op _ _, _ => sopWild ≤ op && op < sopCount
  | .msgKid fn idx kid dflt, m =>
      match orElse' (findMessage fn idx m) dflt with
      | some sub => unpred kid sub
      | none => false
  | .minMatch _ kids, m => unpredKids kids m
  | .maxMatch _ kids, m => unpredKids kids m
  | .xor kids, m => unpredKids kids m
  | _, _ => false
def unpredKids : List Filter → Msg → Bool
  | [], _ => false
  | k :: ks, m => unpred k m || unpredKids ks m
end

/-! canonical dump of an archive: like `dumpMsg`, but the fields of the archive Message and of every
child archive (field "kid") are listed in name order.  `SaveToArchive` adds fields in expressions
such as `archive.AddString("fn", …) | archive.CAddInt32("idx", …)`, whose operand evaluation order
is unspecified in C++ (GCC evaluates the right operand first), so the field order of an archive is
not part of the observable contract; lookups are by name. -/
def insertBy (x : Bytes × String) : List (Bytes × String) → List (Bytes × String)
  | [] => [x]
  | y :: r => if bytesLt y.1 x.1 then y :: insertBy x r else x :: y :: r
def sortFields : List (Bytes × String) → List (Bytes × String)
  | [] => []
  | x :: r => insertBy x (sortFields r)

mutual
def dumpArch : Msg → String
  | .mk w fs => "{" ++ toString w ++ String.join ((sortFields (dumpArchFields fs)).map (·.2)) ++ "}"
def dumpArchFields : List (Bytes × Field) → List (Bytes × String)
  | [] => []
  | (n, .msgs rp xs) :: r =>
      (n, " " ++ tokOfBytes n ++ ":" ++ toString tcMessage ++ ":" ++ toString xs.length ++ "[" ++
        (if n = kKid then dumpArchMsgs xs else dumpField (.msgs rp xs)) ++ "]") :: dumpArchFields r
  | (n, f) :: r =>
      (n, " " ++ tokOfBytes n ++ ":" ++ toString f.typeCode ++ ":" ++ toString f.count ++ "[" ++ dumpField f ++ "]") :: dumpArchFields r
def dumpArchMsgs : List Msg → String
  | [] => ""
  | [m] => dumpArch m
  | m :: r => dumpArch m ++ "," ++ dumpArchMsgs r
end

def noSm : Nat → Bytes → Bytes → Bool := fun _ _ _ => false

def setS (s : Slots) (i : Nat) (f : Option Filter) : Slots := s.set i f

def nslots : Nat := 4

def evalOp (s : Slots) (i : String) (hx : String) (nd : Option Node) : Slots × String :=
  match nat? i, bytesOfTok hx with
  | some i, some b =>
    if i ≥ nslots then (s, "bad-op") else
    match decode maxMessageNestingDepth b with
    | none => (s, "badmsg")
    | some m =>
      match getS s i with
      | none => (s, "none")
      | some f => if unpred f m then (s, "?") else (s, toString (eval noSm f m nd))
  | _, _ => (s, "bad-op")

def exprOp (hx : String) : String :=
  match bytesOfTok hx with
  | some b =>
    if b.contains 0 then "bad-op" else
    match parseExpr b with
    | .ok f => "ok " ++ dumpArch (toArchive f)
    | .err => "err"
    | .unk => "?"
  | none => "bad-op"

def step (s : Slots) (toks : List String) : Slots × String :=
  match toks with
  | ["expr", hx] => (s, exprOp hx)
  | "exprt" :: hx :: rest =>
    match parseTree (rest.length + 1) rest with
    | some (_, []) => (s, exprOp hx)
    | _ => (s, "bad-op")
  | ["case", n] => (List.replicate nslots none, "case " ++ n)
  | "tree" :: i :: rest =>
    match nat? i with
    | some i =>
      if i ≥ nslots then (s, "bad-op") else
      match parseTree (rest.length + 1) rest with
      | some (f, []) => (setS s i (some f), "ok")
      | _ => (s, "bad-op")
    | none => (s, "bad-op")
  | ["mk", i, hx] =>
    match nat? i, bytesOfTok hx with
    | some i, some b =>
      if i ≥ nslots then (s, "bad-op") else
      match decode maxMessageNestingDepth b with
      | none => (setS s i none, "badmsg")
      | some a =>
        match fromArchive a with
        | none => (setS s i none, "err")
        | some f => (setS s i (some f), "ok")
    | _, _ => (s, "bad-op")
  | ["rt", i, j] =>
    match nat? i, nat? j with
    | some i, some j =>
      if i ≥ nslots ∨ j ≥ nslots then (s, "bad-op") else
      match getS s i with
      | none => (s, "none")
      | some f =>
        match fromArchive (toArchive f) with
        | none => (setS s j none, "err")
        | some g => (setS s j (some g), "ok")
    | _, _ => (s, "bad-op")
  | ["arch", i] =>
    match nat? i with
    | some i =>
      if i ≥ nslots then (s, "bad-op") else
      match getS s i with
      | none => (s, "none")
      | some f => (s, dumpArch (toArchive f))
    | none => (s, "bad-op")
  | ["eval", i, hx] => evalOp s i hx none
  | ["eval", i, hx, nm, nk] =>
    match bytesOfTok nm, u32? nk with
    | some nm, some nk => if nk > 1000 then (s, "bad-op") else evalOp s i hx (some { name := nm, numChildren := nk })
    | _, _ => (s, "bad-op")
  | _ => (s, "bad-op")

def engine : Engine := { σ := Slots, init := List.replicate nslots none, step := step }

end Muscle.Eng.FilterEngine
