import MuscleModel.Engines.Common
import MuscleModel.Reflector.Handlers
import MuscleModel.Reflector.Clone

/-!
Engine `srv` (C04 C05 C06 C07 C13): interprets the op lines of `harness/srv.cpp` on the reflector model
and prints the same canonical digests.  Ops outside the modelled command subset (quiet flags, `cut`,
`block`, `raw`, `jettison`, explicit `get`, SETDATA flags other than ADDTOINDEX) make the rest of the
case unpredicted (`?`): those streams are decided by the direct oracles alone.

Server-side subtree calls (model: `Reflector/Clone.lean`), made by the harness directly on the session in <slot>, followed by
one `PushSubscriptionMessages` (refused inside a batch; `nosrc` when the source node does not exist):
  `clone <slot> <flags 0|8> <source node path, absolute> <dest path relative to the session, plain names>`  CloneDataNodeSubtree
  `save <slot> <source node path, absolute> <maxDepth>`                                                    SaveNodeTreeToMessage
  `restore <slot> <flags 0|8> <dest path relative to the session, plain names> <maxDepth>`                  RestoreNodeTreeFromMessage
  `trees <slot> <maxDepth> <key>`   the client command PR_COMMAND_GETDATATREES (its reply is the delivery `TREES[<path>=<saved tree> …]`)
      of the Message of the last `save` of the case (any slot's); 8 = SETDATANODE_FLAG_ADDTOINDEX for the top node.
-/

namespace Muscle.Eng.SrvEngine
open Muscle Muscle.Eng Muscle.Reflector

inductive Cmd where
  | set (path : Bytes) (v : Nat) (addToIndex : Bool)
  | rm (keys : List Bytes)
  | sub (path : Bytes) (f : Option Filt)
  | unsub (path : Bytes)
  | paramSelf | paramMax (n : Nat) | paramRoute (keys : List Bytes)
  | paramRouteF (keys : List Bytes) (fs : List (Option Filt))
  | unparamMax | unparamRoute | unparamRouteF
  | getparams
  | ins (key before : Bytes) (vals : List Nat)
  | reorder (key before : Bytes)
  | send (tag : Nat) (keys : List Bytes)
  | ping (tag : Nat)

structure St where
  sv : Server := {}
  slots : List (Nat × Nat) := []          -- slot → session id
  batch : List (Nat × List Cmd) := []     -- open batches
  poisoned : Bool := false
  saved : Option Node := none             -- the Message of the last `save` (SaveNodeTreeToMessage), for `restore`

def sidOf (st : St) (slot : Nat) : Option Nat := (st.slots.find? (fun (s, _) => s = slot)).map (·.2)

def parseFilter (s : String) : Option (Option Filt) :=
  if s = "-" then some none else
  let ops := ["eq", "lt", "gt", "le", "ge", "ne"]
  match ops.findIdx? (fun o => s.startsWith o) with
  | none => none
  | some i => match (s.drop 2).toNat? with
    | some v => some (some { op := i, val := v })
    | none => none

def keyName : Bytes := "!SnKy".toUTF8.toList
def selfName : Bytes := "!Self".toUTF8.toList
def maxName : Bytes := "!MxUp".toUTF8.toList

def filtName : Bytes := "!SnFl".toUTF8.toList

/-- `PathMatcher::PutPathsFromMessage(PR_NAME_KEYS, PR_NAME_FILTERS, …, "*/*")`: the i-th key gets the i-th item of the filter
    field; when the field has no i-th item the previous filter "bleeds down" -/
def buildRouteAux : List Bytes → List (Option Filt) → Option Filt → PM → PM
  | [], _, _, pm => pm
  | k :: ks, [], cur, pm => buildRouteAux ks [] cur (pmPutFrom pm k cur (some defaultPrefix))
  | k :: ks, f :: fs, _, pm => buildRouteAux ks fs f (pmPutFrom pm k f (some defaultPrefix))

def buildRoute (keys : List Bytes) (fs : Option (List (Option Filt))) : PM := buildRouteAux keys (fs.getD []) none []

def addParam (s : Sess) (n : Bytes) : Sess := { s with params := if s.params.contains n then s.params else s.params ++ [n] }

/-- one command of session `sid` (inside or outside a batch): `MessageReceivedFromGateway` -/
def runCmd (sv : Server) (sid : Nat) : Cmd → Server
  | .set path v ati => setDataNode sv sid path (some v) ati
  | .rm keys => removeData sv sid keys
  | .sub path f => subscribe sv sid path f
  | .unsub path => unsubscribe sv sid path
  | .paramSelf => sv.updSess sid (fun s => addParam { s with reflectSelf := true } selfName)
  | .paramMax n => sv.updSess sid (fun s => addParam { s with maxItems := n } maxName)
  | .paramRoute keys => sv.updSess sid (fun s =>
      -- the keys replace the old ones; a PR_NAME_FILTERS parameter set earlier stays and is paired with the new keys
      addParam { s with hasRouteKeys := true, routeKeys := keys, route := buildRoute keys s.routeFilts } keyName)
  | .paramRouteF keys fs => sv.updSess sid (fun s =>
      addParam (addParam { s with hasRouteKeys := true, routeKeys := keys, routeFilts := some fs, route := buildRoute keys (some fs) } keyName) filtName)
  | .unparamMax => sv.updSess sid (fun s =>
      if s.params.contains maxName then { s with maxItems := sv.maxItemsDefault, params := s.params.filter (· ≠ maxName) } else s)
  | .unparamRoute => sv.updSess sid (fun s =>
      if s.params.contains keyName then { s with hasRouteKeys := false, routeKeys := [], route := [], params := s.params.filter (· ≠ keyName) } else s)
  | .unparamRouteF => sv.updSess sid (fun s =>
      if s.params.contains filtName then { s with routeFilts := none, route := buildRoute s.routeKeys none, params := s.params.filter (· ≠ filtName) } else s)
  | .getparams =>
    match sv.sess? sid with
    | none => sv
    | some s =>
      let visible := s.params.filter (fun n =>
        !(n.length > 1 && n.head? = some 33) || n = keyName || n = filtName || n = selfName || n = maxName)
      let names := (visible.map hexS).mergeSort (fun a b => a ≤ b)
      sv.deliver sid ("PARAMS" ++ String.join (names.map (" " ++ ·)))
  | .ins key before vals => insertOrdered sv sid key before vals
  | .reorder key before => Muscle.Reflector.reorder sv sid key before
  | .send tag keys => sendMsg sv sid tag keys
  | .ping tag => sv.deliver sid ("PONG " ++ toString tag)

def treeDigest (sv : Server) : String :=
  let nodes := descendants fuelDepth sv.root []
  "T[" ++ String.join (nodes.map (fun (names, n) =>
    hexS (pathString names) ++ "=" ++ payloadDump n.data ++
    (if n.index.isEmpty then "" else " ix(" ++ joinWithComma (n.index.map hexS) ++ ")") ++
    (let subs := n.subs.mergeSort (fun a b => a.1 ≤ b.1)
     if subs.isEmpty then "" else " s(" ++ joinWithComma (subs.map (fun (k, c) => toString k ++ ":" ++ toString c)) ++ ")") ++
    "; ")) ++ "]"
where
  joinWithComma : List String → String
    | [] => ""
    | [x] => x
    | x :: r => x ++ "," ++ joinWithComma r

def pumpLine (st : St) : St × String :=
  let slots := st.slots.mergeSort (fun a b => a.1 ≤ b.1)
  let line := treeDigest st.sv ++ String.join (slots.map (fun (slot, sid) =>
    " | S" ++ toString slot ++ ":" ++
      (match st.sv.sess? sid with
       | some s => String.join (s.inbox.map (" " ++ ·))
       | none => "")))
  ({ st with sv := { st.sv with sessions := st.sv.sessions.map (fun s => { s with inbox := [] }) } }, line)

def parseKeys (ts : List String) : Option (List Bytes) := ts.mapM bytesOfTok

def parseCmd : List String → Option Cmd
  | ["set", _, fl, p, v] => do
      let f ← nat? fl; let p ← bytesOfTok p; let v ← nat? v
      if f = 0 then pure (.set p v false) else if f = 8 then pure (.set p v true) else none
  | "rm" :: _ :: q :: ks => do
      let q ← nat? q; let ks ← parseKeys ks
      if q = 0 && !ks.isEmpty then pure (.rm ks) else none
  | ["sub", _, q, p, f] => do
      let q ← nat? q; let p ← bytesOfTok p; let f ← parseFilter f
      if q = 0 then pure (.sub p f) else none
  | ["unsub", _, p] => do let p ← bytesOfTok p; pure (.unsub p)
  | ["param", _, "self"] => some .paramSelf
  | ["param", _, "maxitems", n] => do let n ← nat? n; pure (.paramMax n)
  | "param" :: _ :: "route" :: ks => do let ks ← parseKeys ks; if ks.isEmpty then none else pure (.paramRoute ks)
  | "param" :: _ :: "routef" :: kfs => do
      -- param <slot> routef <key> <filter> [<key> <filter> ...]
      let rec pairs : List String → Option (List (Bytes × Option Filt))
        | [] => some []
        | k :: f :: r => do let k ← bytesOfTok k; let f ← parseFilter f; let r ← pairs r; pure ((k, f) :: r)
        | _ => none
      let ps ← pairs kfs
      if ps.isEmpty then none else pure (.paramRouteF (ps.map (·.1)) (ps.map (·.2)))
  | ["unparam", _, "routef"] => some .unparamRouteF
  | ["unparam", _, "maxitems"] => some .unparamMax
  | ["unparam", _, "route"] => some .unparamRoute
  | ["getparams", _] => some .getparams
  | "ins" :: _ :: k :: b :: vs => do
      let k ← bytesOfTok k; let b ← bytesOfTok b; let vs ← vs.mapM nat?
      if vs.isEmpty then none else pure (.ins k b vs)
  | ["reorder", _, k, b] => do let k ← bytesOfTok k; let b ← bytesOfTok b; pure (.reorder k b)
  | "send" :: _ :: tag :: ks => do let t ← nat? tag; let ks ← parseKeys ks; pure (.send t ks)
  | ["ping", _, tag] => do let t ← nat? tag; pure (.ping t)
  | _ => none

/-- the result of a server-side subtree call: the state after one `PushSubscriptionMessages`, and `ok` / `err`; when the model ran
    out of fuel the rest of the case is unpredicted -/
def subtreeOp (st : St) (r : Server × CStat) : St × String :=
  if r.2 = .fuel then ({ st with poisoned := true }, "?") else ({ st with sv := pushAll r.1 }, r.2.text)

/-- the ops `clone` / `save` / `restore` of session `sid` in slot `sl` (server-side subtree calls, see the header) -/
def subtreeStep (st : St) (sl sid : Nat) (op : String) (toks : List String) : St × String :=
  if op = "clone" then
    match toks with
    | [_, _, fl, s, d] =>
      match nat? fl, (bytesOfTok s).bind absNames?, (bytesOfTok d).bind relClauses? with
      | some f, some src, some dest =>
        if (f ≠ 0 && f ≠ 8) || st.batch.any (fun (s, _) => s = sl) then (st, "bad-op") else
        if (getNode st.sv src).isNone then (st, "nosrc") else
        subtreeOp st (cloneDataNodeSubtree st.sv sid src dest (f = 8))
      | _, _, _ => (st, "bad-op")
    | _ => (st, "bad-op")
  else if op = "save" then
    match toks with
    | [_, _, s, md] =>
      match (bytesOfTok s).bind absNames?, nat? md with
      | some src, some md =>
        if md > Muscle.Gen.muscleNoLimit || st.batch.any (fun (s, _) => s = sl) then (st, "bad-op") else
        match getNode st.sv src with
        | none => (st, "nosrc")
        | some n =>
          ({ st with saved := some (saveTree fuelDepth md n) }, "saved " ++ savedDump (fuelDepth + 2) (saveTree fuelDepth md n))
      | _, _ => (st, "bad-op")
    | _ => (st, "bad-op")
  else if op = "restore" then
    match toks with
    | [_, _, fl, d, md] =>
      match nat? fl, (bytesOfTok d).bind relClauses?, nat? md, st.saved with
      | some f, some dest, some md, some t =>
        if (f ≠ 0 && f ≠ 8) || md > Muscle.Gen.muscleNoLimit || st.batch.any (fun (s, _) => s = sl) then (st, "bad-op") else
        subtreeOp st (restoreNodeTree st.sv sid t dest (f = 8) md)
      | _, _, _, _ => (st, "bad-op")
    | _ => (st, "bad-op")
  else if op = "trees" then
    -- PR_COMMAND_GETDATATREES with one key: `GetSubtreesCallback` on every matching node (the traversal and the own-node rule are those
    -- of GETDATA), the reply goes out at once, then the push
    match toks with
    | [_, _, md, k] =>
      match nat? md, bytesOfTok k, st.sv.sess? sid with
      | some md, some k, some s =>
        if (md ≥ 2147483648 && md ≠ Muscle.Gen.muscleNoLimit) || st.batch.any (fun (s, _) => s = sl) then (st, "bad-op") else
        ({ st with sv := pushAll (st.sv.deliver sid ("TREES[" ++ String.join
            ((travGlobal st.sv (pmOfKeys [(k, none)] (some defaultPrefix)) true (getDataCb s)).map (fun v =>
              match getNode st.sv v with
              | some n => hexS (pathString v) ++ "=" ++ savedDump (fuelDepth + 2) (saveTree fuelDepth md n) ++ " "
              | none => "")) ++ "]")) }, "ok")
      | _, _, _ => (st, "bad-op")
    | _ => (st, "bad-op")
  else (st, "bad-op")

def step (st : St) (toks : List String) : St × String :=
  match toks with
  | ["case", n] => ({}, "case " ++ n)
  | _ =>
  if st.poisoned then (st, "?") else
  match toks with
  | ["pump"] => pumpLine st
  | ["wping", tag] =>
    -- the witness session (slot 7) pings: the PONG goes to its own inbox
    match nat? tag, sidOf st 7 with
    | some t, some sid => ({ st with sv := pushAll (runCmd st.sv sid (.ping t)) }, "pong")
    | _, _ => (st, "bad-op")
  | ["attach", slot, host] =>
    match nat? slot, bytesOfTok host with
    | some sl, some h =>
      if (sidOf st sl).isSome then (st, "bad-op") else
      let (sv, sid) := attach st.sv sl h
      ({ st with sv := sv, slots := st.slots ++ [(sl, sid)] }, "ok " ++ toString sid)
    | _, _ => (st, "bad-op")
  | op :: slot :: _ =>
    match nat? slot with
    | none => (st, "bad-op")
    | some sl =>
      match sidOf st sl with
      | none => (st, "bad-op")
      | some sid =>
        if op = "detach" then
          ({ st with sv := detach st.sv sid, slots := st.slots.filter (fun (s, _) => s ≠ sl),
                     batch := st.batch.filter (fun (s, _) => s ≠ sl) }, "ok")
        else if op = "find" then
          match toks with
          | [_, _, p] =>
            match bytesOfTok p with
            | some p => (st, "found" ++ String.join ((findNodes st.sv sid p).map (fun v => " " ++ hexS (pathString v))))
            | none => (st, "bad-op")
          | _ => (st, "bad-op")
        else if op = "setm" then
          -- ONE PR_COMMAND_SETDATA whose field holds several payloads: the items are set one after the other and the
          -- subscribers' pending updates are pushed once, after the whole command
          match toks with
          | _ :: _ :: p :: vs =>
            match bytesOfTok p, vs.mapM nat? with
            | some p, some vs =>
              if vs.isEmpty || st.batch.any (fun (s, _) => s = sl) then (st, "bad-op") else
              ({ st with sv := pushAll (vs.foldl (fun sv v => runCmd sv sid (.set p v false)) st.sv) }, "ok")
            | _, _ => (st, "bad-op")
          | _ => (st, "bad-op")
        else if op = "clone" || op = "save" || op = "restore" || op = "trees" then subtreeStep st sl sid op toks
        else if op = "batch" then
          match toks with
          | [_, _, "begin"] => if (st.batch.any (fun (s, _) => s = sl)) then (st, "bad-op") else ({ st with batch := st.batch ++ [(sl, [])] }, "ok")
          | [_, _, "end"] =>
            match st.batch.find? (fun (s, _) => s = sl) with
            | none => (st, "bad-op")
            | some (_, cmds) =>
              -- `CallMessageReceivedFromGateway` = handler + `AfterMessageReceivedFromGateway` (push) per sub-Message
              let sv := cmds.foldl (fun sv c => pushAll (runCmd sv sid c)) st.sv
              ({ st with sv := pushAll sv, batch := st.batch.filter (fun (s, _) => s ≠ sl) }, "ok")
          | _ => (st, "bad-op")
        else
          match parseCmd toks with
          | none => ({ st with poisoned := true }, "?")
          | some c =>
            if st.batch.any (fun (s, _) => s = sl) then
              ({ st with batch := st.batch.map (fun (s, cs) => if s = sl then (s, cs ++ [c]) else (s, cs)) }, "ok")
            else ({ st with sv := pushAll (runCmd st.sv sid c) }, "ok")
  | _ => (st, "bad-op")

def engine : Engine := { σ := St, init := {}, step := step }

end Muscle.Eng.SrvEngine
