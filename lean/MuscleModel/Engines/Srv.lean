import MuscleModel.Engines.Common

/-! Engine `srv` (C04 C05 C06 C07 C13) — placeholder: no prediction yet (`?`), oracles only. -/

namespace Muscle.Eng.SrvEngine
open Muscle Muscle.Eng

def step (s : Unit) (toks : List String) : Unit × String :=
  match toks with
  | ["case", n] => (s, "case " ++ n)
  | _ => (s, "?")

def engine : Engine := { σ := Unit, init := (), step := step }

end Muscle.Eng.SrvEngine
