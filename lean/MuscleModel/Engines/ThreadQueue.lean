import MuscleModel.Engines.Common
import MuscleModel.Conc.ThreadQueue

/-! Engine `thr` (C11): one op line = the programs of the owner and the extra sender threads + a schedule, executed on
the interleaving model of `muscle::Thread`'s Message queues.  Line and result formats are documented at the top of
`harness/thr.cpp`. -/

namespace Muscle.Eng.ThrEngine
open Muscle Muscle.Eng Muscle.Conc Muscle.Conc.TQ

def maxUsers : Nat := 3
def maxTid : Nat := 16
def maxId : Nat := 100
def maxRep : Nat := 3
def tailCap : Nat := 4000

def parseOp (s : String) : Option Op :=
  match s with
  | "S" => some .start | "g" => some .poll | "G" => some .recv | "t" => some .recvT
  | "X" => some (.shutdown true) | "x" => some (.shutdown false) | "J" => some .join
  | _ =>
    if s.startsWith "s" then
      match (s.drop 1).toString.splitOn "." with
      | [a, b] =>
        match nat? a, nat? b with
        | some id, some k => if id < maxId ∧ k ≤ maxRep then some (.send { id := id, nrep := k }) else none
        | _, _ => none
      | _ => none
    else none

def maxOps : Nat := 12

def parseProg (s : String) : Option (List Op) :=
  if s = "-" then some [] else if s.isEmpty then none else
  match (s.splitOn ",").mapM parseOp with
  | some p => if p.length ≤ maxOps then some p else none
  | none => none

def parseEv (s : String) : Option Ev :=
  if s.startsWith "T" then
    match nat? (s.drop 1).toString with
    | some k => if k < maxTid then some (.timeout k) else none
    | none => none
  else
    match nat? s with
    | some k => if k < maxTid then some (.run k) else none
    | none => none

def evName : Ev → String
  | .run t => toString t
  | .timeout t => "T" ++ toString t

def itemName : Item → String
  | none => "N"
  | some m => toString m.id

def outTok : Out → String
  | .quiet => "." | .ok => "+" | .err => "e" | .timedOut => "t" | .noop => "n"
  | .got it => "m" ++ itemName it

def items (l : List Item) : String := if l.isEmpty then "_" else ",".intercalate (l.map itemName)

/-- the explicit schedule with the SKIP rule -/
def runEvents : Cfg → List Ev → List String → Cfg × List String
  | c, [], acc => (c, acc.reverse)
  | c, e :: es, acc =>
    match TQ.step c e with
    | some (c', o) => runEvents c' es ((evName e ++ ":" ++ outTok o) :: acc)
    | none => runEvents c es ((evName e ++ ":-") :: acc)

def firstSome (c : Cfg) (mk : Tid → Ev) : List Tid → Option (Ev × Cfg × Out)
  | [] => none
  | i :: is => match TQ.step c (mk i) with
    | some (c', o) => some (mk i, c', o)
    | none => firstSome c mk is

/-- the TAIL rule -/
def runTail : Nat → Cfg → List String → Cfg × List String
  | 0, c, acc => (c, acc.reverse)
  | fuel + 1, c, acc =>
    match (firstSome c Ev.run (List.range maxTid)).orElse (fun _ => firstSome c Ev.timeout (List.range maxTid)) with
    | some (e, c', o) => runTail fuel c' ((evName e ++ ":" ++ outTok o) :: acc)
    | none => (c, acc.reverse)

def runLine (toks : List String) : String :=
  match toks with
  | "x" :: ms :: ns :: rest =>
    match (if ms = "s" then some Mode.sock else if ms = "c" then some Mode.cond else none), nat? ns with
    | some mode, some n =>
      if n < 1 ∨ n > maxUsers ∨ rest.length < n then "bad-op" else
      match (rest.take n).mapM parseProg, (rest.drop n).mapM parseEv with
      | some progs, some evs =>
        -- only the owner (thread 0) starts, receives, shuts down and joins
        if (progs.drop 1).any (fun p => p.any (fun op => !op.isSend)) then "bad-op" else
        let c0 := Cfg.init mode progs
        let (c1, l1) := runEvents c0 evs []
        let (c2, l2) := runTail tailCap c1 []
        let unfinished := ((List.range n).filter fun i => (c2.th i).pc ≠ .done) ++ (if c2.ipc ≠ .exited then [c2.intTid] else [])
        let enabled := (List.range maxTid).any fun i => (TQ.step c2 (.run i)).isSome || (TQ.step c2 (.timeout i)).isSome
        let verdict := if unfinished.isEmpty then "done"
                       else (if enabled then "livelock" else "deadlock") ++ " B=" ++ ",".intercalate (unfinished.map toString)
        let summary := "I=" ++ items c2.sh.ci.recvd ++ " O=" ++ items c2.sh.co.recvd ++ " QI=" ++ items c2.sh.ci.queue ++ " QO=" ++ items c2.sh.co.queue
        " ".intercalate (l1 ++ ["|"] ++ l2 ++ [verdict, summary])
      | _, _ => "bad-op"
    | _, _ => "bad-op"
  | _ => "bad-op"

def step (_ : Unit) (toks : List String) : Unit × String :=
  match toks with
  | ["case", n] => ((), "case " ++ n)
  | _ => ((), runLine toks)

def engine : Engine := { σ := Unit, init := (), step := step }

end Muscle.Eng.ThrEngine
