import MuscleModel.Engines.Common
import MuscleModel.Generated.Constants
import MuscleModel.Pulse.Ops

/-! Engine `pn` (C20): a pool of 16 scripted pulse nodes driven through the public `PulseNode` API and,
for the two sweeps, through `PulseNodeManager::CallGetPulseTimeAux / CallPulseAux`. -/

namespace Muscle.Eng.PulseEngine
open Muscle Muscle.Pulse Muscle.Gen Muscle.Eng

def NN : Nat := 16
def never : Nat := timeNever
def dFuel : Nat := 64        -- parent chains are shorter than the number of nodes
def kFuel : Nat := 1000    -- sweep steps

/-- re-tabulate the function-valued state (keeps look-ups O(1) over long cases) -/
def compact (w : World) : World :=
  let nodes := (Array.range NN).map w.f
  let reqs := (Array.range NN).map w.req
  let gqs := (Array.range NN).map w.gq
  let pqs := (Array.range NN).map w.pq
  { f := fun i => nodes.getD i (Node.fresh never), req := fun i => reqs.getD i never,
    gq := fun i => gqs.getD i [], pq := fun i => pqs.getD i [], log := [] }

def id? (s : String) : Option Nat := do
  let n ← nat? s
  if n < NN then some n else none

def time? (s : String) : Option Nat := do
  let n ← nat? s
  if n ≤ never then some n else none

def pair? (cs : List Char) : Option (String × String) :=
  match (String.ofList cs).splitOn "." with
  | [a, b] => some (a, b)
  | _ => none

/-- `i<id>.<0|1>` | `r<id>.<t>` | `d<id>` | `a<child>.<parent>` -/
def act? (tok : String) : Option Act :=
  match tok.toList with
  | 'i' :: r => do
    let (a, b) ← pair? r
    let id ← id? a
    let c ← nat? b
    if c ≤ 1 then some (.inval id (c = 1)) else none
  | 'r' :: r => do
    let (a, b) ← pair? r
    let id ← id? a
    let t ← time? b
    some (.setReq id t)
  | 'd' :: r => do
    let id ← id? (String.ofList r)
    some (.detach id)
  | 'a' :: r => do
    let (a, b) ← pair? r
    let c ← id? a
    let p ← id? b
    some (.attach c p)
  | _ => none

def showEvent : Event → String
  | .G id now prev ret => s!" G{id}:{now}:{prev}:{ret}"
  | .P id now st => s!" P{id}:{now}:{st}"

def showLog (l : List Event) : String := String.join (l.map showEvent)

def dump (w : World) : String :=
  " ".intercalate ((List.range NN).map fun i =>
    (match (w.f i).parent with | some p => toString p | none => "-") ++ ":" ++ toString (w.f i).myTime)

def parseOp : List String → Option Op
  | ["attach", c, p] => do some (.attach (← id? c) (← id? p))
  | ["detach", c] => do some (.detach (← id? c))
  | ["destroy", c] => do some (.destroy (← id? c))
  | ["inval", c, cl] => do
    let c ← id? c
    let b ← nat? cl
    if b ≤ 1 then some (.inval c (b = 1)) else none
  | ["setreq", c, t] => do some (.setReq (← id? c) (← time? t))
  | "sg" :: c :: acts => do some (.script true (← id? c) (← acts.mapM act?))
  | "sp" :: c :: acts => do some (.script false (← id? c) (← acts.mapM act?))
  | ["gpt", r, now] => do some (.gpt (← id? r) (← time? now))
  | ["pulse", r, now] => do some (.pulse (← id? r) (← time? now))
  | _ => none

def showRes : Res → String
  | .ok => "ok"
  | .cycle => "cycle"
  | .notroot => "notroot"
  | .min m => "min " ++ toString m

def step (w : World) (toks : List String) : World × String :=
  match toks with
  | ["case", n] => (compact (World.init never), "case " ++ n)
  | ["dump"] => (w, dump w)
  | _ =>
    match parseOp toks with
    | none => (w, "bad-op")
    | some op =>
      -- the log is per op line: it is printed with the result
      match applyOp never dFuel kFuel { w with log := [] } op with
      | some (w', r) => (compact w', showRes r ++ showLog w'.log)
      | none => (w, "fuel")

def engine : Engine := { σ := World, init := compact (World.init never), step := step }

end Muscle.Eng.PulseEngine
