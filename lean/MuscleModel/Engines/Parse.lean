import MuscleModel.Engines.Common
import MuscleModel.Wire.Ops

/-! Engine `parse` (C02): one hostile byte string per op, handed to one parser.

`parse cpp x<hex>`  → what `Muscle.Wire.decode Muscle.Gen.maxMessageNestingDepth` predicts for
                      `Message::UnflattenFromBytes`: `ok <canonical dump>` or `err`.
`parse mini|micro|py x<hex>` → `?`: which hostile inputs the C and Python codecs accept is not specified by the
                      C++ model; for them only the direct oracle of C02 (no fault, no hang, bounded allocation,
                      reusable object) is evaluated, by the harness.
Inputs longer than `maxPredicted` bytes also get `?` for `cpp`: the executable model copies the remaining input once
per nesting level, so a 900 kB input nested 30 000 deep would cost gigabytes in the DRIVER (the theorems are not
affected; the harness still evaluates the direct oracle on those inputs). -/

namespace Muscle.Eng.ParseEngine
open Muscle Muscle.Wire Muscle.Gen Muscle.Eng

def maxPredicted : Nat := 20000

/-- `x` followed by an even number of hex digits; iterative (a 900 kB input is a 1.8 M character token) -/
def hexTokOk (t : String) : Bool :=
  t.length % 2 = 1 && t.startsWith "x" &&
    t.foldl (fun n c => if (hexVal c).isSome then n + 1 else n) 0 + 1 = t.length

def step (s : Unit) (toks : List String) : Unit × String :=
  match toks with
  | ["case", n] => (s, "case " ++ n)
  | ["parse", p, hx] =>
    if !hexTokOk hx then (s, "bad-op")
    else if p = "cpp" then
      if maxPredicted < (hx.length - 1) / 2 then (s, "?") else
      match bytesOfTok hx with
      | none => (s, "bad-op")
      | some b =>
        match decode maxMessageNestingDepth b with
        | some m => (s, "ok " ++ dumpMsg m)
        | none => (s, "err")
    else if p = "mini" ∨ p = "micro" ∨ p = "py" then (s, "?")
    else (s, "bad-op")
  | _ => (s, "bad-op")

def engine : Engine := { σ := Unit, init := (), step := step }

end Muscle.Eng.ParseEngine
