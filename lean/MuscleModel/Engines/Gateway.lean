import MuscleModel.Engines.Common
import MuscleModel.Gateway.Binary
import MuscleModel.Gateway.Text
import MuscleModel.Gateway.Raw
import MuscleModel.Gateway.WebSocket
import MuscleModel.Gateway.Templating
import MuscleModel.Wire.Ops

/-! Engine `gw` (C03; gateway part of C02): see `harness/gw.cpp` for the op lines.

Simulated step by step (every `Read`/`Write` of every call, with the op line's grants): the binary
gateway with the default encoding, text, raw, SLIP.  For the kinds whose wire bytes the model cannot
know (zlib, templating, masked/handshaking WebSocket) and for the C gateways only the final deliveries
are predicted (`mid=-`): by `Props.C03.segmentation_independent` they are the units sent. -/

namespace Muscle.Eng.GwEngine
open Muscle Muscle.Wire Muscle.Gen Muscle.Eng Muscle.Gateway

def binP : BinParams :=
  { hs := gwHeaderSize, scratch := gwScratchRecvBufferSize, maxIn := 4294967295, mx := maxMessageNestingDepth,
    deflate := fun _ x => x, inflate := fun _ _ => none }

def slipK : SlipK :=
  { END := UInt8.ofNat slipEnd, ESC := UInt8.ofNat slipEsc, ESC_END := UInt8.ofNat slipEscEnd, ESC_ESC := UInt8.ofNat slipEscEsc }

/-! ## schedules -/

inductive Item where
  | add
  | enc (n : Nat)
  | out (c : Call)
  | inp (c : Call)

def parseGrant (s : String) : Option (List Nat) :=
  match s.splitOn "^" with
  | [k] => do let k ← nat? k; if k > 4294967295 then none else pure [k]
  | [k, r] => do
      let k ← nat? k; let r ← nat? r
      if k > 4294967295 ∨ r > 1000000 then none else pure (List.replicate r k)
  | _ => none

def parseGrants (s : String) : Option (Option (List Nat)) :=
  if s = "u" then some none
  else do
    let gs ← (s.splitOn ".").mapM parseGrant
    pure (some gs.flatten)

def parseCall (s : String) : Option Call :=
  match s.splitOn ":" with
  | [mb] => do let mb ← nat? mb; if mb > 4294967295 then none else pure { maxBytes := mb, grants := some [] }
  | [mb, g] => do
      let mb ← nat? mb; let g ← parseGrants g
      if mb > 4294967295 then none else pure { maxBytes := mb, grants := g }
  | _ => none

def parseItem (s : String) : Option (List Item) := do
  let (body, cnt) ← (match s.splitOn "*" with
    | [b] => some (b, 1)
    | [b, c] => (nat? c).bind (fun c => if c > 1000000 then none else some (b, c))
    | _ => none)
  match body.toList with
  | ['a'] => pure (List.replicate cnt .add)
  | 'e' :: r => do let n ← nat? (String.ofList r); if n > 9 then none else pure (List.replicate cnt (.enc n))
  | 'o' :: r => do let c ← parseCall (String.ofList r); pure (List.replicate cnt (.out c))
  | 'i' :: r => do let c ← parseCall (String.ofList r); pure (List.replicate cnt (.inp c))
  | _ => none

def parseSched (s : String) : Option (List Item) :=
  if s = "-" then some []
  else do
    let xs ← (s.splitOn ",").mapM parseItem
    pure xs.flatten

/-! ## units -/

def parseParts (tok : String) : Option (List Bytes) :=
  if tok = "-" then some [] else (tok.splitOn "/").mapM bytesOfTok

def parseMsg (tok : String) : Option Msg := (bytesOfTok tok).bind (decode maxMessageNestingDepth)

def joinToks (xs : List String) : String := xs.foldl (fun acc x => acc ++ " " ++ x) ""

def unlimited : Call := { maxBytes := 4294967295, grants := none }

/-! ## generic simulation of one `run` -/

structure Sim (τ σ ι υ : Type) where
  G : Gw τ σ ι υ
  s : Sys τ σ υ
  pendingUnits : List ι

def simItem {τ σ ι υ} (x : Sim τ σ ι υ) : Item → Sim τ σ ι υ
  | .add =>
    match x.pendingUnits with
    | [] => x
    | u :: r => { x with s := stepSys x.G x.s (.add u), pendingUnits := r }
  | .enc _ => x
  | .out c => { x with s := stepSys x.G x.s (.output c) }
  | .inp c => { x with s := stepSys x.G x.s (.input c) }

def drain {τ σ ι υ} (G : Gw τ σ ι υ) (rxErr : σ → Bool) : Nat → Sys τ σ υ → Sys τ σ υ
  | 0, s => s
  | fuel+1, s =>
    let s1 := stepSys G s (.output unlimited)
    let s2 := stepSys G s1 (.input unlimited)
    if rxErr s2.r then s2
    else if s1.q.length == s.q.length && s2.q.length == s1.q.length && s2.out.length == s.out.length
            && (!G.hasOut s2.t) && s2.q.isEmpty then s2
    else drain G rxErr fuel s2

def b2n (b : Bool) : Nat := if b then 1 else 0

/-- the whole `run` op for a simulated kind -/
def runSim {τ σ ι υ} (G : Gw τ σ ι υ) (t0 : τ) (r0 : σ) (rxErr : σ → Bool) (items : List Item) (units : List ι)
    (count : List υ → Nat) (shown : List υ → String) (predictMid : Bool) (cap : Nat) : String :=
  let x0 : Sim τ σ ι υ := { G := G, s := { t := t0, q := [], r := r0, out := [] }, pendingUnits := units }
  let x1 := items.foldl simItem x0
  let s2 := x1.pendingUnits.foldl (fun s u => stepSys G s (.add u)) x1.s
  let mid := if predictMid then s!"{count s2.out}/{s2.q.length}/{b2n (G.hasOut s2.t)}" else "-"
  let s3 := drain G rxErr cap s2
  let drained := !G.hasOut s3.t && s3.q.isEmpty
  s!"ok mid={mid} end={b2n (rxErr s3.r)}/{b2n drained} n={count s3.out}{shown s3.out}"

def feedSim {τ σ ι υ} (G : Gw τ σ ι υ) (t0 : τ) (r0 : σ) (rxErr : σ → Bool) (items : List Item) (bytes : Bytes)
    (count : List υ → Nat) (shown : List υ → String) : String :=
  let s0 : Sys τ σ υ := { t := t0, q := bytes, r := r0, out := [] }
  let s1 := items.foldl (fun s it => match it with | .inp c => stepSys G s (.input c) | _ => s) s0
  let rec go : Nat → Sys τ σ υ → Sys τ σ υ
    | 0, s => s
    | fuel+1, s =>
      let s' := stepSys G s (.input unlimited)
      if rxErr s'.r || (s'.q.length == s.q.length && s'.out.length == s.out.length) then s' else go fuel s'
  let s2 := go (64 + bytes.length / 8 + 1) s1
  s!"ok end={b2n (rxErr s2.r)}/{s2.q.length} n={count s2.out}{shown s2.out}"

/-! ## kinds -/

def showMsgs (ms : List Msg) : String := joinToks (ms.map (fun m => tokOfBytes (encode m)))
def showChunks (xs : List Bytes) : String := joinToks (xs.map tokOfBytes)
def showStream (xs : List Bytes) : String := " " ++ tokOfBytes xs.flatten

def eolOf : Nat → Bytes
  | 0 => [13, 10]
  | 1 => [10]
  | _ => [13]

def parseSlash (s : String) : Option (List Nat) := (s.splitOn "/").mapM nat?

/-- is the frame stream free of anything the model cannot decide (zlib bodies, allocation of huge buffers)? -/
def binKnown : Nat → Bytes → Bool
  | 0, _ => true
  | fuel+1, b =>
    if b.length < 8 then true else
    let len := leVal (b.take 4)
    let enc := leVal ((b.drop 4).take 4)
    if enc < encodingDefault ∨ encodingEndMarker ≤ enc then true      -- header error: the receiver stops here
    else if enc ≠ encodingDefault then false
    else if 4294967288 ≤ len then true                                 -- overflow check: error, stops
    else if 1048576 < len then false
    else binKnown fuel (b.drop (8 + len))

def capOf (toks : List String) : Nat :=
  64 + 4 * toks.length + (toks.map (fun t => t.length / 256 + 2 * (t.toList.filter (· == '/')).length)).sum

/-- kinds whose units are flattened Messages and whose final deliveries are the units themselves -/
def msgKind (kind param : String) : Option Unit :=
  match kind, parseSlash param with
  | "bin", some [e] => if e ≤ 9 then some () else none
  | "tmpl", some [e, c] => if e ≤ 9 ∧ c ≤ 4294967295 then some () else none
  | "ws", some [d, h] => if d ≤ 1 ∧ h ≤ 4 ∧ h ≠ 3 then some () else none
  | "ws", some [d, 3, p] => if d ≤ 1 ∧ p ≤ 100000 then some () else none
  | "m2c", some [0] => some ()
  | "c2m", some [0] => some ()
  | "u2c", some [0] => some ()
  | "c2u", some [0] => some ()
  | _, _ => none

def encAllowed (kind : String) : Bool := kind == "bin" || kind == "tmpl"

def hasEnc (items : List Item) : Bool := items.any (fun i => match i with | .enc _ => true | _ => false)
def hasNonzeroEnc (items : List Item) : Bool := items.any (fun i => match i with | .enc n => n != 0 | _ => false)

def doRun (kind param sched : String) (unitToks : List String) : String :=
  match parseSched sched with
  | none => "bad-op"
  | some items =>
  let cap := capOf unitToks
  match kind with
  | "text" =>
    match parseSlash param, unitToks.mapM parseParts with
    | some [e], some us =>
      if e > 2 ∨ hasEnc items then "bad-op" else
      runSim (textGw gwTextReadSize gwTextSendRecursionLimit (eolOf e)) textInitTx textInitRx (fun _ => false) items us
        List.length showChunks true (cap + (us.map (fun u => (u.map List.length).sum)).sum / 512)
    | _, _ => "bad-op"
  | "raw" =>
    match parseSlash param, unitToks.mapM parseParts with
    | some [mc], some us =>
      if mc > 1000000 ∨ hasEnc items then "bad-op" else
      runSim (rawGw gwRawReadSize mc) rawInitTx rawInitRx (fun _ => false) items us List.length showStream true cap
    | _, _ => "bad-op"
  | "slip" =>
    match parseSlash param, unitToks.mapM parseParts with
    | some [0], some us =>
      if hasEnc items then "bad-op" else
      runSim (slipGw slipK gwRawReadSize) rawInitTx slipInitRx (fun _ => false) items us List.length showChunks true cap
    | _, _ => "bad-op"
  | _ =>
    match msgKind kind param, unitToks.mapM parseMsg with
    | some (), some ms =>
      if hasEnc items && !encAllowed kind then "bad-op" else
      if kind == "bin" && param == "0" && !hasNonzeroEnc items then
        runSim (binGw binP 0) binInitTx (binInitRx binP) (fun r => r.err) items ms List.length showMsgs true cap
      else
        -- not simulated: by `segmentation_independent` everything sent arrives, in order, and the link drains
        s!"ok mid=- end=0/1 n={ms.length}{showMsgs ms}"
    | _, _ => "bad-op"

def doWire (kind param : String) (unitToks : List String) : String :=
  match kind with
  | "text" =>
    match parseSlash param, unitToks.mapM parseParts with
    | some [e], some us => if e > 2 then "bad-op" else "ok " ++ tokOfBytes ((us.map (fun m => (m.map (· ++ eolOf e)).flatten)).flatten)
    | _, _ => "bad-op"
  | "raw" =>
    match parseSlash param, unitToks.mapM parseParts with
    | some [mc], some us => if mc > 1000000 then "bad-op" else "ok " ++ tokOfBytes ((us.map (fun m => m.flatten)).flatten)
    | _, _ => "bad-op"
  | "slip" =>
    match parseSlash param, unitToks.mapM parseParts with
    | some [0], some us => "ok " ++ tokOfBytes ((us.map (fun m => (slipMsg slipK m).flatten)).flatten)
    | _, _ => "bad-op"
  | _ =>
    match msgKind kind param, unitToks.mapM parseMsg with
    | some (), some ms =>
      if (kind == "bin" && param == "0") || kind == "m2c" || kind == "c2m" || kind == "u2c" || kind == "c2u" then
        "ok " ++ tokOfBytes ((ms.map frame).flatten)
      else if kind == "ws" && param == "0/0" then
        "ok " ++ tokOfBytes ((ms.map (fun m => wsServerFrame 2 (frame m))).flatten)
      else "ok -"
    | _, _ => "bad-op"

/-- the payloads of a byte string that is, in full, a sequence of complete FIN binary frames acceptable to this receiver
    (`Gateway.wsDecodeFrame`: reserved bits, mask bit, the three length forms, unmasking); `none` = anything else -/
def wsPayloads (expectMask : Bool) : Nat → Bytes → Option (List Bytes)
  | 0, _ => none
  | fuel+1, b =>
    if b.isEmpty then some [] else
    match wsDecodeFrame expectMask b with
    | some (2, true, p, rest) => (wsPayloads expectMask fuel rest).map (p :: ·)
    | _ => none

/-- `ExecuteReceivedFrame`, WS_OPCODE_BINARY with a slave gateway: the payload is the slave's transport for
    `while(DoInput() > 0)`; what it does not consume is dropped -/
def slaveFeed : Nat → BinRx → Bytes → List Msg → BinRx × List Msg
  | 0, s, _, acc => (s, acc)
  | fuel+1, s, q, acc =>
    let r := rxCall (binRx binP) s unlimited q
    if r.2.1.length == q.length then (r.1, acc ++ r.2.2) else slaveFeed fuel r.1 r.2.1 (acc ++ r.2.2)

/-- `feed ws <dir>/0`: predicted when the input is a clean sequence of frames whose payloads the slave gateway accepts -/
def feedWs (expectMask : Bool) (bytes : Bytes) : String :=
  match wsPayloads expectMask (bytes.length + 1) bytes with
  | none => "?"
  | some ps =>
    if !(ps.all (fun p => binKnown (p.length + 1) p)) then "?" else
    let r := ps.foldl (fun (x : BinRx × List Msg) p => slaveFeed (p.length + 2) x.1 p x.2) (binInitRx binP, [])
    if r.1.err then "?"   -- a slave parse error is swallowed by the WebSocket gateway ("TODO: handle parse-errors here?"): not predicted
    else s!"ok end=0/0 n={r.2.length}{showMsgs r.2}"

def onlyInputs (items : List Item) : Bool := items.all (fun i => match i with | .inp _ => true | _ => false)

def doFeed (kind param sched hex : String) : String :=
  match parseSched sched, bytesOfTok hex with
  | some items, some bytes =>
    if !onlyInputs items then "bad-op" else
    match kind with
    | "text" =>
      match parseSlash param with
      | some [e] => if e > 2 then "bad-op" else
        feedSim (textGw gwTextReadSize gwTextSendRecursionLimit (eolOf e)) textInitTx textInitRx (fun _ => false) items bytes List.length showChunks
      | _ => "bad-op"
    | "raw" =>
      match parseSlash param with
      | some [mc] => if mc > 1000000 then "bad-op" else
        feedSim (rawGw gwRawReadSize mc) rawInitTx rawInitRx (fun _ => false) items bytes List.length showStream
      | _ => "bad-op"
    | "slip" =>
      match parseSlash param with
      | some [0] => feedSim (slipGw slipK gwRawReadSize) rawInitTx slipInitRx (fun _ => false) items bytes List.length showChunks
      | _ => "bad-op"
    | _ =>
      match msgKind kind param with
      | none => "bad-op"
      | some () =>
        if kind == "bin" && binKnown (bytes.length + 1) bytes then
          feedSim (binGw binP 0) binInitTx (binInitRx binP) (fun r => r.err) items bytes List.length showMsgs
        else if kind == "ws" && param == "0/0" then feedWs false bytes     -- a client receiving (unmasked) server frames
        else if kind == "ws" && param == "1/0" then feedWs true bytes      -- a server receiving masked client frames
        else "?"   -- zlib bodies, templating, WebSocket and the C parsers' error behaviour are not modelled
  | _, _ => "bad-op"

def doShare (enc a b s : String) : String :=
  match nat? enc, parseMsg a, parseMsg b, parseMsg s with
  | some e, some _, some _, some _ =>
    -- both links deliver both Messages, whatever the encoding (with a dependent zlib stream the cached bytes are not shared: F24, fixed)
    if e > 9 then "bad-op" else "ok n=2,2 e=0,0"
  | _, _, _, _ => "bad-op"

/-- `bigws`: `CreateReplyFrame` emits any size, but the receiver refuses an 8-byte length above 10 MB (`DoInputImplementation`,
    B_RESOURCE_LIMIT): mirrored, open finding C03-ws-10mb -/
def doBigWs (dir n : String) : String :=
  match nat? dir, nat? n with
  | some d, some n =>
    if d > 1 ∨ n < 40 ∨ n > 67108864 then "bad-op"
    else if 65535 < 8 + n ∧ 10485760 < 8 + n then "ok end=1/0 n=0"
    else "ok end=0/1 n=1"
  | _, _ => "bad-op"

/-- a `tcache` unit: `<template id>/<template size>/x<layout>/x<flattened Message>` (the first three as the real code computes them) -/
def parseTUnit (tok : String) : Option TUnit :=
  match tok.splitOn "/" with
  | [id, ts, lay, msg] => do
    let id ← nat? id; let ts ← nat? ts; let lay ← bytesOfTok lay; let m ← parseMsg msg
    pure { id := id, layout := lay, tsize := ts, trivial := m.fields.isEmpty }
  | _ => none

/-- `tcache`: both ends' template caches (`Gateway/Templating.lean`) run on the Message sequence -/
def doTcache (param : String) (unitToks : List String) : String :=
  match parseSlash param, unitToks.mapM parseTUnit with
  | some [e, mx], some us =>
    if e > 9 ∨ mx > 4294967295 then "bad-op" else
    let kinds := String.ofList (tKinds mx tEmpty us)
    match tRun mx tEmpty tEmpty us with
    | some (_, _, ds) => s!"ok k={kinds} end=0/1 n={ds.length}"
    | none => s!"ok k={kinds} end=1/0 n=?"      -- cannot happen (`Props.C03.template_caches_in_step`)
  | _, _ => "bad-op"

def step (_ : Unit) (toks : List String) : Unit × String :=
  match toks with
  | ["case", n] => ((), "case " ++ n)
  | "run" :: kind :: param :: sched :: units => ((), doRun kind param sched units)
  | "wire" :: kind :: param :: units => ((), doWire kind param units)
  | ["feed", kind, param, sched, hex] => ((), doFeed kind param sched hex)
  | ["share", enc, a, b, s] => ((), doShare enc a b s)
  | ["bigws", dir, n] => ((), doBigWs dir n)
  | "tcache" :: param :: units => ((), doTcache param units)
  | _ => ((), "bad-op")

def engine : Engine := { σ := Unit, init := (), step := step }

end Muscle.Eng.GwEngine
