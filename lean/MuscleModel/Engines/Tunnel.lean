import MuscleModel.Engines.Common
import MuscleModel.Tunnel.Net
import MuscleModel.Tunnel.Backpressure
import MuscleModel.Wire.Decode

/-! Engine `tun` (C12): up to three sending gateways, one receiving gateway, and a log of every packet
written; the fault script is the sequence of `rx <log index> <source address>` ops (loss = never
delivered, duplication = delivered twice, reordering/delay = any order).

Payloads are flattened Messages (the gateways run without a slave gateway, so the tunnelled byte string
is `Message::Flatten` and a reassembled buffer reaches the receiver iff `Message::Unflatten` accepts it):
the C01 model decides that, and a delivery is printed as the re-flattened Message.
With a compression level the harness prints/keeps mini-tunnel packets in inflated canonical form, so the
driver's codec never compresses (`Codec.none`); zlib itself is in the trusted base. -/

namespace Muscle.Eng.TunEngine
open Muscle Muscle.Wire Muscle.Gen Muscle.Eng Muscle.Tunnel

structure Sender where
  kind : Nat
  mtu : Nat
  magic : Nat
  sex : Nat
  id : Nat
  level : Nat
  off : Nat := 0                 -- `_currentOutputBufferOffset`
  queue : List Bytes := []       -- payloads not yet completely written into packets
  held : List Frag := []         -- tunnel: fragments of a packet the transport has not taken yet
  cur : List Bytes := []         -- mini tunnel: chunks of such a packet

structure St where
  kind : Nat := 0
  rx : RxCfg := { mtu := 0, magic := 0, sex := 0, maxIn := muscleNoLimit, misc := false, maxStates := tunnelMaxReceiveStates }
  haveRx : Bool := false
  tbl : Table := []
  senders : List (Option Sender) := [none, none, none]
  log : List (Nat × Bytes) := []

def hdr := tunnelFragmentHeaderSize
def ph := miniPacketHeaderSize
def ch := miniChunkHeaderSize
def bits := miniPacketIdBits

def u32? (s : String) : Option Nat := do
  let n ← nat? s
  if n < W32 then some n else none

/-- what `ProxyIOGateway::HandleIncomingByteBuffer` does with a buffer when there is no slave gateway -/
def handOver (b : Bytes) : List Bytes :=
  match decode maxMessageNestingDepth b with
  | some m => [encode m]
  | none => []

def showDeliveries (ds : List (Nat × Bytes)) : String :=
  ds.foldl (fun acc d => (handOver d.2).foldl (fun acc b => acc ++ " " ++ toString d.1 ++ ":" ++ tokOfBytes b) acc) "ok"

/-- a payload token must be the exact flattened form of a Message -/
def payload? (tok : String) : Option Bytes := do
  let b ← bytesOfTok tok
  let m ← decode maxMessageNestingDepth b
  if encode m = b then some b else none

def rxOne (s : St) (src : Nat) (p : Bytes) : St × List (Nat × Bytes) :=
  if s.kind = 0 then
    let r := rxPacket hdr s.rx s.tbl src p
    ({ s with tbl := r.1 }, r.2.map (fun b => (src, b)))
  else
    let c : MiniRx := { mtu := s.rx.mtu, magic := s.rx.magic, sex := s.rx.sex, misc := s.rx.misc }
    (s, (miniRx Codec.none ph ch bits c p).map (fun b => (src, b)))

def rxMany : St → List (Nat × Bytes) → St × List (Nat × Bytes)
  | s, [] => (s, [])
  | s, (src, p) :: r =>
    let a := rxOne s src p
    let b := rxMany a.1 r
    (b.1, a.2 ++ b.2)

/-- `-` = the transport takes everything; otherwise the comma-separated return values of successive `Write`s -/
def grants? (tok : String) : Option (List Nat) :=
  if tok = "-" then some [] else (tok.splitOn ",").mapM u32?

/-- queue the payloads, then call `DoOutput` as the harness does (`drain`); `g` scripts the transport -/
def sendOp (s : St) (i : String) (g : List Nat) (ms : List String) : St × String :=
  match nat? i, ms.mapM payload? with
  | some i, some ms =>
    match s.senders.getD i none with
    | some sd =>
      let q := sd.queue ++ ms
      let r : List Bytes × Sender :=
        if sd.kind = 0 then
          let d := drain hdr (effMtu hdr sd.mtu) sd.magic sd.sex (txMeasure 0 q + g.length + 2) g
                     { held := sd.held, id := sd.id, off := sd.off, queue := q }
          (d.1, { sd with held := d.2.held, id := d.2.id, off := d.2.off, queue := d.2.queue })
        else
          let d := miniDrain ph ch bits (miniEffMtu ph ch sd.mtu) { mtu := sd.mtu, magic := sd.magic, sex := sd.sex, level := sd.level }
                     (q.length + g.length + 2) g { cur := sd.cur, id := sd.id, queue := q }
          (d.1, { sd with cur := d.2.cur, id := d.2.id, queue := d.2.queue })
      ({ s with senders := s.senders.set i (some r.2), log := s.log ++ r.1.map (fun p => (i, p)) },
       r.1.foldl (fun acc p => acc ++ " " ++ tokOfBytes p) "ok")
    | none => (s, "bad-op")
  | _, _ => (s, "bad-op")

def step (s : St) (toks : List String) : St × String :=
  match toks with
  | ["case", n] => ({}, "case " ++ n)
  | ["rxcfg", kind, mtu, magic, sex, maxIn, misc] =>
    match nat? kind, u32? mtu, u32? magic, u32? sex, u32? maxIn, nat? misc with
    | some k, some mtu, some magic, some sex, some maxIn, some misc =>
      if k ≤ 1 ∧ misc ≤ 1 then
        ({ s with kind := k, haveRx := true, tbl := [],
                  rx := { mtu := mtu, magic := magic, sex := sex, maxIn := maxIn, misc := misc = 1, maxStates := tunnelMaxReceiveStates } }, "ok")
      else (s, "bad-op")
    | _, _, _, _, _, _ => (s, "bad-op")
  | ["rxreset"] => if s.haveRx then ({ s with tbl := [] }, "ok") else (s, "bad-op")
  | ["snd", i, kind, mtu, magic, sex, id, level] =>
    match nat? i, nat? kind, u32? mtu, u32? magic, u32? sex, u32? id, nat? level with
    | some i, some k, some mtu, some magic, some sex, some id, some level =>
      if i < 3 ∧ k ≤ 1 ∧ level ≤ 9 ∧ (k = 0 ∨ id < 2 ^ bits) ∧ (k = 1 ∨ level = 0) then
        ({ s with senders := s.senders.set i (some { kind := k, mtu := mtu, magic := magic, sex := sex, id := id, level := level }) }, "ok")
      else (s, "bad-op")
    | _, _, _, _, _, _, _ => (s, "bad-op")
  | "send" :: i :: ms => sendOp s i [] ms
  | "sendw" :: i :: g :: ms =>
    match grants? g with
    | some g => sendOp s i g ms
    | none => (s, "bad-op")
  | ["inject", pkt] =>
    match bytesOfTok pkt with
    | some p => ({ s with log := s.log ++ [(99, p)] }, "ok " ++ toString s.log.length)
    | none => (s, "bad-op")
  | ["rx", i, a] =>
    match nat? i, nat? a with
    | some i, some a =>
      if ¬ s.haveRx ∨ a ≥ 100000 then (s, "bad-op") else
      match s.log[i]? with
      | some (_, p) => let r := rxOne s a p; (r.1, showDeliveries r.2)
      | none => (s, "bad-op")
    | _, _ => (s, "bad-op")
  | ["perfect"] =>
    if ¬ s.haveRx then (s, "bad-op") else
    let r := rxMany s s.log
    (r.1, showDeliveries r.2)
  | ["taint"] => (s, "ok")
  | _ => (s, "bad-op")

def engine : Engine := { σ := St, init := {}, step := step }

end Muscle.Eng.TunEngine
