import MuscleModel.Engines.Common
import MuscleModel.Conc.RefCount

/-! Engine `rc` (C10): one op line = pool parameters + thread programs + a schedule, executed on the interleaving model of
`Ref`/`RefCountable`/`ObjectPool`.  Line and result formats are documented at the top of `harness/rc.cpp`. -/

namespace Muscle.Eng.RCEngine
open Muscle Muscle.Eng Muscle.Conc Muscle.Conc.Pool Muscle.Conc.RC

def maxThreads : Nat := 6
def numSlots : Nat := 3      -- L: private `Ref` slots per thread (protocol constant, see harness/rc.cpp)
def numGlobals : Nat := 2    -- G: global hand-off slots
def tailCap : Nat := 4000

def digit? (c : Char) (bound : Nat) : Option Nat :=
  if c.isDigit then (let d := c.toNat - '0'.toNat; if d < bound then some d else none) else none

def parseOp (s : String) : Option Op :=
  match s.toList with
  | ['N', a] => (digit? a numSlots).map .newHeap
  | ['P', a] => (digit? a numSlots).map .newPool
  | ['R', a] => (digit? a numSlots).map .reset
  | ['V', a] => (digit? a numSlots).map .write
  | ['U', a] => (digit? a numSlots).map .unlink
  | ['T', a] => (digit? a numSlots).map .pop
  | ['Q', a] => (digit? a numSlots).map .pop
  | ['M', a] => (digit? a numSlots).map .promote
  | ['D', a] => (digit? a numSlots).map .demote
  | ['Z', a] => (digit? a numSlots).map .neutral
  | ['L', a, b] => do let a ← digit? a numSlots; let b ← digit? b numSlots; pure (.link a b)
  | ['Y', a, b] => do let a ← digit? a numSlots; let b ← digit? b numSlots; pure (.weak a b)
  | ['C', a, b] => do let a ← digit? a numSlots; let b ← digit? b numSlots; pure (.copy a b)
  | ['S', a, b] => do let a ← digit? a numSlots; let b ← digit? b numSlots; pure (.setRef a b)
  | ['W', a, b] => do let a ← digit? a numSlots; let b ← digit? b numSlots; pure (.swap a b)
  | ['K', a, b] => do let a ← digit? a numSlots; let b ← digit? b numSlots; pure (.ccast a b)
  | ['X', a, g] => do let a ← digit? a numSlots; let g ← digit? g numGlobals; pure (.xchg a g)
  | _ => none

def parseProg (s : String) : Option (List Op) :=
  if s = "-" then some [] else (s.splitOn ".").mapM parseOp

def parseEv (s : String) : Option Ev :=
  match nat? s with
  | some k => if k < maxThreads then some (.run k) else none
  | none => none

/-- canonical identity: position in the first-seen list -/
def canon (seen : List Oid) (o : Oid) : Nat := (seen.idxOf o)

def noteSeen (seen : List Oid) : List Evt → List Oid
  | [] => seen
  | .created o :: r => noteSeen (if seen.contains o then seen else seen ++ [o]) r
  | .obtained o _ :: r => noteSeen (if seen.contains o then seen else seen ++ [o]) r
  | _ :: r => noteSeen seen r

def evtText (seen : List Oid) : Evt → String
  | .created o => s!"n{canon seen o}"
  | .slabNew => "S"
  | .obtained o v => s!"o{canon seen o}" ++ (if v = 0 then "" else s!"!{v}")
  | .reset o => s!"r{canon seen o}"
  | .deleted o => s!"d{canon seen o}"
  | .slabFreed => "F"

def digest (seen : List Oid) (c : Cfg) : String :=
  let l := (seen.zipIdx).filterMap fun (o, k) =>
    let ob := c.obj o
    if ob.alive then some (s!"{k}/{ob.count}/{ob.val}" ++ (match nextOf c.links o with | some n => s!">{canon seen n}" | none => "")) else none
  if l.isEmpty then "_" else ",".intercalate l

def outTok (seen : List Oid) (c' : Cfg) (evs : List Evt) : List Oid × String :=
  let seen' := noteSeen seen evs
  (seen', "".intercalate (evs.map (evtText seen')) ++ "=" ++ digest seen' c')

/-- the explicit schedule with the SKIP rule; events naming a thread ≥ n are skipped -/
def runEvents (n : Nat) : Cfg → List Oid → List Ev → List String → Cfg × List Oid × List String
  | c, seen, [], acc => (c, seen, acc.reverse)
  | c, seen, e :: es, acc =>
    let t := match e with | .run t => t | .timeout t => t
    match (if t < n then RC.step .new c e else none) with
    | some (c', evs) =>
      let (seen', s) := outTok seen c' evs
      runEvents n c' seen' es ((s!"{t}:" ++ s) :: acc)
    | none => runEvents n c seen es (s!"{t}:-" :: acc)

def firstSome (c : Cfg) : List Tid → Option (Tid × Cfg × List Evt)
  | [] => none
  | i :: is => match RC.step .new c (.run i) with
    | some (c', o) => some (i, c', o)
    | none => firstSome c is

/-- the TAIL rule -/
def runTail (n : Nat) : Nat → Cfg → List Oid → List String → Cfg × List Oid × List String
  | 0, c, seen, acc => (c, seen, acc.reverse)
  | fuel + 1, c, seen, acc =>
    match firstSome c (List.range n) with
    | some (t, c', evs) =>
      let (seen', s) := outTok seen c' evs
      runTail n fuel c' seen' ((s!"{t}:" ++ s) :: acc)
    | none => (c, seen, acc.reverse)

def runLine (toks : List String) : String :=
  match toks with
  | "x" :: ns :: ms :: ts :: rest =>
    match nat? ns, nat? ms, nat? ts with
    | some N, some maxPool, some n =>
      if N < 1 ∨ N > 4 ∨ maxPool > 1000 ∨ n < 1 ∨ n > maxThreads ∨ rest.length < n then "bad-op" else
      match (rest.take n).mapM parseProg, (rest.drop n).mapM parseEv with
      | some progs, some evs =>
        let c0 := Cfg.init N maxPool numSlots numGlobals progs
        let (c1, seen1, l1) := runEvents n c0 [] evs []
        let (c2, _, l2) := runTail n tailCap c1 seen1 []
        let unfinished := (List.range n).filter fun i => (RC.step .new c2 (.run i)).isSome
        let verdict := if unfinished.isEmpty then "done" else "livelock"
        let slabs := if c2.pool.slabs.isEmpty then "_" else ",".intercalate (c2.pool.slabs.map fun s => toString s.inUse)
        " ".intercalate (l1 ++ ["|"] ++ l2 ++ [verdict, s!"cur={c2.pool.cur}", "L=" ++ slabs])
      | _, _ => "bad-op"
    | _, _, _ => "bad-op"
  | _ => "bad-op"

/-- `stress <lastrefs|churn|pop> <threads> <rounds>`: the harness runs REAL, UNSCHEDULED threads from a spin barrier.
This op is a **provocation, not a model of the schedule**: nothing of the interleaving machine is executed here, the
engine only echoes the constant a correct library must produce (exactly one release per shared object in `lastrefs`,
`3·threads·rounds` releases in `churn`, `2·threads·rounds` in `pop`).  What it supports is the *detection* of
violations of `released_once` / `never_early` whose cause lies below the hook granularity (a decrement and its
zero-test split inside `AtomicDecrement`), which the cooperative scheduler cannot place and which the theorems —
stated over atomic counter steps — assume away.  It is testing, and proves nothing. -/
def stressLine (kind ks rs : String) : String :=
  match nat? ks, nat? rs with
  | some k, some rounds =>
    if k < 1 ∨ k > 8 ∨ rounds < 1 ∨ rounds > 10000000 then "bad-op"
    else if kind = "lastrefs" then s!"ok rounds={rounds} released={rounds}"
    else if kind = "churn" then s!"ok rounds={rounds} released={3 * k * rounds}"
    else if kind = "pop" then s!"ok rounds={rounds} released={2 * k * rounds}"
    else "bad-op"
  | _, _ => "bad-op"

def step (_ : Unit) (toks : List String) : Unit × String :=
  match toks with
  | ["case", n] => ((), "case " ++ n)
  | ["stress", kind, ks, rs] => ((), stressLine kind ks rs)
  | "stress" :: _ => ((), "bad-op")
  | _ => ((), runLine toks)

def engine : Engine := { σ := Unit, init := (), step := step }

end Muscle.Eng.RCEngine
