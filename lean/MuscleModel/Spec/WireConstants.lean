/-!
# The DOCUMENTED wire constants, typed by hand from the documentation

Frozen table: nothing here is derived from the source code.  Sources: the layout comment of the Message
class ("Protocol revision number 'PM00'"), the `B_*_TYPE` table of the type-code documentation (each code is a
four-character constant, first character in the most significant byte), the `MUSCLE_MESSAGE_ENCODING_*`
documentation ('Enc0' = uncompressed … 'Enc9' = zlib level 9, header = two little-endian 32-bit words: body
length, encoding), and the per-type flattened item sizes of the format description.

`Props/C08.lean` proves (by `decide`) that the constants regenerated from /repo's current source on every
run — the C++ headers, the C mini/micro codecs and the Python codec — equal this table.
-/

namespace Muscle.Spec

/-- the value of a four-character constant such as `'BOOL'` -/
def fourCC (a b c d : Char) : Nat := ((a.toNat * 256 + b.toNat) * 256 + c.toNat) * 256 + d.toNat

def protocolVersion : Nat := 1347235888   -- 'PM00'

def tcBool    : Nat := 1112493900   -- 'BOOL'
def tcDouble  : Nat := 1145195589   -- 'DBLE'
def tcFloat   : Nat := 1179406164   -- 'FLOT'
def tcInt64   : Nat := 1280069191   -- 'LLNG'
def tcInt32   : Nat := 1280265799   -- 'LONG'
def tcInt16   : Nat := 1397248596   -- 'SHRT'
def tcInt8    : Nat := 1113150533   -- 'BYTE'
def tcMessage : Nat := 1297303367   -- 'MSGG'
def tcPointer : Nat := 1347310674   -- 'PNTR'
def tcPoint   : Nat := 1112559188   -- 'BPNT'
def tcRect    : Nat := 1380270932   -- 'RECT'
def tcString  : Nat := 1129534546   -- 'CSTR'
def tcRaw     : Nat := 1380013908   -- 'RAWT'
def tcTag     : Nat := 1297367367   -- 'MTAG'
def tcAny     : Nat := 1095653716   -- 'ANYT'

/-- 'Enc0' … 'Enc9': encoding `k` (0 = plain flattened Message, 1–9 = zlib level k) -/
def encoding (k : Nat) : Nat := 1164862256 + k
/-- first value that is not an encoding id -/
def encodingEnd : Nat := 1164862266

/-- Message header: protocol version, what-code, field count (three 32-bit words) -/
def messageHeaderSize : Nat := 12
/-- stream frame header: body length, encoding (two 32-bit words) -/
def frameHeaderSize : Nat := 8

/-- flattened bytes per item of the fixed-size types -/
def szBool : Nat := 1
def szInt8 : Nat := 1
def szInt16 : Nat := 2
def szInt32 : Nat := 4
def szInt64 : Nat := 8
def szFloat : Nat := 4
def szDouble : Nat := 8
def szPoint : Nat := 8     -- two floats
def szRect : Nat := 16     -- four floats

/-- (type code, item size) of every fixed-size type -/
def itemSizes : List (Nat × Nat) :=
  [(tcBool, szBool), (tcInt8, szInt8), (tcInt16, szInt16), (tcInt32, szInt32), (tcInt64, szInt64),
   (tcFloat, szFloat), (tcDouble, szDouble), (tcPoint, szPoint), (tcRect, szRect)]

/-- the variable-size and non-flattenable types: no fixed item size -/
def variableTypes : List Nat := [tcMessage, tcString, tcRaw, tcPointer, tcTag, tcAny]

end Muscle.Spec
