import MuscleModel.Tunnel.Mini

/-!
# Senders against a transport that pushes back

`DataIO::Write` may return 0 ("would block": nothing was taken, try again later) or, in principle, fewer bytes
than offered.  Both gateways handle this in "Step 2" of `DoOutputImplementation`:

* 0 bytes ⇒ `break`: the packet stays in `_outputPacketBuffer` (`_outputPacketSize` keeps its value), the call
  returns, and the NEXT call first tries to add more data to the held packet, then offers it again;
* a short count ⇒ an error is logged and the packet counts as sent (the transport got a truncated datagram).

`grants` is the list of values successive `Write` calls return (a value ≥ the packet size means "all of it");
when the list is used up the transport takes everything.  `HasBytesToOutput()` looks only at the Message
queues, NOT at a held packet, so a caller that polls it (as `ReflectServer` and the harness do) stops calling
while a packet is still held: `drain` mirrors that caller.
-/

namespace Muscle.Tunnel
open Muscle

/-- sender state between calls: the held packet, the id counter, the cursor, the queue -/
structure TxState where
  held : List Frag := []     -- fragments sitting in `_outputPacketBuffer` (`_outputPacketSize` = their encoded size)
  id : Nat := 0
  off : Nat := 0
  queue : List Bytes := []

/-- one call of `PacketTunnelIOGateway::DoOutputImplementation`: returns the datagrams the transport took,
    the remaining grants, the total byte count returned, and the new state -/
def doOutput (hdr mtu magic sex : Nat) : Nat → List Nat → TxState → List Bytes × List Nat × Nat × TxState
  | 0, g, st => ([], g, 0, st)
  | fuel+1, g, st =>
    let r := fillPacket hdr mtu magic sex (encPacket st.held).length st.id st.off st.queue
    let pkt := st.held ++ r.1
    let st1 : TxState := { held := pkt, id := r.2.1, off := r.2.2.1, queue := r.2.2.2 }
    if (encPacket pkt).length = 0 then ([], g, 0, st1)              -- `_outputPacketSize == 0`: nothing more to do
    else
      match g with
      | 0 :: g' => ([], g', 0, st1)                                  -- would block: hold the packet
      | n :: g' =>
        let next := doOutput hdr mtu magic sex fuel g' { st1 with held := [] }
        ((encPacket pkt).take n :: next.1, next.2.1, min n (encPacket pkt).length + next.2.2.1, next.2.2.2)
      | [] =>
        let next := doOutput hdr mtu magic sex fuel [] { st1 with held := [] }
        (encPacket pkt :: next.1, next.2.1, (encPacket pkt).length + next.2.2.1, next.2.2.2)

/-- the caller's loop: `while (gw.HasBytesToOutput()) if (gw.DoOutput() <= 0) break;` -/
def drain (hdr mtu magic sex : Nat) : Nat → List Nat → TxState → List Bytes × TxState
  | 0, _, st => ([], st)
  | fuel+1, g, st =>
    if st.queue = [] then ([], st)
    else
      let r := doOutput hdr mtu magic sex (txMeasure st.off st.queue + 2) g st
      if r.2.2.1 = 0 then (r.1, r.2.2.2)
      else
        let next := drain hdr mtu magic sex fuel r.2.1 r.2.2.2
        (r.1 ++ next.1, next.2)

/-! ## mini tunnel -/

structure MiniTxState where
  cur : List Bytes := []     -- chunks sitting in `_outputPacketBuffer`
  id : Nat := 0
  queue : List Bytes := []

/-- "Step 1" for one packet -/
def miniFill (ph ch mtu : Nat) : List Bytes → List Bytes → List Bytes × List Bytes
  | cur, [] => (cur, [])
  | cur, m :: q =>
    if ph + ch + m.length > mtu then miniFill ph ch mtu cur q
    else if miniWritten ph cur + (if miniWritten ph cur = 0 then ph else 0) + ch + m.length ≤ mtu then
      miniFill ph ch mtu (cur ++ [m]) q
    else (cur, m :: q)

/-- one call of `MiniPacketTunnelIOGateway::DoOutputImplementation` (codec fixed to "never pays off", as in the
    driver: packets are compared in inflated form) -/
def miniDoOutput (ph ch bits mtu : Nat) (tx : MiniTx) : Nat → List Nat → MiniTxState → List Bytes × List Nat × Nat × MiniTxState
  | 0, g, st => ([], g, 0, st)
  | fuel+1, g, st =>
    let r := miniFill ph ch mtu st.cur st.queue
    let st1 : MiniTxState := { st with cur := r.1, queue := r.2 }
    if r.1 = [] then ([], g, 0, st1)
    else
      let pkt := miniEncPacket Codec.none bits tx st.id r.1
      match g with
      | 0 :: g' => ([], g', 0, st1)
      | n :: g' =>
        let next := miniDoOutput ph ch bits mtu tx fuel g' { cur := [], id := nextMiniId bits st.id, queue := r.2 }
        (pkt.take n :: next.1, next.2.1, min n pkt.length + next.2.2.1, next.2.2.2)
      | [] =>
        let next := miniDoOutput ph ch bits mtu tx fuel [] { cur := [], id := nextMiniId bits st.id, queue := r.2 }
        (pkt :: next.1, next.2.1, pkt.length + next.2.2.1, next.2.2.2)

def miniDrain (ph ch bits mtu : Nat) (tx : MiniTx) : Nat → List Nat → MiniTxState → List Bytes × MiniTxState
  | 0, _, st => ([], st)
  | fuel+1, g, st =>
    if st.queue = [] then ([], st)
    else
      let r := miniDoOutput ph ch bits mtu tx (st.queue.length + 2) g st
      if r.2.2.1 = 0 then (r.1, r.2.2.2)
      else
        let next := miniDrain ph ch bits mtu tx fuel r.2.1 r.2.2.2
        (r.1 ++ next.1, next.2)

end Muscle.Tunnel
