import MuscleModel.Tunnel.Proofs4

/-! Lemmas for C12, part 5: interleaved sources at the datagram level.  As long as the receive-state table
is not pushed over its cap, what the receiver hands on for one source is the same whether or not datagrams
of other sources (with any content) are interleaved. -/

set_option linter.unusedSimpArgs false
set_option linter.unusedVariables false

namespace Muscle.Tunnel
open Muscle

/-! ### table size -/

theorem tdel_length_le : ∀ (t : Table) (s : Nat), (tdel t s).length ≤ t.length
  | [], _ => Nat.le_refl _
  | (k, v) :: r, s => by
    have := tdel_length_le r s
    simp only [tdel]
    split <;> simp only [List.length_cons] <;> omega

theorem tdel_length_lt : ∀ (t : Table) (s : Nat) (rs : RS), tget t s = some rs → (tdel t s).length < t.length
  | [], _, _, h => by cases h
  | (k, v) :: r, s, rs, h => by
    simp only [tget] at h
    simp only [tdel]
    split
    · have := tdel_length_le r s
      simp only [List.length_cons]; omega
    · rename_i hk
      rw [if_neg hk] at h
      have := tdel_length_lt r s rs h
      simp only [List.length_cons]; omega

/-- room a source may still take: one more entry if it is unknown -/
def need (t : Table) (src : Nat) : Nat := match tget t src with | none => t.length + 1 | some _ => t.length

theorem length_le_need (t : Table) (src : Nat) : t.length ≤ need t src := by
  simp only [need]; split <;> omega

theorem need_le (t : Table) (src : Nat) : need t src ≤ t.length + 1 := by
  simp only [need]; split <;> omega

theorem rxFrag_need (c : RxCfg) (t : Table) (src : Nat) (f : Frag) : need (rxFrag c t src f).1 src ≤ need t src := by
  have hown := (rxFrag_own c t src f).1
  cases ho : tget t src with
  | some rs =>
    have hlt := tdel_length_lt t src rs ho
    have hsome : tget (rxFrag c t src f).1 src = some (rsStep rs f).1 := by rw [hown, ho]; rfl
    simp only [need, hsome, ho]
    simp only [rxFrag, ho, srcStep, List.length_append, List.length_cons, List.length_nil]
    omega
  | none =>
    have htrim : (trim c.maxStates t).length ≤ t.length := by simp only [trim, List.length_drop]; omega
    cases hr : (srcStep none f).1 with
    | some rs' =>
      have hsome : tget (rxFrag c t src f).1 src = some rs' := by rw [hown, ho, hr]
      simp only [need, hsome, ho]
      simp only [rxFrag, ho, hr, List.length_append, List.length_cons, List.length_nil]
      omega
    | none =>
      have hnone : tget (rxFrag c t src f).1 src = none := by rw [hown, ho, hr]
      simp only [need, hnone, ho]
      simp only [rxFrag, ho, hr]
      omega

theorem rxFrags_need (c : RxCfg) (src : Nat) : ∀ (fs : List Frag) (t : Table), need (rxFrags c src t fs).1 src ≤ need t src
  | [], t => Nat.le_refl _
  | f :: fs, t => by
    simp only [rxFrags]
    exact Nat.le_trans (rxFrags_need c src fs _) (rxFrag_need c t src f)

/-! ### one datagram -/

/-- what a datagram from `src` makes the receiver hand on, and the new state of `src`, as a function of the
    old state of `src` alone -/
def pktOwn (hdr : Nat) (c : RxCfg) (o : Option RS) (pkt : Bytes) : Option RS × List Bytes :=
  let b := pkt.take (effMtu hdr c.mtu)
  if b.length = 0 then (o, [])
  else if c.misc && (b.length < hdr || firstWord b ≠ c.magic) then (o, [b])
  else srcRun o (parseFrags c (b.length + 1) b)

theorem rxPacket_own (hdr : Nat) (c : RxCfg) (t : Table) (src : Nat) (pkt : Bytes) :
    tget (rxPacket hdr c t src pkt).1 src = (pktOwn hdr c (tget t src) pkt).1 ∧
    (rxPacket hdr c t src pkt).2 = (pktOwn hdr c (tget t src) pkt).2 := by
  simp only [rxPacket, pktOwn]
  split
  · exact ⟨rfl, rfl⟩
  · split
    · exact ⟨rfl, rfl⟩
    · exact rxFrags_own c src _ t

theorem rxPacket_other (hdr : Nat) (c : RxCfg) (t : Table) (src s : Nat) (pkt : Bytes) (hs : s ≠ src)
    (hroom : tget t src ≠ none ∨ t.length ≤ c.maxStates) :
    tget (rxPacket hdr c t src pkt).1 s = tget t s := by
  simp only [rxPacket]
  split
  · rfl
  · split
    · rfl
    · exact rxFrags_other c src s hs _ t hroom

theorem rxPacket_length (hdr : Nat) (c : RxCfg) (t : Table) (src : Nat) (pkt : Bytes) :
    (rxPacket hdr c t src pkt).1.length ≤ t.length + 1 := by
  simp only [rxPacket]
  split
  · exact Nat.le_succ _
  · split
    · exact Nat.le_succ _
    · exact Nat.le_trans (length_le_need _ src) (Nat.le_trans (rxFrags_need c src _ t) (need_le t src))

/-! ### interleaving -/

theorem rxAll_other (hdr : Nat) (c : RxCfg) (s : Nat) : ∀ (ps : List Datagram) (t : Table),
    (∀ p, p ∈ ps → p.1 ≠ s) → t.length + ps.length ≤ c.maxStates →
    tget (rxAll hdr c t ps).1 s = tget t s
  | [], t, _, _ => rfl
  | (src, p) :: ps, t, hne, hcap => by
    simp only [List.length_cons] at hcap
    simp only [rxAll]
    have hl := rxPacket_length hdr c t src p
    rw [rxAll_other hdr c s ps _ (fun q hq => hne q (List.mem_cons_of_mem _ hq)) (by omega)]
    exact rxPacket_other hdr c t src s p (fun h => hne (src, p) List.mem_cons_self h.symm) (Or.inr (by omega))

/-- the datagrams of source `s`, delivered interleaved with any datagrams of other sources, produce for `s`
    exactly what they produce alone (from any table that agrees on `s`), provided the table cannot exceed
    its cap during the run -/
theorem rxAll_interleaved (hdr : Nat) (c : RxCfg) (s : Nat) : ∀ (ps : List Datagram) (t1 t2 : Table),
    tget t1 s = tget t2 s → t1.length + ps.length ≤ c.maxStates →
    (rxAll hdr c t1 ps).2.filter (fun d => decide (d.1 = s)) =
      (rxAll hdr c t2 (ps.filter (fun d => decide (d.1 = s)))).2
  | [], t1, t2, _, _ => rfl
  | (src, p) :: ps, t1, t2, hag, hcap => by
    simp only [List.length_cons] at hcap
    have hl := rxPacket_length hdr c t1 src p
    by_cases hsrc : src = s
    · subst hsrc
      have h1 := rxPacket_own hdr c t1 src p
      have h2 := rxPacket_own hdr c t2 src p
      have hkeep : ((src, p) :: ps).filter (fun d => decide (d.1 = src)) = (src, p) :: ps.filter (fun d => decide (d.1 = src)) := by
        simp [List.filter_cons]
      rw [hkeep]
      simp only [rxAll, List.filter_append]
      rw [rxAll_interleaved hdr c src ps (rxPacket hdr c t1 src p).1 (rxPacket hdr c t2 src p).1
        (by rw [h1.1, h2.1, hag]) (by omega)]
      rw [h1.2, h2.2, hag]
      congr 1
      rw [List.filter_eq_self]
      intro d hd
      obtain ⟨b, _, rfl⟩ := List.mem_map.mp hd
      simp
    · have hdrop : ((src, p) :: ps).filter (fun d => decide (d.1 = s)) = ps.filter (fun d => decide (d.1 = s)) := by
        simp [List.filter_cons, hsrc]
      rw [hdrop]
      simp only [rxAll, List.filter_append]
      have hnil : ((rxPacket hdr c t1 src p).2.map (fun b => (src, b))).filter (fun d => decide (d.1 = s)) = [] := by
        rw [List.filter_eq_nil_iff]
        intro d hd
        obtain ⟨b, _, rfl⟩ := List.mem_map.mp hd
        simp [hsrc]
      rw [hnil, List.nil_append]
      exact rxAll_interleaved hdr c s ps (rxPacket hdr c t1 src p).1 t2
        (by rw [rxPacket_other hdr c t1 src s p (fun h => hsrc h.symm) (Or.inr (by omega)), hag]) (by omega)

end Muscle.Tunnel
