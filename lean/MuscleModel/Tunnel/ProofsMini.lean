import MuscleModel.Tunnel.Proofs4

/-! Lemmas for C12, mini tunnel: the chunk parser reads back the chunks; `miniLoop` keeps every payload
that fits a packet, in order, in packets within the MTU. -/

set_option linter.unusedSimpArgs false
set_option linter.unusedVariables false

namespace Muscle.Tunnel
open Muscle

theorem encChunks_length_ge : ∀ (cs : List Bytes), cs.length ≤ (encChunks cs).length
  | [] => Nat.le_refl _
  | c :: r => by
    have := encChunks_length_ge r
    simp only [encChunks, List.length_cons, List.length_append, le32_length]; omega

theorem parseChunks_enc : ∀ (cs : List Bytes) (fuel : Nat), (∀ c, c ∈ cs → c.length < W32) → cs.length < fuel →
    parseChunks fuel (encChunks cs) = cs
  | [], fuel, _, hf => by
    cases fuel with
    | zero => omega
    | succ k => simp [parseChunks, encChunks, rd32, rdN, takeN]
  | c :: r, fuel, hW, hf => by
    cases fuel with
    | zero => omega
    | succ k =>
      have hc := hW c List.mem_cons_self
      simp only [W32] at hc
      have ih := parseChunks_enc r k (fun x hx => hW x (List.mem_cons_of_mem _ hx)) (by simp only [List.length_cons] at hf; omega)
      have hle : c.length ≤ (c ++ encChunks r).length := by simp only [List.length_append]; omega
      simp only [parseChunks, encChunks, rd32_le32 _ _ hc, hle, if_true, List.take_left' rfl, List.drop_left' rfl, ih]

/-- a packet with a three-word header, seen whole by a receiver that does not take misc data -/
theorem miniRx_raw (cd : Codec) (ch bits : Nat) (c : MiniRx) (magic sex clid : Nat) (rest : Bytes)
    (h1 : magic < W32) (h2 : sex < W32) (h3 : clid < W32) (hmisc : c.misc = false)
    (hfit : 12 + rest.length ≤ miniEffMtu 12 ch c.mtu) :
    miniRx cd 12 ch bits c (le32 magic ++ (le32 sex ++ (le32 clid ++ rest))) =
      if magic = c.magic && (c.sex = 0 || c.sex ≠ sex) then
        parseChunks ((if (clid / 2 ^ bits) % 256 > 0 then (match cd.inflate rest with | some x => x | none => []) else rest).length + 1)
          (if (clid / 2 ^ bits) % 256 > 0 then (match cd.inflate rest with | some x => x | none => []) else rest)
      else [] := by
  simp only [W32] at h1 h2 h3
  have hlen : (le32 magic ++ (le32 sex ++ (le32 clid ++ rest))).length = 12 + rest.length := by
    simp only [List.length_append, le32_length]; omega
  have htake : (le32 magic ++ (le32 sex ++ (le32 clid ++ rest))).take (miniEffMtu 12 ch c.mtu) =
      le32 magic ++ (le32 sex ++ (le32 clid ++ rest)) := List.take_of_length_le (by omega)
  have hne : ¬ (12 + rest.length = 0) := by omega
  have hge : ¬ (12 + rest.length < 12) := by omega
  simp only [miniRx, htake, hlen, hne, hge, hmisc, Bool.false_and, Bool.false_eq_true, if_false,
    rd32_le32 _ _ h1, rd32_le32 _ _ h2, rd32_le32 _ _ h3]
  split <;> rfl

/-- what the receiver makes of a packet the sender wrote: its chunks, or nothing if it does not listen -/
theorem miniRx_enc (cd : Codec) (hcd : cd.Lawful) (ch bits : Nat) (hbits : bits ≤ 24) (tx : MiniTx) (c : MiniRx) (id : Nat)
    (cs : List Bytes) (hmg : tx.magic < W32) (hsx : tx.sex < W32) (hlv : tx.level < 256) (hid : id < 2 ^ bits)
    (hW : ∀ x, x ∈ cs → x.length < W32) (hmisc : c.misc = false)
    (hfit : 12 + (encChunks cs).length ≤ miniEffMtu 12 ch c.mtu) :
    miniRx cd 12 ch bits c (miniEncPacket cd bits tx id cs) =
      if tx.magic = c.magic && (c.sex = 0 || c.sex ≠ tx.sex) then cs else [] := by
  have hP : 2 ^ bits ≤ 16777216 := by
    have : (2:Nat) ^ bits ≤ 2 ^ 24 := Nat.pow_le_pow_right (by decide) hbits
    simpa using this
  have hP0 : 0 < 2 ^ bits := Nat.pos_of_ne_zero (by simp)
  have hmul : tx.level * 2 ^ bits ≤ 255 * 2 ^ bits := Nat.mul_le_mul_right _ (by omega)
  have hplain : miniRx cd 12 ch bits c (miniHeader bits tx.magic tx.sex 0 id ++ encChunks cs) =
      if tx.magic = c.magic && (c.sex = 0 || c.sex ≠ tx.sex) then cs else [] := by
    simp only [miniHeader, List.append_assoc, Nat.zero_mul, Nat.add_zero]
    rw [miniRx_raw cd ch bits c tx.magic tx.sex id (encChunks cs) hmg hsx (by simp only [W32]; omega) hmisc hfit]
    have : id / 2 ^ bits = 0 := Nat.div_eq_of_lt hid
    simp only [this, Nat.zero_mod, gt_iff_lt, Nat.lt_irrefl, if_false]
    rw [parseChunks_enc cs _ hW (by have := encChunks_length_ge cs; omega)]
  simp only [miniEncPacket]
  split
  · rename_i hl
    split
    · rename_i z hz
      split
      · rename_i hshort
        simp only [miniHeader, List.append_assoc]
        rw [miniRx_raw cd ch bits c tx.magic tx.sex (id + tx.level * 2 ^ bits) z hmg hsx (by simp only [W32]; omega) hmisc (by omega)]
        have hdiv : (id + tx.level * 2 ^ bits) / 2 ^ bits = tx.level := by
          rw [Nat.add_mul_div_right _ _ hP0, Nat.div_eq_of_lt hid, Nat.zero_add]
        have hmod : tx.level % 256 = tx.level := Nat.mod_eq_of_lt hlv
        simp only [hdiv, hmod, gt_iff_lt, hl, if_true, hcd _ _ _ hz]
        rw [parseChunks_enc cs _ hW (by have := encChunks_length_ge cs; omega)]
      · exact hplain
    · exact hplain
  · exact hplain

/-- does a payload fit a packet of its own? (`PACKET_HEADER_SIZE+CHUNK_HEADER_SIZE+sbSize <= MTU`) -/
def miniFits (ph ch mtu : Nat) (m : Bytes) : Bool := decide (ph + ch + m.length ≤ mtu)

theorem encChunks_append (a b : List Bytes) : encChunks (a ++ b) = encChunks a ++ encChunks b := by
  induction a with
  | nil => rfl
  | cons x r ih => simp [encChunks, ih, List.append_assoc]

/-- the left side of the "does it fit the current packet" test -/
theorem miniRoom (ph : Nat) (cur : List Bytes) :
    miniWritten ph cur + (if miniWritten ph cur = 0 then ph else 0) = ph + (encChunks cur).length := by
  cases cur with
  | nil => simp [miniWritten, encChunks]
  | cons a b =>
    have : ¬ (ph + (encChunks (a :: b)).length = 0) := by
      simp only [encChunks, List.length_append, le32_length]; omega
    simp only [miniWritten, List.cons_ne_nil, if_false, this, Nat.add_zero]

/-- `miniLoop`: the chunks of the packets, concatenated, are the pending chunks followed by exactly the
    payloads that fit, in order; every packet is non-empty, carries an id below 2^bits and stays within
    the MTU -/
theorem miniLoop_spec (ph bits mtu : Nat) : ∀ (q cur : List Bytes) (id : Nat),
    (cur ≠ [] → ph + (encChunks cur).length ≤ mtu) → id < 2 ^ bits →
    ((miniLoop ph 4 bits mtu cur id q).1.map (·.2)).flatten = cur ++ q.filter (miniFits ph 4 mtu) ∧
    ∀ p, p ∈ (miniLoop ph 4 bits mtu cur id q).1 → p.1 < 2 ^ bits ∧ p.2 ≠ [] ∧ ph + (encChunks p.2).length ≤ mtu
  | [], cur, id, hcur, hid => by
    simp only [miniLoop]
    split
    · rename_i h; subst h; simp
    · rename_i h
      refine ⟨by simp, ?_⟩
      intro p hp
      simp only [List.mem_singleton] at hp
      subst hp
      exact ⟨hid, h, hcur h⟩
  | m :: q, cur, id, hcur, hid => by
    have hP0 : 0 < 2 ^ bits := Nat.pos_of_ne_zero (by simp)
    simp only [miniLoop, miniRoom]
    split
    · rename_i hbig
      have : miniFits ph 4 mtu m = false := by simp only [miniFits, decide_eq_false_iff_not]; omega
      simp only [List.filter_cons, this, Bool.false_eq_true, if_false]
      exact miniLoop_spec ph bits mtu q cur id hcur hid
    · rename_i hok
      have hfits : miniFits ph 4 mtu m = true := by simp only [miniFits, decide_eq_true_eq]; omega
      simp only [List.filter_cons, hfits, if_true]
      split
      · rename_i hroom
        have hnew : cur ++ [m] ≠ [] → ph + (encChunks (cur ++ [m])).length ≤ mtu := by
          intro _
          simp only [encChunks_append, encChunks, List.length_append, le32_length, List.length_nil, Nat.add_zero]
          omega
        have ih := miniLoop_spec ph bits mtu q (cur ++ [m]) id hnew hid
        refine ⟨?_, ih.2⟩
        rw [ih.1]; simp
      · rename_i hnoroom
        have hnid : nextMiniId bits id < 2 ^ bits := Nat.mod_lt _ hP0
        have hone : [m] ≠ [] → ph + (encChunks [m]).length ≤ mtu := by
          intro _
          simp only [encChunks, List.length_append, le32_length, List.length_nil, Nat.add_zero]; omega
        have ih := miniLoop_spec ph bits mtu q [m] (nextMiniId bits id) hone hnid
        have hcne : cur ≠ [] := by
          intro h
          subst h
          simp only [encChunks, List.length_nil] at hnoroom
          omega
        refine ⟨?_, ?_⟩
        · simp only [List.map_cons, List.flatten_cons]
          rw [ih.1]; simp
        · intro p hp
          rcases List.mem_cons.mp hp with h | h
          · subst h; exact ⟨hid, hcne, hcur hcne⟩
          · exact ih.2 p h

end Muscle.Tunnel
