import MuscleModel.Base.Bytes
import MuscleModel.Generated.Constants

/-!
# The packet tunnel (`iogateway/PacketTunnelIOGateway.cpp`)

The tunnelled payload is an opaque byte string (in the C++ code: the flattened Message, or whatever
the slave gateway wrote).  A *fragment* is the 6-word header of the source comment

    magic, source-exclusion id, message id, sub-chunk offset, sub-chunk size, message total size

followed by `chunk` payload bytes; a packet is a concatenation of fragments, at most MTU bytes.
All header words are little-endian `uint32` (`DefaultEndianConverter`).

* sender   = `PacketTunnelIOGateway::DoOutputImplementation`  → `fillPacket`, `sendAll`
* receiver = `PacketTunnelIOGateway::DoInputImplementation`   → `parseFrags`, `rsStep`, `srcStep`,
  `rxFrag`, `rxPacket`, `rxAll`

Tunables (`maxStates` = `MAX_NUM_RECEIVE_STATES`, MTU, magic, ids, maximum incoming size) are
parameters.  Not modelled: allocation failure (`GetByteBufferFromPool`/`SetNumBytes` returning an
error), a transport that accepts only part of a packet (`Write` returning 0 or a short count), time
slicing (it only splits the same loop over several calls).
-/

namespace Muscle.Tunnel
open Muscle Muscle.Gen

/-- 2^32: the id counter `_sendMessageIDCounter` and every header word are `uint32` -/
def W32 : Nat := 4294967296

structure Frag where
  magic : Nat
  sex : Nat
  id : Nat
  off : Nat
  chunk : Nat
  total : Nat
  data : Bytes
  deriving Repr, DecidableEq

/-- the six `flat.WriteInt32` calls and the `flat.WriteBytes` of `DoOutputImplementation` -/
def encFrag (f : Frag) : Bytes :=
  le32 f.magic ++ (le32 f.sex ++ (le32 f.id ++ (le32 f.off ++ (le32 f.chunk ++ (le32 f.total ++ f.data)))))

def encPacket : List Frag → Bytes
  | [] => []
  | f :: r => encFrag f ++ encPacket r

/-! ## Sender -/

/-- configuration of a sending gateway: constructor arguments and `SetSourceExclusionID` -/
structure TxCfg where
  mtu : Nat      -- as given to the constructor
  magic : Nat
  sex : Nat
  deriving Repr

/-- `_maxTransferUnit(muscleMax(maxTransferUnit, FRAGMENT_HEADER_SIZE+1))` -/
def effMtu (hdr mtu : Nat) : Nat := max mtu (hdr + 1)

/-- `_sendMessageIDCounter++` on a `uint32` -/
def nextId (id : Nat) : Nat := (id + 1) % W32

/-- "Step 1" of `DoOutputImplementation` (the inner `while`): add fragments to the output packet
    while `_outputPacketSize+FRAGMENT_HEADER_SIZE < _maxTransferUnit` and there is data.
    `used` = `_outputPacketSize`, `id` = `_sendMessageIDCounter`, `off` = `_currentOutputBufferOffset`,
    the list = `_currentOutputBuffers` followed by what `GenerateOutgoingByteBuffers` will produce.
    Returns the fragments added and the new `(id, off, queue)`.
    When a Message is not finished by a fragment, `dataBytesToSend` was the whole remaining room, so the
    packet is full and the C++ loop test fails on the next evaluation: the model returns directly. -/
def fillPacket (hdr mtu magic sex : Nat) (used id off : Nat) : List Bytes → List Frag × Nat × Nat × List Bytes
  | [] => ([], id, off, [])
  | m :: q =>
    if used + hdr < mtu then
      let n := min (mtu - (used + hdr)) (m.length - off)        -- dataBytesToSend
      let f : Frag := { magic := magic, sex := sex, id := id, off := off, chunk := n, total := m.length,
                        data := (m.drop off).take n }
      if off + n = m.length then
        let r := fillPacket hdr mtu magic sex (used + hdr + n) (nextId id) 0 q
        (f :: r.1, r.2)
      else ([f], id, off + n, m :: q)
    else ([], id, off, m :: q)

/-- remaining work of the sender: bytes still to send plus Messages still to finish -/
def txMeasure (off : Nat) (q : List Bytes) : Nat := (q.map (fun m => m.length + 1)).sum - off

/-- the outer loop of `DoOutputImplementation` run until nothing is left ("Step 2": a non-empty packet is
    written, then the loop continues; an empty one ends it).  Returns the packets as fragment lists and
    the final id counter.  `fuel` bounds the number of packets; `txMeasure off q + 1` always suffices
    (`Proofs.sendAll_fuel`). -/
def sendLoop (hdr mtu magic sex : Nat) : Nat → Nat → Nat → List Bytes → List (List Frag) × Nat
  | 0, id, _, _ => ([], id)
  | fuel+1, id, off, q =>
    let r := fillPacket hdr mtu magic sex 0 id off q
    if r.1 = [] then ([], r.2.1)
    else
      let rest := sendLoop hdr mtu magic sex fuel r.2.1 r.2.2.1 r.2.2.2
      (r.1 :: rest.1, rest.2)

/-- everything a sender with id counter `id` writes for the queued payloads `q` -/
def sendAll (hdr : Nat) (c : TxCfg) (id : Nat) (q : List Bytes) : List (List Frag) × Nat :=
  sendLoop hdr (effMtu hdr c.mtu) c.magic c.sex (txMeasure 0 q + 1) id 0 q

/-- the same as byte strings (what `Write` is called with) -/
def sendAllBytes (hdr : Nat) (c : TxCfg) (id : Nat) (q : List Bytes) : List Bytes × Nat :=
  let r := sendAll hdr c id q
  (r.1.map encPacket, r.2)

/-! ## Receiver -/

structure RxCfg where
  mtu : Nat          -- as given to the constructor
  magic : Nat
  sex : Nat          -- `SetSourceExclusionID`
  maxIn : Nat        -- `SetMaxIncomingMessageSize`, default `MUSCLE_NO_LIMIT`
  misc : Bool        -- `SetAllowMiscIncomingData`
  maxStates : Nat    -- `MAX_NUM_RECEIVE_STATES`
  deriving Repr

/-- the part of the header test of `DoInputImplementation` that decides whether the receiver listens to this
    fragment at all: magic and source-exclusion id.  ("Enough bytes" is evaluated by `parseFrags` against
    the packet, the size limit separately: see below.) -/
def hdrOk (c : RxCfg) (magic sex : Nat) : Bool :=
  magic = c.magic && (c.sex = 0 || c.sex ≠ sex)

/-- the inner `while(unflat.GetNumBytesAvailable() >= FRAGMENT_HEADER_SIZE)` loop: the fragments of one
    packet that reach the reassembly code, in order.  The loop `break`s at the first header with a wrong
    magic, an excluded source id, or more chunk bytes announced than present.  A fragment that passes
    these tests but belongs to a Message over the size limit (`totalSize > _maxIncomingMessageSize`) is
    *skipped* (`SeekRelative(chunkSize); continue;` — fix 79d1d2b) and the loop goes on with what follows
    it in the packet.  One unit of fuel per fragment; `rxPacket` supplies `length + 1`. -/
def parseFrags (c : RxCfg) : Nat → Bytes → List Frag
  | 0, _ => []
  | fuel+1, b =>
    match rd32 b with
    | none => []
    | some (magic, b) =>
    match rd32 b with
    | none => []
    | some (sex, b) =>
    match rd32 b with
    | none => []
    | some (id, b) =>
    match rd32 b with
    | none => []
    | some (off, b) =>
    match rd32 b with
    | none => []
    | some (chunk, b) =>
    match rd32 b with
    | none => []
    | some (total, b) =>
      if hdrOk c magic sex && chunk ≤ b.length then
        if total > c.maxIn then parseFrags c fuel (b.drop chunk)
        else
          { magic := magic, sex := sex, id := id, off := off, chunk := chunk, total := total, data := b.take chunk }
            :: parseFrags c fuel (b.drop chunk)
      else []

/-- `ReceiveState`: message id, next expected offset, reassembly buffer -/
structure RS where
  id : Nat
  off : Nat
  buf : Bytes
  deriving Repr, DecidableEq

/-- `ByteBuffer::SetNumBytes(n, false)`: keeps the common prefix; what the new tail holds is unspecified
    in C++ (it is never read before it is overwritten) and is zero here -/
def resize (b : Bytes) (n : Nat) : Bytes := b.take n ++ List.replicate (n - b.length) 0

/-- `memcpy(buf+off, data, data.length)` -/
def writeAt (b : Bytes) (off : Nat) (d : Bytes) : Bytes := b.take off ++ (d ++ b.drop (off + d.length))

/-- the `if (rs) {…}` block of `DoInputImplementation` (lines 90-119) for an existing receive state:
    restart on a fragment with offset 0 and another id, the in-order acceptance test, copy, hand the
    buffer over when complete, reset (`_offset = 0`, `Clear()`) on completion and on any mismatch.
    Returns the new state and the completed buffer, if any. -/
def rsStep (rs : RS) (f : Frag) : RS × Option Bytes :=
  let rs1 : RS := if f.off = 0 ∧ f.id ≠ rs.id then { id := f.id, off := 0, buf := resize rs.buf f.total } else rs
  let sz := rs1.buf.length
  if f.id = rs1.id ∧ f.total = sz ∧ f.off = rs1.off ∧ f.off + f.chunk < W32 ∧ f.off + f.chunk ≤ sz then
    let buf := writeAt rs1.buf f.off f.data
    if rs1.off + f.chunk = sz then ({ id := rs1.id, off := 0, buf := [] }, some buf)
    else ({ id := rs1.id, off := rs1.off + f.chunk, buf := buf }, none)
  else ({ id := rs1.id, off := 0, buf := [] }, none)

/-- one fragment against the receive state of its source (`none` = no entry in `_receiveStates`):
    an unknown source gets a state only from a fragment with offset 0 (lines 73-89) -/
def srcStep (o : Option RS) (f : Frag) : Option RS × Option Bytes :=
  match o with
  | some rs => let r := rsStep rs f; (some r.1, r.2)
  | none =>
    if f.off = 0 then
      let r := rsStep { id := f.id, off := 0, buf := List.replicate f.total 0 } f
      (some r.1, r.2)
    else (none, none)

/-- `_receiveStates`: a `Hashtable` keeps insertion order; `GetAndMoveToBack` makes it an LRU list
    (front = least recently heard from).  Sources are numbers here (`IPAddressAndPort` in C++). -/
abbrev Table := List (Nat × RS)

def tget : Table → Nat → Option RS
  | [], _ => none
  | (k, v) :: r, s => if k = s then some v else tget r s

def tdel : Table → Nat → Table
  | [], _ => []
  | (k, v) :: r, s => if k = s then tdel r s else (k, v) :: tdel r s

/-- `while(_receiveStates.GetNumItems() > MAX_NUM_RECEIVE_STATES) RemoveFirst()` -/
def trim (maxStates : Nat) (t : Table) : Table := t.drop (t.length - maxStates)

/-- one accepted fragment from source `src` against the whole table -/
def rxFrag (c : RxCfg) (t : Table) (src : Nat) (f : Frag) : Table × Option Bytes :=
  let o := tget t src
  let r := srcStep o f
  let t1 := match o with
    | some _ => tdel t src               -- found: moved to the back below
    | none => trim c.maxStates t         -- not found: cap the table first
  (match r.1 with
   | some rs => t1 ++ [(src, rs)]
   | none => t1, r.2)

def rxFrags (c : RxCfg) (src : Nat) : Table → List Frag → Table × List Bytes
  | t, [] => (t, [])
  | t, f :: fs =>
    let r := rxFrag c t src f
    let r2 := rxFrags c src r.1 fs
    (r2.1, match r.2 with | some b => b :: r2.2 | none => r2.2)

/-- first header word as `DefaultEndianConverter::Import<uint32>` reads it -/
def firstWord (b : Bytes) : Nat := leVal (b.take 4)

/-- one datagram through `DoInputImplementation`: `Read` truncates it to the receiver's MTU-sized
    buffer; with `_allowMiscData` a packet that is too short or has another magic is handed on verbatim;
    otherwise the fragment loop runs.  Returns the buffers given to `HandleIncomingByteBuffer`. -/
def rxPacket (hdr : Nat) (c : RxCfg) (t : Table) (src : Nat) (pkt : Bytes) : Table × List Bytes :=
  let b := pkt.take (effMtu hdr c.mtu)
  if b.length = 0 then (t, [])            -- `Read` returned 0 bytes: the loop ends
  else if c.misc && (b.length < hdr || firstWord b ≠ c.magic) then (t, [b])
  else rxFrags c src t (parseFrags c (b.length + 1) b)

/-- the fragments of a datagram that reach the reassembly code of a receiver configured as `c` -/
def accepted (hdr : Nat) (c : RxCfg) (pkt : Bytes) : List Frag :=
  parseFrags c ((pkt.take (effMtu hdr c.mtu)).length + 1) (pkt.take (effMtu hdr c.mtu))

/-- a list of datagrams `(source, bytes)`, each delivered tagged with its source -/
def rxAll (hdr : Nat) (c : RxCfg) : Table → List (Nat × Bytes) → Table × List (Nat × Bytes)
  | t, [] => (t, [])
  | t, (src, p) :: ps =>
    let r := rxPacket hdr c t src p
    let r2 := rxAll hdr c r.1 ps
    (r2.1, r.2.map (fun b => (src, b)) ++ r2.2)

end Muscle.Tunnel
