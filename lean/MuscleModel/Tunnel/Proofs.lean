import MuscleModel.Tunnel.Spec

/-! Lemmas for C12, part 1: the receiver keeps `TableInv` and delivers only sent payloads. -/

set_option linter.unusedSimpArgs false
set_option linter.unusedVariables false

namespace Muscle.Tunnel
open Muscle

/-! ### buffers -/

theorem writeAt_length (b d : Bytes) (off : Nat) (h : off + d.length ≤ b.length) :
    (writeAt b off d).length = b.length := by
  simp only [writeAt, List.length_append, List.length_take, List.length_drop]
  omega

theorem writeAt_take (b d : Bytes) (off : Nat) (h : off + d.length ≤ b.length) :
    (writeAt b off d).take (off + d.length) = b.take off ++ d := by
  have h1 : (b.take off ++ d).length = off + d.length := by
    simp only [List.length_append, List.length_take]; omega
  have : writeAt b off d = (b.take off ++ d) ++ b.drop (off + d.length) := by
    simp [writeAt, List.append_assoc]
  rw [this, ← h1, List.take_left']
  rfl

theorem take_add' (m : Bytes) (a n : Nat) : m.take a ++ (m.drop a).take n = m.take (a + n) := by
  rw [List.take_add]

theorem length_take_drop (m : Bytes) (a n : Nat) (h : a + n ≤ m.length) : ((m.drop a).take n).length = n := by
  simp only [List.length_take, List.length_drop]; omega

/-! ### one receive state -/

theorem rsStep_inv (sent : SentMap) (src : Nat) (rs : RS) (f : Frag)
    (hi : RSInv sent src rs) (hg : Genuine sent src f) :
    RSInv sent src (rsStep rs f).1 ∧ ∀ b, (rsStep rs f).2 = some b → ∃ id, sent src id = some b := by
  obtain ⟨m, hm, htot, hle, hdata⟩ := hg
  -- the state after the optional restart
  have key : ∀ rs1 : RS, RSInv sent src rs1 →
      RSInv sent src
        (if f.id = rs1.id ∧ f.total = rs1.buf.length ∧ f.off = rs1.off ∧ f.off + f.chunk < W32 ∧ f.off + f.chunk ≤ rs1.buf.length then
          (if rs1.off + f.chunk = rs1.buf.length then (({ id := rs1.id, off := 0, buf := [] } : RS), some (writeAt rs1.buf f.off f.data))
           else (({ id := rs1.id, off := rs1.off + f.chunk, buf := writeAt rs1.buf f.off f.data } : RS), none))
        else (({ id := rs1.id, off := 0, buf := [] } : RS), none)).1 ∧
      ∀ b, (if f.id = rs1.id ∧ f.total = rs1.buf.length ∧ f.off = rs1.off ∧ f.off + f.chunk < W32 ∧ f.off + f.chunk ≤ rs1.buf.length then
          (if rs1.off + f.chunk = rs1.buf.length then (({ id := rs1.id, off := 0, buf := [] } : RS), some (writeAt rs1.buf f.off f.data))
           else (({ id := rs1.id, off := rs1.off + f.chunk, buf := writeAt rs1.buf f.off f.data } : RS), none))
        else (({ id := rs1.id, off := 0, buf := [] } : RS), none)).2 = some b → ∃ id, sent src id = some b := by
    intro rs1 h1
    obtain ⟨m1, hm1, hpre⟩ := h1
    split
    · rename_i hacc
      obtain ⟨hid, hsz, hoff, _, hfit⟩ := hacc
      -- same id, and `sent` is a function: the state's Message is the fragment's Message
      have hmm : m1 = m := by rw [hid] at hm; rw [hm1] at hm; exact Option.some.inj hm
      subst hmm
      have hdl : f.data.length = f.chunk := by rw [hdata]; exact length_take_drop _ _ _ hle
      have hbl : rs1.buf.length = m1.length := by omega
      have hprefix : rs1.buf.take f.off = m1.take f.off := by
        rcases hpre with h0 | ⟨_, _, h⟩
        · rw [hoff, h0]; simp
        · rw [hoff]; exact h
      have hw : f.off + f.data.length ≤ rs1.buf.length := by omega
      have hlen : (writeAt rs1.buf f.off f.data).length = m1.length := by
        rw [writeAt_length rs1.buf f.data f.off hw, hbl]
      have htk : (writeAt rs1.buf f.off f.data).take (f.off + f.chunk) = m1.take (f.off + f.chunk) := by
        have := writeAt_take rs1.buf f.data f.off hw
        rw [hdl] at this
        rw [this, hprefix, hdata, take_add']
      split
      · rename_i hdone
        refine ⟨⟨m1, hm1, Or.inl rfl⟩, ?_⟩
        intro b hb
        have hb' : writeAt rs1.buf f.off f.data = b := Option.some.inj hb
        refine ⟨rs1.id, ?_⟩
        rw [hm1, ← hb']
        have hfull : f.off + f.chunk = m1.length := by omega
        rw [hfull] at htk
        have h1 := List.take_length (l := writeAt rs1.buf f.off f.data)
        rw [hlen, htk, List.take_length] at h1
        rw [h1]
      · refine ⟨⟨m1, hm1, Or.inr ⟨?_, ?_, ?_⟩⟩, ?_⟩
        · exact hlen
        · show rs1.off + f.chunk ≤ m1.length
          omega
        · show (writeAt rs1.buf f.off f.data).take (rs1.off + f.chunk) = m1.take (rs1.off + f.chunk)
          rw [← hoff]; exact htk
        · intro b hb; cases hb
    · exact ⟨⟨m1, hm1, Or.inl rfl⟩, fun b hb => (by cases hb)⟩
  unfold rsStep
  simp only
  split
  · exact key _ ⟨m, hm, Or.inl rfl⟩
  · exact key _ hi

theorem srcStep_inv (sent : SentMap) (src : Nat) (o : Option RS) (f : Frag)
    (hi : ∀ rs, o = some rs → RSInv sent src rs) (hg : Genuine sent src f) :
    (∀ rs, (srcStep o f).1 = some rs → RSInv sent src rs) ∧
    ∀ b, (srcStep o f).2 = some b → ∃ id, sent src id = some b := by
  cases o with
  | some rs =>
    have := rsStep_inv sent src rs f (hi rs rfl) hg
    simp only [srcStep]
    exact ⟨fun rs' h => by cases h; exact this.1, this.2⟩
  | none =>
    simp only [srcStep]
    split
    · obtain ⟨m, hm, _⟩ := hg
      have := rsStep_inv sent src { id := f.id, off := 0, buf := List.replicate f.total 0 } f
        ⟨m, hm, Or.inl rfl⟩ ⟨m, hm, ‹_›⟩
      exact ⟨fun rs' h => by cases h; exact this.1, this.2⟩
    · exact ⟨fun rs' h => (by cases h), fun b h => (by cases h)⟩

/-! ### the table -/

theorem tget_mem : ∀ (t : Table) (s : Nat) (rs : RS), tget t s = some rs → (s, rs) ∈ t
  | [], _, _, h => by cases h
  | (k, v) :: r, s, rs, h => by
    simp only [tget] at h
    split at h
    · cases h; subst ‹k = s›; exact List.mem_cons_self
    · exact List.mem_cons_of_mem _ (tget_mem r s rs h)

theorem tdel_mem : ∀ (t : Table) (s : Nat) (x : Nat × RS), x ∈ tdel t s → x ∈ t
  | [], _, _, h => by cases h
  | (k, v) :: r, s, x, h => by
    simp only [tdel] at h
    split at h
    · exact List.mem_cons_of_mem _ (tdel_mem r s x h)
    · rcases List.mem_cons.mp h with h | h
      · rw [h]; exact List.mem_cons_self
      · exact List.mem_cons_of_mem _ (tdel_mem r s x h)

theorem trim_mem (n : Nat) (t : Table) (x : Nat × RS) (h : x ∈ trim n t) : x ∈ t :=
  List.mem_of_mem_drop h

theorem rxFrag_inv (sent : SentMap) (c : RxCfg) (t : Table) (src : Nat) (f : Frag)
    (hi : TableInv sent t) (hg : Genuine sent src f) :
    TableInv sent (rxFrag c t src f).1 ∧ ∀ b, (rxFrag c t src f).2 = some b → ∃ id, sent src id = some b := by
  have hs := srcStep_inv sent src (tget t src) f (fun rs h => hi src rs (tget_mem t src rs h)) hg
  refine ⟨?_, hs.2⟩
  have ht1 : ∀ x, x ∈ (match tget t src with | some _ => tdel t src | none => trim c.maxStates t) → x ∈ t := by
    intro x hx
    split at hx
    · exact tdel_mem t src x hx
    · exact trim_mem _ t x hx
  intro s rs hmem
  simp only [rxFrag] at hmem
  split at hmem
  · rename_i rs' hrs'
    rcases List.mem_append.mp hmem with h | h
    · exact hi s rs (ht1 _ h)
    · simp only [List.mem_singleton, Prod.mk.injEq] at h
      obtain ⟨h1, h2⟩ := h
      subst h1; subst h2
      exact hs.1 _ hrs'
  · exact hi s rs (ht1 _ hmem)

theorem rxFrags_inv (sent : SentMap) (c : RxCfg) (src : Nat) : ∀ (fs : List Frag) (t : Table),
    TableInv sent t → (∀ f, f ∈ fs → Genuine sent src f) →
    TableInv sent (rxFrags c src t fs).1 ∧ ∀ b, b ∈ (rxFrags c src t fs).2 → ∃ id, sent src id = some b
  | [], t, hi, _ => ⟨hi, fun b hb => (by cases hb)⟩
  | f :: fs, t, hi, hg => by
    have h1 := rxFrag_inv sent c t src f hi (hg f List.mem_cons_self)
    have h2 := rxFrags_inv sent c src fs (rxFrag c t src f).1 h1.1 (fun g hgm => hg g (List.mem_cons_of_mem _ hgm))
    simp only [rxFrags]
    refine ⟨h2.1, ?_⟩
    intro b hb
    split at hb
    · rename_i b0 hb0
      rcases List.mem_cons.mp hb with h | h
      · subst h; exact h1.2 _ hb0
      · exact h2.2 b h
    · exact h2.2 b hb

theorem rxPacket_inv (sent : SentMap) (hdr : Nat) (c : RxCfg) (hmisc : c.misc = false) (t : Table) (src : Nat) (p : Bytes)
    (hi : TableInv sent t) (hg : ∀ f, f ∈ accepted hdr c p → Genuine sent src f) :
    TableInv sent (rxPacket hdr c t src p).1 ∧ ∀ b, b ∈ (rxPacket hdr c t src p).2 → ∃ id, sent src id = some b := by
  simp only [rxPacket, hmisc, Bool.false_and, Bool.false_eq_true, if_false]
  split
  · exact ⟨hi, fun b hb => (by cases hb)⟩
  · exact rxFrags_inv sent c src _ t hi hg

theorem rxAll_inv (sent : SentMap) (hdr : Nat) (c : RxCfg) (hmisc : c.misc = false) : ∀ (ps : List Datagram) (t : Table),
    TableInv sent t → AllGenuine hdr c sent ps →
    TableInv sent (rxAll hdr c t ps).1 ∧ ∀ src b, (src, b) ∈ (rxAll hdr c t ps).2 → ∃ id, sent src id = some b
  | [], t, hi, _ => ⟨hi, fun s b hb => (by cases hb)⟩
  | (src, p) :: ps, t, hi, hg => by
    have h1 := rxPacket_inv sent hdr c hmisc t src p hi (fun f hf => hg src p List.mem_cons_self f hf)
    have h2 := rxAll_inv sent hdr c hmisc ps (rxPacket hdr c t src p).1 h1.1
      (fun s q hq => hg s q (List.mem_cons_of_mem _ hq))
    simp only [rxAll]
    refine ⟨h2.1, ?_⟩
    intro s b hb
    rcases List.mem_append.mp hb with h | h
    · obtain ⟨b', hb', heq⟩ := List.mem_map.mp h
      cases heq
      exact h1.2 _ hb'
    · exact h2.2 s b h

end Muscle.Tunnel
