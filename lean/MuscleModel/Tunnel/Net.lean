import MuscleModel.Tunnel.Mini

/-!
# The datagram transport

A transport that may lose, duplicate and reorder packets (and delay them arbitrarily) delivers *some list
over the packets that were sent*: every element of the delivered list is an element of the sent list, and
nothing else is assumed — not the order, not the multiplicity, not that anything arrives at all.
A datagram is `(source, bytes)`; the source is what `PacketDataIO::GetSourceOfLastReadPacket()` reports.
-/

namespace Muscle.Tunnel
open Muscle

abbrev Datagram := Nat × Bytes

/-- `delivered` is something a lossy, duplicating, reordering transport can make of `sent` -/
def Deliverable (sent delivered : List Datagram) : Prop := ∀ p ∈ delivered, p ∈ sent

theorem Deliverable.nil (sent : List Datagram) : Deliverable sent [] := by
  intro p hp; cases hp

/-- the perfect transport is one of them -/
theorem Deliverable.refl (sent : List Datagram) : Deliverable sent sent := fun _ h => h

/-- duplication, loss and reordering compose -/
theorem Deliverable.trans {a b c : List Datagram} (h1 : Deliverable a b) (h2 : Deliverable b c) : Deliverable a c :=
  fun p hp => h1 p (h2 p hp)

end Muscle.Tunnel
