import MuscleModel.Tunnel.Frag

/-!
# The mini packet tunnel (`iogateway/MiniPacketTunnelIOGateway.cpp`)

No fragmentation: a packet is a 3-word packet header

    magic, source-exclusion id, (compression level << 24) | packet id

followed by chunks `uint32 size, size bytes`, one per Message; a Message that cannot fit a packet of its
own is dropped by the sender.  With a compression level the chunk area is deflated as one independent
zlib block, and sent deflated only when that is shorter.  zlib is a parameter (`Codec`) with one law,
`inflate (deflate x) = x`, stated where it is used.

* sender   = `MiniPacketTunnelIOGateway::DoOutputImplementation` → `miniLoop`, `miniEncPacket`, `miniSendAll`
* receiver = `MiniPacketTunnelIOGateway::DoInputImplementation`  → `parseChunks`, `miniRx`
-/

namespace Muscle.Tunnel
open Muscle Muscle.Gen

/-- `ZLibCodec::Deflate(…, independent = true, …)` and `ZLibCodec::Inflate`; `none` = the call failed -/
structure Codec where
  deflate : Nat → Bytes → Option Bytes
  inflate : Bytes → Option Bytes

/-- the only fact about zlib that is used -/
def Codec.Lawful (cd : Codec) : Prop := ∀ lvl b z, cd.deflate lvl b = some z → cd.inflate z = some b

/-- a codec that never succeeds in compressing (the driver's instance: the harness prints compressed
    packets in their inflated, canonical form) -/
def Codec.none : Codec := { deflate := fun _ _ => Option.none, inflate := fun _ => Option.none }

structure MiniTx where
  mtu : Nat
  magic : Nat
  sex : Nat
  level : Nat      -- `SetZLibCompressionLevel`, 0..9
  deriving Repr

/-- `_maxTransferUnit(muscleMax(maxTransferUnit, PACKET_HEADER_SIZE+CHUNK_HEADER_SIZE+1))` -/
def miniEffMtu (ph ch mtu : Nat) : Nat := max mtu (ph + ch + 1)

/-- `_sendPacketIDCounter = (_sendPacketIDCounter+1) % 16777216` (a `bits`-bit counter below the level byte) -/
def nextMiniId (bits id : Nat) : Nat := (id + 1) % 2 ^ bits

def encChunks : List Bytes → Bytes
  | [] => []
  | c :: r => le32 c.length ++ (c ++ encChunks r)

/-- `flat.GetNumBytesWritten()` for a packet under construction holding the chunks `cur` -/
def miniWritten (ph : Nat) (cur : List Bytes) : Nat :=
  if cur = [] then 0 else ph + (encChunks cur).length

/-- the two nested loops of `DoOutputImplementation`, run until the queue is empty, as one recursion over
    the queue.  `cur` = chunks already in `_outputPacketBuffer`; `id` = `_sendPacketIDCounter`.
    Per Message: too large for any packet ⇒ dropped; fits the current packet ⇒ appended; otherwise the
    inner loop `break`s, "Step 2" sends the packet, the counter advances and the Message opens the next
    packet (it fits: the first test failed).  Returns the packets `(id, chunks)` and the final counter. -/
def miniLoop (ph ch bits mtu : Nat) : List Bytes → Nat → List Bytes → List (Nat × List Bytes) × Nat
  | cur, id, [] => if cur = [] then ([], id) else ([(id, cur)], nextMiniId bits id)
  | cur, id, m :: q =>
    if ph + ch + m.length > mtu then miniLoop ph ch bits mtu cur id q
    else if miniWritten ph cur + (if miniWritten ph cur = 0 then ph else 0) + ch + m.length ≤ mtu then
      miniLoop ph ch bits mtu (cur ++ [m]) id q
    else
      let r := miniLoop ph ch bits mtu [m] (nextMiniId bits id) q
      ((id, cur) :: r.1, r.2)

/-- the packet header with the level byte -/
def miniHeader (bits magic sex level id : Nat) : Bytes :=
  le32 magic ++ (le32 sex ++ le32 (id + level * 2 ^ bits))

/-- "Step 2": the bytes handed to `Write`: deflated chunk area if a level is set, deflate succeeded and the
    result is shorter; otherwise the plain packet with level 0 in the header -/
def miniEncPacket (cd : Codec) (bits : Nat) (tx : MiniTx) (id : Nat) (chunks : List Bytes) : Bytes :=
  let body := encChunks chunks
  let plain := miniHeader bits tx.magic tx.sex 0 id ++ body
  if tx.level > 0 then
    match cd.deflate tx.level body with
    | some z => if z.length < body.length then miniHeader bits tx.magic tx.sex tx.level id ++ z else plain
    | none => plain
  else plain

def miniSendAll (cd : Codec) (ph ch bits : Nat) (tx : MiniTx) (id : Nat) (q : List Bytes) : List Bytes × Nat :=
  let r := miniLoop ph ch bits (miniEffMtu ph ch tx.mtu) [] id q
  (r.1.map (fun p => miniEncPacket cd bits tx p.1 p.2), r.2)

structure MiniRx where
  mtu : Nat
  magic : Nat
  sex : Nat
  misc : Bool
  deriving Repr

/-- the chunk loop: `while(avail >= CHUNK_HEADER_SIZE) {size = ReadInt32(); if (size <= avail) deliver else break}` -/
def parseChunks : Nat → Bytes → List Bytes
  | 0, _ => []
  | fuel+1, b =>
    match rd32 b with
    | none => []
    | some (n, b) => if n ≤ b.length then b.take n :: parseChunks fuel (b.drop n) else []

/-- one datagram through `MiniPacketTunnelIOGateway::DoInputImplementation`; the receiver keeps no state -/
def miniRx (cd : Codec) (ph ch bits : Nat) (c : MiniRx) (pkt : Bytes) : List Bytes :=
  let b := pkt.take (miniEffMtu ph ch c.mtu)
  if b.length = 0 then []
  else if c.misc && (b.length < ph || firstWord b ≠ c.magic) then [b]
  else if b.length < ph then []
  else
    match rd32 b with
    | none => []
    | some (magic, b1) =>
    match rd32 b1 with
    | none => []
    | some (sex, b2) =>
    match rd32 b2 with
    | none => []
    | some (clid, rest) =>
      if magic = c.magic && (c.sex = 0 || c.sex ≠ sex) then
        let level := (clid / 2 ^ bits) % 256
        let body := if level > 0 then (match cd.inflate rest with | some x => x | none => []) else rest
        parseChunks (body.length + 1) body
      else []

def miniRxAll (cd : Codec) (ph ch bits : Nat) (c : MiniRx) : List (Nat × Bytes) → List (Nat × Bytes)
  | [] => []
  | (src, p) :: ps => (miniRx cd ph ch bits c p).map (fun b => (src, b)) ++ miniRxAll cd ph ch bits c ps

end Muscle.Tunnel
