import MuscleModel.Tunnel.Proofs

/-! Lemmas for C12, part 2: sources do not interact; an in-order fragment stream is delivered exactly. -/

set_option linter.unusedSimpArgs false
set_option linter.unusedVariables false

namespace Muscle.Tunnel
open Muscle

/-! ### table lookups -/

theorem tget_append : ∀ (a b : Table) (s : Nat),
    tget (a ++ b) s = match tget a s with | some v => some v | none => tget b s
  | [], b, s => by simp [tget]
  | (k, v) :: r, b, s => by
    simp only [List.cons_append, tget]
    split
    · rfl
    · exact tget_append r b s

theorem tget_tdel_self : ∀ (t : Table) (s : Nat), tget (tdel t s) s = none
  | [], _ => rfl
  | (k, v) :: r, s => by
    simp only [tdel]
    split
    · exact tget_tdel_self r s
    · simp only [tget]; rw [if_neg ‹_›]; exact tget_tdel_self r s

theorem tget_tdel_other : ∀ (t : Table) (s s' : Nat), s' ≠ s → tget (tdel t s) s' = tget t s'
  | [], _, _, _ => rfl
  | (k, v) :: r, s, s', h => by
    simp only [tdel]
    split
    · rename_i hk
      simp only [tget]
      have : ¬ k = s' := by omega
      rw [if_neg this]; exact tget_tdel_other r s s' h
    · simp only [tget]
      split
      · rfl
      · exact tget_tdel_other r s s' h

theorem tget_drop_none : ∀ (t : Table) (k s : Nat), tget t s = none → tget (t.drop k) s = none
  | [], k, s, _ => by simp [tget]
  | x :: r, 0, s, h => by simpa using h
  | (a, v) :: r, k+1, s, h => by
    simp only [tget] at h
    split at h
    · cases h
    · simp only [List.drop_succ_cons]; exact tget_drop_none r k s h

theorem trim_of_le (n : Nat) (t : Table) (h : t.length ≤ n) : trim n t = t := by
  have : t.length - n = 0 := by omega
  simp [trim, this]

theorem tget_single (s s' : Nat) (rs : RS) : tget [(s, rs)] s' = if s = s' then some rs else none := by
  simp [tget]

/-- a source's fragment reads and writes only that source's receive state -/
theorem rxFrag_own (c : RxCfg) (t : Table) (src : Nat) (f : Frag) :
    tget (rxFrag c t src f).1 src = (srcStep (tget t src) f).1 ∧
    (rxFrag c t src f).2 = (srcStep (tget t src) f).2 := by
  refine ⟨?_, rfl⟩
  simp only [rxFrag]
  cases ho : tget t src with
  | some rs =>
    simp only [srcStep, tget_append, tget_tdel_self, tget_single, if_true]
  | none =>
    have hn : tget (trim c.maxStates t) src = none := tget_drop_none t _ src ho
    simp only
    split
    · rename_i rs' hrs'
      simp only [tget_append, hn, tget_single, if_true, hrs']
    · rename_i hnone
      rw [hn, hnone]

/-- …and leaves every other source's state alone, unless the table is over its cap and the fragment's
    source is new (then the least recently heard-from sources are dropped: the documented memory bound) -/
theorem rxFrag_other (c : RxCfg) (t : Table) (src s : Nat) (f : Frag) (hs : s ≠ src)
    (hroom : tget t src ≠ none ∨ t.length ≤ c.maxStates) :
    tget (rxFrag c t src f).1 s = tget t s := by
  simp only [rxFrag]
  have hne : ¬ src = s := fun h => hs h.symm
  cases ho : tget t src with
  | some rs =>
    simp only [srcStep, tget_append, tget_tdel_other t src s hs, tget_single, if_neg hne]
    cases tget t s <;> rfl
  | none =>
    have hl : t.length ≤ c.maxStates := by
      rcases hroom with h | h
      · exact absurd ho h
      · exact h
    simp only [trim_of_le _ _ hl]
    split
    · simp only [tget_append, tget_single, if_neg hne]
      cases tget t s <;> rfl
    · rfl

/-- the no-eviction condition is stable under the source's own fragments -/
theorem rxFrag_room (c : RxCfg) (t : Table) (src : Nat) (f : Frag)
    (hroom : tget t src ≠ none ∨ t.length ≤ c.maxStates) :
    tget (rxFrag c t src f).1 src ≠ none ∨ (rxFrag c t src f).1.length ≤ c.maxStates := by
  cases ho : tget t src with
  | some rs =>
    left
    rw [(rxFrag_own c t src f).1, ho]
    simp [srcStep]
  | none =>
    have hl : t.length ≤ c.maxStates := by
      rcases hroom with h | h
      · exact absurd ho h
      · exact h
    cases hr : (srcStep (tget t src) f).1 with
    | some rs' => left; rw [(rxFrag_own c t src f).1, hr]; simp
    | none =>
      right
      simp only [rxFrag, ho] at hr ⊢
      rw [hr]
      simp only [trim_of_le _ _ hl]
      exact hl

theorem rxFrags_own (c : RxCfg) (src : Nat) : ∀ (fs : List Frag) (t : Table),
    tget (rxFrags c src t fs).1 src = (srcRun (tget t src) fs).1 ∧
    (rxFrags c src t fs).2 = (srcRun (tget t src) fs).2
  | [], t => ⟨rfl, rfl⟩
  | f :: fs, t => by
    have h1 := rxFrag_own c t src f
    have h2 := rxFrags_own c src fs (rxFrag c t src f).1
    simp only [rxFrags, srcRun]
    rw [h1.1] at h2
    rw [h2.1, h2.2, h1.2]
    exact ⟨rfl, rfl⟩

theorem rxFrags_other (c : RxCfg) (src s : Nat) (hs : s ≠ src) : ∀ (fs : List Frag) (t : Table),
    (tget t src ≠ none ∨ t.length ≤ c.maxStates) → tget (rxFrags c src t fs).1 s = tget t s
  | [], t, _ => rfl
  | f :: fs, t, hroom => by
    simp only [rxFrags]
    rw [rxFrags_other c src s hs fs _ (rxFrag_room c t src f hroom), rxFrag_other c t src s f hs hroom]

theorem srcRun_append : ∀ (a b : List Frag) (o : Option RS),
    srcRun o (a ++ b) = ((srcRun (srcRun o a).1 b).1, (srcRun o a).2 ++ (srcRun (srcRun o a).1 b).2)
  | [], b, o => by simp [srcRun]
  | f :: a, b, o => by
    simp only [List.cons_append, srcRun]
    rw [srcRun_append a b]
    cases (srcStep o f).2 <;> simp

/-! ### in-order delivery -/

theorem resize_length (b : Bytes) (n : Nat) : (resize b n).length = n := by
  simp only [resize, List.length_append, List.length_take, List.length_replicate]; omega

theorem rsStep_restart (rs : RS) (f : Frag) (h0 : f.off = 0) (hne : f.id ≠ rs.id) :
    rsStep rs f = rsStep { id := f.id, off := 0, buf := resize rs.buf f.total } f := by
  simp only [rsStep, h0, hne, ne_eq, not_false_eq_true, and_self, if_true, not_true_eq_false, and_false, if_false]

theorem rsStep_eq (rs : RS) (f : Frag) (h : ¬ (f.off = 0 ∧ f.id ≠ rs.id)) :
    rsStep rs f =
      if f.id = rs.id ∧ f.total = rs.buf.length ∧ f.off = rs.off ∧ f.off + f.chunk < W32 ∧ f.off + f.chunk ≤ rs.buf.length then
        (if rs.off + f.chunk = rs.buf.length then (({ id := rs.id, off := 0, buf := [] } : RS), some (writeAt rs.buf f.off f.data))
         else (({ id := rs.id, off := rs.off + f.chunk, buf := writeAt rs.buf f.off f.data } : RS), none))
      else (({ id := rs.id, off := 0, buf := [] } : RS), none) := by
  simp only [rsStep, h, if_false]

/-- the acceptance test passes for the next in-order piece; the buffer is handed over exactly when the
    piece is the last one, and then it equals the payload -/
theorem rsStep_inorder (rs : RS) (m : Bytes) (magic sex n : Nat)
    (hlen : rs.buf.length = m.length) (hpre : rs.buf.take rs.off = m.take rs.off)
    (hfit : rs.off + n ≤ m.length) (hW : m.length < W32) :
    (rs.off + n = m.length → rsStep rs (fragOf magic sex rs.id rs.off n m) = ({ id := rs.id, off := 0, buf := [] }, some m)) ∧
    (rs.off + n ≠ m.length → ∃ buf, rsStep rs (fragOf magic sex rs.id rs.off n m) = ({ id := rs.id, off := rs.off + n, buf := buf }, none) ∧
        buf.length = m.length ∧ buf.take (rs.off + n) = m.take (rs.off + n)) := by
  have hdl : ((m.drop rs.off).take n).length = n := length_take_drop _ _ _ hfit
  have hw : rs.off + ((m.drop rs.off).take n).length ≤ rs.buf.length := by omega
  have hl := writeAt_length rs.buf ((m.drop rs.off).take n) rs.off hw
  have htk : (writeAt rs.buf rs.off ((m.drop rs.off).take n)).take (rs.off + n) = m.take (rs.off + n) := by
    have := writeAt_take rs.buf ((m.drop rs.off).take n) rs.off hw
    rw [hdl] at this
    rw [this, hpre, take_add']
  have hacc : rs.id = rs.id ∧ m.length = rs.buf.length ∧ rs.off = rs.off ∧ rs.off + n < W32 ∧ rs.off + n ≤ rs.buf.length := by
    refine ⟨rfl, hlen.symm, rfl, ?_, ?_⟩ <;> omega
  have hreset : ¬ ((fragOf magic sex rs.id rs.off n m).off = 0 ∧ (fragOf magic sex rs.id rs.off n m).id ≠ rs.id) :=
    fun h => h.2 rfl
  constructor
  · intro hdone
    have hd : rs.off + n = rs.buf.length := by omega
    have h1 : writeAt rs.buf rs.off ((m.drop rs.off).take n) = m := by
      have h2 := List.take_length (l := writeAt rs.buf rs.off ((m.drop rs.off).take n))
      rw [hl, hlen, ← hdone, htk, hdone, List.take_length] at h2
      exact h2.symm
    rw [rsStep_eq _ _ hreset]
    simp only [fragOf]
    split
    · simp [hd, h1]
    · rename_i hc
      exact absurd (by refine ⟨trivial, hlen.symm, trivial, ?_, ?_⟩ <;> omega) hc
  · intro hnd
    have hd : ¬ rs.off + n = rs.buf.length := by omega
    refine ⟨writeAt rs.buf rs.off ((m.drop rs.off).take n), ?_, by omega, htk⟩
    rw [rsStep_eq _ _ hreset]
    simp only [fragOf]
    split
    · simp [hd]
    · rename_i hc
      exact absurd (by refine ⟨trivial, hlen.symm, trivial, ?_, ?_⟩ <;> omega) hc

/-- receiver and stream agree on where they are: before a Message (`off = 0`) the source is unknown or
    its state carries another id; inside a Message the state holds exactly the first `off` bytes -/
def Sync (o : Option RS) (id off : Nat) (q : List Bytes) : Prop :=
  (off = 0 ∧ (o = none ∨ ∃ rs, o = some rs ∧ rs.id ≠ id)) ∨
  (0 < off ∧ ∃ rs m q', q = m :: q' ∧ o = some rs ∧ rs.id = id ∧ rs.off = off ∧ rs.buf.length = m.length ∧
     rs.buf.take off = m.take off)

theorem nextId_ne (id : Nat) (h : id < W32) : nextId id ≠ id := by
  simp only [nextId, W32] at *; omega

theorem nextId_lt (id : Nat) : nextId id < W32 := by
  simp only [nextId, W32]; omega

/-- one in-order piece against a synchronised state -/
theorem srcStep_piece (o : Option RS) (magic sex id off n : Nat) (m : Bytes) (q : List Bytes)
    (hs : Sync o id off (m :: q)) (hfit : off + n ≤ m.length) (hW : m.length < W32) :
    (off + n = m.length → ∃ rs', srcStep o (fragOf magic sex id off n m) = (some rs', some m) ∧ rs'.id = id) ∧
    (off + n ≠ m.length → 0 < n → ∃ rs', srcStep o (fragOf magic sex id off n m) = (some rs', none) ∧
        Sync (some rs') id (off + n) (m :: q)) := by
  -- reduce every case to `rsStep_inorder` on a state that already carries this id at this offset
  have main : ∀ rs : RS, rs.id = id → rs.off = off → rs.buf.length = m.length → rs.buf.take off = m.take off →
      (off + n = m.length → rsStep rs (fragOf magic sex id off n m) = ({ id := id, off := 0, buf := [] }, some m)) ∧
      (off + n ≠ m.length → 0 < n → ∃ rs', rsStep rs (fragOf magic sex id off n m) = (rs', none) ∧
        Sync (some rs') id (off + n) (m :: q)) := by
    intro rs hid hoff hlen hpre
    subst hid; subst hoff
    have := rsStep_inorder rs m magic sex n hlen hpre hfit hW
    refine ⟨this.1, ?_⟩
    intro hnd hn
    obtain ⟨buf, h1, h2, h3⟩ := this.2 hnd
    exact ⟨_, h1, Or.inr ⟨by omega, _, m, q, rfl, rfl, rfl, rfl, h2, h3⟩⟩
  rcases hs with ⟨h0, hstate⟩ | ⟨hpos, rs, m', q', hq, ho, hid, hoff, hlen, hpre⟩
  · subst h0
    -- the state the code works on after creating / restarting
    have fresh : ∀ b : Bytes, b.length = m.length →
        (0 + n = m.length → rsStep { id := id, off := 0, buf := b } (fragOf magic sex id 0 n m) = ({ id := id, off := 0, buf := [] }, some m)) ∧
        (0 + n ≠ m.length → 0 < n → ∃ rs', rsStep { id := id, off := 0, buf := b } (fragOf magic sex id 0 n m) = (rs', none) ∧
          Sync (some rs') id (0 + n) (m :: q)) :=
      fun b hb => main { id := id, off := 0, buf := b } rfl rfl hb (by simp)
    rcases hstate with hnone | ⟨rs, hsome, hne⟩
    · subst hnone
      have hf := fresh (List.replicate m.length 0) (by simp)
      simp only [srcStep, fragOf, if_true] at hf ⊢
      constructor
      · intro h; exact ⟨_, by rw [hf.1 h], rfl⟩
      · intro h hn; obtain ⟨rs', h1, h2⟩ := hf.2 h hn; exact ⟨rs', by rw [h1], h2⟩
    · subst hsome
      have hre := rsStep_restart rs (fragOf magic sex id 0 n m) rfl (by simpa [fragOf] using fun h => hne h.symm)
      have hf := fresh (resize rs.buf m.length) (resize_length _ _)
      simp only [srcStep]
      rw [hre]
      simp only [fragOf] at hf ⊢
      constructor
      · intro h; exact ⟨_, by rw [hf.1 h], rfl⟩
      · intro h hn; obtain ⟨rs', h1, h2⟩ := hf.2 h hn; exact ⟨rs', by rw [h1], h2⟩
  · cases hq
    subst ho
    have hm := main rs hid hoff hlen hpre
    simp only [srcStep]
    constructor
    · intro h; exact ⟨_, by rw [hm.1 h], rfl⟩
    · intro h hn; obtain ⟨rs', h1, h2⟩ := hm.2 h hn; exact ⟨rs', by rw [h1], h2⟩

/-- an in-order stream is delivered exactly: every payload once, in order, nothing else -/
theorem stream_delivers (magic sex : Nat) : ∀ {id off : Nat} {q : List Bytes} {fs : List Frag},
    Stream magic sex id off q fs → ∀ (o : Option RS), id < W32 → (∀ m, m ∈ q → m.length < W32) →
    Sync o id off q → (srcRun o fs).2 = q := by
  intro id off q fs hst
  induction hst with
  | nil id => intro o _ _ _; rfl
  | @last id off n m q fs h hrest ih =>
    intro o hid hW hs
    obtain ⟨rs', hstep, hrid⟩ := (srcStep_piece o magic sex id off n m q hs (by omega) (hW m List.mem_cons_self)).1 h
    simp only [srcRun, hstep]
    rw [ih (some rs') (nextId_lt id) (fun x hx => hW x (List.mem_cons_of_mem _ hx))
      (Or.inl ⟨rfl, Or.inr ⟨rs', rfl, by rw [hrid]; exact fun h => nextId_ne id hid h.symm⟩⟩)]
  | @part id off n m q fs h hn hrest ih =>
    intro o hid hW hs
    obtain ⟨rs', hstep, hsync⟩ := (srcStep_piece o magic sex id off n m q hs (by omega) (hW m List.mem_cons_self)).2 (by omega) hn
    simp only [srcRun, hstep]
    exact ih (some rs') hid hW hsync

/-! ### in-order delivery when Messages over the size limit are skipped (fix 79d1d2b) -/

/-- the receive state, if any, carries an id different from the ids of all Messages still to come -/
def Before (o : Option RS) (id : Nat) (q : List Bytes) : Prop :=
  o = none ∨ ∃ rs, o = some rs ∧ ∀ k, k < q.length → rs.id ≠ (id + k) % W32

/-- receiver and stream agree, with skipping: if the head of the queue is over the limit none of its pieces
    has reached (or will reach) the state; otherwise as `Sync` -/
def Sync2 (maxIn : Nat) (o : Option RS) (id off : Nat) : List Bytes → Prop
  | [] => True
  | m :: q =>
    if m.length ≤ maxIn then (off = 0 ∧ Before o id (m :: q)) ∨
      (0 < off ∧ ∃ rs, o = some rs ∧ rs.id = id ∧ rs.off = off ∧ rs.buf.length = m.length ∧ rs.buf.take off = m.take off)
    else Before o id (m :: q)

theorem before_tail (o : Option RS) (id : Nat) (m : Bytes) (q : List Bytes) (h : Before o id (m :: q)) :
    Before o (nextId id) q := by
  rcases h with h | ⟨rs, h1, h2⟩
  · exact Or.inl h
  · refine Or.inr ⟨rs, h1, ?_⟩
    intro k hk
    have := h2 (k + 1) (by simp only [List.length_cons]; omega)
    simp only [nextId, W32] at *
    omega

theorem sync2_of_before (maxIn : Nat) (o : Option RS) (id : Nat) (q : List Bytes) (h : Before o id q) :
    Sync2 maxIn o id 0 q := by
  cases q with
  | nil => trivial
  | cons m q =>
    by_cases hf : m.length ≤ maxIn <;> simp [Sync2, hf, h]

theorem filt_frag_keep (maxIn : Nat) (f : Frag) (fs : List Frag) (h : f.total ≤ maxIn) :
    (f :: fs).filter (fun f => decide (f.total ≤ maxIn)) = f :: fs.filter (fun f => decide (f.total ≤ maxIn)) := by
  simp [List.filter_cons, h]

theorem filt_frag_drop (maxIn : Nat) (f : Frag) (fs : List Frag) (h : ¬ f.total ≤ maxIn) :
    (f :: fs).filter (fun f => decide (f.total ≤ maxIn)) = fs.filter (fun f => decide (f.total ≤ maxIn)) := by
  simp [List.filter_cons, h]

theorem filt_msg_keep (maxIn : Nat) (m : Bytes) (q : List Bytes) (h : m.length ≤ maxIn) :
    (m :: q).filter (fun m => decide (m.length ≤ maxIn)) = m :: q.filter (fun m => decide (m.length ≤ maxIn)) := by
  simp [List.filter_cons, h]

theorem filt_msg_drop (maxIn : Nat) (m : Bytes) (q : List Bytes) (h : ¬ m.length ≤ maxIn) :
    (m :: q).filter (fun m => decide (m.length ≤ maxIn)) = q.filter (fun m => decide (m.length ≤ maxIn)) := by
  simp [List.filter_cons, h]

/-- an in-order stream, seen through a receiver that skips the fragments of Messages over its size limit,
    delivers exactly the payloads within the limit: each once, in order; the others are dropped and do
    not disturb their neighbours -/
theorem stream_delivers_fit (magic sex maxIn : Nat) : ∀ {id off : Nat} {q : List Bytes} {fs : List Frag},
    Stream magic sex id off q fs → ∀ (o : Option RS), id < W32 → (∀ m, m ∈ q → m.length < W32) → q.length ≤ W32 →
    Sync2 maxIn o id off q →
    (srcRun o (fs.filter (fun f => decide (f.total ≤ maxIn)))).2 = q.filter (fun m => decide (m.length ≤ maxIn)) := by
  intro id off q fs hst
  induction hst with
  | nil id => intro o _ _ _ _; rfl
  | @last id off n m q fs h hrest ih =>
    intro o hid hW hlen hs
    have hqlen : q.length < W32 := by simp only [List.length_cons] at hlen; omega
    simp only [Sync2] at hs
    by_cases hfit : m.length ≤ maxIn
    · simp only [hfit, if_true] at hs
      have hsync : Sync o id off (m :: q) := by
        rcases hs with ⟨h0, hb⟩ | ⟨hpos, rs, h1, h2, h3, h4, h5⟩
        · refine Or.inl ⟨h0, ?_⟩
          rcases hb with hb | ⟨rs, hb1, hb2⟩
          · exact Or.inl hb
          · refine Or.inr ⟨rs, hb1, ?_⟩
            have := hb2 0 (by simp)
            simp only [W32] at *
            rw [Nat.add_zero, Nat.mod_eq_of_lt hid] at this
            exact this
        · exact Or.inr ⟨hpos, rs, m, q, rfl, h1, h2, h3, h4, h5⟩
      obtain ⟨rs', hstep, hrid⟩ := (srcStep_piece o magic sex id off n m q hsync (by omega) (hW m List.mem_cons_self)).1 h
      have hkeep : decide ((fragOf magic sex id off n m).total ≤ maxIn) = true := decide_eq_true hfit
      rw [filt_frag_keep maxIn (fragOf magic sex id off n m) fs hfit, filt_msg_keep maxIn m q hfit]
      simp only [srcRun, hstep]
      have hb' : Before (some rs') (nextId id) q := by
        refine Or.inr ⟨rs', rfl, ?_⟩
        intro k hk
        rw [hrid]
        simp only [nextId, W32] at *
        omega
      rw [ih (some rs') (nextId_lt id) (fun x hx => hW x (List.mem_cons_of_mem _ hx)) (by omega)
        (sync2_of_before maxIn _ _ _ hb')]
    · simp only [hfit, if_false] at hs
      have hdrop : decide ((fragOf magic sex id off n m).total ≤ maxIn) = false := decide_eq_false hfit
      rw [filt_frag_drop maxIn (fragOf magic sex id off n m) fs hfit, filt_msg_drop maxIn m q hfit]
      exact ih o (nextId_lt id) (fun x hx => hW x (List.mem_cons_of_mem _ hx)) (by omega)
        (sync2_of_before maxIn _ _ _ (before_tail o id m q hs))
  | @part id off n m q fs h hn hrest ih =>
    intro o hid hW hlen hs
    have hs0 := hs
    simp only [Sync2] at hs
    by_cases hfit : m.length ≤ maxIn
    · simp only [hfit, if_true] at hs
      have hsync : Sync o id off (m :: q) := by
        rcases hs with ⟨h0, hb⟩ | ⟨hpos, rs, h1, h2, h3, h4, h5⟩
        · refine Or.inl ⟨h0, ?_⟩
          rcases hb with hb | ⟨rs, hb1, hb2⟩
          · exact Or.inl hb
          · refine Or.inr ⟨rs, hb1, ?_⟩
            have := hb2 0 (by simp)
            simp only [W32] at *
            rw [Nat.add_zero, Nat.mod_eq_of_lt hid] at this
            exact this
        · exact Or.inr ⟨hpos, rs, m, q, rfl, h1, h2, h3, h4, h5⟩
      obtain ⟨rs', hstep, hsync'⟩ := (srcStep_piece o magic sex id off n m q hsync (by omega) (hW m List.mem_cons_self)).2 (by omega) hn
      have hkeep : decide ((fragOf magic sex id off n m).total ≤ maxIn) = true := decide_eq_true hfit
      rw [filt_frag_keep maxIn (fragOf magic sex id off n m) fs hfit]
      simp only [srcRun, hstep]
      refine ih (some rs') hid hW hlen ?_
      simp only [Sync2, hfit, if_true]
      rcases hsync' with ⟨h0, _⟩ | ⟨hpos, rs, m', q', hq, h1, h2, h3, h4, h5⟩
      · omega
      · cases hq
        exact Or.inr ⟨hpos, rs, h1, h2, h3, h4, h5⟩
    · have hdrop : decide ((fragOf magic sex id off n m).total ≤ maxIn) = false := decide_eq_false hfit
      rw [filt_frag_drop maxIn (fragOf magic sex id off n m) fs hfit]
      refine ih o hid hW hlen ?_
      simp only [hfit, if_false] at hs
      simp only [Sync2, hfit, if_false]
      exact hs

end Muscle.Tunnel
