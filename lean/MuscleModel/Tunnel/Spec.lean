import MuscleModel.Tunnel.Net

/-!
# Specification vocabulary of C12 (used by the statements in `Props/C12.lean`)
-/

namespace Muscle.Tunnel
open Muscle

/-- What was sent: for each source and each 32-bit message id, at most ONE payload.  That `sent` is a
    *function* is exactly the hypothesis "message ids are distinct per source among the packets that can
    still be delivered" (fewer than 2^32 Messages of one source between a packet's emission and its last
    possible delivery).  With unbounded delay no finite id can give safety; this is where it is stated. -/
abbrev SentMap := Nat → Nat → Option Bytes

/-- a fragment that a sender really produced for the Message `sent src f.id`: its total size is the
    Message's size and its data are the Message's bytes at `[off, off+chunk)` -/
def Genuine (sent : SentMap) (src : Nat) (f : Frag) : Prop :=
  ∃ m, sent src f.id = some m ∧ f.total = m.length ∧ f.off + f.chunk ≤ m.length ∧
       f.data = (m.drop f.off).take f.chunk

/-- the reassembly state of source `src` is consistent with what was sent: it names a sent Message, and
    unless nothing has been accepted yet (`off = 0`) the buffer has that Message's size and its first
    `off` bytes are that Message's first `off` bytes -/
def RSInv (sent : SentMap) (src : Nat) (rs : RS) : Prop :=
  ∃ m, sent src rs.id = some m ∧
       (rs.off = 0 ∨ (rs.buf.length = m.length ∧ rs.off ≤ m.length ∧ rs.buf.take rs.off = m.take rs.off))

def TableInv (sent : SentMap) (t : Table) : Prop := ∀ src rs, (src, rs) ∈ t → RSInv sent src rs

/-- every fragment that the receiver `c` accepts out of the datagrams `pkts` is genuine -/
def AllGenuine (hdr : Nat) (c : RxCfg) (sent : SentMap) (pkts : List Datagram) : Prop :=
  ∀ src p, (src, p) ∈ pkts → ∀ f, f ∈ accepted hdr c p → Genuine sent src f

/-- the ids a sender starting at `id0` gives to the payloads `ms` (32-bit counter, wrapping) -/
def sentBy (id0 : Nat) (ms : List Bytes) : Nat → Option Bytes :=
  fun id => ms[(id + W32 - id0 % W32) % W32]?

/-- what one source's fragments do to that source's receive state, with no table around -/
def srcRun : Option RS → List Frag → Option RS × List Bytes
  | o, [] => (o, [])
  | o, f :: fs =>
    let r := srcStep o f
    let r2 := srcRun r.1 fs
    (r2.1, match r.2 with | some b => b :: r2.2 | none => r2.2)

/-- the fragment of payload `m` at `[off, off+n)` as a sender with `(magic, sex)` and counter `id` writes it -/
def fragOf (magic sex id off n : Nat) (m : Bytes) : Frag :=
  { magic := magic, sex := sex, id := id, off := off, chunk := n, total := m.length, data := (m.drop off).take n }

/-- an in-order, gap-free fragment stream for the queue `q`, starting inside its head at offset `off` with
    id counter `id`: every Message is cut into consecutive non-empty pieces (one empty piece for an empty
    payload), ids advance by one (mod 2^32) per Message.  WHERE the cuts fall is left open: every packing a
    sender may choose (any MTU) is covered. -/
inductive Stream (magic sex : Nat) : Nat → Nat → List Bytes → List Frag → Prop
  | nil (id : Nat) : Stream magic sex id 0 [] []
  | last {id off n : Nat} {m : Bytes} {q : List Bytes} {fs : List Frag} (h : off + n = m.length) :
      Stream magic sex (nextId id) 0 q fs → Stream magic sex id off (m :: q) (fragOf magic sex id off n m :: fs)
  | part {id off n : Nat} {m : Bytes} {q : List Bytes} {fs : List Frag} (h : off + n < m.length) (hn : 0 < n) :
      Stream magic sex id (off + n) (m :: q) fs → Stream magic sex id off (m :: q) (fragOf magic sex id off n m :: fs)

end Muscle.Tunnel
