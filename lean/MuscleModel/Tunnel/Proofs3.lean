import MuscleModel.Tunnel.Proofs2

/-! Lemmas for C12, part 3: what the sender writes is an in-order stream of well-formed fragments in
packets of at most MTU bytes, and the receiver's parser reads back exactly those fragments. -/

set_option linter.unusedSimpArgs false
set_option linter.unusedVariables false

namespace Muscle.Tunnel
open Muscle

/-- the sender's cursor is inside (or at the end of) the head of its queue -/
def OffOK (off : Nat) : List Bytes → Prop
  | [] => off = 0
  | m :: _ => off ≤ m.length

theorem offOK_zero (q : List Bytes) : OffOK 0 q := by
  cases q <;> simp [OffOK]

theorem txMeasure_cons (off : Nat) (m : Bytes) (q : List Bytes) :
    txMeasure off (m :: q) = (m.length + 1 + txMeasure 0 q) - off := by
  simp [txMeasure]

/-- everything one run of the inner loop guarantees -/
theorem fill_spec (hdr mtu magic sex : Nat) : ∀ (q : List Bytes) (used id off : Nat), OffOK off q →
    (∀ rest, Stream magic sex (fillPacket hdr mtu magic sex used id off q).2.1 (fillPacket hdr mtu magic sex used id off q).2.2.1
        (fillPacket hdr mtu magic sex used id off q).2.2.2 rest →
      Stream magic sex id off q ((fillPacket hdr mtu magic sex used id off q).1 ++ rest)) ∧
    OffOK (fillPacket hdr mtu magic sex used id off q).2.2.1 (fillPacket hdr mtu magic sex used id off q).2.2.2 ∧
    txMeasure (fillPacket hdr mtu magic sex used id off q).2.2.1 (fillPacket hdr mtu magic sex used id off q).2.2.2
      + (fillPacket hdr mtu magic sex used id off q).1.length ≤ txMeasure off q ∧
    (id < W32 → (fillPacket hdr mtu magic sex used id off q).2.1 < W32) ∧
    (hdr = 24 → used ≤ mtu → used + (encPacket (fillPacket hdr mtu magic sex used id off q).1).length ≤ mtu)
  | [], used, id, off, hoff => by
    simp only [fillPacket, List.nil_append, List.length_nil, Nat.add_zero, encPacket]
    exact ⟨fun rest h => h, hoff, Nat.le_refl _, fun h => h, fun _ h => h⟩
  | m :: q, used, id, off, hoff => by
    have hoff' : off ≤ m.length := hoff
    simp only [fillPacket]
    split
    · rename_i hroom
      split
      · rename_i hlast
        have ih := fill_spec hdr mtu magic sex q (used + hdr + min (mtu - (used + hdr)) (m.length - off)) (nextId id) 0 (offOK_zero q)
        obtain ⟨ih1, ih2, ih3, ih4, ih5⟩ := ih
        refine ⟨?_, ih2, ?_, fun _ => ih4 (nextId_lt id), ?_⟩
        · intro rest h
          exact Stream.last hlast (ih1 rest h)
        · rw [txMeasure_cons]
          simp only [List.length_cons]
          omega
        · intro h24 hu
          have := ih5 h24 (by omega)
          simp only [encPacket, List.length_append, encFrag, le32_length]
          have hd : ((m.drop off).take (min (mtu - (used + hdr)) (m.length - off))).length = min (mtu - (used + hdr)) (m.length - off) := by
            simp only [List.length_take, List.length_drop]; omega
          rw [hd]; omega
      · rename_i hnl
        have hn : 0 < min (mtu - (used + hdr)) (m.length - off) := by omega
        refine ⟨?_, ?_, ?_, fun h => h, ?_⟩
        · intro rest h
          exact Stream.part (by omega) hn h
        · show off + min (mtu - (used + hdr)) (m.length - off) ≤ m.length
          omega
        · rw [txMeasure_cons, txMeasure_cons]
          simp only [List.length_cons, List.length_nil]
          omega
        · intro h24 hu
          simp only [encPacket, List.length_append, encFrag, le32_length, List.length_nil]
          have hd : ((m.drop off).take (min (mtu - (used + hdr)) (m.length - off))).length = min (mtu - (used + hdr)) (m.length - off) := by
            simp only [List.length_take, List.length_drop]; omega
          rw [hd]; omega
    · simp only [List.nil_append, List.length_nil, Nat.add_zero, encPacket]
      exact ⟨fun rest h => h, hoff, Nat.le_refl _, fun h => h, fun _ h => h⟩

theorem fill_nonempty (hdr mtu magic sex id off : Nat) (m : Bytes) (q : List Bytes) (h : hdr < mtu) :
    (fillPacket hdr mtu magic sex 0 id off (m :: q)).1 ≠ [] := by
  simp only [fillPacket, Nat.zero_add, h, if_true]
  split <;> simp

/-- the outer loop, given enough fuel, writes a complete in-order stream for its queue, in packets of at
    most MTU bytes -/
theorem sendLoop_stream (hdr mtu magic sex : Nat) (hm : hdr < mtu) : ∀ (fuel id off : Nat) (q : List Bytes),
    txMeasure off q < fuel → OffOK off q →
    Stream magic sex id off q (sendLoop hdr mtu magic sex fuel id off q).1.flatten ∧
    (hdr = 24 → ∀ p, p ∈ (sendLoop hdr mtu magic sex fuel id off q).1 → (encPacket p).length ≤ mtu)
  | 0, _, _, _, h, _ => by omega
  | fuel+1, id, off, q, hfuel, hoff => by
    obtain ⟨h1, h2, h3, _, h5⟩ := fill_spec hdr mtu magic sex q 0 id off hoff
    simp only [sendLoop]
    split
    · rename_i hempty
      cases q with
      | nil =>
        have : off = 0 := hoff
        subst this
        exact ⟨Stream.nil id, fun _ p hp => by cases hp⟩
      | cons m q => exact absurd hempty (fill_nonempty hdr mtu magic sex id off m q hm)
    · rename_i hne
      have hlen : 0 < (fillPacket hdr mtu magic sex 0 id off q).1.length := by
        cases h : (fillPacket hdr mtu magic sex 0 id off q).1 with
        | nil => exact absurd h hne
        | cons a b => simp
      have ih := sendLoop_stream hdr mtu magic sex hm fuel (fillPacket hdr mtu magic sex 0 id off q).2.1
        (fillPacket hdr mtu magic sex 0 id off q).2.2.1 (fillPacket hdr mtu magic sex 0 id off q).2.2.2 (by omega) h2
      simp only [List.flatten_cons]
      refine ⟨h1 _ ih.1, ?_⟩
      intro h24 p hp
      rcases List.mem_cons.mp hp with h | h
      · subst h
        have := h5 h24 (Nat.zero_le _)
        omega
      · exact ih.2 h24 p h

/-! ### well-formed fragments and the parser -/

/-- header words fit 32 bits, the data are `chunk` bytes, and the receiver listens (magic, exclusion id) -/
def FragWF (c : RxCfg) (f : Frag) : Prop :=
  f.magic < W32 ∧ f.sex < W32 ∧ f.id < W32 ∧ f.off < W32 ∧ f.chunk < W32 ∧ f.total < W32 ∧
  f.data.length = f.chunk ∧ hdrOk c f.magic f.sex = true

theorem stream_wf (c : RxCfg) (magic sex : Nat) (hmg : magic < W32) (hsx : sex < W32)
    (hmagic : c.magic = magic) (hsex : c.sex = 0 ∨ c.sex ≠ sex) :
    ∀ {id off : Nat} {q : List Bytes} {fs : List Frag}, Stream magic sex id off q fs → id < W32 →
    (∀ m, m ∈ q → m.length < W32) → ∀ f, f ∈ fs → FragWF c f := by
  intro id off q fs hst
  have hok : hdrOk c magic sex = true := by
    simp only [hdrOk, hmagic, decide_true, Bool.true_and, Bool.or_eq_true, decide_eq_true_eq]
    rcases hsex with h | h
    · left; exact h
    · right; simpa using h
  induction hst with
  | nil id => intro _ _ f hf; cases hf
  | @last id off n m q fs h hrest ih =>
    intro hid hq f hf
    have hm := hq m List.mem_cons_self
    rcases List.mem_cons.mp hf with hf | hf
    · subst hf
      refine ⟨hmg, hsx, hid, ?_, ?_, hm, length_take_drop _ _ _ (by omega), hok⟩ <;> simp only [fragOf] <;> omega
    · exact ih (nextId_lt id) (fun x hx => hq x (List.mem_cons_of_mem _ hx)) f hf
  | @part id off n m q fs h hn hrest ih =>
    intro hid hq f hf
    have hm := hq m List.mem_cons_self
    rcases List.mem_cons.mp hf with hf | hf
    · subst hf
      refine ⟨hmg, hsx, hid, ?_, ?_, hm, length_take_drop _ _ _ (by omega), hok⟩ <;> simp only [fragOf] <;> omega
    · exact ih hid hq f hf

theorem encPacket_length_ge : ∀ (fs : List Frag), fs.length ≤ (encPacket fs).length
  | [] => Nat.le_refl _
  | f :: r => by
    have := encPacket_length_ge r
    simp only [encPacket, List.length_cons, List.length_append, encFrag, le32_length]
    omega

/-- the receiver's fragment loop reads back exactly the fragments a packet was made of, minus those of
    Messages over its size limit (which it skips) -/
theorem parse_enc (c : RxCfg) : ∀ (fs : List Frag) (fuel : Nat), (∀ f, f ∈ fs → FragWF c f) → fs.length < fuel →
    parseFrags c fuel (encPacket fs) = fs.filter (fun f => decide (f.total ≤ c.maxIn))
  | [], fuel, _, hf => by
    cases fuel with
    | zero => omega
    | succ k => simp [parseFrags, encPacket, rd32, rdN, takeN]
  | f :: r, fuel, hwf, hf => by
    cases fuel with
    | zero => omega
    | succ k =>
      obtain ⟨h1, h2, h3, h4, h5, h6, h7, h8⟩ := hwf f List.mem_cons_self
      have ih := parse_enc c r k (fun g hg => hwf g (List.mem_cons_of_mem _ hg)) (by simp only [List.length_cons] at hf; omega)
      simp only [W32] at h1 h2 h3 h4 h5 h6
      have hle : f.chunk ≤ (f.data ++ encPacket r).length := by simp only [List.length_append]; omega
      have htake : (f.data ++ encPacket r).take f.chunk = f.data := List.take_left' h7
      have hdrop : (f.data ++ encPacket r).drop f.chunk = encPacket r := List.drop_left' h7
      simp only [parseFrags, encPacket, encFrag, List.append_assoc, rd32_le32 _ _ h1, rd32_le32 _ _ h2, rd32_le32 _ _ h3,
        rd32_le32 _ _ h4, rd32_le32 _ _ h5, rd32_le32 _ _ h6, h8, hle, decide_true, Bool.and_self, if_true, htake, hdrop, ih]
      by_cases hfit : f.total ≤ c.maxIn
      · have : ¬ f.total > c.maxIn := by omega
        rw [if_neg this, filt_frag_keep c.maxIn f r hfit]
      · have : f.total > c.maxIn := by omega
        rw [if_pos this, filt_frag_drop c.maxIn f r hfit]

theorem accepted_enc (hdr : Nat) (c : RxCfg) (fs : List Frag) (hwf : ∀ f, f ∈ fs → FragWF c f)
    (hfit : (encPacket fs).length ≤ effMtu hdr c.mtu) :
    accepted hdr c (encPacket fs) = fs.filter (fun f => decide (f.total ≤ c.maxIn)) := by
  have : (encPacket fs).take (effMtu hdr c.mtu) = encPacket fs := List.take_of_length_le hfit
  simp only [accepted, this]
  exact parse_enc c fs _ hwf (by have := encPacket_length_ge fs; omega)

/-! ### datagram lists made of whole packets -/

theorem rxPacket_eq (hdr : Nat) (c : RxCfg) (hmisc : c.misc = false) (t : Table) (src : Nat) (p : Bytes) :
    rxPacket hdr c t src p = rxFrags c src t (accepted hdr c p) := by
  simp only [rxPacket, accepted, hmisc, Bool.false_and, Bool.false_eq_true, if_false]
  split
  · rename_i h0
    rw [h0]
    simp [parseFrags, rd32, rdN, takeN, List.length_eq_zero_iff.mp h0, rxFrags]
  · rfl

theorem rxFrags_append (c : RxCfg) (src : Nat) : ∀ (a b : List Frag) (t : Table),
    rxFrags c src t (a ++ b) =
      ((rxFrags c src (rxFrags c src t a).1 b).1, (rxFrags c src t a).2 ++ (rxFrags c src (rxFrags c src t a).1 b).2)
  | [], b, t => by simp [rxFrags]
  | f :: a, b, t => by
    simp only [List.cons_append, rxFrags]
    rw [rxFrags_append c src a b]
    cases (rxFrag c t src f).2 <;> simp

theorem rxAll_packets (hdr : Nat) (c : RxCfg) (hmisc : c.misc = false) (src : Nat) (g : List Frag → List Frag) :
    ∀ (pkts : List (List Frag)) (t : Table),
    (∀ p, p ∈ pkts → accepted hdr c (encPacket p) = g p) →
    rxAll hdr c t (pkts.map (fun p => (src, encPacket p))) =
      ((rxFrags c src t (pkts.map g).flatten).1, (rxFrags c src t (pkts.map g).flatten).2.map (fun b => (src, b)))
  | [], t, _ => by simp [rxAll, rxFrags]
  | p :: ps, t, h => by
    simp only [List.map_cons, rxAll, List.flatten_cons]
    rw [rxPacket_eq hdr c hmisc, h p List.mem_cons_self, rxFrags_append,
      rxAll_packets hdr c hmisc src g ps _ (fun q hq => h q (List.mem_cons_of_mem _ hq))]
    simp

theorem flatten_map_filter (pr : Frag → Bool) : ∀ (pkts : List (List Frag)),
    (pkts.map (fun p => p.filter pr)).flatten = pkts.flatten.filter pr
  | [] => rfl
  | p :: ps => by
    simp only [List.map_cons, List.flatten_cons, List.filter_append]
    rw [flatten_map_filter pr ps]

theorem effMtu_gt (hdr mtu : Nat) : hdr < effMtu hdr mtu := by
  simp only [effMtu]; omega

end Muscle.Tunnel
