import MuscleModel.Tunnel.Proofs3

/-! Lemmas for C12, part 4: whatever prefix of a sender's packet a receiver sees (its own MTU may be
smaller) and whatever its filter lets through, the fragments it accepts are fragments of that packet;
and a sender's fragments are genuine for the id assignment `sentBy`. -/

set_option linter.unusedSimpArgs false
set_option linter.unusedVariables false

namespace Muscle.Tunnel
open Muscle

/-- header words fit 32 bits and the data are `chunk` bytes (no assumption about any receiver) -/
def FragWF0 (f : Frag) : Prop :=
  f.magic < W32 ∧ f.sex < W32 ∧ f.id < W32 ∧ f.off < W32 ∧ f.chunk < W32 ∧ f.total < W32 ∧ f.data.length = f.chunk

theorem step32 {x t Y x1 : Bytes} {a v : Nat} (ha : a < 4294967296) (h : x ++ t = le32 a ++ Y)
    (hr : rd32 x = some (v, x1)) : v = a ∧ x1 ++ t = Y := by
  obtain ⟨hx, hv⟩ := rd32_some hr
  subst hx
  have := congrArg rd32 h
  simp only [List.append_assoc, rd32_le32 _ _ hv, rd32_le32 _ _ ha, Option.some.injEq, Prod.mk.injEq] at this
  exact this

/-- the fragments parsed out of any prefix of a packet are fragments of that packet -/
theorem parse_sub (c : RxCfg) : ∀ (fs : List Frag) (fuel : Nat) (x t : Bytes), (∀ f, f ∈ fs → FragWF0 f) →
    x ++ t = encPacket fs → ∀ g, g ∈ parseFrags c fuel x → g ∈ fs
  | fs, 0, x, t, _, _ => by intro g hg; simp [parseFrags] at hg
  | [], fuel+1, x, t, _, hx => by
    have : x = [] := by
      simp only [encPacket] at hx
      exact (List.append_eq_nil_iff.mp hx).1
    subst this
    intro g hg
    simp [parseFrags, rd32, rdN, takeN] at hg
  | f :: r, fuel+1, x, t, hwf, hx => by
    obtain ⟨h1, h2, h3, h4, h5, h6, h7⟩ := hwf f List.mem_cons_self
    simp only [W32] at h1 h2 h3 h4 h5 h6
    simp only [encPacket, encFrag, List.append_assoc] at hx
    intro g hg
    simp only [parseFrags] at hg
    split at hg
    · cases hg
    · rename_i v1 x1 r1
      obtain ⟨e1, hx1⟩ := step32 h1 hx r1
      split at hg
      · cases hg
      · rename_i v2 x2 r2
        obtain ⟨e2, hx2⟩ := step32 h2 hx1 r2
        split at hg
        · cases hg
        · rename_i v3 x3 r3
          obtain ⟨e3, hx3⟩ := step32 h3 hx2 r3
          split at hg
          · cases hg
          · rename_i v4 x4 r4
            obtain ⟨e4, hx4⟩ := step32 h4 hx3 r4
            split at hg
            · cases hg
            · rename_i v5 x5 r5
              obtain ⟨e5, hx5⟩ := step32 h5 hx4 r5
              split at hg
              · cases hg
              · rename_i v6 x6 r6
                obtain ⟨e6, hx6⟩ := step32 h6 hx5 r6
                split at hg
                · rename_i hcond
                  have hle : v5 ≤ x6.length := by
                    simp only [Bool.and_eq_true, decide_eq_true_eq] at hcond
                    exact hcond.2
                  subst e1 e2 e3 e4 e5 e6
                  have htk : x6.take f.chunk = f.data := by
                    have h := congrArg (List.take f.chunk) hx6
                    rw [List.take_append_of_le_length hle, List.take_left' h7] at h
                    exact h
                  have hdr : x6.drop f.chunk ++ t = encPacket r := by
                    have h := congrArg (List.drop f.chunk) hx6
                    rw [List.drop_append_of_le_length hle, List.drop_left' h7] at h
                    exact h
                  split at hg
                  · exact List.mem_cons_of_mem _
                      (parse_sub c r fuel _ t (fun q hq => hwf q (List.mem_cons_of_mem _ hq)) hdr g hg)
                  · rcases List.mem_cons.mp hg with hg | hg
                    · rw [hg, htk]
                      exact List.mem_cons_self
                    · exact List.mem_cons_of_mem _
                        (parse_sub c r fuel _ t (fun q hq => hwf q (List.mem_cons_of_mem _ hq)) hdr g hg)
                · cases hg

theorem accepted_sub (hdr : Nat) (c : RxCfg) (fs : List Frag) (hwf : ∀ f, f ∈ fs → FragWF0 f) :
    ∀ g, g ∈ accepted hdr c (encPacket fs) → g ∈ fs := by
  intro g hg
  exact parse_sub c fs _ _ ((encPacket fs).drop (effMtu hdr c.mtu)) hwf (List.take_append_drop _ _) g hg

/-! ### the sender's fragments are genuine -/

theorem sentBy_at (id0 : Nat) (ms : List Bytes) (k : Nat) (hk : k < ms.length) (hlen : ms.length ≤ W32) :
    sentBy id0 ms ((id0 + k) % W32) = ms[k]? := by
  simp only [sentBy, W32] at *
  congr 1
  omega

/-- every fragment of an in-order stream for the tail of `ms` from position `j` on is well formed and is a
    piece of the Message that `sentBy` files under its id -/
theorem stream_genuine (magic sex : Nat) (hmg : magic < W32) (hsx : sex < W32) (id0 : Nat) (ms : List Bytes)
    (hlen : ms.length ≤ W32) (hW : ∀ m, m ∈ ms → m.length < W32) (src : Nat) (sent : SentMap)
    (hsent : sent src = sentBy id0 ms) :
    ∀ {id off : Nat} {q : List Bytes} {fs : List Frag}, Stream magic sex id off q fs →
    ∀ j, id = (id0 + j) % W32 → (∀ i, q[i]? = ms[j + i]?) →
    ∀ f, f ∈ fs → FragWF0 f ∧ Genuine sent src f := by
  intro id off q fs hst
  induction hst with
  | nil id => intro _ _ _ f hf; cases hf
  | @last id off n m q fs h hrest ih =>
    intro j hid hq f hf
    have hm0 : ms[j]? = some m := by have := hq 0; simpa using this.symm
    have hj : j < ms.length := by
      rcases Nat.lt_or_ge j ms.length with h | h
      · exact h
      · rw [List.getElem?_eq_none h] at hm0; cases hm0
    have hmem : m ∈ ms := List.mem_of_getElem? hm0
    have hmW := hW m hmem
    rcases List.mem_cons.mp hf with hf | hf
    · subst hf
      refine ⟨⟨hmg, hsx, ?_, ?_, ?_, hmW, length_take_drop _ _ _ (by omega)⟩, m, ?_, rfl, by simp only [fragOf]; omega, rfl⟩
      · simp only [fragOf, hid, W32]; omega
      · simp only [fragOf]; omega
      · simp only [fragOf]; omega
      · simp only [fragOf, hsent, hid]
        rw [sentBy_at id0 ms j hj hlen, hm0]
    · refine ih (j + 1) ?_ ?_ f hf
      · simp only [nextId, hid, W32]; omega
      · intro i
        have := hq (i + 1)
        simp only [List.getElem?_cons_succ] at this
        rw [this]; congr 1; omega
  | @part id off n m q fs h hn hrest ih =>
    intro j hid hq f hf
    have hm0 : ms[j]? = some m := by have := hq 0; simpa using this.symm
    have hj : j < ms.length := by
      rcases Nat.lt_or_ge j ms.length with h | h
      · exact h
      · rw [List.getElem?_eq_none h] at hm0; cases hm0
    have hmem : m ∈ ms := List.mem_of_getElem? hm0
    have hmW := hW m hmem
    rcases List.mem_cons.mp hf with hf | hf
    · subst hf
      refine ⟨⟨hmg, hsx, ?_, ?_, ?_, hmW, length_take_drop _ _ _ (by omega)⟩, m, ?_, rfl, by simp only [fragOf]; omega, rfl⟩
      · simp only [fragOf, hid, W32]; omega
      · simp only [fragOf]; omega
      · simp only [fragOf]; omega
      · simp only [fragOf, hsent, hid]
        rw [sentBy_at id0 ms j hj hlen, hm0]
    · exact ih j hid hq f hf

theorem sentBy_mem (id0 : Nat) (ms : List Bytes) (id : Nat) (b : Bytes) (h : sentBy id0 ms id = some b) : b ∈ ms :=
  List.mem_of_getElem? h

end Muscle.Tunnel
