/-!
# Generic interleaving semantics for the threaded components (C10, C11, C18, C19)

A *machine* is a configuration type (shared state + per-thread program counter and locals) with one transition
function: `step c (.run t)` executes thread `t`'s next **atomic** action (one critical section, one atomic-counter
operation, one wake-up from a wait, one plain local action), `step c (.timeout t)` lets the time-out of `t`'s pending
timed wait fire.  `none` means "not enabled" (finished, blocked, or no timed wait pending).

A *schedule* is a list of events.  The same list drives the real threads under `harness/libvh/coop.h` and this
semantics, with the same two rules:

* SKIP rule — an event that is not enabled is skipped (nothing happens; the result records the skip);
* TAIL rule — when the list is exhausted the run is completed deterministically: the lowest-numbered thread with an
  enabled `.run` steps; if there is none, the lowest-numbered enabled `.timeout` fires; if there is none, stop.

Theorems are stated over `Reach`, i.e. over **every** event sequence — so they do not depend on these rules.
-/

namespace Muscle.Conc

abbrev Tid := Nat

/-- a schedule event: `run t` = thread `t` takes one atomic step; `timeout t` = the time-out of `t`'s timed wait fires -/
inductive Ev where
  | run (t : Tid)
  | timeout (t : Tid)
  deriving DecidableEq, Repr

/-- an interleaving machine with observable step outputs `O` -/
structure Machine where
  C : Type
  O : Type
  step : C → Ev → Option (C × O)

namespace Machine
variable (M : Machine)

/-- configurations reachable from `c₀` by any sequence of enabled events (= under every schedule) -/
inductive Reach (c₀ : M.C) : M.C → Prop where
  | init : Reach c₀ c₀
  | step {c c' : M.C} {e : Ev} {o : M.O} : Reach c₀ c → M.step c e = some (c', o) → Reach c₀ c'

/-- invariant rule: what holds initially and is preserved by every enabled event holds in every reachable configuration -/
theorem Reach.invariant {c₀ : M.C} (P : M.C → Prop) (h0 : P c₀)
    (hstep : ∀ c e c' o, P c → M.step c e = some (c', o) → P c') : ∀ {c}, M.Reach c₀ c → P c := by
  intro c h
  induction h with
  | init => exact h0
  | step _ hs ih => exact hstep _ _ _ _ ih hs

theorem Reach.trans {a b c : M.C} (h1 : M.Reach a b) (h2 : M.Reach b c) : M.Reach a c := by
  induction h2 with
  | init => exact h1
  | step _ hs ih => exact Reach.step ih hs

/-- run an explicit schedule with the SKIP rule; the log pairs each event with `some output` or `none` (skipped) -/
def runSched (c : M.C) : List Ev → M.C × List (Ev × Option M.O)
  | [] => (c, [])
  | e :: es =>
    match M.step c e with
    | some (c', o) => let (cf, log) := runSched c' es; (cf, (e, some o) :: log)
    | none => let (cf, log) := runSched c es; (cf, (e, none) :: log)

/-- first thread index in `0 … n-1` (lowest first) for which event `mk i` is enabled -/
def firstEnabled (c : M.C) (mk : Tid → Ev) : List Tid → Option (Tid × M.C × M.O)
  | [] => none
  | i :: is =>
    match M.step c (mk i) with
    | some (c', o) => some (i, c', o)
    | none => firstEnabled c mk is

/-- the TAIL rule, bounded by `fuel` steps -/
def runTail (n : Nat) : Nat → M.C → M.C × List (Ev × M.O)
  | 0, c => (c, [])
  | fuel + 1, c =>
    match M.firstEnabled c Ev.run (List.range n) with
    | some (i, c', o) => let (cf, log) := runTail n fuel c'; (cf, (Ev.run i, o) :: log)
    | none =>
      match M.firstEnabled c Ev.timeout (List.range n) with
      | some (i, c', o) => let (cf, log) := runTail n fuel c'; (cf, (Ev.timeout i, o) :: log)
      | none => (c, [])

theorem reach_runSched {c₀ c : M.C} (h : M.Reach c₀ c) (es : List Ev) : M.Reach c₀ (M.runSched c es).1 := by
  induction es generalizing c with
  | nil => exact h
  | cons e es ih =>
    simp only [runSched]
    cases hs : M.step c e with
    | none => exact ih h
    | some p => obtain ⟨c', o⟩ := p; exact ih (Reach.step h hs)

theorem firstEnabled_step {c : M.C} {mk : Tid → Ev} {l : List Tid} {i c' o}
    (h : M.firstEnabled c mk l = some (i, c', o)) : M.step c (mk i) = some (c', o) := by
  induction l with
  | nil => simp [firstEnabled] at h
  | cons j js ih =>
    simp only [firstEnabled] at h
    cases hs : M.step c (mk j) with
    | none => rw [hs] at h; exact ih h
    | some p =>
      rw [hs] at h
      obtain ⟨c2, o2⟩ := p
      simp only [Option.some.injEq, Prod.mk.injEq] at h
      obtain ⟨rfl, rfl, rfl⟩ := h
      exact hs

theorem reach_runTail {c₀ : M.C} (n fuel : Nat) {c : M.C} (h : M.Reach c₀ c) : M.Reach c₀ (M.runTail n fuel c).1 := by
  induction fuel generalizing c with
  | zero => exact h
  | succ f ih =>
    simp only [runTail]
    cases h1 : M.firstEnabled c Ev.run (List.range n) with
    | some p =>
      obtain ⟨i, c', o⟩ := p
      exact ih (Reach.step h (M.firstEnabled_step h1))
    | none =>
      cases h2 : M.firstEnabled c Ev.timeout (List.range n) with
      | some p =>
        obtain ⟨i, c', o⟩ := p
        exact ih (Reach.step h (M.firstEnabled_step h2))
      | none => exact h

end Machine

/-- function update, the workhorse of per-thread state (`Tid → α`) -/
def upd {α : Type} (f : Tid → α) (t : Tid) (v : α) : Tid → α := fun u => if u = t then v else f u

@[simp] theorem upd_same {α : Type} (f : Tid → α) (t : Tid) (v : α) : upd f t v t = v := by simp [upd]
@[simp] theorem upd_other {α : Type} (f : Tid → α) (t : Tid) (v : α) (u : Tid) (h : u ≠ t) : upd f t v u = f u := by simp [upd, h]
theorem upd_apply {α : Type} (f : Tid → α) (t : Tid) (v : α) (u : Tid) : upd f t v u = if u = t then v else f u := rfl

end Muscle.Conc
