/-!
# Model of `muscle::ObjectPool<Object, SLAB>` (util/ObjectPool.h): slabs, per-slab free lists, slab-list order

Mirrors the bookkeeping that `_mutex` guards: `ObjectSlabData` (`_firstFreeNodeIndex`, `_numNodesInUse`), the per-node
`_nextIndex`, the doubly linked slab list `_firstSlab … _lastSlab` (here: a `List Slab`, head = `_firstSlab`),
`_curPoolSize`, `_maxPoolSize`.  `N` = `NUM_OBJECTS_PER_SLAB` and `maxPool` are parameters (tunables, never typed in).

Each node carries one ghost bit `out` ("handed out by `ObtainObjectAux`, not yet given back to `ReleaseObjectAux`"); the C++
code has no such bit (a node in use merely has `_nextIndex == INVALID_NODE_INDEX`), it exists to state the invariants.
Counters are `Nat`: the `uint32` range and `SaturatingUnsignedAdd(_maxPoolSize, N)` are not modelled (assumption
`maxPool + N < 2^32`); allocation failure (`new ObjectSlab` returning NULL) is not modelled.
-/

namespace Muscle.Conc.Pool

/-- `ObjectNode` bookkeeping: `_nextIndex` (`none` = `INVALID_NODE_INDEX`) + ghost `out` -/
structure Node where
  next : Option Nat
  out  : Bool
  deriving DecidableEq, Repr

/-- `ObjectSlab`: identity (allocation serial number), the node array, `_firstFreeNodeIndex`, `_numNodesInUse` -/
structure Slab where
  id    : Nat
  nodes : List Node
  first : Option Nat
  inUse : Nat
  deriving DecidableEq, Repr

/-- `ObjectSlab::ObjectSlab(pool)`: `InitializeObjectNode(&_nodes[i], i)` for i = 0 … N-1 pushes every node on the free list,
so the list is N-1 → N-2 → … → 0 -/
def newSlab (N id : Nat) : Slab :=
  { id := id
    nodes := (List.range N).map fun i => { next := if i = 0 then none else some (i - 1), out := false }
    first := if N = 0 then none else some (N - 1)
    inUse := 0 }

/-- `ObjectSlab::ObtainObjectNode()` + `ObjectSlabData::PopObjectNode` (`none` iff `HasAvailableNodes()` is false) -/
def Slab.pop (s : Slab) : Option (Nat × Slab) :=
  match s.first with
  | none => none
  | some i =>
    some (i, { s with first := (s.nodes.getD i ⟨none, false⟩).next, inUse := s.inUse + 1,
                      nodes := s.nodes.set i { next := none, out := true } })

/-- `ObjectSlab::ReleaseObjectNode(node)` = `ObjectSlabData::PushObjectNode` -/
def Slab.push (s : Slab) (i : Nat) : Slab :=
  { s with nodes := s.nodes.set i { next := s.first, out := false }, first := some i, inUse := s.inUse - 1 }

/-- the members of `ObjectPool` guarded by `_mutex` (+ `nextSlab`, the serial number of the next `new ObjectSlab`) -/
structure PoolSt where
  N        : Nat
  maxPool  : Nat
  cur      : Nat          -- `_curPoolSize`
  slabs    : List Slab    -- `_firstSlab` … `_lastSlab`
  nextSlab : Nat
  deriving Repr

def PoolSt.init (N maxPool : Nat) : PoolSt := { N := N, maxPool := maxPool, cur := 0, slabs := [], nextSlab := 0 }

/-- `RemoveFromSlabList()` for the slab with identity `sid` -/
def eraseSlab (l : List Slab) (sid : Nat) : List Slab := l.filter fun s => s.id ≠ sid

/-- what `ObtainObjectAux` hands out: slab identity, node index, and whether a new slab was allocated -/
structure Got where
  sid   : Nat
  idx   : Nat
  fresh : Bool
  deriving DecidableEq, Repr

/-- the `else` branch of `ObtainObjectAux()`: `new ObjectSlab(this)`, take its first node, prepend (or append when N = 1) -/
def obtainFresh (p : PoolSt) : PoolSt × Got :=
  let s := newSlab p.N p.nextSlab
  match s.pop with
  | some (i, s') =>
    ({ p with slabs := if s'.first.isSome then s' :: p.slabs else p.slabs ++ [s'],
              cur := p.cur + p.N - 1, nextSlab := p.nextSlab + 1 }, ⟨s.id, i, true⟩)
  | none => (p, ⟨s.id, 0, true⟩)   -- N = 0 cannot happen (`NUM_OBJECTS_PER_SLAB ≥ 1`)

/-- `ObjectPool::ObtainObjectAux()` (called with `_mutex` held) -/
def obtain (p : PoolSt) : PoolSt × Got :=
  match p.slabs with
  | s :: rest =>
    match s.pop with
    | some (i, s') =>
      -- "Move _firstSlab out of the way (to the end of the slab list) for next time"
      ({ p with slabs := if s'.first.isNone ∧ rest ≠ [] then rest ++ [s'] else s' :: rest, cur := p.cur - 1 }, ⟨s.id, i, false⟩)
    | none => obtainFresh p
  | [] => obtainFresh p

/-- `ObjectPool::ReleaseObjectAux(obj)` (called with `_mutex` held); the second component is the slab to delete
outside the critical section -/
def release (p : PoolSt) (sid i : Nat) : PoolSt × Option Slab :=
  match p.slabs.find? (fun s => s.id = sid) with
  | none => (p, none)   -- the object does not belong to this pool (never reached)
  | some s =>
    let s' := s.push i
    if p.cur + 1 > p.maxPool + p.N ∧ s'.inUse = 0 then
      ({ p with cur := p.cur + 1 - p.N, slabs := eraseSlab p.slabs sid }, some s')
    else
      -- `if (objSlab != _firstSlab) {RemoveFromSlabList(); PrependToSlabList();}` — either way the slab ends up first
      ({ p with cur := p.cur + 1, slabs := s' :: eraseSlab p.slabs sid }, none)

/-- free list of a slab as a list of indices, following `_nextIndex` from `_firstFreeNodeIndex` (bounded by `fuel`) -/
def freeList (nodes : List Node) : Nat → Option Nat → List Nat
  | 0, _ => []
  | _, none => []
  | fuel + 1, some i => i :: freeList nodes fuel ((nodes.getD i ⟨none, false⟩).next)

end Muscle.Conc.Pool
