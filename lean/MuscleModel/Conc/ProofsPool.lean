import MuscleModel.Conc.Pool

/-!
# Invariant of the `ObjectPool` bookkeeping (lemmas for C10)

`PoolInv p`: every listed slab has `N` nodes, its free list (the chain of `_nextIndex` from `_firstFreeNodeIndex`) is a
duplicate-free list of exactly the nodes that are not handed out, its length plus `_numNodesInUse` is `N`; slab
identities are distinct and older than `nextSlab`; `_curPoolSize` is the number of free nodes of the listed slabs.
`obtain_spec` / `release_spec` say that `ObtainObjectAux` / `ReleaseObjectAux` keep the invariant and flip exactly one
`out` bit — the interface the reference-count proofs use.
-/

namespace Muscle.Conc.Pool

/-- `Chain nodes first fl`: following `_nextIndex` from `first` visits exactly the list `fl` and ends in INVALID -/
def Chain (nodes : List Node) : Option Nat → List Nat → Prop
  | first, [] => first = none
  | first, i :: rest => first = some i ∧ ∃ nd, nodes[i]? = some nd ∧ Chain nodes nd.next rest

/-- number of handed-out nodes -/
def outCount : List Node → Nat
  | [] => 0
  | nd :: r => (if nd.out then 1 else 0) + outCount r

structure SlabOK (N : Nat) (s : Slab) : Prop where
  len : s.nodes.length = N
  cnt : s.inUse = outCount s.nodes
  fl : ∃ fl : List Nat, Chain s.nodes s.first fl ∧ fl.Nodup ∧ (∀ i, i ∈ fl ↔ ∃ nd, s.nodes[i]? = some nd ∧ nd.out = false) ∧
        fl.length + s.inUse = N

def freeCount (N : Nat) : List Slab → Nat
  | [] => 0
  | s :: r => (N - s.inUse) + freeCount N r

structure PoolInv (p : PoolSt) : Prop where
  npos : 0 < p.N
  slabs : ∀ s ∈ p.slabs, SlabOK p.N s
  ids : (p.slabs.map (·.id)).Nodup
  old : ∀ s ∈ p.slabs, s.id < p.nextSlab
  cur : p.cur = freeCount p.N p.slabs

/-- the ghost bit of node `i` of the listed slab `sid` (false for unlisted slabs and indices out of range) -/
def outBit (p : PoolSt) (sid i : Nat) : Bool :=
  match p.slabs.find? (fun s => s.id = sid) with
  | some s => (s.nodes.getD i ⟨none, false⟩).out
  | none => false

/-- slab `sid` was allocated earlier and is no longer (or not yet again — identities are never reused) on the slab list -/
def Unlisted (p : PoolSt) (sid : Nat) : Prop := sid < p.nextSlab ∧ ∀ x ∈ p.slabs, x.id ≠ sid

theorem init_poolInv (N maxPool : Nat) (hN : 0 < N) : PoolInv (PoolSt.init N maxPool) :=
  ⟨hN, by simp [PoolSt.init], by simp [PoolSt.init], by simp [PoolSt.init], by simp [PoolSt.init, freeCount]⟩


/-! ## one slab -/

theorem outCount_set {l : List Node} {i : Nat} {nd x : Node} (h : l[i]? = some nd) :
    outCount (l.set i x) + (if nd.out then 1 else 0) = outCount l + (if x.out then 1 else 0) := by
  induction l generalizing i with
  | nil => simp at h
  | cons z r ih =>
    cases i with
    | zero => simp at h; subst h; simp [outCount]; omega
    | succ i => simp at h; have := ih h; simp [outCount]; omega

theorem outCount_zero {l : List Node} (h : outCount l = 0) {i : Nat} {nd : Node} (hi : l[i]? = some nd) : nd.out = false := by
  induction l generalizing i with
  | nil => simp at hi
  | cons z r ih =>
    simp only [outCount] at h
    cases i with
    | zero =>
      simp at hi; subst hi
      cases hz : z.out with
      | false => rfl
      | true => rw [hz] at h; simp at h
    | succ i => simp at hi; exact ih (by omega) hi

theorem chain_set {nodes : List Node} {first : Option Nat} {fl : List Nat} {i : Nat} {x : Node} (hi : i ∉ fl)
    (h : Chain nodes first fl) : Chain (nodes.set i x) first fl := by
  induction fl generalizing first with
  | nil => exact h
  | cons j rest ih =>
    obtain ⟨h1, nd, h2, h3⟩ := h
    simp only [List.mem_cons, not_or] at hi
    refine ⟨h1, nd, ?_, ih hi.2 h3⟩
    rw [List.getElem?_set]; simp [hi.1, h2]

/-- the free list of a fresh slab: N-1, N-2, …, 0 -/
def down : Nat → List Nat
  | 0 => []
  | n + 1 => n :: down n

theorem mem_down {n i : Nat} : i ∈ down n ↔ i < n := by
  induction n with
  | zero => simp [down]
  | succ n ih => simp [down, ih]; omega

theorem nodup_down (n : Nat) : (down n).Nodup := by
  induction n with
  | zero => simp [down]
  | succ n ih => simp only [down, List.nodup_cons]; exact ⟨by rw [mem_down]; omega, ih⟩

theorem length_down (n : Nat) : (down n).length = n := by
  induction n with
  | zero => rfl
  | succ n ih => simp [down, ih]

def freshNodes (N : Nat) : List Node := (List.range N).map fun i => { next := if i = 0 then none else some (i - 1), out := false }

theorem freshNodes_get {N i : Nat} (h : i < N) : (freshNodes N)[i]? = some { next := if i = 0 then none else some (i - 1), out := false } := by
  simp [freshNodes, List.getElem?_map, List.getElem?_range h]

theorem freshNodes_out {N i : Nat} {nd : Node} (h : (freshNodes N)[i]? = some nd) : nd.out = false ∧ i < N := by
  simp only [freshNodes, List.getElem?_map] at h
  cases hr : (List.range N)[i]? with
  | none => rw [hr] at h; cases h
  | some j =>
    rw [hr] at h; simp at h; subst h
    have : i < (List.range N).length := by
      rcases List.getElem?_eq_some_iff.mp hr with ⟨hl, _⟩; exact hl
    exact ⟨rfl, by simpa using this⟩

theorem chain_fresh (N : Nat) : ∀ k, k ≤ N → Chain (freshNodes N) (if k = 0 then none else some (k - 1)) (down k) := by
  intro k
  induction k with
  | zero => intro _; rfl
  | succ k ih =>
    intro hk
    refine ⟨by simp, _, freshNodes_get (by omega), ?_⟩
    simpa using ih (by omega)

theorem outCount_fresh (N : Nat) : outCount (freshNodes N) = 0 := by
  have : ∀ l : List Nat, outCount (l.map fun i => ({ next := if i = 0 then none else some (i - 1), out := false } : Node)) = 0 := by
    intro l; induction l with
    | nil => rfl
    | cons a r ih => simp [outCount, ih]
  exact this _

theorem newSlab_ok (N id : Nat) : SlabOK N (newSlab N id) := by
  refine ⟨by simp [newSlab], by simp only [newSlab]; exact (outCount_fresh N).symm, down N, ?_, nodup_down N, ?_, by simp [newSlab, length_down]⟩
  · have := chain_fresh N N (Nat.le_refl _)
    simpa [newSlab, freshNodes] using this
  · intro i
    rw [mem_down]
    constructor
    · intro hi; exact ⟨_, freshNodes_get hi, rfl⟩
    · rintro ⟨nd, h1, _⟩; exact (freshNodes_out h1).2

theorem pop_ok {N : Nat} {s s' : Slab} {i : Nat} (h : SlabOK N s) (hp : s.pop = some (i, s')) :
    SlabOK N s' ∧ s'.inUse = s.inUse + 1 ∧ s.inUse < N ∧ i < N ∧ s'.id = s.id ∧ s'.nodes = s.nodes.set i ⟨none, true⟩ ∧
    (∃ nd, s.nodes[i]? = some nd ∧ nd.out = false) := by
  obtain ⟨hlen, hcnt, fl, hch, hnd, hiff, hl⟩ := h
  unfold Slab.pop at hp
  cases hf : s.first with
  | none => rw [hf] at hp; cases hp
  | some j =>
    rw [hf] at hp
    simp only [Option.some.injEq, Prod.mk.injEq] at hp
    obtain ⟨rfl, rfl⟩ := hp
    cases fl with
    | nil => simp [Chain, hf] at hch
    | cons k rest =>
      obtain ⟨h1, nd, h2, h3⟩ := hch
      rw [hf] at h1; cases h1
      have hjn : j < N := by
        rcases List.getElem?_eq_some_iff.mp h2 with ⟨hl', _⟩; omega
      have hout : nd.out = false := by
        obtain ⟨nd', h4, h5⟩ := (hiff j).mp (by simp)
        rw [h2] at h4; cases h4; exact h5
      have hjr : j ∉ rest := (List.nodup_cons.mp hnd).1
      have hgd : (s.nodes.getD j ⟨none, false⟩).next = nd.next := by simp [List.getD_eq_getElem?_getD, h2]
      simp only [List.length_cons] at hl
      refine ⟨⟨by simp [hlen], ?_, rest, ?_, (List.nodup_cons.mp hnd).2, ?_, by simp only; omega⟩, rfl, by omega, hjn, rfl, rfl, nd, h2, hout⟩
      · have := outCount_set (x := ⟨none, true⟩) h2
        simp only [hout] at this; simp at this; simp only; omega
      · simp only [hgd]; exact chain_set hjr h3
      · intro m
        simp only [List.getElem?_set]
        by_cases hm : j = m
        · subst hm; simp [hjr, show j < s.nodes.length by omega]
        · have := hiff m
          simp only [List.mem_cons] at this
          simp only [hm, if_false]
          rw [← this]; constructor
          · intro h; exact Or.inr h
          · rintro (h | h)
            · exact absurd h.symm hm
            · exact h

theorem pop_none {N : Nat} {s : Slab} (h : SlabOK N s) (hp : s.pop = none) : s.inUse = N := by
  obtain ⟨hlen, hcnt, fl, hch, hnd, hiff, hl⟩ := h
  unfold Slab.pop at hp
  cases hf : s.first with
  | some j => rw [hf] at hp; cases hp
  | none =>
    cases fl with
    | nil => simpa using hl
    | cons k rest => obtain ⟨h1, _⟩ := hch; rw [hf] at h1; cases h1

theorem push_ok {N : Nat} {s : Slab} {i : Nat} {nd : Node} (h : SlabOK N s) (hi : s.nodes[i]? = some nd) (ho : nd.out = true) :
    SlabOK N (s.push i) ∧ (s.push i).inUse + 1 = s.inUse ∧ s.inUse ≤ N := by
  obtain ⟨hlen, hcnt, fl, hch, hnd, hiff, hl⟩ := h
  have hif : i ∉ fl := by
    intro hm; obtain ⟨nd', h1, h2⟩ := (hiff i).mp hm
    rw [hi] at h1; cases h1; rw [ho] at h2; cases h2
  have hoc := outCount_set (x := ⟨s.first, false⟩) hi
  simp only [ho] at hoc; simp at hoc
  have hilt : i < s.nodes.length := by
    rcases List.getElem?_eq_some_iff.mp hi with ⟨hl', _⟩; exact hl'
  refine ⟨⟨by simp [Slab.push, hlen], by simp only [Slab.push]; omega, i :: fl, ?_, List.nodup_cons.mpr ⟨hif, hnd⟩, ?_, by simp only [Slab.push, List.length_cons]; omega⟩,
    by simp only [Slab.push]; omega, by omega⟩
  · refine ⟨rfl, ⟨s.first, false⟩, by simp [Slab.push, hilt], ?_⟩
    exact chain_set hif hch
  · intro m
    simp only [Slab.push, List.getElem?_set, List.mem_cons]
    by_cases hm : i = m
    · subst hm; simp [hilt]
    · simp only [hm, if_false]
      rw [← hiff m]; constructor
      · rintro (h | h)
        · exact absurd h.symm hm
        · exact h
      · intro h; exact Or.inr h

end Muscle.Conc.Pool
