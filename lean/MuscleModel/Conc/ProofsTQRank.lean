import MuscleModel.Conc.ProofsTQInv

/-! # C11 lemmas, part 4: a ranking function — every step of every thread, under every schedule, decreases `rank` -/

namespace Muscle.Conc.TQ
open Muscle.Conc

/-- work a queued Message will cause in the internal thread -/
def wI : Item → Nat
  | none => 2
  | some m => 6 * m.nrep + 8

def qW : List Item → Nat
  | [] => 0
  | it :: q => wI it + qW q

theorem qW_append (q : List Item) (it : Item) : qW (q ++ [it]) = qW q + wI it := by
  induction q with
  | nil => simp [qW]
  | cons a q ih => simp [qW, ih]; omega

def opCost : Op → Nat
  | .start => 14
  | .send m => wI (some m) + 7
  | .poll => 5 | .recv => 5 | .recvT => 5
  | .shutdown _ => 11
  | .join => 2

def progCost : List Op → Nat
  | [] => 0
  | op :: p => opCost op + progCost p

def pcCost : UPc → Nat
  | .idle => 1
  | .sendLock it tj => wI it + 7 + (if tj then 2 else 0)
  | .sendSig tj => 6 + (if tj then 2 else 0)
  | .startSig => 5
  | .recvLock .poll => 2
  | .recvLock _ => 4
  | .recvWait _ => 3
  | .join _ => 2
  | .done => 0

def thCost (th : UTh) : Nat := pcCost th.pc + progCost th.prog

def ipcRank : IPc → Nat
  | .exited => 0
  | .recvWait => 0
  | .recvLock false => 1
  | .recvLock true => 2
  | .replyLock _ j k => 6 * (k + 1 - j) + 8
  | .replySig _ j k => 6 * (k + 1 - j) + 6
  | .entrySig => 5
  | .entryLock => 6
  | .start => 7

def sumTh : Nat → (Tid → UTh) → Nat
  | 0, _ => 0
  | n + 1, th => sumTh n th + thCost (th n)

/-- remaining work of the whole configuration -/
def rank (c : Cfg) : Nat :=
  sumTh c.n c.th + qW c.sh.ci.queue + 3 * c.sh.ci.sig + 3 * c.sh.co.sig + ipcRank c.ipc

theorem sumTh_upd_ge (n : Nat) (th : Tid → UTh) (t : Tid) (v : UTh) (h : n ≤ t) : sumTh n (upd th t v) = sumTh n th := by
  induction n with
  | zero => rfl
  | succ n ih =>
    have h1 : n ≠ t := fun e => by rw [e] at h; exact Nat.not_succ_le_self _ h
    simp only [sumTh, upd, h1, if_false]
    rw [← ih (Nat.le_of_succ_le h)]

theorem sumTh_upd (n : Nat) (th : Tid → UTh) (t : Tid) (v : UTh) (h : t < n) :
    sumTh n (upd th t v) + thCost (th t) = sumTh n th + thCost v := by
  induction n with
  | zero => exact absurd h (Nat.not_lt_zero _)
  | succ n ih =>
    by_cases hn : t = n
    · subst hn
      simp only [sumTh, upd_same]
      rw [sumTh_upd_ge t th t v (Nat.le_refl _)]
      omega
    · have h1 : t < n := Nat.lt_of_le_of_ne (Nat.le_of_lt_succ h) hn
      have h2 : n ≠ t := fun e => hn e.symm
      simp only [sumTh, upd, h2, if_false]
      have := ih h1
      omega

theorem thCost_nextOp_le (prog : List Op) : thCost (nextOp prog) ≤ progCost prog + 1 := by
  unfold nextOp
  split
  · simp [thCost, pcCost, progCost]
  · simp [thCost, pcCost, progCost, opCost]
  · simp [thCost, pcCost, progCost]; omega

/-- a user step decreases the rank when it decreases the thread's own share plus the shared share -/
theorem rank_user {c : Cfg} {t : Tid} (ht : t < c.n) (s' : Sh) (v : UTh) (i' : IPc)
    (h : thCost v + qW s'.ci.queue + 3 * s'.ci.sig + 3 * s'.co.sig + ipcRank i' <
         thCost (c.th t) + qW c.sh.ci.queue + 3 * c.sh.ci.sig + 3 * c.sh.co.sig + ipcRank c.ipc) :
    rank { c with sh := s', th := upd c.th t v, ipc := i' } < rank c := by
  have := sumTh_upd c.n c.th t v ht
  simp only [rank]
  omega

theorem thCost_afterSend_le (tj : Bool) (p : List Op) :
    pcCost (afterSend tj p).1.pc + progCost (afterSend tj p).1.prog ≤ progCost p + (if tj then 2 else 1) := by
  cases tj
  · simpa [afterSend_false, thCost] using thCost_nextOp_le p
  · simp [afterSend_true, pcCost]; omega

theorem pcCost_recvLock_ge (w : Wk) : 2 ≤ pcCost (.recvLock w) := by cases w <;> simp [pcCost]
theorem pcCost_recvLock_le (w : Wk) : pcCost (.recvLock w) ≤ 4 := by cases w <;> simp [pcCost]

theorem rank_stepUser {c c' : Cfg} {t : Tid} {o : Out} (ht : t < c.n) (hs : stepUser c t = some (c', o)) :
    rank c' < rank c := by
  have hth : thCost (c.th t) = pcCost (c.th t).pc + progCost (c.th t).prog := rfl
  have g1 := signal_toInt_sig_le c.sh
  have g2 := drain_toOwn_sig_le c.sh
  have g3 : (signal c.sh .toInt).co = c.sh.co := signal_toInt_co c.sh
  have g4 : (signal c.sh .toInt).ci.queue = c.sh.ci.queue := signal_ci_queue c.sh _
  have g5 : (drain c.sh .toOwn).ci = c.sh.ci := drain_toOwn_ci c.sh
  have g6 : (flush c.sh .toOwn).ci = c.sh.ci := flush_toOwn_ci c.sh
  have g7 : (flush c.sh .toOwn).co.sig = 0 := flush_toOwn_sig c.sh
  have g8 := pcCost_recvLock_ge
  have g9 := pcCost_recvLock_le
  have fin : ∀ {c' : Cfg} {o : Out} (hs : stepUser c t = some (c', o)), (∀ tj, (c.th t).pc ≠ .sendSig tj) → (∀ it tj, (c.th t).pc ≠ .sendLock it tj) → rank c' < rank c := by
    intro c' o hs hn1 hn2
    unfold stepUser at hs
    simp only at hs
    repeat' split at hs
    all_goals first
      | (simp at hs; done)
      | (simp only [Option.some.injEq, Prod.mk.injEq] at hs; obtain ⟨rfl, _⟩ := hs)
    all_goals first
      | (rename_i h; exact absurd h (hn1 _))
      | (rename_i h _; exact absurd h (hn1 _))
      | (rename_i h _ _; exact absurd h (hn2 _ _))
      | skip
    all_goals apply rank_user ht
    all_goals simp only [thCost] at *
    all_goals first
      | (simp_all [pcCost, progCost, opCost, qW_append, ipcRank, wI]; done)
      | (grind [thCost_nextOp_le, thCost, pcCost, progCost, opCost, qW_append, ipcRank, wI, Chan.push, Chan.pop]; done)
  have e1 : ∀ it tj, pcCost (UPc.sendLock it tj) = wI it + 7 + (if tj then 2 else 0) := fun _ _ => rfl
  have e2 : ∀ tj, pcCost (UPc.sendSig tj) = 6 + (if tj then 2 else 0) := fun _ => rfl
  have e3 : pcCost (UPc.join true) = 2 := rfl
  have g0 := thCost_nextOp_le (c.th t).prog
  simp only [thCost] at g0
  cases hpc : (c.th t).pc with
  | sendLock it tj =>
    cases tj <;> simp only [stepUser, hpc, afterSend_true, afterSend_false] at hs <;> split at hs <;>
      (simp only [Option.some.injEq, Prod.mk.injEq] at hs; obtain ⟨rfl, _⟩ := hs; apply rank_user ht;
       simp only [thCost, hpc, e1, e2, e3, push_queue, push_sig, qW_append]) <;> simp <;> omega
  | sendSig tj =>
    cases tj <;> simp only [stepUser, hpc, afterSend_true, afterSend_false] at hs <;>
      (simp only [Option.some.injEq, Prod.mk.injEq] at hs; obtain ⟨rfl, _⟩ := hs; apply rank_user ht;
       simp only [thCost, hpc, e1, e2, e3, g3, g4]) <;> simp <;> omega
  | _ => exact fin hs (by simp [hpc]) (by simp [hpc])

theorem rank_timeoutUser {c c' : Cfg} {t : Tid} {o : Out} (ht : t < c.n) (hs : timeoutUser c t = some (c', o)) :
    rank c' < rank c := by
  unfold timeoutUser at hs
  simp only at hs
  split at hs
  · rename_i hpc
    have hc' : c' = { c with th := upd c.th t (nextOp (c.th t).prog) } := by
      cases hm : c.sh.mode <;> simp [hm] at hs <;> exact hs.2.1.symm
    subst hc'
    apply rank_user ht
    have g0 := thCost_nextOp_le (c.th t).prog
    have e1 : pcCost (UPc.recvWait .timed) = 3 := rfl
    simp only [thCost, hpc, e1] at *
    omega
  · simp at hs

theorem rank_int {c : Cfg} (s' : Sh) (i' : IPc)
    (h : qW s'.ci.queue + 3 * s'.ci.sig + 3 * s'.co.sig + ipcRank i' <
         qW c.sh.ci.queue + 3 * c.sh.ci.sig + 3 * c.sh.co.sig + ipcRank c.ipc) :
    rank { c with sh := s', ipc := i' } < rank c := by
  simp only [rank]; omega

theorem intLoop_sig_eq (s : Sh) : (intLoop s).1.ci.sig = if s.mode = .sock ∧ s.alloc = true then 0 else s.ci.sig := by
  simp only [intLoop, drain]
  cases hm : s.mode <;> simp [Sh.setCh, Sh.ch]
  split <;> simp_all

theorem ipcRank_recvLock (b : Bool) : 1 ≤ ipcRank (.recvLock b) ∧ ipcRank (.recvLock b) ≤ 2 := by cases b <;> simp [ipcRank]

theorem rank_stepInt {c c' : Cfg} {o : Out} (hi : Inv c) (hs : stepInt c = some (c', o)) : rank c' < rank c := by
  have g1 := fun s => intLoop_sig_le s
  have g2 := fun s => intLoop_co s
  have g3 := fun s => intLoop_ci_queue s
  have g4 := signal_toOwn_sig_le c.sh
  have g5 := signal_toOwn_ci c.sh
  have g6 := drain_toInt_co c.sh
  have g7 := flush_toInt_co c.sh
  have g8 := flush_toInt_sig c.sh
  have g9 := drain_ci_queue c.sh .toInt
  have g10 := flush_ci_queue c.sh .toInt
  have g11 : c.ipc = .recvWait → c.sh.mode = .sock → (drain c.sh .toInt).ci.sig = 0 := by
    intro hw hm
    exact drain_toInt_sig_zero c.sh hm ((hi.alive (by simp [hw])).2.2 hm).1
  unfold stepInt at hs
  simp only at hs
  repeat' split at hs
  all_goals first
    | (simp at hs; done)
    | (simp only [Option.some.injEq, Prod.mk.injEq] at hs; obtain ⟨rfl, _⟩ := hs)
  all_goals apply rank_int
  all_goals first
    | (simp_all [ipcRank, qW, wI]; done)
    | (grind [ipcRank, qW, wI, Chan.push, Chan.pop, intLoop_sig_le, intLoop_co, intLoop_ci_queue]; done)
    | skip
  all_goals (try simp only [intLoop_ci_queue, intLoop_co, intLoop_pc, intLoop_sig_eq, signal_toOwn_ci, signal_mode, signal_alloc, pop_queue, pop_sig, push_sig])
  all_goals (try simp only [*])
  all_goals (try simp only [qW, wI])
  all_goals first
    | (have := ipcRank_recvLock; simp only [ipcRank] at *; (try split) <;> (try split) <;> grind; done)


/-- **Every step of every thread decreases the rank** (in a configuration satisfying the safety invariant, hence in every
reachable one): no execution is infinite, whatever the schedule. -/
theorem step_decreases {c c' : Cfg} {e : Ev} {o : Out} (hi : Inv c) (hs : step c e = some (c', o)) : rank c' < rank c := by
  unfold step at hs
  cases e with
  | run t =>
    simp only at hs
    split at hs
    · rename_i htn; exact rank_stepUser htn hs
    · split at hs
      · exact rank_stepInt hi hs
      · simp at hs
  | timeout t =>
    simp only at hs
    split at hs
    · rename_i htn; exact rank_timeoutUser htn hs
    · simp at hs

/-- the join step of `ShutdownInternalThread(true)`: afterwards the thread is not running and the owner has left the call -/
theorem join_step {c c' : Cfg} {o : Out} (hi : Inv c) (hj : (c.th 0).pc = .join true) (hs : step c (.run 0) = some (c', o)) :
    c'.sh.running = false ∧ (c'.th 0).pc ≠ .join true := by
  have hn : 0 < c.n := by
    apply Classical.byContradiction
    intro h
    have := hi.outside 0 (Nat.le_of_not_lt h)
    simp [hj] at this
  have hx := nextOp_harmless (c.th 0).prog
  simp only [step, hn, if_true, stepUser, hj] at hs
  split at hs
  · rename_i hr
    simp only [Option.some.injEq, Prod.mk.injEq] at hs; obtain ⟨rfl, _⟩ := hs
    exact ⟨hr, by simpa using hx.2.1.2⟩
  · split at hs
    · simp only [Option.some.injEq, Prod.mk.injEq] at hs; obtain ⟨rfl, _⟩ := hs
      exact ⟨rfl, by simpa using hx.2.1.2⟩
    · simp at hs

end Muscle.Conc.TQ
