import MuscleModel.Conc.Sem

/-!
# Model of `muscle::ReaderWriterMutex` (system/ReaderWriterMutex.{h,cpp}) as an interleaving machine

Granularity: one step = one critical section of `_stateMutex` (plus the thread-local code up to the next blocking
point), or one return from `WaitCondition::Wait()`.  Each API call is split exactly where the C++ code releases
`_stateMutex`: `mg.UnlockEarly()` before `Wait()`, the re-lock (`DECLARE_MUTEXGUARD`) after it, and — in the upgrade
path of `LockReadWriteAux` — between the calls it makes (`UnlockReadOnly()` × n, `LockReadWriteAux()`,
`LockReadOnly()` × n).

Representation.  `_executingThreads` is the key list `exec` (insertion order, as the muscle `Hashtable` keeps it) plus
the two count functions `ro`/`rw` (0 for absent keys); `_waitingReaderThreads`/`_waitingWriterThreads` are the FIFO key
lists `waitR`/`waitW` (the counts stored in waiting entries are always 0/0 and are not represented); `pend t` is the
pending-notification counter of the `WaitCondition` currently held by waiting thread `t`; `pool` is the free list of
`_waitConditionPool` as far as it matters: the *stale counters* of recycled wait conditions, most recently released
first (`RefCountableWaitCondition::operator=` is a deliberate no-op, so a recycled wait condition keeps the
notifications nobody consumed; never-used pool objects have counter 0).  Counters are `Nat` (the `uint32` range and the
saturating add of `WaitCondition::IncreaseNotificationsCount` are not modelled); `B_OUT_OF_MEMORY` branches are not
modelled.
-/

namespace Muscle.Conc.RW
open Muscle.Conc

/-- how an acquisition may wait: `MUSCLE_TIME_NEVER` / time-out 0 (`TryLock…`) / a finite time stamp -/
inductive Mode where
  | block | try_ | timed
  deriving DecidableEq, Repr

/-- the public API calls -/
inductive Op where
  | lockR (m : Mode) | lockW (m : Mode) | unlockR | unlockW
  deriving DecidableEq, Repr

/-- `status_t` as far as the property distinguishes it: `B_NO_ERROR`, `B_TIMED_OUT`, `B_LOCK_FAILED` -/
inductive St where
  | ok | timedOut | failed
  deriving DecidableEq, Repr

/-- shared state: the member variables of `ReaderWriterMutex` guarded by `_stateMutex` -/
structure Mx where
  prefW : Bool          -- `_preferWriters`
  exec  : List Tid      -- keys of `_executingThreads`
  ro    : Tid → Nat     -- `_readOnlyRecurseCount` of the entry (0 if absent)
  rw    : Tid → Nat     -- `_readWriteRecurseCount` of the entry (0 if absent)
  total : Nat           -- `_totalReadWriteRecurseCount`
  waitR : List Tid      -- keys of `_waitingReaderThreads`
  waitW : List Tid      -- keys of `_waitingWriterThreads`
  pend  : Tid → Nat     -- `_pendingNotificationsCount` of the wait condition held by waiting thread t
  pool  : List Nat      -- stale counters of the recycled wait conditions in `_waitConditionPool`

def Mx.init (prefW : Bool) : Mx :=
  { prefW := prefW, exec := [], ro := fun _ => 0, rw := fun _ => 0, total := 0, waitR := [], waitW := [], pend := fun _ => 0, pool := [] }

/-- `IsOkayForReaderThreadsToExecuteNow()` -/
def okReaders (s : Mx) : Bool := decide (s.total = 0 ∧ (s.prefW = false ∨ s.waitW = []))

/-- `IsOkayForWriterThreadToExecuteNow(tid)` -/
def okWriter (s : Mx) (t : Tid) : Bool := decide (s.exec = [] ∧ (s.waitW = [] ∨ s.waitW.head? = some t))

/-- `NotifyAllReaderThreads()` -/
def notifyAllReaders (s : Mx) : Mx := { s with pend := fun u => if u ∈ s.waitR then s.pend u + 1 else s.pend u }

/-- `NotifyNextWriterThread()` -/
def notifyNextWriter (s : Mx) : Mx :=
  match s.waitW with
  | [] => s
  | w :: _ => { s with pend := upd s.pend w (s.pend w + 1) }

/-- `NotifySomeWaitingThreads()` (called only with nobody executing) -/
def notifySome (s : Mx) : Mx :=
  if s.waitR ≠ [] ∧ s.waitW ≠ [] then (if s.prefW then notifyNextWriter s else notifyAllReaders s)
  else if s.waitR ≠ [] then notifyAllReaders s
  else if s.waitW ≠ [] then notifyNextWriter s
  else s

/-- `MaybeNotifySomeWaitingThreads()` -/
def maybeNotify (s : Mx) : Mx := if s.total = 0 ∧ s.exec = [] then notifySome s else s

/-- `GetOrAllocateThreadState(waitingTable, tid, true)`: the new entry takes a wait condition from the pool -/
def obtainWC (s : Mx) (t : Tid) : Mx := { s with pend := upd s.pend t (s.pool.headD 0), pool := s.pool.tail }

/-- the last reference to the wait condition goes away at the end of the call (`tempWCRef`): back to the pool, counter and all -/
def releaseWC (s : Mx) (t : Tid) : Mx := { s with pool := s.pend t :: s.pool, pend := upd s.pend t 0 }

/-- `Wait()` returning because a notification was pending: `FlushNotificationsCount` -/
def flushWC (s : Mx) (t : Tid) : Mx := { s with pend := upd s.pend t 0 }

/-- outcome of one critical section of an acquisition -/
inductive Res where
  | done (st : St)       -- the call returns
  | wait                 -- `_stateMutex` released, the thread goes (back) to `Wait()`
  | upgrade (n : Nat)    -- `LockReadWriteAux` found the read-only→read/write case; n = saved `_readOnlyRecurseCount`
  deriving DecidableEq, Repr

/-- first critical section of `LockReadOnlyAux(optTimeoutTimestamp)` -/
def lockRStart (s : Mx) (t : Tid) (m : Mode) : Mx × Res :=
  if t ∈ s.exec then ({ s with ro := upd s.ro t (s.ro t + 1) }, .done .ok)
  else if okReaders s = false then
    if m = .try_ then (s, .done .timedOut)
    else (obtainWC { s with waitR := s.waitR ++ [t] } t, .wait)
  else ({ s with exec := s.exec ++ [t], ro := upd s.ro t 1 }, .done .ok)

/-- `GetOrAllocateThreadState(_executingThreads, tid, false)` on the key list: an existing entry is reused -/
def addKey (l : List Tid) (t : Tid) : List Tid := if t ∈ l then l else l ++ [t]

/-- critical section of `LockReadOnlyAux` after `Wait()` returned (`notified = false`: it returned `B_TIMED_OUT`).
On success the executing entry is assigned the waiting entry's counts (always 0/0) plus one read lock. -/
def lockRWoke (s : Mx) (t : Tid) (notified : Bool) : Mx × Res :=
  if notified = false then (releaseWC (maybeNotify { s with waitR := s.waitR.erase t }) t, .done .timedOut)
  else if okReaders s then
    (releaseWC { s with exec := addKey s.exec t, ro := upd s.ro t 1, rw := upd s.rw t 0, waitR := s.waitR.erase t } t, .done .ok)
  else (s, .wait)

/-- first critical section of `LockReadWriteAux(optTimeoutTimestamp)` -/
def lockWStart (s : Mx) (t : Tid) (m : Mode) : Mx × Res :=
  if t ∈ s.exec then
    if s.rw t > 0 ∨ s.exec.length = 1 then ({ s with rw := upd s.rw t (s.rw t + 1), total := s.total + 1 }, .done .ok)
    else if m = .try_ then (s, .done .timedOut)   -- `if (optTimeoutTimestamp == 0) return B_TIMED_OUT;` (fix d881489: before any read lock is dropped)
    else (s, .upgrade (s.ro t))
  else if okWriter s t then ({ s with exec := s.exec ++ [t], rw := upd s.rw t 1, total := s.total + 1 }, .done .ok)
  else if m = .try_ then (s, .done .timedOut)
  else (obtainWC { s with waitW := s.waitW ++ [t] } t, .wait)

/-- critical section of `LockReadWriteAux` after `Wait()` returned -/
def lockWWoke (s : Mx) (t : Tid) (notified : Bool) : Mx × Res :=
  if notified = false then (releaseWC (maybeNotify { s with waitW := s.waitW.erase t }) t, .done .timedOut)
  else if okWriter s t then
    (releaseWC { s with exec := s.exec ++ [t], rw := upd s.rw t 1, total := s.total + 1, waitW := s.waitW.erase t } t, .done .ok)
  else (s, .wait)

/-- `UnlockReadOnlyAux()` -/
def unlockR (s : Mx) (t : Tid) : Mx × St :=
  if t ∉ s.exec ∨ s.ro t = 0 then (s, .failed)
  else if s.ro t - 1 = 0 ∧ s.rw t = 0 then
    (maybeNotify { s with ro := upd s.ro t (s.ro t - 1), exec := s.exec.erase t }, .ok)
  else ({ s with ro := upd s.ro t (s.ro t - 1) }, .ok)

/-- the count updates of `UnlockReadWriteAux()`: one write lock less; the entry goes away when both counts are 0 -/
def dropWrite (s : Mx) (t : Tid) : Mx :=
  { s with rw := upd s.rw t (s.rw t - 1), total := s.total - 1,
           exec := if s.rw t - 1 = 0 ∧ s.ro t = 0 then s.exec.erase t else s.exec }

/-- `UnlockReadWriteAux()` -/
def unlockW (s : Mx) (t : Tid) : Mx × St :=
  if t ∉ s.exec ∨ s.rw t = 0 then (s, .failed)
  else if (dropWrite s t).total = 0 then
    if s.ro t > 0 then (notifyAllReaders (dropWrite s t), .ok)   -- `tsReadOnlyRecurseCount > 0`
    else if (dropWrite s t).exec = [] then (notifySome (dropWrite s t), .ok)
    else (dropWrite s t, .ok)
  else (dropWrite s t, .ok)

/-! ## Thread control -/

/-- where a thread is inside the call it is executing (each constructor = one park point of the real thread) -/
inductive Pc where
  | rStart (m : Mode)                   -- at the first `Lock(_stateMutex)` of `LockReadOnlyAux(m)`
  | rWait  (m : Mode)                   -- in `Wait()` of `LockReadOnlyAux`
  | rWoke  (m : Mode) (notified : Bool) -- `Wait()` has returned; at the re-lock of `_stateMutex`
  | wStart (m : Mode)
  | wWait  (m : Mode)
  | wWoke  (m : Mode) (notified : Bool)
  | uR                                  -- at `Lock(_stateMutex)` of `UnlockReadOnlyAux`
  | uW
  | done                                -- program finished
  deriving DecidableEq, Repr

/-- progress of the upgrade path of `LockReadWriteAux` (its three loops/calls after `mg.UnlockEarly()`) -/
inductive UStage where
  | drop (k : Nat)              -- k calls of `UnlockReadOnly()` still to return (including the one in progress)
  | lock                        -- inside the recursive `LockReadWriteAux(optTimeoutTimestamp)`
  | retake (k : Nat) (ret : St) -- k calls of the untimed `LockReadOnly()` still to return; `ret` = `lrwRet`
  deriving DecidableEq, Repr

/-- one activation of the upgrade path: saved `readOnlyRecurseCount`, the caller's time-out mode, the stage -/
structure Upg where
  n : Nat
  m : Mode
  stage : UStage
  deriving DecidableEq, Repr

/-- per-thread state: program counter, the API call in progress, the stack of upgrade activations, the calls still to
make, and two ghost counters (successful acquisitions minus successful releases, per mode) -/
structure Th where
  pc   : Pc
  cur  : Op
  ctx  : List Upg
  prog : List Op
  hr   : Nat
  hw   : Nat

structure Cfg where
  mx : Mx
  th : Tid → Th

def startPc : Op → Pc
  | .lockR m => .rStart m
  | .lockW m => .wStart m
  | .unlockR => .uR
  | .unlockW => .uW

/-- begin the next API call of the program (or finish) -/
def nextOp (th : Th) : Th :=
  match th.prog with
  | [] => { th with pc := .done }
  | op :: rest => { th with pc := startPc op, cur := op, prog := rest }

/-- ghost bookkeeping at the return of an API call -/
def account (th : Th) (st : St) : Th :=
  if st = .ok then
    match th.cur with
    | .lockR _ => { th with hr := th.hr + 1 }
    | .lockW _ => { th with hw := th.hw + 1 }
    | .unlockR => { th with hr := th.hr - 1 }
    | .unlockW => { th with hw := th.hw - 1 }
  else th

/-- a (possibly nested) call returned `st`: continue the enclosing upgrade activation, or return from the API call.
The second component is `some st'` iff the API call itself returned. -/
def finish : List Upg → Th → St → Th × Option St
  | [], th, st => (nextOp (account { th with ctx := [] } st), some st)
  | u :: rest, th, st =>
    match u.stage with
    | .drop k =>
      if st ≠ .ok then finish rest th st                                   -- `MRETURN_ON_ERROR(UnlockReadOnly())`
      else if k - 1 > 0 then ({ th with ctx := { u with stage := .drop (k - 1) } :: rest, pc := .uR }, none)
      else ({ th with ctx := { u with stage := .lock } :: rest, pc := .wStart u.m }, none)
    | .lock =>
      if u.n = 0 then finish rest th st
      else ({ th with ctx := { u with stage := .retake u.n st } :: rest, pc := .rStart .block }, none)
    | .retake k ret =>
      if st ≠ .ok then finish rest th st                                   -- error exit (only `B_OUT_OF_MEMORY` in the real code)
      else if k - 1 > 0 then ({ th with ctx := { u with stage := .retake (k - 1) ret } :: rest, pc := .rStart .block }, none)
      else finish rest th ret

/-- install the outcome of a critical section of thread `t` -/
def applyRes (c : Cfg) (t : Tid) (s' : Mx) (r : Res) (waitPc : Pc) (m : Mode) : Cfg × Option St :=
  let th := c.th t
  match r with
  | .done st => let p := finish th.ctx th st; ({ mx := s', th := upd c.th t p.1 }, p.2)
  | .wait => ({ mx := s', th := upd c.th t { th with pc := waitPc } }, none)
  | .upgrade n =>
    if n = 0 then ({ mx := s', th := upd c.th t { th with ctx := { n := 0, m := m, stage := .lock } :: th.ctx, pc := .wStart m } }, none)
    else ({ mx := s', th := upd c.th t { th with ctx := { n := n, m := m, stage := .drop n } :: th.ctx, pc := .uR } }, none)

/-- thread `t` takes one step -/
def stepRun (c : Cfg) (t : Tid) : Option (Cfg × Option St) :=
  let th := c.th t
  match th.pc with
  | .done => none
  | .rStart m => let p := lockRStart c.mx t m; some (applyRes c t p.1 p.2 (.rWait m) m)
  | .rWait m =>
    if c.mx.pend t > 0 then some ({ mx := flushWC c.mx t, th := upd c.th t { th with pc := .rWoke m true } }, none) else none
  | .rWoke m b => let p := lockRWoke c.mx t b; some (applyRes c t p.1 p.2 (.rWait m) m)
  | .wStart m => let p := lockWStart c.mx t m; some (applyRes c t p.1 p.2 (.wWait m) m)
  | .wWait m =>
    if c.mx.pend t > 0 then some ({ mx := flushWC c.mx t, th := upd c.th t { th with pc := .wWoke m true } }, none) else none
  | .wWoke m b => let p := lockWWoke c.mx t b; some (applyRes c t p.1 p.2 (.wWait m) m)
  | .uR => let p := unlockR c.mx t; some (applyRes c t p.1 (.done p.2) .uR .block)
  | .uW => let p := unlockW c.mx t; some (applyRes c t p.1 (.done p.2) .uW .block)

/-- the time-out of `t`'s timed `Wait()` fires (legal only while nothing is pending: a pending notification wins, as
the predicate of `wait_until` does) -/
def stepTimeout (c : Cfg) (t : Tid) : Option (Cfg × Option St) :=
  let th := c.th t
  match th.pc with
  | .rWait .timed => if c.mx.pend t = 0 then some ({ c with th := upd c.th t { th with pc := .rWoke .timed false } }, none) else none
  | .wWait .timed => if c.mx.pend t = 0 then some ({ c with th := upd c.th t { th with pc := .wWoke .timed false } }, none) else none
  | _ => none

def step (c : Cfg) : Ev → Option (Cfg × Option St)
  | .run t => stepRun c t
  | .timeout t => stepTimeout c t

/-- the interleaving machine of one `ReaderWriterMutex` and any number of threads -/
def machine : Machine := { C := Cfg, O := Option St, step := step }

/-- a thread that has nothing to do -/
def Th.idle : Th := { pc := .done, cur := .unlockR, ctx := [], prog := [], hr := 0, hw := 0 }

/-- a thread about to run `prog` -/
def Th.ofProg (prog : List Op) : Th := nextOp { Th.idle with prog := prog }

/-- initial configuration: thread `i` runs `progs[i]`, every other thread id is idle -/
def Cfg.init (prefW : Bool) (progs : List (List Op)) : Cfg :=
  { mx := Mx.init prefW, th := fun t => match progs[t]? with | some p => Th.ofProg p | none => Th.idle }

end Muscle.Conc.RW
