import MuscleModel.Conc.Sem

/-!
# Model of the Message queues of `muscle::Thread` (system/Thread.{h,cpp}) as an interleaving machine

One `Thread` object, its **owner** (user thread 0), any number of extra **sender** threads (user threads 1 … n-1,
which only call `SendMessageToInternalThread()`), and the **internal thread** that `StartInternalThread()` spawns (a new
incarnation after every restart; incarnation g has thread index `n + g - 1`, as the cooperative scheduler numbers
adopted threads).

Granularity = the park points of `harness/thr.cpp` under `libvh/coop.h`: `Lock(_queueLock)` (one step = the whole
critical section plus the thread-local code up to the next park point), the signal after the unlock
(`SignalAux()`: `MUSCLE_VH_SIG_SEND` resp. `MUSCLE_VH_WC_NOTIFY`), the blocking points (`MUSCLE_VH_SIG_WAIT` =
the `select()` of `WaitForNextMessageAux`, `MUSCLE_VH_WC_WAIT`, `MUSCLE_VH_THREAD_JOIN`), `MUSCLE_VH_THREAD_START`,
and an explicit yield point of the harness in front of every owner call that does not begin with `Lock(_queueLock)`.

Both signalling mechanisms are modelled (`Mode.sock`: `_useMessagingSockets = true`, a byte on a socket pair that is
re-created by every start and closed by `CloseSockets()`; `Mode.cond`: the two `WaitCondition`s, which persist).
`sig` is the number of unread signal bytes resp. the `_pendingNotificationsCount`.  Counters are `Nat`; allocation
failure (`B_OUT_OF_MEMORY` of `AddTail`, socket creation, thread spawn) is not modelled.
-/

namespace Muscle.Conc.TQ
open Muscle.Conc

/-- `_useMessagingSockets`: socket pair (`sock`) or wait conditions (`cond`) -/
inductive Mode where
  | sock | cond
  deriving DecidableEq, Repr

/-- a non-NULL Message as far as the harness distinguishes it: an id, and the number of replies the internal thread
sends back when it receives it -/
structure Msg where
  id : Nat
  nrep : Nat
  deriving DecidableEq, Repr

/-- a `MessageRef`; `none` = the NULL reference that asks the internal thread to exit -/
abbrev Item := Option Msg

/-- which queue: `toInt` = `_threadData[MESSAGE_THREAD_INTERNAL]`, `toOwn` = `_threadData[MESSAGE_THREAD_OWNER]` -/
inductive Dir where
  | toInt | toOwn
  deriving DecidableEq, Repr

/-- one direction: `ThreadSpecificData::_messages`, the receiver's pending wake-up signals, and two ghost
sequences (everything ever appended / everything ever removed) -/
structure Chan where
  queue : List Item
  sig   : Nat
  sent  : List Item
  recvd : List Item

/-- the member variables of the `Thread` object that the threads share -/
structure Sh where
  mode    : Mode
  ci      : Chan    -- owner (and senders) → internal thread
  co      : Chan    -- internal thread → owner
  alloc   : Bool    -- `_messageSocketsAllocated` (meaningful in `sock` mode)
  closedO : Bool    -- the internal thread has `Reset()` its socket: the owner's socket reads EOF
  running : Bool    -- `_threadRunning`
  gen     : Nat     -- number of internal threads spawned so far

def Sh.ch (s : Sh) : Dir → Chan
  | .toInt => s.ci
  | .toOwn => s.co

def Sh.setCh (s : Sh) (d : Dir) (c : Chan) : Sh :=
  match d with
  | .toInt => { s with ci := c }
  | .toOwn => { s with co := c }

/-- `_messages.AddTail(ref)` inside the critical section of `SendMessageAux` -/
def Chan.push (c : Chan) (it : Item) : Chan := { c with queue := c.queue ++ [it], sent := c.sent ++ [it] }

/-- `_messages.RemoveHead(ref)` inside the critical section of `WaitForNextMessageAux` (on a non-empty queue) -/
def Chan.pop (c : Chan) (it : Item) (rest : List Item) : Chan := { c with queue := rest, recvd := c.recvd ++ [it] }

/-- `SignalAux()` toward the receiver of direction `d`.  `cond`: `Notify()`.  `sock`: one byte is sent iff the socket pair
is allocated and the sending side's descriptor is still open (`SignalOwner()` writes to the internal thread's socket). -/
def signal (s : Sh) (d : Dir) : Sh :=
  match s.mode, d with
  | .cond, d => s.setCh d { s.ch d with sig := (s.ch d).sig + 1 }
  | .sock, .toInt => if s.alloc then { s with ci := { s.ci with sig := s.ci.sig + 1 } } else s
  | .sock, .toOwn => if s.alloc ∧ s.closedO = false then { s with co := { s.co with sig := s.co.sig + 1 } } else s

/-- the `recv()` at the top of `WaitForNextMessageAux`: absorbs every pending signal byte (`sock` mode, descriptor valid) -/
def drain (s : Sh) (d : Dir) : Sh :=
  match s.mode with
  | .cond => s
  | .sock => if s.alloc then s.setCh d { s.ch d with sig := 0 } else s

/-- `WaitCondition::Wait()` returning because notifications were pending: `FlushNotificationsCount` -/
def flush (s : Sh) (d : Dir) : Sh := s.setCh d { s.ch d with sig := 0 }

/-- the public calls a user thread can make -/
inductive Op where
  | start                  -- `StartInternalThread()`
  | send (m : Msg)         -- `SendMessageToInternalThread(msg)`
  | poll                   -- `GetNextReplyFromInternalThread(ref, 0)`
  | recv                   -- `GetNextReplyFromInternalThread(ref, MUSCLE_TIME_NEVER)`
  | recvT                  -- `GetNextReplyFromInternalThread(ref, <finite time>)`
  | shutdown (wait : Bool) -- `ShutdownInternalThread(wait)`
  | join                   -- `WaitForInternalThreadToExit()`
  deriving DecidableEq, Repr

def Op.isSend : Op → Bool
  | .send _ => true
  | _ => false

/-- the `wakeupTime` argument of `WaitForNextMessageAux`: 0 / `MUSCLE_TIME_NEVER` / finite -/
inductive Wk where
  | poll | block | timed
  deriving DecidableEq, Repr

/-- park points of a user thread -/
inductive UPc where
  | idle                                   -- at the harness's yield point in front of the next (non-send) call
  | sendLock (it : Item) (thenJoin : Bool) -- `SendMessageAux(INTERNAL)`: at `Lock(_queueLock)`; `thenJoin`: inside `ShutdownInternalThread(true)`
  | sendSig (thenJoin : Bool)              -- after the unlock with `sendNotification = true`, at `SignalInternalThread()`
  | startSig                               -- `StartInternalThread()`: thread spawned, `needsInitialSignal = true`, at `SignalInternalThread()`
  | recvLock (w : Wk)                      -- `WaitForNextMessageAux(OWNER, w)`: at `Lock(_queueLock)`
  | recvWait (w : Wk)                      -- queue was empty: at `select()` (`SIG_WAIT`) resp. `Wait()` (`WC_WAIT`)
  | join (shut : Bool)                     -- `WaitForInternalThreadToExit()`: at `join`; `shut` (ghost): called by `ShutdownInternalThread(true)`
  | done
  deriving DecidableEq, Repr

/-- park points of the internal thread -/
inductive IPc where
  | start                          -- `InternalThreadEntryAux()`: first action of the new thread
  | entryLock                      -- at `Lock(ownerTSD._queueLock)` ("are reply Messages already queued?")
  | entrySig                       -- HOLDING `ownerTSD._queueLock`, at `SignalOwner()`
  | recvLock (poll : Bool)         -- `WaitForNextMessageAux(INTERNAL)`: at `Lock(_queueLock)`; `poll`: re-entered with time-out 0 after `select()`
  | recvWait                       -- queue was empty: at `select()` resp. `Wait()` (`MUSCLE_TIME_NEVER`)
  | replyLock (id j k : Nat)       -- `SendMessageAux(OWNER)` for reply j of k to Message id: at `Lock(_queueLock)`
  | replySig (id j k : Nat)        -- after the unlock with `sendNotification = true`, at `SignalOwner()`
  | exited                         -- no live internal thread (never started, or it reached the end of `InternalThreadEntryAux`)
  deriving DecidableEq, Repr

/-- what a step reports -/
inductive Out where
  | quiet                 -- no call completed, nothing received
  | ok | err | timedOut   -- the call in progress returned `B_NO_ERROR` / another error / `B_TIMED_OUT`
  | noop                  -- `ShutdownInternalThread()` on a thread that is not running
  | got (it : Item)       -- the owner's receive returned this Message / the internal thread received it
  deriving DecidableEq, Repr

structure UTh where
  pc   : UPc
  prog : List Op

structure Cfg where
  sh  : Sh
  n   : Nat          -- number of user threads (0 = owner, 1 … n-1 = senders)
  th  : Tid → UTh
  ipc : IPc

/-- the reply the harness's internal thread sends: reply j to Message id -/
def replyMsg (id j : Nat) : Msg := { id := id * 10 + j, nrep := 0 }

/-- the call returned: go to the park point in front of the next call.  A send begins with `Lock(_queueLock)`, every
other call is preceded by a yield point. -/
def nextOp (prog : List Op) : UTh :=
  match prog with
  | [] => { pc := .done, prog := [] }
  | .send m :: rest => { pc := .sendLock (some m) false, prog := rest }
  | op :: rest => { pc := .idle, prog := op :: rest }

/-- `SendMessageAux` has returned inside … -/
def afterSend (thenJoin : Bool) (prog : List Op) : UTh × Out :=
  if thenJoin then ({ pc := .join true, prog := prog }, .quiet) else (nextOp prog, .ok)

/-- the internal thread goes back to the top of its loop: `WaitForNextMessageFromOwner(MUSCLE_TIME_NEVER)` up to its `Lock` -/
def intLoop (s : Sh) : Sh × IPc := (drain s .toInt, .recvLock false)

/-- a user thread takes one step -/
def stepUser (c : Cfg) (t : Tid) : Option (Cfg × Out) :=
  let th := c.th t
  let s := c.sh
  let fin (s' : Sh) (p : UTh × Out) : Option (Cfg × Out) := some ({ c with sh := s', th := upd c.th t p.1 }, p.2)
  match th.pc with
  | .done => none
  | .idle =>
    match th.prog with
    | [] => fin s ({ pc := .done, prog := [] }, .quiet)
    | .send m :: rest => fin s ({ pc := .sendLock (some m) false, prog := rest }, .quiet)
    | .start :: rest =>
      -- `StartInternalThread()`
      if s.running then fin s (nextOp rest, .err) else
      let needs := s.ci.queue ≠ []      -- `needsInitialSignal`
      let s1 : Sh := match s.mode with
        | .sock => { s with alloc := true, closedO := false, ci := { s.ci with sig := 0 }, co := { s.co with sig := 0 } }  -- a fresh socket pair
        | .cond => s
      let s2 : Sh := { s1 with running := true, gen := s1.gen + 1 }
      if needs then some ({ c with sh := s2, th := upd c.th t { pc := .startSig, prog := rest }, ipc := .start }, .quiet)
      else some ({ c with sh := s2, th := upd c.th t (nextOp rest), ipc := .start }, .ok)
    | .poll :: rest => fin (drain s .toOwn) ({ pc := .recvLock .poll, prog := rest }, .quiet)
    | .recv :: rest => fin (drain s .toOwn) ({ pc := .recvLock .block, prog := rest }, .quiet)
    | .recvT :: rest => fin (drain s .toOwn) ({ pc := .recvLock .timed, prog := rest }, .quiet)
    | .shutdown w :: rest =>
      if s.running then fin s ({ pc := .sendLock none w, prog := rest }, .quiet) else fin s (nextOp rest, .noop)
    | .join :: rest => fin s ({ pc := .join false, prog := rest }, .quiet)
  | .sendLock it tj =>
    -- critical section of `SendMessageAux(MESSAGE_THREAD_INTERNAL)`
    let ci := s.ci.push it
    if ci.queue.length = 1 then fin { s with ci := ci } ({ pc := .sendSig tj, prog := th.prog }, .quiet)
    else fin { s with ci := ci } (afterSend tj th.prog)
  | .sendSig tj => fin (signal s .toInt) (afterSend tj th.prog)
  | .startSig => fin (signal s .toInt) (nextOp th.prog, .ok)
  | .recvLock w =>
    -- critical section of `WaitForNextMessageAux(MESSAGE_THREAD_OWNER)`; the internal thread may be holding the lock
    if c.ipc = .entrySig then none else
    match s.co.queue with
    | it :: rest => fin { s with co := s.co.pop it rest } (nextOp th.prog, .got it)
    | [] =>
      if w = .poll then fin s (nextOp th.prog, .timedOut)
      else if s.mode = .sock ∧ s.alloc = false then fin s (nextOp th.prog, .err)   -- `msgfd < 0`: `B_BAD_OBJECT`
      else fin s ({ pc := .recvWait w, prog := th.prog }, .quiet)
  | .recvWait w =>
    match s.mode with
    | .sock =>
      -- `select()` returns: re-enter with time-out 0 (absorb the bytes, go to the lock)
      if s.co.sig > 0 ∨ s.closedO then fin (drain s .toOwn) ({ pc := .recvLock .poll, prog := th.prog }, .quiet) else none
    | .cond =>
      if s.co.sig > 0 then fin (flush s .toOwn) ({ pc := .recvLock w, prog := th.prog }, .quiet) else none
  | .join _ =>
    -- `WaitForInternalThreadToExit()`
    if s.running = false then fin s (nextOp th.prog, .err)
    else if c.ipc = .exited then
      fin { s with running := false, alloc := (if s.mode = .sock then false else s.alloc) } (nextOp th.prog, .ok)
    else none

/-- the time-out of a user thread's timed wait fires (legal only while nothing is pending) -/
def timeoutUser (c : Cfg) (t : Tid) : Option (Cfg × Out) :=
  let th := c.th t
  match th.pc with
  | .recvWait .timed =>
    let pending : Bool := match c.sh.mode with
      | .sock => decide (c.sh.co.sig > 0) || c.sh.closedO
      | .cond => decide (c.sh.co.sig > 0)
    if pending then none else some ({ c with th := upd c.th t (nextOp th.prog) }, .timedOut)
  | _ => none

/-- the internal thread takes one step -/
def stepInt (c : Cfg) : Option (Cfg × Out) :=
  let s := c.sh
  match c.ipc with
  | .exited => none
  | .start => some ({ c with ipc := .entryLock }, .quiet)
  | .entryLock =>
    if s.co.queue ≠ [] then some ({ c with ipc := .entrySig }, .quiet)
    else let p := intLoop s; some ({ c with sh := p.1, ipc := p.2 }, .quiet)
  | .entrySig => let p := intLoop (signal s .toOwn); some ({ c with sh := p.1, ipc := p.2 }, .quiet)
  | .recvLock poll =>
    match s.ci.queue with
    | [] =>
      if poll then let p := intLoop s; some ({ c with sh := p.1, ipc := p.2 }, .quiet)   -- `B_TIMED_OUT`: "ignoring it"
      else some ({ c with ipc := .recvWait }, .quiet)
    | none :: rest =>
      -- `MessageReceivedFromOwner(NULL)` = `B_SHUTTING_DOWN`: leave the loop, close the internal socket, exit
      some ({ c with sh := { s with ci := s.ci.pop none rest, closedO := (if s.mode = .sock then true else s.closedO) }, ipc := .exited }, .got none)
    | some m :: rest =>
      let s1 := { s with ci := s.ci.pop (some m) rest }
      if m.nrep = 0 then let p := intLoop s1; some ({ c with sh := p.1, ipc := p.2 }, .got (some m))
      else some ({ c with sh := s1, ipc := .replyLock m.id 1 m.nrep }, .got (some m))
  | .recvWait =>
    if s.ci.sig > 0 then
      match s.mode with
      | .sock => some ({ c with sh := drain s .toInt, ipc := .recvLock true }, .quiet)
      | .cond => some ({ c with sh := flush s .toInt, ipc := .recvLock false }, .quiet)
    else none
  | .replyLock id j k =>
    let co := s.co.push (some (replyMsg id j))
    if co.queue.length = 1 then some ({ c with sh := { s with co := co }, ipc := .replySig id j k }, .quiet)
    else if j < k then some ({ c with sh := { s with co := co }, ipc := .replyLock id (j + 1) k }, .quiet)
    else let p := intLoop { s with co := co }; some ({ c with sh := p.1, ipc := p.2 }, .quiet)
  | .replySig id j k =>
    let s1 := signal s .toOwn
    if j < k then some ({ c with sh := s1, ipc := .replyLock id (j + 1) k }, .quiet)
    else let p := intLoop s1; some ({ c with sh := p.1, ipc := p.2 }, .quiet)

/-- thread index of the live internal thread (meaningful when `gen > 0`) -/
def Cfg.intTid (c : Cfg) : Tid := c.n + c.sh.gen - 1

def step (c : Cfg) : Ev → Option (Cfg × Out)
  | .run t => if t < c.n then stepUser c t else if c.sh.gen > 0 ∧ t = c.intTid then stepInt c else none
  | .timeout t => if t < c.n then timeoutUser c t else none

/-- the interleaving machine of one `Thread` object -/
def machine : Machine := { C := Cfg, O := Out, step := step }

def Chan.empty : Chan := { queue := [], sig := 0, sent := [], recvd := [] }

def Sh.init (mode : Mode) : Sh :=
  { mode := mode, ci := Chan.empty, co := Chan.empty, alloc := false, closedO := false, running := false, gen := 0 }

/-- initial configuration: user thread `i` runs `progs[i]` -/
def Cfg.init (mode : Mode) (progs : List (List Op)) : Cfg :=
  { sh := Sh.init mode, n := progs.length,
    th := fun t => match progs[t]? with | some p => nextOp p | none => { pc := .done, prog := [] },
    ipc := .exited }

end Muscle.Conc.TQ
