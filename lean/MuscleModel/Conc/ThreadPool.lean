import MuscleModel.Conc.Sem

/-!
# Model of `muscle::ThreadPool` (system/ThreadPool.{h,cpp}) as an interleaving machine

Threads.  *User threads* `0 … nU-1` run programs of API calls (`IThreadPoolClient::SendMessageToThreadPool`,
`IThreadPoolClient::SetThreadPool(pool)` = register, `SetThreadPool(NULL)` = unregister, `ThreadPool::Shutdown()`).
*Pool threads* are the internal threads of the `ThreadPoolThread` objects; pool thread with `_threadID = j` is
scheduler thread `nU + j` (the cooperative scheduler numbers adopted threads in creation order).

Granularity: one step = what a thread does from one park point of `harness/tp.cpp` to the next.  Park points:
* every `Lock(_poolLock)` — so each critical section of `_poolLock` (including `DispatchPendingMessagesUnsafe()`
  called inside it) is one atomic step; `_poolLock` is free whenever every thread is parked (no park point lies inside
  a critical section), so these steps are always enabled;
* the `WaitCondition::Wait()` of `UnregisterClient` (enabled iff a notification is pending);
* `Thread::WaitForInternalThreadToExit()` in `Shutdown` (enabled iff the target thread reached its end);
* the pool thread's start, its wait for the next Message from its owner, and one explicit yield *inside* the client's
  handler (the harness's `MessageReceivedFromThreadPool` logs "enter", yields, logs "exit");
* one explicit yield at the start of every API call of a user thread (the unlocked read of
  `IThreadPoolClient::_threadPool` happens in that step).

ASSUMPTION (property C11).  The pool thread's own inbox — `Thread::SendMessageToInternalThread` /
`WaitForNextMessageFromOwner`, i.e. queue + signalling socket — is abstracted as a FIFO with reliable wake-up: the
waiting pool thread is enabled iff its inbox is non-empty.  Under the cooperative scheduler this is exact (no park point
lies between `RemoveHead` failing and the `SIG_WAIT` hook, and every `AddTail` onto an empty queue signals); under
pre-emptive scheduling it is what property C11 establishes.

Representation.  A muscle `Hashtable` keeps insertion order; each table is a key list plus a value function that has
its default value outside the keys (every removal resets the value).  `_availableThreads` is kept REVERSED (`availR`,
head = the last-inserted = "hottest" thread that `GetLastValue()` picks).  Not modelled: allocation failures
(`B_OUT_OF_MEMORY` branches, `StartInternalThread` failing), `uint32` wrap of `_threadIDCounter`.
Ghost state (not in the C++ object): `submitted`, `handled`, `dropped` per client.
-/

namespace Muscle.Conc.TP
open Muscle.Conc

abbrev Client := Nat
abbrev MsgId := Nat
abbrev PTid := Nat

/-- the API calls of a user thread -/
inductive Op where
  | sub (c : Client) (m : MsgId)   -- `client[c].SendMessageToThreadPool(msg m)`
  | reg (c : Client)               -- `client[c].SetThreadPool(&pool)`
  | unreg (c : Client)             -- `client[c].SetThreadPool(NULL)`
  | shutdown                       -- `pool.Shutdown()` (what `~ThreadPool()` and `FlushCachedObjects()` call)
  deriving DecidableEq, Repr

/-- entries of a pool thread's inbox: the dummy Message that announces a batch, or the NULL ref = "go away" -/
inductive Item where
  | batch | quit
  deriving DecidableEq, Repr

/-- program counter of a pool thread (each constructor except `unborn`/`exited` = one park point) -/
inductive PPc where
  | unborn                 -- no such thread yet
  | start                  -- `THREAD_START`: created, has not run yet
  | idle                   -- in `WaitForNextMessageFromOwner`, inbox was empty
  | handler                -- inside `MessageReceivedFromThreadPool` for the head of `_internalQueue`
  | finLock (c : Client)   -- at `Lock(_poolLock)` of `ThreadFinishedProcessingClientMessages(_threadID, c)`
  | exited
  deriving DecidableEq, Repr

/-- a `ThreadPoolThread`: `_currentClient`, `_internalQueue`, and the inbox of its `Thread` base -/
structure PTh where
  pc : PPc
  cur : Option Client
  queue : List MsgId
  inbox : List Item
  deriving DecidableEq, Repr

/-- program counter of a user thread -/
inductive UPc where
  | opStart                                   -- yield before the next API call
  | subLock (c : Client) (m : MsgId)          -- at `Lock(_poolLock)` of `ThreadPool::SendMessageToThreadPool`
  | regLock (c : Client)                      -- at `Lock(_poolLock)` of `RegisterClient`
  | unregLock1 (c : Client)                   -- at the first `Lock(_poolLock)` of `UnregisterClient`
  | unregWait (c : Client)                    -- in `waitCondition.Wait()` of `UnregisterClient`
  | unregLock2 (c : Client)                   -- at the "final cleanup" `Lock(_poolLock)` of `UnregisterClient`
  | sdLock                                    -- at the first `Lock(_poolLock)` of `Shutdown`
  | sdSwap (second : Bool) (nA total : Nat)   -- at `Lock(_poolLock)` of `ShutdownThreadsInTableWithoutDeadlocking(second ? _activeThreads : _availableThreads)`
  | sdJoin (second : Bool) (nA total n : Nat) (T : PTid) (rest : List PTid)   -- in `WaitForInternalThreadToExit()` of pool thread T; `rest` = rest of `temp`, n = its size
  | sdFinal (total : Nat)                     -- at the last `Lock(_poolLock)` of `Shutdown`
  | done
  deriving DecidableEq, Repr

structure UTh where
  pc : UPc
  prog : List Op     -- calls still to make; the head is the call in progress
  notif : Nat        -- pending notifications of the `WaitCondition` on this thread's stack (`UnregisterClient`)
  deriving DecidableEq, Repr

/-- the member variables of `ThreadPool` guarded by `_poolLock` -/
structure Pool where
  maxT : Nat                    -- `_maxThreadCount`
  shut : Bool                   -- `_shuttingDown`
  idc : Nat                     -- `_threadIDCounter`
  availR : List PTid            -- keys of `_availableThreads`, last-inserted first
  active : List PTid            -- keys of `_activeThreads`
  regK : List Client            -- keys of `_registeredClients`
  flag : Client → Bool          -- its values ("a Thread is currently handling them"), false outside the keys
  pendK : List Client           -- keys of `_pendingMessages`
  pend : Client → List MsgId    -- its values, [] outside the keys
  defK : List Client            -- keys of `_deferredMessages`
  defr : Client → List MsgId
  waitK : List Client           -- keys of `_waitingForCompletion`
  waitT : Client → Tid          -- the user thread whose stack holds the registered `WaitCondition`

/-- what a step lets the harness observe -/
inductive Out where
  | subOk | subErr | regOk | regNoop | unregOk | unregNoop
  | shut (n : Nat)                    -- `Shutdown()` returned n
  | enter (c : Client) (m : MsgId)    -- handler of client c entered for Message m
  | exit (c : Client) (m : MsgId)
  | threadExit                        -- the pool thread's entry function returned
  deriving DecidableEq, Repr

structure Cfg where
  p : Pool
  pth : PTid → PTh
  uth : Tid → UTh
  cptr : Client → Bool                 -- `IThreadPoolClient::_threadPool != NULL`
  nU : Nat                             -- number of user threads
  submitted : Client → List MsgId      -- ghost: Messages accepted (`B_NO_ERROR`) per client, in order
  handled : Client → List MsgId        -- ghost: Messages whose handler call has returned
  dropped : Client → List MsgId        -- ghost: Messages removed unhandled (`Shutdown`, `UnregisterClient` cleanup)

/-- `Hashtable::GetOrPut` / `Put` on the key list -/
def addKey (l : List Nat) (k : Nat) : List Nat := if k ∈ l then l else l ++ [k]

/-- `Hashtable::Remove` on the key list (keys are unique) -/
def remKey (l : List Nat) (k : Nat) : List Nat := l.filter (fun x => x != k)

def PTh.fresh : PTh := { pc := .start, cur := none, queue := [], inbox := [] }
def PTh.absent : PTh := { pc := .unborn, cur := none, queue := [], inbox := [] }

/-- `DoesClientHaveMessagesOutstandingUnsafe(client)` -/
def outstanding (p : Pool) (k : Client) : Bool := p.flag k || !(p.pend k).isEmpty || !(p.defr k).isEmpty

/-- the demand-allocation branch of `DispatchPendingMessagesUnsafe` -/
def spawnIfNeeded (c : Cfg) : Cfg :=
  if c.p.availR = [] ∧ c.p.active.length < c.p.maxT then
    { c with p := { c.p with idc := c.p.idc + 1, availR := [c.p.idc] }, pth := upd c.pth c.p.idc PTh.fresh }
  else c

/-- hand client k's pending queue to pool thread T: `MoveToTable(…, _activeThreads)`, `SendMessagesToInternalThread`,
`*isBeingHandled = true`, `_pendingMessages.RemoveFirst()` (`rest` = the other available threads) -/
def assign (c : Cfg) (k : Client) (T : PTid) (rest : List PTid) : Cfg :=
  { c with p := { c.p with availR := rest, active := c.p.active ++ [T], flag := upd c.p.flag k true, pend := upd c.p.pend k [] },
           pth := upd c.pth T { (c.pth T) with cur := some k, queue := c.p.pend k, inbox := (c.pth T).inbox ++ [.batch] } }

/-- the `while(_pendingMessages.HasItems())` loop of `DispatchPendingMessagesUnsafe`, over the keys of `_pendingMessages` in table order -/
def dispatchLoop : List Client → Cfg → Cfg
  | [], c => { c with p := { c.p with pendK := [] } }
  | k :: ks, c =>
    if k ∈ c.p.regK ∧ c.p.pend k ≠ [] then
      match (spawnIfNeeded c).p.availR with
      | T :: rest => dispatchLoop ks (assign (spawnIfNeeded c) k T rest)
      | [] => { c with p := { c.p with pendK := k :: ks } }    -- all pool threads are busy: `break`
    else dispatchLoop ks { c with p := { c.p with pend := upd c.p.pend k [] } }   -- "nothing to do for this client!?"

/-- `DispatchPendingMessagesUnsafe()` -/
def dispatch (c : Cfg) : Cfg := if c.p.shut then c else dispatchLoop c.p.pendK c

/-- `_deferredMessages.GetOrPut(client)->AddTail(msg)` (+ ghost: the Message counts as submitted) -/
def addDefr (c : Cfg) (k : Client) (m : MsgId) : Cfg :=
  { c with p := { c.p with defK := addKey c.p.defK k, defr := upd c.p.defr k (c.p.defr k ++ [m]) },
           submitted := upd c.submitted k (c.submitted k ++ [m]) }

/-- `_pendingMessages.GetOrPut(client)->AddTail(msg)` (+ ghost: the Message counts as submitted) -/
def addPend (c : Cfg) (k : Client) (m : MsgId) : Cfg :=
  { c with p := { c.p with pendK := addKey c.p.pendK k, pend := upd c.p.pend k (c.p.pend k ++ [m]) },
           submitted := upd c.submitted k (c.submitted k ++ [m]) }

/-- critical section of `ThreadPool::SendMessageToThreadPool(client k, msg m)`; the Bool is "returned B_NO_ERROR" -/
def subCS (c : Cfg) (k : Client) (m : MsgId) : Cfg × Bool :=
  if k ∉ c.p.regK then (c, false)
  else if c.p.flag k then (addDefr c k m, true)
  else if c.p.pend k = [] then (dispatch (addPend c k m), true)   -- `mq->GetNumItems() == 1`
  else (addPend c k m, true)

/-- the hand-back part of `ThreadFinishedProcessingClientMessages`: clear the flag, promote the deferred queue
(`pendingMessages->SwapContents(*deferredMessages)`) -/
def handBack (c : Cfg) (k : Client) : Cfg :=
  if k ∈ c.p.regK then
    if c.p.defr k ≠ [] then
      { c with p := { c.p with flag := upd c.p.flag k false, pendK := addKey c.p.pendK k,
                               pend := upd c.p.pend k (c.p.defr k), defr := upd c.p.defr k (c.p.pend k) } }
    else { c with p := { c.p with flag := upd c.p.flag k false } }
  else c

/-- `_activeThreads.MoveToTable(threadID, _availableThreads)` -/
def release (c : Cfg) (T : PTid) : Cfg :=
  if T ∈ c.p.active then { c with p := { c.p with active := remKey c.p.active T, availR := T :: c.p.availR } } else c

/-- the tail of `ThreadFinishedProcessingClientMessages`: wake the user thread blocked in `UnregisterClient(k)` -/
def wake (c : Cfg) (k : Client) : Cfg :=
  if outstanding c.p k = false ∧ k ∈ c.p.waitK then
    { c with uth := upd c.uth (c.p.waitT k) { (c.uth (c.p.waitT k)) with notif := (c.uth (c.p.waitT k)).notif + 1 },
             p := { c.p with waitK := remKey c.p.waitK k } }
  else c

/-- critical section of `ThreadFinishedProcessingClientMessages(T, k)` -/
def finishCS (c : Cfg) (T : PTid) (k : Client) : Cfg :=
  if c.p.shut then c else wake (dispatch (release (handBack c k) T)) k

/-- the pool thread's loop from `WaitForNextMessageFromOwner` to its next park point:
`InternalThreadEntry` / `ThreadPoolThread::MessageReceivedFromOwner` -/
def fetch (c : Cfg) (T : PTid) : Cfg × List Out :=
  let th := c.pth T
  match th.inbox with
  | [] => ({ c with pth := upd c.pth T { th with pc := .idle } }, [])
  | .quit :: rest => ({ c with pth := upd c.pth T { th with pc := .exited, inbox := rest } }, [.threadExit])
  | .batch :: rest =>
    match th.cur, th.queue with
    | some k, m :: _ => ({ c with pth := upd c.pth T { th with pc := .handler, inbox := rest } }, [.enter k m])
    | some k, [] => ({ c with pth := upd c.pth T { th with pc := .finLock k, cur := none, inbox := rest } }, [])
    | none, _ => ({ c with pth := upd c.pth T { th with pc := .exited, inbox := rest } }, [])   -- MASSERT(_currentClient != NULL): never (theorem `no_assert`)

/-- one step of pool thread T -/
def stepPool (c : Cfg) (T : PTid) : Option (Cfg × List Out) :=
  let th := c.pth T
  match th.pc with
  | .unborn | .exited => none
  | .start => some (fetch c T)
  | .idle => if th.inbox = [] then none else some (fetch c T)
  | .handler =>
    match th.cur, th.queue with
    | some k, m :: m2 :: q =>   -- handler returns, `RemoveHead`, next handler call
      some ({ c with pth := upd c.pth T { th with queue := m2 :: q }, handled := upd c.handled k (c.handled k ++ [m]) }, [.exit k m, .enter k m2])
    | some k, [m] =>            -- last Message of the batch: `_currentClient = NULL`, on to `ThreadFinishedProcessingClientMessages`
      some ({ c with pth := upd c.pth T { th with queue := [], cur := none, pc := .finLock k }, handled := upd c.handled k (c.handled k ++ [m]) }, [.exit k m])
    | _, _ => none
  | .finLock k =>   -- the critical section, then straight on to the next `WaitForNextMessageFromOwner` (the thread has left the lock wait: pc is reset first; `finishCS` never reads it and `fetch` always overwrites it)
    some (fetch (finishCS { c with pth := upd c.pth T { th with pc := .idle } } T k) T)

/-- the call in progress returned: on to the next one -/
def advance (u : UTh) : UTh :=
  match u.prog.tail with
  | [] => { u with pc := .done, prog := [] }
  | r => { u with pc := .opStart, prog := r }

/-- the `for` loop of `ShutdownThreadsInTableWithoutDeadlocking` up to its next park point: `ShutdownInternalThread()`
sends the NULL ref and joins; after the last thread the caller goes on to the next table / round / the final section -/
def sdNext (c : Cfg) (t : Tid) (second : Bool) (nA total n : Nat) : List PTid → Cfg
  | T :: rest =>
    { c with pth := upd c.pth T { (c.pth T) with inbox := (c.pth T).inbox ++ [.quit] },
             uth := upd c.uth t { (c.uth t) with pc := .sdJoin second nA total n T rest } }
  | [] =>
    if second = false then { c with uth := upd c.uth t { (c.uth t) with pc := .sdSwap true n total } }
    else if nA > 0 ∨ n > 0 then { c with uth := upd c.uth t { (c.uth t) with pc := .sdSwap false 0 (total + nA + n) } }
    else { c with uth := upd c.uth t { (c.uth t) with pc := .sdFinal total } }

/-- `iter.GetValue()->Notify()` for every entry of `_waitingForCompletion` -/
def notifyAll : List Client → (Client → Tid) → (Tid → UTh) → (Tid → UTh)
  | [], _, u => u
  | k :: ks, w, u => notifyAll ks w (upd u (w k) { (u (w k)) with notif := (u (w k)).notif + 1 })

/-- ghost: everything still queued for the clients in `ks` counts as dropped -/
def dropAll (p : Pool) (d : Client → List MsgId) : Client → List MsgId :=
  fun k => d k ++ p.pend k ++ p.defr k

/-- one step of user thread t -/
def stepUser (c : Cfg) (t : Tid) : Option (Cfg × List Out) :=
  let u := c.uth t
  match u.pc with
  | .done => none
  | .opStart =>
    match u.prog with
    | [] => none
    | .sub k m :: _ =>
      if c.cptr k then some ({ c with uth := upd c.uth t { u with pc := .subLock k m } }, [])
      else some ({ c with uth := upd c.uth t (advance u) }, [.subErr])              -- `B_BAD_OBJECT`
    | .reg k :: _ =>
      if c.cptr k then some ({ c with uth := upd c.uth t (advance u) }, [.regNoop])
      else some ({ c with cptr := upd c.cptr k true, uth := upd c.uth t { u with pc := .regLock k } }, [])   -- `_threadPool = tp` precedes `RegisterClient`
    | .unreg k :: _ =>
      if c.cptr k then some ({ c with uth := upd c.uth t { u with pc := .unregLock1 k } }, [])
      else some ({ c with uth := upd c.uth t (advance u) }, [.unregNoop])
    | .shutdown :: _ => some ({ c with uth := upd c.uth t { u with pc := .sdLock } }, [])
  | .subLock k m =>
    let r := subCS c k m
    some ({ r.1 with uth := upd r.1.uth t (advance u) }, [if r.2 then .subOk else .subErr])
  | .regLock k =>     -- `RegisterClient`: `_registeredClients.Put(client, false)`
    some ({ c with p := { c.p with regK := addKey c.p.regK k, flag := upd c.p.flag k false }, uth := upd c.uth t (advance u) }, [.regOk])
  | .unregLock1 k =>
    if outstanding c.p k then
      some ({ c with p := { c.p with waitK := addKey c.p.waitK k, waitT := upd c.p.waitT k t }, uth := upd c.uth t { u with pc := .unregWait k } }, [])
    else some ({ c with uth := upd c.uth t { u with pc := .unregLock2 k } }, [])
  | .unregWait k =>
    if u.notif > 0 then some ({ c with uth := upd c.uth t { u with pc := .unregLock2 k, notif := 0 } }, []) else none
  | .unregLock2 k =>  -- "final cleanup", then `_threadPool = NULL` in `SetThreadPool`
    some ({ c with p := { c.p with regK := remKey c.p.regK k, flag := upd c.p.flag k false,
                                    pendK := remKey c.p.pendK k, pend := upd c.p.pend k [],
                                    defK := remKey c.p.defK k, defr := upd c.p.defr k [],
                                    waitK := remKey c.p.waitK k },
                    cptr := upd c.cptr k false,
                    dropped := upd c.dropped k (c.dropped k ++ c.p.pend k ++ c.p.defr k),
                    uth := upd c.uth t (advance u) }, [.unregOk])
  | .sdLock => some ({ c with p := { c.p with shut := true }, uth := upd c.uth t { u with pc := .sdSwap false 0 0 } }, [])
  | .sdSwap second nA total =>
    if second then
      some (sdNext { c with p := { c.p with active := [] } } t true nA total c.p.active.length c.p.active, [])
    else
      some (sdNext { c with p := { c.p with availR := [] } } t false nA total c.p.availR.length c.p.availR.reverse, [])
  | .sdJoin second nA total n T rest =>
    if (c.pth T).pc = .exited then some (sdNext c t second nA total n rest, []) else none
  | .sdFinal total =>
    let ret := total + c.p.regK.length + c.p.pendK.length + c.p.defK.length + c.p.waitK.length
    some ({ c with cptr := fun k => if k ∈ c.p.regK then false else c.cptr k,
                    dropped := dropAll c.p c.dropped,
                    p := { c.p with availR := [], active := [], regK := [], flag := fun _ => false, pendK := [], pend := fun _ => [],
                                    defK := [], defr := fun _ => [], waitK := [] },
                    uth := upd (notifyAll c.p.waitK c.p.waitT c.uth) t (advance (notifyAll c.p.waitK c.p.waitT c.uth t)) }, [.shut ret])

/-- scheduler thread i: user thread i, or pool thread i - nU -/
def step (c : Cfg) : Ev → Option (Cfg × List Out)
  | .run i => if i < c.nU then stepUser c i else stepPool c (i - c.nU)
  | .timeout _ => none      -- no timed wait in this engine

def machine : Machine := { C := Cfg, O := List Out, step := step }

def UTh.ofProg (prog : List Op) : UTh := { pc := if prog = [] then .done else .opStart, prog := prog, notif := 0 }

def Pool.init (maxT : Nat) (regs : List Client) : Pool :=
  { maxT := maxT, shut := false, idc := 0, availR := [], active := [], regK := regs.foldl addKey [], flag := fun _ => false,
    pendK := [], pend := fun _ => [], defK := [], defr := fun _ => [], waitK := [], waitT := fun _ => 0 }

/-- initial configuration: a fresh `ThreadPool(maxT)`, the clients in `regs` registered (sequentially, before any
thread starts), user thread i about to run `progs[i]` -/
def Cfg.init (maxT : Nat) (regs : List Client) (progs : List (List Op)) : Cfg :=
  { p := Pool.init maxT regs, pth := fun _ => PTh.absent,
    uth := fun t => match progs[t]? with | some pr => UTh.ofProg pr | none => UTh.ofProg [],
    cptr := fun k => decide (k ∈ regs), nU := progs.length,
    submitted := fun _ => [], handled := fun _ => [], dropped := fun _ => [] }

end Muscle.Conc.TP
