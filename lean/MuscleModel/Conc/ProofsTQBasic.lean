import MuscleModel.Conc.ThreadQueue

/-! # C11 lemmas, part 0: what `signal` / `drain` / `flush` / `intLoop` leave alone -/

namespace Muscle.Conc.TQ
open Muscle.Conc

section frame
variable (s : Sh) (d : Dir)

@[simp] theorem signal_mode : (signal s d).mode = s.mode := by
  unfold signal; cases hm : s.mode <;> cases d <;> simp [Sh.setCh, hm] <;> split <;> simp_all
@[simp] theorem signal_running : (signal s d).running = s.running := by
  unfold signal; cases hm : s.mode <;> cases d <;> simp [Sh.setCh] <;> split <;> simp_all
@[simp] theorem signal_alloc : (signal s d).alloc = s.alloc := by
  unfold signal; cases hm : s.mode <;> cases d <;> simp [Sh.setCh] <;> split <;> simp_all
@[simp] theorem signal_closedO : (signal s d).closedO = s.closedO := by
  unfold signal; cases hm : s.mode <;> cases d <;> simp [Sh.setCh] <;> split <;> simp_all
@[simp] theorem signal_gen : (signal s d).gen = s.gen := by
  unfold signal; cases hm : s.mode <;> cases d <;> simp [Sh.setCh] <;> split <;> simp_all
@[simp] theorem signal_ci_queue : (signal s d).ci.queue = s.ci.queue := by
  unfold signal; cases hm : s.mode <;> cases d <;> simp [Sh.setCh, Sh.ch] <;> split <;> simp_all
@[simp] theorem signal_co_queue : (signal s d).co.queue = s.co.queue := by
  unfold signal; cases hm : s.mode <;> cases d <;> simp [Sh.setCh, Sh.ch] <;> split <;> simp_all
@[simp] theorem signal_toInt_co : (signal s .toInt).co = s.co := by
  unfold signal; cases hm : s.mode <;> simp [Sh.setCh] <;> split <;> simp_all
@[simp] theorem signal_toOwn_ci : (signal s .toOwn).ci = s.ci := by
  unfold signal; cases hm : s.mode <;> simp [Sh.setCh] <;> split <;> simp_all
theorem signal_toInt_sig_ge : s.ci.sig ≤ (signal s .toInt).ci.sig := by
  unfold signal; cases hm : s.mode <;> simp [Sh.setCh, Sh.ch] <;> split <;> simp_all
theorem signal_toOwn_sig_ge : s.co.sig ≤ (signal s .toOwn).co.sig := by
  unfold signal; cases hm : s.mode <;> simp [Sh.setCh, Sh.ch] <;> split <;> simp_all
theorem signal_toInt_sig_le : (signal s .toInt).ci.sig ≤ s.ci.sig + 1 := by
  unfold signal; cases hm : s.mode <;> simp [Sh.setCh, Sh.ch] <;> split <;> simp_all
theorem signal_toOwn_sig_le : (signal s .toOwn).co.sig ≤ s.co.sig + 1 := by
  unfold signal; cases hm : s.mode <;> simp [Sh.setCh, Sh.ch] <;> split <;> simp_all
/-- the signal arrives: wait-condition mode always; socket mode when the pair is allocated -/
theorem signal_toInt_pos (h : s.mode = .sock → s.alloc = true) : (signal s .toInt).ci.sig > 0 := by
  unfold signal; cases hm : s.mode <;> simp [Sh.setCh, Sh.ch] <;> simp_all
theorem signal_toOwn_pos (h : s.mode = .sock → s.alloc = true ∧ s.closedO = false) : (signal s .toOwn).co.sig > 0 := by
  unfold signal; cases hm : s.mode <;> simp [Sh.setCh, Sh.ch] <;> simp_all

@[simp] theorem drain_mode : (drain s d).mode = s.mode := by
  unfold drain; cases hm : s.mode <;> cases d <;> simp [Sh.setCh, hm] <;> split <;> simp_all
@[simp] theorem drain_running : (drain s d).running = s.running := by
  unfold drain; cases hm : s.mode <;> cases d <;> simp [Sh.setCh] <;> split <;> simp_all
@[simp] theorem drain_alloc : (drain s d).alloc = s.alloc := by
  unfold drain; cases hm : s.mode <;> cases d <;> simp [Sh.setCh] <;> split <;> simp_all
@[simp] theorem drain_closedO : (drain s d).closedO = s.closedO := by
  unfold drain; cases hm : s.mode <;> cases d <;> simp [Sh.setCh] <;> split <;> simp_all
@[simp] theorem drain_gen : (drain s d).gen = s.gen := by
  unfold drain; cases hm : s.mode <;> cases d <;> simp [Sh.setCh] <;> split <;> simp_all
@[simp] theorem drain_ci_queue : (drain s d).ci.queue = s.ci.queue := by
  unfold drain; cases hm : s.mode <;> cases d <;> simp [Sh.setCh, Sh.ch] <;> split <;> simp_all
@[simp] theorem drain_co_queue : (drain s d).co.queue = s.co.queue := by
  unfold drain; cases hm : s.mode <;> cases d <;> simp [Sh.setCh, Sh.ch] <;> split <;> simp_all
@[simp] theorem drain_toInt_co : (drain s .toInt).co = s.co := by
  unfold drain; cases hm : s.mode <;> simp [Sh.setCh] <;> split <;> simp_all
@[simp] theorem drain_toOwn_ci : (drain s .toOwn).ci = s.ci := by
  unfold drain; cases hm : s.mode <;> simp [Sh.setCh] <;> split <;> simp_all
theorem drain_toInt_sig_le : (drain s .toInt).ci.sig ≤ s.ci.sig := by
  unfold drain; cases hm : s.mode <;> simp [Sh.setCh, Sh.ch] <;> split <;> simp_all
theorem drain_toOwn_sig_le : (drain s .toOwn).co.sig ≤ s.co.sig := by
  unfold drain; cases hm : s.mode <;> simp [Sh.setCh, Sh.ch] <;> split <;> simp_all
theorem drain_toInt_sig_zero (hm : s.mode = .sock) (ha : s.alloc = true) : (drain s .toInt).ci.sig = 0 := by
  unfold drain; simp [Sh.setCh, Sh.ch, hm, ha]
theorem drain_toOwn_sig_zero (hm : s.mode = .sock) (ha : s.alloc = true) : (drain s .toOwn).co.sig = 0 := by
  unfold drain; simp [Sh.setCh, Sh.ch, hm, ha]

@[simp] theorem flush_mode : (flush s d).mode = s.mode := by unfold flush; cases d <;> simp [Sh.setCh]
@[simp] theorem flush_running : (flush s d).running = s.running := by unfold flush; cases d <;> simp [Sh.setCh]
@[simp] theorem flush_alloc : (flush s d).alloc = s.alloc := by unfold flush; cases d <;> simp [Sh.setCh]
@[simp] theorem flush_closedO : (flush s d).closedO = s.closedO := by unfold flush; cases d <;> simp [Sh.setCh]
@[simp] theorem flush_gen : (flush s d).gen = s.gen := by unfold flush; cases d <;> simp [Sh.setCh]
@[simp] theorem flush_ci_queue : (flush s d).ci.queue = s.ci.queue := by unfold flush; cases d <;> simp [Sh.setCh, Sh.ch]
@[simp] theorem flush_co_queue : (flush s d).co.queue = s.co.queue := by unfold flush; cases d <;> simp [Sh.setCh, Sh.ch]
@[simp] theorem flush_toInt_co : (flush s .toInt).co = s.co := by unfold flush; simp [Sh.setCh]
@[simp] theorem flush_toOwn_ci : (flush s .toOwn).ci = s.ci := by unfold flush; simp [Sh.setCh]
@[simp] theorem flush_toInt_sig : (flush s .toInt).ci.sig = 0 := by unfold flush; simp [Sh.setCh, Sh.ch]
@[simp] theorem flush_toOwn_sig : (flush s .toOwn).co.sig = 0 := by unfold flush; simp [Sh.setCh, Sh.ch]

@[simp] theorem intLoop_mode : (intLoop s).1.mode = s.mode := by simp [intLoop]
@[simp] theorem intLoop_running : (intLoop s).1.running = s.running := by simp [intLoop]
@[simp] theorem intLoop_alloc : (intLoop s).1.alloc = s.alloc := by simp [intLoop]
@[simp] theorem intLoop_closedO : (intLoop s).1.closedO = s.closedO := by simp [intLoop]
@[simp] theorem intLoop_gen : (intLoop s).1.gen = s.gen := by simp [intLoop]
@[simp] theorem intLoop_ci_queue : (intLoop s).1.ci.queue = s.ci.queue := by simp [intLoop]
@[simp] theorem intLoop_co : (intLoop s).1.co = s.co := by simp [intLoop]
@[simp] theorem intLoop_pc : (intLoop s).2 = .recvLock false := by simp [intLoop]
theorem intLoop_sig_le : (intLoop s).1.ci.sig ≤ s.ci.sig := by simp [intLoop, drain_toInt_sig_le]

end frame

@[simp] theorem push_queue (c : Chan) (it : Item) : (c.push it).queue = c.queue ++ [it] := rfl
@[simp] theorem push_sig (c : Chan) (it : Item) : (c.push it).sig = c.sig := rfl
@[simp] theorem pop_queue (c : Chan) (it : Item) (r : List Item) : (c.pop it r).queue = r := rfl
@[simp] theorem pop_sig (c : Chan) (it : Item) (r : List Item) : (c.pop it r).sig = c.sig := rfl

end Muscle.Conc.TQ
