import MuscleModel.Conc.ProofsTP3

/-! # C19 proofs, layer 4: settled facts at step boundaries (a flagged client has a server, pending work means a full
pool, a registered waiter has something outstanding) -/

namespace Muscle.Conc.TP
open Muscle.Conc

/-- what `DispatchPendingMessagesUnsafe` never touches -/
structure Frame (c c' : Cfg) : Prop where
  uth : c'.uth = c.uth
  nU : c'.nU = c.nU
  regK : c'.p.regK = c.p.regK
  waitK : c'.p.waitK = c.p.waitK
  waitT : c'.p.waitT = c.p.waitT
  shut : c'.p.shut = c.p.shut
  maxT : c'.p.maxT = c.p.maxT

theorem Frame.refl (c : Cfg) : Frame c c := ⟨rfl, rfl, rfl, rfl, rfl, rfl, rfl⟩
theorem Frame.trans {a b c : Cfg} (h1 : Frame a b) (h2 : Frame b c) : Frame a c :=
  ⟨h2.uth.trans h1.uth, h2.nU.trans h1.nU, h2.regK.trans h1.regK, h2.waitK.trans h1.waitK, h2.waitT.trans h1.waitT,
   h2.shut.trans h1.shut, h2.maxT.trans h1.maxT⟩

theorem frame_spawn (c : Cfg) : Frame c (spawnIfNeeded c) := by
  unfold spawnIfNeeded; split <;> exact ⟨rfl, rfl, rfl, rfl, rfl, rfl, rfl⟩

theorem frame_dispatchLoop (ks : List Client) (c : Cfg) : Frame c (dispatchLoop ks c) := by
  induction ks generalizing c with
  | nil => exact ⟨rfl, rfl, rfl, rfl, rfl, rfl, rfl⟩
  | cons k ks ih =>
    unfold dispatchLoop
    split
    · split
      · rename_i T rest ha
        have h2 : Frame (spawnIfNeeded c) (assign (spawnIfNeeded c) k T rest) := ⟨rfl, rfl, rfl, rfl, rfl, rfl, rfl⟩
        exact ((frame_spawn c).trans h2).trans (ih _)
      · exact ⟨rfl, rfl, rfl, rfl, rfl, rfl, rfl⟩
    · have h2 : Frame c { c with p := { c.p with pend := upd c.p.pend k [] } } := ⟨rfl, rfl, rfl, rfl, rfl, rfl, rfl⟩
      exact h2.trans (ih _)

theorem frame_dispatch (c : Cfg) : Frame c (dispatch c) := by
  unfold dispatch; split
  · exact Frame.refl c
  · exact frame_dispatchLoop _ c

/-! ## a flagged client has a server (until shutdown) -/

def E2 (c : Cfg) : Prop := c.p.shut = false → ∀ k, c.p.flag k = true → ∃ T, serving c T k

theorem e2_of {c c' : Cfg} (h : E2 c) (hsh : c'.p.shut = false → c.p.shut = false)
    (hm : ∀ k, c'.p.flag k = true → c.p.flag k = true ∧ ∀ T, serving c T k → serving c' T k) : E2 c' := by
  intro hs k hf
  obtain ⟨hf0, hsv⟩ := hm k hf
  obtain ⟨T, hT⟩ := h (hsh hs) k hf0
  exact ⟨T, hsv T hT⟩

theorem e2_spawn {c : Cfg} (h : E2 c) (hp : InvP c) (hh : InvH c) : E2 (spawnIfNeeded c) := by
  unfold spawnIfNeeded; split
  · refine e2_of h id (fun k hf => ⟨hf, fun T hT => ?_⟩)
    have h1 := hp.unb c.p.idc (Nat.le_refl _)
    have h2 := hh.fresh c.p.idc (Nat.le_refl _)
    simp only [serving, upd] at hT ⊢
    split
    · rename_i he; subst he; rw [h1, h2] at hT; simp at hT
    · exact hT
  · exact h

theorem e2_assign {c : Cfg} {k : Client} {T : PTid} {rest : List PTid} (h : E2 c) (h0 : Inv0 c) (ha : c.p.availR = T :: rest) :
    E2 (assign c k T rest) := by
  have hT := h0.availIdle T (by rw [ha]; simp)
  intro hs k' hf
  by_cases hk : k' = k
  · subst hk; exact ⟨T, Or.inl (by simp [assign, upd])⟩
  · have hf' : c.p.flag k' = true := by simpa [assign, upd, hk] using hf
    obtain ⟨T', hT'⟩ := h hs k' hf'
    have hne : T' ≠ T := by
      intro he; subst he
      rcases hT' with h1 | h1
      · rw [hT.1] at h1; cases h1
      · exact hT.2 k' h1
    exact ⟨T', by simpa [serving, assign, upd, hne] using hT'⟩

theorem e2_dispatchLoop (ks : List Client) {c : Cfg} (h : E2 c) (hp : InvP c) (hh : InvH c) (h1 : Inv1 c) (h0 : Inv0 c) (hs : c.p.shut = false)
    (hk : ∀ k, c.p.pend k ≠ [] → k ∈ ks) : E2 (dispatchLoop ks c) := by
  induction ks generalizing c with
  | nil => exact e2_of h id (fun k hf => ⟨hf, fun T hT => hT⟩)
  | cons k ks ih =>
    unfold dispatchLoop
    split
    · rename_i hc
      split
      · rename_i T rest ha
        have hsp := spawn_avail_cases c
        have h0s := inv0_spawnIfNeeded h0
        have h1s := inv1_spawnIfNeeded h1
        have hkr : k ∈ (spawnIfNeeded c).p.regK := by rw [hsp.1]; exact hc.1
        have hpp : (spawnIfNeeded c).p.pend k ≠ [] := by rw [hsp.2.1]; exact hc.2
        have hss : (spawnIfNeeded c).p.shut = false := by rw [hsp.2.2.1]; exact hs
        refine ih (e2_assign (e2_spawn h hp hh) h0s ha) (invP_assign (invP_spawnIfNeeded hp h0) h0s ha hss)
          (invH_assign (invH_spawnIfNeeded hh) h0s h1s ha hpp hss) (inv1_assign h1s h0s ha hkr hpp hss) (inv0_assign h0s ha hkr) (by simp [assign, hss]) ?_
        intro k' hk'
        simp only [assign, upd] at hk'
        split at hk'
        · exact absurd rfl hk'
        · rename_i hne
          rw [hsp.2.1] at hk'
          have := hk k' hk'
          simp only [List.mem_cons] at this
          rcases this with h1 | h1
          · exact absurd h1 hne
          · exact h1
      · exact e2_of h id (fun k hf => ⟨hf, fun T hT => hT⟩)
    · rename_i hc
      have hpk : c.p.pend k = [] := by
        by_cases hr : k ∈ c.p.regK
        · by_cases hp : c.p.pend k = []
          · exact hp
          · exact absurd ⟨hr, hp⟩ hc
        · exact (h0.wfQ k hr).1
      have he : upd c.p.pend k [] = c.p.pend := by funext x; simp only [upd]; split <;> simp_all
      refine ih (e2_of h id (fun k hf => ⟨hf, fun T hT => hT⟩)) (hp.congr (h7 := he)) (hh.congr (h6 := he)) (h1.congr (h6 := he)) (h0.congr' rfl (h7 := he)) hs ?_
      intro k' hk'
      replace hk' : c.p.pend k' ≠ [] := by simpa only [he] using hk'
      have := hk k' hk'
      simp only [List.mem_cons] at this
      rcases this with h1 | h1
      · subst h1; exact absurd hpk hk'
      · exact h1

theorem e2_dispatch {c : Cfg} (h : E2 c) (hp : InvP c) (hh : InvH c) (h1 : Inv1 c) (h0 : Inv0 c) : E2 (dispatch c) := by
  unfold dispatch; split
  · exact h
  · rename_i hs; exact e2_dispatchLoop _ h hp hh h1 h0 (by simpa using hs) hp.kk

/-! ## pending work means a full pool; a registered waiter has something outstanding -/

def DD (c : Cfg) : Prop := c.p.shut = false → ∀ k, c.p.pend k ≠ [] → c.p.availR = [] ∧ c.p.maxT ≤ c.p.active.length
def OO (c : Cfg) : Prop := ∀ k, k ∈ c.p.waitK → outstanding c.p k = true

theorem spawn_flag_pend (c : Cfg) : (spawnIfNeeded c).p.flag = c.p.flag ∧ (spawnIfNeeded c).p.pend = c.p.pend ∧ (spawnIfNeeded c).p.defr = c.p.defr := by
  unfold spawnIfNeeded; split <;> simp

theorem dd_dispatchLoop (ks : List Client) {c : Cfg} (h0 : Inv0 c) (hk : ∀ k, c.p.pend k ≠ [] → k ∈ ks) : DD (dispatchLoop ks c) := by
  induction ks generalizing c with
  | nil =>
    intro _ k hp
    exact absurd (hk k hp) (by simp)
  | cons k ks ih =>
    unfold dispatchLoop
    split
    · rename_i hc
      split
      · rename_i T rest ha
        have hsp := spawn_avail_cases c
        have h0s := inv0_spawnIfNeeded h0
        have hkr : k ∈ (spawnIfNeeded c).p.regK := by rw [hsp.1]; exact hc.1
        refine ih (inv0_assign h0s ha hkr) ?_
        intro k' hk'
        simp only [assign, upd] at hk'
        split at hk'
        · exact absurd rfl hk'
        · rename_i hne
          rw [hsp.2.1] at hk'
          have := hk k' hk'
          simp only [List.mem_cons] at this
          rcases this with h1 | h1
          · exact absurd h1 hne
          · exact h1
      · rename_i ha
        intro _ k' _
        simp only
        unfold spawnIfNeeded at ha
        split at ha
        · simp at ha
        · rename_i hn
          refine ⟨ha, ?_⟩
          by_cases hlt : c.p.active.length < c.p.maxT
          · exact absurd ⟨ha, hlt⟩ hn
          · exact Nat.le_of_not_lt hlt
    · rename_i hc
      have hpk : c.p.pend k = [] := by
        by_cases hr : k ∈ c.p.regK
        · by_cases hp : c.p.pend k = []
          · exact hp
          · exact absurd ⟨hr, hp⟩ hc
        · exact (h0.wfQ k hr).1
      have he : upd c.p.pend k [] = c.p.pend := by funext x; simp only [upd]; split <;> simp_all
      refine ih (h0.congr' rfl (h7 := he)) ?_
      intro k' hk'
      replace hk' : c.p.pend k' ≠ [] := by simpa only [he] using hk'
      have := hk k' hk'
      simp only [List.mem_cons] at this
      rcases this with h1 | h1
      · subst h1; exact absurd hpk hk'
      · exact h1

theorem dd_dispatch {c : Cfg} (h0 : Inv0 c) (hp : InvP c) (hs : c.p.shut = false) : DD (dispatch c) := by
  unfold dispatch; rw [if_neg (by simp [hs])]
  exact dd_dispatchLoop _ h0 hp.kk

theorem outstanding_dispatchLoop (ks : List Client) {c : Cfg} (h0 : Inv0 c) (k' : Client) (h : outstanding c.p k' = true) :
    outstanding (dispatchLoop ks c).p k' = true := by
  induction ks generalizing c with
  | nil => exact h
  | cons k ks ih =>
    unfold dispatchLoop
    split
    · rename_i hc
      split
      · rename_i T rest ha
        have hsp := spawn_avail_cases c
        have hfp := spawn_flag_pend c
        have h0s := inv0_spawnIfNeeded h0
        have hkr : k ∈ (spawnIfNeeded c).p.regK := by rw [hsp.1]; exact hc.1
        apply ih (inv0_assign h0s ha hkr)
        simp only [outstanding, assign, upd, hfp.1, hfp.2.1, hfp.2.2] at h ⊢
        split <;> simp_all
      · exact h
    · rename_i hc
      have hpk : c.p.pend k = [] := by
        by_cases hr : k ∈ c.p.regK
        · by_cases hp : c.p.pend k = []
          · exact hp
          · exact absurd ⟨hr, hp⟩ hc
        · exact (h0.wfQ k hr).1
      have he : upd c.p.pend k [] = c.p.pend := by funext x; simp only [upd]; split <;> simp_all
      have h0' : Inv0 { c with p := { c.p with pend := upd c.p.pend k [] } } := h0.congr' rfl (h7 := he)
      apply ih h0'
      simpa only [outstanding, he] using h

theorem outstanding_dispatch {c : Cfg} (h0 : Inv0 c) (k' : Client) (h : outstanding c.p k' = true) : outstanding (dispatch c).p k' = true := by
  unfold dispatch; split
  · exact h
  · exact outstanding_dispatchLoop _ h0 k' h

/-! ## the settled facts, step by step -/

structure Settled (c : Cfg) : Prop where
  e2 : E2 c
  dd : DD c
  oo : OO c

theorem Settled.congr {c c' : Cfg} (h : Settled c) (h1 : c'.pth = c.pth := by rfl) (h2 : c'.p.shut = c.p.shut := by rfl)
    (h3 : c'.p.flag = c.p.flag := by rfl) (h4 : c'.p.pend = c.p.pend := by rfl) (h5 : c'.p.defr = c.p.defr := by rfl)
    (h6 : c'.p.availR = c.p.availR := by rfl) (h7 : c'.p.active = c.p.active := by rfl) (h8 : c'.p.maxT = c.p.maxT := by rfl)
    (h9 : c'.p.waitK = c.p.waitK := by rfl) : Settled c' := by
  obtain ⟨g1, g2, g3⟩ := h
  refine ⟨?_, ?_, ?_⟩
  · simp only [E2, serving, h1, h2, h3] at *; exact g1
  · simp only [DD, h2, h4, h6, h7, h8] at *; exact g2
  · simp only [OO, outstanding, h3, h4, h5, h9] at *; exact g3

theorem Settled.of_shut {c' : Cfg} (hs : c'.p.shut = true) (ho : OO c') : Settled c' := by
  refine ⟨?_, ?_, ho⟩
  · intro h; rw [hs] at h; cases h
  · intro h; rw [hs] at h; cases h

theorem fetch_p (c : Cfg) (T : PTid) : (fetch c T).1.p = c.p := fetch_maxT c T

theorem fetch_serving {c : Cfg} (T : PTid) (hpc : ∀ k, (c.pth T).pc ≠ .finLock k) (T' : PTid) (k : Client) (h : serving c T' k) :
    serving (fetch c T).1 T' k := by
  unfold fetch
  simp only
  by_cases hTT : T' = T
  · subst hTT
    rcases h with h | h
    · split
      · exact Or.inl (by simp [upd, h])
      · exact Or.inl (by simp [upd, h])
      · split
        · exact Or.inl (by simp [upd, h])
        · rename_i k' hc hq; rw [h] at hc; cases hc; exact Or.inr (by simp [upd])
        · rename_i hc; rw [h] at hc; cases hc
    · exact absurd h (hpc k)
  · split <;> (try split) <;> (simpa [serving, upd, hTT] using h)

theorem settled_fetch {c : Cfg} (T : PTid) (h : Settled c) (hpc : ∀ k, (c.pth T).pc ≠ .finLock k) : Settled (fetch c T).1 := by
  have hp := fetch_p c T
  obtain ⟨g1, g2, g3⟩ := h
  refine ⟨?_, ?_, ?_⟩
  · exact e2_of g1 (by rw [hp]; exact id) (fun k hf => ⟨by rw [hp] at hf; exact hf, fun T' hT' => fetch_serving T hpc T' k hT'⟩)
  · simp only [DD, hp]; exact g2
  · simp only [OO, hp]; exact g3

/-- the invariants of the other layers hold in the middle of `ThreadFinishedProcessingClientMessages` -/
theorem finPrefix_invs {c : Cfg} (T : PTid) (k : Client) (h0 : Inv0 c) (h1 : Inv1 c) (hh : InvH c) (hpc : (c.pth T).pc = .finLock k) (hs : c.p.shut = false) :
    Inv0 (finPrefix c T k) ∧ Inv1 (finPrefix c T k) ∧ InvH (finPrefix c T k) := by
  have hc := h0.finCur T k hpc
  have hn : ∀ T', ¬ serving { c with pth := upd c.pth T { (c.pth T) with pc := .idle } } T' k := by
    intro T' hsv
    have ho := h1.o1 T T' k (Or.inr hpc)
    by_cases hTT : T' = T
    · subst hTT; simp [serving, upd, hc] at hsv
    · have : serving c T' k := by simpa [serving, upd, hTT] using hsv
      exact hTT (ho this).symm
  have hfl : c.p.shut = false → c.p.flag k = true := fun hsh => h1.s1 hsh T k (Or.inr hpc)
  have hTi : ((upd c.pth T { (c.pth T) with pc := .idle }) T).cur = none ∧ ∀ k, ((upd c.pth T { (c.pth T) with pc := .idle }) T).pc ≠ .finLock k := by simp [upd, hc]
  unfold finPrefix
  refine ⟨?_, ?_, ?_⟩
  · exact inv0_release T (inv0_handBack k (inv0_setIdle T h0)) (by rw [handBack_pth]; exact hTi)
  · exact inv1_release T (inv1_handBack k (inv1_setIdle T h1) (inv0_setIdle T h0) hn hfl hs)
  · exact invH_release T (invH_handBack k (invH_setIdle T hh) (inv0_setIdle T h0) (hfl hs))

theorem finPrefix_frame (c : Cfg) (T : PTid) (k : Client) : Frame c (finPrefix c T k) ∧
    (∀ k', k' ≠ k → (finPrefix c T k).p.flag k' = c.p.flag k' ∧ (finPrefix c T k).p.pend k' = c.p.pend k' ∧ (finPrefix c T k).p.defr k' = c.p.defr k') ∧
    (∀ T', T' ≠ T → (finPrefix c T k).pth T' = c.pth T') ∧ (∀ k', (finPrefix c T k).p.flag k' = true → c.p.flag k' = true ∧ (k' ≠ k ∨ k ∉ c.p.regK)) := by
  unfold finPrefix release handBack
  simp only
  refine ⟨?_, ?_, ?_, ?_⟩
  · split <;> split <;> (try split) <;> exact ⟨rfl, rfl, rfl, rfl, rfl, rfl, rfl⟩
  · intro k' hk'
    split <;> split <;> (try split) <;> simp [upd, hk']
  · intro T' hT'
    split <;> split <;> (try split) <;> simp [upd, hT']
  · intro k'
    split <;> split <;> (try split) <;> (simp only [upd]; grind)

theorem wake_fields (c : Cfg) (k : Client) : (wake c k).pth = c.pth ∧ (wake c k).p.shut = c.p.shut ∧ (wake c k).p.flag = c.p.flag ∧
    (wake c k).p.pend = c.p.pend ∧ (wake c k).p.defr = c.p.defr ∧ (wake c k).p.availR = c.p.availR ∧ (wake c k).p.active = c.p.active ∧
    (wake c k).p.maxT = c.p.maxT ∧ (wake c k).p.idc = c.p.idc := by
  unfold wake; split <;> simp

theorem settled_stepPool {c c' : Cfg} {T : PTid} {o} (h : Settled c) (h0 : Inv0 c) (h1 : Inv1 c) (hh : InvH c) (hp : InvP c)
    (hs : stepPool c T = some (c', o)) : Settled c' := by
  unfold stepPool at hs
  simp only at hs
  split at hs
  · simp at hs
  · simp at hs
  · rename_i hpc
    simp only [Option.some.injEq] at hs; have : c' = (fetch c T).1 := by rw [hs]
    rw [this]; exact settled_fetch T h (by rw [hpc]; simp)
  · rename_i hpc
    split at hs
    · simp at hs
    · simp only [Option.some.injEq] at hs; have : c' = (fetch c T).1 := by rw [hs]
      rw [this]; exact settled_fetch T h (by rw [hpc]; simp)
  · rename_i hpc
    obtain ⟨g1, g2, g3⟩ := h
    split at hs
    · simp only [Option.some.injEq, Prod.mk.injEq] at hs; obtain ⟨rfl, _⟩ := hs
      refine ⟨e2_of g1 id (fun k hf => ⟨hf, fun T' hT' => ?_⟩), g2, g3⟩
      simp only [serving, upd] at hT' ⊢; grind
    · simp only [Option.some.injEq, Prod.mk.injEq] at hs; obtain ⟨rfl, _⟩ := hs
      refine ⟨e2_of g1 id (fun k hf => ⟨hf, fun T' hT' => ?_⟩), g2, g3⟩
      simp only [serving, upd] at hT' ⊢; grind
    · simp at hs
  · rename_i k hpc
    simp only [Option.some.injEq] at hs
    have : c' = (fetch (finishCS { c with pth := upd c.pth T { (c.pth T) with pc := .idle } } T k) T).1 := by rw [hs]
    rw [this]
    have hlt : T < c.p.idc := by
      by_cases hlt : T < c.p.idc
      · exact hlt
      · have := hp.unb T (Nat.le_of_not_lt hlt); rw [hpc] at this; cases this
    cases hsh : c.p.shut with
    | true =>
      have he : finishCS { c with pth := upd c.pth T { (c.pth T) with pc := .idle } } T k = { c with pth := upd c.pth T { (c.pth T) with pc := .idle } } := by
        simp [finishCS, hsh]
      rw [he]
      refine settled_fetch T (Settled.of_shut hsh h.oo) (by simp [upd])
    | false =>
      rw [finishCS_eq c T k hsh]
      obtain ⟨i0, i1, ih⟩ := finPrefix_invs T k h0 h1 hh hpc hsh
      have ip := invP_finPrefix T k hp h0 hpc hsh
      obtain ⟨fr, fk, ft, ff⟩ := finPrefix_frame c T k
      have hc := h0.finCur T k hpc
      have hf := finPrefix_fields c T k
      have hsh2 : (finPrefix c T k).p.shut = false := by rw [fr.shut]; exact hsh
      -- E2 in the middle
      have e2m : E2 (finPrefix c T k) := by
        intro _ k' hf'
        obtain ⟨hf0, hne⟩ := ff k' hf'
        obtain ⟨T', hT'⟩ := h.e2 hsh k' hf0
        have hkk : k' ≠ k := by
          rcases hne with h | h
          · exact h
          · intro he; subst he; have := h0.wfFlag k' h; rw [this] at hf0; cases hf0
        have hTT : T' ≠ T := by
          intro he; subst he
          rcases hT' with h | h
          · rw [hc] at h; cases h
          · rw [hpc] at h; cases h; exact hkk rfl
        exact ⟨T', by simpa [serving, ft T' hTT] using hT'⟩
      have e2d := e2_dispatch e2m ip ih i1 i0
      have ddd := dd_dispatch i0 ip hsh2
      have frd := frame_dispatch (finPrefix c T k)
      have wf := wake_fields (dispatch (finPrefix c T k)) k
      have hset : Settled (wake (dispatch (finPrefix c T k)) k) := by
        refine ⟨?_, ?_, ?_⟩
        · refine e2_of e2d (by rw [wf.2.1]; exact id) (fun k' hf' => ⟨by rw [wf.2.2.1] at hf'; exact hf', fun T' hT' => ?_⟩)
          simpa [serving, wf.1] using hT'
        · simp only [DD, wf.2.1, wf.2.2.2.1, wf.2.2.2.2.2.1, wf.2.2.2.2.2.2.1, wf.2.2.2.2.2.2.2.1]; exact ddd
        · intro k' hk'
          simp only [outstanding, wf.2.2.1, wf.2.2.2.1, wf.2.2.2.2.1]
          by_cases hkk : k' = k
          · subst hkk
            unfold wake at hk'
            split at hk'
            · rename_i hc2; simp [mem_remKey] at hk'
            · rename_i hc2
              have hkw : k' ∈ (dispatch (finPrefix c T k')).p.waitK := hk'
              cases ho : outstanding (dispatch (finPrefix c T k')).p k' with
              | true => simpa [outstanding] using ho
              | false => exact absurd ⟨ho, hkw⟩ hc2
          · have hkw : k' ∈ c.p.waitK := by
              unfold wake at hk'
              split at hk'
              · simp only [mem_remKey] at hk'; rw [frd.waitK, fr.waitK] at hk'; exact hk'.1
              · rw [frd.waitK, fr.waitK] at hk'; exact hk'
            have ho := h.oo k' hkw
            have ho2 : outstanding (finPrefix c T k).p k' = true := by
              obtain ⟨a, b, d⟩ := fk k' hkk
              simpa [outstanding, a, b, d] using ho
            simpa [outstanding] using outstanding_dispatch i0 k' ho2
      refine settled_fetch T hset ?_
      intro k'
      rw [wf.1, dispatch_pc _ T (by rw [hf.1]; exact hlt), hf.2.1]
      simp

theorem sdNext_fields (c : Cfg) (t : Tid) (b : Bool) (nA total n : Nat) (l : List PTid) :
    (sdNext c t b nA total n l).p = c.p ∧ (∀ T k, serving (sdNext c t b nA total n l) T k ↔ serving c T k) := by
  unfold sdNext
  split
  · refine ⟨rfl, fun T k => ?_⟩
    simp only [serving, upd]; split
    · rename_i h; subst h; rfl
    · rfl
  · split
    · exact ⟨rfl, fun _ _ => Iff.rfl⟩
    · split <;> exact ⟨rfl, fun _ _ => Iff.rfl⟩

theorem settled_stepUser {c c' : Cfg} {t : Tid} {o} (h : Settled c) (h0 : Inv0 c) (h1 : Inv1 c) (hh : InvH c) (hp : InvP c) (hd : Disc c)
    (hs : stepUser c t = some (c', o)) : Settled c' := by
  unfold stepUser at hs
  simp only at hs
  split at hs
  · simp at hs
  · split at hs
    · simp at hs
    all_goals first
      | (split at hs <;> (simp only [Option.some.injEq, Prod.mk.injEq] at hs; obtain ⟨rfl, _⟩ := hs; exact h.congr))
      | (simp only [Option.some.injEq, Prod.mk.injEq] at hs; obtain ⟨rfl, _⟩ := hs; exact h.congr)
  · -- subLock
    rename_i k m hpc
    simp only [Option.some.injEq, Prod.mk.injEq] at hs; obtain ⟨rfl, _⟩ := hs
    have hq : ∀ t', (c.uth t').pc ≠ .unregLock2 k ∧ (c.uth t').pc ≠ .unregWait k := by
      intro t'
      have hu := h1.us t k m hpc
      constructor
      · intro hp; have := hd t t' k hu (h1.mg t' k (by rw [hp]; rfl)); subst this; rw [hpc] at hp; cases hp
      · intro hp; have := hd t t' k hu (h1.mg t' k (by rw [hp]; rfl)); subst this; rw [hpc] at hp; cases hp
    suffices hsuf : Settled (subCS c k m).1 from hsuf.congr
    unfold subCS
    split
    · exact h
    · rename_i hk
      have hk' : k ∈ c.p.regK := by simpa using hk
      split
      · -- deferred
        obtain ⟨g1, g2, g3⟩ := h
        refine ⟨e2_of g1 id (fun k' hf => ⟨hf, fun T' hT' => hT'⟩), g2, ?_⟩
        intro k' hk2
        have := g3 k' hk2
        simp only [outstanding, addDefr, upd] at this ⊢
        split <;> simp_all
      · rename_i hf
        have hf' : c.p.flag k = false := by simpa using hf
        have hoa : ∀ k', outstanding c.p k' = true → outstanding (addPend c k m).p k' = true := by
          intro k' this
          simp only [outstanding, addPend, upd] at this ⊢
          split <;> simp_all
        have e2a : E2 (addPend c k m) := e2_of h.e2 id (fun k' hf => ⟨hf, fun T' hT' => hT'⟩)
        split
        · have i0 := inv0_addPend k m h0 hk' hf'
          have i1 := inv1_addPend k m h1 hq
          have ih := invH_addPend k m hh (h1.f1 k hf')
          have ip := invP_addPend k m hp
          refine ⟨e2_dispatch e2a ip ih i1 i0, ?_, ?_⟩
          · intro hsh
            have : (addPend c k m).p.shut = false := by rw [← (frame_dispatch _).shut]; exact hsh
            exact dd_dispatch i0 ip this hsh
          · intro k' hk2
            rw [(frame_dispatch _).waitK] at hk2
            exact outstanding_dispatch i0 k' (hoa k' (h.oo k' hk2))
        · rename_i hne
          refine ⟨e2a, ?_, fun k' hk2 => hoa k' (h.oo k' hk2)⟩
          intro hsh k' _
          exact h.dd hsh k hne
  · -- regLock
    rename_i k hpc
    simp only [Option.some.injEq, Prod.mk.injEq] at hs; obtain ⟨rfl, _⟩ := hs
    have hnr := h1.r1 t k hpc
    have hfl := h0.wfFlag k hnr
    have e1 : upd c.p.flag k false = c.p.flag := by funext x; simp only [upd]; split <;> simp_all
    rw [e1]
    exact h.congr
  · -- unregLock1
    rename_i k hpc
    split at hs
    · rename_i ho
      simp only [Option.some.injEq, Prod.mk.injEq] at hs; obtain ⟨rfl, _⟩ := hs
      obtain ⟨g1, g2, g3⟩ := h
      refine ⟨g1, g2, ?_⟩
      intro k' hk'
      simp only [mem_addKey] at hk'
      rcases hk' with h | h
      · exact g3 k' h
      · subst h; exact ho
    · simp only [Option.some.injEq, Prod.mk.injEq] at hs; obtain ⟨rfl, _⟩ := hs; exact h.congr
  · split at hs
    · simp only [Option.some.injEq, Prod.mk.injEq] at hs; obtain ⟨rfl, _⟩ := hs; exact h.congr
    · simp at hs
  · -- unregLock2
    rename_i k hpc
    simp only [Option.some.injEq, Prod.mk.injEq] at hs; obtain ⟨rfl, _⟩ := hs
    have hqk := h1.u1 t k hpc
    have e1 : upd c.p.flag k false = c.p.flag := by funext x; simp only [upd]; split <;> simp_all [quiet]
    have e2 : upd c.p.pend k [] = c.p.pend := by funext x; simp only [upd]; split <;> simp_all [quiet]
    have e3 : upd c.p.defr k [] = c.p.defr := by funext x; simp only [upd]; split <;> simp_all [quiet]
    rw [e1, e2, e3]
    obtain ⟨g1, g2, g3⟩ := h
    refine ⟨g1, g2, ?_⟩
    intro k' hk'
    simp only [mem_remKey] at hk'
    exact g3 k' hk'.1
  · -- sdLock
    simp only [Option.some.injEq, Prod.mk.injEq] at hs; obtain ⟨rfl, _⟩ := hs
    exact Settled.of_shut rfl h.oo
  · rename_i b nA tot hpc
    have hsh := h1.sdShut t (by simp [hpc, inShutdown])
    split at hs <;>
      (simp only [Option.some.injEq, Prod.mk.injEq] at hs; obtain ⟨rfl, _⟩ := hs
       refine Settled.of_shut (by rw [(sdNext_fields _ _ _ _ _ _ _).1]; exact hsh) ?_
       simp only [OO, (sdNext_fields _ _ _ _ _ _ _).1]; exact h.oo)
  · rename_i b nA tot n T r hpc
    have hsh := h1.sdShut t (by simp [hpc, inShutdown])
    split at hs
    · simp only [Option.some.injEq, Prod.mk.injEq] at hs; obtain ⟨rfl, _⟩ := hs
      refine Settled.of_shut (by rw [(sdNext_fields _ _ _ _ _ _ _).1]; exact hsh) ?_
      simp only [OO, (sdNext_fields _ _ _ _ _ _ _).1]; exact h.oo
    · simp at hs
  · rename_i tot hpc
    have hsh := h1.sdShut t (by simp [hpc, inShutdown])
    simp only [Option.some.injEq, Prod.mk.injEq] at hs; obtain ⟨rfl, _⟩ := hs
    refine Settled.of_shut hsh ?_
    intro k' hk'; simp at hk'

theorem settled_init (maxT : Nat) (regs : List Client) (progs : List (List Op)) : Settled (Cfg.init maxT regs progs) := by
  refine ⟨?_, ?_, ?_⟩
  · intro _ k hf; simp [Cfg.init, Pool.init] at hf
  · intro _ k hp; simp [Cfg.init, Pool.init] at hp
  · intro k hk; simp [Cfg.init, Pool.init] at hk
