import MuscleModel.Conc.ProofsTP1

/-! # C19 proofs, layer 2: the accounting equation (every accepted Message once, in order) and the initial state -/

namespace Muscle.Conc.TP
open Muscle.Conc

structure InvH (c : Cfg) : Prop where
  fresh : ∀ T, c.p.idc ≤ T → (c.pth T).cur = none
  ho1 : ∀ k T, c.dropped k = [] → (c.pth T).cur = some k → c.handled k ++ (c.pth T).queue ++ c.p.pend k ++ c.p.defr k = c.submitted k
  ho2 : ∀ k, c.dropped k = [] → (∀ T, (c.pth T).cur ≠ some k) → c.handled k ++ c.p.pend k ++ c.p.defr k = c.submitted k
  nd : c.p.shut = false → ∀ k, c.dropped k = []

theorem InvH.congr {c c' : Cfg} (h : InvH c) (h1 : c'.pth = c.pth := by rfl) (h2 : c'.p.idc = c.p.idc := by rfl)
    (h3 : c'.dropped = c.dropped := by rfl) (h4 : c'.handled = c.handled := by rfl) (h5 : c'.submitted = c.submitted := by rfl)
    (h6 : c'.p.pend = c.p.pend := by rfl) (h7 : c'.p.defr = c.p.defr := by rfl)
    (h8 : c'.p.shut = false → c.p.shut = false := by first | exact id | (intro h; cases h)) : InvH c' := by
  obtain ⟨g1, g2, g3, g4⟩ := h
  constructor
  · simp only [h1, h2]; exact g1
  · simp only [h1, h3, h4, h5, h6, h7]; exact g2
  · simp only [h1, h3, h4, h5, h6, h7]; exact g3
  · intro hs; simp only [h3]; exact g4 (h8 hs)

theorem invH_spawnIfNeeded {c : Cfg} (h : InvH c) : InvH (spawnIfNeeded c) := by
  unfold spawnIfNeeded
  split
  · obtain ⟨g1, g2, g3, g4⟩ := h
    have := g1 c.p.idc (Nat.le_refl _)
    constructor <;> (simp only [upd, PTh.fresh] at *; grind)
  · exact h

theorem invH_assign {c : Cfg} {k : Client} {T : PTid} {rest : List PTid} (h : InvH c) (h0 : Inv0 c) (h1 : Inv1 c) (ha : c.p.availR = T :: rest)
    (hp : c.p.pend k ≠ []) (hs : c.p.shut = false) : InvH (assign c k T rest) := by
  have hf : c.p.flag k = false := by
    cases hfk : c.p.flag k with
    | false => rfl
    | true => exact absurd (h0.flagPend k hfk) hp
  have hT := (h0.availIdle T (by rw [ha]; simp)).1
  have hlt := h0.ltA T (by rw [ha]; simp)
  have hnone : ∀ T', (c.pth T').cur ≠ some k := by
    intro T' hc
    have := h1.s1 hs T' k (Or.inl hc)
    rw [hf] at this; cases this
  have hd := h1.f1 k hf
  obtain ⟨g1, g2, g3, g4⟩ := h
  constructor <;> (simp only [upd, assign] at *; grind)

theorem invH_dispatchLoop (ks : List Client) {c : Cfg} (h : InvH c) (h1 : Inv1 c) (h0 : Inv0 c) (hs : c.p.shut = false) : InvH (dispatchLoop ks c) := by
  induction ks generalizing c with
  | nil => exact h.congr
  | cons k ks ih =>
    unfold dispatchLoop
    split
    · rename_i hc
      split
      · rename_i T rest ha
        have hsp := spawn_avail_cases c
        have h0s := inv0_spawnIfNeeded h0
        have h1s := inv1_spawnIfNeeded h1
        have hk : k ∈ (spawnIfNeeded c).p.regK := by rw [hsp.1]; exact hc.1
        have hp : (spawnIfNeeded c).p.pend k ≠ [] := by rw [hsp.2.1]; exact hc.2
        have hss : (spawnIfNeeded c).p.shut = false := by rw [hsp.2.2.1]; exact hs
        exact ih (invH_assign (invH_spawnIfNeeded h) h0s h1s ha hp hss) (inv1_assign h1s h0s ha hk hp hss) (inv0_assign h0s ha hk) (by simp [assign, hss])
      · exact h.congr
    · rename_i hc
      have hpk : c.p.pend k = [] := by
        by_cases hr : k ∈ c.p.regK
        · by_cases hp : c.p.pend k = []
          · exact hp
          · exact absurd ⟨hr, hp⟩ hc
        · exact (h0.wfQ k hr).1
      have he : upd c.p.pend k [] = c.p.pend := by funext x; simp only [upd]; split <;> simp_all
      exact ih (h.congr (h6 := he)) (h1.congr (h6 := he)) (h0.congr' rfl (h7 := he)) hs

theorem invH_dispatch {c : Cfg} (h : InvH c) (h1 : Inv1 c) (h0 : Inv0 c) : InvH (dispatch c) := by
  unfold dispatch; split
  · exact h
  · rename_i hs; exact invH_dispatchLoop _ h h1 h0 (by simpa using hs)

theorem invH_addDefr {c : Cfg} (k : Client) (m : MsgId) (h : InvH c) : InvH (addDefr c k m) := by
  obtain ⟨g1, g2, g3, g4⟩ := h
  constructor <;> (simp only [upd, addDefr] at *; grind)

theorem invH_addPend {c : Cfg} (k : Client) (m : MsgId) (h : InvH c) (hd : c.p.defr k = []) : InvH (addPend c k m) := by
  obtain ⟨g1, g2, g3, g4⟩ := h
  constructor <;> (simp only [upd, addPend] at *; grind)

theorem invH_subCS {c : Cfg} (k : Client) (m : MsgId) (h : InvH c) (h1 : Inv1 c) (h0 : Inv0 c) 
    (hq : ∀ t, (c.uth t).pc ≠ .unregLock2 k ∧ (c.uth t).pc ≠ .unregWait k) : InvH (subCS c k m).1 := by
  unfold subCS
  split
  · exact h
  · rename_i hk
    have hk' : k ∈ c.p.regK := by simpa using hk
    split
    · exact invH_addDefr k m h
    · rename_i hf
      have hf' : c.p.flag k = false := by simpa using hf
      have ha := invH_addPend k m h (h1.f1 k hf')
      split
      · exact invH_dispatch ha (inv1_addPend k m h1 hq) (inv0_addPend k m h0 hk' hf')
      · exact ha

theorem invH_handBack {c : Cfg} (k : Client) (h : InvH c) (h0 : Inv0 c) (hf : c.p.flag k = true) : InvH (handBack c k) := by
  unfold handBack
  have hfp := h0.flagPend k hf
  obtain ⟨g1, g2, g3, g4⟩ := h
  split
  · split
    · constructor <;> (simp only [upd] at *; grind)
    · constructor <;> (simp only [upd] at *; grind)
  · constructor <;> assumption

theorem invH_release {c : Cfg} (T : PTid) (h : InvH c) : InvH (release c T) := by
  unfold release; split
  · exact h.congr
  · exact h

theorem invH_wake {c : Cfg} (k : Client) (h : InvH c) : InvH (wake c k) := by
  unfold wake; split
  · exact h.congr
  · exact h

theorem invH_finishCS {c : Cfg} (T : PTid) (k : Client) (h : InvH c) (h1 : Inv1 c) (h0 : Inv0 c)
    (hT : (c.pth T).cur = none ∧ ∀ k, (c.pth T).pc ≠ .finLock k) (hn : ∀ T, ¬ serving c T k) (hf : c.p.shut = false → c.p.flag k = true) :
    InvH (finishCS c T k) := by
  unfold finishCS; split
  · exact h
  · rename_i hs
    have hs' : c.p.shut = false := by simpa using hs
    have hb := inv1_handBack k h1 h0 hn hf hs'
    have hb0 := inv0_handBack k h0
    have hr0 := inv0_release T hb0 (by rw [handBack_pth]; exact hT)
    exact invH_wake _ (invH_dispatch (invH_release T (invH_handBack k h h0 (hf hs'))) (inv1_release T hb) hr0)

theorem invH_fetch {c : Cfg} (T : PTid) (h : InvH c) (h1 : Inv1 c) : InvH (fetch c T).1 := by
  have ho := h1.o1 T
  obtain ⟨g1, g2, g3, g4⟩ := h
  unfold fetch
  simp only
  split
  · constructor <;> (simp only [upd] at *; grind)
  · constructor <;> (simp only [upd] at *; grind)
  · split
    · constructor <;> (simp only [upd] at *; grind)
    · constructor <;> (simp only [serving, upd] at *; grind)
    · constructor <;> (simp only [upd] at *; grind)

theorem invH_setIdle {c : Cfg} (T : PTid) (h : InvH c) : InvH { c with pth := upd c.pth T { (c.pth T) with pc := .idle } } := by
  obtain ⟨g1, g2, g3, g4⟩ := h
  constructor <;> (simp only [upd] at *; grind)

theorem invH_stepPool {c c' : Cfg} {T : PTid} {o} (h : InvH c) (h1 : Inv1 c) (h0 : Inv0 c) (hs : stepPool c T = some (c', o)) : InvH c' := by
  unfold stepPool at hs
  simp only at hs
  split at hs
  · simp at hs
  · simp at hs
  · simp only [Option.some.injEq] at hs; have : c' = (fetch c T).1 := by rw [hs]
    rw [this]; exact invH_fetch T h h1
  · split at hs
    · simp at hs
    · simp only [Option.some.injEq] at hs; have : c' = (fetch c T).1 := by rw [hs]
      rw [this]; exact invH_fetch T h h1
  · rename_i hpc
    have ho := h1.o1 T
    obtain ⟨g1, g2, g3, g4⟩ := h
    split at hs
    · simp only [Option.some.injEq, Prod.mk.injEq] at hs; obtain ⟨rfl, _⟩ := hs
      constructor <;> (simp only [serving, upd] at *; grind)
    · simp only [Option.some.injEq, Prod.mk.injEq] at hs; obtain ⟨rfl, _⟩ := hs
      constructor <;> (simp only [serving, upd] at *; grind)
    · simp at hs
  · rename_i k hpc
    simp only [Option.some.injEq] at hs
    have : c' = (fetch (finishCS { c with pth := upd c.pth T { (c.pth T) with pc := .idle } } T k) T).1 := by rw [hs]
    rw [this]
    have hc := h0.finCur T k hpc
    have hn : ∀ T', ¬ serving { c with pth := upd c.pth T { (c.pth T) with pc := .idle } } T' k := by
      intro T' hsv
      have ho := h1.o1 T T' k (Or.inr hpc)
      by_cases hTT : T' = T
      · subst hTT; simp [serving, upd, hc] at hsv
      · have : serving c T' k := by simpa [serving, upd, hTT] using hsv
        exact hTT (ho this).symm
    have hfl : c.p.shut = false → c.p.flag k = true := fun hsh => h1.s1 hsh T k (Or.inr hpc)
    have hTi : ((upd c.pth T { (c.pth T) with pc := .idle }) T).cur = none ∧ ∀ k, ((upd c.pth T { (c.pth T) with pc := .idle }) T).pc ≠ .finLock k := by simp [upd, hc]
    apply invH_fetch
    · exact invH_finishCS T k (invH_setIdle T h) (inv1_setIdle T h1) (inv0_setIdle T h0) hTi hn hfl
    · exact inv1_finishCS T k (inv1_setIdle T h1) (inv0_setIdle T h0) hTi hn hfl

theorem sdNext_H {c : Cfg} (t : Tid) (b : Bool) (nA total n : Nat) (l : List PTid) (h : InvH c) : InvH (sdNext c t b nA total n l) := by
  obtain ⟨g1, g2, g3, g4⟩ := h
  unfold sdNext
  split
  · constructor <;> (simp only [upd] at *; grind)
  · split
    · constructor <;> assumption
    · split <;> constructor <;> assumption

theorem invH_stepUser {c c' : Cfg} {t : Tid} {o} (h : InvH c) (h1 : Inv1 c) (h0 : Inv0 c) (hd : Disc c) (hs : stepUser c t = some (c', o)) : InvH c' := by
  unfold stepUser at hs
  simp only at hs
  split at hs
  · simp at hs
  · split at hs
    · simp at hs
    all_goals first
      | (split at hs <;> (simp only [Option.some.injEq, Prod.mk.injEq] at hs; obtain ⟨rfl, _⟩ := hs; exact h.congr))
      | (simp only [Option.some.injEq, Prod.mk.injEq] at hs; obtain ⟨rfl, _⟩ := hs; exact h.congr)
  · rename_i k m hpc
    simp only [Option.some.injEq, Prod.mk.injEq] at hs; obtain ⟨rfl, _⟩ := hs
    have hq : ∀ t', (c.uth t').pc ≠ .unregLock2 k ∧ (c.uth t').pc ≠ .unregWait k := by
      intro t'
      have hu := h1.us t k m hpc
      constructor
      · intro hp; have := hd t t' k hu (h1.mg t' k (by rw [hp]; rfl)); subst this; rw [hpc] at hp; cases hp
      · intro hp; have := hd t t' k hu (h1.mg t' k (by rw [hp]; rfl)); subst this; rw [hpc] at hp; cases hp
    exact (invH_subCS k m h h1 h0 hq).congr
  · simp only [Option.some.injEq, Prod.mk.injEq] at hs; obtain ⟨rfl, _⟩ := hs; exact h.congr
  · split at hs <;> (simp only [Option.some.injEq, Prod.mk.injEq] at hs; obtain ⟨rfl, _⟩ := hs; exact h.congr)
  · split at hs
    · simp only [Option.some.injEq, Prod.mk.injEq] at hs; obtain ⟨rfl, _⟩ := hs; exact h.congr
    · simp at hs
  · rename_i k hpc
    simp only [Option.some.injEq, Prod.mk.injEq] at hs; obtain ⟨rfl, _⟩ := hs
    have hqk := h1.u1 t k hpc
    have e2 : upd c.p.pend k [] = c.p.pend := by funext x; simp only [upd]; split <;> simp_all [quiet]
    have e3 : upd c.p.defr k [] = c.p.defr := by funext x; simp only [upd]; split <;> simp_all [quiet]
    have e4 : upd c.dropped k (c.dropped k ++ c.p.pend k ++ c.p.defr k) = c.dropped := by
      funext x; simp only [upd]; split <;> simp_all [quiet]
    rw [e2, e3, e4]
    exact h.congr
  · simp only [Option.some.injEq, Prod.mk.injEq] at hs; obtain ⟨rfl, _⟩ := hs; exact h.congr
  · split at hs <;> (simp only [Option.some.injEq, Prod.mk.injEq] at hs; obtain ⟨rfl, _⟩ := hs; exact sdNext_H _ _ _ _ _ _ h.congr)
  · split at hs
    · simp only [Option.some.injEq, Prod.mk.injEq] at hs; obtain ⟨rfl, _⟩ := hs; exact sdNext_H _ _ _ _ _ _ h
    · simp at hs
  · rename_i tot hpc
    simp only [Option.some.injEq, Prod.mk.injEq] at hs; obtain ⟨rfl, _⟩ := hs
    have hsh := h1.sdShut t (by simp [hpc, inShutdown])
    obtain ⟨g1, g2, g3, g4⟩ := h
    constructor <;> (simp only [dropAll, List.append_eq_nil_iff] at *; grind)

/-- all layers -/
structure InvAll (c : Cfg) : Prop where
  inv : Inv c
  h : InvH c

theorem invAll_step {c c' : Cfg} {e : Ev} {o} (h : InvAll c) (hs : step c e = some (c', o)) : InvAll c' := by
  refine ⟨inv_step h.inv hs, ?_⟩
  cases e with
  | timeout t => simp [step] at hs
  | run i =>
    simp only [step] at hs
    split at hs
    · exact invH_stepUser h.h h.inv.i1 h.inv.i0 h.inv.disc hs
    · exact invH_stepPool h.h h.inv.i1 h.inv.i0 hs

/-! ## Initial state -/

/-- the client discipline, stated on the programs: a client that some program (un)registers is used by that program only -/
def Disciplined (progs : List (List Op)) : Prop :=
  ∀ t t' k, (∃ op ∈ progs.getD t [], opClient op = some k) → (Op.reg k ∈ progs.getD t' [] ∨ Op.unreg k ∈ progs.getD t' []) → t = t'

theorem mem_foldl_addKey (regs : List Nat) (l : List Nat) (k : Nat) : k ∈ regs.foldl addKey l ↔ k ∈ l ∨ k ∈ regs := by
  induction regs generalizing l with
  | nil => simp
  | cons a r ih => simp only [List.foldl_cons, ih, mem_addKey, List.mem_cons]; grind

theorem init_uth_prog (maxT : Nat) (regs : List Client) (progs : List (List Op)) (t : Tid) :
    ((Cfg.init maxT regs progs).uth t).prog = progs.getD t [] ∧ ((Cfg.init maxT regs progs).uth t).notif = 0 ∧
    (((Cfg.init maxT regs progs).uth t).pc = .done ∨ ((Cfg.init maxT regs progs).uth t).pc = .opStart) := by
  simp only [Cfg.init, List.getD_eq_getElem?_getD]
  cases progs[t]? with
  | none => simp [UTh.ofProg]
  | some p => simp only [UTh.ofProg, Option.getD_some, true_and]; split <;> simp

theorem invAll_init (maxT : Nat) (regs : List Client) (progs : List (List Op)) (hd : Disciplined progs) : InvAll (Cfg.init maxT regs progs) := by
  have hu := init_uth_prog maxT regs progs
  refine ⟨⟨inv0_init maxT regs progs, ?_, ?_⟩, ?_⟩
  · constructor
    · intro t k h; rcases (hu t).2.2 with h' | h' <;> (rw [h'] at h; cases h)
    · intro t k m h; rcases (hu t).2.2 with h' | h' <;> (rw [h'] at h; cases h)
    · intro t h; rcases (hu t).2.2 with h' | h' <;> (rw [h'] at h; cases h)
    · intro k hk
      have : k ∈ regs := by simpa [Cfg.init, Pool.init, mem_foldl_addKey] using hk
      simp [Cfg.init, this]
    · intro t k h; rcases (hu t).2.2 with h' | h' <;> (rw [h'] at h; cases h)
    · intro t k h; rcases (hu t).2.2 with h' | h' <;> (rw [h'] at h; cases h)
    · intro _ T k h; simp [serving, Cfg.init, PTh.absent] at h
    · intro T T' k h; simp [serving, Cfg.init, PTh.absent] at h
    · intro k _; rfl
    · intro t k h; rcases (hu t).2.2 with h' | h' <;> (rw [h'] at h; cases h)
    · intro t k h; rcases (hu t).2.2 with h' | h' <;> (rw [h'] at h; cases h)
    · intro t h; rw [(hu t).2.1] at h; cases h
    · intro k h; simp [Cfg.init, Pool.init] at h
    · intro k h; simp [Cfg.init, Pool.init] at h
  · intro t t' k hus hm
    apply hd t t' k
    · obtain ⟨op, ho, hc⟩ := hus; exact ⟨op, by rw [← (hu t).1]; exact ho, hc⟩
    · unfold manages at hm; rw [(hu t').1] at hm; exact hm
  · constructor
    · intro T _; rfl
    · intro k T _ h; simp [Cfg.init, PTh.absent] at h
    · intro k _ _; rfl
    · intro _ k; rfl

theorem reach_invAll {maxT regs progs c} (hd : Disciplined progs) (h : machine.Reach (Cfg.init maxT regs progs) c) : InvAll c :=
  Machine.Reach.invariant machine InvAll (invAll_init maxT regs progs hd) (fun _ _ _ _ hi hs => invAll_step hi hs) h

end Muscle.Conc.TP
