import MuscleModel.Conc.ProofsRCStep2

/-! # The joint invariant holds in every reachable configuration (lemmas for C10) -/

namespace Muscle.Conc.RC
open Muscle.Conc Muscle.Conc.Pool

theorem inv_prog {c : Cfg} {t : Nat} {th : Th} (h : Inv c) (ht : c.ths[t]? = some th) (rest : List Op) :
    Inv { c with ths := c.ths.set t { th with prog := rest } } :=
  inv_local (g' := c.glob) h ht (fun _ => rfl) rfl (fun _ => rfl) (fun _ hs => hs)

theorem inv_startOp {c c1 : Cfg} {t : Nat} {th th' : Th} {op : Op} {rest : List Op} {evs : List Evt} (h : Inv c)
    (ht : c.ths[t]? = some th) (htodo : th.todo = []) (hs : startOp c t th op rest = (c1, th', evs)) :
    Inv { c1 with ths := c1.ths.set t th' } := by
  unfold startOp at hs
  split at hs
  · cases hs; exact inv_prog h ht rest
  · rename_i hok
    cases op with
    | newHeap a =>
      simp only [opOk, decide_eq_false_iff_not, Classical.not_not] at hok
      cases hs
      exact inv_newHeap h ht hok htodo rest
    | newPool a =>
      simp only [opOk, decide_eq_false_iff_not, Classical.not_not] at hok
      cases hs
      exact inv_clear h ht hok htodo [.obtain] [.incRaw a] rest neutral_obtain (neutral_incRaw a)
    | copy a b =>
      simp only [opOk, decide_eq_false_iff_not, Classical.not_not] at hok
      simp only at hs
      split at hs
      · split at hs
        · cases hs; exact inv_prog h ht rest
        · cases hs; exact inv_clear h ht hok.1 htodo [] [.incFrom a b] rest neutral_nil (neutral_incFrom a b)
      · cases hs
        have := inv_clear h ht hok.1 htodo [] [] rest neutral_nil neutral_nil
        simpa using this
    | setRef a b =>
      simp only [opOk, decide_eq_false_iff_not, Classical.not_not] at hok
      simp only at hs
      split at hs
      · split at hs
        · cases hs; exact inv_prog h ht rest
        · cases hs; exact inv_clear h ht hok.1 htodo [] [.incFrom a b] rest neutral_nil (neutral_incFrom a b)
      · cases hs
        have := inv_clear h ht hok.1 htodo [] [] rest neutral_nil neutral_nil
        simpa using this
    | reset a =>
      simp only [opOk, decide_eq_false_iff_not, Classical.not_not] at hok
      cases hs
      have := inv_clear h ht hok htodo [] [] rest neutral_nil neutral_nil
      simpa using this
    | swap a b =>
      simp only [opOk, decide_eq_false_iff_not, Classical.not_not] at hok
      cases hs
      exact inv_swap h ht hok.1 hok.2 rest
    | xchg a g =>
      simp only [opOk, decide_eq_false_iff_not, Classical.not_not] at hok
      cases hs
      exact inv_xchg h ht hok.1 hok.2 rest
    | write a =>
      simp only at hs
      split at hs
      · rename_i o ho; cases hs; exact inv_write h ht ho rest (t + 1)
      · cases hs; exact inv_prog h ht rest
    | ccast a b =>
      simp only [opOk, decide_eq_false_iff_not, Classical.not_not] at hok
      simp only at hs
      split at hs
      · cases hs; exact inv_todo h ht htodo [.incTmp b, .incSwap a b] rest (neutral_ccast a b)
      · cases hs
        have := inv_clear h ht hok.1 htodo [] [] rest neutral_nil neutral_nil
        simpa using this


theorem neutral_single_incFrom (a b : Nat) : Neutral [.incFrom a b] := neutral_incFrom a b
theorem neutral_single_incRaw (a : Nat) : Neutral [.incRaw a] := neutral_incRaw a

theorem inv_doAct {c c1 : Cfg} {t : Nat} {th th' : Th} {act : Act} {more : List Act} {evs : List Evt} (h : Inv c)
    (ht : c.ths[t]? = some th) (htodo : th.todo = act :: more) (hs : doAct c th act more = (c1, th', evs)) :
    Inv { c1 with ths := c1.ths.set t th' } := by
  unfold doAct at hs
  cases act with
  | dec o =>
    simp only at hs
    split at hs
    · rename_i hz
      split at hs
      · rename_i hm; cases hs; exact inv_dec_recycle h ht htodo hz hm
      · rename_i hm; cases hs
        exact inv_dec_delete h ht htodo hz (by simpa using hm)
    · rename_i hnz; cases hs; exact inv_dec_more h ht htodo hnz
  | incFrom a b =>
    simp only at hs
    split at hs
    · cases hs; exact inv_drop h ht htodo (neutral_single_incFrom a b)
    · rename_i hg
      split at hs
      · rename_i o ho; cases hs; exact inv_incFrom h ht htodo (by simpa using hg) ho
      · cases hs; exact inv_drop h ht htodo (neutral_single_incFrom a b)
  | incRaw a =>
    simp only at hs
    split at hs
    · cases hs; exact inv_drop h ht htodo (neutral_single_incRaw a)
    · rename_i hg
      split at hs
      · rename_i o ho; cases hs; exact inv_incRaw h ht htodo (by simpa using hg) ho
      · cases hs; exact inv_drop h ht htodo (neutral_single_incRaw a)
  | incTmp b =>
    simp only at hs
    split at hs
    · rename_i o ho; cases hs; exact inv_incTmp h ht htodo ho
    · cases hs; exact inv_drop h ht htodo (neutral_single_incTmp b)
  | incSwap a b =>
    simp only at hs
    split at hs
    · cases hs; exact inv_drop h ht htodo (neutral_single_incSwap a b)
    · rename_i hg
      split at hs
      · rename_i o ho; cases hs; exact inv_incSwap h ht htodo (by omega) ho
      · cases hs; exact inv_drop h ht htodo (neutral_single_incSwap a b)
  | obtain =>
    simp only at hs
    rcases hob : obtain c.pool with ⟨p', g⟩
    rw [hob] at hs
    cases hs
    exact inv_obtain h ht htodo hob
  | release o =>
    cases o with
    | heap k => exact absurd (no_release_heap h ht htodo) id
    | node sid i =>
      simp only at hs
      rcases hrl : release c.pool sid i with ⟨p', del⟩
      rw [hrl] at hs
      cases del with
      | none => cases hs; simpa [delActs] using inv_release h ht htodo hrl
      | some s => cases hs; simpa [delActs] using inv_release h ht htodo hrl
  | delSlab s =>
    cases hs; exact inv_delSlab h ht htodo

/-- every enabled event preserves the joint invariant -/
theorem inv_step {c c' : Cfg} {e : Ev} {out : List Evt} (h : Inv c) (hs : step c e = some (c', out)) : Inv c' := by
  unfold step at hs
  cases e with
  | timeout t => cases hs
  | run t =>
    simp only at hs
    cases ht : c.ths[t]? with
    | none => rw [ht] at hs; cases hs
    | some th =>
      rw [ht] at hs
      simp only at hs
      cases htodo : th.todo with
      | nil =>
        cases hprog : th.prog with
        | nil => rw [htodo, hprog] at hs; cases hs
        | cons op rest =>
          rw [htodo, hprog] at hs
          simp only at hs
          rcases hso : startOp c t th op rest with ⟨c1, th', evs⟩
          rw [hso] at hs
          cases hs
          exact inv_startOp h ht htodo hso
      | cons act more =>
        rw [htodo] at hs
        simp only at hs
        rcases hda : doAct c th act more with ⟨c1, th', evs⟩
        rw [hda] at hs
        cases hs
        exact inv_doAct h ht htodo hda

theorem init_inv (N maxPool L G : Nat) (progs : List (List Op)) (hN : 0 < N) : Inv (Cfg.init N maxPool L G progs) := by
  have hths : ∀ (t : Nat) (th : Th), (Cfg.init N maxPool L G progs).ths[t]? = some th → th.raw = none ∧ th.todo = [] ∧ th.slots = List.replicate L none := by
    intro t th ht
    simp only [Cfg.init, List.getElem?_map] at ht
    cases hp : progs[t]? with
    | none => rw [hp] at ht; cases ht
    | some p => rw [hp] at ht; simp at ht; subst ht; exact ⟨rfl, rfl, rfl⟩
  have hmem : ∀ th ∈ (Cfg.init N maxPool L G progs).ths, th.raw = none ∧ th.todo = [] ∧ th.slots = List.replicate L none := by
    intro th hm
    obtain ⟨t, hl, rfl⟩ := List.getElem_of_mem hm
    exact hths t _ (List.getElem?_eq_getElem hl)
  have hrefs : ∀ o, refs (Cfg.init N maxPool L G progs) o = 0 := by
    intro o
    simp only [refs]
    rw [sumT_zero (fun th hm => by
      have ⟨_, h2, h3⟩ := hmem th hm
      simp [Th.refs, h2, h3, cntDec, cntS_replicate_none])]
    simp [Cfg.init, cntS_replicate_none]
  have hpr : ∀ o, pendRel (Cfg.init N maxPool L G progs) o = 0 := by
    intro o
    simp only [pendRel]
    exact sumT_zero (fun th hm => by have ⟨_, h2, _⟩ := hmem th hm; simp [h2, cntRel])
  refine ⟨init_poolInv N maxPool hN, ?_, ?_, ?_, ?_, ?_, ?_, ?_, ?_, ?_, ?_, ?_, ?_⟩
  · intro o; rw [hrefs]; rfl
  · intro o ho; rw [hrefs] at ho; omega
  · intro t th o ht hr; rw [(hths t th ht).1] at hr; cases hr
  · intro t u th tu o ht _ hr; rw [(hths t th ht).1] at hr; cases hr
  · intro o; rfl
  · intro o
    rw [hpr]
    cases o with
    | heap k => rfl
    | node s i => simp [aliveN, outBitO, outBit, Cfg.init, PoolSt.init]
  · intro k _; exact ⟨rfl, rfl⟩
  · intro k; rfl
  · intro k; simp [Cfg.init]
  · intro s i ha; simp [Cfg.init] at ha
  · intro s i _; exact ⟨rfl, rfl⟩
  · intro t th s ht hs; rw [(hths t th ht).2.1] at hs; cases hs

/-- the joint invariant holds in every reachable configuration -/
theorem reach_inv {N maxPool L G : Nat} {progs : List (List Op)} (hN : 0 < N) {c : Cfg}
    (h : machine.Reach (Cfg.init N maxPool L G progs) c) : Inv c :=
  Machine.Reach.invariant machine Inv (init_inv N maxPool L G progs hN) (fun _ _ _ _ hi hs => inv_step hi hs) h

end Muscle.Conc.RC
