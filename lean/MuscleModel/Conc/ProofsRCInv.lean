import MuscleModel.Conc.ProofsRCStep3

/-! # The joint invariant holds in every reachable configuration (lemmas for C10) -/

namespace Muscle.Conc.RC
open Muscle.Conc Muscle.Conc.Pool

theorem inv_prog {c : Cfg} {t : Nat} {th : Th} (h : Inv c) (ht : c.ths[t]? = some th) (rest : List Op) :
    Inv { c with ths := c.ths.set t { th with prog := rest } } :=
  inv_local (g' := c.glob) h ht (fun _ => rfl) rfl (fun _ => rfl) (fun _ _ hs => hs)

theorem inv_clear0 {c : Cfg} {t : Nat} {th : Th} {a : Nat} (h : Inv c) (ht : c.ths[t]? = some th) (ha : a < th.slots.length)
    (htodo : th.todo = []) (v : Slot) (hv : ∀ o, v ≠ some (o, true)) (rest : List Op) :
    Inv { c with ths := c.ths.set t { th with slots := th.slots.set a v, todo := decOld (slotOf th a), prog := rest } } := by
  have := inv_clear h ht ha htodo v hv [] [] rest neutral_nil neutral_nil
  simpa using this

theorem inv_switchTo {c c1 : Cfg} {t : Nat} {th th' : Th} {a b : Nat} {o : Oid} {f : Bool} {rest : List Op} {evs : List Evt} (h : Inv c)
    (ht : c.ths[t]? = some th) (htodo : th.todo = []) (ha : a < th.slots.length)
    (hs : switchTo c th a b o f rest = (c1, th', evs)) : Inv { c1 with ths := c1.ths.set t th' } := by
  unfold switchTo at hs
  split at hs
  · cases hs; exact inv_todo h ht htodo [.incSlot a b] rest (neutral_incSlot a b)
  · cases hs; exact inv_clear0 h ht ha htodo (some (o, false)) (by intro x hx; cases hx) rest

theorem inv_setRefTo {c c1 : Cfg} {t : Nat} {th th' : Th} {a b : Nat} {o : Oid} {f : Bool} {rest : List Op} {evs : List Evt} (h : Inv c)
    (ht : c.ths[t]? = some th) (htodo : th.todo = []) (ha : a < th.slots.length)
    (hs : setRefTo c th a b o f rest = (c1, th', evs)) : Inv { c1 with ths := c1.ths.set t th' } := by
  unfold setRefTo at hs
  split at hs
  · rename_i o' fa hsa
    split at hs
    · rename_i hoo; subst hoo
      split at hs
      · cases hs; exact inv_prog h ht rest
      · split at hs
        · cases hs; exact inv_todo h ht htodo [.incSame a] rest (neutral_incSame a)
        · rename_i hne hf
          have hfa : fa = true := by cases fa <;> cases f <;> simp_all
          subst hfa
          cases hs
          exact inv_demote h ht htodo hsa (some (o', false)) (by intro x hx; cases hx) rest
    · exact inv_switchTo h ht htodo ha hs
  · exact inv_switchTo h ht htodo ha hs

theorem inv_startOp {c c1 : Cfg} {t : Nat} {th th' : Th} {op : Op} {rest : List Op} {evs : List Evt} (h : Inv c)
    (ht : c.ths[t]? = some th) (htodo : th.todo = []) (hs : startOp .new c t th op rest = (c1, th', evs)) :
    Inv { c1 with ths := c1.ths.set t th' } := by
  unfold startOp at hs
  split at hs
  · cases hs; exact inv_prog h ht rest
  · rename_i hok
    have hnone : ∀ o : Oid, (none : Slot) ≠ some (o, true) := by intro o hx; cases hx
    cases op with
    | newHeap a => cases hs; exact inv_newHeap h ht htodo rest
    | newPool a => cases hs; exact inv_todo h ht htodo [.obtain, .incRaw a] rest (neutral_append neutral_obtain (neutral_incRaw a))
    | copy a b =>
      simp only [opOk, decide_eq_false_iff_not, Classical.not_not] at hok
      simp only at hs
      split at hs
      · exact inv_setRefTo h ht htodo hok.1 hs
      · cases hs; exact inv_clear0 h ht hok.1 htodo none hnone rest
    | setRef a b =>
      simp only [opOk, decide_eq_false_iff_not, Classical.not_not] at hok
      simp only at hs
      split at hs
      · exact inv_setRefTo h ht htodo hok.1 hs
      · cases hs; exact inv_prog h ht rest
      · cases hs; exact inv_clear0 h ht hok.1 htodo none hnone rest
    | reset a =>
      simp only [opOk, decide_eq_false_iff_not, Classical.not_not] at hok
      cases hs; exact inv_clear0 h ht hok htodo none hnone rest
    | swap a b =>
      simp only [opOk, decide_eq_false_iff_not, Classical.not_not] at hok
      cases hs; exact inv_swap h ht hok.1 hok.2 rest
    | xchg a g =>
      simp only [opOk, decide_eq_false_iff_not, Classical.not_not] at hok
      cases hs; exact inv_xchg h ht hok.1 hok.2 rest
    | write a =>
      simp only at hs
      split at hs
      · rename_i o ho; cases hs; exact inv_write h ht ho rest (t + 1)
      · cases hs; exact inv_prog h ht rest
    | ccast a b =>
      simp only [opOk, decide_eq_false_iff_not, Classical.not_not] at hok
      simp only at hs
      split at hs
      · cases hs; exact inv_todo h ht htodo [.incTmp b, .incSlot a b] rest (neutral_append (neutral_incTmp b) (neutral_incSlot a b))
      · rename_i o ho; cases hs; exact inv_clear0 h ht hok.1 htodo (some (o, false)) (by intro x hx; cases hx) rest
      · cases hs; exact inv_clear0 h ht hok.1 htodo none hnone rest
    | link a b =>
      simp only at hs
      split at hs
      · split at hs
        · cases hs; exact inv_prog h ht rest
        · split at hs
          · split at hs
            · cases hs; exact inv_prog h ht rest
            · cases hs; exact inv_todo h ht htodo [.incNext a b] rest (neutral_incNext a b)
          · cases hs; exact inv_prog h ht rest
          · cases hs; exact inv_unlink h ht htodo rest
      · cases hs; exact inv_prog h ht rest
    | unlink a =>
      simp only at hs
      split at hs
      · split at hs
        · cases hs; exact inv_prog h ht rest
        · cases hs; exact inv_unlink h ht htodo rest
      · cases hs; exact inv_prog h ht rest
    | pop a =>
      simp only [opOk, decide_eq_false_iff_not, Classical.not_not] at hok
      simp only at hs
      split at hs
      · split at hs
        · cases hs; exact inv_todo h ht htodo [.incPop a] rest (neutral_incPop a)
        · cases hs; exact inv_clear0 h ht hok htodo none hnone rest
      · cases hs; exact inv_prog h ht rest
    | weak a b =>
      simp only [opOk, decide_eq_false_iff_not, Classical.not_not] at hok
      simp only at hs
      split at hs
      · exact inv_setRefTo h ht htodo hok.1 hs
      · cases hs; exact inv_clear0 h ht hok.1 htodo none hnone rest
    | promote a =>
      simp only at hs
      split at hs
      · split at hs
        · cases hs; exact inv_todo h ht htodo [.incSame a] rest (neutral_incSame a)
        · cases hs; exact inv_prog h ht rest
      · cases hs; exact inv_prog h ht rest
    | demote a =>
      simp only at hs
      split at hs
      · rename_i o ho; cases hs; exact inv_demote h ht htodo ho (some (o, false)) (by intro x hx; cases hx) rest
      · cases hs; exact inv_prog h ht rest
    | neutral a =>
      simp only [opOk, decide_eq_false_iff_not, Classical.not_not] at hok
      simp only at hs
      split at hs
      · rename_i o ho; cases hs; exact inv_demote h ht htodo ho none hnone rest
      · rename_i hne; cases hs
        exact inv_setWeak h ht hok (fun x hx => hne x hx) none hnone rest


theorem inv_doAct {c c1 : Cfg} {t : Nat} {th th' : Th} {act : Act} {more : List Act} {evs : List Evt} (h : Inv c)
    (ht : c.ths[t]? = some th) (htodo : th.todo = act :: more) (hs : doAct c th act more = (c1, th', evs)) :
    Inv { c1 with ths := c1.ths.set t th' } := by
  unfold doAct at hs
  cases act with
  | dec o =>
    simp only at hs
    split at hs
    · rename_i hz
      split at hs
      · rename_i hm; cases hs
        exact inv_dec_last h ht htodo hz _ _ (Or.inl ⟨rfl, hm, rfl⟩)
      · rename_i hm; cases hs
        exact inv_dec_last h ht htodo hz _ _ (Or.inr ⟨rfl, by simpa using hm, rfl⟩)
    · cases hs; exact inv_dec_more h ht htodo (fun x => by simp [cntDec]) (fun _ => rfl)
  | decNoDel o =>
    cases hs; exact inv_dec_more h ht htodo (fun x => by simp [cntDec]) (fun _ => rfl)
  | incSlot a b =>
    simp only at hs
    split at hs
    · cases hs; exact inv_drop h ht htodo (neutral_incSlot a b)
    · rename_i hg
      split at hs
      · rename_i o ho; cases hs; exact inv_incSlot h ht htodo (by omega) ho
      · cases hs; exact inv_drop h ht htodo (neutral_incSlot a b)
  | incRaw a =>
    simp only at hs
    split at hs
    · cases hs; exact inv_drop h ht htodo (neutral_incRaw a)
    · rename_i hg
      split at hs
      · rename_i o ho; cases hs; exact inv_incRaw h ht htodo (by omega) ho
      · cases hs; exact inv_drop h ht htodo (neutral_incRaw a)
  | incTmp b =>
    simp only at hs
    split at hs
    · rename_i o ho; cases hs; exact inv_incTmp h ht htodo ho
    · cases hs; exact inv_drop h ht htodo (neutral_incTmp b)
  | incSame a =>
    simp only at hs
    split at hs
    · rename_i o ho
      split at hs
      · rename_i hce; cases hs; exact inv_incSame h ht htodo ho hce
      · cases hs; exact inv_drop h ht htodo (neutral_incSame a)
    · cases hs; exact inv_drop h ht htodo (neutral_incSame a)
  | incNext a b =>
    simp only at hs
    split at hs
    · rename_i o n hoa hnb; cases hs; exact inv_incNext h ht htodo hoa hnb
    · cases hs; exact inv_drop h ht htodo (neutral_incNext a b)
  | incPop a =>
    simp only at hs
    split at hs
    · rename_i o ho
      split at hs
      · rename_i n hn; cases hs; exact inv_incPop h ht htodo ho hn
      · cases hs; exact inv_drop h ht htodo (neutral_incPop a)
    · cases hs; exact inv_drop h ht htodo (neutral_incPop a)
  | incOld a n =>
    exact absurd (by rw [htodo]; simp) (h.noOld t th a n ht)
  | obtain =>
    simp only at hs
    rcases hob : obtain c.pool with ⟨p', g⟩
    rw [hob] at hs
    cases hs
    exact inv_obtain h ht htodo hob
  | release o =>
    cases o with
    | heap k => exact absurd (no_release_heap h ht htodo) id
    | node sid i =>
      simp only at hs
      rcases hrl : release c.pool sid i with ⟨p', del⟩
      rw [hrl] at hs
      cases del with
      | none => cases hs; simpa [delActs] using inv_release h ht htodo hrl
      | some s => cases hs; simpa [delActs] using inv_release h ht htodo hrl
  | unlocked =>
    cases hs; exact inv_drop h ht htodo neutral_unlocked
  | delSlab s =>
    cases hs; exact inv_delSlab h ht htodo

/-- every enabled event preserves the joint invariant -/
theorem inv_step {c c' : Cfg} {e : Ev} {out : List Evt} (h : Inv c) (hs : step .new c e = some (c', out)) : Inv c' := by
  unfold step at hs
  cases e with
  | timeout t => cases hs
  | run t =>
    simp only at hs
    cases ht : c.ths[t]? with
    | none => rw [ht] at hs; cases hs
    | some th =>
      rw [ht] at hs
      simp only at hs
      cases htodo : th.todo with
      | nil =>
        cases hprog : th.prog with
        | nil => rw [htodo, hprog] at hs; cases hs
        | cons op rest =>
          rw [htodo, hprog] at hs
          simp only at hs
          rcases hso : startOp .new c t th op rest with ⟨c1, th', evs⟩
          rw [hso] at hs
          cases hs
          exact inv_startOp h ht htodo hso
      | cons act more =>
        rw [htodo] at hs
        simp only at hs
        rcases hda : doAct c th act more with ⟨c1, th', evs⟩
        rw [hda] at hs
        cases hs
        exact inv_doAct h ht htodo hda

theorem init_inv (N maxPool L G : Nat) (progs : List (List Op)) (hN : 0 < N) : Inv (Cfg.init N maxPool L G progs) := by
  have hths : ∀ (t : Nat) (th : Th), (Cfg.init N maxPool L G progs).ths[t]? = some th → th.raw = none ∧ th.todo = [] ∧ th.slots = List.replicate L none := by
    intro t th ht
    simp only [Cfg.init, List.getElem?_map] at ht
    cases hp : progs[t]? with
    | none => rw [hp] at ht; cases ht
    | some p => rw [hp] at ht; simp at ht; subst ht; exact ⟨rfl, rfl, rfl⟩
  have hmem : ∀ th ∈ (Cfg.init N maxPool L G progs).ths, th.raw = none ∧ th.todo = [] ∧ th.slots = List.replicate L none := by
    intro th hm
    obtain ⟨t, hl, rfl⟩ := List.getElem_of_mem hm
    exact hths t _ (List.getElem?_eq_getElem hl)
  have hrefs : ∀ o, refs (Cfg.init N maxPool L G progs) o = 0 := by
    intro o
    simp only [refs]
    rw [sumT_zero (fun th hm => by
      have ⟨_, h2, h3⟩ := hmem th hm
      simp [Th.refs, h2, h3, cntDec, cntS_replicate_none])]
    simp [Cfg.init, cntS_replicate_none, cntL]
  have hpr : ∀ o, pendRel (Cfg.init N maxPool L G progs) o = 0 := by
    intro o
    simp only [pendRel]
    exact sumT_zero (fun th hm => by have ⟨_, h2, _⟩ := hmem th hm; simp [h2, cntRel])
  refine ⟨init_poolInv N maxPool hN, ?_, ?_, ?_, ?_, ?_, ?_, ?_, ?_, ?_, ?_, ?_, ?_, ?_, ?_, ?_⟩
  · intro o; rw [hrefs]; rfl
  · intro o ho; rw [hrefs] at ho; omega
  · intro t th o ht hr; rw [(hths t th ht).1] at hr; cases hr
  · intro t u th tu o ht _ hr; rw [(hths t th ht).1] at hr; cases hr
  · intro o; rfl
  · intro o
    rw [hpr]
    cases o with
    | heap k => rfl
    | node s i => simp [aliveN, outBitO, outBit, Cfg.init, PoolSt.init]
  · intro k _; exact ⟨rfl, rfl⟩
  · intro k; rfl
  · intro k; simp [Cfg.init]
  · intro s i ha; simp [Cfg.init] at ha
  · intro s i _; exact ⟨rfl, rfl⟩
  · intro t th s ht hs; rw [(hths t th ht).2.1] at hs; cases hs
  · simp [Cfg.init]
  · intro x n hm; simp [Cfg.init] at hm
  · intro t th a n ht hm; rw [(hths t th ht).2.1] at hm; cases hm

/-- the joint invariant holds in every reachable configuration -/
theorem reach_inv {N maxPool L G : Nat} {progs : List (List Op)} (hN : 0 < N) {c : Cfg}
    (h : machine.Reach (Cfg.init N maxPool L G progs) c) : Inv c :=
  Machine.Reach.invariant machine Inv (init_inv N maxPool L G progs hN) (fun _ _ _ _ hi hs => inv_step hi hs) h

end Muscle.Conc.RC
