import MuscleModel.Conc.ProofsTP6

/-! # C19 proofs, layer 7: a ranking function for the shutdown phase

Once `_shuttingDown` is set nothing is dispatched any more, so every thread only consumes: user threads consume their
programs (and the stages of the call in progress), pool threads consume their inbox and their batch, and `Shutdown()`
consumes the thread tables.  `rank` adds this up; every step taken while `_shuttingDown` is set makes it smaller. -/

namespace Muscle.Conc.TP
open Muscle.Conc

def sumTo : Nat → (Nat → Nat) → Nat
  | 0, _ => 0
  | n + 1, f => sumTo n f + f n

theorem sumTo_le {n : Nat} {f g : Nat → Nat} (h : ∀ i, i < n → f i ≤ g i) : sumTo n f ≤ sumTo n g := by
  induction n with
  | zero => exact Nat.le_refl _
  | succ n ih =>
    simp only [sumTo]
    exact Nat.add_le_add (ih (fun i hi => h i (Nat.lt_succ_of_lt hi))) (h n (Nat.lt_succ_self n))

/-- pointwise ≤, and at index j there is a slack of d -/
theorem sumTo_slack {n : Nat} {f g : Nat → Nat} (h : ∀ i, i < n → f i ≤ g i) (j d : Nat) (hj : j < n) (hd : f j + d ≤ g j) :
    sumTo n f + d ≤ sumTo n g := by
  induction n with
  | zero => cases hj
  | succ n ih =>
    simp only [sumTo]
    by_cases hjn : j = n
    · subst hjn
      have := sumTo_le (n := j) (fun i hi => h i (Nat.lt_succ_of_lt hi))
      omega
    · have hj' : j < n := by omega
      have := ih (fun i hi => h i (Nat.lt_succ_of_lt hi)) hj'
      have := h n (Nat.lt_succ_self n)
      omega

/-- one index grows by at most d, the others do not grow -/
theorem sumTo_grow {n : Nat} {f g : Nat → Nat} (j d : Nat) (h : ∀ i, i < n → i ≠ j → g i ≤ f i) (hj : g j ≤ f j + d) :
    sumTo n g ≤ sumTo n f + d := by
  induction n with
  | zero => simp [sumTo]
  | succ n ih =>
    simp only [sumTo]
    have h1 := ih (fun i hi hne => h i (Nat.lt_succ_of_lt hi) hne)
    by_cases hjn : n = j
    · subst hjn
      have h2 : sumTo n g ≤ sumTo n f := sumTo_le (fun i hi => h i (Nat.lt_succ_of_lt hi) (by omega))
      omega
    · have := h n (Nat.lt_succ_self n) hjn
      omega

/-- what a pool thread still has to do -/
def poolRank (th : PTh) : Nat :=
  4 * th.inbox.length + 2 * th.queue.length +
    (match th.pc with | .start => 2 | .handler => 1 | .finLock _ => 1 | _ => 0)

/-- an upper bound for the steps of one API call; S = number of pool threads still in the tables -/
def cost (S : Nat) : Op → Nat
  | .shutdown => 20 * S + 40
  | _ => 6

/-- what is left of the call in progress -/
def stagePc (S : Nat) (prog : List Op) : UPc → Nat
  | .done => 0
  | .opStart => (match prog with | op :: _ => cost S op | [] => 0)
  | .subLock _ _ => 1 | .regLock _ => 1 | .unregLock1 _ => 3 | .unregWait _ => 2 | .unregLock2 _ => 1
  | .sdLock => 20 * S + 30
  | .sdSwap false _ _ => 20 * S + 8
  | .sdSwap true nA _ => 20 * S + 4 + (if nA > 0 then 12 else 0)
  | .sdJoin _ _ _ _ _ rest => 20 * (S + rest.length) + 18
  | .sdFinal _ => 2

def stage (S : Nat) (u : UTh) : Nat := stagePc S u.prog u.pc

def costs (S : Nat) : List Op → Nat
  | [] => 0
  | op :: r => cost S op + costs S r

def userRank (S : Nat) (u : UTh) : Nat := costs S u.prog.tail + stage S u

def tableSize (c : Cfg) : Nat := c.p.availR.length + c.p.active.length

def rank (c : Cfg) : Nat := sumTo c.nU (fun t => userRank (tableSize c) (c.uth t)) + sumTo c.p.idc (fun T => poolRank (c.pth T))

theorem cost_mono {S S' : Nat} (h : S' ≤ S) (op : Op) : cost S' op ≤ cost S op := by
  cases op <;> simp only [cost] <;> omega

theorem costs_mono {S S' : Nat} (h : S' ≤ S) (l : List Op) : costs S' l ≤ costs S l := by
  induction l with
  | nil => exact Nat.le_refl _
  | cons a r ih => simp only [costs]; exact Nat.add_le_add (cost_mono h a) ih

theorem stage_mono {S S' : Nat} (h : S' ≤ S) (u : UTh) : stage S' u ≤ stage S u := by
  unfold stage
  cases u.pc with
  | opStart => simp only [stagePc]; split <;> first | exact cost_mono h _ | exact Nat.le_refl _
  | sdSwap b nA tot => cases b <;> simp only [stagePc] <;> omega
  | sdJoin b nA tot n T rest => simp only [stagePc]; omega
  | sdLock => simp only [stagePc]; omega
  | _ => simp only [stagePc]; exact Nat.le_refl _

theorem userRank_mono {S S' : Nat} (h : S' ≤ S) (u : UTh) : userRank S' u ≤ userRank S u :=
  Nat.add_le_add (costs_mono h _) (stage_mono h u)

theorem userRank_congr (S : Nat) {u u' : UTh} (h1 : u'.pc = u.pc) (h2 : u'.prog = u.prog) : userRank S u' = userRank S u := by
  simp only [userRank, stage, h1, h2]

theorem userRank_advance (S : Nat) (u : UTh) : userRank S (advance u) = costs S u.prog.tail := by
  unfold advance
  split
  · rename_i h; rw [h]; simp [userRank, stage, stagePc, costs]
  · rename_i r hr
    cases hr' : u.prog.tail with
    | nil => simp [userRank, stage, stagePc, costs]
    | cons a r2 => simp [userRank, stage, stagePc, costs, Nat.add_comm]

theorem fetch_other (c : Cfg) (T T' : PTid) (h : T' ≠ T) : (fetch c T).1.pth T' = c.pth T' := by
  unfold fetch; simp only
  split <;> (try split) <;> simp [upd, h]

theorem fetch_rank_le (c : Cfg) (T : PTid) :
    poolRank ((fetch c T).1.pth T) + 3 ≤ 4 * (c.pth T).inbox.length + 2 * (c.pth T).queue.length ∨
    ((c.pth T).inbox = [] ∧ poolRank ((fetch c T).1.pth T) = 2 * (c.pth T).queue.length) := by
  unfold fetch; simp only
  split
  · rename_i h; right; simp [upd, poolRank, h]
  · rename_i rest h; left; simp [upd, poolRank, h]; omega
  · rename_i rest h; left
    split <;> (simp [upd, poolRank, h]; omega)

theorem fetch_nU (c : Cfg) (T : PTid) : (fetch c T).1.nU = c.nU := by
  unfold fetch; simp only; split <;> (try split) <;> rfl

theorem pool_step_rank {c c' : Cfg} {T : PTid} {o} (hsh : c.p.shut = true) (hs : stepPool c T = some (c', o)) :
    c'.uth = c.uth ∧ c'.nU = c.nU ∧ c'.p = c.p ∧ (∀ T', T' ≠ T → c'.pth T' = c.pth T') ∧ poolRank (c'.pth T) < poolRank (c.pth T) := by
  unfold stepPool at hs
  simp only at hs
  split at hs
  · simp at hs
  · simp at hs
  · rename_i hpc
    simp only [Option.some.injEq] at hs; have : c' = (fetch c T).1 := by rw [hs]
    rw [this]
    refine ⟨fetch_uth c T, fetch_nU c T, fetch_p c T, fun T' h => fetch_other c T T' h, ?_⟩
    have := fetch_rank_le c T
    simp only [poolRank, hpc] at this ⊢
    omega
  · rename_i hpc
    split at hs
    · simp at hs
    · rename_i hin
      simp only [Option.some.injEq] at hs; have : c' = (fetch c T).1 := by rw [hs]
      rw [this]
      refine ⟨fetch_uth c T, fetch_nU c T, fetch_p c T, fun T' h => fetch_other c T T' h, ?_⟩
      have := fetch_rank_le c T
      have hl : (c.pth T).inbox.length > 0 := List.length_pos_iff.2 hin
      simp only [poolRank, hpc] at this ⊢
      rcases this with h | ⟨h, _⟩
      · omega
      · exact absurd h hin
  · rename_i hpc
    split at hs
    · rename_i k m m2 q hc hq
      simp only [Option.some.injEq, Prod.mk.injEq] at hs; obtain ⟨rfl, _⟩ := hs
      refine ⟨rfl, rfl, rfl, fun T' h => by simp [upd, h], ?_⟩
      simp [upd, poolRank, hpc, hq]
    · rename_i k m hc hq
      simp only [Option.some.injEq, Prod.mk.injEq] at hs; obtain ⟨rfl, _⟩ := hs
      refine ⟨rfl, rfl, rfl, fun T' h => by simp [upd, h], ?_⟩
      simp [upd, poolRank, hpc, hq]
    · simp at hs
  · rename_i k hpc
    simp only [Option.some.injEq] at hs
    have he : finishCS { c with pth := upd c.pth T { (c.pth T) with pc := .idle } } T k = { c with pth := upd c.pth T { (c.pth T) with pc := .idle } } := by
      simp [finishCS, hsh]
    rw [he] at hs
    have : c' = (fetch { c with pth := upd c.pth T { (c.pth T) with pc := .idle } } T).1 := by rw [hs]
    rw [this]
    refine ⟨fetch_uth _ T, fetch_nU _ T, fetch_p _ T, fun T' h => ?_, ?_⟩
    · rw [fetch_other _ T T' h]; simp [upd, h]
    · have := fetch_rank_le { c with pth := upd c.pth T { (c.pth T) with pc := .idle } } T
      simp only [upd, if_true] at this
      simp only [poolRank, hpc] at this ⊢
      omega

theorem rank_user {c c' : Cfg} (t : Tid) (ht : t < c.nU) (δ : Nat)
    (hn : c'.nU = c.nU) (hi : c'.p.idc = c.p.idc) (hS : tableSize c' ≤ tableSize c)
    (hoth : ∀ t', t' ≠ t → (c'.uth t').pc = (c.uth t').pc ∧ (c'.uth t').prog = (c.uth t').prog)
    (hpool : sumTo c.p.idc (fun T => poolRank (c'.pth T)) ≤ sumTo c.p.idc (fun T => poolRank (c.pth T)) + δ)
    (hme : userRank (tableSize c') (c'.uth t) + δ < userRank (tableSize c) (c.uth t)) : rank c' < rank c := by
  unfold rank
  rw [hn, hi]
  have h1 := sumTo_slack (n := c.nU) (f := fun t => userRank (tableSize c') (c'.uth t)) (g := fun t => userRank (tableSize c) (c.uth t))
    (fun i _ => by
      by_cases hit : i = t
      · subst hit; exact Nat.le_of_lt (Nat.lt_of_le_of_lt (Nat.le_add_right _ _) hme)
      · show userRank (tableSize c') (c'.uth i) ≤ userRank (tableSize c) (c.uth i)
        rw [userRank_congr _ (hoth i hit).1 (hoth i hit).2]; exact userRank_mono hS _)
    t (δ + 1) ht (by show userRank (tableSize c') (c'.uth t) + (δ + 1) ≤ userRank (tableSize c) (c.uth t); omega)
  omega

theorem pool_same {c c' : Cfg} (h : c'.pth = c.pth) : sumTo c.p.idc (fun T => poolRank (c'.pth T)) ≤ sumTo c.p.idc (fun T => poolRank (c.pth T)) + 0 := by
  rw [h]; exact Nat.le_refl _

theorem dispatch_shut {c : Cfg} (h : c.p.shut = true) : dispatch c = c := by simp [dispatch, h]

theorem subCS_shut (c : Cfg) (k : Client) (m : MsgId) (h : c.p.shut = true) :
    (subCS c k m).1.pth = c.pth ∧ (subCS c k m).1.p.availR = c.p.availR ∧ (subCS c k m).1.p.active = c.p.active ∧
    (subCS c k m).1.p.idc = c.p.idc ∧ (subCS c k m).1.nU = c.nU ∧ (subCS c k m).1.uth = c.uth := by
  unfold subCS
  split
  · exact ⟨rfl, rfl, rfl, rfl, rfl, rfl⟩
  · split
    · exact ⟨rfl, rfl, rfl, rfl, rfl, rfl⟩
    · split
      · rw [dispatch_shut (by simpa [addPend] using h)]; exact ⟨rfl, rfl, rfl, rfl, rfl, rfl⟩
      · exact ⟨rfl, rfl, rfl, rfl, rfl, rfl⟩

/-- the effect of `sdNext` on the ranks -/
theorem sdNext_rank (c1 : Cfg) (t : Tid) (b : Bool) (nA total n : Nat) (l : List PTid) :
    (sdNext c1 t b nA total n l).nU = c1.nU ∧ (sdNext c1 t b nA total n l).p = c1.p ∧
    (∀ t', t' ≠ t → (sdNext c1 t b nA total n l).uth t' = c1.uth t') ∧
    ((sdNext c1 t b nA total n l).uth t).prog = (c1.uth t).prog ∧
    sumTo c1.p.idc (fun T => poolRank ((sdNext c1 t b nA total n l).pth T)) ≤ sumTo c1.p.idc (fun T => poolRank (c1.pth T)) + (if l = [] then 0 else 4) ∧
    ((sdNext c1 t b nA total n l).uth t).pc =
      (match l with
       | T :: rest => .sdJoin b nA total n T rest
       | [] => if b = false then .sdSwap true n total else if nA > 0 ∨ n > 0 then .sdSwap false 0 (total + nA + n) else .sdFinal total) := by
  unfold sdNext
  split
  · rename_i T rest
    refine ⟨rfl, rfl, fun t' h => by simp [upd, h], by simp [upd], ?_, by simp [upd]⟩
    simp only [if_neg (List.cons_ne_nil _ _)]
    apply sumTo_grow T 4
    · intro i _ hne; simp [upd, hne]
    · simp [upd, poolRank]; omega
  · split
    · refine ⟨rfl, rfl, fun t' h => by simp [upd, h], by simp [upd], by simp, ?_⟩
      rename_i hb; simp [upd, hb]
    · rename_i hb
      have hb' : b = true := by cases b <;> simp_all
      split
      · rename_i hc
        refine ⟨rfl, rfl, fun t' h => by simp [upd, h], by simp [upd], by simp, ?_⟩
        simp [upd, hb', hc]
      · rename_i hc
        refine ⟨rfl, rfl, fun t' h => by simp [upd, h], by simp [upd], by simp, ?_⟩
        simp [upd, hb', hc]

/-- thread t's pc/prog are replaced and nothing else that matters changes -/
theorem rank_simple {c c' : Cfg} (t : Tid) (ht : t < c.nU) (u' : UTh)
    (hn : c'.nU = c.nU) (hp : c'.pth = c.pth) (hi : c'.p.idc = c.p.idc) (ha : c'.p.availR = c.p.availR) (hb : c'.p.active = c.p.active)
    (hu : c'.uth = upd c.uth t u')
    (hme : userRank (tableSize c) u' < userRank (tableSize c) (c.uth t)) : rank c' < rank c := by
  have hS : tableSize c' = tableSize c := by simp [tableSize, ha, hb]
  refine rank_user t ht 0 hn hi (Nat.le_of_eq hS) (fun t' ht' => ?_) (pool_same hp) ?_
  · rw [hu]; simp [upd, ht']
  · rw [hS, hu]; simpa [upd] using hme

theorem rank_sd {c c1 : Cfg} (t : Tid) (ht : t < c.nU) (b : Bool) (nA tot n : Nat) (l : List PTid)
    (h1 : c1.nU = c.nU) (h2 : c1.p.idc = c.p.idc) (h3 : c1.pth = c.pth) (h4 : c1.uth = c.uth) (hS : tableSize c1 ≤ tableSize c)
    (hst : ∀ u2 : UTh, u2.prog = (c.uth t).prog →
       u2.pc = (match l with
         | T :: rest => .sdJoin b nA tot n T rest
         | [] => if b = false then .sdSwap true n tot else if nA > 0 ∨ n > 0 then .sdSwap false 0 (tot + nA + n) else .sdFinal tot) →
       stage (tableSize c1) u2 + (if l = [] then 0 else 4) < stage (tableSize c) (c.uth t)) :
    rank (sdNext c1 t b nA tot n l) < rank c := by
  obtain ⟨r1, r2, r3, r4, r5, r6⟩ := sdNext_rank c1 t b nA tot n l
  have hS1 : tableSize (sdNext c1 t b nA tot n l) = tableSize c1 := by simp [tableSize, r2]
  refine rank_user t ht (if l = [] then 0 else 4) (r1.trans h1) (by rw [r2, h2]) (by rw [hS1]; exact hS)
    (fun t' ht' => by rw [r3 t' ht', h4]; exact ⟨rfl, rfl⟩) ?_ ?_
  · rw [← h2, ← h3]; exact r5
  · rw [hS1]
    have hc := costs_mono hS (c.uth t).prog.tail
    have := hst _ (by rw [r4, h4]) r6
    simp only [userRank, r4, h4]
    omega

set_option maxHeartbeats 1000000 in
theorem user_step_rank {c c' : Cfg} {t : Tid} {o} (hsh : c.p.shut = true) (ht : t < c.nU) (hs : stepUser c t = some (c', o)) : rank c' < rank c := by
  have hadv := userRank_advance (tableSize c) (c.uth t)
  unfold stepUser at hs
  simp only at hs
  split at hs
  · simp at hs
  · rename_i hpc
    split at hs
    · simp at hs
    · rename_i k m rest hprog
      split at hs <;>
        (simp only [Option.some.injEq, Prod.mk.injEq] at hs; obtain ⟨rfl, _⟩ := hs
         refine rank_simple t ht _ rfl rfl rfl rfl rfl rfl ?_
         first | rw [hadv] | skip
         simp [userRank, stage, stagePc, hpc, hprog, cost])
    · rename_i k rest hprog
      split at hs <;>
        (simp only [Option.some.injEq, Prod.mk.injEq] at hs; obtain ⟨rfl, _⟩ := hs
         refine rank_simple t ht _ rfl rfl rfl rfl rfl rfl ?_
         first | rw [hadv] | skip
         simp [userRank, stage, stagePc, hpc, hprog, cost])
    · rename_i k rest hprog
      split at hs <;>
        (simp only [Option.some.injEq, Prod.mk.injEq] at hs; obtain ⟨rfl, _⟩ := hs
         refine rank_simple t ht _ rfl rfl rfl rfl rfl rfl ?_
         first | rw [hadv] | skip
         simp [userRank, stage, stagePc, hpc, hprog, cost])
    · rename_i rest hprog
      simp only [Option.some.injEq, Prod.mk.injEq] at hs; obtain ⟨rfl, _⟩ := hs
      refine rank_simple t ht _ rfl rfl rfl rfl rfl rfl ?_
      simp [userRank, stage, stagePc, hpc, hprog, cost]
  · rename_i k m hpc
    simp only [Option.some.injEq, Prod.mk.injEq] at hs; obtain ⟨rfl, _⟩ := hs
    obtain ⟨s1, s2, s3, s4, s5, s6⟩ := subCS_shut c k m hsh
    refine rank_simple t ht (advance (c.uth t)) s5 s1 s4 s2 s3 (by simp only [s6]) ?_
    rw [hadv]; simp [userRank, stage, stagePc, hpc]
  · rename_i k hpc
    simp only [Option.some.injEq, Prod.mk.injEq] at hs; obtain ⟨rfl, _⟩ := hs
    refine rank_simple t ht (advance (c.uth t)) rfl rfl rfl rfl rfl rfl ?_
    rw [hadv]; simp [userRank, stage, stagePc, hpc]
  · rename_i k hpc
    split at hs <;>
      (simp only [Option.some.injEq, Prod.mk.injEq] at hs; obtain ⟨rfl, _⟩ := hs
       refine rank_simple t ht _ rfl rfl rfl rfl rfl rfl ?_
       simp [userRank, stage, stagePc, hpc])
  · rename_i k hpc
    split at hs
    · simp only [Option.some.injEq, Prod.mk.injEq] at hs; obtain ⟨rfl, _⟩ := hs
      refine rank_simple t ht _ rfl rfl rfl rfl rfl rfl ?_
      simp [userRank, stage, stagePc, hpc]
    · simp at hs
  · rename_i k hpc
    simp only [Option.some.injEq, Prod.mk.injEq] at hs; obtain ⟨rfl, _⟩ := hs
    refine rank_simple t ht (advance (c.uth t)) rfl rfl rfl rfl rfl rfl ?_
    rw [hadv]; simp [userRank, stage, stagePc, hpc]
  · rename_i hpc
    simp only [Option.some.injEq, Prod.mk.injEq] at hs; obtain ⟨rfl, _⟩ := hs
    refine rank_simple t ht _ rfl rfl rfl rfl rfl rfl ?_
    simp [userRank, stage, stagePc, hpc]
  · -- sdSwap
    rename_i b nA tot hpc
    split at hs
    · rename_i hb
      simp only [Option.some.injEq, Prod.mk.injEq] at hs; obtain ⟨rfl, _⟩ := hs
      refine rank_sd t ht true nA tot _ _ rfl rfl rfl rfl (by simp [tableSize]) ?_
      intro u2 hp2 hpc2
      cases hact : c.p.active with
      | nil =>
        rw [hact] at hpc2
        simp only [stage, stagePc, hpc, hb, hpc2, tableSize, hact, List.length_nil]
        by_cases hnA : nA > 0
        · simp [hnA, stagePc]
        · simp [hnA, stagePc]
      | cons T rest =>
        rw [hact] at hpc2
        simp only [stage, stagePc, hpc, hb, hpc2, tableSize, hact, List.length_cons]
        simp; omega
    · rename_i hb
      have hb' : b = false := by cases b <;> simp_all
      simp only [Option.some.injEq, Prod.mk.injEq] at hs; obtain ⟨rfl, _⟩ := hs
      refine rank_sd t ht false nA tot _ _ rfl rfl rfl rfl (by simp [tableSize]) ?_
      intro u2 hp2 hpc2
      have hlen : c.p.availR.reverse.length = c.p.availR.length := List.length_reverse
      cases hact : c.p.availR.reverse with
      | nil =>
        rw [hact] at hpc2 hlen
        simp only [List.length_nil] at hlen
        simp only [stage, stagePc, hpc, hb', hpc2, tableSize, ← hlen]
        simp [stagePc]
      | cons T rest =>
        rw [hact] at hpc2 hlen
        simp only [List.length_cons] at hlen
        simp only [stage, stagePc, hpc, hb', hpc2, tableSize, ← hlen]
        simp; omega
  · -- sdJoin
    rename_i b nA tot n T r hpc
    split at hs
    · simp only [Option.some.injEq, Prod.mk.injEq] at hs; obtain ⟨rfl, _⟩ := hs
      refine rank_sd t ht b nA tot n r rfl rfl rfl rfl (Nat.le_refl _) ?_
      intro u2 hp2 hpc2
      cases r with
      | nil =>
        cases b with
        | false => simp only [stage, stagePc, hpc, hpc2]; simp [stagePc]; split <;> omega
        | true =>
          by_cases hc : nA > 0 ∨ n > 0
          · simp only [stage, stagePc, hpc, hpc2]; simp [hc, stagePc]
          · simp only [stage, stagePc, hpc, hpc2]; simp [hc, stagePc]
      | cons T2 r2 =>
        simp only [stage, stagePc, hpc, hpc2]
        simp; omega
    · simp at hs
  · -- sdFinal
    rename_i tot hpc
    simp only [Option.some.injEq, Prod.mk.injEq] at hs; obtain ⟨rfl, _⟩ := hs
    have hna := notifyAll_spec c.p.waitK c.p.waitT c.uth
    have hadv2 := userRank_advance 0 (notifyAll c.p.waitK c.p.waitT c.uth t)
    refine rank_user t ht 0 rfl rfl (by simp [tableSize]) (fun t' ht' => ?_) (pool_same rfl) ?_
    · simp only [upd, if_neg ht']; exact ⟨(hna t').1, (hna t').2.1⟩
    · simp only [tableSize, List.length_nil, Nat.add_zero, upd, if_true]
      rw [hadv2, (hna t).2.1]
      have := costs_mono (Nat.zero_le (c.p.availR.length + c.p.active.length)) (c.uth t).prog.tail
      simp only [userRank, stage, stagePc, hpc]
      omega

theorem stepUser_shut {c c' : Cfg} {t : Tid} {o} (hsh : c.p.shut = true) (hs : stepUser c t = some (c', o)) : c'.p.shut = true := by
  unfold stepUser at hs
  simp only at hs
  split at hs
  · simp at hs
  · split at hs
    · simp at hs
    all_goals first
      | (split at hs <;> (simp only [Option.some.injEq, Prod.mk.injEq] at hs; obtain ⟨rfl, _⟩ := hs; exact hsh))
      | (simp only [Option.some.injEq, Prod.mk.injEq] at hs; obtain ⟨rfl, _⟩ := hs; exact hsh)
  · simp only [Option.some.injEq, Prod.mk.injEq] at hs; obtain ⟨rfl, _⟩ := hs
    show (subCS c _ _).1.p.shut = true
    rw [(subCS_frame c _ _).shut]; exact hsh
  · simp only [Option.some.injEq, Prod.mk.injEq] at hs; obtain ⟨rfl, _⟩ := hs; exact hsh
  · split at hs <;> (simp only [Option.some.injEq, Prod.mk.injEq] at hs; obtain ⟨rfl, _⟩ := hs; exact hsh)
  · split at hs
    · simp only [Option.some.injEq, Prod.mk.injEq] at hs; obtain ⟨rfl, _⟩ := hs; exact hsh
    · simp at hs
  · simp only [Option.some.injEq, Prod.mk.injEq] at hs; obtain ⟨rfl, _⟩ := hs; exact hsh
  · simp only [Option.some.injEq, Prod.mk.injEq] at hs; obtain ⟨rfl, _⟩ := hs; rfl
  · split at hs <;> (simp only [Option.some.injEq, Prod.mk.injEq] at hs; obtain ⟨rfl, _⟩ := hs
                     rw [(sdNext_fields _ _ _ _ _ _ _).1]; exact hsh)
  · split at hs
    · simp only [Option.some.injEq, Prod.mk.injEq] at hs; obtain ⟨rfl, _⟩ := hs
      rw [(sdNext_fields _ _ _ _ _ _ _).1]; exact hsh
    · simp at hs
  · simp only [Option.some.injEq, Prod.mk.injEq] at hs; obtain ⟨rfl, _⟩ := hs; exact hsh

/-- **The ranking function decreases** with every step of every thread once `_shuttingDown` is set (and it stays set). -/
theorem rank_decreases {c c' : Cfg} {e : Ev} {o} (hp : InvP c) (hsh : c.p.shut = true) (hs : step c e = some (c', o)) :
    rank c' < rank c ∧ c'.p.shut = true := by
  cases e with
  | timeout t => simp [step] at hs
  | run i =>
    simp only [step] at hs
    split at hs
    · rename_i hlt
      exact ⟨user_step_rank hsh hlt hs, stepUser_shut hsh hs⟩
    · have hT : i - c.nU < c.p.idc := by
        by_cases hlt : i - c.nU < c.p.idc
        · exact hlt
        · have hu := hp.unb (i - c.nU) (Nat.le_of_not_lt hlt)
          unfold stepPool at hs; simp only [hu] at hs; cases hs
      obtain ⟨a1, a2, a3, a4, a5⟩ := pool_step_rank hsh hs
      refine ⟨?_, by rw [a3]; exact hsh⟩
      unfold rank
      have hS : tableSize c' = tableSize c := by simp [tableSize, a3]
      rw [a1, a2, a3, hS]
      have := sumTo_slack (n := c.p.idc) (f := fun T => poolRank (c'.pth T)) (g := fun T => poolRank (c.pth T))
        (fun j _ => by
          by_cases hj : j = i - c.nU
          · subst hj; exact Nat.le_of_lt a5
          · show poolRank (c'.pth j) ≤ poolRank (c.pth j)
            rw [a4 j hj]; exact Nat.le_refl _)
        (i - c.nU) 1 hT a5
      omega

/-- n consecutive steps -/
inductive Steps : Nat → Cfg → Cfg → Prop where
  | zero (c : Cfg) : Steps 0 c c
  | succ {n : Nat} {c c1 c2 : Cfg} {e : Ev} {o : List Out} : step c e = some (c1, o) → Steps n c1 c2 → Steps (n + 1) c c2

/-- every run that starts after `Shutdown` has begun is finite: at most `rank c` steps -/
theorem steps_bounded {n : Nat} {c c' : Cfg} (h : InvLive c) (hsh : c.p.shut = true) (hs : Steps n c c') :
    rank c' + n ≤ rank c ∧ c'.p.shut = true ∧ InvLive c' ∧ c'.p.maxT = c.p.maxT := by
  induction hs with
  | zero c => exact ⟨Nat.le_refl _, hsh, h, rfl⟩
  | succ hst _ ih =>
    obtain ⟨h1, h2⟩ := rank_decreases h.p hsh hst
    obtain ⟨i1, i2, i3, i4⟩ := ih (invLive_step h hst) h2
    exact ⟨by omega, i2, i3, i4.trans (step_maxT hst)⟩

end Muscle.Conc.TP
