import MuscleModel.Conc.Sem
import MuscleModel.Conc.Pool

/-!
# Model of `muscle::Ref` / `RefCountable` (util/RefCount.h) over `ObjectPool` as an interleaving machine

Granularity (= the park points of `harness/rc.cpp` under `libvh/coop.h`): one step is everything a thread does from
one park point to the next, where the park points are

* the explicit `yieldPoint()` at the start of every operation of a thread program (`todo = []`),
* the hook before each `AtomicCounter::AtomicIncrement/AtomicDecrement` of a reference count (`Act.inc…`, `Act.dec…`),
* the hook before `Mutex::Lock` of the pool's `_mutex` in `ObtainObject()` / `ReleaseObject()` (`Act.obtain`, `Act.release`;
  the whole critical section, the unlock and the thread-local code behind it belong to that step),
* in `ReleaseObject()`, the return of the `pthread_mutex_unlock` that releases `_mutex` (`Act.unlocked`; the harness
  interposes on that function — there is no hook behind the unlock), so that whatever the code does between the unlock
  and `delete slabToDelete` is a step of its own,
* the first node destructor inside `delete slabToDelete` — after `mg.UnlockEarly()`, outside the lock (`Act.delSlab`).

Objects are `{count, alive, mgr, val}` + the ghost counters `acq`/`rel` (hand-outs / releases).  An object may HOLD a
reference to another object (its `next` member, a reference-counting `Ref`): these are the pairs of `Cfg.links`
(holder, target).  A thread owns `L` private `Ref` slots, each `(item, IsRefCounting())`; `G` global slots are mailboxes
through which a reference is handed to another thread (one atomic step, count unchanged).  A pending `Act.dec o` /
`Act.decNoDel o` *is* a reference: the C++ code still has the pointer in the `Ref` (or in a temporary) until the
decrement has happened.

`ConstRef::SetRef()`'s "switch items" branch takes the reference to the new item BEFORE it gives up the old one
(/repo commit 3dba531): `inc new; UnrefItem(); set pointer`.  `Mode.old` keeps the order before that commit
(`UnrefItem(); set pointer; RefItem()`) for the one operation where it matters (`pop`: `a = a->next`), so that the
reason for the order is a theorem (`Props/C10.lean`), not a comment.
-/

namespace Muscle.Conc.RC
open Muscle.Conc Muscle.Conc.Pool

/-- object identity: a heap object (`new Obj`, serial number) or node `i` of slab `s` of the pool -/
inductive Oid where
  | heap (k : Nat)
  | node (s i : Nat)
  deriving DecidableEq, Repr

/-- a `RefCountable`: `_refCount`, "constructed/handed out and not yet released", `_manager != NULL`, the payload
(0 = default-constructed state), and the ghost counters -/
structure Obj where
  count : Nat := 0
  alive : Bool := false
  mgr   : Bool := false
  val   : Nat := 0
  acq   : Nat := 0
  rel   : Nat := 0
  deriving DecidableEq, Repr

/-- a `Ref`: NULL, or (item, `IsRefCounting()`) -/
abbrev Slot := Option (Oid × Bool)

/-- operations of a thread program on its slots `a b` (`g` = a global slot) -/
inductive Op where
  | newHeap (a : Nat)      -- `slot[a].SetRef(new Obj)`
  | newPool (a : Nat)      -- `slot[a].SetRef(pool.ObtainObject())`
  | copy (a b : Nat)       -- `slot[a] = slot[b]`                       (`Ref::operator=(const Ref &)`)
  | setRef (a b : Nat)     -- `slot[a].SetRef(slot[b]())`                (skipped unless slot b is NULL or reference-counting)
  | reset (a : Nat)        -- `slot[a].Reset()`
  | swap (a b : Nat)       -- `slot[a].SwapContents(slot[b])`
  | xchg (a g : Nat)       -- `slot[a].SwapContents(global[g])`          (hand-off, one atomic step)
  | write (a : Nat)        -- `if (slot[a] counts) slot[a]()->val = tid+1`
  | ccast (a b : Nat)      -- `{ConstRef c = AddConstToRef(slot[b]); slot[a] = CastAwayConstFromRef(c);}`
  | link (a b : Nat)       -- `slot[a]()->next = slot[b]`   (only if slot a holds the ONLY reference to its object and slot b is NULL or counts another object)
  | unlink (a : Nat)       -- `slot[a]()->next.Reset()`      (same privacy guard)
  | pop (a : Nat)          -- `slot[a] = slot[a]()->next`    (also `slot[a].SetRef(slot[a]()->next())`: same steps)
  | weak (a b : Nat)       -- `slot[a].SetRef(slot[b](), false)`
  | promote (a : Nat)      -- `slot[a].SetRef(slot[a](), true)`   (only if another slot of the thread counts the same object)
  | demote (a : Nat)       -- `slot[a].SetRef(slot[a](), false)`
  | neutral (a : Nat)      -- `slot[a].Neutralize()`
  deriving DecidableEq, Repr

/-- `new` = `SetRef()` as of /repo commit 3dba531; `old` = the order before it (only `pop` differs) -/
inductive Mode where
  | new | old
  deriving DecidableEq, Repr

/-- the park point a thread is at inside an operation (the action it performs when granted) -/
inductive Act where
  | dec (o : Oid)            -- before `DecrementRefCount()` in `UnrefItemAux(item, true)`
  | decNoDel (o : Oid)       -- before `DecrementRefCount()` in `UnrefItemAux(item, false)` / `Neutralize()`: never deletes
  | incSlot (a b : Nat)      -- before `IncrementRefCount()` of `slot[b]`'s item in `slot[a].SetRef(…)`; then `UnrefItem()`, set pointer
  | incRaw (a : Nat)         -- before `IncrementRefCount()` of the new object in `slot[a].SetRef(<new object>)`
  | incTmp (b : Nat)         -- before the increment that makes the temporary `c` of `ccast` reference `slot[b]`'s object
  | incSame (a : Nat)        -- before `RefItem()` in the "start reference-counting now" branch of `SetRef(sameItem, true)`
  | incNext (a b : Nat)      -- before the increment in `slot[a]()->next.SetRef(slot[b]())`
  | incPop (a : Nat)         -- before the increment of `slot[a]()->next`'s item in `slot[a] = slot[a]()->next`
  | incOld (a : Nat) (n : Oid) -- `Mode.old` only: `RefItem()` on the raw pointer `n` read before `UnrefItem()`
  | obtain                   -- before `Lock(_mutex)` in `ObtainObject()`
  | release (o : Oid)        -- before `Lock(_mutex)` in `ReleaseObject(o)`
  | unlocked                 -- in `ReleaseObject()`, right after `mg.UnlockEarly()` released `_mutex` (before `delete slabToDelete`)
  | delSlab (s : Slab)       -- inside `delete slabToDelete`, before the first node is destroyed
  deriving Repr

/-- observable events of one step, in program order -/
inductive Evt where
  | created (o : Oid)        -- `new Obj`
  | slabNew                  -- `new ObjectSlab`
  | obtained (o : Oid) (val : Nat)   -- `ObtainObject()` returned o, whose payload is val (must be 0)
  | reset (o : Oid)          -- `*obj = GetDefaultObject()` in `ReleaseObject`
  | deleted (o : Oid)        -- `delete item`
  | slabFreed                -- `delete slabToDelete`
  deriving Repr

structure Th where
  slots : List Slot
  raw   : Option Oid         -- a raw pointer in flight (`new Obj` / `ObtainObject()` result not yet wrapped in a `Ref`)
  todo  : List Act
  prog  : List Op
  deriving Repr

structure Cfg where
  obj      : Oid → Obj
  links    : List (Oid × Oid)   -- (holder, target): holder's `next` member references target
  pool     : PoolSt
  glob     : List Slot
  ths      : List Th
  nextHeap : Nat

def setObj (f : Oid → Obj) (o : Oid) (v : Obj) : Oid → Obj := fun x => if x = o then v else f x

@[simp] theorem setObj_same (f : Oid → Obj) (o : Oid) (v : Obj) : setObj f o v o = v := by simp [setObj]
@[simp] theorem setObj_other (f : Oid → Obj) (o : Oid) (v : Obj) (x : Oid) (h : x ≠ o) : setObj f o v x = f x := by simp [setObj, h]

/-- `x->next()` -/
def nextOf (l : List (Oid × Oid)) (x : Oid) : Option Oid := (l.find? fun p => p.1 = x).map (·.2)

/-- `x->next` becomes NULL -/
def dropKey (l : List (Oid × Oid)) (x : Oid) : List (Oid × Oid) := l.filter fun p => p.1 ≠ x

def Cfg.init (N maxPool L G : Nat) (progs : List (List Op)) : Cfg :=
  { obj := fun _ => {}
    links := []
    pool := PoolSt.init N maxPool
    glob := List.replicate G none
    ths := progs.map fun p => { slots := List.replicate L none, raw := none, todo := [], prog := p }
    nextHeap := 0 }

def slotOf (th : Th) (a : Nat) : Slot := (th.slots[a]?).join

/-- the pending decrement for the old content of a `Ref`, if it is reference-counting (`UnrefItem()`) -/
def decOld : Slot → List Act
  | some (o, true) => [.dec o]
  | _ => []

/-- the pending decrement for the old target of a `next` member -/
def decNext : Option Oid → List Act
  | some o => [.dec o]
  | none => []

/-- some slot of the thread other than `a` is a reference-counting `Ref` to `o` -/
def countsElsewhere (th : Th) (a : Nat) (o : Oid) : Bool :=
  (List.range th.slots.length).any fun b => b ≠ a ∧ slotOf th b = some (o, true)

/-- slot indices of an operation are in range (the op-line parsers of both sides reject anything else; an operation
that fails this test is skipped) -/
def opOk (c : Cfg) (th : Th) : Op → Bool
  | .newHeap a | .newPool a | .reset a | .write a | .unlink a | .pop a | .promote a | .demote a | .neutral a => decide (a < th.slots.length)
  | .copy a b | .setRef a b | .swap a b | .ccast a b | .link a b | .weak a b => decide (a < th.slots.length ∧ b < th.slots.length)
  | .xchg a g => decide (a < th.slots.length ∧ g < c.glob.length)

/-- `slot[a].SetRef(item of slot b, f)` for an item that differs from slot a's: the reference-counting case parks
before the increment, the non-counting case just releases the old item and stores the pointer -/
def switchTo (c : Cfg) (th : Th) (a b : Nat) (o : Oid) (f : Bool) (rest : List Op) : Cfg × Th × List Evt :=
  if f then (c, { th with todo := [.incSlot a b], prog := rest }, [])
  else (c, { th with slots := th.slots.set a (some (o, false)), todo := decOld (slotOf th a), prog := rest }, [])

/-- `slot[a].SetRef(o, f)` where `o` is the item of slot b (`f` = requested `doRefCount`) -/
def setRefTo (c : Cfg) (th : Th) (a b : Nat) (o : Oid) (f : Bool) (rest : List Op) : Cfg × Th × List Evt :=
  match slotOf th a with
  | some (o', fa) =>
    if o' = o then
      if fa = f then (c, { th with prog := rest }, [])                                   -- same item, same flag: nothing
      else if f then (c, { th with todo := [.incSame a], prog := rest }, [])            -- start reference-counting now
      else (c, { th with slots := th.slots.set a (some (o, false)), todo := [.decNoDel o], prog := rest }, [])   -- stop reference-counting
    else switchTo c th a b o f rest
  | none => switchTo c th a b o f rest

/-- first step of an operation (from the `yieldPoint()` to the first hook): thread-local code only, except `new Obj`,
the payload write, the global-slot exchange and clearing a `next` member -/
def startOp (m : Mode) (c : Cfg) (t : Tid) (th : Th) (op : Op) (rest : List Op) : Cfg × Th × List Evt :=
  if opOk c th op = false then (c, { th with prog := rest }, []) else
  let clear (a : Nat) : Cfg × Th × List Evt :=      -- `slot[a].Reset()`
    (c, { th with slots := th.slots.set a none, todo := decOld (slotOf th a), prog := rest }, [])
  let skip : Cfg × Th × List Evt := (c, { th with prog := rest }, [])
  match op with
  | .newHeap a =>
    let o := Oid.heap c.nextHeap
    -- a fresh object: its count is 0 (never touched before, see `Inv.heapFresh`), so only the other fields are written
    ({ c with obj := setObj c.obj o { c.obj o with alive := true, mgr := false, val := 0, acq := (c.obj o).acq + 1 },
              nextHeap := c.nextHeap + 1 },
     { th with raw := some o, todo := [.incRaw a], prog := rest }, [.created o])
  | .newPool a => (c, { th with todo := [.obtain, .incRaw a], prog := rest }, [])
  | .copy a b =>
    match slotOf th b with
    | some (o, f) => setRefTo c th a b o f rest
    | none => clear a
  | .setRef a b =>
    match slotOf th b with
    | some (o, true) => setRefTo c th a b o true rest
    | some (_, false) => skip
    | none => clear a
  | .reset a => clear a
  | .swap a b =>
    (c, { th with slots := (th.slots.set a (slotOf th b)).set b (slotOf th a), prog := rest }, [])
  | .xchg a g =>
    ({ c with glob := c.glob.set g (slotOf th a) }, { th with slots := th.slots.set a ((c.glob[g]?).join), prog := rest }, [])
  | .write a =>
    match slotOf th a with
    | some (o, true) => ({ c with obj := setObj c.obj o { c.obj o with val := t + 1 } }, { th with prog := rest }, [])
    | _ => skip
  | .ccast a b =>
    match slotOf th b with
    | some (_, true) => (c, { th with todo := [.incTmp b, .incSlot a b], prog := rest }, [])
    | some (o, false) => (c, { th with slots := th.slots.set a (some (o, false)), todo := decOld (slotOf th a), prog := rest }, [])
    | none => clear a
  | .link a b =>
    match slotOf th a with
    | some (o, true) =>
      if (c.obj o).count ≠ 1 then skip else
      match slotOf th b with
      | some (n, true) =>
        if n = o ∨ nextOf c.links o = some n then skip
        else (c, { th with todo := [.incNext a b], prog := rest }, [])
      | some (_, false) => skip
      | none => ({ c with links := dropKey c.links o }, { th with todo := decNext (nextOf c.links o), prog := rest }, [])
    | _ => skip
  | .unlink a =>
    match slotOf th a with
    | some (o, true) =>
      if (c.obj o).count ≠ 1 then skip
      else ({ c with links := dropKey c.links o }, { th with todo := decNext (nextOf c.links o), prog := rest }, [])
    | _ => skip
  | .pop a =>
    match slotOf th a with
    | some (o, true) =>
      match nextOf c.links o with
      | some n =>
        match m with
        | .new => (c, { th with todo := [.incPop a], prog := rest }, [])
        | .old => (c, { th with slots := th.slots.set a none, todo := [.dec o, .incOld a n], prog := rest }, [])
      | none => clear a
    | _ => skip
  | .weak a b =>
    match slotOf th b with
    | some (o, _) => setRefTo c th a b o false rest
    | none => clear a
  | .promote a =>
    match slotOf th a with
    | some (o, false) => if countsElsewhere th a o then (c, { th with todo := [.incSame a], prog := rest }, []) else skip
    | _ => skip
  | .demote a =>
    match slotOf th a with
    | some (o, true) => (c, { th with slots := th.slots.set a (some (o, false)), todo := [.decNoDel o], prog := rest }, [])
    | _ => skip
  | .neutral a =>
    match slotOf th a with
    | some (o, true) => (c, { th with slots := th.slots.set a none, todo := [.decNoDel o], prog := rest }, [])
    | _ => (c, { th with slots := th.slots.set a none, prog := rest }, [])

/-- `count + 1` -/
def bump (c : Cfg) (o : Oid) : Oid → Obj := setObj c.obj o { c.obj o with count := (c.obj o).count + 1 }

/-- one granted action (from its hook to the next park point) -/
def doAct (c : Cfg) (th : Th) (act : Act) (rest : List Act) : Cfg × Th × List Evt :=
  match act with
  | .dec o =>
    -- `if (item->DecrementRefCount()) {m = item->GetManager(); if (m) m->RecycleObject(item); else delete item;}`
    let ob := c.obj o
    if ob.count - 1 = 0 then
      if ob.mgr then
        -- `ReleaseObject`: `*obj = GetDefaultObject()` (which releases `obj->next`), `obj->SetManager(NULL)`, then park before `Lock(_mutex)`
        ({ c with obj := setObj c.obj o { ob with count := 0, alive := false, mgr := false, val := 0, rel := ob.rel + 1 },
                  links := dropKey c.links o },
         { th with todo := decNext (nextOf c.links o) ++ .release o :: rest }, [.reset o])
      else
        -- `delete item`: `~Obj()` releases `next`
        ({ c with obj := setObj c.obj o { ob with count := 0, alive := false, rel := ob.rel + 1 }, links := dropKey c.links o },
         { th with todo := decNext (nextOf c.links o) ++ rest }, [.deleted o])
    else ({ c with obj := setObj c.obj o { ob with count := ob.count - 1 } }, { th with todo := rest }, [])
  | .decNoDel o =>
    ({ c with obj := setObj c.obj o { c.obj o with count := (c.obj o).count - 1 } }, { th with todo := rest }, [])
  | .incSlot a b =>
    if th.slots.length ≤ a then (c, { th with todo := rest }, []) else   -- never reached
    match slotOf th b with
    | some (o, true) => ({ c with obj := bump c o },
                 { th with slots := th.slots.set a (some (o, true)), todo := decOld (slotOf th a) ++ rest }, [])   -- then `UnrefItem()` of the old item
    | _ => (c, { th with todo := rest }, [])   -- never reached: slot b is not touched between the start of the operation and here
  | .incRaw a =>
    if th.slots.length ≤ a then (c, { th with todo := rest }, []) else   -- never reached
    match th.raw with
    | some o => ({ c with obj := bump c o },
                 { th with slots := th.slots.set a (some (o, true)), raw := none, todo := decOld (slotOf th a) ++ rest }, [])
    | none => (c, { th with todo := rest }, [])   -- never reached
  | .incTmp b =>
    match slotOf th b with
    | some (o, true) => ({ c with obj := bump c o }, { th with todo := rest ++ [.dec o] }, [])     -- `~c` runs at the end of the scope
    | _ => (c, { th with todo := rest }, [])   -- never reached
  | .incSame a =>
    match slotOf th a with
    | some (o, false) =>
      if countsElsewhere th a o then ({ c with obj := bump c o }, { th with slots := th.slots.set a (some (o, true)), todo := rest }, [])
      else (c, { th with todo := rest }, [])   -- never reached
    | _ => (c, { th with todo := rest }, [])   -- never reached
  | .incNext a b =>
    match slotOf th a, slotOf th b with
    | some (o, true), some (n, true) =>
      ({ c with obj := bump c n, links := (o, n) :: dropKey c.links o }, { th with todo := decNext (nextOf c.links o) ++ rest }, [])
    | _, _ => (c, { th with todo := rest }, [])   -- never reached
  | .incPop a =>
    match slotOf th a with
    | some (o, true) =>
      match nextOf c.links o with
      | some n => ({ c with obj := bump c n }, { th with slots := th.slots.set a (some (n, true)), todo := .dec o :: rest }, [])
      | none => (c, { th with todo := rest }, [])   -- never reached
    | _ => (c, { th with todo := rest }, [])   -- never reached
  | .incOld a n =>
    -- `Mode.old`: increments whatever the raw pointer points to, alive or not
    ({ c with obj := bump c n }, { th with slots := th.slots.set a (some (n, true)), todo := rest }, [])
  | .obtain =>
    -- `{DECLARE_MUTEXGUARD(_mutex); ret = ObtainObjectAux();}  ret->SetManager(this);`
    let (p', g) := obtain c.pool
    let o := Oid.node g.sid g.idx
    let ob := c.obj o
    ({ c with pool := p', obj := setObj c.obj o { ob with alive := true, mgr := true, acq := ob.acq + 1 } },
     { th with raw := some o, todo := rest }, (if g.fresh then [.slabNew] else []) ++ [.obtained o ob.val])
  | .release o =>
    -- `slabToDelete = ReleaseObjectAux(obj); mg.UnlockEarly(); delete slabToDelete;`
    match o with
    | .node sid i =>
      let (p', del) := release c.pool sid i
      match del with
      | some s => ({ c with pool := p' }, { th with todo := .unlocked :: .delSlab s :: rest }, [])
      | none => ({ c with pool := p' }, { th with todo := .unlocked :: rest }, [])
    | .heap _ => (c, { th with todo := rest }, [])   -- never reached
  | .unlocked => (c, { th with todo := rest }, [])
  | .delSlab _ => (c, { th with todo := rest }, [.slabFreed])

/-- thread `t` takes one step; `none` iff it has finished (no step of this machine can block) -/
def step (m : Mode) (c : Cfg) : Ev → Option (Cfg × List Evt)
  | .timeout _ => none
  | .run t =>
    match c.ths[t]? with
    | none => none
    | some th =>
      match th.todo, th.prog with
      | [], [] => none
      | [], op :: rest =>
        let (c', th', evs) := startOp m c t th op rest
        some ({ c' with ths := c'.ths.set t th' }, evs)
      | act :: more, _ =>
        let (c', th', evs) := doAct c th act more
        some ({ c' with ths := c'.ths.set t th' }, evs)

/-- the machine of the code as it is -/
def machine : Machine := { C := Cfg, O := List Evt, step := step .new }

/-- the machine with `SetRef()`'s order before /repo commit 3dba531 (for the counter-example only) -/
def machineOld : Machine := { C := Cfg, O := List Evt, step := step .old }

end Muscle.Conc.RC
