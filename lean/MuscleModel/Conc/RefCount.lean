import MuscleModel.Conc.Sem
import MuscleModel.Conc.Pool

/-!
# Model of `muscle::Ref` / `RefCountable` (util/RefCount.h) over `ObjectPool` as an interleaving machine

Granularity (= the park points of `harness/rc.cpp` under `libvh/coop.h`): one step is everything a thread does from
one park point to the next, where the park points are

* the explicit `yieldPoint()` at the start of every operation of a thread program (`todo = []`),
* the hook before each `AtomicCounter::AtomicIncrement/AtomicDecrement` of a reference count (`Act.inc…`, `Act.dec`),
* the hook before `Mutex::Lock` of the pool's `_mutex` in `ObtainObject()` / `ReleaseObject()` (`Act.obtain`, `Act.release`;
  the whole critical section, the unlock and the thread-local code behind it belong to that step),
* the first node destructor inside `delete slabToDelete` — after `mg.UnlockEarly()`, outside the lock (`Act.delSlab`).

Objects are `{count, alive, mgr, val}` + the ghost counters `acq`/`rel` (hand-outs / releases).  A thread owns `L` private
`Ref` slots; `G` global slots are mailboxes through which a reference is handed to another thread (one atomic step,
count unchanged).  A pending `Act.dec o` *is* a reference: the C++ code still has the pointer in the `Ref` (or in a
temporary) until the decrement has happened.
-/

namespace Muscle.Conc.RC
open Muscle.Conc Muscle.Conc.Pool

/-- object identity: a heap object (`new Obj`, serial number) or node `i` of slab `s` of the pool -/
inductive Oid where
  | heap (k : Nat)
  | node (s i : Nat)
  deriving DecidableEq, Repr

/-- a `RefCountable`: `_refCount`, "constructed/handed out and not yet released", `_manager != NULL`, the payload
(0 = default-constructed state), and the ghost counters -/
structure Obj where
  count : Nat := 0
  alive : Bool := false
  mgr   : Bool := false
  val   : Nat := 0
  acq   : Nat := 0
  rel   : Nat := 0
  deriving DecidableEq, Repr

/-- operations of a thread program on its slots `a b` (`g` = a global slot) -/
inductive Op where
  | newHeap (a : Nat)      -- `slot[a].SetRef(new Obj)`
  | newPool (a : Nat)      -- `slot[a].SetRef(pool.ObtainObject())`
  | copy (a b : Nat)       -- `slot[a] = slot[b]`                       (`Ref::operator=(const Ref &)`)
  | setRef (a b : Nat)     -- `slot[a].SetRef(slot[b]())`
  | reset (a : Nat)        -- `slot[a].Reset()`
  | swap (a b : Nat)       -- `slot[a].SwapContents(slot[b])`
  | xchg (a g : Nat)       -- `slot[a].SwapContents(global[g])`          (hand-off, one atomic step)
  | write (a : Nat)        -- `if (slot[a]()) slot[a]()->val = tid+1`
  | ccast (a b : Nat)      -- `{ConstRef c = AddConstToRef(slot[b]); slot[a] = CastAwayConstFromRef(c);}`
  deriving DecidableEq, Repr

/-- the park point a thread is at inside an operation (the action it performs when granted) -/
inductive Act where
  | dec (o : Oid)            -- before `DecrementRefCount()` in `UnrefItemAux(item, true)`
  | incFrom (a b : Nat)      -- before `IncrementRefCount()` in `RefItem()` of `slot[a].SetRef(slot[b]())`
  | incRaw (a : Nat)         -- before `IncrementRefCount()` in `RefItem()` of `slot[a].SetRef(<new object>)`
  | incTmp (b : Nat)         -- before the increment that makes the temporary `c` of `ccast` reference `slot[b]`'s object
  | incSwap (a b : Nat)      -- before the increment in `CastAwayConstFromRef`; then move-assignment into `slot[a]`
  | obtain                   -- before `Lock(_mutex)` in `ObtainObject()`
  | release (o : Oid)        -- before `Lock(_mutex)` in `ReleaseObject(o)`
  | delSlab (s : Slab)       -- inside `delete slabToDelete`, before the first node is destroyed
  deriving Repr

/-- observable events of one step, in program order -/
inductive Evt where
  | created (o : Oid)        -- `new Obj`
  | slabNew                  -- `new ObjectSlab`
  | obtained (o : Oid) (val : Nat)   -- `ObtainObject()` returned o, whose payload is val (must be 0)
  | reset (o : Oid)          -- `*obj = GetDefaultObject()` in `ReleaseObject`
  | deleted (o : Oid)        -- `delete item`
  | slabFreed                -- `delete slabToDelete`
  deriving Repr

structure Th where
  slots : List (Option Oid)
  raw   : Option Oid         -- a raw pointer in flight (`new Obj` / `ObtainObject()` result not yet wrapped in a `Ref`)
  todo  : List Act
  prog  : List Op
  deriving Repr

structure Cfg where
  obj      : Oid → Obj
  pool     : PoolSt
  glob     : List (Option Oid)
  ths      : List Th
  nextHeap : Nat

def setObj (f : Oid → Obj) (o : Oid) (v : Obj) : Oid → Obj := fun x => if x = o then v else f x

@[simp] theorem setObj_same (f : Oid → Obj) (o : Oid) (v : Obj) : setObj f o v o = v := by simp [setObj]
@[simp] theorem setObj_other (f : Oid → Obj) (o : Oid) (v : Obj) (x : Oid) (h : x ≠ o) : setObj f o v x = f x := by simp [setObj, h]

def Cfg.init (N maxPool L G : Nat) (progs : List (List Op)) : Cfg :=
  { obj := fun _ => {}
    pool := PoolSt.init N maxPool
    glob := List.replicate G none
    ths := progs.map fun p => { slots := List.replicate L none, raw := none, todo := [], prog := p }
    nextHeap := 0 }

def slotOf (th : Th) (a : Nat) : Option Oid := (th.slots[a]?).join

/-- the pending decrement for the old content of a slot, if any (`UnrefItem()`: nothing to do for a NULL `Ref`) -/
def decOld : Option Oid → List Act
  | some o => [.dec o]
  | none => []

/-- slot indices of an operation are in range (the op-line parsers of both sides reject anything else; an operation
that fails this test is skipped) -/
def opOk (c : Cfg) (th : Th) : Op → Bool
  | .newHeap a | .newPool a | .reset a | .write a => decide (a < th.slots.length)
  | .copy a b | .setRef a b | .swap a b | .ccast a b => decide (a < th.slots.length ∧ b < th.slots.length)
  | .xchg a g => decide (a < th.slots.length ∧ g < c.glob.length)

/-- first step of an operation (from the `yieldPoint()` to the first hook): thread-local code only, except `new Obj`,
the payload write and the global-slot exchange -/
def startOp (c : Cfg) (t : Tid) (th : Th) (op : Op) (rest : List Op) : Cfg × Th × List Evt :=
  if opOk c th op = false then (c, { th with prog := rest }, []) else
  match op with
  | .newHeap a =>
    let o := Oid.heap c.nextHeap
    -- a fresh object: its count is 0 (never touched before, see `Inv.heapFresh`), so only the other fields are written
    ({ c with obj := setObj c.obj o { c.obj o with alive := true, mgr := false, val := 0, acq := (c.obj o).acq + 1 },
              nextHeap := c.nextHeap + 1 },
     { th with slots := th.slots.set a none, raw := some o, todo := decOld (slotOf th a) ++ [.incRaw a], prog := rest }, [.created o])
  | .newPool a =>
    (c, { th with slots := th.slots.set a none, todo := .obtain :: (decOld (slotOf th a) ++ [.incRaw a]), prog := rest }, [])
  | .copy a b | .setRef a b =>
    match slotOf th b with
    | some o =>
      if slotOf th a = some o then (c, { th with prog := rest }, [])     -- same item: `SetRef` does nothing
      else (c, { th with slots := th.slots.set a none, todo := decOld (slotOf th a) ++ [.incFrom a b], prog := rest }, [])
    | none => (c, { th with slots := th.slots.set a none, todo := decOld (slotOf th a), prog := rest }, [])
  | .reset a => (c, { th with slots := th.slots.set a none, todo := decOld (slotOf th a), prog := rest }, [])
  | .swap a b =>
    (c, { th with slots := (th.slots.set a (slotOf th b)).set b (slotOf th a), prog := rest }, [])
  | .xchg a g =>
    ({ c with glob := c.glob.set g (slotOf th a) }, { th with slots := th.slots.set a ((c.glob[g]?).join), prog := rest }, [])
  | .write a =>
    match slotOf th a with
    | some o => ({ c with obj := setObj c.obj o { c.obj o with val := t + 1 } }, { th with prog := rest }, [])
    | none => (c, { th with prog := rest }, [])
  | .ccast a b =>
    match slotOf th b with
    | some _ => (c, { th with todo := [.incTmp b, .incSwap a b], prog := rest }, [])
    | none => (c, { th with slots := th.slots.set a none, todo := decOld (slotOf th a), prog := rest }, [])

/-- one granted action (from its hook to the next park point) -/
def doAct (c : Cfg) (th : Th) (act : Act) (rest : List Act) : Cfg × Th × List Evt :=
  match act with
  | .dec o =>
    -- `if (item->DecrementRefCount()) {m = item->GetManager(); if (m) m->RecycleObject(item); else delete item;}`
    let ob := c.obj o
    if ob.count - 1 = 0 then
      if ob.mgr then
        -- `ReleaseObject`: `*obj = GetDefaultObject(); obj->SetManager(NULL);` then park before `Lock(_mutex)`
        ({ c with obj := setObj c.obj o { ob with count := 0, alive := false, mgr := false, val := 0, rel := ob.rel + 1 } },
         { th with todo := .release o :: rest }, [.reset o])
      else
        ({ c with obj := setObj c.obj o { ob with count := 0, alive := false, rel := ob.rel + 1 } }, { th with todo := rest }, [.deleted o])
    else ({ c with obj := setObj c.obj o { ob with count := ob.count - 1 } }, { th with todo := rest }, [])
  | .incFrom a b =>
    if th.slots[a]? ≠ some none then (c, { th with todo := rest }, []) else   -- never reached: slot a was cleared when the operation started
    match slotOf th b with
    | some o => ({ c with obj := setObj c.obj o { c.obj o with count := (c.obj o).count + 1 } },
                 { th with slots := th.slots.set a (some o), todo := rest }, [])
    | none => (c, { th with todo := rest }, [])   -- never reached: slot b is not touched between the start of the operation and here
  | .incRaw a =>
    if th.slots[a]? ≠ some none then (c, { th with todo := rest }, []) else   -- never reached
    match th.raw with
    | some o => ({ c with obj := setObj c.obj o { c.obj o with count := (c.obj o).count + 1 } },
                 { th with slots := th.slots.set a (some o), raw := none, todo := rest }, [])
    | none => (c, { th with todo := rest }, [])   -- never reached
  | .incTmp b =>
    match slotOf th b with
    | some o => ({ c with obj := setObj c.obj o { c.obj o with count := (c.obj o).count + 1 } },
                 { th with todo := rest ++ [.dec o] }, [])     -- `~c` runs at the end of the scope
    | none => (c, { th with todo := rest }, [])   -- never reached
  | .incSwap a b =>
    if th.slots.length ≤ a then (c, { th with todo := rest }, []) else   -- never reached
    match slotOf th b with
    | some o => ({ c with obj := setObj c.obj o { c.obj o with count := (c.obj o).count + 1 } },
                 { th with slots := th.slots.set a (some o), todo := decOld (slotOf th a) ++ rest }, [])   -- the temporary now holds the old item
    | none => (c, { th with todo := rest }, [])   -- never reached
  | .obtain =>
    -- `{DECLARE_MUTEXGUARD(_mutex); ret = ObtainObjectAux();}  ret->SetManager(this);`
    let (p', g) := obtain c.pool
    let o := Oid.node g.sid g.idx
    let ob := c.obj o
    ({ c with pool := p', obj := setObj c.obj o { ob with alive := true, mgr := true, acq := ob.acq + 1 } },
     { th with raw := some o, todo := rest }, (if g.fresh then [.slabNew] else []) ++ [.obtained o ob.val])
  | .release o =>
    -- `slabToDelete = ReleaseObjectAux(obj); mg.UnlockEarly(); delete slabToDelete;`
    match o with
    | .node sid i =>
      let (p', del) := release c.pool sid i
      match del with
      | some s => ({ c with pool := p' }, { th with todo := .delSlab s :: rest }, [])
      | none => ({ c with pool := p' }, { th with todo := rest }, [])
    | .heap _ => (c, { th with todo := rest }, [])   -- never reached
  | .delSlab _ => (c, { th with todo := rest }, [.slabFreed])

/-- thread `t` takes one step; `none` iff it has finished (no step of this machine can block) -/
def step (c : Cfg) : Ev → Option (Cfg × List Evt)
  | .timeout _ => none
  | .run t =>
    match c.ths[t]? with
    | none => none
    | some th =>
      match th.todo, th.prog with
      | [], [] => none
      | [], op :: rest =>
        let (c', th', evs) := startOp c t th op rest
        some ({ c' with ths := c'.ths.set t th' }, evs)
      | act :: more, _ =>
        let (c', th', evs) := doAct c th act more
        some ({ c' with ths := c'.ths.set t th' }, evs)

def machine : Machine := { C := Cfg, O := List Evt, step := step }

end Muscle.Conc.RC
