import MuscleModel.Conc.RefCount
import MuscleModel.Conc.ProofsPoolSpec

/-!
# The joint invariant of the reference-count / pool machine and its "local update" rule (lemmas for C10)

`refs c o` counts the references to `o`: reference-counting `Ref` slots of every thread, global slots, pending
decrements (a pending `Act.dec o` / `Act.decNoDel o` is a reference the C++ code still holds) and the `next` members of
other objects (`Cfg.links`).  `Inv` is the invariant all C10 theorems are read off from;
`inv_update` reduces its preservation by a step of thread `t` to conditions on thread `t`'s own record and the objects
the step touched.
-/

namespace Muscle.Conc.RC
open Muscle.Conc Muscle.Conc.Pool

def b2n (b : Bool) : Nat := if b then 1 else 0

@[simp] theorem b2n_true : b2n true = 1 := rfl
@[simp] theorem b2n_false : b2n false = 0 := rfl

/-- number of reference-counting slots of `l` that reference `o` -/
def cntS : List Slot → Oid → Nat
  | [], _ => 0
  | x :: r, o => (if x = some (o, true) then 1 else 0) + cntS r o

/-- number of pending decrements of `o` -/
def cntDec : List Act → Oid → Nat
  | [], _ => 0
  | .dec x :: r, o => (if x = o then 1 else 0) + cntDec r o
  | .decNoDel x :: r, o => (if x = o then 1 else 0) + cntDec r o
  | _ :: r, o => cntDec r o

/-- number of pending `ReleaseObject(o)` critical sections -/
def cntRel : List Act → Oid → Nat
  | [], _ => 0
  | .release x :: r, o => (if x = o then 1 else 0) + cntRel r o
  | _ :: r, o => cntRel r o

def Th.refs (th : Th) (o : Oid) : Nat := cntS th.slots o + cntDec th.todo o

def sumT (f : Th → Nat) : List Th → Nat
  | [] => 0
  | x :: r => f x + sumT f r

/-- number of objects whose `next` member references `o` -/
def cntL : List (Oid × Oid) → Oid → Nat
  | [], _ => 0
  | p :: r, o => (if p.2 = o then 1 else 0) + cntL r o

/-- all references to `o` -/
def refs (c : Cfg) (o : Oid) : Nat := sumT (fun th => th.refs o) c.ths + cntS c.glob o + cntL c.links o

def pendRel (c : Cfg) (o : Oid) : Nat := sumT (fun th => cntRel th.todo o) c.ths

def outBitO (p : PoolSt) : Oid → Bool
  | .heap _ => false
  | .node s i => outBit p s i

/-- 1 for a pool node that is alive, 0 otherwise (heap objects never go through the pool) -/
def aliveN (f : Oid → Obj) : Oid → Nat
  | .heap _ => 0
  | .node s i => b2n (f (.node s i)).alive

theorem cntS_set {l : List Slot} {a : Nat} {x y : Slot} {o : Oid} (h : l[a]? = some x) :
    cntS (l.set a y) o + (if x = some (o, true) then 1 else 0) = cntS l o + (if y = some (o, true) then 1 else 0) := by
  induction l generalizing a with
  | nil => simp at h
  | cons z r ih =>
    cases a with
    | zero => simp at h; subst h; simp [cntS]; omega
    | succ a => simp at h; have := ih h; simp [cntS]; omega

theorem cntS_set_oob {l : List Slot} {a : Nat} {y : Slot} (h : l[a]? = none) : l.set a y = l := by
  induction l generalizing a with
  | nil => rfl
  | cons z r ih => cases a with
    | zero => simp at h
    | succ a => simp at h; simp [List.set]; exact ih (by simpa using h)

theorem cntS_replicate_none (n : Nat) (o : Oid) : cntS (List.replicate n none) o = 0 := by
  induction n with
  | zero => rfl
  | succ n ih => simp [List.replicate, cntS, ih]

theorem cntDec_append (l r : List Act) (o : Oid) : cntDec (l ++ r) o = cntDec l o + cntDec r o := by
  induction l with
  | nil => simp [cntDec]
  | cons a l ih => cases a <;> simp [cntDec, ih] <;> omega

theorem cntRel_append (l r : List Act) (o : Oid) : cntRel (l ++ r) o = cntRel l o + cntRel r o := by
  induction l with
  | nil => simp [cntRel]
  | cons a l ih => cases a <;> simp [cntRel, ih] <;> omega

theorem sumT_set {f : Th → Nat} {l : List Th} {t : Nat} {th th' : Th} (h : l[t]? = some th) :
    sumT f (l.set t th') + f th = sumT f l + f th' := by
  induction l generalizing t with
  | nil => simp at h
  | cons z r ih =>
    cases t with
    | zero => simp at h; subst h; simp [sumT]; omega
    | succ t => simp at h; have := ih h; simp [sumT]; omega

theorem sumT_zero {f : Th → Nat} {l : List Th} (h : ∀ th ∈ l, f th = 0) : sumT f l = 0 := by
  induction l with
  | nil => rfl
  | cons z r ih => simp [sumT, h z (by simp), ih (fun th hth => h th (by simp [hth]))]

theorem sumT_pos_mem {f : Th → Nat} {l : List Th} (h : 0 < sumT f l) : ∃ th ∈ l, 0 < f th := by
  induction l with
  | nil => simp [sumT] at h
  | cons z r ih =>
    simp only [sumT] at h
    by_cases hz : 0 < f z
    · exact ⟨z, by simp, hz⟩
    · obtain ⟨th, hm, hp⟩ := ih (by omega); exact ⟨th, by simp [hm], hp⟩

theorem sumT_ge_mem {f : Th → Nat} {l : List Th} {th : Th} (h : th ∈ l) : f th ≤ sumT f l := by
  induction l with
  | nil => simp at h
  | cons z r ih =>
    simp only [List.mem_cons] at h
    rcases h with rfl | h
    · simp [sumT]
    · have := ih h; simp [sumT]; omega

/-- the joint invariant -/
structure Inv (c : Cfg) : Prop where
  pool : PoolInv c.pool
  cnt : ∀ o, (c.obj o).count = refs c o
  alive : ∀ o, 0 < refs c o → (c.obj o).alive = true
  raw : ∀ (t : Nat) (th : Th) (o : Oid), c.ths[t]? = some th → th.raw = some o → (c.obj o).alive = true ∧ (c.obj o).count = 0
  rawU : ∀ (t u : Nat) (th tu : Th) (o : Oid), c.ths[t]? = some th → c.ths[u]? = some tu → th.raw = some o → tu.raw = some o → t = u
  acq : ∀ o, (c.obj o).acq = (c.obj o).rel + b2n (c.obj o).alive
  out : ∀ o, aliveN c.obj o + pendRel c o = b2n (outBitO c.pool o)
  heapFresh : ∀ k, c.nextHeap ≤ k → (c.obj (.heap k)).alive = false ∧ (c.obj (.heap k)).acq = 0
  heapMgr : ∀ k, (c.obj (.heap k)).mgr = false
  heapAcq : ∀ k, (c.obj (.heap k)).acq ≤ 1
  nodeMgr : ∀ s i, (c.obj (.node s i)).alive = true → (c.obj (.node s i)).mgr = true
  fresh : ∀ s i, (c.obj (.node s i)).alive = false → (c.obj (.node s i)).val = 0 ∧ (c.obj (.node s i)).mgr = false
  del : ∀ (t : Nat) (th : Th) (s : Slab), c.ths[t]? = some th → Act.delSlab s ∈ th.todo → s.inUse = 0 ∧ Unlisted c.pool s.id
  linksND : (c.links.map (·.1)).Nodup
  linkAlive : ∀ x n, (x, n) ∈ c.links → (c.obj x).alive = true
  noOld : ∀ (t : Nat) (th : Th) (a : Nat) (n : Oid), c.ths[t]? = some th → Act.incOld a n ∉ th.todo

/-- **Local update rule.**  A step of thread `t` (old record `th`, new record `th'`, everything else of the new
configuration in `c1`) preserves `Inv` if the listed conditions on `th`, `th'` and the touched objects hold. -/
theorem inv_update {c c1 : Cfg} {t : Nat} {th th' : Th} (h : Inv c) (ht : c.ths[t]? = some th) (hths : c1.ths = c.ths)
    (hpool : PoolInv c1.pool)
    (hcnt : ∀ o, (c1.obj o).count + th.refs o + cntS c.glob o + cntL c.links o = (c.obj o).count + th'.refs o + cntS c1.glob o + cntL c1.links o)
    (hkeep : ∀ o, (c.obj o).alive = true → (c1.obj o).alive = true ∨ (c1.obj o).count = 0)
    (hnew : ∀ o, th.refs o + cntS c.glob o + cntL c.links o < th'.refs o + cntS c1.glob o + cntL c1.links o → (c1.obj o).alive = true)
    (hraw : ∀ o, th'.raw = some o → (c1.obj o).alive = true ∧ (c1.obj o).count = 0)
    (hrawO : ∀ o, (c.obj o).alive = true → (c.obj o).count = 0 → ((c1.obj o).alive = true ∧ (c1.obj o).count = 0) ∨ th.raw = some o)
    (hrawN : ∀ o, th'.raw = some o → th.raw = some o ∨ (c.obj o).alive = false)
    (hacq : ∀ o, (c1.obj o).acq = (c1.obj o).rel + b2n (c1.obj o).alive)
    (hout : ∀ o, aliveN c1.obj o + cntRel th'.todo o + b2n (outBitO c.pool o) =
                 aliveN c.obj o + cntRel th.todo o + b2n (outBitO c1.pool o))
    (hfresh : ∀ k, c1.nextHeap ≤ k → (c1.obj (.heap k)).alive = false ∧ (c1.obj (.heap k)).acq = 0)
    (hmgr : ∀ k, (c1.obj (.heap k)).mgr = false)
    (hacq1 : ∀ k, (c1.obj (.heap k)).acq ≤ 1)
    (hnm : ∀ s i, (c1.obj (.node s i)).alive = true → (c1.obj (.node s i)).mgr = true)
    (hfr : ∀ s i, (c1.obj (.node s i)).alive = false → (c1.obj (.node s i)).val = 0 ∧ (c1.obj (.node s i)).mgr = false)
    (hdel : ∀ s, Act.delSlab s ∈ th'.todo → s.inUse = 0 ∧ Unlisted c1.pool s.id)
    (hmono : ∀ sid, Unlisted c.pool sid → Unlisted c1.pool sid)
    (hlnd : (c1.links.map (·.1)).Nodup)
    (hla : ∀ x n, (x, n) ∈ c1.links → (c1.obj x).alive = true)
    (hno : ∀ a n, Act.incOld a n ∉ th'.todo) :
    Inv { c1 with ths := c1.ths.set t th' } := by
  have hrefs : ∀ o, refs { c1 with ths := c1.ths.set t th' } o + th.refs o + cntS c.glob o + cntL c.links o = refs c o + th'.refs o + cntS c1.glob o + cntL c1.links o := by
    intro o
    have := sumT_set (f := fun th => th.refs o) (th' := th') ht
    simp only [refs, hths]; omega
  have hpr : ∀ o, pendRel { c1 with ths := c1.ths.set t th' } o + cntRel th.todo o = pendRel c o + cntRel th'.todo o := by
    intro o
    have := sumT_set (f := fun th => cntRel th.todo o) (th' := th') ht
    simp only [pendRel, hths]; omega
  have hcnt' : ∀ o, (c1.obj o).count = refs { c1 with ths := c1.ths.set t th' } o := by
    intro o; have := hrefs o; have := hcnt o; have := h.cnt o; omega
  have htlt : t < c.ths.length := by
    rcases List.getElem?_eq_some_iff.mp ht with ⟨hl, _⟩; exact hl
  have hlook : ∀ u tu, (c1.ths.set t th')[u]? = some tu → (u = t ∧ tu = th') ∨ (u ≠ t ∧ c.ths[u]? = some tu) := by
    intro u tu hu
    rw [hths, List.getElem?_set] at hu
    by_cases htu : t = u
    · subst htu; simp [htlt] at hu; exact Or.inl ⟨rfl, hu.symm⟩
    · simp [htu] at hu; exact Or.inr ⟨fun e => htu e.symm, hu⟩
  refine ⟨hpool, hcnt', ?_, ?_, ?_, hacq, ?_, hfresh, hmgr, hacq1, hnm, hfr, ?_, hlnd, hla, ?_⟩
  · -- alive
    intro o hpos
    have hc := hcnt' o
    by_cases ha : (c.obj o).alive = true
    · rcases hkeep o ha with h1 | h1
      · exact h1
      · omega
    · have h0 : refs c o = 0 := by
        rcases Nat.eq_zero_or_pos (refs c o) with h0 | h0
        · exact h0
        · exact absurd (h.alive o h0) ha
      have := hrefs o
      exact hnew o (by omega)
  · -- raw
    intro u tu o hu hr
    rcases hlook u tu hu with ⟨_, rfl⟩ | ⟨hne, hu'⟩
    · exact hraw o hr
    · have ⟨ha, hc⟩ := h.raw u tu o hu' hr
      rcases hrawO o ha hc with h1 | h1
      · exact h1
      · exact absurd (h.rawU u t tu th o hu' ht hr h1) hne
  · -- rawU
    intro u v tu tv o hu hv hru hrv
    rcases hlook u tu hu with ⟨rfl, rfl⟩ | ⟨hne, hu'⟩
    · rcases hlook v tv hv with ⟨rfl, _⟩ | ⟨hne2, hv'⟩
      · rfl
      · rcases hrawN o hru with h1 | h1
        · exact h.rawU _ _ _ _ o ht hv' h1 hrv
        · have := (h.raw v tv o hv' hrv).1; rw [h1] at this; cases this
    · rcases hlook v tv hv with ⟨rfl, rfl⟩ | ⟨hne2, hv'⟩
      · rcases hrawN o hrv with h1 | h1
        · exact h.rawU _ _ _ _ o hu' ht hru h1
        · have := (h.raw u tu o hu' hru).1; rw [h1] at this; cases this
      · exact h.rawU _ _ _ _ o hu' hv' hru hrv
  · -- out
    intro o
    have := hpr o; have := hout o; have := h.out o
    show aliveN c1.obj o + pendRel { c1 with ths := c1.ths.set t th' } o = b2n (outBitO c1.pool o)
    omega
  · -- del
    intro u tu s hu hs
    rcases hlook u tu hu with ⟨_, rfl⟩ | ⟨hne, hu'⟩
    · exact hdel s hs
    · have ⟨h1, h2⟩ := h.del u tu s hu' hs
      exact ⟨h1, hmono _ h2⟩
  · -- noOld
    intro u tu a n hu
    rcases hlook u tu hu with ⟨_, rfl⟩ | ⟨hne, hu'⟩
    · exact hno a n
    · exact h.noOld u tu a n hu'


theorem cntS_pos {l : List Slot} {a : Nat} {o : Oid} (h : l[a]? = some (some (o, true))) : 0 < cntS l o := by
  induction l generalizing a with
  | nil => simp at h
  | cons z r ih =>
    cases a with
    | zero => simp at h; subst h; simp [cntS]; omega
    | succ a => simp at h; have := ih h; simp [cntS]; omega

theorem mem_of_getElem? {l : List Th} {t : Nat} {th : Th} (h : l[t]? = some th) : th ∈ l := by
  rcases List.getElem?_eq_some_iff.mp h with ⟨hl, rfl⟩; exact List.getElem_mem hl

/-- a thread's own references are references -/
theorem th_refs_le {c : Cfg} {t : Nat} {th : Th} (ht : c.ths[t]? = some th) (o : Oid) : th.refs o ≤ refs c o := by
  have := sumT_ge_mem (f := fun th => th.refs o) (mem_of_getElem? ht)
  simp only [refs]; omega

theorem cntL_le_refs (c : Cfg) (o : Oid) : cntL c.links o ≤ refs c o := by simp only [refs]; omega

/-! ## the `next` members -/

theorem mem_dropKey {l : List (Oid × Oid)} {x : Oid} {p : Oid × Oid} : p ∈ dropKey l x ↔ p ∈ l ∧ p.1 ≠ x := by
  simp [dropKey, List.mem_filter]

theorem nodup_dropKey {l : List (Oid × Oid)} (h : (l.map (·.1)).Nodup) (x : Oid) : ((dropKey l x).map (·.1)).Nodup :=
  List.Nodup.sublist (List.Sublist.map _ List.filter_sublist) h

theorem nodup_cons_dropKey {l : List (Oid × Oid)} (h : (l.map (·.1)).Nodup) (x n : Oid) : (((x, n) :: dropKey l x).map (·.1)).Nodup := by
  simp only [List.map_cons, List.nodup_cons]
  refine ⟨?_, nodup_dropKey h x⟩
  intro hm; obtain ⟨p, hp, he⟩ := List.mem_map.mp hm
  exact (mem_dropKey.mp hp).2 he

theorem nextOf_mem {l : List (Oid × Oid)} {x n : Oid} (h : nextOf l x = some n) : (x, n) ∈ l := by
  simp only [nextOf] at h
  cases hf : l.find? (fun p => p.1 = x) with
  | none => rw [hf] at h; cases h
  | some p =>
    rw [hf] at h; simp at h
    have h1 := List.mem_of_find?_eq_some hf
    have h2 : p.1 = x := by simpa using List.find?_some hf
    have : p = (x, n) := by cases p; simp at h2 h; rw [h2, h]
    rw [← this]; exact h1

theorem cntL_dropKey {l : List (Oid × Oid)} (hnd : (l.map (·.1)).Nodup) (x o : Oid) :
    cntL (dropKey l x) o + (if nextOf l x = some o then 1 else 0) = cntL l o := by
  induction l with
  | nil => simp [dropKey, nextOf, cntL]
  | cons p r ih =>
    simp only [List.map_cons, List.nodup_cons] at hnd
    by_cases hp : p.1 = x
    · have hr : dropKey r x = r := by
        simp only [dropKey]; rw [List.filter_eq_self]
        intro q hq; simp only [decide_eq_true_eq]
        intro he; exact hnd.1 (by rw [hp, ← he]; exact List.mem_map_of_mem hq)
      have h1 : dropKey (p :: r) x = r := by
        have : dropKey (p :: r) x = dropKey r x := by simp [dropKey, hp]
        rw [this, hr]
      have h2 : nextOf (p :: r) x = some p.2 := by simp [nextOf, hp]
      rw [h1, h2]; simp only [cntL, Option.some.injEq]; omega
    · have h1 : dropKey (p :: r) x = p :: dropKey r x := by simp [dropKey, hp]
      have h2 : nextOf (p :: r) x = nextOf r x := by simp [nextOf, hp]
      have := ih hnd.2
      rw [h1, h2]; simp only [cntL]; omega

theorem count_zero_of_dead {c : Cfg} (h : Inv c) {o : Oid} (hd : (c.obj o).alive = false) : (c.obj o).count = 0 := by
  rw [h.cnt o]
  rcases Nat.eq_zero_or_pos (refs c o) with h0 | h0
  · exact h0
  · have := h.alive o h0; rw [hd] at this; cases this

end Muscle.Conc.RC
