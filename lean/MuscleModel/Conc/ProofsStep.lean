import MuscleModel.Conc.ProofsSafety

/-! Lifting of the shared-state invariant to the interleaving machine, and the single-step facts
(try/timed failure, writer preference, time-out return). -/

namespace Muscle.Conc.RW
open Muscle.Conc

@[simp] theorem applyRes_mx (c : Cfg) (t : Tid) (s' : Mx) (r : Res) (w : Pc) (m : Mode) : (applyRes c t s' r w m).1.mx = s' := by
  unfold applyRes
  cases r with
  | done st => rfl
  | wait => rfl
  | upgrade n => simp only; split <;> rfl

/-- the shared state after a `run` step, by program counter -/
theorem stepRun_mx {c c' : Cfg} {t : Tid} {o : Option St} (h : stepRun c t = some (c', o)) :
    c'.mx = match (c.th t).pc with
      | .done => c.mx
      | .rStart m => (lockRStart c.mx t m).1
      | .rWait _ => flushWC c.mx t
      | .rWoke _ b => (lockRWoke c.mx t b).1
      | .wStart m => (lockWStart c.mx t m).1
      | .wWait _ => flushWC c.mx t
      | .wWoke _ b => (lockWWoke c.mx t b).1
      | .uR => (unlockR c.mx t).1
      | .uW => (unlockW c.mx t).1 := by
  unfold stepRun at h
  cases hpc : (c.th t).pc <;> simp only [hpc] at h ⊢
  case done => cases h
  case rWait m => split at h <;> cases h; rfl
  case wWait m => split at h <;> cases h; rfl
  all_goals (have h' := congrArg (fun p : Cfg × Option St => p.1.mx) (Option.some.inj h); simp at h'; exact h'.symm)

/-- what a time-out event does: only the program counter of `t` changes, from a *timed* wait with nothing pending -/
theorem stepTimeout_spec {c c' : Cfg} {t : Tid} {o : Option St} (h : stepTimeout c t = some (c', o)) :
    c.mx.pend t = 0 ∧ o = none ∧ c'.mx = c.mx ∧
    (((c.th t).pc = .rWait .timed ∧ c'.th = upd c.th t { c.th t with pc := .rWoke .timed false }) ∨
     ((c.th t).pc = .wWait .timed ∧ c'.th = upd c.th t { c.th t with pc := .wWoke .timed false })) := by
  unfold stepTimeout at h
  cases hpc : (c.th t).pc with
  | rWait m =>
    cases m <;> simp [hpc] at h
    obtain ⟨hp, rfl, rfl⟩ := h
    simp [hp]
  | wWait m =>
    cases m <;> simp [hpc] at h
    obtain ⟨hp, rfl, rfl⟩ := h
    simp [hp]
  | _ => simp [hpc] at h

theorem stepTimeout_mx {c c' : Cfg} {t : Tid} {o : Option St} (h : stepTimeout c t = some (c', o)) : c'.mx = c.mx :=
  (stepTimeout_spec h).2.2.1

theorem step_mxInv {c c' : Cfg} {e : Ev} {o : Option St} (hi : MxInv c.mx) (h : step c e = some (c', o)) : MxInv c'.mx := by
  cases e with
  | timeout t => rw [stepTimeout_mx h]; exact hi
  | run t =>
    have := stepRun_mx h
    rw [this]
    cases (c.th t).pc <;> simp only
    · exact hi.lockRStart t _
    · exact hi.flushWC t
    · exact hi.lockRWoke t _
    · exact hi.lockWStart t _
    · exact hi.flushWC t
    · exact hi.lockWWoke t _
    · exact hi.unlockR t
    · exact hi.unlockW t
    · exact hi

/-- `MxInv` holds in every configuration reachable under any schedule, for any thread programs -/
theorem reach_mxInv {c₀ c : Cfg} (h0 : MxInv c₀.mx) (h : machine.Reach c₀ c) : MxInv c.mx :=
  Machine.Reach.invariant machine (fun c => MxInv c.mx) h0 (fun _ _ _ _ hi hs => step_mxInv hi hs) h

theorem init_mxInv (p : Bool) (progs : List (List Op)) : MxInv (Cfg.init p progs).mx := MxInv.init p

/-- sum of the write counts over the executing-threads table -/
def sumRw (s : Mx) : Nat := (s.exec.map s.rw).sum

theorem sum_map_zero (l : List Tid) (f : Tid → Nat) (h : ∀ u ∈ l, f u = 0) : (l.map f).sum = 0 := by
  induction l with
  | nil => rfl
  | cons a l ih =>
    simp only [List.map_cons, List.sum_cons]
    rw [h a (by simp), ih (fun u hu => h u (by simp [hu]))]

theorem MxInv.total_eq_sum {s : Mx} (h : MxInv s) : s.total = sumRw s := by
  unfold sumRw
  by_cases hz : s.total = 0
  · rw [hz, sum_map_zero s.exec s.rw (fun u _ => h.noWriter hz u)]
  · obtain ⟨t, ht⟩ := h.tot0 (by omega)
    rw [h.excl t ht, h.tot1 t ht]; simp

/-! ### single-step facts -/

theorem lockRStart_try_fail {s : Mx} {t : Tid} {s' : Mx} (h : lockRStart s t .try_ = (s', .done .timedOut)) : s' = s := by
  unfold lockRStart at h
  split at h
  · cases h
  · split at h
    · simp at h; exact h.symm
    · cases h

theorem lockWStart_try_fail {s : Mx} {t : Tid} {s' : Mx} (h : lockWStart s t .try_ = (s', .done .timedOut)) : s' = s := by
  unfold lockWStart at h
  split at h
  · split at h
    · cases h
    · simp at h; exact h.symm
  · split at h
    · cases h
    · simp at h; exact h.symm

/-- a `try` acquisition never waits -/
theorem lockRStart_try_no_wait (s : Mx) (t : Tid) : (lockRStart s t .try_).2 ≠ .wait := by
  unfold lockRStart; split
  · simp
  · split <;> simp

theorem lockWStart_try_no_wait (s : Mx) (t : Tid) : (lockWStart s t .try_).2 ≠ .wait := by
  unfold lockWStart; split
  · split <;> simp
  · split
    · simp
    · simp

/-- the time-out branch of a reader's wake-up: only the caller's waiting entry, notifications and the pool change -/
theorem lockRWoke_timeout (s : Mx) (t : Tid) :
    (lockRWoke s t false).2 = .done .timedOut ∧ (lockRWoke s t false).1.exec = s.exec ∧ (lockRWoke s t false).1.ro = s.ro ∧
    (lockRWoke s t false).1.rw = s.rw ∧ (lockRWoke s t false).1.total = s.total ∧
    (lockRWoke s t false).1.waitR = s.waitR.erase t ∧ (lockRWoke s t false).1.waitW = s.waitW := by
  simp [lockRWoke, releaseWC]

theorem lockWWoke_timeout (s : Mx) (t : Tid) :
    (lockWWoke s t false).2 = .done .timedOut ∧ (lockWWoke s t false).1.exec = s.exec ∧ (lockWWoke s t false).1.ro = s.ro ∧
    (lockWWoke s t false).1.rw = s.rw ∧ (lockWWoke s t false).1.total = s.total ∧
    (lockWWoke s t false).1.waitR = s.waitR ∧ (lockWWoke s t false).1.waitW = s.waitW.erase t := by
  simp [lockWWoke, releaseWC]

/-- a thread that is not executing becomes a reader only while `IsOkayForReaderThreadsToExecuteNow()` holds -/
theorem lockRStart_admits {s : Mx} {t : Tid} {m : Mode} (ht : t ∉ s.exec) (h : t ∈ (lockRStart s t m).1.exec) :
    okReaders s = true := by
  unfold lockRStart at h
  split at h
  · contradiction
  · split at h
    · split at h
      · exact absurd h ht
      · exact absurd h ht
    · rename_i hok; simpa using hok

theorem lockRWoke_admits {s : Mx} {t : Tid} {b : Bool} (ht : t ∉ s.exec) (h : t ∈ (lockRWoke s t b).1.exec) :
    okReaders s = true := by
  unfold lockRWoke at h
  split at h
  · have : t ∈ s.exec := by simpa [releaseWC] using h
    exact absurd this ht
  · split at h
    · assumption
    · exact absurd h ht


/-! ### outputs of a step -/

theorem applyRes_done_plain (c : Cfg) (t : Tid) (s' : Mx) (st : St) (w : Pc) (m : Mode) (hctx : (c.th t).ctx = []) :
    (applyRes c t s' (.done st) w m).2 = some st := by
  unfold applyRes; simp [hctx, finish]

@[simp] theorem applyRes_wait_out (c : Cfg) (t : Tid) (s' : Mx) (w : Pc) (m : Mode) : (applyRes c t s' .wait w m).2 = none := rfl

@[simp] theorem applyRes_upgrade_out (c : Cfg) (t : Tid) (s' : Mx) (n : Nat) (w : Pc) (m : Mode) :
    (applyRes c t s' (.upgrade n) w m).2 = none := by
  unfold applyRes; simp only; split <;> rfl

theorem lockRStart_no_upgrade (s : Mx) (t : Tid) (m : Mode) (n : Nat) : (lockRStart s t m).2 ≠ .upgrade n := by
  unfold lockRStart; split
  · simp
  · split
    · split <;> simp
    · simp

theorem lockWStart_no_upgrade {s : Mx} {t : Tid} (m : Mode) (n : Nat) (ht : t ∉ s.exec) : (lockWStart s t m).2 ≠ .upgrade n := by
  unfold lockWStart; simp only [ht, if_false]
  split
  · simp
  · split <;> simp

/-- since fix d881489 a `TryLockReadWrite()` never enters the upgrade path -/
theorem lockWStart_try_no_upgrade (s : Mx) (t : Tid) (n : Nat) : (lockWStart s t .try_).2 ≠ .upgrade n := by
  unfold lockWStart; split
  · split <;> simp
  · split
    · simp
    · simp

theorem try_fail_unchanged {c c' : Cfg} {t : Tid} (hpc : (c.th t).pc = .rStart .try_ ∨ (c.th t).pc = .wStart .try_)
    (hctx : (c.th t).ctx = []) (h : machine.step c (.run t) = some (c', some .timedOut)) : c'.mx = c.mx := by
  have h' : stepRun c t = some (c', some .timedOut) := h
  have hmx := stepRun_mx h'
  unfold stepRun at h'
  rcases hpc with hpc | hpc <;> simp only [hpc] at h' hmx
  · have hout := congrArg (fun p : Cfg × Option St => p.2) (Option.some.inj h')
    simp only at hout
    generalize hp : lockRStart c.mx t .try_ = p at hout hmx
    obtain ⟨s', r⟩ := p
    cases r with
    | done st =>
      rw [applyRes_done_plain _ _ _ _ _ _ hctx] at hout
      cases hout
      rw [hmx]; exact lockRStart_try_fail hp
    | wait => simp at hout
    | upgrade n => simp at hout
  · have hout := congrArg (fun p : Cfg × Option St => p.2) (Option.some.inj h')
    simp only at hout
    generalize hp : lockWStart c.mx t .try_ = p at hout hmx
    obtain ⟨s', r⟩ := p
    cases r with
    | done st =>
      rw [applyRes_done_plain _ _ _ _ _ _ hctx] at hout
      cases hout
      rw [hmx]; exact lockWStart_try_fail hp
    | wait => simp at hout
    | upgrade n => simp at hout

theorem try_single_step {c : Cfg} {t : Tid} (hpc : (c.th t).pc = .rStart .try_ ∨ (c.th t).pc = .wStart .try_)
    (hctx : (c.th t).ctx = []) :
    ∃ c' st, machine.step c (.run t) = some (c', some st) := by
  show ∃ c' st, stepRun c t = some (c', some st)
  unfold stepRun
  rcases hpc with hpc | hpc <;> simp only [hpc]
  · have h1 := lockRStart_try_no_wait c.mx t
    have h2 := lockRStart_no_upgrade c.mx t .try_
    generalize lockRStart c.mx t .try_ = p at h1 h2
    obtain ⟨s', r⟩ := p
    cases r with
    | done st => exact ⟨_, st, by rw [← applyRes_done_plain c t s' st (.rWait .try_) .try_ hctx]⟩
    | wait => exact absurd rfl h1
    | upgrade n => exact absurd rfl (h2 n)
  · have h1 := lockWStart_try_no_wait c.mx t
    have h2 := lockWStart_try_no_upgrade c.mx t
    generalize lockWStart c.mx t .try_ = p at h1 h2
    obtain ⟨s', r⟩ := p
    cases r with
    | done st => exact ⟨_, st, by rw [← applyRes_done_plain c t s' st (.wWait .try_) .try_ hctx]⟩
    | wait => exact absurd rfl h1
    | upgrade n => exact absurd rfl (h2 n)

theorem try_upgrade_single_step {c : Cfg} {t : Tid} (hpc : (c.th t).pc = .wStart .try_) (hctx : (c.th t).ctx = [])
    (hin : t ∈ c.mx.exec) (hrw : c.mx.rw t = 0) (hothers : c.mx.exec.length ≠ 1) :
    ∃ c', machine.step c (.run t) = some (c', some .timedOut) ∧ c'.mx = c.mx := by
  have hres : lockWStart c.mx t .try_ = (c.mx, .done .timedOut) := by
    unfold lockWStart
    have : ¬ (c.mx.rw t > 0 ∨ c.mx.exec.length = 1) := by omega
    simp [hin, this]
  refine ⟨(applyRes c t c.mx (.done .timedOut) (.wWait .try_) .try_).1, ?_, by simp⟩
  show stepRun c t = _
  unfold stepRun
  simp only [hpc, hres]
  rw [← applyRes_done_plain c t c.mx .timedOut (.wWait .try_) .try_ hctx]
  rfl

theorem timed_fail_frame {c c' : Cfg} {t : Tid} {o : Option St} {m : Mode}
    (hpc : (c.th t).pc = .rWoke m false ∨ (c.th t).pc = .wWoke m false) (h : machine.step c (.run t) = some (c', o)) :
    c'.mx.exec = c.mx.exec ∧ c'.mx.ro = c.mx.ro ∧ c'.mx.rw = c.mx.rw ∧ c'.mx.total = c.mx.total ∧
    ((c.th t).pc = .rWoke m false → c'.mx.waitR = c.mx.waitR.erase t ∧ c'.mx.waitW = c.mx.waitW) ∧
    ((c.th t).pc = .wWoke m false → c'.mx.waitW = c.mx.waitW.erase t ∧ c'.mx.waitR = c.mx.waitR) := by
  have h' : stepRun c t = some (c', o) := h
  have hmx := stepRun_mx h'
  rcases hpc with hpc | hpc <;> simp only [hpc] at hmx
  · have := lockRWoke_timeout c.mx t
    rw [hmx]; simp [hpc, this]
  · have := lockWWoke_timeout c.mx t
    rw [hmx]; simp [hpc, this]

theorem timeout_then_returns {c c1 : Cfg} {t : Tid} {o : Option St} (hctx : (c.th t).ctx = [])
    (h : machine.step c (.timeout t) = some (c1, o)) :
    ∃ c2, machine.step c1 (.run t) = some (c2, some .timedOut) := by
  have h' : stepTimeout c t = some (c1, o) := h
  obtain ⟨_, _, _, hcase⟩ := stepTimeout_spec h'
  show ∃ c2, stepRun c1 t = some (c2, some .timedOut)
  unfold stepRun
  rcases hcase with ⟨_, hth⟩ | ⟨_, hth⟩
  · have hpc : (c1.th t).pc = .rWoke .timed false := by rw [hth]; simp
    have hc : (c1.th t).ctx = [] := by rw [hth]; simpa using hctx
    simp only [hpc]
    have h2 := (lockRWoke_timeout c1.mx t).1
    generalize lockRWoke c1.mx t false = p at h2
    obtain ⟨s', r⟩ := p
    simp only at h2; subst h2
    exact ⟨(applyRes c1 t s' (.done .timedOut) (.rWait .timed) .timed).1, by rw [← applyRes_done_plain c1 t s' .timedOut (.rWait .timed) .timed hc]⟩
  · have hpc : (c1.th t).pc = .wWoke .timed false := by rw [hth]; simp
    have hc : (c1.th t).ctx = [] := by rw [hth]; simpa using hctx
    simp only [hpc]
    have h2 := (lockWWoke_timeout c1.mx t).1
    generalize lockWWoke c1.mx t false = p at h2
    obtain ⟨s', r⟩ := p
    simp only at h2; subst h2
    exact ⟨(applyRes c1 t s' (.done .timedOut) (.wWait .timed) .timed).1, by rw [← applyRes_done_plain c1 t s' .timedOut (.wWait .timed) .timed hc]⟩

theorem unlockR_exec_sub (s : Mx) (t u : Tid) (h : u ∈ (unlockR s t).1.exec) : u ∈ s.exec := by
  unfold unlockR at h
  split at h
  · exact h
  · split at h
    · rw [(maybeNotify_core _).1] at h; exact List.mem_of_mem_erase h
    · exact h

theorem dropWrite_exec_sub (s : Mx) (t u : Tid) (h : u ∈ (dropWrite s t).exec) : u ∈ s.exec := by
  unfold dropWrite at h
  simp only at h
  split at h
  · exact List.mem_of_mem_erase h
  · exact h

theorem unlockW_exec_sub (s : Mx) (t u : Tid) (h : u ∈ (unlockW s t).1.exec) : u ∈ s.exec := by
  unfold unlockW at h
  split at h
  · exact h
  · split at h
    · split at h
      · rw [(notifyAllReaders_core _).1] at h; exact dropWrite_exec_sub s t u h
      · split at h
        · rw [(notifySome_core _).1] at h; exact dropWrite_exec_sub s t u h
        · exact dropWrite_exec_sub s t u h
    · exact dropWrite_exec_sub s t u h

theorem lockWStart_new_writer {s : Mx} {t : Tid} {m : Mode} (ht : t ∉ s.exec) (h : t ∈ (lockWStart s t m).1.exec) :
    (lockWStart s t m).1.rw t = 1 := by
  unfold lockWStart at h ⊢
  simp only [ht, if_false] at h ⊢
  by_cases hok : okWriter s t = true
  · rw [if_pos hok]; simp
  · rw [if_neg hok] at h
    split at h <;> exact absurd h ht

theorem lockWWoke_new_writer {s : Mx} {t : Tid} {b : Bool} (ht : t ∉ s.exec) (h : t ∈ (lockWWoke s t b).1.exec) :
    (lockWWoke s t b).1.rw t = 1 := by
  unfold lockWWoke at h ⊢
  split
  · rename_i hb; simp only [hb, if_true] at h
    have : t ∈ s.exec := by simpa [releaseWC] using h
    exact absurd this ht
  · rename_i hb
    rw [if_neg hb] at h
    by_cases hok : okWriter s t = true
    · rw [if_pos hok]; simp [releaseWC]
    · rw [if_neg hok] at h; exact absurd h ht

theorem reader_admitted_no_writer_waiting {c c' : Cfg} {t : Tid} {o : Option St} (hp : c.mx.prefW = true) (ht : t ∉ c.mx.exec)
    (h : machine.step c (.run t) = some (c', o)) (hin : t ∈ c'.mx.exec) (hr : c'.mx.rw t = 0) : c.mx.waitW = [] := by
  have h' : stepRun c t = some (c', o) := h
  have hmx := stepRun_mx h'
  rw [hmx] at hin hr
  have fromOk : okReaders c.mx = true → c.mx.waitW = [] := by
    intro hok
    rcases ((okReaders_iff _).1 hok).2 with hf | he
    · rw [hp] at hf; cases hf
    · exact he
  cases hpc : (c.th t).pc <;> simp only [hpc] at hin hr
  · exact fromOk (lockRStart_admits ht hin)
  · exact absurd hin ht
  · exact fromOk (lockRWoke_admits ht hin)
  · have := lockWStart_new_writer ht hin; omega
  · exact absurd hin ht
  · have := lockWWoke_new_writer ht hin; omega
  · exact absurd (unlockR_exec_sub _ _ _ hin) ht
  · exact absurd (unlockW_exec_sub _ _ _ hin) ht
  · exact absurd hin ht


/-! ### exact counting, per critical section -/

/-- a successful `UnlockReadOnly()` takes exactly one read lock of the caller and touches no other count -/
theorem unlockR_exact {s : Mx} {t : Tid} (hok : (unlockR s t).2 = .ok) :
    s.ro t > 0 ∧ (unlockR s t).1.ro t = s.ro t - 1 ∧ (unlockR s t).1.rw = s.rw ∧ (unlockR s t).1.total = s.total ∧
    ∀ u, u ≠ t → (unlockR s t).1.ro u = s.ro u := by
  unfold unlockR at hok ⊢
  split
  · rename_i hc; simp [hc] at hok
  · rename_i hc
    have hpos : s.ro t > 0 := by apply Nat.pos_of_ne_zero; intro hn; exact hc (Or.inr hn)
    split
    · refine ⟨hpos, ?_, ?_, ?_, ?_⟩
      · rw [(maybeNotify_core _).2.1]; simp
      · rw [(maybeNotify_core _).2.2.1]
      · rw [(maybeNotify_core _).2.2.2.1]
      · intro u hu; rw [(maybeNotify_core _).2.1]; simp [hu]
    · exact ⟨hpos, by simp, rfl, rfl, fun u hu => by simp [hu]⟩

/-- a failed `UnlockReadOnly()` (`B_LOCK_FAILED`: the caller holds no read lock) changes nothing -/
theorem unlockR_failed {s : Mx} {t : Tid} (h : (unlockR s t).2 ≠ .ok) : (unlockR s t).1 = s := by
  unfold unlockR at h ⊢
  by_cases hc : t ∉ s.exec ∨ s.ro t = 0
  · rw [if_pos hc]
  · rw [if_neg hc] at h; exfalso; apply h; split <;> rfl

/-- a successful `UnlockReadWrite()` takes exactly one write lock of the caller, and one off the total -/
theorem unlockW_exact {s : Mx} {t : Tid} (hok : (unlockW s t).2 = .ok) :
    s.rw t > 0 ∧ (unlockW s t).1.rw t = s.rw t - 1 ∧ (unlockW s t).1.ro = s.ro ∧ (unlockW s t).1.total = s.total - 1 ∧
    ∀ u, u ≠ t → (unlockW s t).1.rw u = s.rw u := by
  have hd : (dropWrite s t).rw t = s.rw t - 1 ∧ (dropWrite s t).ro = s.ro ∧ (dropWrite s t).total = s.total - 1 ∧
      ∀ u, u ≠ t → (dropWrite s t).rw u = s.rw u := by
    unfold dropWrite; exact ⟨by simp, rfl, rfl, fun u hu => by simp [hu]⟩
  unfold unlockW at hok ⊢
  split
  · rename_i hc; simp [hc] at hok
  · rename_i hc
    have hpos : s.rw t > 0 := by apply Nat.pos_of_ne_zero; intro hn; exact hc (Or.inr hn)
    split
    · split
      · exact ⟨hpos, by rw [(notifyAllReaders_core _).2.2.1]; exact hd.1, by rw [(notifyAllReaders_core _).2.1]; exact hd.2.1,
          by rw [(notifyAllReaders_core _).2.2.2.1]; exact hd.2.2.1, fun u hu => by rw [(notifyAllReaders_core _).2.2.1]; exact hd.2.2.2 u hu⟩
      · split
        · exact ⟨hpos, by rw [(notifySome_core _).2.2.1]; exact hd.1, by rw [(notifySome_core _).2.1]; exact hd.2.1,
            by rw [(notifySome_core _).2.2.2.1]; exact hd.2.2.1, fun u hu => by rw [(notifySome_core _).2.2.1]; exact hd.2.2.2 u hu⟩
        · exact ⟨hpos, hd.1, hd.2.1, hd.2.2.1, hd.2.2.2⟩
    · exact ⟨hpos, hd.1, hd.2.1, hd.2.2.1, hd.2.2.2⟩

/-- an acquisition that succeeds in its first critical section adds exactly one lock of the requested mode -/
theorem lockRStart_exact {s : Mx} (h : MxInv s) {t : Tid} {m : Mode} (hok : (lockRStart s t m).2 = .done .ok) :
    (lockRStart s t m).1.ro t = s.ro t + 1 ∧ (lockRStart s t m).1.rw = s.rw ∧ (lockRStart s t m).1.total = s.total ∧
    ∀ u, u ≠ t → (lockRStart s t m).1.ro u = s.ro u := by
  unfold lockRStart at hok ⊢
  split
  · exact ⟨by simp, rfl, rfl, fun u hu => by simp [hu]⟩
  · rename_i ht
    split
    · rename_i hf
      exfalso
      rw [if_neg ht, if_pos hf] at hok
      by_cases hm : m = .try_
      · rw [if_pos hm] at hok; cases hok
      · rw [if_neg hm] at hok; cases hok
    · have := (h.absent ht).1
      exact ⟨by simp [this], rfl, rfl, fun u hu => by simp [hu]⟩

theorem lockWStart_exact {s : Mx} (h : MxInv s) {t : Tid} {m : Mode} (hok : (lockWStart s t m).2 = .done .ok) :
    (lockWStart s t m).1.rw t = s.rw t + 1 ∧ (lockWStart s t m).1.ro = s.ro ∧ (lockWStart s t m).1.total = s.total + 1 ∧
    ∀ u, u ≠ t → (lockWStart s t m).1.rw u = s.rw u := by
  unfold lockWStart at hok ⊢
  split
  · split
    · exact ⟨by simp, rfl, rfl, fun u hu => by simp [hu]⟩
    · rename_i h1 h2
      exfalso
      rw [if_pos h1, if_neg h2] at hok
      by_cases hm : m = .try_
      · rw [if_pos hm] at hok; cases hok
      · rw [if_neg hm] at hok; cases hok
  · rename_i ht
    split
    · have := (h.absent ht).2
      exact ⟨by simp [this], rfl, rfl, fun u hu => by simp [hu]⟩
    · rename_i hn
      simp [ht, hn] at hok
      split at hok <;> simp at hok

end Muscle.Conc.RW
