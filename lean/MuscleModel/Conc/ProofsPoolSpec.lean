import MuscleModel.Conc.ProofsPool

/-! # `ObtainObjectAux` / `ReleaseObjectAux` keep the pool invariant and flip exactly one `out` bit (lemmas for C10) -/

namespace Muscle.Conc.Pool

def outOf (x : Slab) (i : Nat) : Bool := (x.nodes.getD i ⟨none, false⟩).out

def outBitL (l : List Slab) (sid i : Nat) : Bool :=
  match l.find? (fun s => s.id = sid) with
  | some s => outOf s i
  | none => false

theorem outBit_eq (p : PoolSt) (sid i : Nat) : outBit p sid i = outBitL p.slabs sid i := rfl

theorem find_id {l : List Slab} (hnd : (l.map (·.id)).Nodup) {x : Slab} (hx : x ∈ l) :
    l.find? (fun s => s.id = x.id) = some x := by
  induction l with
  | nil => cases hx
  | cons y r ih =>
    simp only [List.map_cons, List.nodup_cons] at hnd
    simp only [List.find?_cons]
    by_cases hy : y.id = x.id
    · simp only [hy, decide_true]
      rcases List.mem_cons.mp hx with rfl | hxr
      · rfl
      · exact absurd (by rw [hy]; exact List.mem_map_of_mem hxr) hnd.1
    · simp only [hy, decide_false]
      rcases List.mem_cons.mp hx with rfl | hxr
      · exact absurd rfl hy
      · exact ih hnd.2 hxr

theorem outBitL_eval {l : List Slab} (hnd : (l.map (·.id)).Nodup) {x : Slab} (hx : x ∈ l) (i : Nat) :
    outBitL l x.id i = outOf x i := by
  simp only [outBitL, find_id hnd hx]

theorem outBitL_none {l : List Slab} {sid : Nat} (h : ∀ x ∈ l, x.id ≠ sid) (i : Nat) : outBitL l sid i = false := by
  have : l.find? (fun s => s.id = sid) = none := by
    rw [List.find?_eq_none]; intro x hx; simpa using h x hx
  simp only [outBitL, this]

theorem freeCount_perm {N : Nat} {l l' : List Slab} (h : l.Perm l') : freeCount N l = freeCount N l' := by
  induction h with
  | nil => rfl
  | cons x _ ih => simp [freeCount, ih]
  | swap x y l => simp [freeCount]; omega
  | trans _ _ ih1 ih2 => rw [ih1, ih2]

theorem mem_eraseSlab {l : List Slab} {sid : Nat} {x : Slab} : x ∈ eraseSlab l sid ↔ x ∈ l ∧ x.id ≠ sid := by
  simp [eraseSlab, List.mem_filter]

theorem nodup_eraseSlab {l : List Slab} (hnd : (l.map (·.id)).Nodup) (sid : Nat) : ((eraseSlab l sid).map (·.id)).Nodup :=
  List.Nodup.sublist (List.Sublist.map _ List.filter_sublist) hnd

theorem freeCount_erase {N : Nat} {l : List Slab} (hnd : (l.map (·.id)).Nodup) {s : Slab} (hs : s ∈ l) :
    freeCount N (eraseSlab l s.id) + (N - s.inUse) = freeCount N l := by
  induction l with
  | nil => cases hs
  | cons y r ih =>
    simp only [List.map_cons, List.nodup_cons] at hnd
    by_cases hy : y.id = s.id
    · have hys : s = y := by
        rcases List.mem_cons.mp hs with rfl | hsr
        · rfl
        · exact absurd (by rw [hy]; exact List.mem_map_of_mem hsr) hnd.1
      subst hys
      have : eraseSlab r s.id = r := by
        simp only [eraseSlab]
        rw [List.filter_eq_self]
        intro x hx; simp only [decide_eq_true_eq]
        intro he; exact hnd.1 (by rw [← he]; exact List.mem_map_of_mem hx)
      have h2 : eraseSlab (s :: r) s.id = eraseSlab r s.id := by simp [eraseSlab]
      rw [h2, this]; simp only [freeCount]; omega
    · have hsr : s ∈ r := by
        rcases List.mem_cons.mp hs with rfl | hsr
        · exact absurd rfl hy
        · exact hsr
      have := ih hnd.2 hsr
      simp only [eraseSlab, List.filter_cons, ne_eq, hy, not_false_eq_true, decide_true, if_true] at this ⊢
      simp only [freeCount]; omega


theorem outOf_of_get {x : Slab} {i : Nat} {nd : Node} (h : x.nodes[i]? = some nd) : outOf x i = nd.out := by
  simp [outOf, List.getD_eq_getElem?_getD, h]

theorem outOf_set_same {nodes : List Node} {i : Nat} (hi : i < nodes.length) (x : Slab) (v : Node) (hx : x.nodes = nodes.set i v) :
    outOf x i = v.out := by
  simp [outOf, hx, List.getD_eq_getElem?_getD, hi]

theorem outOf_set_ne {nodes : List Node} {i j : Nat} (hij : i ≠ j) (x y : Slab) (v : Node) (hx : x.nodes = nodes.set i v) (hy : y.nodes = nodes) :
    outOf x j = outOf y j := by
  simp [outOf, hx, hy, List.getD_eq_getElem?_getD, hij]

/-- what `ObtainObjectAux` guarantees -/
def ObtainSpec (p : PoolSt) (r : PoolSt × Got) : Prop :=
  PoolInv r.1 ∧ outBit p r.2.sid r.2.idx = false ∧ outBit r.1 r.2.sid r.2.idx = true ∧
  (∀ s i, ¬(s = r.2.sid ∧ i = r.2.idx) → outBit r.1 s i = outBit p s i) ∧ (∀ sid, Unlisted p sid → Unlisted r.1 sid)

theorem reuse_spec {p : PoolSt} (h : PoolInv p) {s s' : Slab} {rest l' : List Slab} {i : Nat}
    (hsl : p.slabs = s :: rest) (hp : s.pop = some (i, s')) (hperm : l'.Perm (s' :: rest)) :
    ObtainSpec p ({ p with slabs := l', cur := p.cur - 1 }, ⟨s.id, i, false⟩) := by
  have hsok : SlabOK p.N s := h.slabs s (by rw [hsl]; simp)
  obtain ⟨hs'ok, hinuse, hlt, hiN, hid, hnodes, nd, hnd, hout⟩ := pop_ok hsok hp
  have hids : (p.slabs.map (·.id)).Nodup := h.ids
  have hids' : (l'.map (·.id)).Nodup := by
    rw [(hperm.map _).nodup_iff]; rw [hsl] at hids; simpa [hid] using hids
  have hmem : ∀ x, x ∈ l' ↔ x = s' ∨ x ∈ rest := by intro x; rw [hperm.mem_iff]; simp
  have hsmem : s ∈ p.slabs := by rw [hsl]; simp
  have hrest_ne : ∀ x ∈ rest, x.id ≠ s.id := by
    intro x hx he
    rw [hsl] at hids; simp only [List.map_cons, List.nodup_cons] at hids
    exact hids.1 (by rw [← he]; exact List.mem_map_of_mem hx)
  have hilen : i < s.nodes.length := by rw [hsok.len]; exact hiN
  refine ⟨⟨h.npos, ?_, hids', ?_, ?_⟩, ?_, ?_, ?_, ?_⟩
  · intro x hx; rcases (hmem x).mp hx with rfl | hx
    · exact hs'ok
    · exact h.slabs x (by rw [hsl]; simp [hx])
  · intro x hx; rcases (hmem x).mp hx with rfl | hx
    · rw [hid]; exact h.old s hsmem
    · exact h.old x (by rw [hsl]; simp [hx])
  · have h1 := h.cur
    rw [hsl] at h1
    simp only [freeCount_perm hperm, freeCount] at h1 ⊢
    omega
  · show outBit p s.id i = false
    rw [outBit_eq, outBitL_eval hids hsmem, outOf_of_get hnd, hout]
  · show outBitL l' s.id i = true
    rw [← hid, outBitL_eval hids' ((hmem s').mpr (Or.inl rfl))]
    exact outOf_set_same hilen s' _ hnodes
  · intro sid j hne
    show outBitL l' sid j = outBitL p.slabs sid j
    by_cases hsid : sid = s.id
    · subst hsid
      have hji : i ≠ j := fun e => hne ⟨rfl, e.symm⟩
      rw [outBitL_eval hids hsmem]
      rw [← hid, outBitL_eval hids' ((hmem s').mpr (Or.inl rfl))]
      exact outOf_set_ne hji s' s _ hnodes rfl
    · by_cases hex : ∃ x ∈ rest, x.id = sid
      · obtain ⟨x, hx, rfl⟩ := hex
        rw [outBitL_eval hids' ((hmem x).mpr (Or.inr hx)), outBitL_eval hids (by rw [hsl]; simp [hx])]
      · have hno : ∀ x ∈ rest, x.id ≠ sid := fun x hx he => hex ⟨x, hx, he⟩
        rw [outBitL_none, outBitL_none]
        · intro x hx; rw [hsl] at hx
          rcases List.mem_cons.mp hx with rfl | hx
          · exact fun e => hsid e.symm
          · exact hno x hx
        · intro x hx; rcases (hmem x).mp hx with rfl | hx
          · rw [hid]; exact fun e => hsid e.symm
          · exact hno x hx
  · intro sid ⟨h1, h2⟩
    refine ⟨h1, ?_⟩
    intro x hx; rcases (hmem x).mp hx with rfl | hx
    · rw [hid]; exact h2 s hsmem
    · exact h2 x (by rw [hsl]; simp [hx])

theorem pop_newSlab {N : Nat} (hN : 0 < N) (id : Nat) : ∃ i s', (newSlab N id).pop = some (i, s') := by
  simp only [Slab.pop, newSlab]
  have : ¬ N = 0 := by omega
  simp [this]

theorem fresh_spec {p : PoolSt} (h : PoolInv p) : ObtainSpec p (obtainFresh p) := by
  obtain ⟨i, s', hp⟩ := pop_newSlab h.npos p.nextSlab
  obtain ⟨hs'ok, hinuse, hlt, hiN, hid, hnodes, nd, hnd, hout⟩ := pop_ok (newSlab_ok p.N p.nextSlab) hp
  have hid' : s'.id = p.nextSlab := by rw [hid]; rfl
  have hinuse' : s'.inUse = 1 := by rw [hinuse]; rfl
  unfold obtainFresh
  simp only [hp]
  have hperm : (if s'.first.isSome then s' :: p.slabs else p.slabs ++ [s']).Perm (s' :: p.slabs) := by
    split
    · exact List.Perm.refl _
    · exact List.perm_append_singleton _ _
  generalize (if s'.first.isSome then s' :: p.slabs else p.slabs ++ [s']) = l' at hperm
  have hold_ne : ∀ x ∈ p.slabs, x.id ≠ p.nextSlab := fun x hx => by have := h.old x hx; omega
  have hids : (p.slabs.map (·.id)).Nodup := h.ids
  have hids' : (l'.map (·.id)).Nodup := by
    rw [(hperm.map _).nodup_iff]
    simp only [List.map_cons, List.nodup_cons, hid']
    refine ⟨?_, hids⟩
    intro hm; obtain ⟨x, hx, he⟩ := List.mem_map.mp hm; exact hold_ne x hx he
  have hmem : ∀ x, x ∈ l' ↔ x = s' ∨ x ∈ p.slabs := by intro x; rw [hperm.mem_iff]; simp
  have hilen : i < (newSlab p.N p.nextSlab).nodes.length := by rw [(newSlab_ok p.N p.nextSlab).len]; exact hiN
  refine ⟨⟨h.npos, ?_, hids', ?_, ?_⟩, ?_, ?_, ?_, ?_⟩
  · intro x hx; rcases (hmem x).mp hx with rfl | hx
    · exact hs'ok
    · exact h.slabs x hx
  · intro x hx; rcases (hmem x).mp hx with rfl | hx
    · simp only [hid']; omega
    · have := h.old x hx; simp only; omega
  · have h1 := h.cur
    have := h.npos
    simp only [freeCount_perm hperm, freeCount, hinuse'] at h1 ⊢
    omega
  · show outBitL p.slabs (newSlab p.N p.nextSlab).id i = false
    exact outBitL_none hold_ne i
  · show outBitL l' (newSlab p.N p.nextSlab).id i = true
    rw [← hid, outBitL_eval hids' ((hmem s').mpr (Or.inl rfl))]
    exact outOf_set_same hilen s' _ hnodes
  · intro sid j hne
    show outBitL l' sid j = outBitL p.slabs sid j
    by_cases hsid : sid = p.nextSlab
    · subst hsid
      have hji : i ≠ j := fun e => hne ⟨rfl, e.symm⟩
      rw [outBitL_none hold_ne]
      rw [← hid', outBitL_eval hids' ((hmem s').mpr (Or.inl rfl))]
      rw [outOf_set_ne hji s' (newSlab p.N p.nextSlab) _ hnodes rfl]
      simp only [outOf, List.getD_eq_getElem?_getD]
      cases hg : (newSlab p.N p.nextSlab).nodes[j]? with
      | none => rfl
      | some nd' => exact (freshNodes_out (by simpa [newSlab, freshNodes] using hg)).1
    · by_cases hex : ∃ x ∈ p.slabs, x.id = sid
      · obtain ⟨x, hx, rfl⟩ := hex
        rw [outBitL_eval hids' ((hmem x).mpr (Or.inr hx)), outBitL_eval hids hx]
      · have hno : ∀ x ∈ p.slabs, x.id ≠ sid := fun x hx he => hex ⟨x, hx, he⟩
        rw [outBitL_none hno, outBitL_none]
        intro x hx; rcases (hmem x).mp hx with rfl | hx
        · rw [hid']; exact fun e => hsid e.symm
        · exact hno x hx
  · intro sid ⟨h1, h2⟩
    refine ⟨by simp only; omega, ?_⟩
    intro x hx; rcases (hmem x).mp hx with rfl | hx
    · rw [hid']; omega
    · exact h2 x hx

theorem obtain_spec' {p : PoolSt} (h : PoolInv p) : ObtainSpec p (obtain p) := by
  unfold obtain
  cases hsl : p.slabs with
  | nil => simp only; exact fresh_spec h
  | cons s rest =>
    simp only
    cases hp : s.pop with
    | none => simp only; exact fresh_spec h
    | some pr =>
      obtain ⟨i, s'⟩ := pr
      simp only
      apply reuse_spec h hsl hp
      split
      · exact List.perm_append_singleton _ _
      · exact List.Perm.refl _

theorem obtain_spec {p : PoolSt} (h : PoolInv p) :
    PoolInv (obtain p).1 ∧ outBit p (obtain p).2.sid (obtain p).2.idx = false ∧
    outBit (obtain p).1 (obtain p).2.sid (obtain p).2.idx = true ∧
    (∀ s i, ¬(s = (obtain p).2.sid ∧ i = (obtain p).2.idx) → outBit (obtain p).1 s i = outBit p s i) ∧
    (∀ sid, Unlisted p sid → Unlisted (obtain p).1 sid) := obtain_spec' h


theorem release_spec {p : PoolSt} (h : PoolInv p) {sid i : Nat} (hout : outBit p sid i = true) :
    PoolInv (release p sid i).1 ∧ outBit (release p sid i).1 sid i = false ∧
    (∀ s j, ¬(s = sid ∧ j = i) → outBit (release p sid i).1 s j = outBit p s j) ∧
    (∀ x, Unlisted p x → Unlisted (release p sid i).1 x) ∧
    (∀ s, (release p sid i).2 = some s → s.inUse = 0 ∧ s.id = sid ∧ Unlisted (release p sid i).1 sid) := by
  have hids : (p.slabs.map (·.id)).Nodup := h.ids
  -- the slab of the object
  cases hf : p.slabs.find? (fun s => s.id = sid) with
  | none => rw [outBit_eq] at hout; simp [outBitL, hf] at hout
  | some s =>
    have hsmem : s ∈ p.slabs := List.mem_of_find?_eq_some hf
    have hsid : s.id = sid := by simpa using List.find?_some hf
    subst hsid
    have hso : outOf s i = true := by rw [outBit_eq] at hout; simpa [outBitL, hf] using hout
    have hsok := h.slabs s hsmem
    have hget : ∃ nd, s.nodes[i]? = some nd ∧ nd.out = true := by
      simp only [outOf, List.getD_eq_getElem?_getD] at hso
      cases hg : s.nodes[i]? with
      | none => rw [hg] at hso; simp at hso
      | some nd => rw [hg] at hso; exact ⟨nd, rfl, by simpa using hso⟩
    obtain ⟨nd, hnd, hndo⟩ := hget
    obtain ⟨hpok, hpin, hle⟩ := push_ok hsok hnd hndo
    have hilen : i < s.nodes.length := by
      rcases List.getElem?_eq_some_iff.mp hnd with ⟨hl, _⟩; exact hl
    have hpid : (s.push i).id = s.id := rfl
    have hpnodes : (s.push i).nodes = s.nodes.set i ⟨s.first, false⟩ := rfl
    have hfc := freeCount_erase (N := p.N) hids hsmem
    have hcur := h.cur
    have hers : ∀ x ∈ eraseSlab p.slabs s.id, x.id ≠ s.id := fun x hx => (mem_eraseSlab.mp hx).2
    unfold release
    simp only [hf]
    split
    · -- the slab is unlisted and handed to the caller for deletion
      rename_i hc
      have hin1 : s.inUse = 1 := by omega
      have hall : ∀ (j : Nat) (nd' : Node), (s.push i).nodes[j]? = some nd' → nd'.out = false :=
        fun j nd' hj => outCount_zero (by rw [← hpok.cnt]; exact hc.2) hj
      refine ⟨⟨h.npos, ?_, nodup_eraseSlab hids _, ?_, ?_⟩, ?_, ?_, ?_, ?_⟩
      · intro x hx; exact h.slabs x (mem_eraseSlab.mp hx).1
      · intro x hx; exact h.old x (mem_eraseSlab.mp hx).1
      · simp only; omega
      · show outBitL (eraseSlab p.slabs s.id) s.id i = false
        exact outBitL_none hers i
      · intro sid j hne
        show outBitL (eraseSlab p.slabs s.id) sid j = outBitL p.slabs sid j
        by_cases hsid : sid = s.id
        · subst hsid
          have hji : i ≠ j := fun e => hne ⟨rfl, e.symm⟩
          rw [outBitL_none hers, outBitL_eval hids hsmem]
          rw [← outOf_set_ne hji (s.push i) s _ hpnodes rfl]
          simp only [outOf, List.getD_eq_getElem?_getD]
          cases hg : (s.push i).nodes[j]? with
          | none => rfl
          | some nd' => exact (hall j nd' hg).symm
        · by_cases hex : ∃ x ∈ p.slabs, x.id = sid
          · obtain ⟨x, hx, rfl⟩ := hex
            rw [outBitL_eval (nodup_eraseSlab hids _) (mem_eraseSlab.mpr ⟨hx, hsid⟩), outBitL_eval hids hx]
          · have hno : ∀ x ∈ p.slabs, x.id ≠ sid := fun x hx he => hex ⟨x, hx, he⟩
            rw [outBitL_none hno, outBitL_none]
            intro x hx; exact hno x (mem_eraseSlab.mp hx).1
      · intro x ⟨h1, h2⟩
        exact ⟨h1, fun y hy => h2 y (mem_eraseSlab.mp hy).1⟩
      · intro s1 hs1
        simp only [Option.some.injEq] at hs1; subst hs1
        exact ⟨hc.2, rfl, h.old s hsmem, hers⟩
    · -- the slab stays (moved to the front of the list)
      rename_i hc
      have hids' : (((s.push i) :: eraseSlab p.slabs s.id).map (·.id)).Nodup := by
        simp only [List.map_cons, List.nodup_cons, hpid]
        refine ⟨?_, nodup_eraseSlab hids _⟩
        intro hm; obtain ⟨x, hx, he⟩ := List.mem_map.mp hm; exact hers x hx he
      refine ⟨⟨h.npos, ?_, hids', ?_, ?_⟩, ?_, ?_, ?_, ?_⟩
      · intro x hx; rcases List.mem_cons.mp hx with rfl | hx
        · exact hpok
        · exact h.slabs x (mem_eraseSlab.mp hx).1
      · intro x hx; rcases List.mem_cons.mp hx with rfl | hx
        · exact h.old s hsmem
        · exact h.old x (mem_eraseSlab.mp hx).1
      · simp only [freeCount]; omega
      · show outBitL ((s.push i) :: eraseSlab p.slabs s.id) s.id i = false
        refine Eq.trans (outBitL_eval hids' (x := s.push i) (List.mem_cons_self ..) i) ?_
        exact outOf_set_same hilen (s.push i) _ hpnodes
      · intro sid j hne
        show outBitL ((s.push i) :: eraseSlab p.slabs s.id) sid j = outBitL p.slabs sid j
        by_cases hsid : sid = s.id
        · subst hsid
          have hji : i ≠ j := fun e => hne ⟨rfl, e.symm⟩
          rw [outBitL_eval hids hsmem]
          refine Eq.trans (outBitL_eval hids' (x := s.push i) (List.mem_cons_self ..) j) ?_
          exact outOf_set_ne hji (s.push i) s _ hpnodes rfl
        · by_cases hex : ∃ x ∈ p.slabs, x.id = sid
          · obtain ⟨x, hx, rfl⟩ := hex
            rw [outBitL_eval hids' (List.mem_cons_of_mem _ (mem_eraseSlab.mpr ⟨hx, hsid⟩)), outBitL_eval hids hx]
          · have hno : ∀ x ∈ p.slabs, x.id ≠ sid := fun x hx he => hex ⟨x, hx, he⟩
            rw [outBitL_none hno, outBitL_none]
            intro x hx; rcases List.mem_cons.mp hx with rfl | hx
            · exact fun e => hsid e.symm
            · exact hno x (mem_eraseSlab.mp hx).1
      · intro x ⟨h1, h2⟩
        refine ⟨h1, ?_⟩
        intro y hy; rcases List.mem_cons.mp hy with rfl | hy
        · exact h2 s hsmem
        · exact h2 y (mem_eraseSlab.mp hy).1
      · intro s1 hs1; cases hs1

end Muscle.Conc.Pool
