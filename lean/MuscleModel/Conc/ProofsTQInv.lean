import MuscleModel.Conc.ProofsTQBasic

/-! # C11 lemmas, part 2: the safety invariant (no lost wake-up, both directions) -/

namespace Muscle.Conc.TQ
open Muscle.Conc

/-- a thread that only ever calls `SendMessageToInternalThread(non-NULL)` -/
def SenderOnly (th : UTh) : Prop :=
  (∀ op ∈ th.prog, op.isSend = true) ∧
  (th.pc = .done ∨ (∃ m, th.pc = .sendLock (some m) false) ∨ th.pc = .sendSig false)

/-- a user thread stands between the unlock of `SendMessageAux(INTERNAL)` (with `sendNotification = true`) and its signal,
or between the spawn in `StartInternalThread()` (with `needsInitialSignal = true`) and its signal -/
def isSigPc : UPc → Bool
  | .sendSig _ => true
  | .startSig => true
  | _ => false

def SignallerI (c : Cfg) : Prop := ∃ t, isSigPc (c.th t).pc = true

/-- the internal thread stands between an unlock of the reply queue and `SignalOwner()` -/
def SignallerO (c : Cfg) : Prop := c.ipc = .entrySig ∨ ∃ id j k, c.ipc = .replySig id j k

structure Inv (c : Cfg) : Prop where
  /-- a live internal thread implies: marked running, its socket pair exists and is open -/
  alive : c.ipc ≠ .exited → c.sh.running = true ∧ c.sh.gen > 0 ∧ (c.sh.mode = .sock → c.sh.alloc = true ∧ c.sh.closedO = false)
  senders : ∀ t, t ≠ 0 → SenderOnly (c.th t)
  outside : ∀ t, c.n ≤ t → (c.th t).pc = .done
  wakeI : c.ipc = .recvWait → c.sh.ci.queue ≠ [] → c.sh.ci.sig > 0 ∨ SignallerI c
  wakeO : ∀ w, (c.th 0).pc = .recvWait w → c.sh.co.queue ≠ [] →
            c.sh.co.sig > 0 ∨ (c.sh.mode = .sock ∧ c.sh.closedO = true) ∨ SignallerO c
  shut : ((c.th 0).pc = .sendSig true ∨ (c.th 0).pc = .join true) → none ∈ c.sh.ci.queue ∨ c.ipc = .exited
  nullOnly : ∀ it, (c.th 0).pc = .sendLock it true → it = none

/-- only the owner (thread 0) starts, receives, shuts down and joins -/
def OwnerOnly (progs : List (List Op)) : Prop := ∀ t p, t ≠ 0 → progs[t]? = some p → ∀ op ∈ p, op.isSend = true

theorem nextOp_pc (prog : List Op) :
    (nextOp prog).pc = .done ∨ (∃ m, (nextOp prog).pc = .sendLock (some m) false) ∨ (nextOp prog).pc = .idle := by
  unfold nextOp; split <;> simp

theorem senderOnly_nextOp {prog : List Op} (h : ∀ op ∈ prog, op.isSend = true) : SenderOnly (nextOp prog) := by
  unfold nextOp
  split
  · exact ⟨by simp, Or.inl rfl⟩
  · rename_i m rest
    exact ⟨fun op ho => h op (List.mem_cons_of_mem _ ho), Or.inr (Or.inl ⟨m, rfl⟩)⟩
  · rename_i op rest hne
    have := h op (by simp)
    cases op <;> simp_all [Op.isSend]

theorem inv_init (mode : Mode) {progs : List (List Op)} (hw : OwnerOnly progs) : Inv (Cfg.init mode progs) where
  alive := by simp [Cfg.init]
  senders := by
    intro t ht
    simp only [Cfg.init]
    cases hp : progs[t]? with
    | none => exact ⟨by simp, Or.inl rfl⟩
    | some p => exact senderOnly_nextOp (hw t p ht hp)
  outside := by
    intro t ht
    simp only [Cfg.init] at *
    have : progs[t]? = none := by simp [ht]
    simp [this]
  wakeI := by simp [Cfg.init]
  wakeO := by simp [Cfg.init, Sh.init, Chan.empty]
  shut := by simp [Cfg.init]
  nullOnly := by
    simp only [Cfg.init]
    cases hp : progs[0]? with
    | none => simp
    | some p => have := nextOp_pc p; simp; rcases this with h | ⟨m, h⟩ | h <;> simp [h]

theorem afterSend_false (prog : List Op) : afterSend false prog = (nextOp prog, .ok) := by simp [afterSend]
theorem afterSend_true (prog : List Op) : afterSend true prog = ({ pc := .join true, prog := prog }, .quiet) := by simp [afterSend]

theorem nextOp_not_sig (prog : List Op) : isSigPc (nextOp prog).pc = false := by
  rcases nextOp_pc prog with h | ⟨m, h⟩ | h <;> simp [h, isSigPc]

/-- a step of a thread that is not at a signal point (or that stays at one) keeps every signaller -/
theorem signallerI_keep {c : Cfg} {t : Tid} {v : UTh} (h : SignallerI c)
    (ht : isSigPc (c.th t).pc = false ∨ isSigPc v.pc = true) {s' : Sh} {i' : IPc} {n' : Nat} :
    SignallerI { sh := s', n := n', th := upd c.th t v, ipc := i' } := by
  obtain ⟨u, hu⟩ := h
  by_cases hut : u = t
  · subst hut
    rcases ht with ht | ht
    · simp [ht] at hu
    · exact ⟨u, by simp [upd, ht]⟩
  · exact ⟨u, by simp [upd, hut, hu]⟩

/-- the two kinds of step of a pure sender thread -/
theorem stepUser_sender {c c' : Cfg} {t : Tid} {o : Out} (hso : SenderOnly (c.th t)) (hs : stepUser c t = some (c', o)) :
    (∃ m, (c.th t).pc = .sendLock (some m) false ∧
        ((c.sh.ci.queue = [] ∧ c' = { c with sh := { c.sh with ci := c.sh.ci.push (some m) }, th := upd c.th t { pc := .sendSig false, prog := (c.th t).prog } }) ∨
         (c.sh.ci.queue ≠ [] ∧ c' = { c with sh := { c.sh with ci := c.sh.ci.push (some m) }, th := upd c.th t (nextOp (c.th t).prog) }))) ∨
    ((c.th t).pc = .sendSig false ∧ c' = { c with sh := signal c.sh .toInt, th := upd c.th t (nextOp (c.th t).prog) }) := by
  obtain ⟨_, h | ⟨m, h⟩ | h⟩ := hso
  · simp [stepUser, h] at hs
  · left
    refine ⟨m, h, ?_⟩
    simp only [stepUser, h] at hs
    split at hs
    · rename_i hl
      simp only [Option.some.injEq, Prod.mk.injEq] at hs
      left
      refine ⟨?_, hs.1.symm⟩
      simpa using hl
    · rename_i hl
      simp only [afterSend_false, Option.some.injEq, Prod.mk.injEq] at hs
      right
      refine ⟨?_, hs.1.symm⟩
      intro hq; apply hl; simp [hq]
  · right
    simp only [stepUser, h, afterSend_false, Option.some.injEq, Prod.mk.injEq] at hs
    exact ⟨h, hs.1.symm⟩

theorem inv_stepSender {c c' : Cfg} {t : Tid} {o : Out} (hi : Inv c) (ht : t ≠ 0) (htn : t < c.n)
    (hs : stepUser c t = some (c', o)) : Inv c' := by
  have hso := hi.senders t ht
  have hprog : ∀ op ∈ (c.th t).prog, op.isSend = true := hso.1
  have h0 : ∀ v, upd c.th t v 0 = c.th 0 := fun v => by simp [upd, Ne.symm ht]
  rcases stepUser_sender hso hs with ⟨m, hpc, ⟨hq, rfl⟩ | ⟨hq, rfl⟩⟩ | ⟨hpc, rfl⟩
  · -- first Message of an empty queue: now at the signal point
    refine ⟨hi.alive, ?_, ?_, ?_, ?_, ?_, ?_⟩
    · intro u hu
      by_cases hut : u = t
      · subst hut; simp only [upd_same]; exact ⟨hprog, by simp⟩
      · simp only [upd, hut, if_false]; exact hi.senders u hu
    · intro u hu
      have hu' : c.n ≤ u := hu
      have : u ≠ t := fun h => absurd htn (by rw [← h]; exact Nat.not_lt.mpr hu')
      simp only [upd, this, if_false]; exact hi.outside u hu
    · intro _ _; right; exact ⟨t, by simp [isSigPc]⟩
    · simp only [h0]; exact hi.wakeO
    · simp only [h0]; intro h; rcases hi.shut h with h | h
      · left; simp [h]
      · right; exact h
    · simp only [h0]; exact hi.nullOnly
  · -- queue was non-empty: no signal
    refine ⟨hi.alive, ?_, ?_, ?_, ?_, ?_, ?_⟩
    · intro u hu
      by_cases hut : u = t
      · subst hut; simp only [upd_same]; exact senderOnly_nextOp hprog
      · simp only [upd, hut, if_false]; exact hi.senders u hu
    · intro u hu
      have hu' : c.n ≤ u := hu
      have : u ≠ t := fun h => absurd htn (by rw [← h]; exact Nat.not_lt.mpr hu')
      simp only [upd, this, if_false]; exact hi.outside u hu
    · intro hw _
      rcases hi.wakeI hw hq with h | h
      · left; exact h
      · right; exact signallerI_keep h (Or.inl (by simp [hpc, isSigPc]))
    · simp only [h0]; exact hi.wakeO
    · simp only [h0]; intro h; rcases hi.shut h with h | h
      · left; simp [h]
      · right; exact h
    · simp only [h0]; exact hi.nullOnly
  · -- the signal
    refine ⟨by simpa using hi.alive, ?_, ?_, ?_, ?_, ?_, ?_⟩
    · intro u hu
      by_cases hut : u = t
      · subst hut; simp only [upd_same]; exact senderOnly_nextOp hprog
      · simp only [upd, hut, if_false]; exact hi.senders u hu
    · intro u hu
      have hu' : c.n ≤ u := hu
      have : u ≠ t := fun h => absurd htn (by rw [← h]; exact Nat.not_lt.mpr hu')
      simp only [upd, this, if_false]; exact hi.outside u hu
    · intro hw _
      have hw' : c.ipc = .recvWait := hw
      left
      apply signal_toInt_pos
      intro hm
      exact ((hi.alive (by simp [hw'])).2.2 hm).1
    · simp only [h0, signal_toInt_co, signal_mode, signal_closedO]; exact hi.wakeO
    · simp only [h0, signal_ci_queue]; exact hi.shut
    · simp only [h0]; exact hi.nullOnly

/-- owner steps that touch neither the queue toward the internal thread nor the flags, and do not end at a blocking point with a Message queued -/
theorem inv_owner_local {c : Cfg} (hi : Inv c) (hn : 0 < c.n) (s' : Sh) (v : UTh)
    (hci : s'.ci = c.sh.ci)
    (hflags : s'.mode = c.sh.mode ∧ s'.alloc = c.sh.alloc ∧ s'.closedO = c.sh.closedO ∧ s'.running = c.sh.running ∧ s'.gen = c.sh.gen)
    (hold : isSigPc (c.th 0).pc = false)
    (hv1 : ∀ w, v.pc = .recvWait w → s'.co.queue = [])
    (hv2 : v.pc ≠ .sendSig true ∧ v.pc ≠ .join true)
    (hv3 : ∀ it, v.pc = .sendLock it true → it = none) :
    Inv { c with sh := s', th := upd c.th 0 v } := by
  obtain ⟨hm, ha, hc, hr, hg⟩ := hflags
  refine ⟨?_, ?_, ?_, ?_, ?_, ?_, ?_⟩
  · simpa [hm, ha, hc, hr, hg] using hi.alive
  · intro u hu; simp only [upd, hu, if_false]; exact hi.senders u hu
  · intro u hu
    have hu' : c.n ≤ u := hu
    have : u ≠ 0 := by omega
    simp only [upd, this, if_false]; exact hi.outside u hu'
  · intro hw hq
    have hw' : c.ipc = .recvWait := hw
    have hq' : c.sh.ci.queue ≠ [] := by simpa [hci] using hq
    rcases hi.wakeI hw' hq' with h | h
    · left; simpa [hci] using h
    · right; exact signallerI_keep h (Or.inl hold)
  · intro w hw hq
    simp only [upd_same] at hw
    exact absurd (hv1 w hw) hq
  · intro h
    simp only [upd_same] at h
    rcases h with h | h
    · exact absurd h hv2.1
    · exact absurd h hv2.2
  · intro it h
    simp only [upd_same] at h
    exact hv3 it h

theorem nextOp_harmless (prog : List Op) :
    (∀ w, (nextOp prog).pc ≠ .recvWait w) ∧ ((nextOp prog).pc ≠ .sendSig true ∧ (nextOp prog).pc ≠ .join true) ∧
      (∀ it, (nextOp prog).pc = .sendLock it true → it = none) := by
  rcases nextOp_pc prog with h | ⟨m, h⟩ | h <;> simp [h]

theorem owner_others {c : Cfg} (hi : Inv c) (hn : 0 < c.n) (v : UTh) :
    (∀ u, u ≠ 0 → SenderOnly (upd c.th 0 v u)) ∧ (∀ u, c.n ≤ u → (upd c.th 0 v u).pc = .done) := by
  constructor
  · intro u hu; simp only [upd, hu, if_false]; exact hi.senders u hu
  · intro u hu
    have : u ≠ 0 := by omega
    simp only [upd, this, if_false]; exact hi.outside u hu

/-- `StartInternalThread()` on a thread that is not running -/
theorem inv_owner_start {c : Cfg} (hi : Inv c) (hn : 0 < c.n) (s' : Sh) (v : UTh)
    (halive : s'.running = true ∧ s'.gen > 0 ∧ (s'.mode = .sock → s'.alloc = true ∧ s'.closedO = false))
    (hv : v.pc = .startSig ∨ ∃ prog, v = nextOp prog) :
    Inv { c with sh := s', th := upd c.th 0 v, ipc := .start } := by
  have hvp : (∀ w, v.pc ≠ .recvWait w) ∧ (v.pc ≠ .sendSig true ∧ v.pc ≠ .join true) ∧ (∀ it, v.pc = .sendLock it true → it = none) := by
    rcases hv with h | ⟨prog, rfl⟩
    · simp [h]
    · exact nextOp_harmless prog
  refine ⟨fun _ => halive, (owner_others hi hn v).1, (owner_others hi hn v).2, by simp, ?_, ?_, ?_⟩
  · intro w hw; simp only [upd_same] at hw; exact absurd hw (hvp.1 w)
  · intro h; simp only [upd_same] at h; rcases h with h | h
    · exact absurd h hvp.2.1.1
    · exact absurd h hvp.2.1.2
  · intro it h; simp only [upd_same] at h; exact hvp.2.2 it h

/-- the critical section of the owner's `SendMessageAux(INTERNAL)` -/
theorem inv_owner_push {c : Cfg} (hi : Inv c) (hn : 0 < c.n) {it : Item} {tj : Bool} (hpc : (c.th 0).pc = .sendLock it tj) (v : UTh)
    (hv : (c.sh.ci.queue = [] ∧ v.pc = .sendSig tj) ∨
          (c.sh.ci.queue ≠ [] ∧ ((tj = true ∧ v.pc = .join true) ∨ (tj = false ∧ ∃ prog, v = nextOp prog)))) :
    Inv { c with sh := { c.sh with ci := c.sh.ci.push it }, th := upd c.th 0 v } := by
  have hnull : tj = true → it = none := fun h => hi.nullOnly it (by rw [hpc, h])
  refine ⟨hi.alive, (owner_others hi hn v).1, (owner_others hi hn v).2, ?_, ?_, ?_, ?_⟩
  · intro hw _
    have hw' : c.ipc = .recvWait := hw
    rcases hv with ⟨_, hv⟩ | ⟨hq, _⟩
    · right; exact ⟨0, by simp [hv, isSigPc]⟩
    · rcases hi.wakeI hw' hq with h | h
      · left; exact h
      · right; exact signallerI_keep h (Or.inl (by simp [hpc, isSigPc]))
  · intro w hw; simp only [upd_same] at hw
    rcases hv with ⟨_, hv⟩ | ⟨_, ⟨_, hv⟩ | ⟨_, prog, rfl⟩⟩
    · simp [hv] at hw
    · simp [hv] at hw
    · exact absurd hw ((nextOp_harmless prog).1 w)
  · intro h; simp only [upd_same] at h
    left
    have htj : tj = true := by
      rcases hv with ⟨_, hv⟩ | ⟨_, ⟨ht, _⟩ | ⟨_, prog, rfl⟩⟩
      · rcases h with h | h <;> simp_all
      · exact ht
      · rcases h with h | h
        · exact absurd h (nextOp_harmless prog).2.1.1
        · exact absurd h (nextOp_harmless prog).2.1.2
    simp [hnull htj]
  · intro it' h; simp only [upd_same] at h
    rcases hv with ⟨_, hv⟩ | ⟨_, ⟨_, hv⟩ | ⟨_, prog, rfl⟩⟩
    · simp [hv] at h
    · simp [hv] at h
    · exact (nextOp_harmless prog).2.2 it' h

/-- the owner's `SignalInternalThread()` after a send or after the spawn -/
theorem inv_owner_signal {c : Cfg} (hi : Inv c) (hn : 0 < c.n) (v : UTh)
    (hv : ((c.th 0).pc = .sendSig true ∧ v.pc = .join true) ∨ ∃ prog, v = nextOp prog) :
    Inv { c with sh := signal c.sh .toInt, th := upd c.th 0 v } := by
  refine ⟨by simpa using hi.alive, (owner_others hi hn v).1, (owner_others hi hn v).2, ?_, ?_, ?_, ?_⟩
  · intro hw _
    have hw' : c.ipc = .recvWait := hw
    left
    apply signal_toInt_pos
    intro hm
    exact ((hi.alive (by simp [hw'])).2.2 hm).1
  · intro w hw; simp only [upd_same] at hw
    rcases hv with ⟨_, hv⟩ | ⟨prog, rfl⟩
    · simp [hv] at hw
    · exact absurd hw ((nextOp_harmless prog).1 w)
  · intro h; simp only [upd_same] at h
    rcases hv with ⟨hpc, _⟩ | ⟨prog, rfl⟩
    · simpa using hi.shut (Or.inl hpc)
    · rcases h with h | h
      · exact absurd h (nextOp_harmless prog).2.1.1
      · exact absurd h (nextOp_harmless prog).2.1.2
  · intro it' h; simp only [upd_same] at h
    rcases hv with ⟨_, hv⟩ | ⟨prog, rfl⟩
    · simp [hv] at h
    · exact (nextOp_harmless prog).2.2 it' h

/-- `WaitForInternalThreadToExit()` returning after the internal thread has exited -/
theorem inv_owner_joined {c : Cfg} (hi : Inv c) (hn : 0 < c.n) (hex : c.ipc = .exited) (s' : Sh) (prog : List Op) :
    Inv { c with sh := s', th := upd c.th 0 (nextOp prog) } := by
  refine ⟨by simp [hex], (owner_others hi hn _).1, (owner_others hi hn _).2, by simp [hex], ?_, ?_, ?_⟩
  · intro w hw; simp only [upd_same] at hw; exact absurd hw ((nextOp_harmless prog).1 w)
  · intro _; right; exact hex
  · intro it' h; simp only [upd_same] at h; exact (nextOp_harmless prog).2.2 it' h

theorem inv_stepOwner {c c' : Cfg} {o : Out} (hi : Inv c) (hn : 0 < c.n) (hs : stepUser c 0 = some (c', o)) : Inv c' := by
  have hnx := nextOp_harmless
  unfold stepUser at hs
  simp only at hs
  split at hs
  · simp at hs
  · -- idle
    rename_i hpc
    have hold : isSigPc (c.th 0).pc = false := by simp [hpc, isSigPc]
    split at hs
    all_goals (try (simp only [Option.some.injEq, Prod.mk.injEq] at hs; obtain ⟨rfl, _⟩ := hs))
    · exact inv_owner_local hi hn _ _ rfl ⟨rfl, rfl, rfl, rfl, rfl⟩ hold (by simp) (by simp) (by simp)
    · exact inv_owner_local hi hn _ _ rfl ⟨rfl, rfl, rfl, rfl, rfl⟩ hold (by simp) (by simp) (by simp)
    · -- start
      split at hs
      · simp only [Option.some.injEq, Prod.mk.injEq] at hs; obtain ⟨rfl, _⟩ := hs
        exact inv_owner_local hi hn _ _ rfl ⟨rfl, rfl, rfl, rfl, rfl⟩ hold (fun w h => absurd h ((hnx _).1 w)) (hnx _).2.1 (hnx _).2.2
      · split at hs <;> (simp only [Option.some.injEq, Prod.mk.injEq] at hs; obtain ⟨rfl, _⟩ := hs)
        · exact inv_owner_start hi hn _ _ (by cases hm : c.sh.mode <;> simp [hm]) (Or.inl rfl)
        · exact inv_owner_start hi hn _ _ (by cases hm : c.sh.mode <;> simp [hm]) (Or.inr ⟨_, rfl⟩)
    · exact inv_owner_local hi hn _ _ (by simp) (by simp) hold (by simp) (by simp) (by simp)
    · exact inv_owner_local hi hn _ _ (by simp) (by simp) hold (by simp) (by simp) (by simp)
    · exact inv_owner_local hi hn _ _ (by simp) (by simp) hold (by simp) (by simp) (by simp)
    · split at hs <;> (simp only [Option.some.injEq, Prod.mk.injEq] at hs; obtain ⟨rfl, _⟩ := hs)
      · exact inv_owner_local hi hn _ _ rfl ⟨rfl, rfl, rfl, rfl, rfl⟩ hold (by simp) (by simp) (by simp)
      · exact inv_owner_local hi hn _ _ rfl ⟨rfl, rfl, rfl, rfl, rfl⟩ hold (fun w h => absurd h ((hnx _).1 w)) (hnx _).2.1 (hnx _).2.2
    · exact inv_owner_local hi hn _ _ rfl ⟨rfl, rfl, rfl, rfl, rfl⟩ hold (by simp) (by simp) (by simp)
  · -- sendLock
    rename_i it tj hpc
    split at hs
    · rename_i hl
      simp only [Option.some.injEq, Prod.mk.injEq] at hs; obtain ⟨rfl, _⟩ := hs
      exact inv_owner_push hi hn hpc _ (Or.inl ⟨by simpa using hl, rfl⟩)
    · rename_i hl
      simp only [Option.some.injEq, Prod.mk.injEq] at hs; obtain ⟨rfl, _⟩ := hs
      have hq : c.sh.ci.queue ≠ [] := by intro hq; apply hl; simp [hq]
      cases tj with
      | true => exact inv_owner_push hi hn hpc _ (Or.inr ⟨hq, Or.inl ⟨rfl, by simp [afterSend_true]⟩⟩)
      | false => exact inv_owner_push hi hn hpc _ (Or.inr ⟨hq, Or.inr ⟨rfl, (c.th 0).prog, by simp [afterSend_false]⟩⟩)
  · -- sendSig
    rename_i tj hpc
    simp only [Option.some.injEq, Prod.mk.injEq] at hs; obtain ⟨rfl, _⟩ := hs
    cases tj with
    | true => exact inv_owner_signal hi hn _ (Or.inl ⟨hpc, by simp [afterSend_true]⟩)
    | false => exact inv_owner_signal hi hn _ (Or.inr ⟨(c.th 0).prog, by simp [afterSend_false]⟩)
  · -- startSig
    simp only [Option.some.injEq, Prod.mk.injEq] at hs; obtain ⟨rfl, _⟩ := hs
    exact inv_owner_signal hi hn _ (Or.inr ⟨_, rfl⟩)
  · -- recvLock
    rename_i w hpc
    have hold : isSigPc (c.th 0).pc = false := by simp [hpc, isSigPc]
    split at hs
    · simp at hs
    · split at hs
      · simp only [Option.some.injEq, Prod.mk.injEq] at hs; obtain ⟨rfl, _⟩ := hs
        exact inv_owner_local hi hn _ _ rfl ⟨rfl, rfl, rfl, rfl, rfl⟩ hold (fun w h => absurd h ((hnx _).1 w)) (hnx _).2.1 (hnx _).2.2
      · rename_i hq
        split at hs
        · simp only [Option.some.injEq, Prod.mk.injEq] at hs; obtain ⟨rfl, _⟩ := hs
          exact inv_owner_local hi hn _ _ rfl ⟨rfl, rfl, rfl, rfl, rfl⟩ hold (fun w h => absurd h ((hnx _).1 w)) (hnx _).2.1 (hnx _).2.2
        · split at hs <;> (simp only [Option.some.injEq, Prod.mk.injEq] at hs; obtain ⟨rfl, _⟩ := hs)
          · exact inv_owner_local hi hn _ _ rfl ⟨rfl, rfl, rfl, rfl, rfl⟩ hold (fun w h => absurd h ((hnx _).1 w)) (hnx _).2.1 (hnx _).2.2
          · exact inv_owner_local hi hn _ _ rfl ⟨rfl, rfl, rfl, rfl, rfl⟩ hold (fun _ _ => hq) (by simp) (by simp)
  · -- recvWait
    rename_i w hpc
    have hold : isSigPc (c.th 0).pc = false := by simp [hpc, isSigPc]
    split at hs
    · split at hs
      · simp only [Option.some.injEq, Prod.mk.injEq] at hs; obtain ⟨rfl, _⟩ := hs
        exact inv_owner_local hi hn _ _ (by simp) (by simp) hold (by simp) (by simp) (by simp)
      · simp at hs
    · split at hs
      · simp only [Option.some.injEq, Prod.mk.injEq] at hs; obtain ⟨rfl, _⟩ := hs
        exact inv_owner_local hi hn _ _ (by simp) (by simp) hold (by simp) (by simp) (by simp)
      · simp at hs
  · -- join
    rename_i b hpc
    have hold : isSigPc (c.th 0).pc = false := by simp [hpc, isSigPc]
    split at hs
    · simp only [Option.some.injEq, Prod.mk.injEq] at hs; obtain ⟨rfl, _⟩ := hs
      exact inv_owner_local hi hn _ _ rfl ⟨rfl, rfl, rfl, rfl, rfl⟩ hold (fun w h => absurd h ((hnx _).1 w)) (hnx _).2.1 (hnx _).2.2
    · split at hs
      · rename_i hex
        simp only [Option.some.injEq, Prod.mk.injEq] at hs; obtain ⟨rfl, _⟩ := hs
        exact inv_owner_joined hi hn hex _ _
      · simp at hs

theorem inv_timeoutUser {c c' : Cfg} {t : Tid} {o : Out} (hi : Inv c) (htn : t < c.n) (hs : timeoutUser c t = some (c', o)) : Inv c' := by
  unfold timeoutUser at hs
  simp only at hs
  split at hs
  · rename_i hpc
    have hc' : c' = { c with th := upd c.th t (nextOp (c.th t).prog) } := by
      cases hm : c.sh.mode <;> simp [hm] at hs <;> exact hs.2.1.symm
    subst hc'
    by_cases ht : t = 0
    · subst ht
      have hnx := nextOp_harmless
      exact inv_owner_local hi htn _ _ rfl ⟨rfl, rfl, rfl, rfl, rfl⟩ (by simp [hpc, isSigPc]) (fun w h => absurd h ((hnx _).1 w)) (hnx _).2.1 (hnx _).2.2
    · have := (hi.senders t ht).2
      simp [hpc] at this
  · simp at hs

/-- the generic shape of a step of the internal thread -/
theorem inv_int {c : Cfg} (hi : Inv c) (s' : Sh) (i' : IPc)
    (hflags : i' ≠ .exited → s'.mode = c.sh.mode ∧ s'.alloc = c.sh.alloc ∧ s'.closedO = c.sh.closedO ∧ s'.running = c.sh.running ∧ s'.gen = c.sh.gen)
    (hlive : c.ipc ≠ .exited)
    (hwI : i' = .recvWait → s'.ci.queue = [])
    (hwO : ∀ w, (c.th 0).pc = .recvWait w → s'.co.queue ≠ [] →
        s'.co.sig > 0 ∨ (s'.mode = .sock ∧ s'.closedO = true) ∨ SignallerO { c with sh := s', ipc := i' })
    (hsh : none ∈ c.sh.ci.queue → none ∈ s'.ci.queue ∨ i' = .exited) :
    Inv { c with sh := s', ipc := i' } := by
  refine ⟨?_, hi.senders, hi.outside, ?_, hwO, ?_, hi.nullOnly⟩
  · intro h
    obtain ⟨hm, ha, hc, hr, hg⟩ := hflags h
    simpa [hm, ha, hc, hr, hg] using hi.alive hlive
  · intro h hq; exact absurd (hwI h) hq
  · intro h
    rcases hi.shut h with h | h
    · exact hsh h
    · exact absurd h hlive

/-- the owner's wake-up condition survives an internal step that leaves the reply queue alone and takes no signal away -/
theorem wakeO_keep {c : Cfg} (hi : Inv c) (s' : Sh) (i' : IPc)
    (hq : s'.co.queue = c.sh.co.queue) (hsig : c.sh.co.sig ≤ s'.co.sig) (hm : s'.mode = c.sh.mode)
    (hcl : c.sh.closedO = true → s'.closedO = true)
    (hso : SignallerO c → s'.co.sig > 0 ∨ SignallerO { c with sh := s', ipc := i' }) :
    ∀ w, (c.th 0).pc = .recvWait w → s'.co.queue ≠ [] →
        s'.co.sig > 0 ∨ (s'.mode = .sock ∧ s'.closedO = true) ∨ SignallerO { c with sh := s', ipc := i' } := by
  intro w hw hne
  rw [hq] at hne
  rcases hi.wakeO w hw hne with h | ⟨h1, h2⟩ | h
  · left; omega
  · right; left; exact ⟨by rw [hm]; exact h1, hcl h2⟩
  · rcases hso h with h | h
    · left; exact h
    · right; right; exact h

theorem sigO_alive {c : Cfg} (hi : Inv c) (hlive : c.ipc ≠ .exited) : c.sh.mode = .sock → c.sh.alloc = true ∧ c.sh.closedO = false :=
  (hi.alive hlive).2.2

theorem inv_stepInt {c c' : Cfg} {o : Out} (hi : Inv c) (hs : stepInt c = some (c', o)) : Inv c' := by
  unfold stepInt at hs
  simp only at hs
  split at hs
  · simp at hs
  · -- start
    rename_i hpc
    have hlive : c.ipc ≠ .exited := by simp [hpc]
    simp only [Option.some.injEq, Prod.mk.injEq] at hs; obtain ⟨rfl, _⟩ := hs
    exact inv_int hi _ _ (fun _ => ⟨rfl, rfl, rfl, rfl, rfl⟩) hlive (by simp)
      (wakeO_keep hi _ _ rfl (Nat.le_refl _) rfl id (by intro h; rcases h with h | ⟨_, _, _, h⟩ <;> simp [hpc] at h)) Or.inl
  · -- entryLock
    rename_i hpc
    have hlive : c.ipc ≠ .exited := by simp [hpc]
    split at hs <;> (simp only [Option.some.injEq, Prod.mk.injEq] at hs; obtain ⟨rfl, _⟩ := hs)
    · exact inv_int hi _ _ (fun _ => ⟨rfl, rfl, rfl, rfl, rfl⟩) hlive (by simp)
        (fun _ _ _ => Or.inr (Or.inr (Or.inl rfl))) Or.inl
    · exact inv_int hi _ _ (fun _ => by simp) hlive (by simp)
        (wakeO_keep hi _ _ (by simp) (by simp) (by simp) (by simp) (by intro h; rcases h with h | ⟨_, _, _, h⟩ <;> simp [hpc] at h)) (by simp)
  · -- entrySig
    rename_i hpc
    have hlive : c.ipc ≠ .exited := by simp [hpc]
    simp only [Option.some.injEq, Prod.mk.injEq] at hs; obtain ⟨rfl, _⟩ := hs
    exact inv_int hi _ _ (fun _ => by simp) hlive (by simp)
      (wakeO_keep hi _ _ (by simp) (by simpa using signal_toOwn_sig_ge c.sh) (by simp) (by simp)
        (fun _ => Or.inl (by simpa using signal_toOwn_pos c.sh (sigO_alive hi hlive)))) (by simp)
  · -- recvLock
    rename_i poll hpc
    have hlive : c.ipc ≠ .exited := by simp [hpc]
    have hnso : ¬ SignallerO c := by intro h; rcases h with h | ⟨_, _, _, h⟩ <;> simp [hpc] at h
    split at hs
    · rename_i hq
      split at hs <;> (simp only [Option.some.injEq, Prod.mk.injEq] at hs; obtain ⟨rfl, _⟩ := hs)
      · exact inv_int hi _ _ (fun _ => by simp) hlive (by simp)
          (wakeO_keep hi _ _ (by simp) (by simp) (by simp) (by simp) (fun h => absurd h hnso)) (by simp)
      · exact inv_int hi _ _ (fun _ => ⟨rfl, rfl, rfl, rfl, rfl⟩) hlive (fun _ => hq)
          (wakeO_keep hi _ _ rfl (Nat.le_refl _) rfl id (fun h => absurd h hnso)) Or.inl
    · -- NULL: exit
      simp only [Option.some.injEq, Prod.mk.injEq] at hs; obtain ⟨rfl, _⟩ := hs
      exact inv_int hi _ _ (fun h => absurd rfl h) hlive (by simp)
        (wakeO_keep hi _ _ rfl (Nat.le_refl _) rfl (by intro h; simp [h]) (fun h => absurd h hnso)) (fun _ => Or.inr rfl)
    · rename_i m rest hq
      have hsh : none ∈ c.sh.ci.queue → none ∈ rest := by rw [hq]; simp
      split at hs <;> (simp only [Option.some.injEq, Prod.mk.injEq] at hs; obtain ⟨rfl, _⟩ := hs)
      · exact inv_int hi _ _ (fun _ => by simp) hlive (by simp)
          (wakeO_keep hi _ _ (by simp) (by simp) (by simp) (by simp) (fun h => absurd h hnso)) (fun h => Or.inl (by simpa using hsh h))
      · exact inv_int hi _ _ (fun _ => ⟨rfl, rfl, rfl, rfl, rfl⟩) hlive (by simp)
          (wakeO_keep hi _ _ rfl (Nat.le_refl _) rfl id (fun h => absurd h hnso)) (fun h => Or.inl (by simpa using hsh h))
  · -- recvWait
    rename_i hpc
    have hlive : c.ipc ≠ .exited := by simp [hpc]
    have hnso : ¬ SignallerO c := by intro h; rcases h with h | ⟨_, _, _, h⟩ <;> simp [hpc] at h
    split at hs
    · split at hs <;> (simp only [Option.some.injEq, Prod.mk.injEq] at hs; obtain ⟨rfl, _⟩ := hs)
      · exact inv_int hi _ _ (fun _ => by simp) hlive (by simp)
          (wakeO_keep hi _ _ (by simp) (by simp) (by simp) (by simp) (fun h => absurd h hnso)) (by simp)
      · exact inv_int hi _ _ (fun _ => by simp) hlive (by simp)
          (wakeO_keep hi _ _ (by simp) (by simp) (by simp) (by simp) (fun h => absurd h hnso)) (by simp)
    · simp at hs
  · -- replyLock
    rename_i id j k hpc
    have hlive : c.ipc ≠ .exited := by simp [hpc]
    have hnso : ¬ SignallerO c := by intro h; rcases h with h | ⟨_, _, _, h⟩ <;> simp [hpc] at h
    have hpush : ∀ (i' : IPc), ¬ (c.sh.co.push (some (replyMsg id j))).queue.length = 1 →
        ∀ w, (c.th 0).pc = .recvWait w → (c.sh.co.push (some (replyMsg id j))).queue ≠ [] →
        (c.sh.co.push (some (replyMsg id j))).sig > 0 ∨ (c.sh.mode = .sock ∧ c.sh.closedO = true) ∨
          SignallerO { c with sh := { c.sh with co := c.sh.co.push (some (replyMsg id j)) }, ipc := i' } := by
      intro i' hl w hw _
      have hq : c.sh.co.queue ≠ [] := by intro hq; apply hl; simp [hq]
      rcases hi.wakeO w hw hq with h | h | h
      · left; simpa using h
      · right; left; exact h
      · exact absurd h hnso
    split at hs
    · simp only [Option.some.injEq, Prod.mk.injEq] at hs; obtain ⟨rfl, _⟩ := hs
      exact inv_int hi _ _ (fun _ => ⟨rfl, rfl, rfl, rfl, rfl⟩) hlive (by simp)
        (fun _ _ _ => Or.inr (Or.inr (Or.inr ⟨_, _, _, rfl⟩))) Or.inl
    · rename_i hl
      split at hs <;> (simp only [Option.some.injEq, Prod.mk.injEq] at hs; obtain ⟨rfl, _⟩ := hs)
      · exact inv_int hi _ _ (fun _ => ⟨rfl, rfl, rfl, rfl, rfl⟩) hlive (by simp) (hpush _ hl) Or.inl
      · refine inv_int hi _ _ (fun _ => by simp) hlive (by simp) ?_ (by simp)
        intro w hw hne
        have := hpush (.recvLock false) hl w hw (by simp)
        simpa [SignallerO] using this
  · -- replySig
    rename_i id j k hpc
    have hlive : c.ipc ≠ .exited := by simp [hpc]
    have hpos : (signal c.sh .toOwn).co.sig > 0 := signal_toOwn_pos c.sh (sigO_alive hi hlive)
    split at hs <;> (simp only [Option.some.injEq, Prod.mk.injEq] at hs; obtain ⟨rfl, _⟩ := hs)
    · exact inv_int hi _ _ (fun _ => by simp) hlive (by simp) (fun _ _ _ => Or.inl hpos) (by simp)
    · exact inv_int hi _ _ (fun _ => by simp) hlive (by simp) (fun _ _ _ => Or.inl (by simpa using hpos)) (by simp)


theorem step_n {c c' : Cfg} {e : Ev} {o : Out} (hs : step c e = some (c', o)) : c'.n = c.n := by
  unfold step at hs
  cases e with
  | run t =>
    simp only at hs
    split at hs
    · unfold stepUser at hs
      simp only at hs
      repeat' split at hs
      all_goals first
        | (simp at hs; done)
        | (simp only [Option.some.injEq, Prod.mk.injEq] at hs; obtain ⟨rfl, _⟩ := hs; rfl)
    · split at hs
      · unfold stepInt at hs
        simp only at hs
        repeat' split at hs
        all_goals first
          | (simp at hs; done)
          | (simp only [Option.some.injEq, Prod.mk.injEq] at hs; obtain ⟨rfl, _⟩ := hs; rfl)
      · simp at hs
  | timeout t =>
    simp only at hs
    split at hs
    · unfold timeoutUser at hs
      simp only at hs
      repeat' split at hs
      all_goals first
        | (simp at hs; done)
        | (simp only [Option.some.injEq, Prod.mk.injEq] at hs; obtain ⟨rfl, _⟩ := hs; rfl)
    · simp at hs

theorem inv_step {c c' : Cfg} {e : Ev} {o : Out} (hi : Inv c) (hs : step c e = some (c', o)) : Inv c' := by
  unfold step at hs
  cases e with
  | run t =>
    simp only at hs
    split at hs
    · rename_i htn
      by_cases ht : t = 0
      · subst ht; exact inv_stepOwner hi htn hs
      · exact inv_stepSender hi ht htn hs
    · split at hs
      · exact inv_stepInt hi hs
      · simp at hs
  | timeout t =>
    simp only at hs
    split at hs
    · rename_i htn; exact inv_timeoutUser hi htn hs
    · simp at hs

theorem reach_inv {mode : Mode} {progs : List (List Op)} (hw : OwnerOnly progs) {c : Cfg}
    (h : machine.Reach (Cfg.init mode progs) c) : Inv c :=
  Machine.Reach.invariant machine Inv (inv_init mode hw) (fun _ _ _ _ hp hs => inv_step hp hs) h

end Muscle.Conc.TQ
