import MuscleModel.Conc.RWMutex

/-! Safety invariant of the `ReaderWriterMutex` model (`MxInv`) and its preservation by every critical section.
`MxInv` mentions only `exec`, `ro`, `rw`, `total`; notifications and the waiting lists are a frame. -/

namespace Muscle.Conc.RW
open Muscle.Conc

/-- the executing-threads table is consistent, a writer is alone, and the total is that writer's count -/
structure MxInv (s : Mx) : Prop where
  nodup : s.exec.Nodup
  mem   : ∀ t, t ∈ s.exec ↔ s.ro t + s.rw t > 0
  excl  : ∀ t, s.rw t > 0 → s.exec = [t]
  tot1  : ∀ t, s.rw t > 0 → s.total = s.rw t
  tot0  : s.total > 0 → ∃ t, s.rw t > 0

theorem MxInv.init (p : Bool) : MxInv (Mx.init p) := by
  refine ⟨by simp [Mx.init], ?_, ?_, ?_, ?_⟩ <;> simp [Mx.init]

/-- frame rule: `MxInv` only reads `exec`, `ro`, `rw`, `total` -/
theorem MxInv.frame {s s' : Mx} (h : MxInv s) (he : s'.exec = s.exec) (hro : s'.ro = s.ro) (hrw : s'.rw = s.rw)
    (ht : s'.total = s.total) : MxInv s' := by
  refine ⟨?_, ?_, ?_, ?_, ?_⟩
  · rw [he]; exact h.nodup
  · rw [he, hro, hrw]; exact h.mem
  · rw [he, hrw]; exact h.excl
  · rw [ht, hrw]; exact h.tot1
  · rw [ht, hrw]; exact h.tot0

theorem MxInv.noWriter {s : Mx} (h : MxInv s) (h0 : s.total = 0) (t : Tid) : s.rw t = 0 := by
  cases hr : s.rw t with
  | zero => rfl
  | succ k => have := h.tot1 t (by omega); omega

theorem MxInv.total_zero_of_empty {s : Mx} (h : MxInv s) (he : s.exec = []) : s.total = 0 := by
  cases ht : s.total with
  | zero => rfl
  | succ k =>
    obtain ⟨t, hw⟩ := h.tot0 (by omega)
    have := (h.mem t).2 (by omega)
    rw [he] at this; simp at this

theorem MxInv.absent {s : Mx} (h : MxInv s) {t : Tid} (ht : t ∉ s.exec) : s.ro t = 0 ∧ s.rw t = 0 := by
  have := (h.mem t)
  constructor <;> (apply Nat.eq_zero_of_not_pos; intro hp; exact ht (this.2 (by omega)))

@[simp] theorem notifyAllReaders_core (s : Mx) : (notifyAllReaders s).exec = s.exec ∧ (notifyAllReaders s).ro = s.ro ∧
    (notifyAllReaders s).rw = s.rw ∧ (notifyAllReaders s).total = s.total ∧ (notifyAllReaders s).waitR = s.waitR ∧
    (notifyAllReaders s).waitW = s.waitW ∧ (notifyAllReaders s).prefW = s.prefW ∧ (notifyAllReaders s).pool = s.pool := by
  simp [notifyAllReaders]

@[simp] theorem notifyNextWriter_core (s : Mx) : (notifyNextWriter s).exec = s.exec ∧ (notifyNextWriter s).ro = s.ro ∧
    (notifyNextWriter s).rw = s.rw ∧ (notifyNextWriter s).total = s.total ∧ (notifyNextWriter s).waitR = s.waitR ∧
    (notifyNextWriter s).waitW = s.waitW ∧ (notifyNextWriter s).prefW = s.prefW ∧ (notifyNextWriter s).pool = s.pool := by
  unfold notifyNextWriter; split <;> simp

@[simp] theorem notifySome_core (s : Mx) : (notifySome s).exec = s.exec ∧ (notifySome s).ro = s.ro ∧
    (notifySome s).rw = s.rw ∧ (notifySome s).total = s.total ∧ (notifySome s).waitR = s.waitR ∧
    (notifySome s).waitW = s.waitW ∧ (notifySome s).prefW = s.prefW ∧ (notifySome s).pool = s.pool := by
  unfold notifySome; split
  · split <;> simp
  · split
    · simp
    · split <;> simp

@[simp] theorem maybeNotify_core (s : Mx) : (maybeNotify s).exec = s.exec ∧ (maybeNotify s).ro = s.ro ∧
    (maybeNotify s).rw = s.rw ∧ (maybeNotify s).total = s.total ∧ (maybeNotify s).waitR = s.waitR ∧
    (maybeNotify s).waitW = s.waitW ∧ (maybeNotify s).prefW = s.prefW ∧ (maybeNotify s).pool = s.pool := by
  unfold maybeNotify; split <;> simp

theorem MxInv.maybeNotify {s : Mx} (h : MxInv s) : MxInv (maybeNotify s) :=
  h.frame (maybeNotify_core s).1 (maybeNotify_core s).2.1 (maybeNotify_core s).2.2.1 (maybeNotify_core s).2.2.2.1
theorem MxInv.notifySome {s : Mx} (h : MxInv s) : MxInv (notifySome s) :=
  h.frame (notifySome_core s).1 (notifySome_core s).2.1 (notifySome_core s).2.2.1 (notifySome_core s).2.2.2.1
theorem MxInv.notifyAllReaders {s : Mx} (h : MxInv s) : MxInv (notifyAllReaders s) :=
  h.frame (notifyAllReaders_core s).1 (notifyAllReaders_core s).2.1 (notifyAllReaders_core s).2.2.1 (notifyAllReaders_core s).2.2.2.1
theorem MxInv.releaseWC {s : Mx} (h : MxInv s) (t : Tid) : MxInv (releaseWC s t) := h.frame rfl rfl rfl rfl
theorem MxInv.obtainWC {s : Mx} (h : MxInv s) (t : Tid) : MxInv (obtainWC s t) := h.frame rfl rfl rfl rfl
theorem MxInv.flushWC {s : Mx} (h : MxInv s) (t : Tid) : MxInv (flushWC s t) := h.frame rfl rfl rfl rfl

theorem addKey_of_mem {l : List Tid} {t : Tid} (h : t ∈ l) : addKey l t = l := by simp [addKey, h]
theorem addKey_of_not_mem {l : List Tid} {t : Tid} (h : t ∉ l) : addKey l t = l ++ [t] := by simp [addKey, h]

/-- one more read lock for a thread that is (or becomes, with nobody writing) an executing thread -/
theorem MxInv.addRead {s : Mx} (h : MxInv s) (t : Tid) (v : Nat) (hv : v > 0) (hw : t ∉ s.exec → s.total = 0) :
    MxInv { s with exec := addKey s.exec t, ro := upd s.ro t v } := by
  have hex : ∀ u, u ∈ addKey s.exec t ↔ (u ∈ s.exec ∨ u = t) := by
    intro u; unfold addKey; split <;> simp_all
  refine ⟨?_, ?_, ?_, ?_, ?_⟩
  · show (addKey s.exec t).Nodup
    unfold addKey; split
    · exact h.nodup
    · rename_i hn
      exact List.nodup_append.2 ⟨h.nodup, by simp, by intro a ha b hb; simp at hb; subst hb; intro e; subst e; exact hn ha⟩
  · intro u
    show u ∈ addKey s.exec t ↔ upd s.ro t v u + s.rw u > 0
    rw [hex u, upd_apply]
    by_cases hu : u = t
    · subst hu; simp; omega
    · simp [hu]; exact h.mem u
  · intro u hu
    show addKey s.exec t = [u]
    have hu' : s.rw u > 0 := hu
    have he := h.excl u hu'
    have ht : t ∈ s.exec := by
      apply Classical.byContradiction; intro hn
      have := h.tot1 u hu'; have := hw hn; omega
    rw [addKey_of_mem ht]; exact he
  · exact h.tot1
  · exact h.tot0


theorem okReaders_iff (s : Mx) : okReaders s = true ↔ s.total = 0 ∧ (s.prefW = false ∨ s.waitW = []) := by simp [okReaders]
theorem okWriter_iff (s : Mx) (t : Tid) : okWriter s t = true ↔ s.exec = [] ∧ (s.waitW = [] ∨ s.waitW.head? = some t) := by simp [okWriter]

theorem MxInv.lockRStart {s : Mx} (h : MxInv s) (t : Tid) (m : Mode) : MxInv (lockRStart s t m).1 := by
  unfold RW.lockRStart
  split
  · rename_i ht
    have := h.addRead t (s.ro t + 1) (by omega) (fun hn => absurd ht hn)
    rw [addKey_of_mem ht] at this; exact this
  · split
    · split
      · exact h
      · exact MxInv.obtainWC (h.frame (s' := { s with waitR := s.waitR ++ [t] }) rfl rfl rfl rfl) t
    · rename_i ht hok
      have hok' : okReaders s = true := by simpa using hok
      have := h.addRead t 1 (by omega) (fun _ => ((okReaders_iff s).1 hok').1)
      rw [addKey_of_not_mem ht] at this; exact this

theorem MxInv.lockRWoke {s : Mx} (h : MxInv s) (t : Tid) (b : Bool) : MxInv (lockRWoke s t b).1 := by
  unfold RW.lockRWoke
  split
  · exact MxInv.releaseWC (MxInv.maybeNotify (h.frame (s' := { s with waitR := s.waitR.erase t }) rfl rfl rfl rfl)) t
  · split
    · rename_i hok
      have h0 := ((okReaders_iff s).1 hok).1
      have hrw : upd s.rw t 0 = s.rw := by
        funext u; rw [upd_apply]; split
        · rename_i e; subst e; exact (h.noWriter h0 u).symm
        · rfl
      have := h.addRead t 1 (by omega) (fun _ => h0)
      apply MxInv.releaseWC
      exact this.frame rfl rfl hrw rfl
    · exact h

/-- a write lock for thread `t`, which is (or becomes) the only executing thread -/
theorem MxInv.addWrite {s : Mx} (h : MxInv s) (t : Tid) (hsole : s.exec = [t] ∨ (s.exec = [] )) :
    MxInv { s with exec := addKey s.exec t, rw := upd s.rw t (s.rw t + 1), total := s.total + 1 } := by
  have hex : addKey s.exec t = [t] := by
    rcases hsole with he | he <;> simp [addKey, he]
  have hothers : ∀ u, u ≠ t → s.rw u = 0 ∧ s.ro u = 0 := by
    intro u hu
    have : u ∉ s.exec := by rcases hsole with he | he <;> simp [he, hu]
    have := h.absent this; omega
  have htot : s.total = s.rw t := by
    cases hr : s.rw t with
    | zero =>
      cases ht : s.total with
      | zero => rfl
      | succ k =>
        obtain ⟨u, hu⟩ := h.tot0 (by omega)
        by_cases hut : u = t
        · subst hut; omega
        · have := (hothers u hut).1; omega
    | succ k => have := h.tot1 t (by omega); omega
  refine ⟨?_, ?_, ?_, ?_, ?_⟩
  · show (addKey s.exec t).Nodup
    rw [hex]; simp
  · intro u
    show u ∈ addKey s.exec t ↔ s.ro u + upd s.rw t (s.rw t + 1) u > 0
    rw [hex, upd_apply]
    by_cases hu : u = t
    · subst hu; simp; omega
    · have := hothers u hu; simp [hu]; omega
  · intro u hu
    show addKey s.exec t = [u]
    rw [hex]
    by_cases hut : u = t
    · rw [hut]
    · have hu' : upd s.rw t (s.rw t + 1) u > 0 := hu
      rw [upd_other _ _ _ _ hut] at hu'
      have := (hothers u hut).1; omega
  · intro u hu
    show s.total + 1 = upd s.rw t (s.rw t + 1) u
    have hu' : upd s.rw t (s.rw t + 1) u > 0 := hu
    by_cases hut : u = t
    · subst hut; simp; exact htot
    · rw [upd_other _ _ _ _ hut] at hu'
      have := (hothers u hut).1; omega
  · intro _
    exact ⟨t, by show upd s.rw t (s.rw t + 1) t > 0; simp⟩

theorem MxInv.lockWStart {s : Mx} (h : MxInv s) (t : Tid) (m : Mode) : MxInv (lockWStart s t m).1 := by
  unfold RW.lockWStart
  split
  · rename_i ht
    split
    · rename_i hc
      have hsole : s.exec = [t] := by
        rcases hc with hw | hl
        · exact h.excl t hw
        · match hs : s.exec, hl, ht with
          | [a], _, ht' => simp at ht'; rw [ht']
      have := h.addWrite t (Or.inl hsole)
      rw [addKey_of_mem ht] at this; exact this
    · split <;> exact h
  · split
    · rename_i ht hok
      have he := ((okWriter_iff s t).1 hok).1
      have := h.addWrite t (Or.inr he)
      rw [addKey_of_not_mem ht] at this
      have hz := (h.absent ht).2
      rw [hz] at this
      exact this
    · split
      · exact h
      · exact MxInv.obtainWC (h.frame (s' := { s with waitW := s.waitW ++ [t] }) rfl rfl rfl rfl) t

theorem MxInv.lockWWoke {s : Mx} (h : MxInv s) (t : Tid) (b : Bool) : MxInv (lockWWoke s t b).1 := by
  unfold RW.lockWWoke
  split
  · exact MxInv.releaseWC (MxInv.maybeNotify (h.frame (s' := { s with waitW := s.waitW.erase t }) rfl rfl rfl rfl)) t
  · split
    · rename_i hok
      have he := ((okWriter_iff s t).1 hok).1
      have ht : t ∉ s.exec := by simp [he]
      have := h.addWrite t (Or.inr he)
      rw [addKey_of_not_mem ht] at this
      have hz := (h.absent ht).2
      rw [hz] at this
      apply MxInv.releaseWC
      exact this.frame rfl rfl rfl rfl
    · exact h

theorem mem_erase_iff_of_nodup {l : List Tid} (hn : l.Nodup) (t u : Tid) : u ∈ l.erase t ↔ (u ∈ l ∧ u ≠ t) := by
  exact List.Nodup.mem_erase_iff hn |>.trans (by constructor <;> (intro ⟨a, b⟩; exact ⟨b, a⟩))

theorem MxInv.unlockR {s : Mx} (h : MxInv s) (t : Tid) : MxInv (unlockR s t).1 := by
  unfold RW.unlockR
  split
  · exact h
  · rename_i hc
    have ht : t ∈ s.exec := by apply Classical.byContradiction; intro hn; exact hc (Or.inl hn)
    have hro : s.ro t > 0 := by apply Nat.pos_of_ne_zero; intro hn; exact hc (Or.inr hn)
    split
    · rename_i hz
      apply MxInv.maybeNotify
      refine ⟨h.nodup.erase t, ?_, ?_, h.tot1, h.tot0⟩
      · intro u
        show u ∈ s.exec.erase t ↔ upd s.ro t (s.ro t - 1) u + s.rw u > 0
        rw [mem_erase_iff_of_nodup h.nodup, upd_apply]
        by_cases hu : u = t
        · subst hu; simp; omega
        · simp [hu]; exact h.mem u
      · intro u hu
        have hu' : s.rw u > 0 := hu
        have he := h.excl u hu'
        rw [he] at ht; simp at ht; subst ht; omega
    · rename_i hz
      refine ⟨h.nodup, ?_, h.excl, h.tot1, h.tot0⟩
      intro u
      show u ∈ s.exec ↔ upd s.ro t (s.ro t - 1) u + s.rw u > 0
      rw [upd_apply]
      by_cases hu : u = t
      · subst hu; simp [ht]; omega
      · simp [hu]; exact h.mem u

theorem MxInv.dropWrite {s : Mx} (h : MxInv s) (t : Tid) (ht : t ∈ s.exec) (hrw : s.rw t > 0) :
    MxInv (dropWrite s t) := by
  unfold RW.dropWrite
  have hsole := h.excl t hrw
  have htot := h.tot1 t hrw
  have hothers : ∀ u, u ≠ t → s.rw u = 0 ∧ s.ro u = 0 := by
    intro u hu
    have : u ∉ s.exec := by simp [hsole, hu]
    have := h.absent this; omega
  refine ⟨?_, ?_, ?_, ?_, ?_⟩
  · show (if s.rw t - 1 = 0 ∧ s.ro t = 0 then s.exec.erase t else s.exec).Nodup
    split
    · exact h.nodup.erase t
    · exact h.nodup
  · intro u
    show u ∈ (if s.rw t - 1 = 0 ∧ s.ro t = 0 then s.exec.erase t else s.exec) ↔ s.ro u + upd s.rw t (s.rw t - 1) u > 0
    rw [upd_apply]
    by_cases hu : u = t
    · subst hu
      split
      · rename_i hz; simp [mem_erase_iff_of_nodup h.nodup]; omega
      · rename_i hz; simp [ht]; omega
    · have ho := hothers u hu
      have hne : u ∉ s.exec := by simp [hsole, hu]
      split
      · simp [hu, mem_erase_iff_of_nodup h.nodup, hne]; omega
      · simp [hu, hne]; omega
  · intro u hu
    have hu' : upd s.rw t (s.rw t - 1) u > 0 := hu
    show (if s.rw t - 1 = 0 ∧ s.ro t = 0 then s.exec.erase t else s.exec) = [u]
    by_cases hut : u = t
    · subst hut
      simp at hu'
      have : ¬ (s.rw u - 1 = 0 ∧ s.ro u = 0) := by omega
      simp [this, hsole]
    · rw [upd_other _ _ _ _ hut] at hu'; have := (hothers u hut).1; omega
  · intro u hu
    have hu' : upd s.rw t (s.rw t - 1) u > 0 := hu
    show s.total - 1 = upd s.rw t (s.rw t - 1) u
    by_cases hut : u = t
    · subst hut; simp; omega
    · rw [upd_other _ _ _ _ hut] at hu'; have := (hothers u hut).1; omega
  · intro hp
    have hp' : s.total - 1 > 0 := hp
    exact ⟨t, by show upd s.rw t (s.rw t - 1) t > 0; simp; omega⟩

theorem MxInv.unlockW {s : Mx} (h : MxInv s) (t : Tid) : MxInv (unlockW s t).1 := by
  unfold RW.unlockW
  split
  · exact h
  · rename_i hc
    have ht : t ∈ s.exec := by apply Classical.byContradiction; intro hn; exact hc (Or.inl hn)
    have hrw : s.rw t > 0 := by apply Nat.pos_of_ne_zero; intro hn; exact hc (Or.inr hn)
    have hcore := h.dropWrite t ht hrw
    split
    · split
      · exact MxInv.notifyAllReaders hcore
      · split
        · exact MxInv.notifySome hcore
        · exact hcore
    · exact hcore

end Muscle.Conc.RW
