import MuscleModel.Conc.ProofsTP4

/-! # C19 proofs, layer 5: the user side of progress (joins, waiters, the shutdown phase) -/

namespace Muscle.Conc.TP
open Muscle.Conc

/-- "ended or told to end" is stable for the existing pool threads -/
def QK (c c' : Cfg) : Prop := c.p.idc ≤ c'.p.idc ∧
  ∀ T, T < c.p.idc → ((c.pth T).pc = .exited ∨ Item.quit ∈ (c.pth T).inbox) → ((c'.pth T).pc = .exited ∨ Item.quit ∈ (c'.pth T).inbox)

theorem QK.refl (c : Cfg) : QK c c := ⟨Nat.le_refl _, fun _ _ h => h⟩
theorem QK.trans {a b c : Cfg} (h1 : QK a b) (h2 : QK b c) : QK a c :=
  ⟨Nat.le_trans h1.1 h2.1, fun T hT h => h2.2 T (Nat.lt_of_lt_of_le hT h1.1) (h1.2 T hT h)⟩
theorem QK.of_eq {c c' : Cfg} (h1 : c'.pth = c.pth) (h2 : c'.p.idc = c.p.idc) : QK c c' :=
  ⟨by rw [h2]; exact Nat.le_refl _, fun T _ h => by rw [h1]; exact h⟩

theorem qk_spawn (c : Cfg) : QK c (spawnIfNeeded c) := by
  unfold spawnIfNeeded; split
  · refine ⟨Nat.le_succ _, fun T hT h => ?_⟩
    simp only [upd]; rw [if_neg (Nat.ne_of_lt hT)]; exact h
  · exact QK.refl c

theorem qk_assign (c : Cfg) (k : Client) (T : PTid) (rest : List PTid) : QK c (assign c k T rest) := by
  refine ⟨Nat.le_refl _, fun T' _ h => ?_⟩
  simp only [assign, upd]; split
  · rename_i he; subst he
    rcases h with h | h
    · exact Or.inl h
    · exact Or.inr (by simp [h])
  · exact h

theorem qk_dispatchLoop (ks : List Client) (c : Cfg) : QK c (dispatchLoop ks c) := by
  induction ks generalizing c with
  | nil => exact QK.of_eq rfl rfl
  | cons k ks ih =>
    unfold dispatchLoop
    split
    · split
      · exact ((qk_spawn c).trans (qk_assign _ _ _ _)).trans (ih _)
      · exact QK.of_eq rfl rfl
    · have h2 : QK c { c with p := { c.p with pend := upd c.p.pend k [] } } := QK.of_eq rfl rfl
      exact h2.trans (ih _)

theorem qk_dispatch (c : Cfg) : QK c (dispatch c) := by
  unfold dispatch; split
  · exact QK.refl c
  · exact qk_dispatchLoop _ c

theorem qk_fetch (c : Cfg) (T : PTid) (hpc : (c.pth T).pc ≠ .exited) : QK c (fetch c T).1 := by
  refine ⟨by rw [fetch_p]; exact Nat.le_refl _, fun T' _ h => ?_⟩
  unfold fetch
  simp only
  by_cases hTT : T' = T
  · subst hTT
    rcases h with h | h
    · exact absurd h hpc
    · split
      · rename_i hin; rw [hin] at h; simp at h
      · exact Or.inl (by simp [upd])
      · rename_i rest hin
        rw [hin] at h
        have hr : Item.quit ∈ rest := by simpa using h
        split <;> (first | exact Or.inr (by simpa [upd] using hr) | exact Or.inl (by simp [upd]))
  · split <;> (try split) <;> (simpa [upd, hTT] using h)

theorem qk_finPrefix (c : Cfg) (T : PTid) (k : Client) (hpc : (c.pth T).pc = .finLock k) : QK c (finPrefix c T k) := by
  obtain ⟨fr, fk, ft, ff⟩ := finPrefix_frame c T k
  have hf := finPrefix_fields c T k
  refine ⟨by rw [hf.1]; exact Nat.le_refl _, fun T' _ h => ?_⟩
  by_cases hTT : T' = T
  · subst hTT
    rcases h with h | h
    · rw [hpc] at h; cases h
    · right
      unfold finPrefix release handBack
      simp only
      split <;> split <;> (try split) <;> simpa [upd] using h
  · rw [ft T' hTT]; exact h

theorem dispatchLoop_not_exited (ks : List Client) (c : Cfg) (T : PTid) (h : (c.pth T).pc ≠ .exited) :
    ((dispatchLoop ks c).pth T).pc ≠ .exited := by
  induction ks generalizing c with
  | nil => exact h
  | cons k ks ih =>
    unfold dispatchLoop
    split
    · split
      · apply ih
        have hs : ((spawnIfNeeded c).pth T).pc ≠ .exited := by
          unfold spawnIfNeeded; split
          · simp only [upd]; split
            · simp [PTh.fresh]
            · exact h
          · exact h
        simp only [assign, upd]; split
        · rename_i he; subst he; exact hs
        · exact hs
      · exact h
    · exact ih _ h

theorem dispatch_not_exited (c : Cfg) (T : PTid) (h : (c.pth T).pc ≠ .exited) : ((dispatch c).pth T).pc ≠ .exited := by
  unfold dispatch; split
  · exact h
  · exact dispatchLoop_not_exited _ c T h

theorem qk_stepPool {c c' : Cfg} {T : PTid} {o} (hs : stepPool c T = some (c', o)) : QK c c' := by
  unfold stepPool at hs
  simp only at hs
  split at hs
  · simp at hs
  · simp at hs
  · rename_i hpc
    simp only [Option.some.injEq] at hs; have : c' = (fetch c T).1 := by rw [hs]
    rw [this]; exact qk_fetch c T (by rw [hpc]; simp)
  · rename_i hpc
    split at hs
    · simp at hs
    · simp only [Option.some.injEq] at hs; have : c' = (fetch c T).1 := by rw [hs]
      rw [this]; exact qk_fetch c T (by rw [hpc]; simp)
  · rename_i hpc
    split at hs
    · simp only [Option.some.injEq, Prod.mk.injEq] at hs; obtain ⟨rfl, _⟩ := hs
      refine ⟨Nat.le_refl _, fun T' _ h => ?_⟩
      simp only [upd]; split
      · rename_i he; subst he; rcases h with h | h
        · rw [hpc] at h; cases h
        · exact Or.inr h
      · exact h
    · simp only [Option.some.injEq, Prod.mk.injEq] at hs; obtain ⟨rfl, _⟩ := hs
      refine ⟨Nat.le_refl _, fun T' _ h => ?_⟩
      simp only [upd]; split
      · rename_i he; subst he; rcases h with h | h
        · rw [hpc] at h; cases h
        · exact Or.inr h
      · exact h
    · simp at hs
  · rename_i k hpc
    simp only [Option.some.injEq] at hs
    have : c' = (fetch (finishCS { c with pth := upd c.pth T { (c.pth T) with pc := .idle } } T k) T).1 := by rw [hs]
    rw [this]
    have hset : QK c { c with pth := upd c.pth T { (c.pth T) with pc := .idle } } := by
      refine ⟨Nat.le_refl _, fun T' _ h => ?_⟩
      simp only [upd]; split
      · rename_i he; subst he; rcases h with h | h
        · rw [hpc] at h; cases h
        · exact Or.inr h
      · exact h
    cases hsh : c.p.shut with
    | true =>
      have he : finishCS { c with pth := upd c.pth T { (c.pth T) with pc := .idle } } T k = { c with pth := upd c.pth T { (c.pth T) with pc := .idle } } := by
        simp [finishCS, hsh]
      rw [he]
      exact hset.trans (qk_fetch _ T (by simp [upd]))
    | false =>
      rw [finishCS_eq c T k hsh]
      have wf := wake_fields (dispatch (finPrefix c T k)) k
      have h1 := (qk_finPrefix c T k hpc).trans (qk_dispatch _)
      have h2 : QK (dispatch (finPrefix c T k)) (wake (dispatch (finPrefix c T k)) k) := QK.of_eq wf.1 wf.2.2.2.2.2.2.2.2
      refine (h1.trans h2).trans (qk_fetch _ T ?_)
      rw [wf.1]
      have hf := finPrefix_fields c T k
      exact dispatch_not_exited _ T (by rw [hf.2.1]; simp)

/-! ## joins -/

/-- a pool thread being joined (and those next in line) exists, and it has ended or has its quit Message queued -/
def JJ (c : Cfg) : Prop := ∀ t b nA tot n T rest, (c.uth t).pc = .sdJoin b nA tot n T rest →
  T < c.p.idc ∧ (∀ T', T' ∈ rest → T' < c.p.idc) ∧ ((c.pth T).pc = .exited ∨ Item.quit ∈ (c.pth T).inbox)

def isJoin : UPc → Bool
  | .sdJoin .. => true
  | _ => false

theorem jj_of {c c' : Cfg} (h : JJ c) (hq : QK c c') (hpc : ∀ t, (c'.uth t).pc = (c.uth t).pc ∨ isJoin (c'.uth t).pc = false) : JJ c' := by
  intro t b nA tot n T rest hp
  rcases hpc t with h1 | h1
  · rw [h1] at hp
    obtain ⟨a1, a2, a3⟩ := h t b nA tot n T rest hp
    exact ⟨Nat.lt_of_lt_of_le a1 hq.1, fun T' hT' => Nat.lt_of_lt_of_le (a2 T' hT') hq.1, hq.2 T a1 a3⟩
  · rw [hp] at h1; simp [isJoin] at h1

theorem jj_sdNext {c : Cfg} (t : Tid) (b : Bool) (nA total n : Nat) (l : List PTid) (h : JJ c) (hl : ∀ T, T ∈ l → T < c.p.idc)
    (hnj : isJoin (c.uth t).pc = false ∨ True) : JJ (sdNext c t b nA total n l) := by
  unfold sdNext
  split
  · rename_i T rest
    intro t' b' nA' tot' n' T' rest' hp
    simp only [upd] at hp ⊢
    by_cases htt : t' = t
    · subst htt
      simp only [if_true] at hp
      cases hp
      refine ⟨hl _ (List.mem_cons_self ..), fun T'' hT'' => hl T'' (List.mem_cons_of_mem _ hT''), ?_⟩
      simp
    · simp only [if_neg htt] at hp
      obtain ⟨a1, a2, a3⟩ := h t' b' nA' tot' n' T' rest' hp
      refine ⟨a1, a2, ?_⟩
      split
      · rename_i he; subst he
        rcases a3 with a3 | a3
        · exact Or.inl a3
        · exact Or.inr (by simp [a3])
      · exact a3
  · have hgen : ∀ pc', isJoin pc' = false → JJ { c with uth := upd c.uth t { (c.uth t) with pc := pc' } } := by
      intro pc' hj
      refine jj_of h (QK.refl c) (fun t' => ?_)
      simp only [upd]; split
      · exact Or.inr hj
      · exact Or.inl rfl
    split
    · exact hgen _ rfl
    · split
      · exact hgen _ rfl
      · exact hgen _ rfl

theorem subCS_qk (c : Cfg) (k : Client) (m : MsgId) : QK c (subCS c k m).1 := by
  unfold subCS
  split
  · exact QK.refl c
  · split
    · exact QK.of_eq rfl rfl
    · split
      · have h1 : QK c (addPend c k m) := QK.of_eq rfl rfl
        exact h1.trans (qk_dispatch _)
      · exact QK.of_eq rfl rfl

theorem jj_stepUser {c c' : Cfg} {t : Tid} {o} (h : JJ c) (h0 : Inv0 c) (hs : stepUser c t = some (c', o)) : JJ c' := by
  have hadv := advance_spec (c.uth t)
  have hupd : ∀ (c2 : Cfg) (u' : UTh), QK c c2 → c2.uth = c.uth → isJoin u'.pc = false → JJ { c2 with uth := upd c2.uth t u' } := by
    intro c2 u' hq hu hj
    refine jj_of h hq (fun t' => ?_)
    simp only [upd, hu]; split
    · rename_i he; subst he; exact Or.inr hj
    · exact Or.inl rfl
  have hadvj : isJoin (advance (c.uth t)).pc = false := by rcases hadv.1 with h | h <;> rw [h] <;> rfl
  unfold stepUser at hs
  simp only at hs
  split at hs
  · simp at hs
  · split at hs
    · simp at hs
    all_goals first
      | (split at hs <;> (simp only [Option.some.injEq, Prod.mk.injEq] at hs; obtain ⟨rfl, _⟩ := hs
                          first | exact hupd c _ (QK.refl c) rfl hadvj | exact hupd c _ (QK.refl c) rfl rfl
                                | exact hupd { c with cptr := _ } _ (QK.of_eq rfl rfl) rfl rfl))
      | (simp only [Option.some.injEq, Prod.mk.injEq] at hs; obtain ⟨rfl, _⟩ := hs; exact hupd c _ (QK.refl c) rfl rfl)
  · simp only [Option.some.injEq, Prod.mk.injEq] at hs; obtain ⟨rfl, _⟩ := hs
    exact hupd (subCS c _ _).1 _ (subCS_qk c _ _) (subCS_uth c _ _).1 hadvj
  · simp only [Option.some.injEq, Prod.mk.injEq] at hs; obtain ⟨rfl, _⟩ := hs
    exact hupd { c with p := _ } _ (QK.of_eq rfl rfl) rfl hadvj
  · split at hs <;> (simp only [Option.some.injEq, Prod.mk.injEq] at hs; obtain ⟨rfl, _⟩ := hs
                     first | exact hupd c _ (QK.refl c) rfl rfl | exact hupd { c with p := _ } _ (QK.of_eq rfl rfl) rfl rfl)
  · split at hs
    · simp only [Option.some.injEq, Prod.mk.injEq] at hs; obtain ⟨rfl, _⟩ := hs; exact hupd c _ (QK.refl c) rfl rfl
    · simp at hs
  · simp only [Option.some.injEq, Prod.mk.injEq] at hs; obtain ⟨rfl, _⟩ := hs
    exact hupd { c with p := _, cptr := _, dropped := _ } _ (QK.of_eq rfl rfl) rfl hadvj
  · simp only [Option.some.injEq, Prod.mk.injEq] at hs; obtain ⟨rfl, _⟩ := hs
    exact hupd { c with p := _ } _ (QK.of_eq rfl rfl) rfl rfl
  · split at hs
    · simp only [Option.some.injEq, Prod.mk.injEq] at hs; obtain ⟨rfl, _⟩ := hs
      refine jj_sdNext _ _ _ _ _ _ (jj_of h (QK.of_eq rfl rfl) (fun _ => Or.inl rfl)) (fun T hT => h0.ltB T hT) (Or.inr trivial)
    · simp only [Option.some.injEq, Prod.mk.injEq] at hs; obtain ⟨rfl, _⟩ := hs
      refine jj_sdNext _ _ _ _ _ _ (jj_of h (QK.of_eq rfl rfl) (fun _ => Or.inl rfl)) (fun T hT => h0.ltA T (by simpa using hT)) (Or.inr trivial)
  · rename_i b nA tot n T r hpc
    split at hs
    · simp only [Option.some.injEq, Prod.mk.injEq] at hs; obtain ⟨rfl, _⟩ := hs
      exact jj_sdNext _ _ _ _ _ _ h (h t b nA tot n T r hpc).2.1 (Or.inr trivial)
    · simp at hs
  · simp only [Option.some.injEq, Prod.mk.injEq] at hs; obtain ⟨rfl, _⟩ := hs
    have hn := notifyAll_spec c.p.waitK c.p.waitT c.uth
    have ha2 := advance_spec (notifyAll c.p.waitK c.p.waitT c.uth t)
    refine jj_of h (QK.of_eq rfl rfl) (fun t' => ?_)
    simp only [upd]; split
    · rename_i he; subst he
      right; rcases ha2.1 with h | h <;> rw [h] <;> rfl
    · exact Or.inl (hn t').1

/-! ## the user side -/

structure InvU (c : Cfg) : Prop where
  nu : ∀ t, c.nU ≤ t → (c.uth t).pc = .done
  nr : ∀ t0, (Op.shutdown ∈ (c.uth t0).prog ∨ c.p.shut = true) → ∀ t k, Op.reg k ∉ (c.uth t).prog
  sdl : ∀ t, (c.uth t).pc = .sdLock → Op.shutdown ∈ (c.uth t).prog
  rl : ∀ t k, (c.uth t).pc = .regLock k → Op.reg k ∈ (c.uth t).prog
  w : ∀ t k, (c.uth t).pc = .unregWait k → (c.uth t).notif = 0 → k ∈ c.p.waitK ∧ c.p.waitT k = t
  os : ∀ t, (c.uth t).pc = .opStart → (c.uth t).prog ≠ []

/-- once `Shutdown` has begun: some thread is inside it, or it is over and nobody is registered or waiting -/
def PP (c : Cfg) : Prop := c.p.shut = true → (∃ t, inShutdown (c.uth t).pc = true) ∨ (c.p.regK = [] ∧ c.p.waitK = [])

theorem pp_of {c c' : Cfg} (t : Tid) (h : PP c)
    (ha : c'.p.shut = true → c.p.shut = true ∨ inShutdown (c'.uth t).pc = true)
    (hb : ∀ t', t' ≠ t → (c'.uth t').pc = (c.uth t').pc)
    (hc : inShutdown (c.uth t).pc = true → inShutdown (c'.uth t).pc = true ∨ (c'.p.regK = [] ∧ c'.p.waitK = []))
    (hd : c.p.shut = true → c.p.regK = [] → c.p.waitK = [] → (c'.p.regK = [] ∧ c'.p.waitK = []) ∨ inShutdown (c'.uth t).pc = true) : PP c' := by
  intro hs
  rcases ha hs with h1 | h1
  · rcases h h1 with ⟨t0, ht0⟩ | ⟨h2, h3⟩
    · by_cases he : t0 = t
      · subst he
        rcases hc ht0 with h4 | h4
        · exact Or.inl ⟨t0, h4⟩
        · exact Or.inr h4
      · exact Or.inl ⟨t0, by rw [hb t0 he]; exact ht0⟩
    · rcases hd h1 h2 h3 with h4 | h4
      · exact Or.inr h4
      · exact Or.inl ⟨t, h4⟩
  · exact Or.inl ⟨t, h1⟩

theorem sdNext_user (c : Cfg) (t : Tid) (b : Bool) (nA total n : Nat) (l : List PTid) :
    (∀ t', t' ≠ t → (sdNext c t b nA total n l).uth t' = c.uth t') ∧
    inShutdown ((sdNext c t b nA total n l).uth t).pc = true ∧ ((sdNext c t b nA total n l).uth t).prog = (c.uth t).prog ∧
    ((sdNext c t b nA total n l).uth t).notif = (c.uth t).notif ∧ (sdNext c t b nA total n l).nU = c.nU := by
  unfold sdNext
  split
  · refine ⟨fun t' ht' => by simp [upd, ht'], by simp [upd, inShutdown], by simp [upd], by simp [upd], rfl⟩
  · split
    · refine ⟨fun t' ht' => by simp [upd, ht'], by simp [upd, inShutdown], by simp [upd], by simp [upd], rfl⟩
    · split <;> refine ⟨fun t' ht' => by simp [upd, ht'], by simp [upd, inShutdown], by simp [upd], by simp [upd], rfl⟩

theorem invU_sdNext {c : Cfg} (t : Tid) (b : Bool) (nA total n : Nat) (l : List PTid) (h : InvU c) (hpc : inShutdown (c.uth t).pc = true)
    (hlt : t < c.nU) : InvU (sdNext c t b nA total n l) := by
  obtain ⟨e1, e2, e3, e4, e5⟩ := sdNext_user c t b nA total n l
  have ep := (sdNext_fields c t b nA total n l).1
  obtain ⟨g1, g2, g3, g4, g5, g6⟩ := h
  generalize sdNext c t b nA total n l = c2 at *
  constructor
  · intro t' ht'
    by_cases he : t' = t
    · subst he; rw [e5] at ht'; exact absurd hlt (Nat.not_lt.2 ht')
    · rw [e1 t' he]; exact g1 t' (by rw [← e5]; exact ht')
  · intro t0 hh t' k
    have hh' : Op.shutdown ∈ (c.uth t0).prog ∨ c.p.shut = true := by
      rcases hh with h0 | h0
      · left; by_cases he : t0 = t
        · subst he; rw [e3] at h0; exact h0
        · rw [e1 t0 he] at h0; exact h0
      · right; rw [ep] at h0; exact h0
    by_cases he : t' = t
    · subst he; rw [e3]; exact g2 t0 hh' t' k
    · rw [e1 t' he]; exact g2 t0 hh' t' k
  · intro t' hp
    by_cases he : t' = t
    · subst he; rw [hp] at e2; simp [inShutdown] at e2
    · rw [e1 t' he] at hp ⊢; exact g3 t' hp
  · intro t' k hp
    by_cases he : t' = t
    · subst he; rw [hp] at e2; simp [inShutdown] at e2
    · rw [e1 t' he] at hp ⊢; exact g4 t' k hp
  · intro t' k hp hn
    by_cases he : t' = t
    · subst he; rw [hp] at e2; simp [inShutdown] at e2
    · rw [e1 t' he] at hp hn; rw [ep]; exact g5 t' k hp hn
  · intro t' hp
    by_cases he : t' = t
    · subst he; rw [hp] at e2; simp [inShutdown] at e2
    · rw [e1 t' he] at hp ⊢; exact g6 t' hp

theorem advance_opStart (u : UTh) : (advance u).pc = .opStart → (advance u).prog ≠ [] := by
  unfold advance
  split
  · simp
  · rename_i r hr; intro _; exact hr

theorem notifyAll_mono (ks : List Client) (w : Client → Tid) (u : Tid → UTh) (x : Tid) : (u x).notif ≤ (notifyAll ks w u x).notif := by
  induction ks generalizing u with
  | nil => exact Nat.le_refl _
  | cons k ks ih =>
    simp only [notifyAll]
    refine Nat.le_trans ?_ (ih _)
    simp only [upd]; split
    · rename_i he; subst he; exact Nat.le_succ _
    · exact Nat.le_refl _

theorem notifyAll_pos (ks : List Client) (w : Client → Tid) (u : Tid → UTh) : ∀ k, k ∈ ks → (notifyAll ks w u (w k)).notif > 0 := by
  induction ks generalizing u with
  | nil => intro k hk; simp at hk
  | cons k0 ks ih =>
    intro k hk
    simp only [notifyAll]
    simp only [List.mem_cons] at hk
    rcases hk with h | h
    · subst h
      refine Nat.lt_of_lt_of_le ?_ (notifyAll_mono ks w _ (w k))
      simp [upd]
    · exact ih _ k h

theorem subCS_frame (c : Cfg) (k : Client) (m : MsgId) : Frame c (subCS c k m).1 := by
  unfold subCS
  split
  · exact Frame.refl c
  · split
    · exact ⟨rfl, rfl, rfl, rfl, rfl, rfl, rfl⟩
    · split
      · have h1 : Frame c (addPend c k m) := ⟨rfl, rfl, rfl, rfl, rfl, rfl, rfl⟩
        exact h1.trans (frame_dispatch _)
      · exact ⟨rfl, rfl, rfl, rfl, rfl, rfl, rfl⟩

set_option maxHeartbeats 2000000 in
theorem invU_stepUser {c c' : Cfg} {t : Tid} {o} (h : InvU c) (h0 : Inv0 c) (h1 : Inv1 c) (hd : Disc c)
    (hs : stepUser c t = some (c', o)) : InvU c' := by
  have hadv := advance_spec (c.uth t)
  have hado := advance_opStart (c.uth t)
  have hlt : t < c.nU := by
    by_cases hlt : t < c.nU
    · exact hlt
    · have := h.nu t (Nat.le_of_not_lt hlt)
      unfold stepUser at hs; simp only [this] at hs; cases hs
  have hnu := h.nu t
  unfold stepUser at hs
  simp only at hs
  split at hs
  · simp at hs
  · -- opStart
    rename_i hpc
    split at hs
    · simp at hs
    · rename_i k m rest hprog
      split at hs <;>
        (simp only [Option.some.injEq, Prod.mk.injEq] at hs; obtain ⟨rfl, _⟩ := hs
         obtain ⟨g1, g2, g3, g4, g5, g6⟩ := h
         generalize advance (c.uth t) = a at *
         constructor <;> (simp only [upd] at *; grind))
    · rename_i k rest hprog
      have hm : Op.reg k ∈ (c.uth t).prog := by rw [hprog]; simp
      split at hs <;>
        (simp only [Option.some.injEq, Prod.mk.injEq] at hs; obtain ⟨rfl, _⟩ := hs
         obtain ⟨g1, g2, g3, g4, g5, g6⟩ := h
         generalize advance (c.uth t) = a at *
         constructor <;> (simp only [upd] at *; grind))
    · rename_i k rest hprog
      split at hs <;>
        (simp only [Option.some.injEq, Prod.mk.injEq] at hs; obtain ⟨rfl, _⟩ := hs
         obtain ⟨g1, g2, g3, g4, g5, g6⟩ := h
         generalize advance (c.uth t) = a at *
         constructor <;> (simp only [upd] at *; grind))
    · rename_i rest hprog
      have hm : Op.shutdown ∈ (c.uth t).prog := by rw [hprog]; simp
      simp only [Option.some.injEq, Prod.mk.injEq] at hs; obtain ⟨rfl, _⟩ := hs
      obtain ⟨g1, g2, g3, g4, g5, g6⟩ := h
      constructor <;> (simp only [upd] at *; grind)
  · -- subLock
    rename_i k m hpc
    simp only [Option.some.injEq, Prod.mk.injEq] at hs; obtain ⟨rfl, _⟩ := hs
    have fr := subCS_frame c k m
    obtain ⟨f1, f2, f3, f4, f5, f6, f7⟩ := fr
    obtain ⟨g1, g2, g3, g4, g5, g6⟩ := h
    generalize advance (c.uth t) = a at *
    generalize (subCS c k m).1 = c2 at *
    constructor <;> (simp only [upd, f1, f2, f3, f4, f5, f6] at *; grind)
  · -- regLock
    rename_i k hpc
    simp only [Option.some.injEq, Prod.mk.injEq] at hs; obtain ⟨rfl, _⟩ := hs
    obtain ⟨g1, g2, g3, g4, g5, g6⟩ := h
    generalize advance (c.uth t) = a at *
    constructor <;> (simp only [upd] at *; grind)
  · -- unregLock1
    rename_i k hpc
    have hmk := h1.mg t k (by rw [hpc]; rfl)
    have hother : ∀ t', t' ≠ t → ¬ manages (c.uth t') k := fun t' hne hu => hne (hd t' t k (manages_uses hu) hmk)
    have hoth : ∀ t', t' ≠ t → mgClient (c.uth t').pc ≠ some k := fun t' hne hm => hother t' hne (h1.mg t' k hm)
    split at hs
    · simp only [Option.some.injEq, Prod.mk.injEq] at hs; obtain ⟨rfl, _⟩ := hs
      obtain ⟨g1, g2, g3, g4, g5, g6⟩ := h
      constructor <;> (simp only [upd, mem_addKey, mgClient] at *; grind)
    · simp only [Option.some.injEq, Prod.mk.injEq] at hs; obtain ⟨rfl, _⟩ := hs
      obtain ⟨g1, g2, g3, g4, g5, g6⟩ := h
      constructor <;> (simp only [upd] at *; grind)
  · -- unregWait
    rename_i k hpc
    split at hs
    · simp only [Option.some.injEq, Prod.mk.injEq] at hs; obtain ⟨rfl, _⟩ := hs
      obtain ⟨g1, g2, g3, g4, g5, g6⟩ := h
      constructor <;> (simp only [upd] at *; grind)
    · simp at hs
  · -- unregLock2
    rename_i k hpc
    simp only [Option.some.injEq, Prod.mk.injEq] at hs; obtain ⟨rfl, _⟩ := hs
    have hmk := h1.mg t k (by rw [hpc]; rfl)
    have hother : ∀ t', t' ≠ t → ¬ manages (c.uth t') k := fun t' hne hu => hne (hd t' t k (manages_uses hu) hmk)
    have hoth : ∀ t', t' ≠ t → mgClient (c.uth t').pc ≠ some k := fun t' hne hm => hother t' hne (h1.mg t' k hm)
    obtain ⟨g1, g2, g3, g4, g5, g6⟩ := h
    generalize advance (c.uth t) = a at *
    constructor <;> (simp only [upd, mem_remKey, mgClient] at *; grind)
  · -- sdLock
    rename_i hpc
    simp only [Option.some.injEq, Prod.mk.injEq] at hs; obtain ⟨rfl, _⟩ := hs
    have hsd := h.sdl t hpc
    obtain ⟨g1, g2, g3, g4, g5, g6⟩ := h
    constructor <;> (simp only [upd] at *; grind)
  · -- sdSwap
    rename_i b nA tot hpc
    have hi : inShutdown (c.uth t).pc = true := by simp [hpc, inShutdown]
    split at hs
    · simp only [Option.some.injEq, Prod.mk.injEq] at hs; obtain ⟨rfl, _⟩ := hs
      refine invU_sdNext _ _ _ _ _ _ ?_ hi hlt
      obtain ⟨g1, g2, g3, g4, g5, g6⟩ := h
      constructor <;> assumption
    · simp only [Option.some.injEq, Prod.mk.injEq] at hs; obtain ⟨rfl, _⟩ := hs
      refine invU_sdNext _ _ _ _ _ _ ?_ hi hlt
      obtain ⟨g1, g2, g3, g4, g5, g6⟩ := h
      constructor <;> assumption
  · -- sdJoin
    rename_i b nA tot n T r hpc
    have hi : inShutdown (c.uth t).pc = true := by simp [hpc, inShutdown]
    split at hs
    · simp only [Option.some.injEq, Prod.mk.injEq] at hs; obtain ⟨rfl, _⟩ := hs
      exact invU_sdNext _ _ _ _ _ _ h hi hlt
    · simp at hs
  · -- sdFinal
    rename_i tot hpc
    simp only [Option.some.injEq, Prod.mk.injEq] at hs; obtain ⟨rfl, _⟩ := hs
    have hna := notifyAll_spec c.p.waitK c.p.waitT c.uth
    have ha := advance_spec (notifyAll c.p.waitK c.p.waitT c.uth t)
    have hao := advance_opStart (notifyAll c.p.waitK c.p.waitT c.uth t)
    have hnot : ∀ k, k ∈ c.p.waitK → (notifyAll c.p.waitK c.p.waitT c.uth (c.p.waitT k)).notif > 0 := notifyAll_pos c.p.waitK c.p.waitT c.uth
    have hmono : ∀ x, (c.uth x).notif ≤ (notifyAll c.p.waitK c.p.waitT c.uth x).notif := notifyAll_mono c.p.waitK c.p.waitT c.uth
    obtain ⟨g1, g2, g3, g4, g5, g6⟩ := h
    generalize advance (notifyAll c.p.waitK c.p.waitT c.uth t) = a at *
    generalize notifyAll c.p.waitK c.p.waitT c.uth = nu at *
    constructor <;> (simp only [upd] at *; grind)

theorem pp_sdNext (c0 : Cfg) (t : Tid) (b : Bool) (nA total n : Nat) (l : List PTid) : PP (sdNext c0 t b nA total n l) :=
  fun _ => Or.inl ⟨t, (sdNext_user c0 t b nA total n l).2.1⟩

set_option maxHeartbeats 2000000 in
theorem pp_stepUser {c c' : Cfg} {t : Tid} {o} (h : PP c) (hu : InvU c) (h0 : Inv0 c)
    (hs : stepUser c t = some (c', o)) : PP c' := by
  have hadv := advance_spec (c.uth t)
  have hadvj : inShutdown (advance (c.uth t)).pc = false := by rcases hadv.1 with h | h <;> rw [h] <;> rfl
  have hwf := h0.wfFlag
  have hwq := h0.wfQ
  obtain ⟨g1, g2, g3, g4, g5, g6⟩ := hu
  unfold stepUser at hs
  simp only at hs
  split at hs
  · simp at hs
  · rename_i hpc
    split at hs
    · simp at hs
    all_goals first
      | (split at hs <;> (simp only [Option.some.injEq, Prod.mk.injEq] at hs; obtain ⟨rfl, _⟩ := hs
                          generalize advance (c.uth t) = a at *
                          refine pp_of t h ?_ ?_ ?_ ?_ <;> (simp only [upd, inShutdown] at *; grind)))
      | (simp only [Option.some.injEq, Prod.mk.injEq] at hs; obtain ⟨rfl, _⟩ := hs
         refine pp_of t h ?_ ?_ ?_ ?_ <;> (simp only [upd, inShutdown] at *; grind))
  · rename_i k m hpc
    simp only [Option.some.injEq, Prod.mk.injEq] at hs; obtain ⟨rfl, _⟩ := hs
    obtain ⟨f1, f2, f3, f4, f5, f6, f7⟩ := subCS_frame c k m
    generalize advance (c.uth t) = a at *
    generalize (subCS c k m).1 = c2 at *
    refine pp_of t h ?_ ?_ ?_ ?_ <;> (simp only [upd, inShutdown, f1, f2, f3, f4, f5, f6] at *; grind)
  · rename_i k hpc
    simp only [Option.some.injEq, Prod.mk.injEq] at hs; obtain ⟨rfl, _⟩ := hs
    have hrl := g4 t k hpc
    generalize advance (c.uth t) = a at *
    refine pp_of t h ?_ ?_ ?_ ?_ <;> (simp only [upd, inShutdown] at *; grind)
  · rename_i k hpc
    split at hs
    · rename_i ho
      have hkr : k ∈ c.p.regK := by
        by_cases hkr : k ∈ c.p.regK
        · exact hkr
        · have a1 := hwf k hkr; have a2 := hwq k hkr
          simp [outstanding, a1, a2.1, a2.2] at ho
      simp only [Option.some.injEq, Prod.mk.injEq] at hs; obtain ⟨rfl, _⟩ := hs
      refine pp_of t h ?_ ?_ ?_ ?_ <;> (simp only [upd, inShutdown] at *; grind)
    · simp only [Option.some.injEq, Prod.mk.injEq] at hs; obtain ⟨rfl, _⟩ := hs
      refine pp_of t h ?_ ?_ ?_ ?_ <;> (simp only [upd, inShutdown] at *; grind)
  · split at hs
    · simp only [Option.some.injEq, Prod.mk.injEq] at hs; obtain ⟨rfl, _⟩ := hs
      refine pp_of t h ?_ ?_ ?_ ?_ <;> (simp only [upd, inShutdown] at *; grind)
    · simp at hs
  · rename_i k hpc
    simp only [Option.some.injEq, Prod.mk.injEq] at hs; obtain ⟨rfl, _⟩ := hs
    generalize advance (c.uth t) = a at *
    refine pp_of t h ?_ ?_ ?_ ?_ <;> (simp only [upd, inShutdown, remKey] at *; grind)
  · simp only [Option.some.injEq, Prod.mk.injEq] at hs; obtain ⟨rfl, _⟩ := hs
    refine pp_of t h ?_ ?_ ?_ ?_ <;> (simp only [upd, inShutdown] at *; grind)
  · split at hs <;>
      (simp only [Option.some.injEq, Prod.mk.injEq] at hs; obtain ⟨rfl, _⟩ := hs; exact pp_sdNext _ _ _ _ _ _ _)
  · split at hs
    · simp only [Option.some.injEq, Prod.mk.injEq] at hs; obtain ⟨rfl, _⟩ := hs; exact pp_sdNext _ _ _ _ _ _ _
    · simp at hs
  · rename_i tot hpc
    simp only [Option.some.injEq, Prod.mk.injEq] at hs; obtain ⟨rfl, _⟩ := hs
    have hna := notifyAll_spec c.p.waitK c.p.waitT c.uth
    refine pp_of t h ?_ ?_ ?_ ?_
    · intro hsh; exact Or.inl hsh
    · intro t' ht'; simp only [upd, if_neg ht']; exact (hna t').1
    · intro _; exact Or.inr ⟨rfl, rfl⟩
    · intro _ _ _; exact Or.inl ⟨rfl, rfl⟩

/-! ## pool-thread steps seen from the user side -/

def UserView (c c' : Cfg) : Prop :=
  c'.nU = c.nU ∧ c'.p.regK = c.p.regK ∧ c'.p.shut = c.p.shut ∧ c'.p.waitT = c.p.waitT ∧
  ((c'.uth = c.uth ∧ c'.p.waitK = c.p.waitK) ∨
   (∃ k, k ∈ c.p.waitK ∧ c'.uth = upd c.uth (c.p.waitT k) { (c.uth (c.p.waitT k)) with notif := (c.uth (c.p.waitT k)).notif + 1 } ∧
      c'.p.waitK = remKey c.p.waitK k))

theorem userView_fetch {c c2 : Cfg} (T : PTid) (h : UserView c c2) : UserView c (fetch c2 T).1 := by
  have hp := fetch_p c2 T
  have hu := fetch_uth c2 T
  have hn : (fetch c2 T).1.nU = c2.nU := by unfold fetch; simp only; split <;> (try split) <;> rfl
  unfold UserView at *
  rw [hp, hu, hn]; exact h

theorem stepPool_userView {c c' : Cfg} {T : PTid} {o} (hs : stepPool c T = some (c', o)) : UserView c c' := by
  have hrefl : UserView c c := ⟨rfl, rfl, rfl, rfl, Or.inl ⟨rfl, rfl⟩⟩
  unfold stepPool at hs
  simp only at hs
  split at hs
  · simp at hs
  · simp at hs
  · simp only [Option.some.injEq] at hs; have : c' = (fetch c T).1 := by rw [hs]
    rw [this]; exact userView_fetch T hrefl
  · split at hs
    · simp at hs
    · simp only [Option.some.injEq] at hs; have : c' = (fetch c T).1 := by rw [hs]
      rw [this]; exact userView_fetch T hrefl
  · split at hs
    · simp only [Option.some.injEq, Prod.mk.injEq] at hs; obtain ⟨rfl, _⟩ := hs; exact ⟨rfl, rfl, rfl, rfl, Or.inl ⟨rfl, rfl⟩⟩
    · simp only [Option.some.injEq, Prod.mk.injEq] at hs; obtain ⟨rfl, _⟩ := hs; exact ⟨rfl, rfl, rfl, rfl, Or.inl ⟨rfl, rfl⟩⟩
    · simp at hs
  · rename_i k hpc
    simp only [Option.some.injEq] at hs
    have : c' = (fetch (finishCS { c with pth := upd c.pth T { (c.pth T) with pc := .idle } } T k) T).1 := by rw [hs]
    rw [this]
    apply userView_fetch
    cases hsh : c.p.shut with
    | true =>
      have he : finishCS { c with pth := upd c.pth T { (c.pth T) with pc := .idle } } T k = { c with pth := upd c.pth T { (c.pth T) with pc := .idle } } := by
        simp [finishCS, hsh]
      rw [he]; exact ⟨rfl, rfl, rfl, rfl, Or.inl ⟨rfl, rfl⟩⟩
    | false =>
      rw [finishCS_eq c T k hsh]
      have fr := (finPrefix_frame c T k).1.trans (frame_dispatch _)
      generalize dispatch (finPrefix c T k) = d at *
      obtain ⟨f1, f2, f3, f4, f5, f6, f7⟩ := fr
      unfold wake
      split
      · rename_i hc
        refine ⟨f2, f3, f6, f5, Or.inr ⟨k, by rw [← f4]; exact hc.2, ?_, ?_⟩⟩
        · simp only [f1, f5]
        · simp only [f4]
      · exact ⟨f2, f3, f6, f5, Or.inl ⟨f1, f4⟩⟩

theorem invU_userView {c c' : Cfg} (h : InvU c) (h1 : Inv1 c) (hv : UserView c c') : InvU c' := by
  obtain ⟨v1, v2, v3, v4, v5⟩ := hv
  obtain ⟨g1, g2, g3, g4, g5, g6⟩ := h
  have hu4 := h1.u4
  rcases v5 with ⟨e1, e2⟩ | ⟨k, hk, e1, e2⟩
  · constructor <;> (simp only [v1, v3, v4, e1, e2] at *; assumption)
  · constructor <;> (simp only [v1, v3, v4, e1, e2, upd, mem_remKey] at *; grind)

theorem pp_userView {c c' : Cfg} (h : PP c) (hv : UserView c c') : PP c' := by
  obtain ⟨v1, v2, v3, v4, v5⟩ := hv
  intro hs
  rw [v3] at hs
  have hpc : ∀ t, (c'.uth t).pc = (c.uth t).pc := by
    intro t
    rcases v5 with ⟨e1, e2⟩ | ⟨k, hk, e1, e2⟩
    · rw [e1]
    · rw [e1]; simp only [upd]; split
      · rename_i he; rw [he]
      · rfl
  rcases h hs with ⟨t0, h0⟩ | ⟨h2, h3⟩
  · exact Or.inl ⟨t0, by rw [hpc]; exact h0⟩
  · right
    refine ⟨by rw [v2]; exact h2, ?_⟩
    rcases v5 with ⟨e1, e2⟩ | ⟨k, hk, e1, e2⟩
    · rw [e2]; exact h3
    · rw [e2, h3]; rfl

theorem jj_userView {c c' : Cfg} (h : JJ c) (hv : UserView c c') (hq : QK c c') : JJ c' := by
  obtain ⟨v1, v2, v3, v4, v5⟩ := hv
  refine jj_of h hq (fun t => Or.inl ?_)
  rcases v5 with ⟨e1, e2⟩ | ⟨k, hk, e1, e2⟩
  · rw [e1]
  · rw [e1]; simp only [upd]; split
    · rename_i he; rw [he]
    · rfl
