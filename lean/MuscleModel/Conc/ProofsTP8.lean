import MuscleModel.Conc.ProofsTP7

/-! # C19 proofs, layer 8: the cover invariant — when `Shutdown()` reaches its final section every pool thread has ended -/

namespace Muscle.Conc.TP
open Muscle.Conc

/-- every existing pool thread has ended, or is in one of the two tables, or is in `extra` (the list `Shutdown` is joining) -/
def Cov (c : Cfg) (extra : List PTid) : Prop :=
  ∀ T, T < c.p.idc → (c.pth T).pc = .exited ∨ T ∈ c.p.availR ∨ T ∈ c.p.active ∨ T ∈ extra

/-- the cover survives -/
def CK (c c' : Cfg) : Prop := ∀ extra, Cov c extra → Cov c' extra

theorem CK.refl (c : Cfg) : CK c c := fun _ h => h
theorem CK.trans {a b c : Cfg} (h1 : CK a b) (h2 : CK b c) : CK a c := fun e h => h2 e (h1 e h)

theorem CK.of_eq {c c' : Cfg} (h1 : c'.pth = c.pth) (h2 : c'.p.idc = c.p.idc) (h3 : c'.p.availR = c.p.availR) (h4 : c'.p.active = c.p.active) : CK c c' := by
  intro e h T hT
  rw [h1, h3, h4]; rw [h2] at hT; exact h T hT

theorem ck_spawn (c : Cfg) : CK c (spawnIfNeeded c) := by
  unfold spawnIfNeeded; split
  · rename_i hc
    intro e h T hT
    simp only [upd] at hT ⊢
    by_cases hTi : T = c.p.idc
    · subst hTi; right; left; simp
    · have hlt : T < c.p.idc := by omega
      rw [if_neg hTi]
      rcases h T hlt with h1 | h1 | h1 | h1
      · exact Or.inl h1
      · rw [hc.1] at h1; simp at h1
      · exact Or.inr (Or.inr (Or.inl h1))
      · exact Or.inr (Or.inr (Or.inr h1))
  · exact CK.refl c

theorem ck_assign (c : Cfg) (k : Client) (T : PTid) (rest : List PTid) (ha : c.p.availR = T :: rest) : CK c (assign c k T rest) := by
  intro e h T' hT'
  simp only [assign, upd] at hT' ⊢
  rcases h T' hT' with h1 | h1 | h1 | h1
  · left; split
    · rename_i he; subst he; exact h1
    · exact h1
  · rw [ha] at h1
    simp only [List.mem_cons] at h1
    rcases h1 with h1 | h1
    · subst h1; right; right; left; simp
    · exact Or.inr (Or.inl h1)
  · right; right; left; simp [h1]
  · exact Or.inr (Or.inr (Or.inr h1))

theorem ck_dispatchLoop (ks : List Client) (c : Cfg) : CK c (dispatchLoop ks c) := by
  induction ks generalizing c with
  | nil => exact CK.of_eq rfl rfl rfl rfl
  | cons k ks ih =>
    unfold dispatchLoop
    split
    · split
      · rename_i T rest ha
        exact ((ck_spawn c).trans (ck_assign _ k T rest ha)).trans (ih _)
      · exact CK.of_eq rfl rfl rfl rfl
    · have h2 : CK c { c with p := { c.p with pend := upd c.p.pend k [] } } := CK.of_eq rfl rfl rfl rfl
      exact h2.trans (ih _)

theorem ck_dispatch (c : Cfg) : CK c (dispatch c) := by
  unfold dispatch; split
  · exact CK.refl c
  · exact ck_dispatchLoop _ c

theorem ck_subCS (c : Cfg) (k : Client) (m : MsgId) : CK c (subCS c k m).1 := by
  unfold subCS
  split
  · exact CK.refl c
  · split
    · exact CK.of_eq rfl rfl rfl rfl
    · split
      · have h1 : CK c (addPend c k m) := CK.of_eq rfl rfl rfl rfl
        exact h1.trans (ck_dispatch _)
      · exact CK.of_eq rfl rfl rfl rfl

/-- thread T's record changes, its pc does not become un-exited -/
theorem ck_pth {c : Cfg} (T : PTid) (th : PTh) (h : (c.pth T).pc = .exited → th.pc = .exited) : CK c { c with pth := upd c.pth T th } := by
  intro e hc T' hT'
  simp only [upd]
  rcases hc T' hT' with h1 | h1
  · left; split
    · rename_i he; subst he; exact h h1
    · exact h1
  · exact Or.inr h1

theorem ck_fetch (c : Cfg) (T : PTid) (hpc : (c.pth T).pc ≠ .exited) : CK c (fetch c T).1 := by
  unfold fetch; simp only
  split <;> (try split) <;> exact ck_pth T _ (fun h => absurd h hpc)

theorem ck_finPrefix (c : Cfg) (T : PTid) (k : Client) (hpc : (c.pth T).pc = .finLock k) : CK c (finPrefix c T k) := by
  have h1 : CK c { c with pth := upd c.pth T { (c.pth T) with pc := .idle } } := ck_pth T _ (fun h => by rw [hpc] at h; cases h)
  refine h1.trans ?_
  unfold finPrefix
  have h2 : CK { c with pth := upd c.pth T { (c.pth T) with pc := .idle } } (handBack { c with pth := upd c.pth T { (c.pth T) with pc := .idle } } k) := by
    unfold handBack; split <;> (try split) <;> exact CK.of_eq rfl rfl rfl rfl
  refine h2.trans ?_
  unfold release
  split
  · intro e hc T' hT'
    rcases hc T' hT' with h1 | h1 | h1 | h1
    · exact Or.inl h1
    · right; left; simp [h1]
    · by_cases he : T' = T
      · right; left; simp [he]
      · right; right; left; simp [mem_remKey, h1, he]
    · exact Or.inr (Or.inr (Or.inr h1))
  · exact CK.refl _

theorem ck_stepPool {c c' : Cfg} {T : PTid} {o} (hs : stepPool c T = some (c', o)) : CK c c' := by
  unfold stepPool at hs
  simp only at hs
  split at hs
  · simp at hs
  · simp at hs
  · rename_i hpc
    simp only [Option.some.injEq] at hs; have : c' = (fetch c T).1 := by rw [hs]
    rw [this]; exact ck_fetch c T (by rw [hpc]; simp)
  · rename_i hpc
    split at hs
    · simp at hs
    · simp only [Option.some.injEq] at hs; have : c' = (fetch c T).1 := by rw [hs]
      rw [this]; exact ck_fetch c T (by rw [hpc]; simp)
  · rename_i hpc
    split at hs
    · simp only [Option.some.injEq, Prod.mk.injEq] at hs; obtain ⟨rfl, _⟩ := hs
      exact (ck_pth T _ (fun h => by rw [hpc] at h; cases h)).trans (CK.of_eq rfl rfl rfl rfl)
    · simp only [Option.some.injEq, Prod.mk.injEq] at hs; obtain ⟨rfl, _⟩ := hs
      exact (ck_pth T _ (fun h => by rw [hpc] at h; cases h)).trans (CK.of_eq rfl rfl rfl rfl)
    · simp at hs
  · rename_i k hpc
    simp only [Option.some.injEq] at hs
    have : c' = (fetch (finishCS { c with pth := upd c.pth T { (c.pth T) with pc := .idle } } T k) T).1 := by rw [hs]
    rw [this]
    have hset : CK c { c with pth := upd c.pth T { (c.pth T) with pc := .idle } } := ck_pth T _ (fun h => by rw [hpc] at h; cases h)
    cases hsh : c.p.shut with
    | true =>
      have he : finishCS { c with pth := upd c.pth T { (c.pth T) with pc := .idle } } T k = { c with pth := upd c.pth T { (c.pth T) with pc := .idle } } := by
        simp [finishCS, hsh]
      rw [he]
      exact hset.trans (ck_fetch _ T (by simp [upd]))
    | false =>
      rw [finishCS_eq c T k hsh]
      have wf := wake_fields (dispatch (finPrefix c T k)) k
      have h1 := (ck_finPrefix c T k hpc).trans (ck_dispatch _)
      have h2 : CK (dispatch (finPrefix c T k)) (wake (dispatch (finPrefix c T k)) k) :=
        CK.of_eq wf.1 wf.2.2.2.2.2.2.2.2 wf.2.2.2.2.2.1 wf.2.2.2.2.2.2.1
      refine (h1.trans h2).trans (ck_fetch _ T ?_)
      rw [wf.1]
      have hf := finPrefix_fields c T k
      exact dispatch_not_exited _ T (by rw [hf.2.1]; simp)

/-! ## user steps -/

theorem stepUser_others {c c' : Cfg} {t : Tid} {o} (hs : stepUser c t = some (c', o)) :
    ∀ t', t' ≠ t → (c'.uth t').pc = (c.uth t').pc ∧ (c'.uth t').prog = (c.uth t').prog := by
  intro t' ht'
  unfold stepUser at hs
  simp only at hs
  split at hs
  · simp at hs
  · split at hs
    · simp at hs
    all_goals first
      | (split at hs <;> (simp only [Option.some.injEq, Prod.mk.injEq] at hs; obtain ⟨rfl, _⟩ := hs; simp [upd, ht']))
      | (simp only [Option.some.injEq, Prod.mk.injEq] at hs; obtain ⟨rfl, _⟩ := hs; simp [upd, ht'])
  · simp only [Option.some.injEq, Prod.mk.injEq] at hs; obtain ⟨rfl, _⟩ := hs
    simp [upd, ht', (subCS_uth c _ _).1]
  · simp only [Option.some.injEq, Prod.mk.injEq] at hs; obtain ⟨rfl, _⟩ := hs; simp [upd, ht']
  · split at hs <;> (simp only [Option.some.injEq, Prod.mk.injEq] at hs; obtain ⟨rfl, _⟩ := hs; simp [upd, ht'])
  · split at hs
    · simp only [Option.some.injEq, Prod.mk.injEq] at hs; obtain ⟨rfl, _⟩ := hs; simp [upd, ht']
    · simp at hs
  · simp only [Option.some.injEq, Prod.mk.injEq] at hs; obtain ⟨rfl, _⟩ := hs; simp [upd, ht']
  · simp only [Option.some.injEq, Prod.mk.injEq] at hs; obtain ⟨rfl, _⟩ := hs; simp [upd, ht']
  · split at hs <;> (simp only [Option.some.injEq, Prod.mk.injEq] at hs; obtain ⟨rfl, _⟩ := hs
                     rw [(sdNext_user _ _ _ _ _ _ _).1 t' ht']; exact ⟨rfl, rfl⟩)
  · split at hs
    · simp only [Option.some.injEq, Prod.mk.injEq] at hs; obtain ⟨rfl, _⟩ := hs
      rw [(sdNext_user _ _ _ _ _ _ _).1 t' ht']; exact ⟨rfl, rfl⟩
    · simp at hs
  · simp only [Option.some.injEq, Prod.mk.injEq] at hs; obtain ⟨rfl, _⟩ := hs
    have hn := notifyAll_spec c.p.waitK c.p.waitT c.uth t'
    simp only [upd, if_neg ht']; exact ⟨hn.1, hn.2.1⟩

/-- at the first lock of `Shutdown` or inside it -/
def isSdPc : UPc → Bool
  | .sdLock => true
  | .sdSwap .. | .sdJoin .. | .sdFinal .. => true
  | _ => false

/-- a step that is not part of `Shutdown` -/
theorem stepUser_plain {c c' : Cfg} {t : Tid} {o} (hs : stepUser c t = some (c', o)) (hpl : isSdPc (c.uth t).pc = false) :
    inShutdown (c'.uth t).pc = false ∧ CK c c' ∧
    (c.p.shut = true → c'.pth = c.pth ∧ c'.p.availR = c.p.availR ∧ c'.p.active = c.p.active ∧ c'.p.idc = c.p.idc) := by
  have hadv := advance_spec (c.uth t)
  have hadvj : inShutdown (advance (c.uth t)).pc = false := by rcases hadv.1 with h | h <;> rw [h] <;> rfl
  unfold stepUser at hs
  simp only at hs
  split at hs
  · simp at hs
  · split at hs
    · simp at hs
    all_goals first
      | (split at hs <;> (simp only [Option.some.injEq, Prod.mk.injEq] at hs; obtain ⟨rfl, _⟩ := hs
                          exact ⟨by first | simpa [upd] using hadvj | simp [upd, inShutdown], CK.of_eq rfl rfl rfl rfl, fun _ => ⟨rfl, rfl, rfl, rfl⟩⟩))
      | (simp only [Option.some.injEq, Prod.mk.injEq] at hs; obtain ⟨rfl, _⟩ := hs
         exact ⟨by simp [upd, inShutdown], CK.of_eq rfl rfl rfl rfl, fun _ => ⟨rfl, rfl, rfl, rfl⟩⟩)
  · simp only [Option.some.injEq, Prod.mk.injEq] at hs; obtain ⟨rfl, _⟩ := hs
    refine ⟨by simpa [upd] using hadvj, (ck_subCS c _ _).trans (CK.of_eq rfl rfl rfl rfl), fun hsh => ?_⟩
    obtain ⟨s1, s2, s3, s4, s5, s6⟩ := subCS_shut c _ _ hsh
    exact ⟨s1, s2, s3, s4⟩
  · simp only [Option.some.injEq, Prod.mk.injEq] at hs; obtain ⟨rfl, _⟩ := hs
    exact ⟨by simpa [upd] using hadvj, CK.of_eq rfl rfl rfl rfl, fun _ => ⟨rfl, rfl, rfl, rfl⟩⟩
  · split at hs <;> (simp only [Option.some.injEq, Prod.mk.injEq] at hs; obtain ⟨rfl, _⟩ := hs
                     exact ⟨by simp [upd, inShutdown], CK.of_eq rfl rfl rfl rfl, fun _ => ⟨rfl, rfl, rfl, rfl⟩⟩)
  · split at hs
    · simp only [Option.some.injEq, Prod.mk.injEq] at hs; obtain ⟨rfl, _⟩ := hs
      exact ⟨by simp [upd, inShutdown], CK.of_eq rfl rfl rfl rfl, fun _ => ⟨rfl, rfl, rfl, rfl⟩⟩
    · simp at hs
  · simp only [Option.some.injEq, Prod.mk.injEq] at hs; obtain ⟨rfl, _⟩ := hs
    exact ⟨by simpa [upd] using hadvj, CK.of_eq rfl rfl rfl rfl, fun _ => ⟨rfl, rfl, rfl, rfl⟩⟩
  all_goals (rename_i hpc; rw [hpc] at hpl; simp [isSdPc] at hpl)

/-! ## the cover invariant -/

structure CVI (c : Cfg) : Prop where
  so : ∀ t t', Op.shutdown ∈ (c.uth t).prog → Op.shutdown ∈ (c.uth t').prog → t = t'
  sdin : ∀ t, inShutdown (c.uth t).pc = true → Op.shutdown ∈ (c.uth t).prog
  cv0 : (∀ t, inShutdown (c.uth t).pc = false) → Cov c []
  cv1 : ∀ t b nA tot, (c.uth t).pc = .sdSwap b nA tot → Cov c [] ∧ (b = true → c.p.availR = [])
  cv2 : ∀ t b nA tot n T rest, (c.uth t).pc = .sdJoin b nA tot n T rest → Cov c (T :: rest) ∧ c.p.availR = [] ∧ (b = true → c.p.active = [])
  cv3 : ∀ t tot, (c.uth t).pc = .sdFinal tot → ∀ T, T < c.p.idc → (c.pth T).pc = .exited

theorem isSd_of_in {pc : UPc} (h : inShutdown pc = true) : isSdPc pc = true := by
  cases pc <;> simp_all [inShutdown, isSdPc]

theorem only_one {c : Cfg} (h : CVI c) (hu : InvU c) {t t' : Tid} (ht : isSdPc (c.uth t).pc = true) (ht' : isSdPc (c.uth t').pc = true) : t = t' := by
  have key : ∀ x, isSdPc (c.uth x).pc = true → Op.shutdown ∈ (c.uth x).prog := by
    intro x hx
    cases hpc : (c.uth x).pc with
    | sdLock => exact hu.sdl x hpc
    | sdSwap b nA tot => exact h.sdin x (by rw [hpc]; rfl)
    | sdJoin b nA tot n T r => exact h.sdin x (by rw [hpc]; rfl)
    | sdFinal tot => exact h.sdin x (by rw [hpc]; rfl)
    | _ => rw [hpc] at hx; simp [isSdPc] at hx
  exact h.so t t' (key t ht) (key t' ht')

theorem cvi_stepPool {c c' : Cfg} {T0 : PTid} {o} (h : CVI c) (h1 : Inv1 c) (hs : stepPool c T0 = some (c', o)) : CVI c' := by
  have hv := stepPool_userView hs
  have hck := ck_stepPool hs
  have hpcs : ∀ t, (c'.uth t).pc = (c.uth t).pc ∧ (c'.uth t).prog = (c.uth t).prog := by
    intro t
    obtain ⟨_, _, _, _, v5⟩ := hv
    rcases v5 with ⟨e1, _⟩ | ⟨k, _, e1, _⟩
    · rw [e1]; exact ⟨rfl, rfl⟩
    · rw [e1]; simp only [upd]; split
      · rename_i he; rw [he]; exact ⟨rfl, rfl⟩
      · exact ⟨rfl, rfl⟩
  have hshut : ∀ t, inShutdown (c.uth t).pc = true → c'.p = c.p ∧ (∀ T, T < c.p.idc → (c.pth T).pc = .exited → (c'.pth T).pc = .exited) := by
    intro t ht
    have hsh := h1.sdShut t ht
    obtain ⟨a1, a2, a3, a4, a5⟩ := pool_step_rank hsh hs
    refine ⟨a3, fun T _ hT => ?_⟩
    by_cases he : T = T0
    · subst he
      unfold stepPool at hs; simp only [hT] at hs; cases hs
    · rw [a4 T he]; exact hT
  obtain ⟨g1, g2, g3, g4, g5, g6⟩ := h
  constructor
  · intro t t' a b; rw [(hpcs t).2] at a; rw [(hpcs t').2] at b; exact g1 t t' a b
  · intro t a; rw [(hpcs t).1] at a; rw [(hpcs t).2]; exact g2 t a
  · intro a; exact hck [] (g3 (fun t => by rw [← (hpcs t).1]; exact a t))
  · intro t b nA tot hp
    rw [(hpcs t).1] at hp
    obtain ⟨x1, x2⟩ := g4 t b nA tot hp
    have := (hshut t (by rw [hp]; rfl)).1
    exact ⟨hck [] x1, by rw [this]; exact x2⟩
  · intro t b nA tot n T rest hp
    rw [(hpcs t).1] at hp
    obtain ⟨x1, x2, x3⟩ := g5 t b nA tot n T rest hp
    have := (hshut t (by rw [hp]; rfl)).1
    exact ⟨hck _ x1, by rw [this]; exact x2, by rw [this]; exact x3⟩
  · intro t tot hp T hT
    rw [(hpcs t).1] at hp
    obtain ⟨x1, x2⟩ := hshut t (by rw [hp]; rfl)
    rw [x1] at hT
    exact x2 T hT (g6 t tot hp T hT)

/-- the new pc of the thread inside `Shutdown` after `sdNext`, with the cover it needs -/
theorem cvi_sdNext {c1 : Cfg} (t : Tid) (b : Bool) (nA tot n : Nat) (l : List PTid)
    (hcov : Cov c1 l) (ha : c1.p.availR = []) (hb : b = true → c1.p.active = []) :
    (∀ b' nA' tot', ((sdNext c1 t b nA tot n l).uth t).pc = .sdSwap b' nA' tot' → Cov (sdNext c1 t b nA tot n l) [] ∧ (b' = true → (sdNext c1 t b nA tot n l).p.availR = [])) ∧
    (∀ b' nA' tot' n' T rest, ((sdNext c1 t b nA tot n l).uth t).pc = .sdJoin b' nA' tot' n' T rest →
        Cov (sdNext c1 t b nA tot n l) (T :: rest) ∧ (sdNext c1 t b nA tot n l).p.availR = [] ∧ (b' = true → (sdNext c1 t b nA tot n l).p.active = [])) ∧
    (∀ tot', ((sdNext c1 t b nA tot n l).uth t).pc = .sdFinal tot' → ∀ T, T < (sdNext c1 t b nA tot n l).p.idc → ((sdNext c1 t b nA tot n l).pth T).pc = .exited) := by
  have hall : l = [] → (b = true → ∀ T, T < c1.p.idc → (c1.pth T).pc = .exited) := by
    intro hl hbt T hT
    have := hcov T hT
    rw [hl, ha, hb hbt] at this
    simpa using this
  unfold sdNext
  split
  · rename_i T rest
    have hcov2 : Cov { c1 with pth := upd c1.pth T { (c1.pth T) with inbox := (c1.pth T).inbox ++ [.quit] },
                               uth := upd c1.uth t { (c1.uth t) with pc := .sdJoin b nA tot n T rest } } (T :: rest) := by
      intro T' hT'
      have := hcov T' hT'
      simp only [upd]
      split
      · rename_i he; subst he; exact this
      · exact this
    refine ⟨?_, ?_, ?_⟩
    · intro b' nA' tot' hp; simp [upd] at hp
    · intro b' nA' tot' n' T' rest' hp
      simp only [upd, if_true] at hp
      cases hp
      exact ⟨hcov2, ha, hb⟩
    · intro tot' hp; simp [upd] at hp
  · have hcov0 : ∀ pc', Cov { c1 with uth := upd c1.uth t { (c1.uth t) with pc := pc' } } [] := fun _ => hcov
    split
    · refine ⟨?_, ?_, ?_⟩
      · intro b' nA' tot' hp; exact ⟨hcov0 _, fun _ => ha⟩
      · intro b' nA' tot' n' T' rest' hp; simp [upd] at hp
      · intro tot' hp; simp [upd] at hp
    · rename_i hbf
      have hbt : b = true := by cases b <;> simp_all
      split
      · refine ⟨?_, ?_, ?_⟩
        · intro b' nA' tot' hp; exact ⟨hcov0 _, fun _ => ha⟩
        · intro b' nA' tot' n' T' rest' hp; simp [upd] at hp
        · intro tot' hp; simp [upd] at hp
      · refine ⟨?_, ?_, ?_⟩
        · intro b' nA' tot' hp; simp [upd] at hp
        · intro b' nA' tot' n' T' rest' hp; simp [upd] at hp
        · intro tot' _ T hT; exact hall rfl hbt T hT

theorem not_in_of_not_sd {pc : UPc} (h : isSdPc pc = false) : inShutdown pc = false := by
  cases hi : inShutdown pc with
  | false => rfl
  | true => rw [isSd_of_in hi] at h; cases h

theorem cvi_stepUser {c c' : Cfg} {t : Tid} {o} (h : CVI c) (h1 : Inv1 c) (hu : InvU c) (hs : stepUser c t = some (c', o)) : CVI c' := by
  have hoth := stepUser_others hs
  have hsub := stepUser_progSub hs
  have hso : ∀ a b, Op.shutdown ∈ (c'.uth a).prog → Op.shutdown ∈ (c'.uth b).prog → a = b :=
    fun a b ha hb => h.so a b (hsub a _ ha) (hsub b _ hb)
  cases hsd : isSdPc (c.uth t).pc with
  | false =>
    obtain ⟨p1, p2, p3⟩ := stepUser_plain hs hsd
    have hpcOf : ∀ t'', inShutdown (c'.uth t'').pc = true → t'' ≠ t ∧ (c'.uth t'').pc = (c.uth t'').pc ∧ (c'.uth t'').prog = (c.uth t'').prog := by
      intro t'' hi
      have hne : t'' ≠ t := by intro he; subst he; rw [p1] at hi; cases hi
      exact ⟨hne, hoth t'' hne⟩
    have hfix : ∀ t'', inShutdown (c'.uth t'').pc = true → c'.pth = c.pth ∧ c'.p.availR = c.p.availR ∧ c'.p.active = c.p.active ∧ c'.p.idc = c.p.idc := by
      intro t'' hi
      obtain ⟨_, e1, _⟩ := hpcOf t'' hi
      exact p3 (h1.sdShut t'' (by rw [← e1]; exact hi))
    constructor
    · exact hso
    · intro t'' hi
      obtain ⟨_, e1, e2⟩ := hpcOf t'' hi
      rw [e2]; exact h.sdin t'' (by rw [← e1]; exact hi)
    · intro hall
      refine p2 [] (h.cv0 (fun t'' => ?_))
      by_cases he : t'' = t
      · subst he; exact not_in_of_not_sd hsd
      · rw [← (hoth t'' he).1]; exact hall t''
    · intro t'' b nA tot hp
      have hi : inShutdown (c'.uth t'').pc = true := by rw [hp]; rfl
      obtain ⟨_, e1, _⟩ := hpcOf t'' hi
      obtain ⟨f1, f2, f3, f4⟩ := hfix t'' hi
      obtain ⟨x1, x2⟩ := h.cv1 t'' b nA tot (by rw [← e1]; exact hp)
      exact ⟨p2 [] x1, by rw [f2]; exact x2⟩
    · intro t'' b nA tot n T rest hp
      have hi : inShutdown (c'.uth t'').pc = true := by rw [hp]; rfl
      obtain ⟨_, e1, _⟩ := hpcOf t'' hi
      obtain ⟨f1, f2, f3, f4⟩ := hfix t'' hi
      obtain ⟨x1, x2, x3⟩ := h.cv2 t'' b nA tot n T rest (by rw [← e1]; exact hp)
      exact ⟨p2 _ x1, by rw [f2]; exact x2, by rw [f3]; exact x3⟩
    · intro t'' tot hp T hT
      have hi : inShutdown (c'.uth t'').pc = true := by rw [hp]; rfl
      obtain ⟨_, e1, _⟩ := hpcOf t'' hi
      obtain ⟨f1, f2, f3, f4⟩ := hfix t'' hi
      rw [f1]; rw [f4] at hT
      exact h.cv3 t'' tot (by rw [← e1]; exact hp) T hT
  | true =>
    -- t is THE thread that calls Shutdown: nobody else is at or inside it
    have hx : ∀ t'', t'' ≠ t → isSdPc (c.uth t'').pc = false := by
      intro t'' hne
      cases hq : isSdPc (c.uth t'').pc with
      | false => rfl
      | true => exact absurd (only_one h hu hq hsd) hne
    have hx' : ∀ t'', t'' ≠ t → inShutdown (c'.uth t'').pc = false := fun t'' hne => by
      rw [(hoth t'' hne).1]; exact not_in_of_not_sd (hx t'' hne)
    have hprog : inShutdown (c'.uth t).pc = true → Op.shutdown ∈ (c'.uth t).prog → True := fun _ _ => trivial
    -- whatever t's new pc is, the clauses about other threads are vacuous
    have others1 : ∀ t'' b nA tot, (c'.uth t'').pc = .sdSwap b nA tot → t'' = t := by
      intro t'' b nA tot hp
      by_cases he : t'' = t
      · exact he
      · have := hx' t'' he; rw [hp] at this; simp [inShutdown] at this
    have others2 : ∀ t'' b nA tot n T rest, (c'.uth t'').pc = .sdJoin b nA tot n T rest → t'' = t := by
      intro t'' b nA tot n T rest hp
      by_cases he : t'' = t
      · exact he
      · have := hx' t'' he; rw [hp] at this; simp [inShutdown] at this
    have others3 : ∀ t'' tot, (c'.uth t'').pc = .sdFinal tot → t'' = t := by
      intro t'' tot hp
      by_cases he : t'' = t
      · exact he
      · have := hx' t'' he; rw [hp] at this; simp [inShutdown] at this
    have hsdin : (inShutdown (c'.uth t).pc = true → Op.shutdown ∈ (c'.uth t).prog) → ∀ t'', inShutdown (c'.uth t'').pc = true → Op.shutdown ∈ (c'.uth t'').prog := by
      intro hme t'' hi
      by_cases he : t'' = t
      · subst he; exact hme hi
      · rw [hx' t'' he] at hi; cases hi
    have hnone : ∀ t'', inShutdown (c.uth t'').pc = false ∨ t'' = t := fun t'' => by
      by_cases he : t'' = t
      · exact Or.inr he
      · exact Or.inl (not_in_of_not_sd (hx t'' he))
    unfold stepUser at hs
    simp only at hs
    split at hs
    · simp at hs
    · rename_i hpc; rw [hpc] at hsd; simp [isSdPc] at hsd
    · rename_i hpc; rw [hpc] at hsd; simp [isSdPc] at hsd
    · rename_i hpc; rw [hpc] at hsd; simp [isSdPc] at hsd
    · rename_i hpc; rw [hpc] at hsd; simp [isSdPc] at hsd
    · rename_i hpc; rw [hpc] at hsd; simp [isSdPc] at hsd
    · rename_i hpc; rw [hpc] at hsd; simp [isSdPc] at hsd
    · -- sdLock
      rename_i hpc
      simp only [Option.some.injEq, Prod.mk.injEq] at hs; obtain ⟨rfl, _⟩ := hs
      have hc0 : Cov c [] := h.cv0 (fun t'' => by
        rcases hnone t'' with h' | h'
        · exact h'
        · subst h'; rw [hpc]; rfl)
      have hsdl := hu.sdl t hpc
      constructor
      · exact hso
      · exact hsdin (fun _ => by simpa [upd] using hsdl)
      · intro hall; have := hall t; simp [upd, inShutdown] at this
      · intro t'' b nA tot hp
        have := others1 t'' b nA tot hp; subst this
        simp only [upd, if_true] at hp; cases hp
        exact ⟨hc0, fun hb => by cases hb⟩
      · intro t'' b nA tot n T rest hp
        have := others2 t'' b nA tot n T rest hp; subst this
        simp [upd] at hp
      · intro t'' tot hp
        have := others3 t'' tot hp; subst this
        simp [upd] at hp
    · -- sdSwap
      rename_i b nA tot hpc
      obtain ⟨x1, x2⟩ := h.cv1 t b nA tot hpc
      have hsdi := h.sdin t (by rw [hpc]; rfl)
      split at hs
      · rename_i hb
        simp only [Option.some.injEq, Prod.mk.injEq] at hs; obtain ⟨rfl, _⟩ := hs
        have hav := x2 hb
        have hcov1 : Cov { c with p := { c.p with active := [] } } c.p.active := by
          intro T hT
          rcases x1 T hT with a | a | a | a
          · exact Or.inl a
          · rw [hav] at a; simp at a
          · exact Or.inr (Or.inr (Or.inr a))
          · simp at a
        obtain ⟨k1, k2, k3⟩ := cvi_sdNext (c1 := { c with p := { c.p with active := [] } }) t true nA tot c.p.active.length c.p.active hcov1 hav (fun _ => rfl)
        obtain ⟨e1, e2, e3, e4, e5⟩ := sdNext_user { c with p := { c.p with active := [] } } t true nA tot c.p.active.length c.p.active
        constructor
        · exact hso
        · exact hsdin (fun _ => by rw [e3]; exact hsdi)
        · intro hall; have := hall t; rw [e2] at this; cases this
        · intro t'' b' nA' tot' hp; have := others1 t'' b' nA' tot' hp; subst this; exact k1 b' nA' tot' hp
        · intro t'' b' nA' tot' n' T rest hp; have := others2 t'' b' nA' tot' n' T rest hp; subst this; exact k2 b' nA' tot' n' T rest hp
        · intro t'' tot' hp; have := others3 t'' tot' hp; subst this; exact k3 tot' hp
      · simp only [Option.some.injEq, Prod.mk.injEq] at hs; obtain ⟨rfl, _⟩ := hs
        have hcov1 : Cov { c with p := { c.p with availR := [] } } c.p.availR.reverse := by
          intro T hT
          rcases x1 T hT with a | a | a | a
          · exact Or.inl a
          · exact Or.inr (Or.inr (Or.inr (by simpa using a)))
          · exact Or.inr (Or.inr (Or.inl a))
          · simp at a
        obtain ⟨k1, k2, k3⟩ := cvi_sdNext (c1 := { c with p := { c.p with availR := [] } }) t false nA tot c.p.availR.length c.p.availR.reverse hcov1 rfl (fun hb => by cases hb)
        obtain ⟨e1, e2, e3, e4, e5⟩ := sdNext_user { c with p := { c.p with availR := [] } } t false nA tot c.p.availR.length c.p.availR.reverse
        constructor
        · exact hso
        · exact hsdin (fun _ => by rw [e3]; exact hsdi)
        · intro hall; have := hall t; rw [e2] at this; cases this
        · intro t'' b' nA' tot' hp; have := others1 t'' b' nA' tot' hp; subst this; exact k1 b' nA' tot' hp
        · intro t'' b' nA' tot' n' T rest hp; have := others2 t'' b' nA' tot' n' T rest hp; subst this; exact k2 b' nA' tot' n' T rest hp
        · intro t'' tot' hp; have := others3 t'' tot' hp; subst this; exact k3 tot' hp
    · -- sdJoin
      rename_i b nA tot n T r hpc
      obtain ⟨x1, x2, x3⟩ := h.cv2 t b nA tot n T r hpc
      have hsdi := h.sdin t (by rw [hpc]; rfl)
      split at hs
      · rename_i hex
        simp only [Option.some.injEq, Prod.mk.injEq] at hs; obtain ⟨rfl, _⟩ := hs
        have hcov1 : Cov c r := by
          intro T' hT'
          rcases x1 T' hT' with a | a | a | a
          · exact Or.inl a
          · exact Or.inr (Or.inl a)
          · exact Or.inr (Or.inr (Or.inl a))
          · simp only [List.mem_cons] at a
            rcases a with a | a
            · subst a; exact Or.inl hex
            · exact Or.inr (Or.inr (Or.inr a))
        obtain ⟨k1, k2, k3⟩ := cvi_sdNext (c1 := c) t b nA tot n r hcov1 x2 x3
        obtain ⟨e1, e2, e3, e4, e5⟩ := sdNext_user c t b nA tot n r
        constructor
        · exact hso
        · exact hsdin (fun _ => by rw [e3]; exact hsdi)
        · intro hall; have := hall t; rw [e2] at this; cases this
        · intro t'' b' nA' tot' hp; have := others1 t'' b' nA' tot' hp; subst this; exact k1 b' nA' tot' hp
        · intro t'' b' nA' tot' n' T' rest hp; have := others2 t'' b' nA' tot' n' T' rest hp; subst this; exact k2 b' nA' tot' n' T' rest hp
        · intro t'' tot' hp; have := others3 t'' tot' hp; subst this; exact k3 tot' hp
      · simp at hs
    · -- sdFinal
      rename_i tot hpc
      have hall := h.cv3 t tot hpc
      simp only [Option.some.injEq, Prod.mk.injEq] at hs; obtain ⟨rfl, _⟩ := hs
      have ha := advance_spec (notifyAll c.p.waitK c.p.waitT c.uth t)
      have hnew : inShutdown (advance (notifyAll c.p.waitK c.p.waitT c.uth t)).pc = false := by
        rcases ha.1 with h' | h' <;> rw [h'] <;> rfl
      constructor
      · exact hso
      · exact hsdin (fun hi => by simp only [upd, if_true] at hi; rw [hnew] at hi; cases hi)
      · intro _ T hT; exact Or.inl (hall T hT)
      · intro t'' b' nA' tot' hp; have := others1 t'' b' nA' tot' hp; subst this
        simp only [upd, if_true] at hp; rw [hp] at hnew; simp [inShutdown] at hnew
      · intro t'' b' nA' tot' n' T' rest hp; have := others2 t'' b' nA' tot' n' T' rest hp; subst this
        simp only [upd, if_true] at hp; rw [hp] at hnew; simp [inShutdown] at hnew
      · intro t'' tot' hp; have := others3 t'' tot' hp; subst this
        simp only [upd, if_true] at hp; rw [hp] at hnew; simp [inShutdown] at hnew

/-- `Shutdown` is called by one thread only -/
def OneShutdownThread (progs : List (List Op)) : Prop :=
  ∀ t t', Op.shutdown ∈ progs.getD t [] → Op.shutdown ∈ progs.getD t' [] → t = t'

theorem cvi_init (maxT : Nat) (regs : List Client) (progs : List (List Op)) (h1 : OneShutdownThread progs) : CVI (Cfg.init maxT regs progs) := by
  have hu := init_uth_prog maxT regs progs
  constructor
  · intro t t' a b; rw [(hu t).1] at a; rw [(hu t').1] at b; exact h1 t t' a b
  · intro t h; rcases (hu t).2.2 with h' | h' <;> (rw [h'] at h; cases h)
  · intro _ T hT; simp [Cfg.init, Pool.init] at hT
  · intro t b nA tot h; rcases (hu t).2.2 with h' | h' <;> (rw [h'] at h; cases h)
  · intro t b nA tot n T rest h; rcases (hu t).2.2 with h' | h' <;> (rw [h'] at h; cases h)
  · intro t tot h; rcases (hu t).2.2 with h' | h' <;> (rw [h'] at h; cases h)

structure InvX (c : Cfg) : Prop where
  live : InvLive c
  cvi : CVI c

theorem invX_step {c c' : Cfg} {e : Ev} {o} (h : InvX c) (hs : step c e = some (c', o)) : InvX c' := by
  refine ⟨invLive_step h.live hs, ?_⟩
  cases e with
  | timeout t => simp [step] at hs
  | run i =>
    simp only [step] at hs
    split at hs
    · exact cvi_stepUser h.cvi h.live.all.inv.i1 h.live.u hs
    · exact cvi_stepPool h.cvi h.live.all.inv.i1 hs

theorem reach_invX {maxT regs progs c} (hd : Disciplined progs) (hn : NoRegIfShutdown progs) (h1 : OneShutdownThread progs)
    (h : machine.Reach (Cfg.init maxT regs progs) c) : InvX c :=
  Machine.Reach.invariant machine InvX ⟨invLive_init maxT regs progs hd hn, cvi_init maxT regs progs h1⟩
    (fun _ _ _ _ hi hs => invX_step hi hs) h

end Muscle.Conc.TP
