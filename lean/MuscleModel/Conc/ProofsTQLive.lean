import MuscleModel.Conc.ProofsTQInv

/-! # C11 lemmas, part 3: which steps are enabled; no deadlock; shutdown is never stuck -/

namespace Muscle.Conc.TQ
open Muscle.Conc

/-- the owner's blocking point can be left right now -/
def WakeableO (s : Sh) : Prop := s.co.sig > 0 ∨ (s.mode = .sock ∧ s.closedO = true)

/-- a user thread whose step is not enabled is finished, or waits for the reply-queue lock held by the internal thread, or
is blocked in its wait with nothing to wake it, or joins a live internal thread -/
theorem stepUser_none {c : Cfg} {t : Tid} (h : stepUser c t = none) :
    (c.th t).pc = .done ∨ (∃ w, (c.th t).pc = .recvLock w ∧ c.ipc = .entrySig) ∨
    (∃ w, (c.th t).pc = .recvWait w ∧ ¬ WakeableO c.sh) ∨
    (∃ b, (c.th t).pc = .join b ∧ c.sh.running = true ∧ c.ipc ≠ .exited) := by
  unfold stepUser at h
  simp only at h
  split at h
  · left; assumption
  · exfalso; repeat' split at h
    all_goals simp at h
  · exfalso; repeat' split at h
    all_goals simp at h
  · simp at h
  · simp at h
  · rename_i w hpc
    right; left
    refine ⟨w, hpc, ?_⟩
    repeat' split at h
    all_goals first | assumption | simp at h
  · rename_i w hpc
    right; right; left
    refine ⟨w, hpc, ?_⟩
    unfold WakeableO
    repeat' split at h
    all_goals first | (simp at h; done) | skip
    all_goals (rename_i hm hn; simp_all)
  · rename_i b hpc
    right; right; right
    refine ⟨b, hpc, ?_⟩
    repeat' split at h
    all_goals first | (simp at h; done) | skip
    all_goals simp_all

theorem stepInt_none {c : Cfg} (h : stepInt c = none) : c.ipc = .exited ∨ (c.ipc = .recvWait ∧ c.sh.ci.sig = 0) := by
  unfold stepInt at h
  simp only at h
  split at h
  · left; assumption
  all_goals first
    | (exfalso; repeat' split at h
       all_goals simp at h
       done)
    | skip
  · rename_i hpc
    right
    refine ⟨hpc, ?_⟩
    repeat' split at h
    all_goals first | (simp at h; done) | skip
    all_goals omega

/-- nothing can happen any more -/
def Quiescent (c : Cfg) : Prop := ∀ e, step c e = none

theorem quiescent_user {c : Cfg} (hq : Quiescent c) {t : Tid} (ht : t < c.n) : stepUser c t = none := by
  have := hq (.run t); simpa [step, ht] using this

theorem quiescent_int {c : Cfg} (hq : Quiescent c) (hg : c.sh.gen > 0) : stepInt c = none := by
  have := hq (.run c.intTid)
  have h1 : ¬ c.intTid < c.n := by
    have : c.n ≤ c.n + c.sh.gen - 1 := by omega
    exact Nat.not_lt.mpr this
  simpa [step, h1, hg] using this

/-- **No deadlock other than waiting for Messages nobody sends.**  In a reachable configuration where nothing can run,
the internal thread (if alive) waits on an EMPTY queue, and every unfinished user thread is the owner, who waits on an
EMPTY reply queue or joins an internal thread that waits on an empty queue. -/
theorem quiescent_shape {c : Cfg} (hi : Inv c) (hq : Quiescent c) :
    (c.ipc ≠ .exited → c.ipc = .recvWait ∧ c.sh.ci.queue = []) ∧
    (∀ t, (c.th t).pc ≠ .done → t = 0 ∧
      ((∃ w, (c.th 0).pc = .recvWait w ∧ c.sh.co.queue = []) ∨
       (∃ b, (c.th 0).pc = .join b ∧ c.ipc = .recvWait ∧ c.sh.ci.queue = []))) := by
  have hint : c.ipc ≠ .exited → c.ipc = .recvWait ∧ c.sh.ci.queue = [] := by
    intro hlive
    have hg := (hi.alive hlive).2.1
    rcases stepInt_none (quiescent_int hq hg) with h | ⟨hw, hsig⟩
    · exact absurd h hlive
    · refine ⟨hw, ?_⟩
      apply Classical.byContradiction
      intro hne
      rcases hi.wakeI hw hne with h | ⟨u, hu⟩
      · omega
      · have hun : u < c.n := by
          apply Classical.byContradiction
          intro h
          have := hi.outside u (Nat.le_of_not_lt h)
          simp [this, isSigPc] at hu
        rcases stepUser_none (quiescent_user hq hun) with h | ⟨w, h, _⟩ | ⟨w, h, _⟩ | ⟨b, h, _⟩ <;> simp [h, isSigPc] at hu
  refine ⟨hint, ?_⟩
  intro t hnd
  have htn : t < c.n := by
    apply Classical.byContradiction
    intro h
    exact hnd (hi.outside t (Nat.le_of_not_lt h))
  have ht0 : ∀ pc, (c.th t).pc = pc → pc ≠ .done → (∀ m, pc ≠ .sendLock (some m) false) → pc ≠ .sendSig false → t = 0 := by
    intro pc hpc h1 h2 h3
    apply Classical.byContradiction
    intro ht
    rcases (hi.senders t ht).2 with h | ⟨m, h⟩ | h
    · exact h1 (by rw [← hpc, h])
    · exact h2 m (by rw [← hpc, h])
    · exact h3 (by rw [← hpc, h])
  rcases stepUser_none (quiescent_user hq htn) with h | ⟨w, h, hip⟩ | ⟨w, h, hnw⟩ | ⟨b, h, hr, hlive⟩
  · exact absurd h hnd
  · have := (hint (by simp [hip])).1
    simp [hip] at this
  · have h0 := ht0 _ h (by simp) (by simp) (by simp)
    subst h0
    refine ⟨rfl, Or.inl ⟨w, h, ?_⟩⟩
    apply Classical.byContradiction
    intro hne
    rcases hi.wakeO w h hne with hs | hs | hs
    · exact hnw (Or.inl hs)
    · exact hnw (Or.inr hs)
    · have hlive : c.ipc ≠ .exited := by rcases hs with hs | ⟨_, _, _, hs⟩ <;> simp [hs]
      have := (hint hlive).1
      rcases hs with hs | ⟨_, _, _, hs⟩ <;> simp [hs] at this
  · have h0 := ht0 _ h (by simp) (by simp) (by simp)
    subst h0
    exact ⟨rfl, Or.inr ⟨b, h, hint hlive⟩⟩

/-- **Shutdown is never stuck**: while the owner is inside `ShutdownInternalThread(true)` with the NULL Message enqueued,
some step is enabled. -/
theorem shutdown_not_quiescent {c : Cfg} (hi : Inv c) (hp : (c.th 0).pc = .sendSig true ∨ (c.th 0).pc = .join true) :
    ¬ Quiescent c := by
  intro hq
  have hnd : (c.th 0).pc ≠ .done := by rcases hp with h | h <;> simp [h]
  rcases (quiescent_shape hi hq).2 0 hnd with ⟨_, ⟨w, h, _⟩ | ⟨b, h, hw, hqe⟩⟩
  · rcases hp with h' | h' <;> simp [h'] at h
  · rcases hi.shut hp with hs | hs
    · simp [hqe] at hs
    · simp [hs] at hw

/-- `StartInternalThread()` on a non-empty queue: the thread is spawned and the owner stands in front of the initial signal -/
theorem start_step {c : Cfg} {rest : List Op} (hn : 0 < c.n) (hpc : (c.th 0).pc = .idle) (hprog : (c.th 0).prog = .start :: rest)
    (hr : c.sh.running = false) (hq : c.sh.ci.queue ≠ []) :
    ∃ c', step c (.run 0) = some (c', .quiet) ∧ (c'.th 0).pc = .startSig ∧ c'.ipc = .start ∧ c'.sh.ci.queue = c.sh.ci.queue := by
  simp only [step, hn, if_true, stepUser, hpc, hprog, hr]
  simp only [Bool.false_eq_true, if_false, hq, ne_eq, not_false_eq_true, if_true]
  refine ⟨_, rfl, by simp, rfl, ?_⟩
  cases hm : c.sh.mode <;> simp

end Muscle.Conc.TQ
