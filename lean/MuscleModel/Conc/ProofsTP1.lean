import MuscleModel.Conc.ProofsTP0

/-! # C19 proofs, layer 1: per-client seriality and the unregister hand-shake, under the client discipline -/

namespace Muscle.Conc.TP
open Muscle.Conc

/-- the client an API call is about -/
def opClient : Op → Option Client
  | .sub k _ => some k | .reg k => some k | .unreg k => some k | .shutdown => none

/-- user thread `u` still has a call on client k to make (the call in progress counts) -/
def uses (u : UTh) (k : Client) : Prop := ∃ op ∈ u.prog, opClient op = some k
/-- user thread `u` still has a (un)register call on client k to make -/
def manages (u : UTh) (k : Client) : Prop := Op.reg k ∈ u.prog ∨ Op.unreg k ∈ u.prog

/-- **Client discipline** (`IThreadPoolClient` is not itself thread-safe): a client that some thread (un)registers is
used by that thread only.  Clients that are only submitted to may be shared by all threads. -/
def Disc (c : Cfg) : Prop := ∀ t t' k, uses (c.uth t) k → manages (c.uth t') k → t = t'

/-- nothing outstanding for client k (`DoesClientHaveMessagesOutstandingUnsafe` = false) -/
def quiet (c : Cfg) (k : Client) : Prop := c.p.flag k = false ∧ c.p.pend k = [] ∧ c.p.defr k = []

theorem outstanding_false_iff (c : Cfg) (k : Client) : outstanding c.p k = false ↔ quiet c k := by
  simp [outstanding, quiet, and_assoc]

/-- the client whose registration the thread is changing right now -/
def mgClient : UPc → Option Client
  | .regLock k | .unregLock1 k | .unregWait k | .unregLock2 k => some k
  | _ => none

/-- inside `Shutdown()` after its first critical section -/
def inShutdown : UPc → Bool
  | .sdSwap .. | .sdJoin .. | .sdFinal .. => true
  | _ => false

structure Inv1 (c : Cfg) : Prop where
  mg : ∀ t k, mgClient (c.uth t).pc = some k → manages (c.uth t) k
  us : ∀ t k m, (c.uth t).pc = .subLock k m → uses (c.uth t) k
  sdShut : ∀ t, inShutdown (c.uth t).pc = true → c.p.shut = true
  c1 : ∀ k, k ∈ c.p.regK → c.cptr k = true
  r1 : ∀ t k, (c.uth t).pc = .regLock k → k ∉ c.p.regK
  r2 : ∀ t k, (c.uth t).pc = .regLock k → c.cptr k = true
  s1 : c.p.shut = false → ∀ T k, serving c T k → c.p.flag k = true
  o1 : ∀ T T' k, serving c T k → serving c T' k → T = T'
  f1 : ∀ k, c.p.flag k = false → c.p.defr k = []
  u1 : ∀ t k, (c.uth t).pc = .unregLock2 k → quiet c k
  u2 : ∀ t k, (c.uth t).pc = .unregWait k → (c.uth t).notif > 0 → quiet c k
  u3 : ∀ t, (c.uth t).notif > 0 → ∃ k, (c.uth t).pc = .unregWait k
  u4 : ∀ k, k ∈ c.p.waitK → (c.uth (c.p.waitT k)).pc = .unregWait k
  u5 : ∀ k, k ∈ c.p.waitK → (c.uth (c.p.waitT k)).notif = 0

theorem Inv1.congr {c c' : Cfg} (h : Inv1 c) (h1 : c'.pth = c.pth := by rfl) (h2 : c'.uth = c.uth := by rfl) (h3 : c'.cptr = c.cptr := by rfl)
    (h4 : c'.p.regK = c.p.regK := by rfl) (h5 : c'.p.flag = c.p.flag := by rfl) (h6 : c'.p.pend = c.p.pend := by rfl)
    (h7 : c'.p.defr = c.p.defr := by rfl) (h8 : c'.p.waitK = c.p.waitK := by rfl) (h9 : c'.p.waitT = c.p.waitT := by rfl)
    (h10 : c'.p.shut = c.p.shut := by rfl) : Inv1 c' := by
  obtain ⟨g1, g2, g3, g4, g5, g6, g7, g8, g9, g10, g11, g12, g13, g14⟩ := h
  constructor <;> simp only [serving, quiet, h1, h2, h3, h4, h5, h6, h7, h8, h9, h10] at * <;> assumption

theorem inv1_spawnIfNeeded {c : Cfg} (h : Inv1 c) : Inv1 (spawnIfNeeded c) := by
  unfold spawnIfNeeded
  split
  · obtain ⟨g1, g2, g3, g4, g5, g6, g7, g8, g9, g10, g11, g12, g13, g14⟩ := h
    constructor <;> (simp only [serving, quiet, upd, PTh.fresh] at *; grind)
  · exact h

theorem inv1_assign {c : Cfg} {k : Client} {T : PTid} {rest : List PTid} (h : Inv1 c) (h0 : Inv0 c) (ha : c.p.availR = T :: rest)
    (hk : k ∈ c.p.regK) (hp : c.p.pend k ≠ []) (hs : c.p.shut = false) : Inv1 (assign c k T rest) := by
  have hf : c.p.flag k = false := by
    cases hfk : c.p.flag k with
    | false => rfl
    | true => exact absurd (h0.flagPend k hfk) hp
  have hT := h0.availIdle T (by rw [ha]; simp)
  obtain ⟨g1, g2, g3, g4, g5, g6, g7, g8, g9, g10, g11, g12, g13, g14⟩ := h
  constructor <;> (simp only [serving, quiet, upd, assign] at *; grind)

theorem inv1_dispatchLoop (ks : List Client) {c : Cfg} (h : Inv1 c) (h0 : Inv0 c) (hs : c.p.shut = false) : Inv1 (dispatchLoop ks c) := by
  induction ks generalizing c with
  | nil => exact h.congr
  | cons k ks ih =>
    unfold dispatchLoop
    split
    · rename_i hc
      split
      · rename_i T rest ha
        have hsp := spawn_avail_cases c
        have h0s := inv0_spawnIfNeeded h0
        have hk : k ∈ (spawnIfNeeded c).p.regK := by rw [hsp.1]; exact hc.1
        have hp : (spawnIfNeeded c).p.pend k ≠ [] := by rw [hsp.2.1]; exact hc.2
        have hss : (spawnIfNeeded c).p.shut = false := by rw [hsp.2.2.1]; exact hs
        exact ih (inv1_assign (inv1_spawnIfNeeded h) h0s ha hk hp hss) (inv0_assign h0s ha hk) (by simp [assign, hss])
      · exact h.congr
    · rename_i hc
      have hpk : c.p.pend k = [] := by
        by_cases hr : k ∈ c.p.regK
        · by_cases hp : c.p.pend k = []
          · exact hp
          · exact absurd ⟨hr, hp⟩ hc
        · exact (h0.wfQ k hr).1
      have he : upd c.p.pend k [] = c.p.pend := by funext x; simp only [upd]; split <;> simp_all
      refine ih (h.congr (h6 := he)) (h0.congr' rfl (h7 := he)) hs

theorem inv1_dispatch {c : Cfg} (h : Inv1 c) (h0 : Inv0 c) : Inv1 (dispatch c) := by
  unfold dispatch; split
  · exact h
  · rename_i hs; exact inv1_dispatchLoop _ h h0 (by simpa using hs)

theorem inv1_addDefr {c : Cfg} (k : Client) (m : MsgId) (h : Inv1 c) (hf : c.p.flag k = true) : Inv1 (addDefr c k m) := by
  obtain ⟨g1, g2, g3, g4, g5, g6, g7, g8, g9, g10, g11, g12, g13, g14⟩ := h
  constructor <;> (simp only [serving, quiet, upd, addDefr] at *; grind)

/-- `hq`: no thread is finishing an unregistration of k (discipline: the submitter is the only user of k) -/
theorem inv1_addPend {c : Cfg} (k : Client) (m : MsgId) (h : Inv1 c)
    (hq : ∀ t, (c.uth t).pc ≠ .unregLock2 k ∧ (c.uth t).pc ≠ .unregWait k) : Inv1 (addPend c k m) := by
  obtain ⟨g1, g2, g3, g4, g5, g6, g7, g8, g9, g10, g11, g12, g13, g14⟩ := h
  constructor <;> (simp only [serving, quiet, upd, addPend] at *; grind)

theorem inv1_subCS {c : Cfg} (k : Client) (m : MsgId) (h : Inv1 c) (h0 : Inv0 c)
    (hq : ∀ t, (c.uth t).pc ≠ .unregLock2 k ∧ (c.uth t).pc ≠ .unregWait k) : Inv1 (subCS c k m).1 := by
  unfold subCS
  split
  · exact h
  · rename_i hk
    have hk' : k ∈ c.p.regK := by simpa using hk
    split
    · rename_i hf; exact inv1_addDefr k m h hf
    · rename_i hf
      have hf' : c.p.flag k = false := by simpa using hf
      split
      · exact inv1_dispatch (inv1_addPend k m h hq) (inv0_addPend k m h0 hk' hf')
      · exact inv1_addPend k m h hq

/-- `hn`: nobody serves k any more (the thread that did has just left) -/
theorem inv1_handBack {c : Cfg} (k : Client) (h : Inv1 c) (h0 : Inv0 c) (hn : ∀ T, ¬ serving c T k) (hf : c.p.shut = false → c.p.flag k = true) (hs : c.p.shut = false) :
    Inv1 (handBack c k) := by
  unfold handBack
  have hfp := h0.flagPend k (hf hs)
  obtain ⟨g1, g2, g3, g4, g5, g6, g7, g8, g9, g10, g11, g12, g13, g14⟩ := h
  split
  · split
    · constructor <;> (simp only [serving, quiet, upd] at *; grind)
    · constructor <;> (simp only [serving, quiet, upd] at *; grind)
  · constructor <;> assumption

theorem inv1_release {c : Cfg} (T : PTid) (h : Inv1 c) : Inv1 (release c T) := by
  unfold release; split
  · exact h.congr
  · exact h

theorem inv1_wake {c : Cfg} (k : Client) (h : Inv1 c) : Inv1 (wake c k) := by
  unfold wake; split
  · rename_i hc
    have hq := (outstanding_false_iff c k).1 hc.1
    have hk := hc.2
    obtain ⟨g1, g2, g3, g4, g5, g6, g7, g8, g9, g10, g11, g12, g13, g14⟩ := h
    have e1 := g13 k hk
    have e2 := g14 k hk
    constructor <;> (simp only [serving, quiet, upd, manages, uses, mem_remKey] at *; grind)
  · exact h

theorem release_p_fields (c : Cfg) (T : PTid) : (release c T).p.shut = c.p.shut ∧ (release c T).p.flag = c.p.flag := by
  unfold release; split <;> simp

theorem handBack_shut (c : Cfg) (k : Client) : (handBack c k).p.shut = c.p.shut := by
  unfold handBack; split <;> (try split) <;> rfl

theorem inv1_finishCS {c : Cfg} (T : PTid) (k : Client) (h : Inv1 c) (h0 : Inv0 c)
    (hT : (c.pth T).cur = none ∧ ∀ k, (c.pth T).pc ≠ .finLock k) (hn : ∀ T, ¬ serving c T k) (hf : c.p.shut = false → c.p.flag k = true) :
    Inv1 (finishCS c T k) := by
  unfold finishCS; split
  · exact h
  · rename_i hs
    have hs' : c.p.shut = false := by simpa using hs
    have hb := inv1_handBack k h h0 hn hf hs'
    have hb0 := inv0_handBack k h0
    have hr0 := inv0_release T hb0 (by rw [handBack_pth]; exact hT)
    exact inv1_wake _ (inv1_dispatch (inv1_release T hb) hr0)

theorem inv1_fetch {c : Cfg} (T : PTid) (h : Inv1 c) : Inv1 (fetch c T).1 := by
  obtain ⟨g1, g2, g3, g4, g5, g6, g7, g8, g9, g10, g11, g12, g13, g14⟩ := h
  unfold fetch
  simp only
  split
  · constructor <;> (simp only [serving, quiet, upd] at *; grind)
  · constructor <;> (simp only [serving, quiet, upd] at *; grind)
  · split
    · constructor <;> (simp only [serving, quiet, upd] at *; grind)
    · constructor <;> (simp only [serving, quiet, upd] at *; grind)
    · constructor <;> (simp only [serving, quiet, upd] at *; grind)

theorem inv1_setIdle {c : Cfg} (T : PTid) (h : Inv1 c) : Inv1 { c with pth := upd c.pth T { (c.pth T) with pc := .idle } } := by
  obtain ⟨g1, g2, g3, g4, g5, g6, g7, g8, g9, g10, g11, g12, g13, g14⟩ := h
  constructor <;> (simp only [serving, quiet, upd] at *; grind)

theorem inv1_stepPool {c c' : Cfg} {T : PTid} {o} (h : Inv1 c) (h0 : Inv0 c) (hs : stepPool c T = some (c', o)) : Inv1 c' := by
  unfold stepPool at hs
  simp only at hs
  split at hs
  · simp at hs
  · simp at hs
  · simp only [Option.some.injEq] at hs; have : c' = (fetch c T).1 := by rw [hs]
    rw [this]; exact inv1_fetch T h
  · split at hs
    · simp at hs
    · simp only [Option.some.injEq] at hs; have : c' = (fetch c T).1 := by rw [hs]
      rw [this]; exact inv1_fetch T h
  · rename_i hpc
    have hfc := h0.finCur T
    obtain ⟨g1, g2, g3, g4, g5, g6, g7, g8, g9, g10, g11, g12, g13, g14⟩ := h
    split at hs
    · simp only [Option.some.injEq, Prod.mk.injEq] at hs; obtain ⟨rfl, _⟩ := hs
      constructor <;> (simp only [serving, quiet, upd] at *; grind)
    · simp only [Option.some.injEq, Prod.mk.injEq] at hs; obtain ⟨rfl, _⟩ := hs
      constructor <;> (simp only [serving, quiet, upd] at *; grind)
    · simp at hs
  · rename_i k hpc
    simp only [Option.some.injEq] at hs
    have : c' = (fetch (finishCS { c with pth := upd c.pth T { (c.pth T) with pc := .idle } } T k) T).1 := by rw [hs]
    rw [this]
    apply inv1_fetch
    have hc := h0.finCur T k hpc
    apply inv1_finishCS
    · exact inv1_setIdle T h
    · exact inv0_setIdle T h0
    · simp [upd, hc]
    · intro T' hsv
      have ho := h.o1 T T' k (Or.inr hpc)
      clear this hs
      by_cases hTT : T' = T
      · subst hTT; simp [serving, upd, hc] at hsv
      · have : serving c T' k := by simpa [serving, upd, hTT] using hsv
        exact hTT (ho this).symm
    · intro hsh
      exact h.s1 hsh T k (Or.inr hpc)

theorem advance_spec (u : UTh) : ((advance u).pc = .done ∨ (advance u).pc = .opStart) ∧ (advance u).notif = u.notif ∧
    (∀ op, op ∈ (advance u).prog → op ∈ u.prog) := by
  unfold advance
  split
  · simp
  · rename_i r hr
    refine ⟨Or.inr rfl, rfl, fun op hop => List.mem_of_mem_tail hop⟩

theorem dispatchLoop_uth (ks : List Client) (c : Cfg) : (dispatchLoop ks c).uth = c.uth ∧ (dispatchLoop ks c).cptr = c.cptr := by
  induction ks generalizing c with
  | nil => exact ⟨rfl, rfl⟩
  | cons k ks ih =>
    unfold dispatchLoop
    split
    · split
      · rw [(ih _).1, (ih _).2]; unfold assign spawnIfNeeded; split <;> exact ⟨rfl, rfl⟩
      · exact ⟨rfl, rfl⟩
    · rw [(ih _).1, (ih _).2]; exact ⟨rfl, rfl⟩

theorem subCS_uth (c : Cfg) (k : Client) (m : MsgId) : (subCS c k m).1.uth = c.uth ∧ (subCS c k m).1.cptr = c.cptr := by
  unfold subCS
  split
  · exact ⟨rfl, rfl⟩
  · split
    · exact ⟨rfl, rfl⟩
    · split
      · unfold dispatch; split
        · exact ⟨rfl, rfl⟩
        · rw [(dispatchLoop_uth _ _).1, (dispatchLoop_uth _ _).2]; exact ⟨rfl, rfl⟩
      · exact ⟨rfl, rfl⟩

theorem manages_uses {u : UTh} {k : Client} (h : manages u k) : uses u k := by
  cases h with
  | inl h => exact ⟨_, h, rfl⟩
  | inr h => exact ⟨_, h, rfl⟩

/-- the call in progress of thread t returns (t is not inside a `Wait`) -/
theorem inv1_advance {c : Cfg} (t : Tid) (h : Inv1 c) (hw : ∀ k, (c.uth t).pc ≠ .unregWait k) :
    Inv1 { c with uth := upd c.uth t (advance (c.uth t)) } := by
  have ha := advance_spec (c.uth t)
  obtain ⟨g1, g2, g3, g4, g5, g6, g7, g8, g9, g10, g11, g12, g13, g14⟩ := h
  generalize advance (c.uth t) = a at *
  constructor <;> (simp only [serving, quiet, upd, manages, uses, mgClient, inShutdown] at *; grind)

theorem notifyAll_spec (ks : List Client) (w : Client → Tid) (u : Tid → UTh) (x : Tid) :
    (notifyAll ks w u x).pc = (u x).pc ∧ (notifyAll ks w u x).prog = (u x).prog ∧
    ((notifyAll ks w u x).notif > 0 → (u x).notif > 0 ∨ ∃ k ∈ ks, w k = x) := by
  induction ks generalizing u with
  | nil => simp [notifyAll]
  | cons k ks ih =>
    simp only [notifyAll]
    have := ih (upd u (w k) { (u (w k)) with notif := (u (w k)).notif + 1 })
    simp only [upd] at this ⊢
    grind

theorem inv1_sdNext {c : Cfg} (t : Tid) (b : Bool) (nA total n : Nat) (l : List PTid) (h : Inv1 c)
    (hpc : inShutdown (c.uth t).pc = true) : Inv1 (sdNext c t b nA total n l) := by
  obtain ⟨g1, g2, g3, g4, g5, g6, g7, g8, g9, g10, g11, g12, g13, g14⟩ := h
  have hsd := g3 t hpc
  unfold sdNext
  split
  · constructor <;> (simp only [serving, quiet, upd, manages, uses, mgClient, inShutdown] at *; grind)
  · split
    · constructor <;> (simp only [serving, quiet, upd, manages, uses, mgClient, inShutdown] at *; grind)
    · split
      · constructor <;> (simp only [serving, quiet, upd, manages, uses, mgClient, inShutdown] at *; grind)
      · constructor <;> (simp only [serving, quiet, upd, manages, uses, mgClient, inShutdown] at *; grind)

set_option maxHeartbeats 2000000 in
theorem inv1_stepUser {c c' : Cfg} {t : Tid} {o} (h : Inv1 c) (h0 : Inv0 c) (hd : Disc c) (hs : stepUser c t = some (c', o)) : Inv1 c' := by
  unfold stepUser at hs
  simp only at hs
  split at hs
  · simp at hs
  · -- opStart
    rename_i hpc
    have hw : ∀ k, (c.uth t).pc ≠ .unregWait k := by intro k; rw [hpc]; simp
    split at hs
    · simp at hs
    · rename_i k m rest hprog
      have hu : ∃ op, op ∈ (c.uth t).prog ∧ opClient op = some k := ⟨.sub k m, by rw [hprog]; simp, rfl⟩
      split at hs
      · simp only [Option.some.injEq, Prod.mk.injEq] at hs; obtain ⟨rfl, _⟩ := hs
        obtain ⟨g1, g2, g3, g4, g5, g6, g7, g8, g9, g10, g11, g12, g13, g14⟩ := h
        constructor <;> (simp only [serving, quiet, upd, manages, uses, mgClient, inShutdown] at *; grind)
      · simp only [Option.some.injEq, Prod.mk.injEq] at hs; obtain ⟨rfl, _⟩ := hs; exact inv1_advance t h hw
    · rename_i k rest hprog
      have hm : Op.reg k ∈ (c.uth t).prog := by rw [hprog]; simp
      split at hs
      · simp only [Option.some.injEq, Prod.mk.injEq] at hs; obtain ⟨rfl, _⟩ := hs; exact inv1_advance t h hw
      · simp only [Option.some.injEq, Prod.mk.injEq] at hs; obtain ⟨rfl, _⟩ := hs
        obtain ⟨g1, g2, g3, g4, g5, g6, g7, g8, g9, g10, g11, g12, g13, g14⟩ := h
        constructor <;> (simp only [serving, quiet, upd, manages, uses, mgClient, inShutdown] at *; grind)
    · rename_i k rest hprog
      have hm : Op.unreg k ∈ (c.uth t).prog := by rw [hprog]; simp
      split at hs
      · simp only [Option.some.injEq, Prod.mk.injEq] at hs; obtain ⟨rfl, _⟩ := hs
        obtain ⟨g1, g2, g3, g4, g5, g6, g7, g8, g9, g10, g11, g12, g13, g14⟩ := h
        constructor <;> (simp only [serving, quiet, upd, manages, uses, mgClient, inShutdown] at *; grind)
      · simp only [Option.some.injEq, Prod.mk.injEq] at hs; obtain ⟨rfl, _⟩ := hs; exact inv1_advance t h hw
    · simp only [Option.some.injEq, Prod.mk.injEq] at hs; obtain ⟨rfl, _⟩ := hs
      obtain ⟨g1, g2, g3, g4, g5, g6, g7, g8, g9, g10, g11, g12, g13, g14⟩ := h
      constructor <;> (simp only [serving, quiet, upd, manages, uses, mgClient, inShutdown] at *; grind)
  · -- subLock k m
    rename_i k m hpc
    simp only [Option.some.injEq, Prod.mk.injEq] at hs; obtain ⟨rfl, _⟩ := hs
    have hq : ∀ t', (c.uth t').pc ≠ .unregLock2 k ∧ (c.uth t').pc ≠ .unregWait k := by
      intro t'
      have hu := h.us t k m hpc
      constructor
      · intro hp; have := hd t t' k hu (h.mg t' k (by rw [hp]; rfl)); subst this; rw [hpc] at hp; cases hp
      · intro hp; have := hd t t' k hu (h.mg t' k (by rw [hp]; rfl)); subst this; rw [hpc] at hp; cases hp
    have h1 := inv1_subCS k m h h0 hq
    have hu := (subCS_uth c k m).1
    have := inv1_advance t h1 (by rw [hu, hpc]; simp)
    simp only [hu] at this ⊢
    exact this
  · -- regLock k
    rename_i k hpc
    simp only [Option.some.injEq, Prod.mk.injEq] at hs; obtain ⟨rfl, _⟩ := hs
    have hmk := h.mg t k (by rw [hpc]; rfl)
    have hother : ∀ t', t' ≠ t → ¬ uses (c.uth t') k := fun t' hne hu => hne (hd t' t k hu hmk)
    have hnr := h.r1 t k hpc
    have hfl := h0.wfFlag k hnr
    have hq := h0.wfQ k hnr
    have hoth : ∀ t', t' ≠ t → mgClient (c.uth t').pc ≠ some k := fun t' hne hm => hother t' hne (manages_uses (h.mg t' k hm))
    have hcp := h.r2 t k hpc
    have ha := advance_spec (c.uth t)
    obtain ⟨g1, g2, g3, g4, g5, g6, g7, g8, g9, g10, g11, g12, g13, g14⟩ := h
    generalize advance (c.uth t) = a at *
    constructor <;> (simp only [serving, quiet, upd, mem_addKey, mgClient, manages, uses, inShutdown] at *; grind)
  · -- unregLock1 k
    rename_i k hpc
    have hn0 : (c.uth t).notif = 0 := by
      cases hn : (c.uth t).notif with
      | zero => rfl
      | succ n => obtain ⟨k', hk'⟩ := h.u3 t (by omega); rw [hpc] at hk'; cases hk'
    split at hs
    · simp only [Option.some.injEq, Prod.mk.injEq] at hs; obtain ⟨rfl, _⟩ := hs
      obtain ⟨g1, g2, g3, g4, g5, g6, g7, g8, g9, g10, g11, g12, g13, g14⟩ := h
      constructor <;> (simp only [serving, quiet, upd, manages, uses, mgClient, inShutdown, mem_addKey] at *; grind)
    · rename_i ho
      have hqk := (outstanding_false_iff c k).1 (by simpa using ho)
      simp only [Option.some.injEq, Prod.mk.injEq] at hs; obtain ⟨rfl, _⟩ := hs
      obtain ⟨g1, g2, g3, g4, g5, g6, g7, g8, g9, g10, g11, g12, g13, g14⟩ := h
      constructor <;> (simp only [serving, quiet, upd, manages, uses, mgClient, inShutdown] at *; grind)
  · -- unregWait k
    rename_i k hpc
    split at hs
    · simp only [Option.some.injEq, Prod.mk.injEq] at hs; obtain ⟨rfl, _⟩ := hs
      obtain ⟨g1, g2, g3, g4, g5, g6, g7, g8, g9, g10, g11, g12, g13, g14⟩ := h
      constructor <;> (simp only [serving, quiet, upd, manages, uses, mgClient, inShutdown] at *; grind)
    · simp at hs
  · -- unregLock2 k
    rename_i k hpc
    simp only [Option.some.injEq, Prod.mk.injEq] at hs; obtain ⟨rfl, _⟩ := hs
    have hmk := h.mg t k (by rw [hpc]; rfl)
    have hother : ∀ t', t' ≠ t → ¬ manages (c.uth t') k := fun t' hne hu => hne (hd t' t k (manages_uses hu) hmk)
    have hoth : ∀ t', t' ≠ t → mgClient (c.uth t').pc ≠ some k := fun t' hne hm => hother t' hne (h.mg t' k hm)
    have hqk := h.u1 t k hpc
    have e1 : upd c.p.flag k false = c.p.flag := by funext x; simp only [upd]; split <;> simp_all [quiet]
    have e2 : upd c.p.pend k [] = c.p.pend := by funext x; simp only [upd]; split <;> simp_all [quiet]
    have e3 : upd c.p.defr k [] = c.p.defr := by funext x; simp only [upd]; split <;> simp_all [quiet]
    rw [e1, e2, e3]
    have hmid : Inv1 { c with p := { c.p with regK := remKey c.p.regK k, pendK := remKey c.p.pendK k, defK := remKey c.p.defK k, waitK := remKey c.p.waitK k },
                              cptr := upd c.cptr k false, dropped := upd c.dropped k (c.dropped k ++ c.p.pend k ++ c.p.defr k) } := by
      obtain ⟨g1, g2, g3, g4, g5, g6, g7, g8, g9, g10, g11, g12, g13, g14⟩ := h
      constructor <;> (simp only [serving, quiet, upd, mem_remKey, mgClient] at *; grind)
    exact inv1_advance t hmid (by simp [hpc])
  · -- sdLock
    simp only [Option.some.injEq, Prod.mk.injEq] at hs; obtain ⟨rfl, _⟩ := hs
    obtain ⟨g1, g2, g3, g4, g5, g6, g7, g8, g9, g10, g11, g12, g13, g14⟩ := h
    constructor <;> (simp only [serving, quiet, upd, manages, uses, mgClient, inShutdown] at *; grind)
  · -- sdSwap
    rename_i b nA tot hpc
    split at hs
    · simp only [Option.some.injEq, Prod.mk.injEq] at hs; obtain ⟨rfl, _⟩ := hs
      exact inv1_sdNext _ _ _ _ _ _ (h.congr) (by simp [hpc, inShutdown])
    · simp only [Option.some.injEq, Prod.mk.injEq] at hs; obtain ⟨rfl, _⟩ := hs
      exact inv1_sdNext _ _ _ _ _ _ (h.congr) (by simp [hpc, inShutdown])
  · -- sdJoin
    rename_i b nA tot n T r hpc
    split at hs
    · simp only [Option.some.injEq, Prod.mk.injEq] at hs; obtain ⟨rfl, _⟩ := hs
      exact inv1_sdNext _ _ _ _ _ _ h (by simp [hpc, inShutdown])
    · simp at hs
  · -- sdFinal
    rename_i tot hpc
    simp only [Option.some.injEq, Prod.mk.injEq] at hs; obtain ⟨rfl, _⟩ := hs
    have hsh := h.sdShut t (by simp [hpc, inShutdown])
    have hna := notifyAll_spec c.p.waitK c.p.waitT c.uth
    have ha := advance_spec (notifyAll c.p.waitK c.p.waitT c.uth t)
    obtain ⟨g1, g2, g3, g4, g5, g6, g7, g8, g9, g10, g11, g12, g13, g14⟩ := h
    generalize advance (notifyAll c.p.waitK c.p.waitT c.uth t) = a at *
    generalize notifyAll c.p.waitK c.p.waitT c.uth = nu at *
    constructor <;> (simp only [serving, quiet, upd, manages, uses, mgClient, inShutdown] at *; grind)

/-! ## The discipline is preserved: programs only shrink -/

def progSub (c c' : Cfg) : Prop := ∀ t op, op ∈ (c'.uth t).prog → op ∈ (c.uth t).prog

theorem Disc.of_progSub {c c' : Cfg} (hd : Disc c) (hp : progSub c c') : Disc c' := by
  intro t t' k hu hm
  apply hd t t' k
  · obtain ⟨op, ho, hc⟩ := hu; exact ⟨op, hp t op ho, hc⟩
  · cases hm with
    | inl h => exact Or.inl (hp t' _ h)
    | inr h => exact Or.inr (hp t' _ h)

theorem fetch_uth (c : Cfg) (T : PTid) : (fetch c T).1.uth = c.uth := by
  unfold fetch; simp only; split <;> (try split) <;> rfl

theorem dispatch_uth (c : Cfg) : (dispatch c).uth = c.uth := by
  unfold dispatch; split
  · rfl
  · exact (dispatchLoop_uth _ _).1

theorem handBack_uth (c : Cfg) (k : Client) : (handBack c k).uth = c.uth := by unfold handBack; split <;> (try split) <;> rfl
theorem release_uth (c : Cfg) (T : PTid) : (release c T).uth = c.uth := by unfold release; split <;> rfl

theorem finishCS_prog (c : Cfg) (T : PTid) (k : Client) (t : Tid) : ((finishCS c T k).uth t).prog = (c.uth t).prog := by
  unfold finishCS; split
  · rfl
  · unfold wake; split
    · simp only [upd, dispatch_uth, release_uth, handBack_uth]; split
      · rename_i h; rw [h]
      · rfl
    · simp only [dispatch_uth, release_uth, handBack_uth]

theorem sdNext_prog (c : Cfg) (t : Tid) (b : Bool) (nA total n : Nat) (l : List PTid) (x : Tid) :
    ((sdNext c t b nA total n l).uth x).prog = (c.uth x).prog := by
  unfold sdNext
  split
  · simp only [upd]; split
    · rename_i h; rw [h]
    · rfl
  · split
    · simp only [upd]; split
      · rename_i h; rw [h]
      · rfl
    · split <;> (simp only [upd]; split; (rename_i h; rw [h]); rfl)

theorem stepPool_progSub {c c' : Cfg} {T : PTid} {o} (hs : stepPool c T = some (c', o)) : progSub c c' := by
  intro t op
  unfold stepPool at hs
  simp only at hs
  split at hs
  · simp at hs
  · simp at hs
  · simp only [Option.some.injEq] at hs; have : c' = (fetch c T).1 := by rw [hs]
    rw [this, fetch_uth]; exact id
  · split at hs
    · simp at hs
    · simp only [Option.some.injEq] at hs; have : c' = (fetch c T).1 := by rw [hs]
      rw [this, fetch_uth]; exact id
  · split at hs
    · simp only [Option.some.injEq, Prod.mk.injEq] at hs; obtain ⟨rfl, _⟩ := hs; exact id
    · simp only [Option.some.injEq, Prod.mk.injEq] at hs; obtain ⟨rfl, _⟩ := hs; exact id
    · simp at hs
  · rename_i k hpc
    simp only [Option.some.injEq] at hs
    have : c' = (fetch (finishCS { c with pth := upd c.pth T { (c.pth T) with pc := .idle } } T k) T).1 := by rw [hs]
    rw [this, fetch_uth, finishCS_prog]; exact id

theorem stepUser_progSub {c c' : Cfg} {t : Tid} {o} (hs : stepUser c t = some (c', o)) : progSub c c' := by
  intro x op
  have ha := advance_spec (c.uth t)
  unfold stepUser at hs
  simp only at hs
  split at hs
  · simp at hs
  · split at hs
    · simp at hs
    all_goals first
      | (split at hs <;> (simp only [Option.some.injEq, Prod.mk.injEq] at hs; obtain ⟨rfl, _⟩ := hs; simp only [upd]; grind))
      | (simp only [Option.some.injEq, Prod.mk.injEq] at hs; obtain ⟨rfl, _⟩ := hs; simp only [upd]; grind)
  · simp only [Option.some.injEq, Prod.mk.injEq] at hs; obtain ⟨rfl, _⟩ := hs
    simp only [upd, (subCS_uth _ _ _).1]; grind
  · simp only [Option.some.injEq, Prod.mk.injEq] at hs; obtain ⟨rfl, _⟩ := hs; simp only [upd]; grind
  · split at hs <;> (simp only [Option.some.injEq, Prod.mk.injEq] at hs; obtain ⟨rfl, _⟩ := hs; simp only [upd]; grind)
  · split at hs
    · simp only [Option.some.injEq, Prod.mk.injEq] at hs; obtain ⟨rfl, _⟩ := hs; simp only [upd]; grind
    · simp at hs
  · simp only [Option.some.injEq, Prod.mk.injEq] at hs; obtain ⟨rfl, _⟩ := hs; simp only [upd]; grind
  · simp only [Option.some.injEq, Prod.mk.injEq] at hs; obtain ⟨rfl, _⟩ := hs; simp only [upd]; grind
  · split at hs <;> (simp only [Option.some.injEq, Prod.mk.injEq] at hs; obtain ⟨rfl, _⟩ := hs; rw [sdNext_prog]; exact id)
  · split at hs
    · simp only [Option.some.injEq, Prod.mk.injEq] at hs; obtain ⟨rfl, _⟩ := hs; rw [sdNext_prog]; exact id
    · simp at hs
  · simp only [Option.some.injEq, Prod.mk.injEq] at hs; obtain ⟨rfl, _⟩ := hs
    have hn := notifyAll_spec c.p.waitK c.p.waitT c.uth
    have ha2 := advance_spec (notifyAll c.p.waitK c.p.waitT c.uth t)
    simp only [upd]; grind

/-- the three layers together -/
structure Inv (c : Cfg) : Prop where
  i0 : Inv0 c
  i1 : Inv1 c
  disc : Disc c

theorem inv_step {c c' : Cfg} {e : Ev} {o} (h : Inv c) (hs : step c e = some (c', o)) : Inv c' := by
  cases e with
  | timeout t => simp [step] at hs
  | run i =>
    refine ⟨inv0_step h.i0 hs, ?_, ?_⟩
    · simp only [step] at hs
      split at hs
      · exact inv1_stepUser h.i1 h.i0 h.disc hs
      · exact inv1_stepPool h.i1 h.i0 hs
    · simp only [step] at hs
      split at hs
      · exact h.disc.of_progSub (stepUser_progSub hs)
      · exact h.disc.of_progSub (stepPool_progSub hs)
