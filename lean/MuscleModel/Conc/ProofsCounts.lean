import MuscleModel.Conc.ProofsLiveInv

/-! Exact counting over whole executions: the executing-threads table holds, for every thread, exactly
(successful read acquisitions − successful read releases, successful write acquisitions − successful write releases)
— with the documented intermediate values while the thread is inside the upgrade path of `LockReadWriteAux`. -/

namespace Muscle.Conc.RW
open Muscle.Conc

/-- the program counter is inside `LockReadOnlyAux(m)` / `LockReadWriteAux(m)` -/
def PcR (m : Mode) (pc : Pc) : Prop := pc = .rStart m ∨ pc = .rWait m ∨ ∃ b, pc = .rWoke m b
def PcW (m : Mode) (pc : Pc) : Prop := pc = .wStart m ∨ pc = .wWait m ∨ ∃ b, pc = .wWoke m b

/-- outside the upgrade path the call in progress (`cur`) is the one the program counter is in -/
def CurOk (th : Th) : Prop :=
  (∀ m, PcR m th.pc → th.cur = .lockR m) ∧ (∀ m, PcW m th.pc → th.cur = .lockW m) ∧
  (th.pc = .uR → th.cur = .unlockR) ∧ (th.pc = .uW → th.cur = .unlockW)

/-- table counts of thread `t` versus its ghost counters, by position in the upgrade path -/
def CountsOk (s : Mx) (t : Tid) (th : Th) : Prop :=
  match th.ctx with
  | [] => s.ro t = th.hr ∧ s.rw t = th.hw ∧ CurOk th
  | [u] => th.hw = 0 ∧ th.hr = u.n ∧ u.n > 0 ∧ th.cur = .lockW u.m ∧
      (match u.stage with
       | .drop k => th.pc = .uR ∧ s.ro t = k ∧ s.rw t = 0 ∧ 1 ≤ k ∧ k ≤ u.n
       | .lock => PcW u.m th.pc ∧ s.ro t = 0 ∧ s.rw t = 0
       | .retake k ret => PcR .block th.pc ∧ th.pc ≠ .rWoke .block false ∧ s.ro t + k = u.n ∧ 1 ≤ k ∧
                          s.rw t = (if ret = .ok then 1 else 0))
  | _ :: _ :: _ => False

theorem CountsOk.frame {s s' : Mx} {u : Tid} {th : Th} (hro : s'.ro u = s.ro u) (hrw : s'.rw u = s.rw u)
    (h : CountsOk s u th) : CountsOk s' u th := by
  unfold CountsOk at h ⊢
  rw [hro, hrw]; exact h

theorem PcR_ne_PcW {m m' : Mode} {pc : Pc} (h : PcR m pc) (h' : PcW m' pc) : False := by
  rcases h with h | h | ⟨b, h⟩ <;> rcases h' with h' | h' | ⟨b', h'⟩ <;> rw [h] at h' <;> cases h'

theorem PcR_mode {m m' : Mode} {pc : Pc} (h : PcR m pc) (h' : PcR m' pc) : m = m' := by
  rcases h with h | h | ⟨b, h⟩ <;> rcases h' with h' | h' | ⟨b', h'⟩ <;> rw [h] at h' <;> cases h' <;> rfl

theorem PcW_mode {m m' : Mode} {pc : Pc} (h : PcW m pc) (h' : PcW m' pc) : m = m' := by
  rcases h with h | h | ⟨b, h⟩ <;> rcases h' with h' | h' | ⟨b', h'⟩ <;> rw [h] at h' <;> cases h' <;> rfl

theorem curOk_startPc (op : Op) (th : Th) (h1 : th.pc = startPc op) (h2 : th.cur = op) : CurOk th := by
  cases op <;> simp [CurOk, startPc, PcR, PcW, h1, h2] at *

/-- the state of a thread right after an API call returned -/
theorem countsOk_nextOp {s : Mx} {t : Tid} {th : Th} (hctx : th.ctx = []) (hro : s.ro t = th.hr) (hrw : s.rw t = th.hw) :
    CountsOk s t (nextOp th) := by
  unfold nextOp
  split
  · simp [CountsOk, hctx, hro, hrw, CurOk, PcR, PcW]
  · rename_i op rest _
    simp only [CountsOk, hctx]
    exact ⟨hro, hrw, curOk_startPc op _ rfl rfl⟩

/-- a `LockReadOnly`-kind call of thread `t` returns `st` -/
theorem counts_done_R {s s' : Mx} {t : Tid} {th : Th} {st : St} {m : Mode} (hk : PcR m th.pc) (hc : CountsOk s t th)
    (hro : s'.ro t = if st = .ok then s.ro t + 1 else s.ro t) (hrw : s'.rw t = s.rw t)
    (hst : m = .block → th.pc ≠ .rWoke .block false → st = .ok) : CountsOk s' t (finish th.ctx th st).1 := by
  unfold CountsOk at hc
  cases hctx : th.ctx with
  | nil =>
    rw [hctx] at hc
    obtain ⟨h1, h2, hcur⟩ := hc
    have hcur' := hcur.1 m hk
    simp only [finish]
    apply countsOk_nextOp
    · simp [account]; split <;> simp [hcur']
    · by_cases hs : st = .ok
      · simp [account, hs, hcur', hro, h1]
      · simp [account, hs, hro, h1]
    · by_cases hs : st = .ok
      · simp [account, hs, hcur', hrw, h2]
      · simp [account, hs, hrw, h2]
  | cons u rest =>
    rw [hctx] at hc
    cases rest with
    | cons _ _ => exact absurd hc id
    | nil =>
      obtain ⟨g1, g2, g3, g4, hstage⟩ := hc
      cases hsg : u.stage with
      | drop k => rw [hsg] at hstage; have := hstage.1; rcases hk with h | h | ⟨b, h⟩ <;> rw [h] at this <;> cases this
      | lock => rw [hsg] at hstage; exact (PcR_ne_PcW hk hstage.1).elim
      | retake k ret =>
        rw [hsg] at hstage
        obtain ⟨p1, p2, p3, p4, p5⟩ := hstage
        have hm : m = .block := PcR_mode hk p1
        have hok : st = .ok := hst hm p2
        simp only [finish, hsg, hok]
        simp only [ne_eq, not_true_eq_false, if_false]
        have hro' : s'.ro t = s.ro t + 1 := by rw [hro, if_pos hok]
        by_cases hk1 : k - 1 > 0
        · rw [if_pos hk1]
          simp only [CountsOk]
          refine ⟨g1, g2, g3, g4, ?_⟩
          refine ⟨by simp [PcR], by simp, by omega, by omega, by rw [hrw]; exact p5⟩
        · rw [if_neg hk1]
          simp only [finish]
          apply countsOk_nextOp
          · simp [account]; split <;> simp [g4]
          · have : s'.ro t = u.n := by omega
            by_cases hr : ret = .ok
            · simp [account, hr, g4, this, g2]
            · simp [account, hr, this, g2]
          · by_cases hr : ret = .ok
            · simp [account, hr, g4, hrw, p5, g1]
            · simp [account, hr, hrw, p5, g1]


/-- a `LockReadWrite`-kind call (not the upgrade detection) of thread `t` returns `st` -/
theorem counts_done_W {s s' : Mx} {t : Tid} {th : Th} {st : St} {m : Mode} (hk : PcW m th.pc) (hc : CountsOk s t th)
    (hrw : s'.rw t = if st = .ok then s.rw t + 1 else s.rw t) (hro : s'.ro t = s.ro t) :
    CountsOk s' t (finish th.ctx th st).1 := by
  unfold CountsOk at hc
  cases hctx : th.ctx with
  | nil =>
    rw [hctx] at hc
    obtain ⟨h1, h2, hcur⟩ := hc
    have hcur' := hcur.2.1 m hk
    simp only [finish]
    apply countsOk_nextOp
    · simp [account]; split <;> simp [hcur']
    · by_cases hs : st = .ok
      · simp [account, hs, hcur', hro, h1]
      · simp [account, hs, hro, h1]
    · by_cases hs : st = .ok
      · simp [account, hs, hcur', hrw, h2]
      · simp [account, hs, hrw, h2]
  | cons u rest =>
    rw [hctx] at hc
    cases rest with
    | cons _ _ => exact absurd hc id
    | nil =>
      obtain ⟨g1, g2, g3, g4, hstage⟩ := hc
      cases hsg : u.stage with
      | drop k => rw [hsg] at hstage; have := hstage.1; rcases hk with h | h | ⟨b, h⟩ <;> rw [h] at this <;> cases this
      | retake k ret => rw [hsg] at hstage; exact (PcR_ne_PcW hstage.1 hk).elim
      | lock =>
        rw [hsg] at hstage
        obtain ⟨p1, p2, p3⟩ := hstage
        simp only [finish, hsg]
        have hn : ¬ u.n = 0 := by omega
        rw [if_neg hn]
        simp only [CountsOk]
        refine ⟨g1, g2, g3, g4, by simp [PcR], by simp, by rw [hro]; omega, by omega, ?_⟩
        rw [hrw, p3]

/-- `UnlockReadOnly()` of thread `t` returns `st` -/
theorem counts_done_uR {s s' : Mx} {t : Tid} {th : Th} {st : St} (hpc : th.pc = .uR) (hc : CountsOk s t th)
    (hro : s'.ro t = if st = .ok then s.ro t - 1 else s.ro t) (hrw : s'.rw t = s.rw t)
    (hok : s.ro t > 0 → st = .ok) : CountsOk s' t (finish th.ctx th st).1 := by
  unfold CountsOk at hc
  cases hctx : th.ctx with
  | nil =>
    rw [hctx] at hc
    obtain ⟨h1, h2, hcur⟩ := hc
    have hcur' := hcur.2.2.1 hpc
    simp only [finish]
    apply countsOk_nextOp
    · simp [account]; split <;> simp [hcur']
    · by_cases hs : st = .ok
      · simp [account, hs, hcur', hro, h1]
      · simp [account, hs, hro, h1]
    · by_cases hs : st = .ok
      · simp [account, hs, hcur', hrw, h2]
      · simp [account, hs, hrw, h2]
  | cons u rest =>
    rw [hctx] at hc
    cases rest with
    | cons _ _ => exact absurd hc id
    | nil =>
      obtain ⟨g1, g2, g3, g4, hstage⟩ := hc
      cases hsg : u.stage with
      | lock => rw [hsg] at hstage; rcases hstage.1 with h | h | ⟨b, h⟩ <;> rw [hpc] at h <;> cases h
      | retake k ret => rw [hsg] at hstage; rcases hstage.1 with h | h | ⟨b, h⟩ <;> rw [hpc] at h <;> cases h
      | drop k =>
        rw [hsg] at hstage
        obtain ⟨p1, p2, p3, p4, p5⟩ := hstage
        have hs : st = .ok := hok (by omega)
        have hro' : s'.ro t = s.ro t - 1 := by rw [hro, if_pos hs]
        simp only [finish, hsg, hs]
        simp only [ne_eq, not_true_eq_false, if_false]
        by_cases hk1 : k - 1 > 0
        · rw [if_pos hk1]
          simp only [CountsOk]
          exact ⟨g1, g2, g3, g4, trivial, by omega, by rw [hrw]; exact p3, by omega, by omega⟩
        · rw [if_neg hk1]
          simp only [CountsOk]
          exact ⟨g1, g2, g3, g4, by simp [PcW], by omega, by rw [hrw]; exact p3⟩

/-- `UnlockReadWrite()` of thread `t` returns `st` -/
theorem counts_done_uW {s s' : Mx} {t : Tid} {th : Th} {st : St} (hpc : th.pc = .uW) (hc : CountsOk s t th)
    (hrw : s'.rw t = if st = .ok then s.rw t - 1 else s.rw t) (hro : s'.ro t = s.ro t) : CountsOk s' t (finish th.ctx th st).1 := by
  unfold CountsOk at hc
  cases hctx : th.ctx with
  | nil =>
    rw [hctx] at hc
    obtain ⟨h1, h2, hcur⟩ := hc
    have hcur' := hcur.2.2.2 hpc
    simp only [finish]
    apply countsOk_nextOp
    · simp [account]; split <;> simp [hcur']
    · by_cases hs : st = .ok
      · simp [account, hs, hcur', hro, h1]
      · simp [account, hs, hro, h1]
    · by_cases hs : st = .ok
      · simp [account, hs, hcur', hrw, h2]
      · simp [account, hs, hrw, h2]
  | cons u rest =>
    rw [hctx] at hc
    cases rest with
    | cons _ _ => exact absurd hc id
    | nil =>
      obtain ⟨g1, g2, g3, g4, hstage⟩ := hc
      cases hsg : u.stage with
      | lock => rw [hsg] at hstage; rcases hstage.1 with h | h | ⟨b, h⟩ <;> rw [hpc] at h <;> cases h
      | retake k ret => rw [hsg] at hstage; rcases hstage.1 with h | h | ⟨b, h⟩ <;> rw [hpc] at h <;> cases h
      | drop k => rw [hsg] at hstage; have := hstage.1; rw [hpc] at this; cases this

/-- the program counter moves inside the same call (to `Wait()`, out of it, or the time-out fires); no count changes -/
theorem counts_move {s s' : Mx} {t : Tid} {th : Th} {pc' : Pc} {m : Mode} (hc : CountsOk s t th)
    (hk : (PcR m th.pc ∧ PcR m pc') ∨ (PcW m th.pc ∧ PcW m pc'))
    (hnb : pc' = .rWoke .block false → th.pc = .rWoke .block false)
    (hro : s'.ro t = s.ro t) (hrw : s'.rw t = s.rw t) : CountsOk s' t { th with pc := pc' } := by
  unfold CountsOk at hc ⊢
  simp only
  cases hctx : th.ctx with
  | nil =>
    rw [hctx] at hc
    obtain ⟨h1, h2, hcur⟩ := hc
    refine ⟨by rw [hro]; exact h1, by rw [hrw]; exact h2, ?_⟩
    unfold CurOk at hcur ⊢
    simp only
    rcases hk with ⟨k1, k2⟩ | ⟨k1, k2⟩
    · refine ⟨fun m' hm' => ?_, fun m' hm' => (PcR_ne_PcW k2 hm').elim, fun h => ?_, fun h => ?_⟩
      · rw [← PcR_mode k2 hm']; exact hcur.1 m k1
      · rcases k2 with e | e | ⟨b, e⟩ <;> rw [e] at h <;> cases h
      · rcases k2 with e | e | ⟨b, e⟩ <;> rw [e] at h <;> cases h
    · refine ⟨fun m' hm' => (PcR_ne_PcW hm' k2).elim, fun m' hm' => ?_, fun h => ?_, fun h => ?_⟩
      · rw [← PcW_mode k2 hm']; exact hcur.2.1 m k1
      · rcases k2 with e | e | ⟨b, e⟩ <;> rw [e] at h <;> cases h
      · rcases k2 with e | e | ⟨b, e⟩ <;> rw [e] at h <;> cases h
  | cons u rest =>
    rw [hctx] at hc
    cases rest with
    | cons _ _ => exact absurd hc id
    | nil =>
      obtain ⟨g1, g2, g3, g4, hstage⟩ := hc
      refine ⟨g1, g2, g3, g4, ?_⟩
      cases hsg : u.stage with
      | drop k =>
        rw [hsg] at hstage; have := hstage.1
        rcases hk with ⟨k1, _⟩ | ⟨k1, _⟩ <;> rcases k1 with e | e | ⟨b, e⟩ <;> rw [e] at this <;> cases this
      | lock =>
        rw [hsg] at hstage
        obtain ⟨p1, p2, p3⟩ := hstage
        rcases hk with ⟨k1, _⟩ | ⟨k1, k2⟩
        · exact (PcR_ne_PcW k1 p1).elim
        · have : m = u.m := PcW_mode k1 p1
          subst this
          exact ⟨k2, by rw [hro]; exact p2, by rw [hrw]; exact p3⟩
      | retake k ret =>
        rw [hsg] at hstage
        obtain ⟨p1, p2, p3, p4, p5⟩ := hstage
        rcases hk with ⟨k1, k2⟩ | ⟨k1, _⟩
        · have : m = .block := PcR_mode k1 p1
          subst this
          exact ⟨k2, fun e => p2 (hnb e), by rw [hro]; exact p3, p4, by rw [hrw]; exact p5⟩
        · exact (PcR_ne_PcW p1 k1).elim

/-- `LockReadWriteAux` detects the read→write upgrade: the thread enters the upgrade path, nothing is changed yet -/
theorem counts_upgrade {s : Mx} {t : Tid} {th : Th} {m : Mode} (hpc : th.pc = .wStart m) (hc : CountsOk s t th)
    (hrw : s.rw t = 0) (hpos : s.ro t > 0) (hroh : th.ctx = []) :
    CountsOk s t { th with ctx := { n := s.ro t, m := m, stage := .drop (s.ro t) } :: th.ctx, pc := .uR } := by
  unfold CountsOk at hc ⊢
  rw [hroh] at hc ⊢
  obtain ⟨h1, h2, hcur⟩ := hc
  have hcur' := hcur.2.1 m (Or.inl hpc)
  simp only
  exact ⟨by omega, by omega, hpos, hcur', trivial, trivial, hrw, by omega, by omega⟩


/-! ### what the critical sections do to the counts, by result -/

theorem lockRStart_counts {s : Mx} (h : MxInv s) (t : Tid) (m : Mode) :
    (∀ u, u ≠ t → (lockRStart s t m).1.ro u = s.ro u) ∧ (lockRStart s t m).1.rw = s.rw ∧
    (∀ n, (lockRStart s t m).2 ≠ .upgrade n) ∧
    (∀ st, (lockRStart s t m).2 = .done st →
        (lockRStart s t m).1.ro t = (if st = .ok then s.ro t + 1 else s.ro t) ∧ (m = .block → st = .ok)) ∧
    ((lockRStart s t m).2 = .wait → (lockRStart s t m).1.ro t = s.ro t) := by
  unfold lockRStart
  by_cases ht : t ∈ s.exec
  · rw [if_pos ht]
    refine ⟨fun u hu => by simp [hu], rfl, by simp, ?_, by simp⟩
    intro st hst; simp at hst; subst hst; simp
  · rw [if_neg ht]
    have h0 := (h.absent ht).1
    by_cases hok : okReaders s = false
    · rw [if_pos hok]
      by_cases hm : m = .try_
      · rw [if_pos hm]
        refine ⟨fun _ _ => rfl, rfl, by simp, ?_, by simp⟩
        intro st hst; simp at hst; subst hst; simp [hm]
      · rw [if_neg hm]
        exact ⟨fun _ _ => rfl, rfl, by simp, by simp, fun _ => rfl⟩
    · rw [if_neg hok]
      refine ⟨fun u hu => by simp [hu], rfl, by simp, ?_, by simp⟩
      intro st hst; simp at hst; subst hst; simp [h0]

theorem lockRWoke_counts {s : Mx} (h : MxInv s) {t : Tid} (ht : t ∉ s.exec) (b : Bool) :
    (∀ u, u ≠ t → (lockRWoke s t b).1.ro u = s.ro u ∧ (lockRWoke s t b).1.rw u = s.rw u) ∧
    (∀ n, (lockRWoke s t b).2 ≠ .upgrade n) ∧
    (∀ st, (lockRWoke s t b).2 = .done st →
        (lockRWoke s t b).1.ro t = (if st = .ok then s.ro t + 1 else s.ro t) ∧ (lockRWoke s t b).1.rw t = s.rw t ∧
        (b = true → st = .ok)) ∧
    ((lockRWoke s t b).2 = .wait → (lockRWoke s t b).1 = s) := by
  have h0 := h.absent ht
  unfold lockRWoke
  by_cases hb : b = false
  · rw [if_pos hb]
    have hc := maybeNotify_core { s with waitR := s.waitR.erase t }
    refine ⟨fun u hu => ?_, by simp, ?_, by simp⟩
    · simp only [releaseWC]; rw [hc.2.1, hc.2.2.1]; exact ⟨rfl, rfl⟩
    · intro st hst; simp at hst; subst hst
      simp only [releaseWC]; rw [hc.2.1, hc.2.2.1]; simp [hb]
  · rw [if_neg hb]
    by_cases hok : okReaders s = true
    · rw [if_pos hok]
      refine ⟨fun u hu => by simp [releaseWC, hu], by simp, ?_, by simp⟩
      intro st hst; simp at hst; subst hst
      simp [releaseWC, h0.1, h0.2]
    · rw [if_neg hok]
      exact ⟨fun _ _ => ⟨rfl, rfl⟩, by simp, by simp, fun _ => rfl⟩

theorem lockWStart_counts {s : Mx} (h : MxInv s) (t : Tid) (m : Mode) :
    (∀ u, u ≠ t → (lockWStart s t m).1.rw u = s.rw u) ∧ (lockWStart s t m).1.ro = s.ro ∧
    (∀ st, (lockWStart s t m).2 = .done st → (lockWStart s t m).1.rw t = (if st = .ok then s.rw t + 1 else s.rw t)) ∧
    ((lockWStart s t m).2 = .wait → (lockWStart s t m).1.rw t = s.rw t) ∧
    (∀ n, (lockWStart s t m).2 = .upgrade n → (lockWStart s t m).1 = s ∧ n = s.ro t ∧ t ∈ s.exec ∧ s.rw t = 0) := by
  unfold lockWStart
  by_cases ht : t ∈ s.exec
  · rw [if_pos ht]
    by_cases h1 : s.rw t > 0 ∨ s.exec.length = 1
    · rw [if_pos h1]
      refine ⟨fun u hu => by simp [hu], rfl, ?_, by simp, by simp⟩
      intro st hst; simp at hst; subst hst; simp
    · rw [if_neg h1]
      have hrw0 : s.rw t = 0 := by omega
      by_cases hm : m = .try_
      · rw [if_pos hm]
        refine ⟨fun _ _ => rfl, rfl, ?_, by simp, by simp⟩
        intro st hst; simp at hst; subst hst; simp
      · rw [if_neg hm]
        refine ⟨fun _ _ => rfl, rfl, by simp, by simp, ?_⟩
        intro n hn; simp at hn; exact ⟨rfl, hn.symm, ht, hrw0⟩
  · rw [if_neg ht]
    have h0 := (h.absent ht).2
    by_cases hok : okWriter s t = true
    · rw [if_pos hok]
      refine ⟨fun u hu => by simp [hu], rfl, ?_, by simp, by simp⟩
      intro st hst; simp at hst; subst hst; simp [h0]
    · rw [if_neg hok]
      by_cases hm : m = .try_
      · rw [if_pos hm]
        refine ⟨fun _ _ => rfl, rfl, ?_, by simp, by simp⟩
        intro st hst; simp at hst; subst hst; simp
      · rw [if_neg hm]
        exact ⟨fun _ _ => rfl, rfl, by simp, fun _ => rfl, by simp⟩

theorem lockWWoke_counts {s : Mx} (h : MxInv s) {t : Tid} (ht : t ∉ s.exec) (b : Bool) :
    (∀ u, u ≠ t → (lockWWoke s t b).1.ro u = s.ro u ∧ (lockWWoke s t b).1.rw u = s.rw u) ∧
    (∀ n, (lockWWoke s t b).2 ≠ .upgrade n) ∧
    (∀ st, (lockWWoke s t b).2 = .done st →
        (lockWWoke s t b).1.rw t = (if st = .ok then s.rw t + 1 else s.rw t) ∧ (lockWWoke s t b).1.ro t = s.ro t) ∧
    ((lockWWoke s t b).2 = .wait → (lockWWoke s t b).1 = s) := by
  have h0 := h.absent ht
  unfold lockWWoke
  by_cases hb : b = false
  · rw [if_pos hb]
    have hc := maybeNotify_core { s with waitW := s.waitW.erase t }
    refine ⟨fun u hu => ?_, by simp, ?_, by simp⟩
    · simp only [releaseWC]; rw [hc.2.1, hc.2.2.1]; exact ⟨rfl, rfl⟩
    · intro st hst; simp at hst; subst hst
      simp only [releaseWC]; rw [hc.2.1, hc.2.2.1]; simp
  · rw [if_neg hb]
    by_cases hok : okWriter s t = true
    · rw [if_pos hok]
      refine ⟨fun u hu => by simp [releaseWC, hu], by simp, ?_, by simp⟩
      intro st hst; simp at hst; subst hst
      simp [releaseWC, h0.2]
    · rw [if_neg hok]
      exact ⟨fun _ _ => ⟨rfl, rfl⟩, by simp, by simp, fun _ => rfl⟩

theorem unlockR_counts {s : Mx} (h : MxInv s) (t : Tid) :
    (∀ u, u ≠ t → (unlockR s t).1.ro u = s.ro u) ∧ (unlockR s t).1.rw = s.rw ∧
    (unlockR s t).1.ro t = (if (unlockR s t).2 = .ok then s.ro t - 1 else s.ro t) ∧
    (s.ro t > 0 → (unlockR s t).2 = .ok) := by
  by_cases hok : (unlockR s t).2 = .ok
  · obtain ⟨_, e1, e2, _, e4⟩ := unlockR_exact hok
    exact ⟨e4, e2, by rw [if_pos hok]; exact e1, fun _ => hok⟩
  · have e := unlockR_failed hok
    refine ⟨fun _ _ => by rw [e], by rw [e], by rw [if_neg hok, e], ?_⟩
    intro hpos
    exfalso; apply hok
    have hin : t ∈ s.exec := (h.mem t).2 (by omega)
    unfold unlockR
    have : ¬ (t ∉ s.exec ∨ s.ro t = 0) := by intro hc; rcases hc with hc | hc; exact hc hin; omega
    rw [if_neg this]; split <;> rfl

theorem unlockW_failed {s : Mx} {t : Tid} (h : (unlockW s t).2 ≠ .ok) : (unlockW s t).1 = s := by
  unfold unlockW at h ⊢
  by_cases hc : t ∉ s.exec ∨ s.rw t = 0
  · rw [if_pos hc]
  · rw [if_neg hc] at h; exfalso; apply h
    split
    · split
      · rfl
      · split <;> rfl
    · rfl

theorem unlockW_counts (s : Mx) (t : Tid) :
    (∀ u, u ≠ t → (unlockW s t).1.rw u = s.rw u) ∧ (unlockW s t).1.ro = s.ro ∧
    (unlockW s t).1.rw t = (if (unlockW s t).2 = .ok then s.rw t - 1 else s.rw t) := by
  by_cases hok : (unlockW s t).2 = .ok
  · obtain ⟨_, e1, e2, _, e4⟩ := unlockW_exact hok
    exact ⟨e4, e2, by rw [if_pos hok]; exact e1⟩
  · have e := unlockW_failed hok
    exact ⟨fun _ _ => by rw [e], by rw [e], by rw [if_neg hok, e]⟩

/-- the record of the acting thread after `applyRes`, by result -/
theorem applyRes_self (c : Cfg) (t : Tid) (s' : Mx) (r : Res) (w : Pc) (m : Mode) :
    (applyRes c t s' r w m).1.th t =
      match r with
      | .done st => (finish (c.th t).ctx (c.th t) st).1
      | .wait => { c.th t with pc := w }
      | .upgrade n =>
        if n = 0 then { c.th t with ctx := { n := 0, m := m, stage := .lock } :: (c.th t).ctx, pc := .wStart m }
        else { c.th t with ctx := { n := n, m := m, stage := .drop n } :: (c.th t).ctx, pc := .uR } := by
  unfold applyRes
  cases r with
  | done st => simp
  | wait => simp
  | upgrade n => simp only; split <;> simp


/-! ### the invariant over whole executions -/

def CountInv (c : Cfg) : Prop := ∀ t, CountsOk c.mx t (c.th t)

theorem ctx_nil_of_wStart {s : Mx} {t : Tid} {th : Th} {m : Mode} (hc : CountsOk s t th) (hpc : th.pc = .wStart m)
    (hpos : s.ro t > 0) : th.ctx = [] := by
  unfold CountsOk at hc
  cases hctx : th.ctx with
  | nil => rfl
  | cons u rest =>
    rw [hctx] at hc
    cases rest with
    | cons _ _ => exact absurd hc id
    | nil =>
      obtain ⟨_, _, _, _, hstage⟩ := hc
      cases hsg : u.stage with
      | drop k => rw [hsg] at hstage; have := hstage.1; rw [hpc] at this; cases this
      | lock => rw [hsg] at hstage; have := hstage.2.1; omega
      | retake k ret => rw [hsg] at hstage; rcases hstage.1 with h | h | ⟨b, h⟩ <;> rw [hpc] at h <;> cases h

theorem stepRun_cfg {c' : Cfg} {o : Option St} {x : Cfg × Option St} (h : some x = some (c', o)) : c' = x.1 := by
  have := Option.some.inj h; rw [this]

theorem stepRun_counts_others {c c' : Cfg} {t : Tid} {o : Option St} (hm : MxInv c.mx) (hc : CtlInv c)
    (h : stepRun c t = some (c', o)) (u : Tid) (hu : u ≠ t) : c'.mx.ro u = c.mx.ro u ∧ c'.mx.rw u = c.mx.rw u := by
  have hmx := stepRun_mx h
  rw [hmx]
  cases hpc : (c.th t).pc with
  | done => exact ⟨rfl, rfl⟩
  | rStart m => simp only; have e := lockRStart_counts hm t m; exact ⟨e.1 u hu, by rw [e.2.1]⟩
  | rWait m => exact ⟨rfl, rfl⟩
  | rWoke m b =>
    simp only
    have ht : t ∉ c.mx.exec := hc.notExec t (Or.inl (by rw [hpc]; rfl))
    exact (lockRWoke_counts hm ht b).1 u hu
  | wStart m => simp only; have e := lockWStart_counts hm t m; exact ⟨by rw [e.2.1], e.1 u hu⟩
  | wWait m => exact ⟨rfl, rfl⟩
  | wWoke m b =>
    simp only
    have ht : t ∉ c.mx.exec := hc.notExec t (Or.inr (by rw [hpc]; rfl))
    exact (lockWWoke_counts hm ht b).1 u hu
  | uR => simp only; have e := unlockR_counts hm t; exact ⟨e.1 u hu, by rw [e.2.1]⟩
  | uW => simp only; have e := unlockW_counts c.mx t; exact ⟨by rw [e.2.1], e.1 u hu⟩

theorem stepRun_countInv {c c' : Cfg} {t : Tid} {o : Option St} (hm : MxInv c.mx) (hc : CtlInv c) (hi : CountInv c)
    (h : stepRun c t = some (c', o)) : CountInv c' := by
  intro u
  by_cases hu : u ≠ t
  · have hoth := (stepRun_eff hc h).others u hu
    have e := stepRun_counts_others hm hc h u hu
    rw [hoth]; exact (hi u).frame e.1 e.2
  have hu' : u = t := Classical.byContradiction hu
  subst hu'
  have hthis := hi u
  cases hpc : (c.th u).pc with
  | done => unfold stepRun at h; simp [hpc] at h
  | rStart m =>
    unfold stepRun at h; simp only [hpc] at h
    rw [stepRun_cfg h, applyRes_mx, applyRes_self]
    obtain ⟨_, e2, e3, e4, e5⟩ := lockRStart_counts hm u m
    cases hr : (lockRStart c.mx u m).2 with
    | done st =>
      exact counts_done_R (m := m) (Or.inl hpc) hthis (e4 st hr).1 (by rw [e2]) (fun hb _ => (e4 st hr).2 hb)
    | wait =>
      exact counts_move (m := m) hthis (Or.inl ⟨Or.inl hpc, Or.inr (Or.inl rfl)⟩) (by intro e; cases e) (e5 hr) (by rw [e2])
    | upgrade n => exact absurd hr (e3 n)
  | rWoke m b =>
    unfold stepRun at h; simp only [hpc] at h
    rw [stepRun_cfg h, applyRes_mx, applyRes_self]
    have ht : u ∉ c.mx.exec := hc.notExec u (Or.inl (by rw [hpc]; rfl))
    obtain ⟨_, e2, e3, e4⟩ := lockRWoke_counts hm ht b
    cases hr : (lockRWoke c.mx u b).2 with
    | done st =>
      refine counts_done_R (m := m) (Or.inr (Or.inr ⟨b, hpc⟩)) hthis (e3 st hr).1 (e3 st hr).2.1 ?_
      intro hb hne
      apply (e3 st hr).2.2
      cases b with
      | true => rfl
      | false => subst hb; exact absurd hpc hne
    | wait =>
      have e := e4 hr
      exact counts_move (m := m) hthis (Or.inl ⟨Or.inr (Or.inr ⟨b, hpc⟩), Or.inr (Or.inl rfl)⟩) (by intro e; cases e) (by rw [e]) (by rw [e])
    | upgrade n => exact absurd hr (e2 n)
  | wStart m =>
    unfold stepRun at h; simp only [hpc] at h
    rw [stepRun_cfg h, applyRes_mx, applyRes_self]
    obtain ⟨_, e2, e3, e4, e5⟩ := lockWStart_counts hm u m
    cases hr : (lockWStart c.mx u m).2 with
    | done st => exact counts_done_W (m := m) (Or.inl hpc) hthis (e3 st hr) (by rw [e2])
    | wait =>
      exact counts_move (m := m) hthis (Or.inr ⟨Or.inl hpc, Or.inr (Or.inl rfl)⟩) (by intro e; cases e) (by rw [e2]) (e4 hr)
    | upgrade n =>
      obtain ⟨f1, f2, f3, f4⟩ := e5 n hr
      have hpos : c.mx.ro u > 0 := by have := (hm.mem u).1 f3; omega
      have hctx := ctx_nil_of_wStart hthis hpc hpos
      simp only
      have hn : ¬ n = 0 := by omega
      rw [if_neg hn, f1, f2]
      exact counts_upgrade hpc hthis f4 hpos hctx
  | wWoke m b =>
    unfold stepRun at h; simp only [hpc] at h
    rw [stepRun_cfg h, applyRes_mx, applyRes_self]
    have ht : u ∉ c.mx.exec := hc.notExec u (Or.inr (by rw [hpc]; rfl))
    obtain ⟨_, e2, e3, e4⟩ := lockWWoke_counts hm ht b
    cases hr : (lockWWoke c.mx u b).2 with
    | done st => exact counts_done_W (m := m) (Or.inr (Or.inr ⟨b, hpc⟩)) hthis (e3 st hr).1 (e3 st hr).2
    | wait =>
      have e := e4 hr
      exact counts_move (m := m) hthis (Or.inr ⟨Or.inr (Or.inr ⟨b, hpc⟩), Or.inr (Or.inl rfl)⟩) (by intro e; cases e) (by rw [e]) (by rw [e])
    | upgrade n => exact absurd hr (e2 n)
  | rWait m =>
    rw [stepRun_rWait_spec hpc h]
    simp only [upd_same]
    exact counts_move (m := m) hthis (Or.inl ⟨Or.inr (Or.inl hpc), Or.inr (Or.inr ⟨true, rfl⟩)⟩) (by intro e; cases e) rfl rfl
  | wWait m =>
    rw [stepRun_wWait_spec hpc h]
    simp only [upd_same]
    exact counts_move (m := m) hthis (Or.inr ⟨Or.inr (Or.inl hpc), Or.inr (Or.inr ⟨true, rfl⟩)⟩) (by intro e; cases e) rfl rfl
  | uR =>
    unfold stepRun at h; simp only [hpc] at h
    rw [stepRun_cfg h, applyRes_mx, applyRes_self]
    obtain ⟨_, e2, e3, e4⟩ := unlockR_counts hm u
    exact counts_done_uR hpc hthis e3 (by rw [e2]) e4
  | uW =>
    unfold stepRun at h; simp only [hpc] at h
    rw [stepRun_cfg h, applyRes_mx, applyRes_self]
    obtain ⟨_, e2, e3⟩ := unlockW_counts c.mx u
    exact counts_done_uW hpc hthis e3 (by rw [e2])

theorem stepTimeout_countInv {c c' : Cfg} {t : Tid} {o : Option St} (hi : CountInv c)
    (h : stepTimeout c t = some (c', o)) : CountInv c' := by
  obtain ⟨_, _, hmx, hcase⟩ := stepTimeout_spec h
  intro u
  rw [hmx]
  by_cases hu : u = t
  · subst hu
    rcases hcase with ⟨hpc, hth⟩ | ⟨hpc, hth⟩
    · rw [hth]; simp only [upd_same]
      exact counts_move (m := .timed) (hi u) (Or.inl ⟨Or.inr (Or.inl hpc), Or.inr (Or.inr ⟨false, rfl⟩)⟩) (by intro e; cases e) rfl rfl
    · rw [hth]; simp only [upd_same]
      exact counts_move (m := .timed) (hi u) (Or.inr ⟨Or.inr (Or.inl hpc), Or.inr (Or.inr ⟨false, rfl⟩)⟩) (by intro e; cases e) rfl rfl
  · have : c'.th u = c.th u := by
      rcases hcase with ⟨_, hth⟩ | ⟨_, hth⟩ <;> (rw [hth]; simp [upd, hu])
    rw [this]; exact hi u

theorem init_countInv (p : Bool) (progs : List (List Op)) : CountInv (Cfg.init p progs) := by
  intro t
  simp only [Cfg.init]
  split
  · exact countsOk_nextOp rfl rfl rfl
  · simp [CountsOk, Th.idle, Mx.init, CurOk, PcR, PcW]

theorem reach_countInv (p : Bool) (progs : List (List Op)) {c : Cfg} (h : machine.Reach (Cfg.init p progs) c) : CountInv c :=
  (Machine.Reach.invariant machine (fun c => (MxInv c.mx ∧ CtlInv c) ∧ CountInv c)
    ⟨⟨init_mxInv p progs, init_ctlInv p progs⟩, init_countInv p progs⟩
    (fun c e c' o ⟨⟨hm, hc⟩, hi⟩ hs =>
      ⟨⟨step_mxInv hm hs, step_ctlInv hc hs⟩,
       match e, hs with
       | .run _, hs => stepRun_countInv hm hc hi hs
       | .timeout _, hs => stepTimeout_countInv hi hs⟩) h).2

/-- the statement form used in `Props/C18.lean` -/
theorem CountInv.counts_plain {c : Cfg} (h : CountInv c) (t : Tid) (hctx : (c.th t).ctx = []) :
    c.mx.ro t = (c.th t).hr ∧ c.mx.rw t = (c.th t).hw := by
  have := h t
  unfold CountsOk at this
  rw [hctx] at this
  exact ⟨this.1, this.2.1⟩

end Muscle.Conc.RW
