import MuscleModel.Conc.ProofsRCBasic

/-! # Every step of the reference-count / pool machine preserves the joint invariant (lemmas for C10) -/

namespace Muscle.Conc.RC
open Muscle.Conc Muscle.Conc.Pool

/-- pending actions the invariant says something about individually -/
def Special : Act → Prop
  | .delSlab _ => True
  | .incOld _ _ => True
  | _ => False

/-- a step that touches only thread `t`'s record and the global slots -/
theorem inv_local {c : Cfg} {t : Nat} {th th' : Th} {g' : List Slot} (h : Inv c) (ht : c.ths[t]? = some th)
    (hcnt : ∀ o, th.refs o + cntS c.glob o = th'.refs o + cntS g' o)
    (hraw : th'.raw = th.raw)
    (hrel : ∀ o, cntRel th'.todo o = cntRel th.todo o)
    (hsub : ∀ x, Special x → x ∈ th'.todo → x ∈ th.todo) :
    Inv { c with glob := g', ths := c.ths.set t th' } := by
  have := inv_update (c1 := { c with glob := g' }) (th' := th') h ht rfl h.pool
    (by intro o; have := hcnt o; simp only; omega)
    (fun o ha => Or.inl ha)
    (by intro o hlt; have := hcnt o; simp only at hlt; omega)
    (by intro o hr; rw [hraw] at hr; exact h.raw t th o ht hr)
    (fun o ha hc => Or.inl ⟨ha, hc⟩)
    (by intro o hr; rw [hraw] at hr; exact Or.inl hr)
    h.acq
    (by intro o; have := hrel o; simp only; omega)
    h.heapFresh h.heapMgr h.heapAcq h.nodeMgr h.fresh
    (fun s hs => h.del t th s ht (hsub _ trivial hs))
    (fun _ hs => hs)
    h.linksND h.linkAlive
    (fun a n hm => h.noOld t th a n ht (hsub _ trivial hm))
  exact this

theorem cntDec_decOld (x : Slot) (o : Oid) : cntDec (decOld x) o = if x = some (o, true) then 1 else 0 := by
  unfold decOld
  split
  · rename_i o'; simp [cntDec]
  · rename_i hx
    have : ¬ x = some (o, true) := fun e => hx o e
    simp [cntDec, this]

theorem cntRel_decOld (x : Slot) (o : Oid) : cntRel (decOld x) o = 0 := by
  unfold decOld; split <;> simp [cntRel]

theorem special_not_mem_decOld (x : Slot) (a : Act) (ha : Special a) : a ∉ decOld x := by
  unfold decOld; split
  · intro hm; simp at hm; subst hm; exact ha
  · simp

theorem cntDec_decNext (x : Option Oid) (o : Oid) : cntDec (decNext x) o = if x = some o then 1 else 0 := by
  cases x <;> simp [decNext, cntDec]

theorem cntRel_decNext (x : Option Oid) (o : Oid) : cntRel (decNext x) o = 0 := by
  cases x <;> simp [decNext, cntRel]

theorem special_not_mem_decNext (x : Option Oid) (a : Act) (ha : Special a) : a ∉ decNext x := by
  cases x with
  | none => simp [decNext]
  | some o => intro hm; simp [decNext] at hm; subst hm; exact ha

/-- `slotOf` in terms of `getElem?` for an index in range -/
theorem slotOf_lt {th : Th} {a : Nat} (ha : a < th.slots.length) : th.slots[a]? = some (slotOf th a) := by
  simp [slotOf, List.getElem?_eq_getElem ha]

/-- actions that are neither a pending decrement, nor a pending release, nor special -/
def Neutral (l : List Act) : Prop := (∀ o, cntDec l o = 0) ∧ (∀ o, cntRel l o = 0) ∧ ∀ a, Special a → a ∉ l

theorem neutral_nil : Neutral [] := ⟨fun _ => rfl, fun _ => rfl, fun _ _ => by simp⟩

theorem neutral_single {a : Act} (h1 : ∀ o, cntDec [a] o = 0) (h2 : ∀ o, cntRel [a] o = 0) (h3 : ¬ Special a) : Neutral [a] :=
  ⟨h1, h2, fun b hb hm => by simp at hm; subst hm; exact h3 hb⟩

theorem neutral_obtain : Neutral [.obtain] := neutral_single (fun _ => rfl) (fun _ => rfl) id
theorem neutral_incRaw (a : Nat) : Neutral [.incRaw a] := neutral_single (fun _ => rfl) (fun _ => rfl) id
theorem neutral_incSlot (a b : Nat) : Neutral [.incSlot a b] := neutral_single (fun _ => rfl) (fun _ => rfl) id
theorem neutral_incTmp (b : Nat) : Neutral [.incTmp b] := neutral_single (fun _ => rfl) (fun _ => rfl) id
theorem neutral_incSame (a : Nat) : Neutral [.incSame a] := neutral_single (fun _ => rfl) (fun _ => rfl) id
theorem neutral_incNext (a b : Nat) : Neutral [.incNext a b] := neutral_single (fun _ => rfl) (fun _ => rfl) id
theorem neutral_incPop (a : Nat) : Neutral [.incPop a] := neutral_single (fun _ => rfl) (fun _ => rfl) id
theorem neutral_unlocked : Neutral [.unlocked] := neutral_single (fun _ => rfl) (fun _ => rfl) id

theorem neutral_append {l r : List Act} (hl : Neutral l) (hr : Neutral r) : Neutral (l ++ r) :=
  ⟨fun o => by rw [cntDec_append, hl.1, hr.1], fun o => by rw [cntRel_append, hl.2.1, hr.2.1],
   fun a ha hm => by rcases List.mem_append.mp hm with h | h; exact hl.2.2 a ha h; exact hr.2.2 a ha h⟩

/-- replacing slot `a` by a non-counting value (or NULL) and queueing the decrement for its old content is reference-neutral -/
theorem refs_clear {th : Th} {a : Nat} (ha : a < th.slots.length) (v : Slot) (hv : ∀ o, v ≠ some (o, true)) (pre post : List Act)
    (rest : List Op) (o : Oid) (hpre : cntDec pre o = 0) (hpost : cntDec post o = 0) (htodo : th.todo = []) :
    ({ th with slots := th.slots.set a v, todo := pre ++ (decOld (slotOf th a) ++ post), prog := rest } : Th).refs o = th.refs o := by
  have := cntS_set (y := v) (o := o) (slotOf_lt ha)
  simp only [Th.refs, cntDec_append, cntDec_decOld, hpre, hpost, htodo, cntDec] at *
  simp [hv o] at this
  omega

theorem inv_clear {c : Cfg} {t : Nat} {th : Th} {a : Nat} (h : Inv c) (ht : c.ths[t]? = some th) (ha : a < th.slots.length)
    (htodo : th.todo = []) (v : Slot) (hv : ∀ o, v ≠ some (o, true)) (pre post : List Act) (rest : List Op) (hpre : Neutral pre) (hpost : Neutral post) :
    Inv { c with ths := c.ths.set t { th with slots := th.slots.set a v, todo := pre ++ (decOld (slotOf th a) ++ post), prog := rest } } := by
  refine inv_local (g' := c.glob) h ht ?_ rfl ?_ ?_
  · intro o; rw [refs_clear ha v hv pre post rest o (hpre.1 o) (hpost.1 o) htodo]
  · intro o; simp [cntRel_append, cntRel_decOld, hpre.2.1 o, hpost.2.1 o, htodo, cntRel]
  · intro x hx hs
    simp only [List.mem_append] at hs
    rcases hs with hs | hs | hs
    · exact absurd hs (hpre.2.2 x hx)
    · exact absurd hs (special_not_mem_decOld _ x hx)
    · exact absurd hs (hpost.2.2 x hx)

/-- only the program counter (and neutral pending actions) change -/
theorem inv_todo {c : Cfg} {t : Nat} {th : Th} (h : Inv c) (ht : c.ths[t]? = some th) (htodo : th.todo = [])
    (todo' : List Act) (rest : List Op) (hn : Neutral todo') :
    Inv { c with ths := c.ths.set t { th with todo := todo', prog := rest } } := by
  refine inv_local (g' := c.glob) h ht ?_ rfl ?_ ?_
  · intro o; simp [Th.refs, hn.1 o, htodo, cntDec]
  · intro o; simp [hn.2.1 o, htodo, cntRel]
  · intro x hx hs; exact absurd hs (hn.2.2 x hx)

theorem inv_swap {c : Cfg} {t : Nat} {th : Th} {a b : Nat} (h : Inv c) (ht : c.ths[t]? = some th)
    (ha : a < th.slots.length) (hb : b < th.slots.length) (rest : List Op) :
    Inv { c with ths := c.ths.set t { th with slots := (th.slots.set a (slotOf th b)).set b (slotOf th a), prog := rest } } := by
  refine inv_local (g' := c.glob) h ht ?_ rfl (fun _ => rfl) (fun _ _ hs => hs)
  intro o
  have h1 := cntS_set (y := slotOf th b) (o := o) (slotOf_lt ha)
  have hb1 : (th.slots.set a (slotOf th b))[b]? = some (slotOf th b) := by
    rw [List.getElem?_set]
    by_cases hab : a = b
    · subst hab; simp [ha]
    · simp [hab, slotOf_lt hb]
  have h2 := cntS_set (y := slotOf th a) (o := o) hb1
  simp only [Th.refs]; omega

theorem inv_xchg {c : Cfg} {t : Nat} {th : Th} {a g : Nat} (h : Inv c) (ht : c.ths[t]? = some th)
    (ha : a < th.slots.length) (hg : g < c.glob.length) (rest : List Op) :
    Inv { c with glob := c.glob.set g (slotOf th a), ths := c.ths.set t { th with slots := th.slots.set a ((c.glob[g]?).join), prog := rest } } := by
  refine inv_local h ht ?_ rfl (fun _ => rfl) (fun _ _ hs => hs)
  intro o
  have h1 := cntS_set (y := (c.glob[g]?).join) (o := o) (slotOf_lt ha)
  have hg1 : c.glob[g]? = some ((c.glob[g]?).join) := by simp [List.getElem?_eq_getElem hg]
  have h2 := cntS_set (y := slotOf th a) (o := o) hg1
  simp only [Th.refs]; omega

theorem slot_get {th : Th} {a : Nat} {v : Oid × Bool} (hs : slotOf th a = some v) : th.slots[a]? = some (some v) := by
  unfold slotOf at hs
  cases hx : th.slots[a]? with
  | none => rw [hx] at hs; simp at hs
  | some y => rw [hx] at hs; simp at hs; rw [hs]

theorem slot_lt {th : Th} {a : Nat} {v : Oid × Bool} (hs : slotOf th a = some v) : a < th.slots.length := by
  rcases List.getElem?_eq_some_iff.mp (slot_get hs) with ⟨hl, _⟩; exact hl

theorem slot_refs_pos {c : Cfg} {t : Nat} {th : Th} {a : Nat} {o : Oid} (ht : c.ths[t]? = some th) (hs : slotOf th a = some (o, true)) :
    0 < refs c o := by
  have := cntS_pos (slot_get hs)
  have := th_refs_le ht o
  simp only [Th.refs] at *; omega

theorem aliveN_congr {f g : Oid → Obj} (h : ∀ x, (f x).alive = (g x).alive) (x : Oid) : aliveN f x = aliveN g x := by
  cases x with
  | heap k => rfl
  | node s i => simp [aliveN, h]

theorem aliveN_setObj_alive (f : Oid → Obj) (o : Oid) (v : Obj) (hv : v.alive = (f o).alive) (x : Oid) :
    aliveN (setObj f o v) x = aliveN f x := by
  apply aliveN_congr
  intro y; by_cases hy : y = o
  · subst hy; simp [hv]
  · simp [setObj, hy]

/-- a step that rewrites exactly one object `o` (and possibly the `next` members, the pool, the heap counter and thread
`t`'s record) -/
theorem inv_obj1 {c : Cfg} {t : Nat} {th th' : Th} {o : Oid} {ob' : Obj} {p' : PoolSt} {nh' : Nat} {l' : List (Oid × Oid)}
    (h : Inv c) (ht : c.ths[t]? = some th) (hpool : PoolInv p')
    (href : ∀ x, x ≠ o → th'.refs x + cntL l' x = th.refs x + cntL c.links x)
    (hcnt : ob'.count + th.refs o + cntL c.links o = (c.obj o).count + th'.refs o + cntL l' o)
    (hkeep : (c.obj o).alive = true → ob'.alive = true ∨ ob'.count = 0)
    (hnew : th.refs o + cntL c.links o < th'.refs o + cntL l' o → ob'.alive = true)
    (hraw : ∀ x, th'.raw = some x → (x = o ∧ ob'.alive = true ∧ ob'.count = 0) ∨ (x ≠ o ∧ th.raw = some x))
    (hrawO : (c.obj o).alive = true → (c.obj o).count = 0 → (ob'.alive = true ∧ ob'.count = 0) ∨ th.raw = some o)
    (hrawN : th'.raw = some o → th.raw = some o ∨ (c.obj o).alive = false)
    (hacq : ob'.acq = ob'.rel + b2n ob'.alive)
    (hout : ∀ x, aliveN (setObj c.obj o ob') x + cntRel th'.todo x + b2n (outBitO c.pool x) =
                 aliveN c.obj x + cntRel th.todo x + b2n (outBitO p' x))
    (hfresh : ∀ k, nh' ≤ k → c.nextHeap ≤ k ∧ o ≠ .heap k)
    (hmgr : ∀ k, o = .heap k → ob'.mgr = false)
    (hacq1 : ∀ k, o = .heap k → ob'.acq ≤ 1)
    (hnm : ∀ s i, o = .node s i → ob'.alive = true → ob'.mgr = true)
    (hfr : ∀ s i, o = .node s i → ob'.alive = false → ob'.val = 0 ∧ ob'.mgr = false)
    (hsub : ∀ x, Special x → x ∈ th'.todo → x ∈ th.todo ∨ ∃ s, x = .delSlab s ∧ s.inUse = 0 ∧ Unlisted p' s.id)
    (hmono : ∀ sid, Unlisted c.pool sid → Unlisted p' sid)
    (hlnd : (l'.map (·.1)).Nodup)
    (hla : ∀ x n, (x, n) ∈ l' → (x = o → ob'.alive = true) ∧ (x ≠ o → (x, n) ∈ c.links ∨ (c.obj x).alive = true)) :
    Inv { c with obj := setObj c.obj o ob', links := l', pool := p', nextHeap := nh', ths := c.ths.set t th' } := by
  refine inv_update (c1 := { c with obj := setObj c.obj o ob', links := l', pool := p', nextHeap := nh' }) (th' := th') h ht rfl hpool
    ?_ ?_ ?_ ?_ ?_ ?_ ?_ hout ?_ ?_ ?_ ?_ ?_ ?_ hmono hlnd ?_ ?_
  · intro x; by_cases hx : x = o
    · subst hx; simp only [setObj_same]; omega
    · have := href x hx; simp only [setObj, hx, if_false]; omega
  · intro x hx; by_cases hxo : x = o
    · subst hxo; simp only [setObj_same]; exact hkeep hx
    · left; simp only [setObj, hxo, if_false]; exact hx
  · intro x hx; by_cases hxo : x = o
    · subst hxo; simp only [setObj_same]; exact hnew (by simp only at hx; omega)
    · have := href x hxo; simp only at hx; omega
  · intro x hx
    rcases hraw x hx with ⟨rfl, h1, h2⟩ | ⟨hne, h1⟩
    · simp only [setObj_same]; exact ⟨h1, h2⟩
    · simp only [setObj, hne, if_false]; exact h.raw t th x ht h1
  · intro x hx hc; by_cases hxo : x = o
    · subst hxo; simp only [setObj_same]; exact hrawO hx hc
    · left; simp only [setObj, hxo, if_false]; exact ⟨hx, hc⟩
  · intro x hx; by_cases hxo : x = o
    · subst hxo; exact hrawN hx
    · rcases hraw x hx with ⟨h1, _⟩ | ⟨_, h1⟩
      · exact absurd h1 hxo
      · exact Or.inl h1
  · intro x; by_cases hxo : x = o
    · subst hxo; simp only [setObj_same]; exact hacq
    · simp only [setObj, hxo, if_false]; exact h.acq x
  · intro k hk
    have ⟨h1, h2⟩ := hfresh k hk
    simp only [setObj, Ne.symm h2, if_false]; exact h.heapFresh k h1
  · intro k; by_cases hxo : Oid.heap k = o
    · subst hxo; simp only [setObj_same]; exact hmgr k rfl
    · simp only [setObj, hxo, if_false]; exact h.heapMgr k
  · intro k; by_cases hxo : Oid.heap k = o
    · subst hxo; simp only [setObj_same]; exact hacq1 k rfl
    · simp only [setObj, hxo, if_false]; exact h.heapAcq k
  · intro s i; by_cases hxo : Oid.node s i = o
    · subst hxo; simp only [setObj_same]; exact hnm s i rfl
    · simp only [setObj, hxo, if_false]; exact h.nodeMgr s i
  · intro s i; by_cases hxo : Oid.node s i = o
    · subst hxo; simp only [setObj_same]; exact hfr s i rfl
    · simp only [setObj, hxo, if_false]; exact h.fresh s i
  · intro s hs
    rcases hsub (.delSlab s) trivial hs with h1 | ⟨s', he, h1⟩
    · have ⟨h2, h3⟩ := h.del t th s ht h1; exact ⟨h2, hmono _ h3⟩
    · cases he; exact h1
  · intro x n hm
    simp only at hm ⊢
    have ⟨h1, h2⟩ := hla x n hm
    by_cases hxo : x = o
    · subst hxo; simp only [setObj_same]; exact h1 rfl
    · simp only [setObj, hxo, if_false]
      rcases h2 hxo with h3 | h3
      · exact h.linkAlive x n h3
      · exact h3
  · intro a n hm
    rcases hsub (.incOld a n) trivial hm with h1 | ⟨s', he, _⟩
    · exact h.noOld t th a n ht h1
    · cases he

end Muscle.Conc.RC
