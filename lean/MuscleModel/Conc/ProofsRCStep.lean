import MuscleModel.Conc.ProofsRCBasic

/-! # Every step of the reference-count / pool machine preserves the joint invariant (lemmas for C10) -/

namespace Muscle.Conc.RC
open Muscle.Conc Muscle.Conc.Pool

/-- a step that touches only thread `t`'s record and the global slots -/
theorem inv_local {c : Cfg} {t : Nat} {th th' : Th} {g' : List (Option Oid)} (h : Inv c) (ht : c.ths[t]? = some th)
    (hcnt : ∀ o, th.refs o + cntS c.glob o = th'.refs o + cntS g' o)
    (hraw : th'.raw = th.raw)
    (hrel : ∀ o, cntRel th'.todo o = cntRel th.todo o)
    (hdel : ∀ s, Act.delSlab s ∈ th'.todo → Act.delSlab s ∈ th.todo) :
    Inv { c with glob := g', ths := c.ths.set t th' } := by
  have := inv_update (c1 := { c with glob := g' }) (th' := th') h ht rfl h.pool
    (by intro o; have := hcnt o; simp only; omega)
    (fun o ha => Or.inl ha)
    (by intro o hlt; have := hcnt o; simp only at hlt; omega)
    (by intro o hr; rw [hraw] at hr; exact h.raw t th o ht hr)
    (fun o ha hc => Or.inl ⟨ha, hc⟩)
    (by intro o hr; rw [hraw] at hr; exact Or.inl hr)
    h.acq
    (by intro o; have := hrel o; simp only; omega)
    h.heapFresh h.heapMgr h.heapAcq h.nodeMgr h.fresh
    (fun s hs => h.del t th s ht (hdel s hs))
    (fun _ hs => hs)
  exact this

theorem cntDec_decOld (x : Option Oid) (o : Oid) : cntDec (decOld x) o = if x = some o then 1 else 0 := by
  cases x with
  | none => simp [decOld, cntDec]
  | some y => simp [decOld, cntDec]

theorem cntRel_decOld (x : Option Oid) (o : Oid) : cntRel (decOld x) o = 0 := by
  cases x <;> simp [decOld, cntRel]

theorem delSlab_not_mem_decOld (x : Option Oid) (s : Slab) : Act.delSlab s ∉ decOld x := by
  cases x <;> simp [decOld]

/-- `slotOf` in terms of `getElem?` for an index in range -/
theorem slotOf_lt {th : Th} {a : Nat} (ha : a < th.slots.length) : th.slots[a]? = some (slotOf th a) := by
  simp [slotOf, List.getElem?_eq_getElem ha]

/-- clearing slot `a` and queueing the decrement for its old content is reference-neutral -/
theorem refs_clear {th : Th} {a : Nat} (ha : a < th.slots.length) (pre post : List Act) (rest : List Op) (o : Oid)
    (hpre : cntDec pre o = 0) (hpost : cntDec post o = 0) (htodo : th.todo = []) :
    ({ th with slots := th.slots.set a none, todo := pre ++ (decOld (slotOf th a) ++ post), prog := rest } : Th).refs o = th.refs o := by
  have := cntS_set (y := none) (o := o) (slotOf_lt ha)
  simp only [Th.refs, cntDec_append, cntDec_decOld, hpre, hpost, htodo, cntDec] at *
  simp at this
  omega


/-- actions that are neither a pending decrement, nor a pending release, nor a pending slab deletion -/
def Neutral (l : List Act) : Prop := (∀ o, cntDec l o = 0) ∧ (∀ o, cntRel l o = 0) ∧ ∀ s, Act.delSlab s ∉ l

theorem inv_clear {c : Cfg} {t : Nat} {th : Th} {a : Nat} (h : Inv c) (ht : c.ths[t]? = some th) (ha : a < th.slots.length)
    (htodo : th.todo = []) (pre post : List Act) (rest : List Op) (hpre : Neutral pre) (hpost : Neutral post) :
    Inv { c with ths := c.ths.set t { th with slots := th.slots.set a none, todo := pre ++ (decOld (slotOf th a) ++ post), prog := rest } } := by
  refine inv_local (g' := c.glob) h ht ?_ rfl ?_ ?_
  · intro o; rw [refs_clear ha pre post rest o (hpre.1 o) (hpost.1 o) htodo]
  · intro o; simp [cntRel_append, cntRel_decOld, hpre.2.1 o, hpost.2.1 o, htodo, cntRel]
  · intro s hs
    simp only [List.mem_append] at hs
    rcases hs with hs | hs | hs
    · exact absurd hs (hpre.2.2 s)
    · exact absurd hs (delSlab_not_mem_decOld _ s)
    · exact absurd hs (hpost.2.2 s)

theorem neutral_nil : Neutral [] := ⟨fun _ => rfl, fun _ => rfl, fun _ => by simp⟩
theorem neutral_obtain : Neutral [.obtain] := ⟨fun _ => rfl, fun _ => rfl, fun _ => by simp⟩
theorem neutral_incRaw (a : Nat) : Neutral [.incRaw a] := ⟨fun _ => rfl, fun _ => rfl, fun _ => by simp⟩
theorem neutral_incFrom (a b : Nat) : Neutral [.incFrom a b] := ⟨fun _ => rfl, fun _ => rfl, fun _ => by simp⟩
theorem neutral_ccast (a b : Nat) : Neutral [.incTmp b, .incSwap a b] := ⟨fun _ => rfl, fun _ => rfl, fun _ => by simp⟩

/-- only the program counter (and neutral pending actions) change -/
theorem inv_todo {c : Cfg} {t : Nat} {th : Th} (h : Inv c) (ht : c.ths[t]? = some th) (htodo : th.todo = [])
    (todo' : List Act) (rest : List Op) (hn : Neutral todo') :
    Inv { c with ths := c.ths.set t { th with todo := todo', prog := rest } } := by
  refine inv_local (g' := c.glob) h ht ?_ rfl ?_ ?_
  · intro o; simp [Th.refs, hn.1 o, htodo, cntDec]
  · intro o; simp [hn.2.1 o, htodo, cntRel]
  · intro s hs; exact absurd hs (hn.2.2 s)


theorem inv_swap {c : Cfg} {t : Nat} {th : Th} {a b : Nat} (h : Inv c) (ht : c.ths[t]? = some th)
    (ha : a < th.slots.length) (hb : b < th.slots.length) (rest : List Op) :
    Inv { c with ths := c.ths.set t { th with slots := (th.slots.set a (slotOf th b)).set b (slotOf th a), prog := rest } } := by
  refine inv_local (g' := c.glob) h ht ?_ rfl (fun _ => rfl) (fun _ hs => hs)
  intro o
  have h1 := cntS_set (y := slotOf th b) (o := o) (slotOf_lt ha)
  have hb1 : (th.slots.set a (slotOf th b))[b]? = some (slotOf th b) := by
    rw [List.getElem?_set]
    by_cases hab : a = b
    · subst hab; simp [ha]
    · simp [hab, slotOf_lt hb]
  have h2 := cntS_set (y := slotOf th a) (o := o) hb1
  simp only [Th.refs]; omega

theorem inv_xchg {c : Cfg} {t : Nat} {th : Th} {a g : Nat} (h : Inv c) (ht : c.ths[t]? = some th)
    (ha : a < th.slots.length) (hg : g < c.glob.length) (rest : List Op) :
    Inv { c with glob := c.glob.set g (slotOf th a), ths := c.ths.set t { th with slots := th.slots.set a ((c.glob[g]?).join), prog := rest } } := by
  refine inv_local h ht ?_ rfl (fun _ => rfl) (fun _ hs => hs)
  intro o
  have h1 := cntS_set (y := (c.glob[g]?).join) (o := o) (slotOf_lt ha)
  have hg1 : c.glob[g]? = some ((c.glob[g]?).join) := by simp [List.getElem?_eq_getElem hg]
  have h2 := cntS_set (y := slotOf th a) (o := o) hg1
  simp only [Th.refs]; omega

theorem slot_refs_pos {c : Cfg} {t : Nat} {th : Th} {a : Nat} {o : Oid} (ht : c.ths[t]? = some th) (hs : slotOf th a = some o) :
    0 < refs c o := by
  have h1 : th.slots[a]? = some (some o) := by
    unfold slotOf at hs
    cases hx : th.slots[a]? with
    | none => rw [hx] at hs; simp at hs
    | some y => rw [hx] at hs; simp at hs; rw [hs]
  have := cntS_pos h1
  have := th_refs_le ht o
  simp only [Th.refs] at *; omega

theorem aliveN_setObj_same_alive (f : Oid → Obj) (o : Oid) (v : Obj) (hv : v.alive = (f o).alive) (x : Oid) :
    aliveN (setObj f o v) x = aliveN f x := by
  cases x with
  | heap k => rfl
  | node s i =>
    by_cases hx : Oid.node s i = o
    · subst hx; simp [aliveN, hv]
    · simp [aliveN, setObj, hx]

theorem aliveN_congr {f g : Oid → Obj} (h : ∀ x, (f x).alive = (g x).alive) (x : Oid) : aliveN f x = aliveN g x := by
  cases x with
  | heap k => rfl
  | node s i => simp [aliveN, h]

theorem inv_write {c : Cfg} {t : Nat} {th : Th} {a : Nat} {o : Oid} (h : Inv c) (ht : c.ths[t]? = some th)
    (hs : slotOf th a = some o) (rest : List Op) (v : Nat) :
    Inv { c with obj := setObj c.obj o { c.obj o with val := v }, ths := c.ths.set t { th with prog := rest } } := by
  have halive := h.alive o (slot_refs_pos ht hs)
  have key : ∀ x, (setObj c.obj o { c.obj o with val := v } x).count = (c.obj x).count ∧
      (setObj c.obj o { c.obj o with val := v } x).alive = (c.obj x).alive ∧
      (setObj c.obj o { c.obj o with val := v } x).acq = (c.obj x).acq ∧
      (setObj c.obj o { c.obj o with val := v } x).rel = (c.obj x).rel ∧
      (setObj c.obj o { c.obj o with val := v } x).mgr = (c.obj x).mgr := by
    intro x; by_cases hx : x = o
    · subst hx; simp
    · simp [setObj, hx]
  refine inv_update (c1 := { c with obj := setObj c.obj o { c.obj o with val := v } }) (th' := { th with prog := rest }) h ht rfl h.pool
    ?_ ?_ ?_ ?_ ?_ ?_ ?_ ?_ ?_ ?_ ?_ ?_ ?_ ?_ (fun _ hs => hs)
  · intro x; simp only [(key x).1, Th.refs]
  · intro x hx; left; simp only [(key x).2.1]; exact hx
  · intro x hx; simp only [Th.refs] at hx; omega
  · intro x hx; simp only [(key x).1, (key x).2.1]; exact h.raw t th x ht hx
  · intro x hx hc; left; simp only [(key x).1, (key x).2.1]; exact ⟨hx, hc⟩
  · intro x hx; exact Or.inl hx
  · intro x; simp only [(key x).2.1, (key x).2.2.1, (key x).2.2.2.1]; exact h.acq x
  · intro x; simp only; rw [aliveN_congr (fun y => (key y).2.1)]
  · intro k hk; simp only [(key _).2.1, (key _).2.2.1]; exact h.heapFresh k hk
  · intro k; simp only [(key _).2.2.2.2]; exact h.heapMgr k
  · intro k; simp only [(key _).2.2.1]; exact h.heapAcq k
  · intro s i hx; simp only [(key _).2.1, (key _).2.2.2.2] at *; exact h.nodeMgr s i hx
  · intro s i hx
    simp only [(key _).2.1, (key _).2.2.2.2] at *
    by_cases he : Oid.node s i = o
    · subst he; rw [halive] at hx; cases hx
    · simp only [setObj, he, if_false]; exact h.fresh s i hx
  · intro s hs'; exact h.del t th s ht hs'


/-- a step that rewrites exactly one object `o` (and possibly the pool, the heap counter and thread `t`'s record) -/
theorem inv_obj1 {c : Cfg} {t : Nat} {th th' : Th} {o : Oid} {ob' : Obj} {p' : PoolSt} {nh' : Nat}
    (h : Inv c) (ht : c.ths[t]? = some th) (hpool : PoolInv p')
    (href : ∀ x, x ≠ o → th'.refs x = th.refs x)
    (hcnt : ob'.count + th.refs o = (c.obj o).count + th'.refs o)
    (hkeep : (c.obj o).alive = true → ob'.alive = true ∨ ob'.count = 0)
    (hnew : th.refs o < th'.refs o → ob'.alive = true)
    (hraw : ∀ x, th'.raw = some x → (x = o ∧ ob'.alive = true ∧ ob'.count = 0) ∨ (x ≠ o ∧ th.raw = some x))
    (hrawO : (c.obj o).alive = true → (c.obj o).count = 0 → (ob'.alive = true ∧ ob'.count = 0) ∨ th.raw = some o)
    (hrawN : th'.raw = some o → th.raw = some o ∨ (c.obj o).alive = false)
    (hacq : ob'.acq = ob'.rel + b2n ob'.alive)
    (hout : ∀ x, aliveN (setObj c.obj o ob') x + cntRel th'.todo x + b2n (outBitO c.pool x) =
                 aliveN c.obj x + cntRel th.todo x + b2n (outBitO p' x))
    (hfresh : ∀ k, nh' ≤ k → c.nextHeap ≤ k ∧ o ≠ .heap k)
    (hmgr : ∀ k, o = .heap k → ob'.mgr = false)
    (hacq1 : ∀ k, o = .heap k → ob'.acq ≤ 1)
    (hnm : ∀ s i, o = .node s i → ob'.alive = true → ob'.mgr = true)
    (hfr : ∀ s i, o = .node s i → ob'.alive = false → ob'.val = 0 ∧ ob'.mgr = false)
    (hdel : ∀ s, Act.delSlab s ∈ th'.todo → Act.delSlab s ∈ th.todo ∨ (s.inUse = 0 ∧ Unlisted p' s.id))
    (hmono : ∀ sid, Unlisted c.pool sid → Unlisted p' sid) :
    Inv { c with obj := setObj c.obj o ob', pool := p', nextHeap := nh', ths := c.ths.set t th' } := by
  refine inv_update (c1 := { c with obj := setObj c.obj o ob', pool := p', nextHeap := nh' }) (th' := th') h ht rfl hpool
    ?_ ?_ ?_ ?_ ?_ ?_ ?_ hout ?_ ?_ ?_ ?_ ?_ ?_ hmono
  · intro x; by_cases hx : x = o
    · subst hx; simp only [setObj_same]; omega
    · simp only [setObj, hx, if_false, href x hx]
  · intro x hx; by_cases hxo : x = o
    · subst hxo; simp only [setObj_same]; exact hkeep hx
    · left; simp only [setObj, hxo, if_false]; exact hx
  · intro x hx; by_cases hxo : x = o
    · subst hxo; simp only [setObj_same]; exact hnew (by simp only at hx; omega)
    · simp only [href x hxo] at hx; omega
  · intro x hx
    rcases hraw x hx with ⟨rfl, h1, h2⟩ | ⟨hne, h1⟩
    · simp only [setObj_same]; exact ⟨h1, h2⟩
    · simp only [setObj, hne, if_false]; exact h.raw t th x ht h1
  · intro x hx hc; by_cases hxo : x = o
    · subst hxo; simp only [setObj_same]; exact hrawO hx hc
    · left; simp only [setObj, hxo, if_false]; exact ⟨hx, hc⟩
  · intro x hx; by_cases hxo : x = o
    · subst hxo; exact hrawN hx
    · rcases hraw x hx with ⟨h1, _⟩ | ⟨_, h1⟩
      · exact absurd h1 hxo
      · exact Or.inl h1
  · intro x; by_cases hxo : x = o
    · subst hxo; simp only [setObj_same]; exact hacq
    · simp only [setObj, hxo, if_false]; exact h.acq x
  · intro k hk
    have ⟨h1, h2⟩ := hfresh k hk
    simp only [setObj, Ne.symm h2, if_false]; exact h.heapFresh k h1
  · intro k; by_cases hxo : Oid.heap k = o
    · subst hxo; simp only [setObj_same]; exact hmgr k rfl
    · simp only [setObj, hxo, if_false]; exact h.heapMgr k
  · intro k; by_cases hxo : Oid.heap k = o
    · subst hxo; simp only [setObj_same]; exact hacq1 k rfl
    · simp only [setObj, hxo, if_false]; exact h.heapAcq k
  · intro s i; by_cases hxo : Oid.node s i = o
    · subst hxo; simp only [setObj_same]; exact hnm s i rfl
    · simp only [setObj, hxo, if_false]; exact h.nodeMgr s i
  · intro s i; by_cases hxo : Oid.node s i = o
    · subst hxo; simp only [setObj_same]; exact hfr s i rfl
    · simp only [setObj, hxo, if_false]; exact h.fresh s i
  · intro s hs
    rcases hdel s hs with h1 | h1
    · have ⟨h2, h3⟩ := h.del t th s ht h1; exact ⟨h2, hmono _ h3⟩
    · exact h1


theorem aliveN_setObj_alive (f : Oid → Obj) (o : Oid) (v : Obj) (hv : v.alive = (f o).alive) (x : Oid) :
    aliveN (setObj f o v) x = aliveN f x := by
  apply aliveN_congr
  intro y; by_cases hy : y = o
  · subst hy; simp [hv]
  · simp [setObj, hy]

/-- one more reference to a live object `o`: the count goes up by one -/
theorem inv_inc {c : Cfg} {t : Nat} {th th' : Th} {o : Oid} (h : Inv c) (ht : c.ths[t]? = some th)
    (halive : (c.obj o).alive = true)
    (hr : ∀ x, th'.refs x = th.refs x + (if x = o then 1 else 0))
    (hraws : (th'.raw = th.raw ∧ 0 < (c.obj o).count) ∨ (th.raw = some o ∧ th'.raw = none))
    (hrel : ∀ x, cntRel th'.todo x = cntRel th.todo x)
    (hdel : ∀ s, Act.delSlab s ∈ th'.todo → Act.delSlab s ∈ th.todo) :
    Inv { c with obj := setObj c.obj o { c.obj o with count := (c.obj o).count + 1 }, ths := c.ths.set t th' } := by
  have := inv_obj1 (o := o) (ob' := { c.obj o with count := (c.obj o).count + 1 }) (p' := c.pool) (nh' := c.nextHeap) (th' := th') h ht h.pool
    (by intro x hx; simp [hr x, hx])
    (by have := hr o; simp at this; simp only; omega)
    (fun _ => Or.inl halive)
    (fun _ => halive)
    (by
      intro x hx
      rcases hraws with ⟨h1, h2⟩ | ⟨h1, h2⟩
      · rw [h1] at hx
        by_cases hxo : x = o
        · subst hxo; have := (h.raw t th x ht hx).2; omega
        · exact Or.inr ⟨hxo, hx⟩
      · rw [h2] at hx; cases hx)
    (by
      intro _ hc
      rcases hraws with ⟨_, h2⟩ | ⟨h1, _⟩
      · omega
      · exact Or.inr h1)
    (by
      intro hx
      rcases hraws with ⟨h1, _⟩ | ⟨_, h2⟩
      · rw [h1] at hx; exact Or.inl hx
      · rw [h2] at hx; cases hx)
    (by simp only; exact h.acq o)
    (by intro x; rw [aliveN_setObj_alive c.obj o { c.obj o with count := (c.obj o).count + 1 } rfl, hrel x])
    (by
      intro k hk; refine ⟨hk, ?_⟩
      intro he; subst he; have := (h.heapFresh k hk).1; rw [halive] at this; cases this)
    (by intro k hk; subst hk; simp only; exact h.heapMgr k)
    (by intro k hk; subst hk; simp only; exact h.heapAcq k)
    (by intro s i hk _; subst hk; simp only; exact h.nodeMgr s i halive)
    (by intro s i hk ha; subst hk; simp only at ha; rw [halive] at ha; cases ha)
    (fun s hs => Or.inl (hdel s hs))
    (fun _ hs => hs)
  exact this

end Muscle.Conc.RC
