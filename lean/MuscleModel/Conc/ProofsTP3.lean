import MuscleModel.Conc.ProofsTP2

/-! # C19 proofs, layer 3: progress invariants of the pool side (who is enabled) -/

namespace Muscle.Conc.TP
open Muscle.Conc

theorem inbox_nil_of_none (l : List Item) (h1 : Item.batch ∉ l) (h2 : Item.quit ∉ l) : l = [] := by
  cases l with
  | nil => rfl
  | cons a r => cases a <;> simp at h1 h2

theorem head_append_quit (l : List Item) : (l ++ [Item.quit]).head? = some Item.batch ↔ l.head? = some Item.batch := by
  cases l <;> simp

theorem tail_append_quit (l : List Item) : Item.batch ∈ (l ++ [Item.quit]).tail ↔ Item.batch ∈ l.tail := by
  cases l <;> simp

/-- at the lock of `ThreadFinishedProcessingClientMessages` -/
def isFin : PPc → Bool
  | .finLock _ => true
  | _ => false

/-- pool-side progress invariants -/
structure InvP (c : Cfg) : Prop where
  born : ∀ T, T < c.p.idc → (c.pth T).pc ≠ .unborn
  unb : ∀ T, c.p.idc ≤ T → (c.pth T).pc = .unborn
  hq : ∀ T, (c.pth T).pc = .handler → ∃ k m q, (c.pth T).cur = some k ∧ (c.pth T).queue = m :: q
  g : ∀ T k, (c.pth T).cur = some k → (c.pth T).pc = .handler ∨ (((c.pth T).pc = .start ∨ (c.pth T).pc = .idle) ∧ (c.pth T).inbox.head? = some .batch)
  a2 : c.p.shut = false → ∀ T, T ∈ c.p.availR → (c.pth T).inbox = [] ∧ ((c.pth T).pc = .idle ∨ (c.pth T).pc = .start)
  b1 : ∀ T, Item.batch ∈ (c.pth T).inbox → (∃ k, (c.pth T).cur = some k) ∧ ((c.pth T).pc = .start ∨ (c.pth T).pc = .idle)
  b2 : ∀ T, Item.batch ∉ (c.pth T).inbox.tail
  q1 : ∀ T, Item.quit ∈ (c.pth T).inbox → c.p.shut = true
  kk : ∀ k, c.p.pend k ≠ [] → k ∈ c.p.pendK
  ac : c.p.shut = false → ∀ T, T ∈ c.p.active → (c.pth T).cur ≠ none ∨ isFin (c.pth T).pc = true

theorem InvP.congr {c c' : Cfg} (h : InvP c) (h1 : c'.pth = c.pth := by rfl) (h2 : c'.p.idc = c.p.idc := by rfl)
    (h3 : c'.p.availR = c.p.availR := by rfl) (h4 : c'.p.active = c.p.active := by rfl) (h5 : c'.p.shut = c.p.shut := by rfl)
    (h7 : c'.p.pend = c.p.pend := by rfl) (h8 : c'.p.pendK = c.p.pendK := by rfl) : InvP c' := by
  obtain ⟨g1, g2, g3, g4, g5, g6, g7, g8, g9, g10⟩ := h
  constructor <;> simp only [h1, h2, h3, h4, h5, h7, h8] at * <;> assumption

theorem invP_spawnIfNeeded {c : Cfg} (h : InvP c) (h0 : Inv0 c) : InvP (spawnIfNeeded c) := by
  unfold spawnIfNeeded
  split
  · rename_i hc
    obtain ⟨g1, g2, g3, g4, g5, g6, g7, g8, g9, g10⟩ := h
    have hlA := h0.ltA
    have hlB := h0.ltB
    constructor <;> (simp only [upd, PTh.fresh, isFin] at *; grind)
  · exact h

theorem invP_assign {c : Cfg} {k : Client} {T : PTid} {rest : List PTid} (h : InvP c) (h0 : Inv0 c) (ha : c.p.availR = T :: rest)
    (hs : c.p.shut = false) : InvP (assign c k T rest) := by
  have hT := h0.availIdle T (by rw [ha]; simp)
  have hnd := h0.ndA
  have hlt := h0.ltA T (by rw [ha]; simp)
  have hTa := h.a2 hs T (by rw [ha]; simp)
  rw [ha] at hnd
  have hTr : T ∉ rest := (List.nodup_cons.1 hnd).1
  obtain ⟨g1, g2, g3, g4, g5, g6, g7, g8, g9, g10⟩ := h
  constructor <;> (simp only [upd, assign, isFin] at *; grind)

theorem invP_dispatchLoop (ks : List Client) {c : Cfg} (h : InvP c) (h0 : Inv0 c) (hs : c.p.shut = false)
    (hk : ∀ k, c.p.pend k ≠ [] → k ∈ ks) : InvP (dispatchLoop ks c) := by
  induction ks generalizing c with
  | nil =>
    obtain ⟨g1, g2, g3, g4, g5, g6, g7, g8, g9, g10⟩ := h
    constructor <;> (simp only [dispatchLoop] at *; grind)
  | cons k ks ih =>
    unfold dispatchLoop
    split
    · rename_i hc
      split
      · rename_i T rest ha
        have hsp := spawn_avail_cases c
        have h0s := inv0_spawnIfNeeded h0
        have hkr : k ∈ (spawnIfNeeded c).p.regK := by rw [hsp.1]; exact hc.1
        have hss : (spawnIfNeeded c).p.shut = false := by rw [hsp.2.2.1]; exact hs
        refine ih (invP_assign (invP_spawnIfNeeded h h0) h0s ha hss) (inv0_assign h0s ha hkr) (by simp [assign, hss]) ?_
        intro k' hk'
        simp only [assign, upd] at hk'
        split at hk'
        · exact absurd rfl hk'
        · rename_i hne
          rw [hsp.2.1] at hk'
          have := hk k' hk'
          simp only [List.mem_cons] at this
          rcases this with h1 | h1
          · exact absurd h1 hne
          · exact h1
      · obtain ⟨g1, g2, g3, g4, g5, g6, g7, g8, g9, g10⟩ := h
        constructor <;> (simp only [] at *; grind)
    · rename_i hc
      have hpk : c.p.pend k = [] := by
        by_cases hr : k ∈ c.p.regK
        · by_cases hp : c.p.pend k = []
          · exact hp
          · exact absurd ⟨hr, hp⟩ hc
        · exact (h0.wfQ k hr).1
      have he : upd c.p.pend k [] = c.p.pend := by funext x; simp only [upd]; split <;> simp_all
      refine ih (h.congr (h7 := he)) (h0.congr' rfl (h7 := he)) hs ?_
      intro k' hk'
      replace hk' : c.p.pend k' ≠ [] := by simpa only [he] using hk'
      have := hk k' hk'
      simp only [List.mem_cons] at this
      rcases this with h1 | h1
      · subst h1; exact absurd hpk hk'
      · exact h1

theorem invP_dispatch {c : Cfg} (h : InvP c) (h0 : Inv0 c) : InvP (dispatch c) := by
  unfold dispatch; split
  · exact h
  · rename_i hs; exact invP_dispatchLoop _ h h0 (by simpa using hs) h.kk

theorem invP_addDefr {c : Cfg} (k : Client) (m : MsgId) (h : InvP c) : InvP (addDefr c k m) := h.congr

theorem invP_addPend {c : Cfg} (k : Client) (m : MsgId) (h : InvP c) : InvP (addPend c k m) := by
  obtain ⟨g1, g2, g3, g4, g5, g6, g7, g8, g9, g10⟩ := h
  constructor <;> (simp only [addPend, upd, mem_addKey] at *; grind)

theorem invP_subCS {c : Cfg} (k : Client) (m : MsgId) (h : InvP c) (h0 : Inv0 c) : InvP (subCS c k m).1 := by
  unfold subCS
  split
  · exact h
  · rename_i hk
    have hk' : k ∈ c.p.regK := by simpa using hk
    split
    · exact invP_addDefr k m h
    · rename_i hf
      have hf' : c.p.flag k = false := by simpa using hf
      split
      · exact invP_dispatch (invP_addPend k m h) (inv0_addPend k m h0 hk' hf')
      · exact invP_addPend k m h

/-- the first half of `ThreadFinishedProcessingClientMessages(T, k)`: thread T leaves the lock wait, hands k back and
returns to the available table -/
def finPrefix (c : Cfg) (T : PTid) (k : Client) : Cfg := release (handBack { c with pth := upd c.pth T { (c.pth T) with pc := .idle } } k) T

theorem finishCS_eq (c : Cfg) (T : PTid) (k : Client) (hs : c.p.shut = false) :
    finishCS { c with pth := upd c.pth T { (c.pth T) with pc := .idle } } T k = wake (dispatch (finPrefix c T k)) k := by
  simp [finishCS, finPrefix, hs]

theorem invP_finPrefix {c : Cfg} (T : PTid) (k : Client) (h : InvP c) (h0 : Inv0 c) (hpc : (c.pth T).pc = .finLock k) (hs : c.p.shut = false) :
    InvP (finPrefix c T k) := by
  have hc := h0.finCur T k hpc
  have hin : (c.pth T).inbox = [] := by
    apply inbox_nil_of_none
    · intro hb; obtain ⟨⟨k', hk'⟩, _⟩ := h.b1 T hb; rw [hc] at hk'; cases hk'
    · intro hq; have := h.q1 T hq; rw [hs] at this; cases this
  have hnd := h0.ndB
  obtain ⟨g1, g2, g3, g4, g5, g6, g7, g8, g9, g10⟩ := h
  unfold finPrefix release handBack
  simp only
  split <;> split <;> (try split) <;>
    (constructor <;> (simp only [upd, isFin, mem_remKey, mem_addKey] at *; grind))

theorem invP_wake {c : Cfg} (k : Client) (h : InvP c) : InvP (wake c k) := by
  unfold wake; split
  · exact h.congr
  · exact h

theorem invP_fetch {c : Cfg} (T : PTid) (h : InvP c) (h0 : Inv0 c) (hpc : (c.pth T).pc = .start ∨ (c.pth T).pc = .idle) : InvP (fetch c T).1 := by
  have hav := h0.availIdle T
  have hfc := h0.finCur T
  obtain ⟨g1, g2, g3, g4, g5, g6, g7, g8, g9, g10⟩ := h
  have hb1 := g6 T
  have hb2 := g7 T
  have hq1 := g8 T
  have hg := g4 T
  have ha2 := fun hs => g5 hs T
  unfold fetch
  simp only
  split
  · rename_i hin
    constructor <;> (simp only [upd, isFin] at *; grind)
  · rename_i rest hin
    rw [hin] at hb1 hb2 hq1 hg
    simp only [List.tail_cons, List.mem_cons, true_or, forall_const, List.head?_cons] at hb1 hb2 hq1 hg
    have hsub : ∀ x, x ∈ rest.tail → x ∈ rest := fun x => List.mem_of_mem_tail
    constructor <;> (simp only [upd, isFin] at *; grind)
  · rename_i rest hin
    rw [hin] at hb1 hb2 hq1 hg
    simp only [List.tail_cons, List.mem_cons, true_or, forall_const, List.head?_cons] at hb1 hb2 hq1 hg
    have hsub : ∀ x, x ∈ rest.tail → x ∈ rest := fun x => List.mem_of_mem_tail
    split
    · constructor <;> (simp only [upd, isFin] at *; grind)
    · constructor <;> (simp only [upd, isFin] at *; grind)
    · constructor <;> (simp only [upd, isFin] at *; grind)

theorem invP_sdNext {c : Cfg} (t : Tid) (b : Bool) (nA total n : Nat) (l : List PTid) (h : InvP c) (hs : c.p.shut = true) :
    InvP (sdNext c t b nA total n l) := by
  unfold sdNext
  split
  · rename_i T rest
    have e1 := head_append_quit (c.pth T).inbox
    have e2 := tail_append_quit (c.pth T).inbox
    obtain ⟨g1, g2, g3, g4, g5, g6, g7, g8, g9, g10⟩ := h
    constructor <;> (simp only [upd, isFin] at *; grind)
  · split
    · exact h.congr
    · split <;> exact h.congr

theorem dispatchLoop_pc (ks : List Client) (c : Cfg) (T : PTid) (hT : T < c.p.idc) :
    ((dispatchLoop ks c).pth T).pc = (c.pth T).pc ∧ c.p.idc ≤ (dispatchLoop ks c).p.idc := by
  induction ks generalizing c with
  | nil => exact ⟨rfl, Nat.le_refl _⟩
  | cons k ks ih =>
    unfold dispatchLoop
    split
    · split
      · rename_i T' rest ha
        have hs : ((spawnIfNeeded c).pth T).pc = (c.pth T).pc ∧ c.p.idc ≤ (spawnIfNeeded c).p.idc := by
          unfold spawnIfNeeded; split
          · refine ⟨?_, Nat.le_succ _⟩
            simp only [upd]
            rw [if_neg (Nat.ne_of_lt hT)]
          · exact ⟨rfl, Nat.le_refl _⟩
        have hT2 : T < (assign (spawnIfNeeded c) k T' rest).p.idc := Nat.lt_of_lt_of_le hT hs.2
        have := ih (assign (spawnIfNeeded c) k T' rest) hT2
        constructor
        · rw [this.1]; simp only [assign, upd]; split
          · rename_i h; subst h; exact hs.1
          · exact hs.1
        · exact Nat.le_trans hs.2 this.2
      · exact ⟨rfl, Nat.le_refl _⟩
    · exact ih _ hT

theorem dispatch_pc (c : Cfg) (T : PTid) (hT : T < c.p.idc) : ((dispatch c).pth T).pc = (c.pth T).pc := by
  unfold dispatch; split
  · rfl
  · exact (dispatchLoop_pc _ c T hT).1

theorem finPrefix_fields (c : Cfg) (T : PTid) (k : Client) :
    (finPrefix c T k).p.idc = c.p.idc ∧ ((finPrefix c T k).pth T).pc = .idle ∧ (finPrefix c T k).p.shut = c.p.shut := by
  unfold finPrefix release handBack
  simp only
  split <;> split <;> (try split) <;> simp [upd]

theorem invP_stepPool {c c' : Cfg} {T : PTid} {o} (h : InvP c) (h0 : Inv0 c) (hs : stepPool c T = some (c', o)) : InvP c' := by
  unfold stepPool at hs
  simp only at hs
  split at hs
  · simp at hs
  · simp at hs
  · rename_i hpc
    simp only [Option.some.injEq] at hs; have : c' = (fetch c T).1 := by rw [hs]
    rw [this]; exact invP_fetch T h h0 (Or.inl hpc)
  · rename_i hpc
    split at hs
    · simp at hs
    · simp only [Option.some.injEq] at hs; have : c' = (fetch c T).1 := by rw [hs]
      rw [this]; exact invP_fetch T h h0 (Or.inr hpc)
  · rename_i hpc
    have hav := h0.availIdle T
    obtain ⟨g1, g2, g3, g4, g5, g6, g7, g8, g9, g10⟩ := h
    have hg := g4 T
    split at hs
    · simp only [Option.some.injEq, Prod.mk.injEq] at hs; obtain ⟨rfl, _⟩ := hs
      constructor <;> (simp only [upd, isFin] at *; grind)
    · simp only [Option.some.injEq, Prod.mk.injEq] at hs; obtain ⟨rfl, _⟩ := hs
      constructor <;> (simp only [upd, isFin] at *; grind)
    · simp at hs
  · rename_i k hpc
    simp only [Option.some.injEq] at hs
    have : c' = (fetch (finishCS { c with pth := upd c.pth T { (c.pth T) with pc := .idle } } T k) T).1 := by rw [hs]
    rw [this]
    have hlt : T < c.p.idc := by
      by_cases hlt : T < c.p.idc
      · exact hlt
      · have := h.unb T (Nat.le_of_not_lt hlt); rw [hpc] at this; cases this
    cases hsh : c.p.shut with
    | true =>
      have hi : InvP { c with pth := upd c.pth T { (c.pth T) with pc := .idle } } := by
        have hfc := h0.finCur T k hpc
        obtain ⟨g1, g2, g3, g4, g5, g6, g7, g8, g9, g10⟩ := h
        constructor <;> (simp only [upd, isFin] at *; grind)
      have he : finishCS { c with pth := upd c.pth T { (c.pth T) with pc := .idle } } T k = { c with pth := upd c.pth T { (c.pth T) with pc := .idle } } := by
        simp [finishCS, hsh]
      rw [he]
      exact invP_fetch T hi (inv0_setIdle T h0) (Or.inr (by simp [upd]))
    | false =>
      rw [finishCS_eq c T k hsh]
      have hp := invP_finPrefix T k h h0 hpc hsh
      have hf := finPrefix_fields c T k
      have hp0 : Inv0 (finPrefix c T k) := by
        unfold finPrefix
        exact inv0_release T (inv0_handBack k (inv0_setIdle T h0)) (by rw [handBack_pth]; simp [upd, h0.finCur T k hpc])
      have hd := invP_dispatch hp hp0
      have hd0 := inv0_dispatch hp0
      refine invP_fetch T (invP_wake k hd) (inv0_wake k hd0) (Or.inr ?_)
      rw [wake_pth, dispatch_pc _ T (by rw [hf.1]; exact hlt)]
      exact hf.2.1

theorem invP_stepUser {c c' : Cfg} {t : Tid} {o} (h : InvP c) (h0 : Inv0 c) (h1 : Inv1 c) (hs : stepUser c t = some (c', o)) : InvP c' := by
  unfold stepUser at hs
  simp only at hs
  split at hs
  · simp at hs
  · split at hs
    · simp at hs
    all_goals first
      | (split at hs <;> (simp only [Option.some.injEq, Prod.mk.injEq] at hs; obtain ⟨rfl, _⟩ := hs; exact h.congr))
      | (simp only [Option.some.injEq, Prod.mk.injEq] at hs; obtain ⟨rfl, _⟩ := hs; exact h.congr)
  · simp only [Option.some.injEq, Prod.mk.injEq] at hs; obtain ⟨rfl, _⟩ := hs
    exact (invP_subCS _ _ h h0).congr
  · simp only [Option.some.injEq, Prod.mk.injEq] at hs; obtain ⟨rfl, _⟩ := hs; exact h.congr
  · split at hs <;> (simp only [Option.some.injEq, Prod.mk.injEq] at hs; obtain ⟨rfl, _⟩ := hs; exact h.congr)
  · split at hs
    · simp only [Option.some.injEq, Prod.mk.injEq] at hs; obtain ⟨rfl, _⟩ := hs; exact h.congr
    · simp at hs
  · simp only [Option.some.injEq, Prod.mk.injEq] at hs; obtain ⟨rfl, _⟩ := hs
    obtain ⟨g1, g2, g3, g4, g5, g6, g7, g8, g9, g10⟩ := h
    constructor <;> (simp only [upd, isFin, mem_remKey] at *; grind)
  · simp only [Option.some.injEq, Prod.mk.injEq] at hs; obtain ⟨rfl, _⟩ := hs
    obtain ⟨g1, g2, g3, g4, g5, g6, g7, g8, g9, g10⟩ := h
    constructor <;> (simp only [upd, isFin] at *; grind)
  · rename_i b nA tot hpc
    have hsh := h1.sdShut t (by simp [hpc, inShutdown])
    split at hs
    · simp only [Option.some.injEq, Prod.mk.injEq] at hs; obtain ⟨rfl, _⟩ := hs
      refine invP_sdNext _ _ _ _ _ _ ?_ hsh
      obtain ⟨g1, g2, g3, g4, g5, g6, g7, g8, g9, g10⟩ := h
      constructor <;> (simp only [upd, isFin] at *; grind)
    · simp only [Option.some.injEq, Prod.mk.injEq] at hs; obtain ⟨rfl, _⟩ := hs
      refine invP_sdNext _ _ _ _ _ _ ?_ hsh
      obtain ⟨g1, g2, g3, g4, g5, g6, g7, g8, g9, g10⟩ := h
      constructor <;> (simp only [upd, isFin] at *; grind)
  · rename_i b nA tot n T r hpc
    have hsh := h1.sdShut t (by simp [hpc, inShutdown])
    split at hs
    · simp only [Option.some.injEq, Prod.mk.injEq] at hs; obtain ⟨rfl, _⟩ := hs; exact invP_sdNext _ _ _ _ _ _ h hsh
    · simp at hs
  · rename_i tot hpc
    have hsh := h1.sdShut t (by simp [hpc, inShutdown])
    simp only [Option.some.injEq, Prod.mk.injEq] at hs; obtain ⟨rfl, _⟩ := hs
    obtain ⟨g1, g2, g3, g4, g5, g6, g7, g8, g9, g10⟩ := h
    constructor <;> (simp only [upd, isFin] at *; grind)

theorem invP_init (maxT : Nat) (regs : List Client) (progs : List (List Op)) : InvP (Cfg.init maxT regs progs) := by
  constructor <;> simp [Cfg.init, Pool.init, PTh.absent]
