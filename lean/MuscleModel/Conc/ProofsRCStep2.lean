import MuscleModel.Conc.ProofsRCStep

/-! # Preservation of the joint invariant by the granted actions (`doAct`) and by `startOp` (lemmas for C10) -/

namespace Muscle.Conc.RC
open Muscle.Conc Muscle.Conc.Pool

theorem cntDec_cons (a : Act) (l : List Act) (o : Oid) : cntDec (a :: l) o = cntDec [a] o + cntDec l o := by
  rw [← cntDec_append]; rfl

theorem cntRel_cons (a : Act) (l : List Act) (o : Oid) : cntRel (a :: l) o = cntRel [a] o + cntRel l o := by
  rw [← cntRel_append]; rfl

/-- dropping a neutral head action -/
theorem inv_drop {c : Cfg} {t : Nat} {th : Th} {act : Act} {more : List Act} (h : Inv c) (ht : c.ths[t]? = some th)
    (htodo : th.todo = act :: more) (hn : Neutral [act]) :
    Inv { c with ths := c.ths.set t { th with todo := more } } := by
  refine inv_local (g' := c.glob) h ht ?_ rfl ?_ ?_
  · intro o; simp only [Th.refs, htodo]; rw [cntDec_cons act more, hn.1 o]; omega
  · intro o; simp only [htodo]; rw [cntRel_cons act more, hn.2.1 o]; omega
  · intro s hs; rw [htodo]; exact List.mem_cons_of_mem _ hs

theorem neutral_single_incTmp (b : Nat) : Neutral [.incTmp b] := ⟨fun _ => rfl, fun _ => rfl, fun _ => by simp⟩
theorem neutral_single_incSwap (a b : Nat) : Neutral [.incSwap a b] := ⟨fun _ => rfl, fun _ => rfl, fun _ => by simp⟩

/-- dropping the pending slab deletion -/
theorem inv_delSlab {c : Cfg} {t : Nat} {th : Th} {s : Slab} {more : List Act} (h : Inv c) (ht : c.ths[t]? = some th)
    (htodo : th.todo = .delSlab s :: more) :
    Inv { c with ths := c.ths.set t { th with todo := more } } := by
  refine inv_local (g' := c.glob) h ht ?_ rfl ?_ ?_
  · intro o; simp only [Th.refs, htodo, cntDec]
  · intro o; simp only [htodo, cntRel]
  · intro s' hs; rw [htodo]; exact List.mem_cons_of_mem _ hs

theorem slot_alive {c : Cfg} {t : Nat} {th : Th} {b : Nat} {o : Oid} (h : Inv c) (ht : c.ths[t]? = some th) (hs : slotOf th b = some o) :
    (c.obj o).alive = true ∧ 0 < (c.obj o).count := by
  have hp := slot_refs_pos ht hs
  exact ⟨h.alive o hp, by rw [h.cnt o]; exact hp⟩

theorem inv_incFrom {c : Cfg} {t : Nat} {th : Th} {a b : Nat} {o : Oid} {more : List Act} (h : Inv c) (ht : c.ths[t]? = some th)
    (htodo : th.todo = .incFrom a b :: more) (ha : th.slots[a]? = some none) (hs : slotOf th b = some o) :
    Inv { c with obj := setObj c.obj o { c.obj o with count := (c.obj o).count + 1 },
                 ths := c.ths.set t { th with slots := th.slots.set a (some o), todo := more } } := by
  have ⟨hal, hc⟩ := slot_alive h ht hs
  refine inv_inc h ht hal ?_ (Or.inl ⟨rfl, hc⟩) ?_ ?_
  · intro x
    have := cntS_set (y := some o) (o := x) ha
    simp only [Th.refs, htodo, cntDec] at *
    simp at this
    by_cases hx : x = o
    · subst hx; simp at this ⊢; omega
    · have hx' : ¬ o = x := fun e => hx e.symm
      simp [hx, hx'] at this ⊢; omega
  · intro x; simp only [htodo, cntRel]
  · intro s hs'; rw [htodo]; exact List.mem_cons_of_mem _ hs'

theorem inv_incRaw {c : Cfg} {t : Nat} {th : Th} {a : Nat} {o : Oid} {more : List Act} (h : Inv c) (ht : c.ths[t]? = some th)
    (htodo : th.todo = .incRaw a :: more) (ha : th.slots[a]? = some none) (hs : th.raw = some o) :
    Inv { c with obj := setObj c.obj o { c.obj o with count := (c.obj o).count + 1 },
                 ths := c.ths.set t { th with slots := th.slots.set a (some o), raw := none, todo := more } } := by
  have ⟨hal, _⟩ := h.raw t th o ht hs
  refine inv_inc h ht hal ?_ (Or.inr ⟨hs, rfl⟩) ?_ ?_
  · intro x
    have := cntS_set (y := some o) (o := x) ha
    simp only [Th.refs, htodo, cntDec] at *
    simp at this
    by_cases hx : x = o
    · subst hx; simp at this ⊢; omega
    · have hx' : ¬ o = x := fun e => hx e.symm
      simp [hx, hx'] at this ⊢; omega
  · intro x; simp only [htodo, cntRel]
  · intro s hs'; rw [htodo]; exact List.mem_cons_of_mem _ hs'

theorem inv_incTmp {c : Cfg} {t : Nat} {th : Th} {b : Nat} {o : Oid} {more : List Act} (h : Inv c) (ht : c.ths[t]? = some th)
    (htodo : th.todo = .incTmp b :: more) (hs : slotOf th b = some o) :
    Inv { c with obj := setObj c.obj o { c.obj o with count := (c.obj o).count + 1 },
                 ths := c.ths.set t { th with todo := more ++ [.dec o] } } := by
  have ⟨hal, hc⟩ := slot_alive h ht hs
  refine inv_inc h ht hal ?_ (Or.inl ⟨rfl, hc⟩) ?_ ?_
  · intro x
    simp only [Th.refs, htodo, cntDec, cntDec_append]
    by_cases hx : x = o
    · subst hx; simp; omega
    · have hx' : ¬ o = x := fun e => hx e.symm
      simp [hx, hx']
  · intro x; simp only [htodo, cntRel, cntRel_append]; omega
  · intro s hs'
    simp only [List.mem_append, List.mem_singleton] at hs'
    rcases hs' with hs' | hs'
    · rw [htodo]; exact List.mem_cons_of_mem _ hs'
    · cases hs'

theorem inv_incSwap {c : Cfg} {t : Nat} {th : Th} {a b : Nat} {o : Oid} {more : List Act} (h : Inv c) (ht : c.ths[t]? = some th)
    (htodo : th.todo = .incSwap a b :: more) (ha : a < th.slots.length) (hs : slotOf th b = some o) :
    Inv { c with obj := setObj c.obj o { c.obj o with count := (c.obj o).count + 1 },
                 ths := c.ths.set t { th with slots := th.slots.set a (some o), todo := decOld (slotOf th a) ++ more } } := by
  have ⟨hal, hc⟩ := slot_alive h ht hs
  refine inv_inc h ht hal ?_ (Or.inl ⟨rfl, hc⟩) ?_ ?_
  · intro x
    have := cntS_set (y := some o) (o := x) (slotOf_lt ha)
    simp only [Th.refs, htodo, cntDec, cntDec_append, cntDec_decOld] at *
    by_cases hx : x = o
    · subst hx; simp at this ⊢; omega
    · have hx' : ¬ o = x := fun e => hx e.symm
      simp [hx, hx'] at this ⊢; omega
  · intro x; simp only [htodo, cntRel, cntRel_append, cntRel_decOld]; omega
  · intro s hs'
    simp only [List.mem_append] at hs'
    rcases hs' with hs' | hs'
    · exact absurd hs' (delSlab_not_mem_decOld _ s)
    · rw [htodo]; exact List.mem_cons_of_mem _ hs'


theorem dec_facts {c : Cfg} {t : Nat} {th : Th} {o : Oid} {more : List Act} (h : Inv c) (ht : c.ths[t]? = some th)
    (htodo : th.todo = .dec o :: more) :
    (c.obj o).alive = true ∧ 0 < (c.obj o).count ∧ th.raw ≠ some o ∧ ∀ k, c.nextHeap ≤ k → o ≠ .heap k := by
  have h1 : 0 < th.refs o := by simp [Th.refs, htodo, cntDec]; omega
  have h2 := th_refs_le ht o
  have hal := h.alive o (by omega)
  have hc : 0 < (c.obj o).count := by rw [h.cnt o]; omega
  refine ⟨hal, hc, ?_, ?_⟩
  · intro hr; have := (h.raw t th o ht hr).2; omega
  · intro k hk he; subst he; have := (h.heapFresh k hk).1; rw [hal] at this; cases this

theorem aliveN_setObj_heap (f : Oid → Obj) (k : Nat) (v : Obj) (x : Oid) : aliveN (setObj f (.heap k) v) x = aliveN f x := by
  cases x with
  | heap j => rfl
  | node s i => simp [aliveN, setObj]

theorem aliveN_setObj_node (f : Oid → Obj) (s i : Nat) (v : Obj) (x : Oid) :
    aliveN (setObj f (.node s i) v) x + (if x = .node s i then b2n (f (.node s i)).alive else 0) =
    aliveN f x + (if x = .node s i then b2n v.alive else 0) := by
  cases x with
  | heap j => simp [aliveN]
  | node s' i' =>
    by_cases hx : Oid.node s' i' = Oid.node s i
    · rw [hx]; simp [aliveN]; omega
    · simp [aliveN, setObj, hx]

/-- the decrement that does not reach zero -/
theorem inv_dec_more {c : Cfg} {t : Nat} {th : Th} {o : Oid} {more : List Act} (h : Inv c) (ht : c.ths[t]? = some th)
    (htodo : th.todo = .dec o :: more) (hnz : ¬ (c.obj o).count - 1 = 0) :
    Inv { c with obj := setObj c.obj o { c.obj o with count := (c.obj o).count - 1 }, ths := c.ths.set t { th with todo := more } } := by
  have ⟨hal, hc, hraw, hfr⟩ := dec_facts h ht htodo
  have := inv_obj1 (o := o) (ob' := { c.obj o with count := (c.obj o).count - 1 }) (p' := c.pool) (nh' := c.nextHeap)
    (th' := { th with todo := more }) h ht h.pool
    (by intro x hx; have hx' : ¬ o = x := fun e => hx e.symm; simp [Th.refs, htodo, cntDec, hx'])
    (by simp [Th.refs, htodo, cntDec]; omega)
    (fun _ => Or.inl hal)
    (by intro hlt; simp [Th.refs, htodo, cntDec] at hlt; omega)
    (by intro x hx; by_cases hxo : x = o
        · subst hxo; exact absurd hx hraw
        · exact Or.inr ⟨hxo, hx⟩)
    (by intro _ h0; omega)
    (fun hx => Or.inl hx)
    (by simp only; exact h.acq o)
    (by intro x; rw [aliveN_setObj_alive c.obj o { c.obj o with count := (c.obj o).count - 1 } rfl]; simp [htodo, cntRel])
    (fun k hk => ⟨hk, hfr k hk⟩)
    (by intro k hk; subst hk; simp only; exact h.heapMgr k)
    (by intro k hk; subst hk; simp only; exact h.heapAcq k)
    (by intro s i hk _; subst hk; simp only; exact h.nodeMgr s i hal)
    (by intro s i hk ha; subst hk; simp only at ha; rw [hal] at ha; cases ha)
    (by intro s hs; left; rw [htodo]; exact List.mem_cons_of_mem _ hs)
    (fun _ hs => hs)
  exact this

/-- the last reference to a heap object goes away: `delete item` -/
theorem inv_dec_delete {c : Cfg} {t : Nat} {th : Th} {o : Oid} {more : List Act} (h : Inv c) (ht : c.ths[t]? = some th)
    (htodo : th.todo = .dec o :: more) (hz : (c.obj o).count - 1 = 0) (hm : (c.obj o).mgr = false) :
    Inv { c with obj := setObj c.obj o { c.obj o with count := 0, alive := false, rel := (c.obj o).rel + 1 },
                 ths := c.ths.set t { th with todo := more } } := by
  have ⟨hal, hc, hraw, hfr⟩ := dec_facts h ht htodo
  have hheap : ∃ k, o = .heap k := by
    cases o with
    | heap k => exact ⟨k, rfl⟩
    | node s i => have := h.nodeMgr s i hal; rw [hm] at this; cases this
  obtain ⟨k0, rfl⟩ := hheap
  have := inv_obj1 (o := .heap k0) (ob' := { c.obj (.heap k0) with count := 0, alive := false, rel := (c.obj (.heap k0)).rel + 1 }) (p' := c.pool) (nh' := c.nextHeap)
    (th' := { th with todo := more }) h ht h.pool
    (by intro x hx; have hx' : ¬ Oid.heap k0 = x := fun e => hx e.symm; simp [Th.refs, htodo, cntDec, hx'])
    (by simp [Th.refs, htodo, cntDec]; omega)
    (fun _ => Or.inr rfl)
    (by intro hlt; simp [Th.refs, htodo, cntDec] at hlt; omega)
    (by intro x hx; by_cases hxo : x = .heap k0
        · subst hxo; exact absurd hx hraw
        · exact Or.inr ⟨hxo, hx⟩)
    (by intro _ h0; omega)
    (fun hx => Or.inl hx)
    (by have := h.acq (.heap k0); rw [hal] at this; simp at this ⊢; omega)
    (by intro x; rw [aliveN_setObj_heap]; simp [htodo, cntRel])
    (fun k hk => ⟨hk, hfr k hk⟩)
    (by intro k _; simp only; exact hm)
    (by intro k _; simp only; exact h.heapAcq k0)
    (by intro s i hk; cases hk)
    (by intro s i hk; cases hk)
    (by intro s hs; left; rw [htodo]; exact List.mem_cons_of_mem _ hs)
    (fun _ hs => hs)
  exact this

/-- the last reference to a pooled object goes away: reset to default, `SetManager(NULL)`, queue `ReleaseObjectAux` -/
theorem inv_dec_recycle {c : Cfg} {t : Nat} {th : Th} {o : Oid} {more : List Act} (h : Inv c) (ht : c.ths[t]? = some th)
    (htodo : th.todo = .dec o :: more) (hz : (c.obj o).count - 1 = 0) (hm : (c.obj o).mgr = true) :
    Inv { c with obj := setObj c.obj o { c.obj o with count := 0, alive := false, mgr := false, val := 0, rel := (c.obj o).rel + 1 },
                 ths := c.ths.set t { th with todo := .release o :: more } } := by
  have ⟨hal, hc, hraw, hfr⟩ := dec_facts h ht htodo
  have hnode : ∃ s i, o = .node s i := by
    cases o with
    | heap k => have := h.heapMgr k; rw [hm] at this; cases this
    | node s i => exact ⟨s, i, rfl⟩
  obtain ⟨s0, i0, rfl⟩ := hnode
  have := inv_obj1 (o := .node s0 i0)
    (ob' := { c.obj (.node s0 i0) with count := 0, alive := false, mgr := false, val := 0, rel := (c.obj (.node s0 i0)).rel + 1 })
    (p' := c.pool) (nh' := c.nextHeap) (th' := { th with todo := .release (.node s0 i0) :: more }) h ht h.pool
    (by intro x hx; have hx' : ¬ Oid.node s0 i0 = x := fun e => hx e.symm; simp [Th.refs, htodo, cntDec, hx'])
    (by simp [Th.refs, htodo, cntDec]; omega)
    (fun _ => Or.inr rfl)
    (by intro hlt; simp [Th.refs, htodo, cntDec] at hlt; omega)
    (by intro x hx; by_cases hxo : x = .node s0 i0
        · subst hxo; exact absurd hx hraw
        · exact Or.inr ⟨hxo, hx⟩)
    (by intro _ h0; omega)
    (fun hx => Or.inl hx)
    (by have := h.acq (.node s0 i0); rw [hal] at this; simp at this ⊢; omega)
    (by
      intro x
      have := aliveN_setObj_node c.obj s0 i0 { c.obj (.node s0 i0) with count := 0, alive := false, mgr := false, val := 0, rel := (c.obj (.node s0 i0)).rel + 1 } x
      by_cases hx : x = .node s0 i0
      · subst hx; simp [hal, htodo, cntRel] at this ⊢; omega
      · have hx' : ¬ Oid.node s0 i0 = x := fun e => hx e.symm
        simp [hx, hx', htodo, cntRel] at this ⊢; omega)
    (fun k hk => ⟨hk, hfr k hk⟩)
    (by intro k hk; cases hk)
    (by intro k hk; cases hk)
    (by intro s i _ ha; simp at ha)
    (by intro s i _ _; exact ⟨rfl, rfl⟩)
    (by intro s hs
        simp only [List.mem_cons] at hs
        rcases hs with hs | hs
        · cases hs
        · left; rw [htodo]; exact List.mem_cons_of_mem _ hs)
    (fun _ hs => hs)
  exact this


theorem dead_of_outBit_false {c : Cfg} (h : Inv c) {s i : Nat} (hb : outBit c.pool s i = false) :
    (c.obj (.node s i)).alive = false ∧ pendRel c (.node s i) = 0 := by
  have := h.out (.node s i)
  simp only [aliveN, outBitO, hb, b2n_false] at this
  constructor
  · cases ha : (c.obj (.node s i)).alive with
    | false => rfl
    | true => rw [ha] at this; simp at this
  · omega

/-- `ObtainObject()`: the node handed out was free, is not referenced by anybody, and becomes the caller's raw pointer -/
theorem inv_obtain {c : Cfg} {t : Nat} {th : Th} {more : List Act} {p' : PoolSt} {g : Got} (h : Inv c) (ht : c.ths[t]? = some th)
    (htodo : th.todo = .obtain :: more) (hob : obtain c.pool = (p', g)) :
    Inv { c with pool := p',
                 obj := setObj c.obj (.node g.sid g.idx) { c.obj (.node g.sid g.idx) with alive := true, mgr := true, acq := (c.obj (.node g.sid g.idx)).acq + 1 },
                 ths := c.ths.set t { th with raw := some (.node g.sid g.idx), todo := more } } := by
  have hs := obtain_spec h.pool
  rw [hob] at hs
  obtain ⟨hp', hb0, hb1, hbo, hun⟩ := hs
  simp only at hp' hb0 hb1 hbo hun
  have ⟨hdead, hpr⟩ := dead_of_outBit_false h hb0
  have hc0 := count_zero_of_dead h hdead
  have := inv_obj1 (o := .node g.sid g.idx)
    (ob' := { c.obj (.node g.sid g.idx) with alive := true, mgr := true, acq := (c.obj (.node g.sid g.idx)).acq + 1 })
    (p' := p') (nh' := c.nextHeap) (th' := { th with raw := some (.node g.sid g.idx), todo := more }) h ht hp'
    (by intro x _; simp [Th.refs, htodo, cntDec])
    (by simp [Th.refs, htodo, cntDec])
    (fun _ => Or.inl rfl)
    (fun _ => rfl)
    (by intro x hx; simp only [Option.some.injEq] at hx; subst hx; exact Or.inl ⟨rfl, rfl, hc0⟩)
    (by intro ha; rw [hdead] at ha; cases ha)
    (fun _ => Or.inr hdead)
    (by have := h.acq (.node g.sid g.idx); rw [hdead] at this; simp at this ⊢; omega)
    (by
      intro x
      have := aliveN_setObj_node c.obj g.sid g.idx { c.obj (.node g.sid g.idx) with alive := true, mgr := true, acq := (c.obj (.node g.sid g.idx)).acq + 1 } x
      by_cases hx : x = .node g.sid g.idx
      · subst hx; simp [hdead, htodo, cntRel, outBitO, hb0, hb1] at this ⊢; omega
      · have hx' : ¬ Oid.node g.sid g.idx = x := fun e => hx e.symm
        have hbx : outBitO p' x = outBitO c.pool x := by
          cases x with
          | heap k => rfl
          | node s i =>
            simp only [outBitO]
            apply hbo
            intro ⟨h1, h2⟩; apply hx; rw [h1, h2]
        simp [hx, htodo, cntRel, hbx] at this ⊢; omega)
    (fun k hk => ⟨hk, by intro he; cases he⟩)
    (by intro k hk; cases hk)
    (by intro k hk; cases hk)
    (by intro s i _ _; rfl)
    (by intro s i _ ha; simp at ha)
    (by intro s hs; left; rw [htodo]; exact List.mem_cons_of_mem _ hs)
    hun
  exact this


theorem rel_facts {c : Cfg} {t : Nat} {th : Th} {o : Oid} {more : List Act} (h : Inv c) (ht : c.ths[t]? = some th)
    (htodo : th.todo = .release o :: more) : outBitO c.pool o = true := by
  have h1 : 0 < cntRel th.todo o := by simp [htodo, cntRel]; omega
  have h2 := sumT_ge_mem (f := fun th => cntRel th.todo o) (mem_of_getElem? ht)
  have h3 := h.out o
  simp only [pendRel] at h3
  cases hb : outBitO c.pool o with
  | true => rfl
  | false => rw [hb] at h3; simp only [b2n_false] at h3; omega

def delActs : Option Slab → List Act
  | some s => [.delSlab s]
  | none => []

/-- `ReleaseObject(o)`'s critical section: the node goes back on its slab's free list; the slab may be unlisted for deletion -/
theorem inv_release {c : Cfg} {t : Nat} {th : Th} {sid i : Nat} {more : List Act} {p' : PoolSt} {del : Option Slab}
    (h : Inv c) (ht : c.ths[t]? = some th) (htodo : th.todo = .release (.node sid i) :: more) (hrl : release c.pool sid i = (p', del)) :
    Inv { c with pool := p', ths := c.ths.set t { th with todo := delActs del ++ more } } := by
  have hb : outBit c.pool sid i = true := by simpa [outBitO] using rel_facts h ht htodo
  have hs := release_spec h.pool hb
  rw [hrl] at hs
  obtain ⟨hp', hb1, hbo, hun, hdl⟩ := hs
  simp only at hp' hb1 hbo hun hdl
  have hnd : ∀ x, cntDec (delActs del ++ more) x = cntDec more x := by
    intro x; cases del <;> simp [delActs, cntDec]
  have hnr : ∀ x, cntRel (delActs del ++ more) x = cntRel more x := by
    intro x; cases del <;> simp [delActs, cntRel]
  refine inv_update (c1 := { c with pool := p' }) (th' := { th with todo := delActs del ++ more })
    h ht rfl hp' ?_ (fun o ha => Or.inl ha) ?_ ?_ (fun o ha hc => Or.inl ⟨ha, hc⟩) (fun o hr => Or.inl hr) h.acq ?_
    h.heapFresh h.heapMgr h.heapAcq h.nodeMgr h.fresh ?_ hun
  · intro x; simp only [Th.refs, hnd, htodo, cntDec]
  · intro x hx; simp only [Th.refs, hnd, htodo, cntDec] at hx; omega
  · intro x hx; exact h.raw t th x ht hx
  · intro x
    simp only [hnr, htodo]
    by_cases hx : x = .node sid i
    · subst hx; simp [cntRel, outBitO, hb, hb1]; omega
    · have hx' : ¬ Oid.node sid i = x := fun e => hx e.symm
      have hbx : outBitO p' x = outBitO c.pool x := by
        cases x with
        | heap k => rfl
        | node s j =>
          simp only [outBitO]
          apply hbo
          intro ⟨h1, h2⟩; apply hx; rw [h1, h2]
      simp [cntRel, hx', hbx]
  · intro s hs
    simp only [List.mem_append] at hs
    rcases hs with hs | hs
    · cases del with
      | none => simp [delActs] at hs
      | some s' =>
        simp only [delActs, List.mem_singleton, Act.delSlab.injEq] at hs
        subst hs
        have ⟨h1, h2, h3⟩ := hdl s rfl
        exact ⟨h1, by rw [h2]; exact h3⟩
    · have ⟨h1, h2⟩ := h.del t th s ht (by rw [htodo]; exact List.mem_cons_of_mem _ hs)
      exact ⟨h1, hun _ h2⟩

theorem no_release_heap {c : Cfg} {t : Nat} {th : Th} {k : Nat} {more : List Act} (h : Inv c) (ht : c.ths[t]? = some th)
    (htodo : th.todo = .release (.heap k) :: more) : False := by
  have := rel_facts h ht htodo
  simp [outBitO] at this

/-- `new Obj`: a fresh identity, nobody references it yet -/
theorem inv_newHeap {c : Cfg} {t : Nat} {th : Th} {a : Nat} (h : Inv c) (ht : c.ths[t]? = some th)
    (ha : a < th.slots.length) (htodo : th.todo = []) (rest : List Op) :
    Inv { c with obj := setObj c.obj (.heap c.nextHeap) { c.obj (.heap c.nextHeap) with alive := true, mgr := false, val := 0, acq := (c.obj (.heap c.nextHeap)).acq + 1 },
                 nextHeap := c.nextHeap + 1,
                 ths := c.ths.set t { th with slots := th.slots.set a none, raw := some (.heap c.nextHeap),
                                              todo := decOld (slotOf th a) ++ [.incRaw a], prog := rest } } := by
  have ⟨hdead, hacq0⟩ := h.heapFresh c.nextHeap (Nat.le_refl _)
  have hc0 := count_zero_of_dead h hdead
  have hrefs : ∀ x, ({ th with slots := th.slots.set a none, raw := some (.heap c.nextHeap), todo := decOld (slotOf th a) ++ [.incRaw a], prog := rest } : Th).refs x = th.refs x := by
    intro x
    have := refs_clear ha [] [.incRaw a] rest x rfl rfl htodo
    simpa [Th.refs] using this
  have := inv_obj1 (o := .heap c.nextHeap)
    (ob' := { c.obj (.heap c.nextHeap) with alive := true, mgr := false, val := 0, acq := (c.obj (.heap c.nextHeap)).acq + 1 })
    (p' := c.pool) (nh' := c.nextHeap + 1)
    (th' := { th with slots := th.slots.set a none, raw := some (.heap c.nextHeap), todo := decOld (slotOf th a) ++ [.incRaw a], prog := rest })
    h ht h.pool
    (fun x _ => hrefs x)
    (by rw [hrefs])
    (fun _ => Or.inl rfl)
    (fun _ => rfl)
    (by intro x hx; simp only [Option.some.injEq] at hx; subst hx; exact Or.inl ⟨rfl, rfl, hc0⟩)
    (by intro ha'; rw [hdead] at ha'; cases ha')
    (fun _ => Or.inr hdead)
    (by have := h.acq (.heap c.nextHeap); rw [hdead] at this; simp at this ⊢; omega)
    (by intro x; rw [aliveN_setObj_heap]; simp [htodo, cntRel, cntRel_append, cntRel_decOld])
    (by intro k hk; exact ⟨by omega, by intro he; cases he; omega⟩)
    (by intro k _; rfl)
    (by intro k _; simp only; omega)
    (by intro s i hk; cases hk)
    (by intro s i hk; cases hk)
    (by intro s hs
        simp only [List.mem_append, List.mem_singleton] at hs
        rcases hs with hs | hs
        · exact absurd hs (delSlab_not_mem_decOld _ s)
        · cases hs)
    (fun _ hs => hs)
  exact this

end Muscle.Conc.RC
