import MuscleModel.Conc.ProofsRCStep

/-! # Preservation of the joint invariant by the granted actions (`doAct`) (lemmas for C10) -/

namespace Muscle.Conc.RC
open Muscle.Conc Muscle.Conc.Pool

theorem cntDec_cons (a : Act) (l : List Act) (o : Oid) : cntDec (a :: l) o = cntDec [a] o + cntDec l o := by
  rw [← cntDec_append]; rfl

theorem cntRel_cons (a : Act) (l : List Act) (o : Oid) : cntRel (a :: l) o = cntRel [a] o + cntRel l o := by
  rw [← cntRel_append]; rfl

theorem setObj_self (f : Oid → Obj) (o : Oid) : setObj f o (f o) = f := by
  funext x; by_cases hx : x = o
  · subst hx; simp
  · simp [setObj, hx]

theorem cntL_pos {l : List (Oid × Oid)} {x n : Oid} (h : (x, n) ∈ l) : 0 < cntL l n := by
  induction l with
  | nil => cases h
  | cons p r ih =>
    rcases List.mem_cons.mp h with rfl | h
    · simp [cntL]; omega
    · have := ih h; simp only [cntL]; omega

/-- dropping a neutral head action -/
theorem inv_drop {c : Cfg} {t : Nat} {th : Th} {act : Act} {more : List Act} (h : Inv c) (ht : c.ths[t]? = some th)
    (htodo : th.todo = act :: more) (hn : Neutral [act]) :
    Inv { c with ths := c.ths.set t { th with todo := more } } := by
  refine inv_local (g' := c.glob) h ht ?_ rfl ?_ ?_
  · intro o; simp only [Th.refs, htodo]; rw [cntDec_cons act more, hn.1 o]; omega
  · intro o; simp only [htodo]; rw [cntRel_cons act more, hn.2.1 o]; omega
  · intro x _ hs; rw [htodo]; exact List.mem_cons_of_mem _ hs

/-- dropping the pending slab deletion -/
theorem inv_delSlab {c : Cfg} {t : Nat} {th : Th} {s : Slab} {more : List Act} (h : Inv c) (ht : c.ths[t]? = some th)
    (htodo : th.todo = .delSlab s :: more) :
    Inv { c with ths := c.ths.set t { th with todo := more } } := by
  refine inv_local (g' := c.glob) h ht ?_ rfl ?_ ?_
  · intro o; simp only [Th.refs, htodo, cntDec]
  · intro o; simp only [htodo, cntRel]
  · intro x _ hs; rw [htodo]; exact List.mem_cons_of_mem _ hs

theorem slot_alive {c : Cfg} {t : Nat} {th : Th} {b : Nat} {o : Oid} (h : Inv c) (ht : c.ths[t]? = some th) (hs : slotOf th b = some (o, true)) :
    (c.obj o).alive = true ∧ 0 < (c.obj o).count := by
  have hp := slot_refs_pos ht hs
  exact ⟨h.alive o hp, by rw [h.cnt o]; exact hp⟩

/-- one more reference to a live object `o`: the count goes up by one -/
theorem inv_inc {c : Cfg} {t : Nat} {th th' : Th} {o : Oid} {l' : List (Oid × Oid)} (h : Inv c) (ht : c.ths[t]? = some th)
    (halive : (c.obj o).alive = true)
    (hr : ∀ x, th'.refs x + cntL l' x = th.refs x + cntL c.links x + (if x = o then 1 else 0))
    (hraws : (th'.raw = th.raw ∧ 0 < (c.obj o).count) ∨ (th.raw = some o ∧ th'.raw = none))
    (hrel : ∀ x, cntRel th'.todo x = cntRel th.todo x)
    (hsub : ∀ x, Special x → x ∈ th'.todo → x ∈ th.todo)
    (hlnd : (l'.map (·.1)).Nodup)
    (hla : ∀ x n, (x, n) ∈ l' → (x, n) ∈ c.links ∨ (c.obj x).alive = true) :
    Inv { c with obj := bump c o, links := l', ths := c.ths.set t th' } := by
  have := inv_obj1 (o := o) (ob' := { c.obj o with count := (c.obj o).count + 1 }) (p' := c.pool) (nh' := c.nextHeap) (th' := th') (l' := l') h ht h.pool
    (by intro x hx; simp [hr x, hx])
    (by have := hr o; simp at this; simp only; omega)
    (fun _ => Or.inl halive)
    (fun _ => halive)
    (by
      intro x hx
      rcases hraws with ⟨h1, h2⟩ | ⟨h1, h2⟩
      · rw [h1] at hx
        by_cases hxo : x = o
        · subst hxo; have := (h.raw t th x ht hx).2; omega
        · exact Or.inr ⟨hxo, hx⟩
      · rw [h2] at hx; cases hx)
    (by
      intro _ hc
      rcases hraws with ⟨_, h2⟩ | ⟨h1, _⟩
      · omega
      · exact Or.inr h1)
    (by
      intro hx
      rcases hraws with ⟨h1, _⟩ | ⟨_, h2⟩
      · rw [h1] at hx; exact Or.inl hx
      · rw [h2] at hx; cases hx)
    (by simp only; exact h.acq o)
    (by intro x; rw [aliveN_setObj_alive c.obj o { c.obj o with count := (c.obj o).count + 1 } rfl, hrel x])
    (by
      intro k hk; refine ⟨hk, ?_⟩
      intro he; subst he; have := (h.heapFresh k hk).1; rw [halive] at this; cases this)
    (by intro k hk; subst hk; simp only; exact h.heapMgr k)
    (by intro k hk; subst hk; simp only; exact h.heapAcq k)
    (by intro s i hk _; subst hk; simp only; exact h.nodeMgr s i halive)
    (by intro s i hk ha; subst hk; simp only at ha; rw [halive] at ha; cases ha)
    (fun x hx hs => Or.inl (hsub x hx hs))
    (fun _ hs => hs)
    hlnd
    (by
      intro x n hm
      exact ⟨fun _ => halive, fun _ => hla x n hm⟩)
  exact this


theorem sub_tail {th : Th} {act : Act} {more : List Act} (htodo : th.todo = act :: more) :
    ∀ x, Special x → x ∈ more → x ∈ th.todo := fun x _ hs => by rw [htodo]; exact List.mem_cons_of_mem _ hs

theorem sub_decOld_tail {th : Th} {act : Act} {more : List Act} (htodo : th.todo = act :: more) (v : Slot) :
    ∀ x, Special x → x ∈ decOld v ++ more → x ∈ th.todo := by
  intro x hx hs
  rcases List.mem_append.mp hs with hs | hs
  · exact absurd hs (special_not_mem_decOld _ x hx)
  · rw [htodo]; exact List.mem_cons_of_mem _ hs

/-- `slot[a]` becomes a counting reference to `o` (count + 1), its old content is queued for `UnrefItem()` -/
theorem inv_incInto {c : Cfg} {t : Nat} {th : Th} {a : Nat} {o : Oid} {act : Act} {more : List Act} {raw' : Option Oid}
    (h : Inv c) (ht : c.ths[t]? = some th) (htodo : th.todo = act :: more) (hact : ∀ x, cntDec [act] x = 0) (hactr : ∀ x, cntRel [act] x = 0)
    (ha : a < th.slots.length) (halive : (c.obj o).alive = true)
    (hraws : (raw' = th.raw ∧ 0 < (c.obj o).count) ∨ (th.raw = some o ∧ raw' = none)) :
    Inv { c with obj := bump c o,
                 ths := c.ths.set t { th with slots := th.slots.set a (some (o, true)), raw := raw', todo := decOld (slotOf th a) ++ more } } := by
  have := inv_inc (l' := c.links) (th' := { th with slots := th.slots.set a (some (o, true)), raw := raw', todo := decOld (slotOf th a) ++ more })
    h ht halive ?_ hraws ?_ (sub_decOld_tail htodo _) h.linksND (fun x n hm => Or.inl hm)
  · exact this
  · intro x
    have := cntS_set (y := some (o, true)) (o := x) (slotOf_lt ha)
    have h1 := hact x
    simp only [Th.refs, htodo, cntDec_append, cntDec_decOld] at *
    rw [cntDec_cons act more, h1]
    by_cases hx : x = o
    · subst hx; simp at this ⊢; omega
    · have hx' : ¬ o = x := fun e => hx e.symm
      simp [hx, hx'] at this ⊢; omega
  · intro x
    have h1 := hactr x
    simp only [htodo, cntRel_append, cntRel_decOld]
    rw [cntRel_cons act more, h1]

theorem inv_incSlot {c : Cfg} {t : Nat} {th : Th} {a b : Nat} {o : Oid} {more : List Act} (h : Inv c) (ht : c.ths[t]? = some th)
    (htodo : th.todo = .incSlot a b :: more) (ha : a < th.slots.length) (hs : slotOf th b = some (o, true)) :
    Inv { c with obj := bump c o,
                 ths := c.ths.set t { th with slots := th.slots.set a (some (o, true)), todo := decOld (slotOf th a) ++ more } } := by
  have ⟨hal, hc⟩ := slot_alive h ht hs
  exact inv_incInto (raw' := th.raw) h ht htodo (fun _ => rfl) (fun _ => rfl) ha hal (Or.inl ⟨rfl, hc⟩)

theorem inv_incRaw {c : Cfg} {t : Nat} {th : Th} {a : Nat} {o : Oid} {more : List Act} (h : Inv c) (ht : c.ths[t]? = some th)
    (htodo : th.todo = .incRaw a :: more) (ha : a < th.slots.length) (hs : th.raw = some o) :
    Inv { c with obj := bump c o,
                 ths := c.ths.set t { th with slots := th.slots.set a (some (o, true)), raw := none, todo := decOld (slotOf th a) ++ more } } := by
  have ⟨hal, _⟩ := h.raw t th o ht hs
  exact inv_incInto (raw' := none) h ht htodo (fun _ => rfl) (fun _ => rfl) ha hal (Or.inr ⟨hs, rfl⟩)

theorem inv_incTmp {c : Cfg} {t : Nat} {th : Th} {b : Nat} {o : Oid} {more : List Act} (h : Inv c) (ht : c.ths[t]? = some th)
    (htodo : th.todo = .incTmp b :: more) (hs : slotOf th b = some (o, true)) :
    Inv { c with obj := bump c o, ths := c.ths.set t { th with todo := more ++ [.dec o] } } := by
  have ⟨hal, hc⟩ := slot_alive h ht hs
  have := inv_inc (l' := c.links) (th' := { th with todo := more ++ [.dec o] }) h ht hal ?_ (Or.inl ⟨rfl, hc⟩) ?_ ?_ h.linksND (fun x n hm => Or.inl hm)
  · exact this
  · intro x
    simp only [Th.refs, htodo, cntDec, cntDec_append]
    by_cases hx : x = o
    · subst hx; simp; omega
    · have hx' : ¬ o = x := fun e => hx e.symm
      simp [hx, hx']
  · intro x; simp only [htodo, cntRel, cntRel_append]; omega
  · intro x hx hs'
    simp only [List.mem_append, List.mem_singleton] at hs'
    rcases hs' with hs' | hs'
    · rw [htodo]; exact List.mem_cons_of_mem _ hs'
    · subst hs'; exact absurd hx id

theorem countsElsewhere_spec {th : Th} {a : Nat} {o : Oid} (h : countsElsewhere th a o = true) : ∃ b, b ≠ a ∧ slotOf th b = some (o, true) := by
  simp only [countsElsewhere, List.any_eq_true, List.mem_range, decide_eq_true_eq] at h
  obtain ⟨b, _, h1, h2⟩ := h
  exact ⟨b, h1, h2⟩

theorem inv_incSame {c : Cfg} {t : Nat} {th : Th} {a : Nat} {o : Oid} {more : List Act} (h : Inv c) (ht : c.ths[t]? = some th)
    (htodo : th.todo = .incSame a :: more) (hs : slotOf th a = some (o, false)) (hce : countsElsewhere th a o = true) :
    Inv { c with obj := bump c o, ths := c.ths.set t { th with slots := th.slots.set a (some (o, true)), todo := more } } := by
  obtain ⟨b, _, hb⟩ := countsElsewhere_spec hce
  have ⟨hal, hc⟩ := slot_alive h ht hb
  have := inv_inc (l' := c.links) (th' := { th with slots := th.slots.set a (some (o, true)), todo := more }) h ht hal ?_ (Or.inl ⟨rfl, hc⟩) ?_
    (sub_tail htodo) h.linksND (fun x n hm => Or.inl hm)
  · exact this
  · intro x
    have := cntS_set (y := some (o, true)) (o := x) (slot_get hs)
    simp only [Th.refs, htodo, cntDec] at *
    by_cases hx : x = o
    · subst hx; simp at this ⊢; omega
    · have hx' : ¬ o = x := fun e => hx e.symm
      simp [hx, hx'] at this ⊢; omega
  · intro x; simp only [htodo, cntRel]

theorem inv_incNext {c : Cfg} {t : Nat} {th : Th} {a b : Nat} {o n : Oid} {more : List Act} (h : Inv c) (ht : c.ths[t]? = some th)
    (htodo : th.todo = .incNext a b :: more) (hsa : slotOf th a = some (o, true)) (hsb : slotOf th b = some (n, true)) :
    Inv { c with obj := bump c n, links := (o, n) :: dropKey c.links o,
                 ths := c.ths.set t { th with todo := decNext (nextOf c.links o) ++ more } } := by
  have ⟨hal, hc⟩ := slot_alive h ht hsb
  have ⟨halo, _⟩ := slot_alive h ht hsa
  have := inv_inc (l' := (o, n) :: dropKey c.links o) (th' := { th with todo := decNext (nextOf c.links o) ++ more }) h ht hal ?_ (Or.inl ⟨rfl, hc⟩) ?_ ?_
    (nodup_cons_dropKey h.linksND o n) ?_
  · exact this
  · intro x
    have := cntL_dropKey h.linksND o x
    simp only [Th.refs, htodo, cntDec, cntDec_append, cntDec_decNext, cntL]
    by_cases hx : x = n
    · subst hx; simp; omega
    · have hx' : ¬ n = x := fun e => hx e.symm
      simp [hx, hx']; omega
  · intro x; simp only [htodo, cntRel, cntRel_append, cntRel_decNext]; omega
  · intro x hx hs'
    rcases List.mem_append.mp hs' with hs' | hs'
    · exact absurd hs' (special_not_mem_decNext _ x hx)
    · rw [htodo]; exact List.mem_cons_of_mem _ hs'
  · intro x m hm
    rcases List.mem_cons.mp hm with he | hm
    · cases he; exact Or.inr halo
    · exact Or.inl (mem_dropKey.mp hm).1

theorem inv_incPop {c : Cfg} {t : Nat} {th : Th} {a : Nat} {o n : Oid} {more : List Act} (h : Inv c) (ht : c.ths[t]? = some th)
    (htodo : th.todo = .incPop a :: more) (hsa : slotOf th a = some (o, true)) (hn : nextOf c.links o = some n) :
    Inv { c with obj := bump c n, ths := c.ths.set t { th with slots := th.slots.set a (some (n, true)), todo := .dec o :: more } } := by
  have hpos : 0 < refs c n := by have := cntL_pos (nextOf_mem hn); have := cntL_le_refs c n; omega
  have hal := h.alive n hpos
  have hc : 0 < (c.obj n).count := by rw [h.cnt n]; exact hpos
  have := inv_inc (l' := c.links) (th' := { th with slots := th.slots.set a (some (n, true)), todo := .dec o :: more }) h ht hal ?_ (Or.inl ⟨rfl, hc⟩) ?_ ?_
    h.linksND (fun x m hm => Or.inl hm)
  · exact this
  · intro x
    have := cntS_set (y := some (n, true)) (o := x) (slot_get hsa)
    simp only [Th.refs, htodo, cntDec] at *
    by_cases h1 : o = x
    · subst h1
      by_cases h2 : n = o
      · subst h2; simp at this ⊢; omega
      · have h2' : ¬ o = n := fun e => h2 e.symm
        simp [h2, h2'] at this ⊢; omega
    · have h1' : ¬ x = o := fun e => h1 e.symm
      by_cases h2 : n = x
      · subst h2; simp [h1, h1'] at this ⊢; omega
      · have h2' : ¬ x = n := fun e => h2 e.symm
        simp [h1, h2, h1', h2'] at this ⊢; omega
  · intro x; simp only [htodo, cntRel]
  · intro x hx hs'
    rcases List.mem_cons.mp hs' with hs' | hs'
    · subst hs'; exact absurd hx id
    · rw [htodo]; exact List.mem_cons_of_mem _ hs'

end Muscle.Conc.RC
