import MuscleModel.Conc.ThreadQueue

/-! # C11 lemmas, part 1: exactly once and in order (`received ++ queued = sent`, per direction) -/

namespace Muscle.Conc.TQ
open Muscle.Conc

/-- everything ever appended = everything removed so far, followed by what is still queued -/
def Chan.Fifo (c : Chan) : Prop := c.recvd ++ c.queue = c.sent

def Sh.Fifo (s : Sh) : Prop := s.ci.Fifo ∧ s.co.Fifo

theorem fifo_push {c : Chan} (h : c.Fifo) (it : Item) : (c.push it).Fifo := by
  simp only [Chan.Fifo, Chan.push] at *; rw [← h]; simp

theorem fifo_pop {c : Chan} {it : Item} {rest : List Item} (h : c.Fifo) (hq : c.queue = it :: rest) : (c.pop it rest).Fifo := by
  simp only [Chan.Fifo, Chan.pop] at *; rw [← h, hq]; simp

theorem fifo_signal {s : Sh} (h : s.Fifo) (d : Dir) : (signal s d).Fifo := by
  unfold signal
  cases hm : s.mode <;> cases d <;> simp only [Sh.Fifo, Sh.setCh, Sh.ch, Chan.Fifo] at * <;> (try split) <;> simp_all

theorem fifo_drain {s : Sh} (h : s.Fifo) (d : Dir) : (drain s d).Fifo := by
  unfold drain
  cases hm : s.mode <;> cases d <;> simp only [Sh.Fifo, Sh.setCh, Sh.ch, Chan.Fifo] at * <;> (try split) <;> simp_all

theorem fifo_flush {s : Sh} (h : s.Fifo) (d : Dir) : (flush s d).Fifo := by
  unfold flush
  cases d <;> simp only [Sh.Fifo, Sh.setCh, Sh.ch, Chan.Fifo] at * <;> simp_all

theorem fifo_intLoop {s : Sh} (h : s.Fifo) : (intLoop s).1.Fifo := fifo_drain h _

theorem fifo_stepUser {c c' : Cfg} {t : Tid} {o : Out} (h : c.sh.Fifo) (hs : stepUser c t = some (c', o)) : c'.sh.Fifo := by
  unfold stepUser at hs
  simp only at hs
  split at hs
  · simp at hs
  · -- idle
    split at hs
    all_goals (try (simp only [Option.some.injEq, Prod.mk.injEq] at hs; obtain ⟨rfl, _⟩ := hs; first | exact h | exact fifo_drain h _))
    · -- start
      split at hs
      · simp only [Option.some.injEq, Prod.mk.injEq] at hs; obtain ⟨rfl, _⟩ := hs; exact h
      · split at hs <;> (simp only [Option.some.injEq, Prod.mk.injEq] at hs; obtain ⟨rfl, _⟩ := hs) <;>
          (cases hm : c.sh.mode <;> simp only [Sh.Fifo, Chan.Fifo] at * <;> simp_all)
    · split at hs <;> (simp only [Option.some.injEq, Prod.mk.injEq] at hs; obtain ⟨rfl, _⟩ := hs; exact h)
  · -- sendLock
    split at hs <;> (simp only [Option.some.injEq, Prod.mk.injEq] at hs; obtain ⟨rfl, _⟩ := hs; exact ⟨fifo_push h.1 _, h.2⟩)
  · simp only [Option.some.injEq, Prod.mk.injEq] at hs; obtain ⟨rfl, _⟩ := hs; exact fifo_signal h _
  · simp only [Option.some.injEq, Prod.mk.injEq] at hs; obtain ⟨rfl, _⟩ := hs; exact fifo_signal h _
  · -- recvLock
    split at hs
    · simp at hs
    · split at hs
      · rename_i it rest hq
        simp only [Option.some.injEq, Prod.mk.injEq] at hs; obtain ⟨rfl, _⟩ := hs; exact ⟨h.1, fifo_pop h.2 hq⟩
      · split at hs
        · simp only [Option.some.injEq, Prod.mk.injEq] at hs; obtain ⟨rfl, _⟩ := hs; exact h
        · split at hs <;> (simp only [Option.some.injEq, Prod.mk.injEq] at hs; obtain ⟨rfl, _⟩ := hs; exact h)
  · -- recvWait
    split at hs
    · split at hs
      · simp only [Option.some.injEq, Prod.mk.injEq] at hs; obtain ⟨rfl, _⟩ := hs; exact fifo_drain h _
      · simp at hs
    · split at hs
      · simp only [Option.some.injEq, Prod.mk.injEq] at hs; obtain ⟨rfl, _⟩ := hs; exact fifo_flush h _
      · simp at hs
  · -- join
    split at hs
    · simp only [Option.some.injEq, Prod.mk.injEq] at hs; obtain ⟨rfl, _⟩ := hs; exact h
    · split at hs
      · simp only [Option.some.injEq, Prod.mk.injEq] at hs; obtain ⟨rfl, _⟩ := hs; exact h
      · simp at hs

theorem fifo_timeoutUser {c c' : Cfg} {t : Tid} {o : Out} (h : c.sh.Fifo) (hs : timeoutUser c t = some (c', o)) : c'.sh.Fifo := by
  unfold timeoutUser at hs
  simp only at hs
  repeat' split at hs
  all_goals first
    | (simp at hs; done)
    | (simp only [Option.some.injEq, Prod.mk.injEq] at hs; obtain ⟨rfl, _⟩ := hs; exact h)

theorem fifo_stepInt {c c' : Cfg} {o : Out} (h : c.sh.Fifo) (hs : stepInt c = some (c', o)) : c'.sh.Fifo := by
  unfold stepInt at hs
  simp only at hs
  repeat' split at hs
  all_goals first
    | (simp at hs; done)
    | (simp only [Option.some.injEq, Prod.mk.injEq] at hs; obtain ⟨rfl, _⟩ := hs
       first
        | exact h
        | exact fifo_intLoop h
        | exact fifo_intLoop (fifo_signal h _)
        | exact fifo_signal h _
        | exact fifo_drain h _
        | exact fifo_flush h _
        | exact ⟨h.1, fifo_push h.2 _⟩
        | exact fifo_intLoop (s := { c.sh with co := _ }) ⟨h.1, fifo_push h.2 _⟩
        | exact ⟨fifo_pop h.1 (by assumption), h.2⟩
        | exact fifo_intLoop (s := { c.sh with ci := _ }) ⟨fifo_pop h.1 (by assumption), h.2⟩
        | (cases hm : c.sh.mode <;> simp_all [Sh.Fifo, Chan.Fifo, Chan.pop] <;> (rw [← h.1]; simp)))

theorem fifo_step {c c' : Cfg} {e : Ev} {o : Out} (h : c.sh.Fifo) (hs : step c e = some (c', o)) : c'.sh.Fifo := by
  unfold step at hs
  cases e with
  | run t =>
    simp only at hs
    split at hs
    · exact fifo_stepUser h hs
    · split at hs
      · exact fifo_stepInt h hs
      · simp at hs
  | timeout t =>
    simp only at hs
    split at hs
    · exact fifo_timeoutUser h hs
    · simp at hs

theorem fifo_init (mode : Mode) (progs : List (List Op)) : (Cfg.init mode progs).sh.Fifo := by
  simp [Cfg.init, Sh.init, Sh.Fifo, Chan.Fifo, Chan.empty]

theorem reach_fifo {mode : Mode} {progs : List (List Op)} {c : Cfg} (h : machine.Reach (Cfg.init mode progs) c) : c.sh.Fifo :=
  Machine.Reach.invariant machine (fun c => c.sh.Fifo) (fifo_init mode progs) (fun _ _ _ _ hp hs => fifo_step hp hs) h

end Muscle.Conc.TQ
