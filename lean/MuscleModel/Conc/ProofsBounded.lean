import MuscleModel.Conc.ProofsCounts

/-! Which try/timed calls are bounded and which are not (finding F13, timed variant).

In the clock-free model "bounded" means: the calling thread never depends on another thread to get out of the call —
in every reachable configuration it has an enabled event of its own (a step, or the time-out of its timed wait).
Result: every `TryLock…`/timed call is bounded in this sense EXCEPT inside the re-take stage of a *failed timed
read→write upgrade* (`LockReadWriteAux` re-takes the read locks with the untimed `LockReadOnly()`), and that exception
is real (witness schedule in `Props/C18.lean`). -/

namespace Muscle.Conc.RW
open Muscle.Conc

/-- the time-out mode of the wait loop the program counter is in, if any -/
def Pc.mode? : Pc → Option Mode
  | .rWait m => some m | .rWoke m _ => some m | .wWait m => some m | .wWoke m _ => some m | _ => none

/-- no wait loop and no upgrade activation ever runs with time-out 0 (`TryLock…` returns from its first critical section) -/
def NoTry (th : Th) : Prop := th.pc.mode? ≠ some .try_ ∧ ∀ u, u ∈ th.ctx → u.m ≠ .try_

def ModeInv (c : Cfg) : Prop := ∀ t, NoTry (c.th t)

theorem mode_none_of_nonwaiting {pc : Pc} (h1 : pc.rWaiting = false) (h2 : pc.wWaiting = false) : pc.mode? = none := by
  cases pc <;> simp [Pc.rWaiting, Pc.wWaiting, Pc.mode?] at *

theorem nextOp_ctx (th : Th) : (nextOp th).ctx = th.ctx := by
  unfold nextOp; split <;> rfl

theorem account_ctx (th : Th) (st : St) : (account th st).ctx = th.ctx := by
  unfold account; split
  · split <;> rfl
  · rfl

theorem finish_ctx_modes (ctx : List Upg) (th : Th) (st : St) :
    ∀ u', u' ∈ (finish ctx th st).1.ctx → ∃ u, u ∈ ctx ∧ u'.m = u.m := by
  induction ctx generalizing st with
  | nil =>
    intro u' hu'
    simp only [finish] at hu'
    rw [nextOp_ctx, account_ctx] at hu'
    simp at hu'
  | cons u rest ih =>
    intro u' hu'
    have lift : (∃ v, v ∈ rest ∧ u'.m = v.m) → ∃ v, v ∈ u :: rest ∧ u'.m = v.m :=
      fun ⟨v, hv, e⟩ => ⟨v, List.mem_cons_of_mem _ hv, e⟩
    have here : ∀ (stg : UStage) (pc : Pc), u' ∈ ({ th with ctx := { u with stage := stg } :: rest, pc := pc } : Th).ctx →
        ∃ v, v ∈ u :: rest ∧ u'.m = v.m := by
      intro stg pc hm
      simp only [List.mem_cons] at hm
      rcases hm with e | hm
      · exact ⟨u, by simp, by rw [e]⟩
      · exact ⟨u', List.mem_cons_of_mem _ hm, rfl⟩
    simp only [finish] at hu'
    split at hu'
    · split at hu'
      · exact lift (ih _ u' hu')
      · split at hu'
        · exact here _ _ hu'
        · exact here _ _ hu'
    · split at hu'
      · exact lift (ih _ u' hu')
      · exact here _ _ hu'
    · split at hu'
      · exact lift (ih _ u' hu')
      · split at hu'
        · exact here _ _ hu'
        · exact lift (ih _ u' hu')

theorem noTry_finish {th : Th} (h : NoTry th) (st : St) : NoTry (finish th.ctx th st).1 := by
  have hp := finish_nonwaiting th.ctx th st
  refine ⟨by rw [mode_none_of_nonwaiting hp.1 hp.2]; simp, ?_⟩
  intro u' hu'
  obtain ⟨u, hu, e⟩ := finish_ctx_modes th.ctx th st u' hu'
  rw [e]; exact h.2 u hu

/-- the acting thread's record after `applyRes` keeps `NoTry`, provided a `wait`/`upgrade` result did not come from a try call -/
theorem noTry_applyRes {c : Cfg} {t : Tid} {s' : Mx} {r : Res} {w : Pc} {m : Mode} (h : NoTry (c.th t))
    (hw : r = .wait → w.mode? ≠ some .try_) (hu : ∀ n, r = .upgrade n → m ≠ .try_) :
    NoTry ((applyRes c t s' r w m).1.th t) := by
  rw [applyRes_self]
  cases r with
  | done st => exact noTry_finish h st
  | wait => exact ⟨hw rfl, h.2⟩
  | upgrade n =>
    have hm := hu n rfl
    simp only
    split
    · refine ⟨by simp [Pc.mode?], ?_⟩
      intro u hu'; simp only [List.mem_cons] at hu'
      rcases hu' with e | e
      · rw [e]; exact hm
      · exact h.2 u e
    · refine ⟨by simp [Pc.mode?], ?_⟩
      intro u hu'; simp only [List.mem_cons] at hu'
      rcases hu' with e | e
      · rw [e]; exact hm
      · exact h.2 u e

theorem stepRun_modeInv {c c' : Cfg} {t : Tid} {o : Option St} (hc : CtlInv c) (hi : ModeInv c)
    (h : stepRun c t = some (c', o)) : ModeInv c' := by
  intro u
  by_cases hu : u ≠ t
  · rw [(stepRun_eff hc h).others u hu]; exact hi u
  have hu' : u = t := Classical.byContradiction hu
  subst hu'
  have hthis := hi u
  cases hpc : (c.th u).pc with
  | done => unfold stepRun at h; simp [hpc] at h
  | rStart m =>
    unfold stepRun at h; simp only [hpc] at h
    rw [stepRun_cfg h]
    apply noTry_applyRes hthis
    · intro hr hm
      simp only [Pc.mode?, Option.some.injEq] at hm; subst hm
      exact lockRStart_try_no_wait c.mx u hr
    · intro n hr; exact absurd hr (lockRStart_no_upgrade c.mx u m n)
  | wStart m =>
    unfold stepRun at h; simp only [hpc] at h
    rw [stepRun_cfg h]
    apply noTry_applyRes hthis
    · intro hr hm
      simp only [Pc.mode?, Option.some.injEq] at hm; subst hm
      exact lockWStart_try_no_wait c.mx u hr
    · intro n hr hm; subst hm; exact lockWStart_try_no_upgrade c.mx u n hr
  | rWoke m b =>
    unfold stepRun at h; simp only [hpc] at h
    rw [stepRun_cfg h]
    have hm : m ≠ .try_ := by intro e; apply hthis.1; rw [hpc, e]; rfl
    apply noTry_applyRes hthis
    · intro _ hm'; simp only [Pc.mode?, Option.some.injEq] at hm'; exact hm hm'
    · intro n _; exact hm
  | wWoke m b =>
    unfold stepRun at h; simp only [hpc] at h
    rw [stepRun_cfg h]
    have hm : m ≠ .try_ := by intro e; apply hthis.1; rw [hpc, e]; rfl
    apply noTry_applyRes hthis
    · intro _ hm'; simp only [Pc.mode?, Option.some.injEq] at hm'; exact hm hm'
    · intro n _; exact hm
  | uR =>
    unfold stepRun at h; simp only [hpc] at h
    rw [stepRun_cfg h]
    exact noTry_applyRes hthis (by intro hr; cases hr) (by intro n hr; cases hr)
  | uW =>
    unfold stepRun at h; simp only [hpc] at h
    rw [stepRun_cfg h]
    exact noTry_applyRes hthis (by intro hr; cases hr) (by intro n hr; cases hr)
  | rWait m =>
    rw [stepRun_rWait_spec hpc h]
    simp only [upd_same]
    have hm : m ≠ .try_ := by intro e; apply hthis.1; rw [hpc, e]; rfl
    exact ⟨by simp only [Pc.mode?]; intro e; exact hm (Option.some.inj e), hthis.2⟩
  | wWait m =>
    rw [stepRun_wWait_spec hpc h]
    simp only [upd_same]
    have hm : m ≠ .try_ := by intro e; apply hthis.1; rw [hpc, e]; rfl
    exact ⟨by simp only [Pc.mode?]; intro e; exact hm (Option.some.inj e), hthis.2⟩

theorem stepTimeout_modeInv {c c' : Cfg} {t : Tid} {o : Option St} (hi : ModeInv c)
    (h : stepTimeout c t = some (c', o)) : ModeInv c' := by
  obtain ⟨_, _, _, hcase⟩ := stepTimeout_spec h
  intro u
  by_cases hu : u = t
  · subst hu
    rcases hcase with ⟨_, hth⟩ | ⟨_, hth⟩ <;> (rw [hth]; simp only [upd_same]; exact ⟨by simp [Pc.mode?], (hi u).2⟩)
  · have : c'.th u = c.th u := by
      rcases hcase with ⟨_, hth⟩ | ⟨_, hth⟩ <;> (rw [hth]; simp [upd, hu])
    rw [this]; exact hi u

theorem init_modeInv (p : Bool) (progs : List (List Op)) : ModeInv (Cfg.init p progs) := by
  intro t
  simp only [Cfg.init]
  split
  · rename_i prog _
    have hp := nextOp_nonwaiting ({ Th.idle with prog := prog } : Th)
    refine ⟨by show (nextOp _).pc.mode? ≠ _; rw [mode_none_of_nonwaiting hp.1 hp.2]; simp, ?_⟩
    intro u hu
    simp only [Th.ofProg, nextOp] at hu
    split at hu <;> simp [Th.idle] at hu
  · exact ⟨by simp [Th.idle, Pc.mode?], by intro u hu; simp [Th.idle] at hu⟩

theorem reach_modeInv (p : Bool) (progs : List (List Op)) {c : Cfg} (h : machine.Reach (Cfg.init p progs) c) : ModeInv c :=
  (Machine.Reach.invariant machine (fun c => CtlInv c ∧ ModeInv c) ⟨init_ctlInv p progs, init_modeInv p progs⟩
    (fun c e c' o ⟨hc, hi⟩ hs =>
      ⟨step_ctlInv hc hs,
       match e, hs with
       | .run _, hs => stepRun_modeInv hc hi hs
       | .timeout _, hs => stepTimeout_modeInv hi hs⟩) h).2

/-! ### the classification -/

/-- the API call in progress is a try or timed acquisition -/
def NonBlockingCall (th : Th) : Prop := ∃ m, m ≠ .block ∧ (th.cur = .lockR m ∨ th.cur = .lockW m)

/-- the thread is in the re-take stage of an upgrade whose `LockReadWriteAux` did not succeed -/
def InFailedRetake (th : Th) : Prop := ∃ u k ret, th.ctx = [u] ∧ u.stage = .retake k ret ∧ ret ≠ .ok

/-- the mode of a wait loop that a try/timed call is parked in — outside a failed re-take — is `timed` -/
theorem parked_mode_timed {c : Cfg} (hm : MxInv c.mx) (hc : CtlInv c) (hn : CountInv c) (hmo : ModeInv c) {t : Tid}
    (hnb : NonBlockingCall (c.th t)) (hnot : ¬ InFailedRetake (c.th t)) {m : Mode}
    (hpc : (c.th t).pc = .rWait m ∨ (c.th t).pc = .wWait m) : m = .timed := by
  have hnt : m ≠ .try_ := by
    intro e; apply (hmo t).1
    rcases hpc with h | h <;> (rw [h, e]; rfl)
  suffices hb : m ≠ .block by cases m <;> simp_all
  obtain ⟨m0, hm0, hcur⟩ := hnb
  have hcnt := hn t
  unfold CountsOk at hcnt
  cases hctx : (c.th t).ctx with
  | nil =>
    rw [hctx] at hcnt
    obtain ⟨_, _, hco⟩ := hcnt
    rcases hpc with h | h
    · have := hco.1 m (Or.inr (Or.inl h))
      rcases hcur with e | e <;> rw [this] at e <;> cases e; exact hm0
    · have := hco.2.1 m (Or.inr (Or.inl h))
      rcases hcur with e | e <;> rw [this] at e <;> cases e; exact hm0
  | cons u rest =>
    rw [hctx] at hcnt
    cases rest with
    | cons _ _ => exact absurd hcnt id
    | nil =>
      obtain ⟨_, _, _, g4, hstage⟩ := hcnt
      cases hsg : u.stage with
      | drop k => rw [hsg] at hstage; have := hstage.1; rcases hpc with h | h <;> rw [h] at this <;> cases this
      | lock =>
        rw [hsg] at hstage
        rcases hpc with h | h
        · exact (PcR_ne_PcW (Or.inr (Or.inl h)) hstage.1).elim
        · have e : m = u.m := PcW_mode (Or.inr (Or.inl h)) hstage.1
          rcases hcur with e' | e' <;> rw [g4] at e' <;> cases e'; rw [e]; exact hm0
      | retake k ret =>
        rw [hsg] at hstage
        obtain ⟨_, _, _, _, p5⟩ := hstage
        have hret : ret = .ok := Classical.byContradiction fun hne => hnot ⟨u, k, ret, hctx, hsg, hne⟩
        -- the upgrade was granted: the thread holds the write lock, so it is executing and cannot be parked
        have hw : (c.th t).pc.rWaiting = true ∨ (c.th t).pc.wWaiting = true := by
          rcases hpc with h | h <;> rw [h] <;> simp [Pc.rWaiting, Pc.wWaiting]
        have := (hm.absent (hc.notExec t hw)).2
        rw [p5, if_pos hret] at this; cases this

/-- **Bounded calls.**  In every configuration satisfying the invariants, a thread inside a try/timed acquisition that is
not in the re-take stage of a failed upgrade has an enabled event of its own: it can take a step, or its time-out can fire. -/
theorem nonblocking_call_proceeds {c : Cfg} (hm : MxInv c.mx) (hc : CtlInv c) (hn : CountInv c) (hmo : ModeInv c) {t : Tid}
    (hunf : (c.th t).pc ≠ .done) (hnb : NonBlockingCall (c.th t)) (hnot : ¬ InFailedRetake (c.th t)) :
    (∃ c' o, stepRun c t = some (c', o)) ∨ (∃ c' o, stepTimeout c t = some (c', o)) := by
  by_cases hp : c.mx.pend t > 0
  · left; exact enabled_of_not_parked hunf (fun _ _ => hp) (fun _ _ => hp)
  have hp0 : c.mx.pend t = 0 := by omega
  by_cases hr : ∃ m, (c.th t).pc = .rWait m
  · obtain ⟨m, hpc⟩ := hr
    have := parked_mode_timed hm hc hn hmo hnb hnot (Or.inl hpc); subst this
    right; unfold stepTimeout; simp only [hpc]; rw [if_pos hp0]; exact ⟨_, _, rfl⟩
  by_cases hw : ∃ m, (c.th t).pc = .wWait m
  · obtain ⟨m, hpc⟩ := hw
    have := parked_mode_timed hm hc hn hmo hnb hnot (Or.inr hpc); subst this
    right; unfold stepTimeout; simp only [hpc]; rw [if_pos hp0]; exact ⟨_, _, rfl⟩
  left
  exact enabled_of_not_parked hunf (fun m h => (hr ⟨m, h⟩).elim) (fun m h => (hw ⟨m, h⟩).elim)

/-- **The only unbounded call.**  If a thread inside a try/timed acquisition has no enabled event of its own, then the call
is a *timed* `LockReadWrite()` (read→write upgrade) whose inner write-lock attempt failed, and the thread is parked in the
untimed `Wait()` of the `LockReadOnly()` that re-takes its read locks. -/
theorem stuck_call_is_failed_timed_upgrade {c : Cfg} (hm : MxInv c.mx) (hc : CtlInv c) (hn : CountInv c) (hmo : ModeInv c) {t : Tid}
    (hunf : (c.th t).pc ≠ .done) (hnb : NonBlockingCall (c.th t))
    (hstuck : stepRun c t = none ∧ stepTimeout c t = none) :
    ∃ u k ret, (c.th t).ctx = [u] ∧ u.stage = .retake k ret ∧ ret ≠ .ok ∧ u.m = .timed ∧
      (c.th t).cur = .lockW .timed ∧ (c.th t).pc = .rWait .block ∧ c.mx.pend t = 0 := by
  have hin : InFailedRetake (c.th t) := by
    apply Classical.byContradiction; intro hnot
    rcases nonblocking_call_proceeds hm hc hn hmo hunf hnb hnot with ⟨_, _, h⟩ | ⟨_, _, h⟩
    · rw [hstuck.1] at h; cases h
    · rw [hstuck.2] at h; cases h
  obtain ⟨u, k, ret, hctx, hsg, hret⟩ := hin
  have hcnt := hn t
  unfold CountsOk at hcnt
  rw [hctx] at hcnt
  obtain ⟨_, _, _, g4, hstage⟩ := hcnt
  rw [hsg] at hstage
  obtain ⟨p1, _, _, _, _⟩ := hstage
  obtain ⟨m0, hm0, hcur⟩ := hnb
  have hum : u.m = .timed := by
    have hnt : u.m ≠ .try_ := (hmo t).2 u (by rw [hctx]; simp)
    have hnbk : u.m ≠ .block := by rcases hcur with e | e <;> rw [g4] at e <;> cases e; exact hm0
    cases hmm : u.m <;> simp_all
  have hpend : c.mx.pend t = 0 := by
    apply Classical.byContradiction; intro hne
    obtain ⟨_, _, h⟩ := enabled_of_not_parked (c := c) (t := t) hunf (fun _ _ => by omega) (fun _ _ => by omega)
    rw [hstuck.1] at h; cases h
  have hpc : (c.th t).pc = .rWait .block := by
    rcases p1 with h | h | ⟨b, h⟩
    · exfalso
      obtain ⟨_, _, h'⟩ := enabled_of_not_parked (c := c) (t := t) hunf (fun m hm' => by rw [h] at hm'; cases hm') (fun m hm' => by rw [h] at hm'; cases hm')
      rw [hstuck.1] at h'; cases h'
    · exact h
    · exfalso
      obtain ⟨_, _, h'⟩ := enabled_of_not_parked (c := c) (t := t) hunf (fun m hm' => by rw [h] at hm'; cases hm') (fun m hm' => by rw [h] at hm'; cases hm')
      rw [hstuck.1] at h'; cases h'
  exact ⟨u, k, ret, hctx, hsg, hret, hum, by rw [g4, hum], hpc, hpend⟩

end Muscle.Conc.RW
