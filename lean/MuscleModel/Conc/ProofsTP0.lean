import MuscleModel.Conc.ThreadPool

/-! # C19 proofs, layer 0: structural invariants of the pool tables (hold for ALL programs, no client discipline needed) -/

namespace Muscle.Conc.TP
open Muscle.Conc

theorem mem_remKey {l : List Nat} {k x : Nat} : x ∈ remKey l k ↔ x ∈ l ∧ x ≠ k := by
  simp [remKey]

theorem nodup_remKey {l : List Nat} (k : Nat) (h : l.Nodup) : (remKey l k).Nodup := by
  unfold remKey; exact h.filter _

theorem length_remKey_of_mem {l : List Nat} {k : Nat} (h : l.Nodup) (hm : k ∈ l) : (remKey l k).length + 1 = l.length := by
  induction l with
  | nil => simp at hm
  | cons a l ih =>
    rw [List.nodup_cons] at h
    by_cases hak : a = k
    · subst hak
      have : remKey (a :: l) a = l := by
        simp only [remKey, List.filter_cons, bne_self_eq_false, Bool.false_eq_true, ↓reduceIte]
        apply List.filter_eq_self.2
        intro x hx; simp; intro hxa; subst hxa; exact h.1 hx
      rw [this]; simp
    · have hm' : k ∈ l := by simpa [Ne.symm hak] using hm
      have : remKey (a :: l) k = a :: remKey l k := by simp [remKey, List.filter_cons, hak]
      rw [this]; simp [ih h.2 hm']

theorem mem_addKey {l : List Nat} {k x : Nat} : x ∈ addKey l k ↔ x ∈ l ∨ x = k := by
  unfold addKey; split <;> simp <;> grind

/-- a pool thread is *serving* client k: it owns k's batch, or is on its way to hand k back -/
def serving (c : Cfg) (T : PTid) (k : Client) : Prop := (c.pth T).cur = some k ∨ (c.pth T).pc = .finLock k

structure Inv0 (c : Cfg) : Prop where
  limit : c.p.availR.length + c.p.active.length ≤ c.p.maxT
  ndA : c.p.availR.Nodup
  ndB : c.p.active.Nodup
  disj : ∀ T, T ∈ c.p.availR → T ∉ c.p.active
  ltA : ∀ T, T ∈ c.p.availR → T < c.p.idc
  ltB : ∀ T, T ∈ c.p.active → T < c.p.idc
  availIdle : ∀ T, T ∈ c.p.availR → (c.pth T).cur = none ∧ ∀ k, (c.pth T).pc ≠ .finLock k
  wfFlag : ∀ k, k ∉ c.p.regK → c.p.flag k = false
  wfQ : ∀ k, k ∉ c.p.regK → c.p.pend k = [] ∧ c.p.defr k = []
  flagPend : ∀ k, c.p.flag k = true → c.p.pend k = []
  finCur : ∀ T k, (c.pth T).pc = .finLock k → (c.pth T).cur = none

theorem Inv0.congr {c c' : Cfg} (h : Inv0 c) (hp : c'.p = c.p) (ht : c'.pth = c.pth) : Inv0 c' := by
  obtain ⟨h1, h2, h3, h4, h5, h6, h7, h8, h9, h10, h11⟩ := h
  constructor <;> simp only [hp, ht] <;> assumption

/-- only `pendK` / `defK` / `waitK` / `waitT` / `shut` (and anything outside the pool and the pool threads) changed -/
theorem Inv0.congr' {c c' : Cfg} (h : Inv0 c) (ht : c'.pth = c.pth)
    (h1 : c'.p.availR = c.p.availR := by rfl) (h2 : c'.p.active = c.p.active := by rfl) (h3 : c'.p.maxT = c.p.maxT := by rfl)
    (h4 : c'.p.idc = c.p.idc := by rfl) (h5 : c'.p.regK = c.p.regK := by rfl) (h6 : c'.p.flag = c.p.flag := by rfl)
    (h7 : c'.p.pend = c.p.pend := by rfl) (h8 : c'.p.defr = c.p.defr := by rfl) : Inv0 c' := by
  obtain ⟨g1, g2, g3, g4, g5, g6, g7, g8, g9, g10, g11⟩ := h
  constructor <;> simp only [ht, h1, h2, h3, h4, h5, h6, h7, h8] <;> assumption

theorem inv0_spawnIfNeeded {c : Cfg} (h : Inv0 c) : Inv0 (spawnIfNeeded c) := by
  unfold spawnIfNeeded
  split
  · rename_i hc
    obtain ⟨h1, h2, h3, h4, h5, h6, h7, h8, h9, h10, h11⟩ := h
    constructor <;> simp_all [upd, PTh.fresh] <;> grind
  · exact h

theorem inv0_assign {c : Cfg} {k : Client} {T : PTid} {rest : List PTid} (h : Inv0 c) (ha : c.p.availR = T :: rest)
    (hk : k ∈ c.p.regK) : Inv0 (assign c k T rest) := by
  obtain ⟨h1, h2, h3, h4, h5, h6, h7, h8, h9, h10, h11⟩ := h
  rw [ha] at h1 h2 h4 h5 h7
  constructor <;> simp_all [assign, upd] <;> grind

theorem spawn_avail_cases (c : Cfg) : (spawnIfNeeded c).p.regK = c.p.regK ∧ (spawnIfNeeded c).p.pend = c.p.pend ∧
    (spawnIfNeeded c).p.shut = c.p.shut ∧ (spawnIfNeeded c).p.maxT = c.p.maxT := by
  unfold spawnIfNeeded; split <;> simp

theorem inv0_dispatchLoop (ks : List Client) {c : Cfg} (h : Inv0 c) : Inv0 (dispatchLoop ks c) := by
  induction ks generalizing c with
  | nil => exact h.congr' rfl
  | cons k ks ih =>
    unfold dispatchLoop
    split
    · rename_i hc
      split
      · rename_i T rest ha
        apply ih
        have hs := inv0_spawnIfNeeded h
        exact inv0_assign hs ha (by rw [(spawn_avail_cases c).1]; exact hc.1)
      · exact h.congr' rfl
    · apply ih
      obtain ⟨h1, h2, h3, h4, h5, h6, h7, h8, h9, h10, h11⟩ := h
      constructor <;> simp_all [upd] <;> grind

theorem inv0_dispatch {c : Cfg} (h : Inv0 c) : Inv0 (dispatch c) := by
  unfold dispatch; split
  · exact h
  · exact inv0_dispatchLoop _ h

theorem inv0_addDefr {c : Cfg} (k : Client) (m : MsgId) (h : Inv0 c) (hk : k ∈ c.p.regK) : Inv0 (addDefr c k m) := by
  obtain ⟨h1, h2, h3, h4, h5, h6, h7, h8, h9, h10, h11⟩ := h
  constructor <;> simp_all [upd, addDefr] <;> grind

theorem inv0_addPend {c : Cfg} (k : Client) (m : MsgId) (h : Inv0 c) (hk : k ∈ c.p.regK) (hf : c.p.flag k = false) : Inv0 (addPend c k m) := by
  obtain ⟨h1, h2, h3, h4, h5, h6, h7, h8, h9, h10, h11⟩ := h
  constructor <;> simp_all [upd, addPend] <;> grind

theorem inv0_subCS {c : Cfg} (k : Client) (m : MsgId) (h : Inv0 c) : Inv0 (subCS c k m).1 := by
  unfold subCS
  split
  · exact h
  · rename_i hk
    have hk' : k ∈ c.p.regK := by simpa using hk
    split
    · exact inv0_addDefr k m h hk'
    · rename_i hf
      have hf' : c.p.flag k = false := by simpa using hf
      split
      · exact inv0_dispatch (inv0_addPend k m h hk' hf')
      · exact inv0_addPend k m h hk' hf'

theorem inv0_handBack {c : Cfg} (k : Client) (h : Inv0 c) : Inv0 (handBack c k) := by
  unfold handBack
  obtain ⟨h1, h2, h3, h4, h5, h6, h7, h8, h9, h10, h11⟩ := h
  split
  · split
    · constructor <;> simp_all [upd] <;> grind
    · constructor <;> simp_all [upd] <;> grind
  · constructor <;> assumption

theorem inv0_release {c : Cfg} (T : PTid) (h : Inv0 c) (hT : (c.pth T).cur = none ∧ ∀ k, (c.pth T).pc ≠ .finLock k) : Inv0 (release c T) := by
  unfold release
  split
  · rename_i hm
    obtain ⟨h1, h2, h3, h4, h5, h6, h7, h8, h9, h10, h11⟩ := h
    have hl := length_remKey_of_mem h3 hm
    have hn := nodup_remKey T h3
    constructor <;> simp_all [mem_remKey] <;> grind
  · exact h

theorem inv0_wake {c : Cfg} (k : Client) (h : Inv0 c) : Inv0 (wake c k) := by
  unfold wake; split
  · exact h.congr' rfl
  · exact h

theorem wake_pth (c : Cfg) (k : Client) : (wake c k).pth = c.pth := by unfold wake; split <;> rfl
theorem release_pth (c : Cfg) (T : PTid) : (release c T).pth = c.pth := by unfold release; split <;> rfl
theorem handBack_pth (c : Cfg) (k : Client) : (handBack c k).pth = c.pth := by unfold handBack; split <;> (try split) <;> rfl

theorem inv0_finishCS {c : Cfg} (T : PTid) (k : Client) (h : Inv0 c) (hT : (c.pth T).cur = none ∧ ∀ k, (c.pth T).pc ≠ .finLock k) :
    Inv0 (finishCS c T k) := by
  unfold finishCS; split
  · exact h
  · exact inv0_wake _ (inv0_dispatch (inv0_release _ (inv0_handBack _ h) (by rw [handBack_pth]; exact hT)))

/-- a change of pool thread T's pc / inbox / queue only, to a pc that is not `finLock`, or clearing `cur` -/
theorem inv0_fetch {c : Cfg} (T : PTid) (h : Inv0 c) : Inv0 (fetch c T).1 := by
  obtain ⟨h1, h2, h3, h4, h5, h6, h7, h8, h9, h10, h11⟩ := h
  unfold fetch
  simp only
  split
  · constructor <;> simp_all [upd] <;> grind
  · constructor <;> simp_all [upd] <;> grind
  · split
    · constructor <;> simp_all [upd] <;> grind
    · constructor <;> simp_all [upd] <;> grind
    · constructor <;> simp_all [upd] <;> grind

theorem inv0_sdNext {c : Cfg} (t : Tid) (b : Bool) (nA total n : Nat) (l : List PTid) (h : Inv0 c) : Inv0 (sdNext c t b nA total n l) := by
  obtain ⟨h1, h2, h3, h4, h5, h6, h7, h8, h9, h10, h11⟩ := h
  unfold sdNext
  split
  · constructor <;> simp_all [upd] <;> grind
  · split
    · constructor <;> assumption
    · split <;> constructor <;> assumption

theorem inv0_setIdle {c : Cfg} (T : PTid) (h : Inv0 c) : Inv0 { c with pth := upd c.pth T { (c.pth T) with pc := .idle } } := by
  obtain ⟨h1, h2, h3, h4, h5, h6, h7, h8, h9, h10, h11⟩ := h
  constructor <;> simp_all [upd] <;> grind

theorem inv0_stepPool {c c' : Cfg} {T : PTid} {o} (h : Inv0 c) (hs : stepPool c T = some (c', o)) : Inv0 c' := by
  unfold stepPool at hs
  simp only at hs
  split at hs
  · simp at hs
  · simp at hs
  · simp only [Option.some.injEq] at hs; have : c' = (fetch c T).1 := by rw [hs]
    rw [this]; exact inv0_fetch T h
  · split at hs
    · simp at hs
    · simp only [Option.some.injEq] at hs; have : c' = (fetch c T).1 := by rw [hs]
      rw [this]; exact inv0_fetch T h
  · rename_i hpc
    obtain ⟨h1, h2, h3, h4, h5, h6, h7, h8, h9, h10, h11⟩ := h
    split at hs
    · simp only [Option.some.injEq, Prod.mk.injEq] at hs; obtain ⟨rfl, _⟩ := hs
      constructor <;> simp_all [upd] <;> grind
    · simp only [Option.some.injEq, Prod.mk.injEq] at hs; obtain ⟨rfl, _⟩ := hs
      constructor <;> simp_all [upd] <;> grind
    · simp at hs
  · rename_i k hpc
    simp only [Option.some.injEq] at hs
    have : c' = (fetch (finishCS { c with pth := upd c.pth T { (c.pth T) with pc := .idle } } T k) T).1 := by rw [hs]
    rw [this]
    apply inv0_fetch
    have hc := h.finCur T k hpc
    apply inv0_finishCS
    · exact inv0_setIdle T h
    · simp [upd, hc]

theorem inv0_stepUser {c c' : Cfg} {t : Tid} {o} (h : Inv0 c) (hs : stepUser c t = some (c', o)) : Inv0 c' := by
  unfold stepUser at hs
  simp only at hs
  split at hs
  · simp at hs
  · split at hs
    · simp at hs
    all_goals first | (split at hs <;> (simp only [Option.some.injEq, Prod.mk.injEq] at hs; obtain ⟨rfl, _⟩ := hs; exact h.congr' rfl)) | (simp only [Option.some.injEq, Prod.mk.injEq] at hs; obtain ⟨rfl, _⟩ := hs; exact h.congr' rfl)
  · simp only [Option.some.injEq, Prod.mk.injEq] at hs; obtain ⟨rfl, _⟩ := hs
    exact (inv0_subCS _ _ h).congr' rfl
  · simp only [Option.some.injEq, Prod.mk.injEq] at hs; obtain ⟨rfl, _⟩ := hs
    obtain ⟨h1, h2, h3, h4, h5, h6, h7, h8, h9, h10, h11⟩ := h
    constructor <;> simp_all [upd, mem_addKey] <;> grind
  · split at hs <;> (simp only [Option.some.injEq, Prod.mk.injEq] at hs; obtain ⟨rfl, _⟩ := hs; exact h.congr' rfl)
  · split at hs
    · simp only [Option.some.injEq, Prod.mk.injEq] at hs; obtain ⟨rfl, _⟩ := hs; exact h.congr' rfl
    · simp at hs
  · simp only [Option.some.injEq, Prod.mk.injEq] at hs; obtain ⟨rfl, _⟩ := hs
    obtain ⟨h1, h2, h3, h4, h5, h6, h7, h8, h9, h10, h11⟩ := h
    constructor <;> simp_all [upd, mem_remKey] <;> grind
  · simp only [Option.some.injEq, Prod.mk.injEq] at hs; obtain ⟨rfl, _⟩ := hs; exact h.congr' rfl
  · split at hs
    · simp only [Option.some.injEq, Prod.mk.injEq] at hs; obtain ⟨rfl, _⟩ := hs
      apply inv0_sdNext
      obtain ⟨h1, h2, h3, h4, h5, h6, h7, h8, h9, h10, h11⟩ := h
      constructor <;> simp_all <;> grind
    · simp only [Option.some.injEq, Prod.mk.injEq] at hs; obtain ⟨rfl, _⟩ := hs
      apply inv0_sdNext
      obtain ⟨h1, h2, h3, h4, h5, h6, h7, h8, h9, h10, h11⟩ := h
      constructor <;> simp_all <;> grind
  · split at hs
    · simp only [Option.some.injEq, Prod.mk.injEq] at hs; obtain ⟨rfl, _⟩ := hs; exact inv0_sdNext _ _ _ _ _ _ h
    · simp at hs
  · simp only [Option.some.injEq, Prod.mk.injEq] at hs; obtain ⟨rfl, _⟩ := hs
    obtain ⟨h1, h2, h3, h4, h5, h6, h7, h8, h9, h10, h11⟩ := h
    constructor <;> simp_all

theorem inv0_step {c c' : Cfg} {e : Ev} {o} (h : Inv0 c) (hs : step c e = some (c', o)) : Inv0 c' := by
  cases e with
  | timeout t => simp [step] at hs
  | run i =>
    simp only [step] at hs
    split at hs
    · exact inv0_stepUser h hs
    · exact inv0_stepPool h hs

theorem inv0_init (maxT : Nat) (regs : List Client) (progs : List (List Op)) : Inv0 (Cfg.init maxT regs progs) := by
  constructor <;> simp [Cfg.init, Pool.init, PTh.absent]

theorem reach_inv0 {maxT regs progs c} (h : machine.Reach (Cfg.init maxT regs progs) c) : Inv0 c :=
  Machine.Reach.invariant machine Inv0 (inv0_init maxT regs progs) (fun _ _ _ _ hi hs => inv0_step hi hs) h

theorem dispatchLoop_maxT (ks : List Client) (c : Cfg) : (dispatchLoop ks c).p.maxT = c.p.maxT := by
  induction ks generalizing c with
  | nil => rfl
  | cons k ks ih =>
    unfold dispatchLoop
    split
    · split
      · rw [ih]; simp [assign, (spawn_avail_cases c).2.2.2]
      · rfl
    · rw [ih]

theorem dispatch_maxT (c : Cfg) : (dispatch c).p.maxT = c.p.maxT := by
  unfold dispatch; split <;> simp [dispatchLoop_maxT]

theorem fetch_maxT (c : Cfg) (T : PTid) : (fetch c T).1.p = c.p := by
  unfold fetch; simp only; split <;> (try split) <;> rfl

theorem step_maxT {c c' : Cfg} {e : Ev} {o} (hs : step c e = some (c', o)) : c'.p.maxT = c.p.maxT := by
  cases e with
  | timeout t => simp [step] at hs
  | run i =>
    simp only [step] at hs
    split at hs
    · unfold stepUser at hs
      simp only at hs
      split at hs
      · simp at hs
      · split at hs
        · simp at hs
        all_goals first | (split at hs <;> (simp only [Option.some.injEq, Prod.mk.injEq] at hs; obtain ⟨rfl, _⟩ := hs; rfl)) | (simp only [Option.some.injEq, Prod.mk.injEq] at hs; obtain ⟨rfl, _⟩ := hs; rfl)
      · simp only [Option.some.injEq, Prod.mk.injEq] at hs; obtain ⟨rfl, _⟩ := hs
        simp only [subCS]; split
        · rfl
        · split
          · rfl
          · split
            · simp [dispatch_maxT, addPend]
            · rfl
      · simp only [Option.some.injEq, Prod.mk.injEq] at hs; obtain ⟨rfl, _⟩ := hs; rfl
      · split at hs <;> (simp only [Option.some.injEq, Prod.mk.injEq] at hs; obtain ⟨rfl, _⟩ := hs; rfl)
      · split at hs
        · simp only [Option.some.injEq, Prod.mk.injEq] at hs; obtain ⟨rfl, _⟩ := hs; rfl
        · simp at hs
      · simp only [Option.some.injEq, Prod.mk.injEq] at hs; obtain ⟨rfl, _⟩ := hs; rfl
      · simp only [Option.some.injEq, Prod.mk.injEq] at hs; obtain ⟨rfl, _⟩ := hs; rfl
      · split at hs <;> (simp only [Option.some.injEq, Prod.mk.injEq] at hs; obtain ⟨rfl, _⟩ := hs; unfold sdNext; split <;> (try split) <;> (try split) <;> rfl)
      · split at hs
        · simp only [Option.some.injEq, Prod.mk.injEq] at hs; obtain ⟨rfl, _⟩ := hs; unfold sdNext; split <;> (try split) <;> (try split) <;> rfl
        · simp at hs
      · simp only [Option.some.injEq, Prod.mk.injEq] at hs; obtain ⟨rfl, _⟩ := hs; rfl
    · unfold stepPool at hs
      simp only at hs
      split at hs
      · simp at hs
      · simp at hs
      · simp only [Option.some.injEq] at hs; have : c' = (fetch c (i - c.nU)).1 := by rw [hs]
        rw [this, fetch_maxT]
      · split at hs
        · simp at hs
        · simp only [Option.some.injEq] at hs; have : c' = (fetch c (i - c.nU)).1 := by rw [hs]
          rw [this, fetch_maxT]
      · split at hs
        · simp only [Option.some.injEq, Prod.mk.injEq] at hs; obtain ⟨rfl, _⟩ := hs; rfl
        · simp only [Option.some.injEq, Prod.mk.injEq] at hs; obtain ⟨rfl, _⟩ := hs; rfl
        · simp at hs
      · rename_i k hpc
        simp only [Option.some.injEq] at hs
        have : c' = (fetch (finishCS { c with pth := upd c.pth (i - c.nU) { (c.pth (i - c.nU)) with pc := .idle } } (i - c.nU) k) (i - c.nU)).1 := by rw [hs]
        rw [this, fetch_maxT]
        unfold finishCS; split
        · rfl
        · unfold wake; split
          · simp only [dispatch_maxT]; unfold release; split
            · simp only; unfold handBack; split <;> (try split) <;> rfl
            · unfold handBack; split <;> (try split) <;> rfl
          · simp only [dispatch_maxT]; unfold release; split
            · simp only; unfold handBack; split <;> (try split) <;> rfl
            · unfold handBack; split <;> (try split) <;> rfl

theorem reach_maxT {maxT regs progs c} (h : machine.Reach (Cfg.init maxT regs progs) c) : c.p.maxT = maxT :=
  Machine.Reach.invariant machine (fun c => c.p.maxT = maxT) rfl (fun _ _ _ _ hi hs => (step_maxT hs).trans hi) h

end Muscle.Conc.TP
