import MuscleModel.Conc.ProofsLive

/-! Invariance of the no-lost-wake-up condition `LiveInv` under every step (given the safety invariant `MxInv` and the
control invariant `CtlInv`).  Two kinds of steps matter (all others leave somebody executing):
* hand-off steps end in `NotifySomeWaitingThreads()` on a state with nobody executing — `Wakes` holds outright;
* frame steps keep `exec = []`, change no other thread's pending count, only append the acting thread to a waiting
  list, and send it (back) to `Wait()` only when its admission test failed — which, with nobody executing, means the
  hand-off rule favours somebody else. -/

namespace Muscle.Conc.RW
open Muscle.Conc

/-- the favoured waiters have a pending notification -/
def Wakes (s : Mx) : Prop :=
  (∀ w rest, s.waitW = w :: rest → (s.prefW = true ∨ s.waitR = []) → s.pend w > 0) ∧
  (∀ r, r ∈ s.waitR → (s.prefW = false ∨ s.waitW = []) → s.pend r > 0)

theorem Wakes.notifySome (s : Mx) : Wakes (notifySome s) := by
  have h := notifySome_wakes s
  have hc := notifySome_core s
  unfold Wakes
  rw [hc.2.2.2.2.1, hc.2.2.2.2.2.1, hc.2.2.2.2.2.2.1]
  exact h

theorem Wakes.maybeNotify {x : Mx} (he : x.exec = []) (ht : x.total = 0) : Wakes (maybeNotify x) := by
  unfold RW.maybeNotify; rw [if_pos ⟨ht, he⟩]; exact Wakes.notifySome x

theorem Wakes.releaseWC {y : Mx} (h : Wakes y) {t : Tid} (htR : t ∉ y.waitR) (htW : t ∉ y.waitW) : Wakes (releaseWC y t) := by
  constructor
  · intro w rest hw hcnd
    have hw' : y.waitW = w :: rest := hw
    have hne : w ≠ t := by intro e; subst e; rw [hw'] at htW; simp at htW
    show upd y.pend t 0 w > 0
    rw [upd_other _ _ _ _ hne]; exact h.1 w rest hw' hcnd
  · intro r hr hcnd
    have hr' : r ∈ y.waitR := hr
    have hne : r ≠ t := by intro e; subst e; exact htR hr'
    show upd y.pend t 0 r > 0
    rw [upd_other _ _ _ _ hne]; exact h.2 r hr' hcnd

theorem liveInv_of_wakes {c' : Cfg} (h : c'.mx.exec = [] → Wakes c'.mx) : LiveInv c' :=
  ⟨fun he => ⟨fun w rest hw hc => Or.inl ((h he).1 w rest hw hc), fun r hr hc => Or.inl ((h he).2 r hr hc)⟩⟩

/-! ### hand-off steps -/

theorem lockRWoke_false_wakes {s : Mx} (h : MxInv s) {t : Tid} (hnd : s.waitR.Nodup) (htW : t ∉ s.waitW)
    (he : (lockRWoke s t false).1.exec = []) : Wakes (lockRWoke s t false).1 := by
  have he' : s.exec = [] := by rw [← (lockRWoke_timeout s t).2.1]; exact he
  have ht0 := h.total_zero_of_empty he'
  simp only [lockRWoke, if_true]
  apply Wakes.releaseWC
  · exact Wakes.maybeNotify (x := { s with waitR := s.waitR.erase t }) he' ht0
  · rw [(maybeNotify_core _).2.2.2.2.1]; exact fun hm => ((List.Nodup.mem_erase_iff hnd).1 hm).1 rfl
  · rw [(maybeNotify_core _).2.2.2.2.2.1]; exact htW

theorem lockWWoke_false_wakes {s : Mx} (h : MxInv s) {t : Tid} (hnd : s.waitW.Nodup) (htR : t ∉ s.waitR)
    (he : (lockWWoke s t false).1.exec = []) : Wakes (lockWWoke s t false).1 := by
  have he' : s.exec = [] := by rw [← (lockWWoke_timeout s t).2.1]; exact he
  have ht0 := h.total_zero_of_empty he'
  simp only [lockWWoke, if_true]
  apply Wakes.releaseWC
  · exact Wakes.maybeNotify (x := { s with waitW := s.waitW.erase t }) he' ht0
  · rw [(maybeNotify_core _).2.2.2.2.1]; exact htR
  · rw [(maybeNotify_core _).2.2.2.2.2.1]; exact fun hm => ((List.Nodup.mem_erase_iff hnd).1 hm).1 rfl

theorem unlockR_wakes {s : Mx} (h : MxInv s) (t : Tid) (he : (unlockR s t).1.exec = []) :
    (unlockR s t).1 = s ∨ Wakes (unlockR s t).1 := by
  have hinv := h.unlockR t
  have ht0 := hinv.total_zero_of_empty he
  unfold unlockR at he ht0 ⊢
  by_cases hc : t ∉ s.exec ∨ s.ro t = 0
  · left; rw [if_pos hc]
  · rw [if_neg hc] at he ht0 ⊢
    by_cases hz : s.ro t - 1 = 0 ∧ s.rw t = 0
    · rw [if_pos hz] at he ht0 ⊢
      right
      rw [(maybeNotify_core _).1] at he
      rw [(maybeNotify_core _).2.2.2.1] at ht0
      exact Wakes.maybeNotify he ht0
    · rw [if_neg hz] at he
      have : t ∈ s.exec := by apply Classical.byContradiction; intro hn; exact hc (Or.inl hn)
      have he' : s.exec = [] := he
      rw [he'] at this; simp at this

theorem unlockW_wakes {s : Mx} (h : MxInv s) (t : Tid) (he : (unlockW s t).1.exec = []) :
    (unlockW s t).1 = s ∨ Wakes (unlockW s t).1 := by
  unfold unlockW at he ⊢
  by_cases hc : t ∉ s.exec ∨ s.rw t = 0
  · left; rw [if_pos hc]
  · rw [if_neg hc] at he ⊢
    right
    have ht : t ∈ s.exec := by apply Classical.byContradiction; intro hn; exact hc (Or.inl hn)
    have hrw : s.rw t > 0 := by apply Nat.pos_of_ne_zero; intro hn; exact hc (Or.inr hn)
    have hd := h.dropWrite t ht hrw
    by_cases h0 : (dropWrite s t).total = 0
    · rw [if_pos h0] at he ⊢
      by_cases hro : s.ro t > 0
      · -- the caller keeps read locks: it is still executing
        rw [if_pos hro] at he
        rw [(notifyAllReaders_core _).1] at he
        have hmem : t ∈ (dropWrite s t).exec := (hd.mem t).2 (by rw [(dropWrite_eff s t).2.2.2.2.1]; omega)
        rw [he] at hmem; simp at hmem
      · rw [if_neg hro] at he ⊢
        by_cases hem : (dropWrite s t).exec = []
        · rw [if_pos hem]; exact Wakes.notifySome _
        · rw [if_neg hem] at he; exact absurd he hem
    · rw [if_neg h0] at he
      have := hd.total_zero_of_empty he
      exact absurd this h0

/-! ### frame steps -/

theorem lockRStart_live (s : Mx) (t : Tid) (m : Mode) (he : (lockRStart s t m).1.exec = []) :
    s.exec = [] ∧ (lockRStart s t m).1.prefW = s.prefW ∧ (lockRStart s t m).1.waitW = s.waitW ∧
    (∀ u, u ≠ t → (lockRStart s t m).1.pend u = s.pend u) ∧
    ((lockRStart s t m).1.waitR = s.waitR ∨ ((lockRStart s t m).1.waitR = s.waitR ++ [t] ∧ okReaders s = false)) := by
  unfold lockRStart at he ⊢
  by_cases ht : t ∈ s.exec
  · rw [if_pos ht] at he; have he' : s.exec = [] := he; rw [he'] at ht; simp at ht
  · rw [if_neg ht] at he ⊢
    by_cases hok : okReaders s = false
    · rw [if_pos hok] at he ⊢
      by_cases hm : m = .try_
      · rw [if_pos hm] at he ⊢; exact ⟨he, rfl, rfl, fun _ _ => rfl, Or.inl rfl⟩
      · rw [if_neg hm] at he ⊢
        exact ⟨he, rfl, rfl, fun u hu => by simp [obtainWC, hu], Or.inr ⟨rfl, hok⟩⟩
    · rw [if_neg hok] at he; simp at he

theorem lockWStart_live (s : Mx) (t : Tid) (m : Mode) (he : (lockWStart s t m).1.exec = []) :
    s.exec = [] ∧ (lockWStart s t m).1.prefW = s.prefW ∧ (lockWStart s t m).1.waitR = s.waitR ∧
    (∀ u, u ≠ t → (lockWStart s t m).1.pend u = s.pend u) ∧
    ((lockWStart s t m).1.waitW = s.waitW ∨ ((lockWStart s t m).1.waitW = s.waitW ++ [t] ∧ okWriter s t = false)) := by
  unfold lockWStart at he ⊢
  by_cases ht : t ∈ s.exec
  · exfalso
    rw [if_pos ht] at he
    have : s.exec = [] := by
      by_cases h1 : s.rw t > 0 ∨ s.exec.length = 1
      · rw [if_pos h1] at he; exact he
      · rw [if_neg h1] at he
        by_cases hm : m = .try_
        · rw [if_pos hm] at he; exact he
        · rw [if_neg hm] at he; exact he
    rw [this] at ht; simp at ht
  · rw [if_neg ht] at he ⊢
    by_cases hok : okWriter s t = true
    · rw [if_pos hok] at he; simp at he
    · rw [if_neg hok] at he ⊢
      have hok' : okWriter s t = false := by simpa using hok
      by_cases hm : m = .try_
      · rw [if_pos hm] at he ⊢; exact ⟨he, rfl, rfl, fun _ _ => rfl, Or.inl rfl⟩
      · rw [if_neg hm] at he ⊢
        exact ⟨he, rfl, rfl, fun u hu => by simp [obtainWC, hu], Or.inr ⟨rfl, hok'⟩⟩

theorem lockRWoke_true_live (s : Mx) (t : Tid) (he : (lockRWoke s t true).1.exec = []) :
    (lockRWoke s t true).1 = s ∧ okReaders s = false := by
  unfold lockRWoke at he ⊢
  simp only [Bool.true_eq_false, if_false] at he ⊢
  by_cases hok : okReaders s = true
  · rw [if_pos hok] at he
    have : t ∈ addKey s.exec t := (mem_addKey _ _ _).2 (Or.inr rfl)
    have he' : addKey s.exec t = [] := he
    rw [he'] at this; simp at this
  · rw [if_neg hok]; exact ⟨rfl, by simpa using hok⟩

theorem lockWWoke_true_live (s : Mx) (t : Tid) (he : (lockWWoke s t true).1.exec = []) :
    (lockWWoke s t true).1 = s ∧ okWriter s t = false := by
  unfold lockWWoke at he ⊢
  simp only [Bool.true_eq_false, if_false] at he ⊢
  by_cases hok : okWriter s t = true
  · rw [if_pos hok] at he
    have he' : s.exec ++ [t] = [] := he
    simp at he'
  · rw [if_neg hok]; exact ⟨rfl, by simpa using hok⟩

/-- the frame rule for `LiveInv` -/
theorem wake_frame {c c' : Cfg} {t : Tid} (hl : LiveInv c) (hex : c.mx.exec = []) (hp : c'.mx.prefW = c.mx.prefW)
    (hsig : ∀ u, u ≠ t → Signalled c u → Signalled c' u)
    (hW : c'.mx.waitW = c.mx.waitW ∨ (c'.mx.waitW = c.mx.waitW ++ [t] ∧ c.mx.waitW ≠ []))
    (hR : c'.mx.waitR = c.mx.waitR ∨ c'.mx.waitR = c.mx.waitR ++ [t])
    (htW : ∀ rest, c'.mx.waitW = t :: rest → Signalled c' t)
    (htR : t ∈ c'.mx.waitR → (c'.mx.prefW = false ∨ c'.mx.waitW = []) → Signalled c' t) :
    (∀ w rest, c'.mx.waitW = w :: rest → (c'.mx.prefW = true ∨ c'.mx.waitR = []) → Signalled c' w) ∧
    (∀ r, r ∈ c'.mx.waitR → (c'.mx.prefW = false ∨ c'.mx.waitW = []) → Signalled c' r) := by
  obtain ⟨h1, h2⟩ := hl.wake hex
  have hRnil : c'.mx.waitR = [] → c.mx.waitR = [] := by
    intro h; rcases hR with e | e
    · rw [← e]; exact h
    · rw [e] at h; simp at h
  have hWnil : c'.mx.waitW = [] → c.mx.waitW = [] := by
    intro h; rcases hW with e | ⟨e, _⟩
    · rw [← e]; exact h
    · rw [e] at h; simp at h
  constructor
  · intro w rest hw hcnd
    by_cases hwt : w = t
    · subst hwt; exact htW rest hw
    · have hold : ∃ rest0, c.mx.waitW = w :: rest0 := by
        rcases hW with e | ⟨e, hne⟩
        · exact ⟨rest, by rw [← e]; exact hw⟩
        · cases hcw : c.mx.waitW with
          | nil => exact absurd hcw hne
          | cons a as =>
            rw [e, hcw] at hw
            simp at hw
            exact ⟨as, by rw [hw.1]⟩
      obtain ⟨rest0, hw0⟩ := hold
      apply hsig w hwt
      apply h1 w rest0 hw0
      rcases hcnd with hpp | hrr
      · exact Or.inl (by rw [← hp]; exact hpp)
      · exact Or.inr (hRnil hrr)
  · intro r hr hcnd
    by_cases hrt : r = t
    · subst hrt; exact htR hr hcnd
    · have hr0 : r ∈ c.mx.waitR := by
        rcases hR with e | e
        · rw [← e]; exact hr
        · rw [e] at hr; simp at hr; rcases hr with h | h; exact h; exact absurd h hrt
      apply hsig r hrt
      apply h2 r hr0
      rcases hcnd with hpp | hww
      · exact Or.inl (by rw [← hp]; exact hpp)
      · exact Or.inr (hWnil hww)

theorem Signalled.frame {c c' : Cfg} {u : Tid} (hth : c'.th u = c.th u) (hp : c'.mx.pend u = c.mx.pend u) :
    Signalled c u → Signalled c' u := by
  unfold Signalled; rw [hth, hp]; exact id


theorem stepRun_rWait_spec {c c' : Cfg} {t : Tid} {o : Option St} {m : Mode} (hpc : (c.th t).pc = .rWait m)
    (h : stepRun c t = some (c', o)) :
    c' = { mx := flushWC c.mx t, th := upd c.th t { c.th t with pc := .rWoke m true } } := by
  unfold stepRun at h
  simp only [hpc] at h
  split at h
  · have := congrArg (fun p : Cfg × Option St => p.1) (Option.some.inj h); exact this.symm
  · cases h

theorem stepRun_wWait_spec {c c' : Cfg} {t : Tid} {o : Option St} {m : Mode} (hpc : (c.th t).pc = .wWait m)
    (h : stepRun c t = some (c', o)) :
    c' = { mx := flushWC c.mx t, th := upd c.th t { c.th t with pc := .wWoke m true } } := by
  unfold stepRun at h
  simp only [hpc] at h
  split at h
  · have := congrArg (fun p : Cfg × Option St => p.1) (Option.some.inj h); exact this.symm
  · cases h

/-- with nobody executing, a failed reader admission test means: writers are preferred and one is waiting -/
theorem not_okReaders_empty {s : Mx} (h : MxInv s) (he : s.exec = []) (hok : okReaders s = false) :
    ¬ (s.prefW = false ∨ s.waitW = []) := by
  intro hc
  have ht0 := h.total_zero_of_empty he
  have : okReaders s = true := (okReaders_iff s).2 ⟨ht0, hc⟩
  rw [this] at hok; cases hok

/-- with nobody executing, a failed writer admission test means: another writer is first in the queue -/
theorem not_okWriter_empty {s : Mx} {t : Tid} (he : s.exec = []) (hok : okWriter s t = false) :
    s.waitW ≠ [] ∧ s.waitW.head? ≠ some t := by
  constructor
  · intro hn
    have : okWriter s t = true := (okWriter_iff s t).2 ⟨he, Or.inl hn⟩
    rw [this] at hok; cases hok
  · intro hn
    have : okWriter s t = true := (okWriter_iff s t).2 ⟨he, Or.inr hn⟩
    rw [this] at hok; cases hok

theorem stepRun_liveInv {c c' : Cfg} {t : Tid} {o : Option St} (hm : MxInv c.mx) (hc : CtlInv c) (hl : LiveInv c)
    (h : stepRun c t = some (c', o)) : LiveInv c' := by
  have hmx := stepRun_mx h
  have hoth := (stepRun_eff hc h).others
  have same_frame : c'.mx = c.mx → (c.th t).pc.rWaiting = false → (c.th t).pc.wWaiting = false → LiveInv c' := by
    intro e hr hw
    refine ⟨fun he' => ?_⟩
    rw [e] at he' ⊢
    have hex := he'
    have tR : t ∉ c.mx.waitR := by rw [hc.inR t, hr]; simp
    have tW : t ∉ c.mx.waitW := by rw [hc.inW t, hw]; simp
    have := wake_frame (c' := c') (t := t) hl hex (by rw [e])
      (fun u hu => Signalled.frame (hoth u hu) (by rw [e])) (Or.inl (by rw [e])) (Or.inl (by rw [e]))
      (fun rest hw' => by rw [e] at hw'; rw [hw'] at tW; simp at tW)
      (fun hin _ => by rw [e] at hin; exact absurd hin tR)
    rw [e] at this; exact this
  cases hpc : (c.th t).pc with
  | done => unfold stepRun at h; simp [hpc] at h
  | rStart m =>
    simp only [hpc] at hmx
    have tR : t ∉ c.mx.waitR := by rw [hc.inR t, hpc]; simp [Pc.rWaiting]
    have tW : t ∉ c.mx.waitW := by rw [hc.inW t, hpc]; simp [Pc.wWaiting]
    refine ⟨fun he' => ?_⟩
    have he2 := he'; rw [hmx] at he2
    obtain ⟨hex, hp, hWq, hpend, hRq⟩ := lockRStart_live c.mx t m he2
    have hWq' : c'.mx.waitW = c.mx.waitW := by rw [hmx]; exact hWq
    have hp' : c'.mx.prefW = c.mx.prefW := by rw [hmx]; exact hp
    apply wake_frame hl hex hp' (fun u hu => Signalled.frame (hoth u hu) (by rw [hmx]; exact hpend u hu)) (Or.inl hWq')
    · rcases hRq with e | ⟨e, _⟩
      · exact Or.inl (by rw [hmx]; exact e)
      · exact Or.inr (by rw [hmx]; exact e)
    · intro rest hw'; rw [hWq'] at hw'; rw [hw'] at tW; simp at tW
    · intro hin hcnd
      rcases hRq with e | ⟨_, hok⟩
      · rw [hmx, e] at hin; exact absurd hin tR
      · rw [hp', hWq'] at hcnd; exact absurd hcnd (not_okReaders_empty hm hex hok)
  | wStart m =>
    simp only [hpc] at hmx
    have tR : t ∉ c.mx.waitR := by rw [hc.inR t, hpc]; simp [Pc.rWaiting]
    have tW : t ∉ c.mx.waitW := by rw [hc.inW t, hpc]; simp [Pc.wWaiting]
    refine ⟨fun he' => ?_⟩
    have he2 := he'; rw [hmx] at he2
    obtain ⟨hex, hp, hRq, hpend, hWq⟩ := lockWStart_live c.mx t m he2
    have hRq' : c'.mx.waitR = c.mx.waitR := by rw [hmx]; exact hRq
    have hp' : c'.mx.prefW = c.mx.prefW := by rw [hmx]; exact hp
    apply wake_frame hl hex hp' (fun u hu => Signalled.frame (hoth u hu) (by rw [hmx]; exact hpend u hu)) ?_ (Or.inl hRq')
    · intro rest hw'
      rcases hWq with e | ⟨e, hok⟩
      · rw [hmx, e] at hw'; rw [hw'] at tW; simp at tW
      · have hne := (not_okWriter_empty hex hok).1
        rw [hmx, e] at hw'
        cases hcw : c.mx.waitW with
        | nil => exact absurd hcw hne
        | cons a as => rw [hcw] at hw' tW; simp at hw'; simp at tW; exact absurd hw'.1.symm tW.1
    · intro hin _; rw [hRq'] at hin; exact absurd hin tR
    · rcases hWq with e | ⟨e, hok⟩
      · exact Or.inl (by rw [hmx]; exact e)
      · exact Or.inr ⟨by rw [hmx]; exact e, (not_okWriter_empty hex hok).1⟩
  | rWait m =>
    have hc' := stepRun_rWait_spec hpc h
    have tW : t ∉ c.mx.waitW := by rw [hc.inW t, hpc]; simp [Pc.wWaiting]
    refine ⟨fun he' => ?_⟩
    have hex : c.mx.exec = [] := by rw [hc'] at he'; exact he'
    have hsigt : Signalled c' t := Or.inr (Or.inl ⟨m, true, by rw [hc']; simp⟩)
    apply wake_frame hl hex (by rw [hc']; rfl)
      (fun u hu => Signalled.frame (hoth u hu) (by rw [hc']; simp [flushWC, hu])) (Or.inl (by rw [hc']; rfl)) (Or.inl (by rw [hc']; rfl))
    · intro rest hw'; exact hsigt
    · intro _ _; exact hsigt
  | wWait m =>
    have hc' := stepRun_wWait_spec hpc h
    refine ⟨fun he' => ?_⟩
    have hex : c.mx.exec = [] := by rw [hc'] at he'; exact he'
    have hsigt : Signalled c' t := Or.inr (Or.inr ⟨m, true, by rw [hc']; simp⟩)
    apply wake_frame hl hex (by rw [hc']; rfl)
      (fun u hu => Signalled.frame (hoth u hu) (by rw [hc']; simp [flushWC, hu])) (Or.inl (by rw [hc']; rfl)) (Or.inl (by rw [hc']; rfl))
    · intro rest hw'; exact hsigt
    · intro _ _; exact hsigt
  | rWoke m b =>
    simp only [hpc] at hmx
    have tW : t ∉ c.mx.waitW := by rw [hc.inW t, hpc]; simp [Pc.wWaiting]
    cases b with
    | false =>
      apply liveInv_of_wakes
      intro he'; rw [hmx] at he' ⊢
      exact lockRWoke_false_wakes hm hc.ndR tW he'
    | true =>
      refine ⟨fun he' => ?_⟩
      have he2 := he'; rw [hmx] at he2
      obtain ⟨hsame, hok⟩ := lockRWoke_true_live c.mx t he2
      have e : c'.mx = c.mx := by rw [hmx]; exact hsame
      have hex : c.mx.exec = [] := by rw [← e]; exact he'
      apply wake_frame hl hex (by rw [e]) (fun u hu => Signalled.frame (hoth u hu) (by rw [e])) (Or.inl (by rw [e])) (Or.inl (by rw [e]))
      · intro rest hw'; rw [e] at hw'; rw [hw'] at tW; simp at tW
      · intro _ hcnd; rw [e] at hcnd; exact absurd hcnd (not_okReaders_empty hm hex hok)
  | wWoke m b =>
    simp only [hpc] at hmx
    have tR : t ∉ c.mx.waitR := by rw [hc.inR t, hpc]; simp [Pc.rWaiting]
    cases b with
    | false =>
      apply liveInv_of_wakes
      intro he'; rw [hmx] at he' ⊢
      exact lockWWoke_false_wakes hm hc.ndW tR he'
    | true =>
      refine ⟨fun he' => ?_⟩
      have he2 := he'; rw [hmx] at he2
      obtain ⟨hsame, hok⟩ := lockWWoke_true_live c.mx t he2
      have e : c'.mx = c.mx := by rw [hmx]; exact hsame
      have hex : c.mx.exec = [] := by rw [← e]; exact he'
      apply wake_frame hl hex (by rw [e]) (fun u hu => Signalled.frame (hoth u hu) (by rw [e])) (Or.inl (by rw [e])) (Or.inl (by rw [e]))
      · intro rest hw'; rw [e] at hw'
        have := (not_okWriter_empty hex hok).2
        rw [hw'] at this; simp at this
      · intro hin _; rw [e] at hin; exact absurd hin tR
  | uR =>
    simp only [hpc] at hmx
    by_cases hs : (unlockR c.mx t).1 = c.mx
    · exact same_frame (by rw [hmx]; exact hs) (by rw [hpc]; rfl) (by rw [hpc]; rfl)
    · apply liveInv_of_wakes
      intro he'; rw [hmx] at he' ⊢
      rcases unlockR_wakes hm t he' with e | w
      · exact absurd e hs
      · exact w
  | uW =>
    simp only [hpc] at hmx
    by_cases hs : (unlockW c.mx t).1 = c.mx
    · exact same_frame (by rw [hmx]; exact hs) (by rw [hpc]; rfl) (by rw [hpc]; rfl)
    · apply liveInv_of_wakes
      intro he'; rw [hmx] at he' ⊢
      rcases unlockW_wakes hm t he' with e | w
      · exact absurd e hs
      · exact w

theorem stepTimeout_liveInv {c c' : Cfg} {t : Tid} {o : Option St} (hl : LiveInv c)
    (h : stepTimeout c t = some (c', o)) : LiveInv c' := by
  obtain ⟨_, _, hmx, hcase⟩ := stepTimeout_spec h
  have hoth : ∀ u, u ≠ t → c'.th u = c.th u := by
    intro u hu
    rcases hcase with ⟨_, hth⟩ | ⟨_, hth⟩ <;> (rw [hth]; simp [upd, hu])
  have hsigt : Signalled c' t := by
    rcases hcase with ⟨_, hth⟩ | ⟨_, hth⟩
    · exact Or.inr (Or.inl ⟨.timed, false, by rw [hth]; simp⟩)
    · exact Or.inr (Or.inr ⟨.timed, false, by rw [hth]; simp⟩)
  refine ⟨fun he' => ?_⟩
  have hex : c.mx.exec = [] := by rw [← hmx]; exact he'
  exact wake_frame hl hex (by rw [hmx]) (fun u hu => Signalled.frame (hoth u hu) (by rw [hmx])) (Or.inl (by rw [hmx]))
    (Or.inl (by rw [hmx])) (fun _ _ => hsigt) (fun _ _ => hsigt)

theorem init_liveInv (p : Bool) (progs : List (List Op)) : LiveInv (Cfg.init p progs) :=
  ⟨fun _ => ⟨fun w rest hw => by simp [Cfg.init, Mx.init] at hw, fun r hr => by simp [Cfg.init, Mx.init] at hr⟩⟩

/-- all three invariants together, for every reachable configuration -/
theorem reach_allInv (p : Bool) (progs : List (List Op)) {c : Cfg} (h : machine.Reach (Cfg.init p progs) c) :
    MxInv c.mx ∧ CtlInv c ∧ LiveInv c :=
  Machine.Reach.invariant machine (fun c => MxInv c.mx ∧ CtlInv c ∧ LiveInv c)
    ⟨init_mxInv p progs, init_ctlInv p progs, init_liveInv p progs⟩
    (fun c e c' o ⟨hm, hc, hl⟩ hs =>
      ⟨step_mxInv hm hs, step_ctlInv hc hs,
       match e, hs with
       | .run _, hs => stepRun_liveInv hm hc hl hs
       | .timeout _, hs => stepTimeout_liveInv hl hs⟩) h

theorem reach_liveInv (p : Bool) (progs : List (List Op)) {c : Cfg} (h : machine.Reach (Cfg.init p progs) c) : LiveInv c :=
  (reach_allInv p progs h).2.2

end Muscle.Conc.RW
