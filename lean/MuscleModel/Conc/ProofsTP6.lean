import MuscleModel.Conc.ProofsTP5

/-! # C19 proofs, layer 6: all progress invariants together, and deadlock freedom -/

namespace Muscle.Conc.TP
open Muscle.Conc

structure InvLive (c : Cfg) : Prop where
  all : InvAll c
  p : InvP c
  s : Settled c
  u : InvU c
  pp : PP c
  jj : JJ c

theorem invLive_step {c c' : Cfg} {e : Ev} {o} (h : InvLive c) (hs : step c e = some (c', o)) : InvLive c' := by
  have hall := invAll_step h.all hs
  have h0 := h.all.inv.i0
  have h1 := h.all.inv.i1
  have hh := h.all.h
  have hd := h.all.inv.disc
  cases e with
  | timeout t => simp [step] at hs
  | run i =>
    simp only [step] at hs
    split at hs
    · exact ⟨hall, invP_stepUser h.p h0 h1 hs, settled_stepUser h.s h0 h1 hh h.p hd hs, invU_stepUser h.u h0 h1 hd hs,
        pp_stepUser h.pp h.u h0 hs, jj_stepUser h.jj h0 hs⟩
    · have hv := stepPool_userView hs
      exact ⟨hall, invP_stepPool h.p h0 hs, settled_stepPool h.s h0 h1 hh h.p hs, invU_userView h.u h1 hv,
        pp_userView h.pp hv, jj_userView h.jj hv (qk_stepPool hs)⟩

/-- nobody registers with a pool that is (going to be) shut down: if some program calls `Shutdown`, no program registers -/
def NoRegIfShutdown (progs : List (List Op)) : Prop :=
  ∀ t0, Op.shutdown ∈ progs.getD t0 [] → ∀ t k, Op.reg k ∉ progs.getD t []

theorem invLive_init (maxT : Nat) (regs : List Client) (progs : List (List Op)) (hd : Disciplined progs) (hn : NoRegIfShutdown progs) :
    InvLive (Cfg.init maxT regs progs) := by
  have hu := init_uth_prog maxT regs progs
  refine ⟨invAll_init maxT regs progs hd, invP_init maxT regs progs, settled_init maxT regs progs, ?_, ?_, ?_⟩
  · constructor
    · intro t ht
      have : progs[t]? = none := by simpa [Cfg.init] using ht
      simp [Cfg.init, this, UTh.ofProg]
    · intro t0 hh t k
      rcases hh with h | h
      · rw [(hu t0).1] at h; rw [(hu t).1]; exact hn t0 h t k
      · simp [Cfg.init, Pool.init] at h
    · intro t h; rcases (hu t).2.2 with h' | h' <;> (rw [h'] at h; cases h)
    · intro t k h; rcases (hu t).2.2 with h' | h' <;> (rw [h'] at h; cases h)
    · intro t k h; rcases (hu t).2.2 with h' | h' <;> (rw [h'] at h; cases h)
    · intro t h
      simp only [Cfg.init] at h ⊢
      cases hp : progs[t]? with
      | none => simp [hp, UTh.ofProg] at h
      | some pr =>
        simp only [hp, UTh.ofProg] at h ⊢
        split at h
        · cases h
        · assumption
  · intro h; simp [Cfg.init, Pool.init] at h
  · intro t b nA tot n T rest h; rcases (hu t).2.2 with h' | h' <;> (rw [h'] at h; cases h)

theorem reach_invLive {maxT regs progs c} (hd : Disciplined progs) (hn : NoRegIfShutdown progs)
    (h : machine.Reach (Cfg.init maxT regs progs) c) : InvLive c :=
  Machine.Reach.invariant machine InvLive (invLive_init maxT regs progs hd hn) (fun _ _ _ _ hi hs => invLive_step hi hs) h

/-! ## who can step -/

theorem pool_enabled {c : Cfg} (hp : InvP c) (T : PTid) (hlt : T < c.p.idc) (hne : (c.pth T).pc ≠ .exited)
    (hidle : (c.pth T).pc = .idle → (c.pth T).inbox ≠ []) : ∃ r, stepPool c T = some r := by
  have hb := hp.born T hlt
  unfold stepPool
  simp only
  split
  · rename_i h; exact absurd h hb
  · rename_i h; exact absurd h hne
  · exact ⟨_, rfl⟩
  · rename_i h; rw [if_neg (hidle h)]; exact ⟨_, rfl⟩
  · rename_i h
    obtain ⟨k, m, q, hc, hq⟩ := hp.hq T h
    rw [hc, hq]
    cases q with
    | nil => exact ⟨_, rfl⟩
    | cons m2 q => exact ⟨_, rfl⟩
  · exact ⟨_, rfl⟩

theorem step_pool_event (c : Cfg) (T : PTid) : step c (.run (c.nU + T)) = stepPool c T := by
  simp only [step]
  rw [if_neg (Nat.not_lt.2 (Nat.le_add_right _ _)), Nat.add_sub_cancel_left]

/-- a pool thread that serves a client can step -/
theorem server_enabled {c : Cfg} (hp : InvP c) (T : PTid) (h : (c.pth T).cur ≠ none ∨ isFin (c.pth T).pc = true) :
    ∃ r, stepPool c T = some r := by
  have hpcs : (c.pth T).pc = .handler ∨ (((c.pth T).pc = .start ∨ (c.pth T).pc = .idle) ∧ (c.pth T).inbox.head? = some .batch) ∨ isFin (c.pth T).pc = true := by
    rcases h with h | h
    · cases hc : (c.pth T).cur with
      | none => exact absurd hc h
      | some k =>
        rcases hp.g T k hc with h1 | h1
        · exact Or.inl h1
        · exact Or.inr (Or.inl h1)
    · exact Or.inr (Or.inr h)
  have hlt : T < c.p.idc := by
    by_cases hlt : T < c.p.idc
    · exact hlt
    · have hu := hp.unb T (Nat.le_of_not_lt hlt)
      rcases hpcs with h1 | ⟨h1 | h1, _⟩ | h1 <;> (rw [hu] at h1; simp [isFin] at h1)
  apply pool_enabled hp T hlt
  · intro hex
    rcases hpcs with h1 | ⟨h1 | h1, _⟩ | h1 <;> (rw [hex] at h1; simp [isFin] at h1)
  · intro hid
    rcases hpcs with h1 | ⟨_, h2⟩ | h1
    · rw [hid] at h1; cases h1
    · intro hnil; rw [hnil] at h2; simp at h2
    · rw [hid] at h1; simp [isFin] at h1

/-- a user thread that cannot step is finished, or waits in `UnregisterClient` without a notification, or waits in the
join of `Shutdown` for a pool thread that has not ended -/
theorem stuck_cases (c : Cfg) (t : Tid) (hn : stepUser c t = none) :
    (c.uth t).pc = .done ∨ ((c.uth t).pc = .opStart ∧ (c.uth t).prog = []) ∨
    (∃ k, (c.uth t).pc = .unregWait k ∧ (c.uth t).notif = 0) ∨
    (∃ b nA tot n T r, (c.uth t).pc = .sdJoin b nA tot n T r ∧ (c.pth T).pc ≠ .exited) := by
  unfold stepUser at hn
  simp only at hn
  split at hn
  · exact Or.inl (by assumption)
  · rename_i hpc
    split at hn
    · rename_i hp; exact Or.inr (Or.inl ⟨hpc, hp⟩)
    all_goals first | (split at hn <;> simp at hn) | simp at hn
  all_goals first
    | (simp at hn; done)
    | (rename_i b nA tot n T r hpc; split at hn; (simp at hn); exact Or.inr (Or.inr (Or.inr ⟨b, nA, tot, n, T, r, hpc, by assumption⟩)))
    | (rename_i k hpc; split at hn; (simp at hn); exact Or.inr (Or.inr (Or.inl ⟨k, hpc, by omega⟩)))
    | (split at hn <;> simp at hn)

theorem step_user_event (c : Cfg) (t : Tid) (ht : t < c.nU) : step c (.run t) = stepUser c t := by
  simp only [step]; rw [if_pos ht]

theorem join_progress {c : Cfg} (h : InvLive c) (T : PTid) {t b nA tot n r} (hpc : (c.uth t).pc = .sdJoin b nA tot n T r)
    (hne : (c.pth T).pc ≠ .exited) : ∃ e r, step c e = some r := by
  obtain ⟨a1, _, a3⟩ := h.jj t b nA tot n T r hpc
  have hq : Item.quit ∈ (c.pth T).inbox := by
    rcases a3 with a3 | a3
    · exact absurd a3 hne
    · exact a3
  obtain ⟨r', hr'⟩ := pool_enabled h.p T a1 hne (fun _ hnil => by rw [hnil] at hq; simp at hq)
  exact ⟨.run (c.nU + T), r', by rw [step_pool_event]; exact hr'⟩

/-- **Progress.**  While some user thread has not finished, some thread can step. -/
theorem live_progress {c : Cfg} (h : InvLive c) (hm : 1 ≤ c.p.maxT) (t : Tid) (ht : t < c.nU) (hnd : (c.uth t).pc ≠ .done) :
    ∃ e r, step c e = some r := by
  cases hst : stepUser c t with
  | some r => exact ⟨.run t, r, by rw [step_user_event c t ht]; exact hst⟩
  | none =>
    rcases stuck_cases c t hst with h1 | ⟨h1, h2⟩ | ⟨k, h1, h2⟩ | ⟨b, nA, tot, n, T, r, h1, h2⟩
    · exact absurd h1 hnd
    · exact absurd h2 (h.u.os t h1)
    · -- waiting in UnregisterClient(k) without a notification
      obtain ⟨hkw, _⟩ := h.u.w t k h1 h2
      cases hsh : c.p.shut with
      | false =>
        have ho := h.s.oo k hkw
        cases hf : c.p.flag k with
        | true =>
          obtain ⟨T, hT⟩ := h.s.e2 hsh k hf
          have hsv : (c.pth T).cur ≠ none ∨ isFin (c.pth T).pc = true := by
            rcases hT with hT | hT
            · left; rw [hT]; simp
            · right; rw [hT]; rfl
          obtain ⟨r', hr'⟩ := server_enabled h.p T hsv
          exact ⟨.run (c.nU + T), r', by rw [step_pool_event]; exact hr'⟩
        | false =>
          have hdf := h.all.inv.i1.f1 k hf
          have hpn : c.p.pend k ≠ [] := by
            intro hp
            simp [outstanding, hf, hp, hdf] at ho
          obtain ⟨ha, hb⟩ := h.s.dd hsh k hpn
          cases hact : c.p.active with
          | nil => rw [hact] at hb; simp at hb; omega
          | cons T rest =>
            have hTa : T ∈ c.p.active := by rw [hact]; simp
            obtain ⟨r', hr'⟩ := server_enabled h.p T (h.p.ac hsh T hTa)
            exact ⟨.run (c.nU + T), r', by rw [step_pool_event]; exact hr'⟩
      | true =>
        rcases h.pp hsh with ⟨t', ht'⟩ | ⟨_, hw⟩
        · have hlt' : t' < c.nU := by
            by_cases hlt : t' < c.nU
            · exact hlt
            · have := h.u.nu t' (Nat.le_of_not_lt hlt); rw [this] at ht'; simp [inShutdown] at ht'
          cases hst' : stepUser c t' with
          | some r' => exact ⟨.run t', r', by rw [step_user_event c t' hlt']; exact hst'⟩
          | none =>
            rcases stuck_cases c t' hst' with g1 | ⟨g1, _⟩ | ⟨k', g1, _⟩ | ⟨b, nA, tot, n, T, r, g1, g2⟩
            · rw [g1] at ht'; simp [inShutdown] at ht'
            · rw [g1] at ht'; simp [inShutdown] at ht'
            · rw [g1] at ht'; simp [inShutdown] at ht'
            · exact join_progress h T g1 g2
        · rw [hw] at hkw; simp at hkw
    · exact join_progress h T h1 h2
