import MuscleModel.Conc.ProofsRCStep2

/-! # Preservation of the joint invariant: decrements with cascading release, pool critical sections, object-level operations (lemmas for C10) -/

namespace Muscle.Conc.RC
open Muscle.Conc Muscle.Conc.Pool

theorem dec_facts {c : Cfg} {t : Nat} {th : Th} {o : Oid} {more : List Act} (h : Inv c) (ht : c.ths[t]? = some th)
    (hpos : 0 < cntDec th.todo o) :
    (c.obj o).alive = true ∧ 0 < (c.obj o).count ∧ th.raw ≠ some o ∧ ∀ k, c.nextHeap ≤ k → o ≠ .heap k := by
  have h1 : 0 < th.refs o := by simp only [Th.refs]; omega
  have h2 := th_refs_le ht o
  have hal := h.alive o (by omega)
  have hc : 0 < (c.obj o).count := by rw [h.cnt o]; omega
  refine ⟨hal, hc, ?_, ?_⟩
  · intro hr; have := (h.raw t th o ht hr).2; omega
  · intro k hk he; subst he; have := (h.heapFresh k hk).1; rw [hal] at this; cases this

theorem aliveN_setObj_heap (f : Oid → Obj) (k : Nat) (v : Obj) (x : Oid) : aliveN (setObj f (.heap k) v) x = aliveN f x := by
  cases x with
  | heap j => rfl
  | node s i => simp [aliveN, setObj]

theorem aliveN_setObj_node (f : Oid → Obj) (s i : Nat) (v : Obj) (x : Oid) :
    aliveN (setObj f (.node s i) v) x + (if x = .node s i then b2n (f (.node s i)).alive else 0) =
    aliveN f x + (if x = .node s i then b2n v.alive else 0) := by
  cases x with
  | heap j => simp [aliveN]
  | node s' i' =>
    by_cases hx : Oid.node s' i' = Oid.node s i
    · rw [hx]; simp [aliveN]; omega
    · simp [aliveN, setObj, hx]

/-- a decrement that does not reach zero (`dec`), or that never deletes (`decNoDel`) -/
theorem inv_dec_more {c : Cfg} {t : Nat} {th : Th} {o : Oid} {act : Act} {more : List Act} (h : Inv c) (ht : c.ths[t]? = some th)
    (htodo : th.todo = act :: more) (hact : ∀ x, cntDec [act] x = if o = x then 1 else 0) (hactr : ∀ x, cntRel [act] x = 0) :
    Inv { c with obj := setObj c.obj o { c.obj o with count := (c.obj o).count - 1 }, ths := c.ths.set t { th with todo := more } } := by
  have hd : ∀ x, cntDec th.todo x = (if o = x then 1 else 0) + cntDec more x := by
    intro x; rw [htodo, cntDec_cons, hact]
  have ⟨hal, hc, hraw, hfr⟩ := dec_facts (more := more) h ht (o := o) (by rw [hd]; simp; omega)
  have := inv_obj1 (o := o) (ob' := { c.obj o with count := (c.obj o).count - 1 }) (p' := c.pool) (nh' := c.nextHeap) (l' := c.links)
    (th' := { th with todo := more }) h ht h.pool
    (by intro x hx; have hx' : ¬ o = x := fun e => hx e.symm; simp [Th.refs, hd, hx'])
    (by simp [Th.refs, hd]; omega)
    (fun _ => Or.inl hal)
    (by intro hlt; simp [Th.refs, hd] at hlt; omega)
    (by intro x hx; by_cases hxo : x = o
        · subst hxo; exact absurd hx hraw
        · exact Or.inr ⟨hxo, hx⟩)
    (by intro _ h0; omega)
    (fun hx => Or.inl hx)
    (by simp only; exact h.acq o)
    (by intro x; rw [aliveN_setObj_alive c.obj o { c.obj o with count := (c.obj o).count - 1 } rfl]
        simp only [htodo]; rw [cntRel_cons act more, hactr]; omega)
    (fun k hk => ⟨hk, hfr k hk⟩)
    (by intro k hk; subst hk; simp only; exact h.heapMgr k)
    (by intro k hk; subst hk; simp only; exact h.heapAcq k)
    (by intro s i hk _; subst hk; simp only; exact h.nodeMgr s i hal)
    (by intro s i hk ha; subst hk; simp only at ha; rw [hal] at ha; cases ha)
    (fun x hx hs => Or.inl (sub_tail htodo x hx hs))
    (fun _ hs => hs)
    h.linksND
    (fun x n hm => ⟨fun _ => hal, fun _ => Or.inl hm⟩)
  exact this

/-- the last reference goes away: the object is released (reset to default / destroyed), its `next` member is given up
(cascade: a pending decrement of the target), a pooled object is queued for `ReleaseObjectAux` -/
theorem inv_dec_last {c : Cfg} {t : Nat} {th : Th} {o : Oid} {more : List Act} (h : Inv c) (ht : c.ths[t]? = some th)
    (htodo : th.todo = .dec o :: more) (hz : (c.obj o).count - 1 = 0) (ob' : Obj) (tail : List Act)
    (hob : (ob' = { c.obj o with count := 0, alive := false, mgr := false, val := 0, rel := (c.obj o).rel + 1 } ∧ (c.obj o).mgr = true ∧ tail = .release o :: more) ∨
           (ob' = { c.obj o with count := 0, alive := false, rel := (c.obj o).rel + 1 } ∧ (c.obj o).mgr = false ∧ tail = more)) :
    Inv { c with obj := setObj c.obj o ob', links := dropKey c.links o,
                 ths := c.ths.set t { th with todo := decNext (nextOf c.links o) ++ tail } } := by
  have hd : ∀ x, cntDec th.todo x = (if o = x then 1 else 0) + cntDec more x := by
    intro x; rw [htodo]; simp [cntDec]
  have ⟨hal, hc, hraw, hfr⟩ := dec_facts (more := more) h ht (o := o) (by rw [hd]; simp; omega)
  have hcount : ob'.count = 0 := by rcases hob with ⟨rfl, _⟩ | ⟨rfl, _⟩ <;> rfl
  have halive : ob'.alive = false := by rcases hob with ⟨rfl, _⟩ | ⟨rfl, _⟩ <;> rfl
  have hacq : ob'.acq = (c.obj o).acq ∧ ob'.rel = (c.obj o).rel + 1 := by rcases hob with ⟨rfl, _⟩ | ⟨rfl, _⟩ <;> exact ⟨rfl, rfl⟩
  have htd : ∀ x, cntDec tail x = cntDec more x := by
    intro x; rcases hob with ⟨_, _, rfl⟩ | ⟨_, _, rfl⟩ <;> simp [cntDec]
  have htr : ∀ x, cntRel tail x = cntRel more x + (if (c.obj o).mgr = true ∧ o = x then 1 else 0) := by
    intro x; rcases hob with ⟨_, hm, rfl⟩ | ⟨_, hm, rfl⟩ <;> simp [cntRel, hm]; omega
  have hts : ∀ x, Special x → x ∈ tail → x ∈ more := by
    intro x hx hm; rcases hob with ⟨_, _, rfl⟩ | ⟨_, _, rfl⟩
    · rcases List.mem_cons.mp hm with he | hm
      · subst he; exact absurd hx id
      · exact hm
    · exact hm
  have hkind : ((c.obj o).mgr = true → ∃ s i, o = .node s i) ∧ ((c.obj o).mgr = false → ∃ k, o = .heap k) := by
    constructor
    · intro hm; cases o with
      | heap k => have := h.heapMgr k; rw [hm] at this; cases this
      | node s i => exact ⟨s, i, rfl⟩
    · intro hm; cases o with
      | heap k => exact ⟨k, rfl⟩
      | node s i => have := h.nodeMgr s i hal; rw [hm] at this; cases this
  have := inv_obj1 (o := o) (ob' := ob') (p' := c.pool) (nh' := c.nextHeap) (l' := dropKey c.links o)
    (th' := { th with todo := decNext (nextOf c.links o) ++ tail }) h ht h.pool
    (by intro x hx
        have hx' : ¬ o = x := fun e => hx e.symm
        have := cntL_dropKey h.linksND o x
        simp only [Th.refs, hd, cntDec_append, cntDec_decNext, htd, hx', if_false]; omega)
    (by have := cntL_dropKey h.linksND o o
        simp only [Th.refs, hd, cntDec_append, cntDec_decNext, htd, hcount, if_true]; omega)
    (fun _ => Or.inr hcount)
    (by intro hlt
        have := cntL_dropKey h.linksND o o
        simp only [Th.refs, hd, cntDec_append, cntDec_decNext, htd, if_true] at hlt; omega)
    (by intro x hx; by_cases hxo : x = o
        · subst hxo; exact absurd hx hraw
        · exact Or.inr ⟨hxo, hx⟩)
    (by intro _ h0; omega)
    (fun hx => Or.inl hx)
    (by have := h.acq o; rw [hal] at this; simp [halive, hacq.1, hacq.2] at this ⊢; omega)
    (by
      intro x
      simp only [htodo, cntRel_append, cntRel_decNext, htr, cntRel]
      cases hm : (c.obj o).mgr with
      | true =>
        obtain ⟨s0, i0, rfl⟩ := hkind.1 hm
        have := aliveN_setObj_node c.obj s0 i0 ob' x
        by_cases hx : x = .node s0 i0
        · subst hx; simp [hal, halive] at this ⊢; omega
        · have hx' : ¬ Oid.node s0 i0 = x := fun e => hx e.symm
          simp [hx, hx'] at this ⊢; omega
      | false =>
        obtain ⟨k0, rfl⟩ := hkind.2 hm
        rw [aliveN_setObj_heap]; simp)
    (fun k hk => ⟨hk, hfr k hk⟩)
    (by intro k hk; rcases hob with ⟨rfl, _⟩ | ⟨rfl, hm, _⟩
        · rfl
        · exact hm)
    (by intro k hk; subst hk; rw [hacq.1]; exact h.heapAcq k)
    (by intro s i _ ha; rw [halive] at ha; cases ha)
    (by intro s i hk _
        rcases hob with ⟨rfl, _⟩ | ⟨rfl, hm, _⟩
        · exact ⟨rfl, rfl⟩
        · subst hk; have := h.nodeMgr s i hal; rw [hm] at this; cases this)
    (by intro x hx hs
        rcases List.mem_append.mp hs with hs | hs
        · exact absurd hs (special_not_mem_decNext _ x hx)
        · left; rw [htodo]; exact List.mem_cons_of_mem _ (hts x hx hs))
    (fun _ hs => hs)
    (nodup_dropKey h.linksND o)
    (by intro x n hm
        have ⟨h1, h2⟩ := mem_dropKey.mp hm
        exact ⟨fun e => absurd e h2, fun _ => Or.inl h1⟩)
  exact this


theorem dead_of_outBit_false {c : Cfg} (h : Inv c) {s i : Nat} (hb : outBit c.pool s i = false) :
    (c.obj (.node s i)).alive = false ∧ pendRel c (.node s i) = 0 := by
  have := h.out (.node s i)
  simp only [aliveN, outBitO, hb, b2n_false] at this
  constructor
  · cases ha : (c.obj (.node s i)).alive with
    | false => rfl
    | true => rw [ha] at this; simp at this
  · omega

/-- `ObtainObject()`: the node handed out was free, is not referenced by anybody, and becomes the caller's raw pointer -/
theorem inv_obtain {c : Cfg} {t : Nat} {th : Th} {more : List Act} {p' : PoolSt} {g : Got} (h : Inv c) (ht : c.ths[t]? = some th)
    (htodo : th.todo = .obtain :: more) (hob : obtain c.pool = (p', g)) :
    Inv { c with pool := p',
                 obj := setObj c.obj (.node g.sid g.idx) { c.obj (.node g.sid g.idx) with alive := true, mgr := true, acq := (c.obj (.node g.sid g.idx)).acq + 1 },
                 ths := c.ths.set t { th with raw := some (.node g.sid g.idx), todo := more } } := by
  have hs := obtain_spec h.pool
  rw [hob] at hs
  obtain ⟨hp', hb0, hb1, hbo, hun⟩ := hs
  simp only at hp' hb0 hb1 hbo hun
  have ⟨hdead, hpr⟩ := dead_of_outBit_false h hb0
  have hc0 := count_zero_of_dead h hdead
  have hnolink : ∀ n, (Oid.node g.sid g.idx, n) ∉ c.links := by
    intro n hm; have := h.linkAlive _ _ hm; rw [hdead] at this; cases this
  have := inv_obj1 (o := .node g.sid g.idx)
    (ob' := { c.obj (.node g.sid g.idx) with alive := true, mgr := true, acq := (c.obj (.node g.sid g.idx)).acq + 1 })
    (p' := p') (nh' := c.nextHeap) (l' := c.links) (th' := { th with raw := some (.node g.sid g.idx), todo := more }) h ht hp'
    (by intro x _; simp [Th.refs, htodo, cntDec])
    (by simp [Th.refs, htodo, cntDec])
    (fun _ => Or.inl rfl)
    (fun _ => rfl)
    (by intro x hx; simp only [Option.some.injEq] at hx; subst hx; exact Or.inl ⟨rfl, rfl, hc0⟩)
    (by intro ha; rw [hdead] at ha; cases ha)
    (fun _ => Or.inr hdead)
    (by have := h.acq (.node g.sid g.idx); rw [hdead] at this; simp at this ⊢; omega)
    (by
      intro x
      have := aliveN_setObj_node c.obj g.sid g.idx { c.obj (.node g.sid g.idx) with alive := true, mgr := true, acq := (c.obj (.node g.sid g.idx)).acq + 1 } x
      by_cases hx : x = .node g.sid g.idx
      · subst hx; simp [hdead, htodo, cntRel, outBitO, hb0, hb1] at this ⊢; omega
      · have hx' : ¬ Oid.node g.sid g.idx = x := fun e => hx e.symm
        have hbx : outBitO p' x = outBitO c.pool x := by
          cases x with
          | heap k => rfl
          | node s i =>
            simp only [outBitO]
            apply hbo
            intro ⟨h1, h2⟩; apply hx; rw [h1, h2]
        simp [hx, htodo, cntRel, hbx] at this ⊢; omega)
    (fun k hk => ⟨hk, by intro he; cases he⟩)
    (by intro k hk; cases hk)
    (by intro k hk; cases hk)
    (by intro s i _ _; rfl)
    (by intro s i _ ha; simp at ha)
    (fun x hx hs => Or.inl (sub_tail htodo x hx hs))
    hun
    h.linksND
    (fun x n hm => ⟨fun _ => rfl, fun _ => Or.inl hm⟩)
  exact this

theorem rel_facts {c : Cfg} {t : Nat} {th : Th} {o : Oid} {more : List Act} (h : Inv c) (ht : c.ths[t]? = some th)
    (htodo : th.todo = .release o :: more) : outBitO c.pool o = true := by
  have h1 : 0 < cntRel th.todo o := by simp [htodo, cntRel]; omega
  have h2 := sumT_ge_mem (f := fun th => cntRel th.todo o) (mem_of_getElem? ht)
  have h3 := h.out o
  simp only [pendRel] at h3
  cases hb : outBitO c.pool o with
  | true => rfl
  | false => rw [hb] at h3; simp only [b2n_false] at h3; omega

def delActs : Option Slab → List Act
  | some s => [.delSlab s]
  | none => []

/-- `ReleaseObject(o)`'s critical section: the node goes back on its slab's free list; the slab may be unlisted for deletion -/
theorem inv_release {c : Cfg} {t : Nat} {th : Th} {sid i : Nat} {more : List Act} {p' : PoolSt} {del : Option Slab}
    (h : Inv c) (ht : c.ths[t]? = some th) (htodo : th.todo = .release (.node sid i) :: more) (hrl : release c.pool sid i = (p', del)) :
    Inv { c with pool := p', ths := c.ths.set t { th with todo := .unlocked :: (delActs del ++ more) } } := by
  have hb : outBit c.pool sid i = true := by simpa [outBitO] using rel_facts h ht htodo
  have hs := release_spec h.pool hb
  rw [hrl] at hs
  obtain ⟨hp', hb1, hbo, hun, hdl⟩ := hs
  simp only at hp' hb1 hbo hun hdl
  have hnd : ∀ x, cntDec (.unlocked :: (delActs del ++ more)) x = cntDec more x := by
    intro x; cases del <;> simp [delActs, cntDec]
  have hnr : ∀ x, cntRel (.unlocked :: (delActs del ++ more)) x = cntRel more x := by
    intro x; cases del <;> simp [delActs, cntRel]
  refine inv_update (c1 := { c with pool := p' }) (th' := { th with todo := .unlocked :: (delActs del ++ more) })
    h ht rfl hp' ?_ (fun o ha => Or.inl ha) ?_ ?_ (fun o ha hc => Or.inl ⟨ha, hc⟩) (fun o hr => Or.inl hr) h.acq ?_
    h.heapFresh h.heapMgr h.heapAcq h.nodeMgr h.fresh ?_ hun h.linksND h.linkAlive ?_
  · intro x; have := hnd x; simp only [Th.refs, htodo, cntDec] at this ⊢; omega
  · intro x hx; have := hnd x; simp only [Th.refs, htodo, cntDec] at this hx; omega
  · intro x hx; exact h.raw t th x ht hx
  · intro x
    rw [hnr x]
    simp only [htodo]
    by_cases hx : x = .node sid i
    · subst hx; simp [cntRel, outBitO, hb, hb1]; omega
    · have hx' : ¬ Oid.node sid i = x := fun e => hx e.symm
      have hbx : outBitO p' x = outBitO c.pool x := by
        cases x with
        | heap k => rfl
        | node s j =>
          simp only [outBitO]
          apply hbo
          intro ⟨h1, h2⟩; apply hx; rw [h1, h2]
      simp [cntRel, hx', hbx]
  · intro s hs
    simp only [List.mem_cons, List.mem_append] at hs
    rcases hs with hs | hs | hs
    · cases hs
    · cases del with
      | none => simp [delActs] at hs
      | some s' =>
        simp only [delActs, List.mem_singleton, Act.delSlab.injEq] at hs
        subst hs
        have ⟨h1, h2, h3⟩ := hdl s rfl
        exact ⟨h1, by rw [h2]; exact h3⟩
    · have ⟨h1, h2⟩ := h.del t th s ht (by rw [htodo]; exact List.mem_cons_of_mem _ hs)
      exact ⟨h1, hun _ h2⟩
  · intro a n hm
    simp only [List.mem_cons, List.mem_append] at hm
    rcases hm with hm | hm | hm
    · cases hm
    · cases del <;> simp [delActs] at hm
    · exact h.noOld t th a n ht (by rw [htodo]; exact List.mem_cons_of_mem _ hm)

theorem no_release_heap {c : Cfg} {t : Nat} {th : Th} {k : Nat} {more : List Act} (h : Inv c) (ht : c.ths[t]? = some th)
    (htodo : th.todo = .release (.heap k) :: more) : False := by
  have := rel_facts h ht htodo
  simp [outBitO] at this

/-- `new Obj`: a fresh identity, nobody references it yet -/
theorem inv_newHeap {c : Cfg} {t : Nat} {th : Th} {a : Nat} (h : Inv c) (ht : c.ths[t]? = some th) (htodo : th.todo = []) (rest : List Op) :
    Inv { c with obj := setObj c.obj (.heap c.nextHeap) { c.obj (.heap c.nextHeap) with alive := true, mgr := false, val := 0, acq := (c.obj (.heap c.nextHeap)).acq + 1 },
                 nextHeap := c.nextHeap + 1,
                 ths := c.ths.set t { th with raw := some (.heap c.nextHeap), todo := [.incRaw a], prog := rest } } := by
  have ⟨hdead, hacq0⟩ := h.heapFresh c.nextHeap (Nat.le_refl _)
  have hc0 := count_zero_of_dead h hdead
  have := inv_obj1 (o := .heap c.nextHeap)
    (ob' := { c.obj (.heap c.nextHeap) with alive := true, mgr := false, val := 0, acq := (c.obj (.heap c.nextHeap)).acq + 1 })
    (p' := c.pool) (nh' := c.nextHeap + 1) (l' := c.links)
    (th' := { th with raw := some (.heap c.nextHeap), todo := [.incRaw a], prog := rest })
    h ht h.pool
    (by intro x _; simp [Th.refs, htodo, cntDec])
    (by simp [Th.refs, htodo, cntDec])
    (fun _ => Or.inl rfl)
    (fun _ => rfl)
    (by intro x hx; simp only [Option.some.injEq] at hx; subst hx; exact Or.inl ⟨rfl, rfl, hc0⟩)
    (by intro ha'; rw [hdead] at ha'; cases ha')
    (fun _ => Or.inr hdead)
    (by have := h.acq (.heap c.nextHeap); rw [hdead] at this; simp at this ⊢; omega)
    (by intro x; rw [aliveN_setObj_heap]; simp [htodo, cntRel])
    (by intro k hk; exact ⟨by omega, by intro he; cases he; omega⟩)
    (by intro k _; rfl)
    (by intro k _; simp only; omega)
    (by intro s i hk; cases hk)
    (by intro s i hk; cases hk)
    (by intro x hx hs; simp at hs; subst hs; exact absurd hx id)
    (fun _ hs => hs)
    h.linksND
    (fun x n hm => ⟨fun _ => rfl, fun _ => Or.inl hm⟩)
  exact this

/-- writing the payload of a referenced object -/
theorem inv_write {c : Cfg} {t : Nat} {th : Th} {a : Nat} {o : Oid} (h : Inv c) (ht : c.ths[t]? = some th)
    (hs : slotOf th a = some (o, true)) (rest : List Op) (v : Nat) :
    Inv { c with obj := setObj c.obj o { c.obj o with val := v }, ths := c.ths.set t { th with prog := rest } } := by
  have ⟨hal, hc⟩ := slot_alive h ht hs
  have := inv_obj1 (o := o) (ob' := { c.obj o with val := v }) (p' := c.pool) (nh' := c.nextHeap) (l' := c.links)
    (th' := { th with prog := rest }) h ht h.pool
    (fun _ _ => rfl) rfl (fun _ => Or.inl hal) (fun _ => hal)
    (by intro x hx; by_cases hxo : x = o
        · subst hxo; have := (h.raw t th x ht hx).2; omega
        · exact Or.inr ⟨hxo, hx⟩)
    (by intro _ h0; omega)
    (fun hx => Or.inl hx)
    (by simp only; exact h.acq o)
    (by intro x; rw [aliveN_setObj_alive c.obj o { c.obj o with val := v } rfl])
    (by intro k hk; refine ⟨hk, ?_⟩; intro he; subst he; have := (h.heapFresh k hk).1; rw [hal] at this; cases this)
    (by intro k hk; subst hk; simp only; exact h.heapMgr k)
    (by intro k hk; subst hk; simp only; exact h.heapAcq k)
    (by intro s i hk _; subst hk; simp only; exact h.nodeMgr s i hal)
    (by intro s i hk ha; subst hk; simp only at ha; rw [hal] at ha; cases ha)
    (fun x _ hs => Or.inl hs)
    (fun _ hs => hs)
    h.linksND
    (fun x n hm => ⟨fun _ => hal, fun _ => Or.inl hm⟩)
  exact this

/-- `SetRef(sameItem, false)` / `Neutralize()`: the slot stops counting (or becomes NULL), the decrement (which never deletes) is pending -/
theorem inv_demote {c : Cfg} {t : Nat} {th : Th} {a : Nat} {o : Oid} (h : Inv c) (ht : c.ths[t]? = some th) (htodo : th.todo = [])
    (hs : slotOf th a = some (o, true)) (v : Slot) (hv : ∀ x, v ≠ some (x, true)) (rest : List Op) :
    Inv { c with ths := c.ths.set t { th with slots := th.slots.set a v, todo := [.decNoDel o], prog := rest } } := by
  refine inv_local (g' := c.glob) h ht ?_ rfl ?_ ?_
  · intro x
    have := cntS_set (y := v) (o := x) (slot_get hs)
    simp only [Th.refs, htodo, cntDec] at *
    simp [hv x] at this
    by_cases hx : o = x
    · subst hx; simp at this ⊢; omega
    · simp [hx] at this ⊢; omega
  · intro x; simp [htodo, cntRel]
  · intro x hx hm; simp at hm; subst hm; exact absurd hx id

/-- a non-counting (or NULL) slot is overwritten by a non-counting value (or NULL) -/
theorem inv_setWeak {c : Cfg} {t : Nat} {th : Th} {a : Nat} (h : Inv c) (ht : c.ths[t]? = some th)
    (ha : a < th.slots.length) (hs : ∀ x, slotOf th a ≠ some (x, true)) (v : Slot) (hv : ∀ x, v ≠ some (x, true)) (rest : List Op) :
    Inv { c with ths := c.ths.set t { th with slots := th.slots.set a v, prog := rest } } := by
  refine inv_local (g' := c.glob) h ht ?_ rfl (fun _ => rfl) (fun _ _ hm => hm)
  intro x
  have := cntS_set (y := v) (o := x) (slotOf_lt ha)
  simp only [Th.refs] at *
  simp [hv x, hs x] at this
  omega

/-- `obj->next` is cleared at once, the decrement of its old target is pending -/
theorem inv_unlink {c : Cfg} {t : Nat} {th : Th} {o : Oid} (h : Inv c) (ht : c.ths[t]? = some th) (htodo : th.todo = []) (rest : List Op) :
    Inv { c with links := dropKey c.links o, ths := c.ths.set t { th with todo := decNext (nextOf c.links o), prog := rest } } := by
  refine inv_update (c1 := { c with links := dropKey c.links o }) (th' := { th with todo := decNext (nextOf c.links o), prog := rest })
    h ht rfl h.pool ?_ (fun o ha => Or.inl ha) ?_ ?_ (fun o ha hc => Or.inl ⟨ha, hc⟩) (fun o hr => Or.inl hr) h.acq ?_
    h.heapFresh h.heapMgr h.heapAcq h.nodeMgr h.fresh ?_ (fun _ hs => hs) (nodup_dropKey h.linksND o) ?_ ?_
  · intro x; have := cntL_dropKey h.linksND o x
    simp only [Th.refs, htodo, cntDec, cntDec_decNext]; omega
  · intro x hx; have := cntL_dropKey h.linksND o x
    simp only [Th.refs, htodo, cntDec, cntDec_decNext] at hx; omega
  · intro x hx; exact h.raw t th x ht hx
  · intro x; simp only [htodo, cntRel, cntRel_decNext]
  · intro s hs; exact absurd hs (special_not_mem_decNext _ _ trivial)
  · intro x n hm; exact h.linkAlive x n (mem_dropKey.mp hm).1
  · intro a n hm; exact absurd hm (special_not_mem_decNext _ _ trivial)

end Muscle.Conc.RC
