import MuscleModel.Conc.ProofsCtl

/-! Liveness side of C18: the hand-off performed by `NotifySomeWaitingThreads()`, the no-lost-wake-up invariant
(`LiveInv`, stated; its preservation by every step is NOT yet proved — see `Props/C18.lean`), and deadlock freedom
derived from `MxInv`, `CtlInv` and `LiveInv`. -/

namespace Muscle.Conc.RW
open Muscle.Conc

/-- thread `t` will get to re-check: it has a pending notification, or it is between wake-up and re-check -/
def Signalled (c : Cfg) (t : Tid) : Prop :=
  c.mx.pend t > 0 ∨ (∃ m b, (c.th t).pc = .rWoke m b) ∨ (∃ m b, (c.th t).pc = .wWoke m b)

/-- no lost wake-up: whenever nobody executes, the waiters favoured by the hand-off rule are signalled -/
structure LiveInv (c : Cfg) : Prop where
  wake : c.mx.exec = [] →
    (∀ w rest, c.mx.waitW = w :: rest → (c.mx.prefW = true ∨ c.mx.waitR = []) → Signalled c w) ∧
    (∀ r, r ∈ c.mx.waitR → (c.mx.prefW = false ∨ c.mx.waitW = []) → Signalled c r)

/-- the hand-off itself: after `NotifySomeWaitingThreads()` the first waiting writer (writers preferred, or no reader
waits) resp. every waiting reader (readers preferred, or no writer waits) has a pending notification -/
theorem notifySome_wakes (s : Mx) :
    (∀ w rest, s.waitW = w :: rest → (s.prefW = true ∨ s.waitR = []) → (notifySome s).pend w > 0) ∧
    (∀ r, r ∈ s.waitR → (s.prefW = false ∨ s.waitW = []) → (notifySome s).pend r > 0) := by
  constructor
  · intro w rest hw hc
    unfold notifySome
    have hne : s.waitW ≠ [] := by rw [hw]; simp
    by_cases hr : s.waitR = []
    · simp [hr, hne, notifyNextWriter, hw]
    · have hp : s.prefW = true := by rcases hc with h | h; exact h; exact absurd h hr
      simp [hr, hne, hp, notifyNextWriter, hw]
  · intro r hr hc
    unfold notifySome
    have hne : s.waitR ≠ [] := by intro h; rw [h] at hr; simp at hr
    by_cases hw : s.waitW = []
    · simp [hw, hne, notifyAllReaders, hr]
    · have hp : s.prefW = false := by rcases hc with h | h; exact h; exact absurd h hw
      simp [hw, hne, hp, notifyAllReaders, hr]

/-- an unfinished thread that is not parked in `Wait()` always has an enabled step -/
theorem enabled_of_not_parked {c : Cfg} {t : Tid} (h1 : (c.th t).pc ≠ .done)
    (h2 : ∀ m, (c.th t).pc = .rWait m → c.mx.pend t > 0) (h3 : ∀ m, (c.th t).pc = .wWait m → c.mx.pend t > 0) :
    ∃ c' o, stepRun c t = some (c', o) := by
  unfold stepRun
  cases hpc : (c.th t).pc with
  | done => exact absurd hpc h1
  | rWait m => simp only [hpc]; rw [if_pos (h2 m hpc)]; exact ⟨_, _, rfl⟩
  | wWait m => simp only [hpc]; rw [if_pos (h3 m hpc)]; exact ⟨_, _, rfl⟩
  | _ => simp only [hpc]; exact ⟨_, _, rfl⟩

theorem enabled_of_signalled {c : Cfg} (hc : CtlInv c) {t : Tid} (hw : t ∈ c.mx.waitR ∨ t ∈ c.mx.waitW) (hs : Signalled c t) :
    ∃ c' o, stepRun c t = some (c', o) := by
  have hwait : (c.th t).pc.rWaiting = true ∨ (c.th t).pc.wWaiting = true := by
    rcases hw with h | h
    · exact Or.inl ((hc.inR t).1 h)
    · exact Or.inr ((hc.inW t).1 h)
  apply enabled_of_not_parked
  · intro hd; rw [hd] at hwait; simp [Pc.rWaiting, Pc.wWaiting] at hwait
  · intro m hm
    rcases hs with h | ⟨m', b, h⟩ | ⟨m', b, h⟩
    · exact h
    · rw [hm] at h; cases h
    · rw [hm] at h; cases h
  · intro m hm
    rcases hs with h | ⟨m', b, h⟩ | ⟨m', b, h⟩
    · exact h
    · rw [hm] at h; cases h
    · rw [hm] at h; cases h

/-- deadlock freedom from the three invariants: if some thread is unfinished and no finished thread holds the lock,
some event is enabled -/
theorem no_deadlock {c : Cfg} (hm : MxInv c.mx) (hc : CtlInv c) (hl : LiveInv c) (t : Tid) (hunf : (c.th t).pc ≠ .done)
    (hcomp : ∀ u, (c.th u).pc = .done → c.mx.ro u + c.mx.rw u = 0) : ∃ e c' o, machine.step c e = some (c', o) := by
  have wrap : ∀ u, (∃ c' o, stepRun c u = some (c', o)) → ∃ e c' o, machine.step c e = some (c', o) :=
    fun u ⟨c', o, h⟩ => ⟨.run u, c', o, h⟩
  -- a thread that is not in a waiting table is enabled
  by_cases htw : (c.th t).pc.rWaiting = true ∨ (c.th t).pc.wWaiting = true
  · have htin : t ∈ c.mx.waitR ∨ t ∈ c.mx.waitW := by
      rcases htw with h | h
      · exact Or.inl ((hc.inR t).2 h)
      · exact Or.inr ((hc.inW t).2 h)
    cases hex : c.mx.exec with
    | cons x xs =>
      -- somebody executes: that thread is unfinished (compliance) and not parked
      have hx : x ∈ c.mx.exec := by rw [hex]; simp
      have hpos := (hm.mem x).1 hx
      apply wrap x
      apply enabled_of_not_parked
      · intro hd; have := hcomp x hd; omega
      · intro m hmx; exact absurd hx (hc.notExec x (Or.inl (by rw [hmx]; rfl)))
      · intro m hmx; exact absurd hx (hc.notExec x (Or.inr (by rw [hmx]; rfl)))
    | nil =>
      obtain ⟨hW, hR⟩ := hl.wake hex
      cases hww : c.mx.waitW with
      | nil =>
        have htr : t ∈ c.mx.waitR := by rcases htin with h | h; exact h; rw [hww] at h; simp at h
        exact wrap t (enabled_of_signalled hc (Or.inl htr) (hR t htr (Or.inr hww)))
      | cons w rest =>
        by_cases hcond : c.mx.prefW = true ∨ c.mx.waitR = []
        · exact wrap w (enabled_of_signalled hc (Or.inr (by rw [hww]; simp)) (hW w rest hww hcond))
        · have hp : c.mx.prefW = false := by cases hpp : c.mx.prefW; rfl; exact absurd (Or.inl hpp) hcond
          cases hrr : c.mx.waitR with
          | nil => exact absurd (Or.inr hrr) hcond
          | cons r rs =>
            have hr : r ∈ c.mx.waitR := by rw [hrr]; simp
            exact wrap r (enabled_of_signalled hc (Or.inl hr) (hR r hr (Or.inl hp)))
  · apply wrap t
    apply enabled_of_not_parked hunf
    · intro m hm; rw [hm] at htw; simp [Pc.rWaiting] at htw
    · intro m hm; rw [hm] at htw; simp [Pc.wWaiting] at htw

end Muscle.Conc.RW
