import MuscleModel.Conc.ProofsStep

/-! Control invariant: the waiting tables are exactly the threads whose program counter is inside a wait, and a
waiting thread is not executing.  Proved for every reachable configuration via a generic description of what one step
of thread `t` does to the tables (`StepEff`). -/

namespace Muscle.Conc.RW
open Muscle.Conc

/-- the program counter is inside the wait loop of `LockReadOnlyAux` / `LockReadWriteAux` -/
def Pc.rWaiting : Pc → Bool
  | .rWait _ => true | .rWoke _ _ => true | _ => false
def Pc.wWaiting : Pc → Bool
  | .wWait _ => true | .wWoke _ _ => true | _ => false

structure CtlInv (c : Cfg) : Prop where
  ndR : c.mx.waitR.Nodup
  ndW : c.mx.waitW.Nodup
  inR : ∀ t, t ∈ c.mx.waitR ↔ (c.th t).pc.rWaiting = true
  inW : ∀ t, t ∈ c.mx.waitW ↔ (c.th t).pc.wWaiting = true
  notExec : ∀ t, ((c.th t).pc.rWaiting = true ∨ (c.th t).pc.wWaiting = true) → t ∉ c.mx.exec

/-- what one event of thread `t` does, as far as the control invariant is concerned -/
structure StepEff (c c' : Cfg) (t : Tid) : Prop where
  others : ∀ u, u ≠ t → c'.th u = c.th u
  exec   : ∀ u, u ≠ t → (u ∈ c'.mx.exec ↔ u ∈ c.mx.exec)
  waitR  : c'.mx.waitR =
             if (c.th t).pc.rWaiting = false ∧ (c'.th t).pc.rWaiting = true then c.mx.waitR ++ [t]
             else if (c.th t).pc.rWaiting = true ∧ (c'.th t).pc.rWaiting = false then c.mx.waitR.erase t
             else c.mx.waitR
  waitW  : c'.mx.waitW =
             if (c.th t).pc.wWaiting = false ∧ (c'.th t).pc.wWaiting = true then c.mx.waitW ++ [t]
             else if (c.th t).pc.wWaiting = true ∧ (c'.th t).pc.wWaiting = false then c.mx.waitW.erase t
             else c.mx.waitW
  selfExec : ((c'.th t).pc.rWaiting = true ∨ (c'.th t).pc.wWaiting = true) →
             (t ∉ c'.mx.exec ∨ (((c.th t).pc.rWaiting = true ∨ (c.th t).pc.wWaiting = true) ∧ (t ∈ c'.mx.exec ↔ t ∈ c.mx.exec)))
  excl : ¬ ((c'.th t).pc.rWaiting = true ∧ (c'.th t).pc.wWaiting = true)

theorem CtlInv.step {c c' : Cfg} {t : Tid} (h : CtlInv c) (e : StepEff c c' t) : CtlInv c' := by
  have hexcl : ¬ ((c.th t).pc.rWaiting = true ∧ (c.th t).pc.wWaiting = true) := by
    cases (c.th t).pc <;> simp [Pc.rWaiting, Pc.wWaiting]
  refine ⟨?_, ?_, ?_, ?_, ?_⟩
  · rw [e.waitR]; split
    · rename_i hc
      have : t ∉ c.mx.waitR := by rw [h.inR t]; simp [hc.1]
      exact List.nodup_append.2 ⟨h.ndR, by simp, by intro a ha b hb; simp at hb; subst hb; intro e; subst e; exact this ha⟩
    · split
      · exact h.ndR.erase t
      · exact h.ndR
  · rw [e.waitW]; split
    · rename_i hc
      have : t ∉ c.mx.waitW := by rw [h.inW t]; simp [hc.1]
      exact List.nodup_append.2 ⟨h.ndW, by simp, by intro a ha b hb; simp at hb; subst hb; intro e; subst e; exact this ha⟩
    · split
      · exact h.ndW.erase t
      · exact h.ndW
  · intro u
    rw [e.waitR]
    by_cases hu : u = t
    · subst hu
      have := h.inR u
      cases hold : (c.th u).pc.rWaiting <;> cases hnew : (c'.th u).pc.rWaiting <;> simp [hold, hnew] at this ⊢ <;>
        first | exact this | (intro hm; exact ((List.Nodup.mem_erase_iff h.ndR).1 hm).1 rfl)
    · rw [e.others u hu, ← h.inR u]
      split
      · simp [hu]
      · split
        · rw [List.mem_erase_of_ne hu]
        · rfl
  · intro u
    rw [e.waitW]
    by_cases hu : u = t
    · subst hu
      have := h.inW u
      cases hold : (c.th u).pc.wWaiting <;> cases hnew : (c'.th u).pc.wWaiting <;> simp [hold, hnew] at this ⊢ <;>
        first | exact this | (intro hm; exact ((List.Nodup.mem_erase_iff h.ndW).1 hm).1 rfl)
    · rw [e.others u hu, ← h.inW u]
      split
      · simp [hu]
      · split
        · rw [List.mem_erase_of_ne hu]
        · rfl
  · intro u hw
    by_cases hu : u = t
    · subst hu
      rcases e.selfExec hw with hn | ⟨hold, hiff⟩
      · exact hn
      · rw [hiff]; exact h.notExec u hold
    · rw [e.others u hu] at hw
      rw [e.exec u hu]; exact h.notExec u hw

/-! ### what the critical sections do to the waiting tables and to the membership of other threads -/

theorem lockRStart_eff (s : Mx) (t : Tid) (m : Mode) :
    (lockRStart s t m).1.waitW = s.waitW ∧
    ((lockRStart s t m).2 = .wait → (lockRStart s t m).1.waitR = s.waitR ++ [t] ∧ t ∉ (lockRStart s t m).1.exec) ∧
    ((lockRStart s t m).2 ≠ .wait → (lockRStart s t m).1.waitR = s.waitR) ∧
    (∀ u, u ≠ t → (u ∈ (lockRStart s t m).1.exec ↔ u ∈ s.exec)) := by
  unfold lockRStart
  split
  · simp
  · split
    · split
      · simp
      · rename_i ht _ _; simp [obtainWC, ht]
    · simp; intro u hu; simp [hu]

theorem lockWStart_eff (s : Mx) (t : Tid) (m : Mode) :
    (lockWStart s t m).1.waitR = s.waitR ∧
    ((lockWStart s t m).2 = .wait → (lockWStart s t m).1.waitW = s.waitW ++ [t] ∧ t ∉ (lockWStart s t m).1.exec) ∧
    ((lockWStart s t m).2 ≠ .wait → (lockWStart s t m).1.waitW = s.waitW) ∧
    (∀ u, u ≠ t → (u ∈ (lockWStart s t m).1.exec ↔ u ∈ s.exec)) := by
  unfold lockWStart
  split
  · split
    · simp
    · split <;> simp
  · split
    · simp; intro u hu; simp [hu]
    · split
      · simp
      · rename_i ht _ _; simp [obtainWC, ht]

theorem mem_addKey (l : List Tid) (t u : Tid) : u ∈ addKey l t ↔ (u ∈ l ∨ u = t) := by
  unfold addKey; split
  · rename_i h; constructor
    · exact Or.inl
    · rintro (h1 | h1); exact h1; subst h1; exact h
  · simp

theorem lockRWoke_eff (s : Mx) (t : Tid) (b : Bool) :
    (lockRWoke s t b).1.waitW = s.waitW ∧
    ((lockRWoke s t b).2 = .wait → (lockRWoke s t b).1 = s) ∧
    ((lockRWoke s t b).2 ≠ .wait → (lockRWoke s t b).1.waitR = s.waitR.erase t) ∧
    (∀ u, u ≠ t → (u ∈ (lockRWoke s t b).1.exec ↔ u ∈ s.exec)) := by
  unfold lockRWoke
  split
  · simp [releaseWC]
  · split
    · simp [releaseWC, mem_addKey]; intro u hu; simp [hu]
    · simp

theorem lockWWoke_eff (s : Mx) (t : Tid) (b : Bool) :
    (lockWWoke s t b).1.waitR = s.waitR ∧
    ((lockWWoke s t b).2 = .wait → (lockWWoke s t b).1 = s) ∧
    ((lockWWoke s t b).2 ≠ .wait → (lockWWoke s t b).1.waitW = s.waitW.erase t) ∧
    (∀ u, u ≠ t → (u ∈ (lockWWoke s t b).1.exec ↔ u ∈ s.exec)) := by
  unfold lockWWoke
  split
  · simp [releaseWC]
  · split
    · simp [releaseWC]; intro u hu; simp [hu]
    · simp

theorem unlockR_eff (s : Mx) (t : Tid) :
    (unlockR s t).1.waitR = s.waitR ∧ (unlockR s t).1.waitW = s.waitW ∧
    (∀ u, u ≠ t → (u ∈ (unlockR s t).1.exec ↔ u ∈ s.exec)) := by
  unfold unlockR
  split
  · simp
  · split
    · simp; intro u hu; rw [List.mem_erase_of_ne hu]
    · simp

theorem dropWrite_eff (s : Mx) (t : Tid) :
    (dropWrite s t).waitR = s.waitR ∧ (dropWrite s t).waitW = s.waitW ∧ (dropWrite s t).prefW = s.prefW ∧
    (dropWrite s t).pend = s.pend ∧ (dropWrite s t).ro = s.ro ∧
    (∀ u, u ≠ t → (u ∈ (dropWrite s t).exec ↔ u ∈ s.exec)) := by
  unfold dropWrite
  simp
  intro u hu
  split
  · rw [List.mem_erase_of_ne hu]
  · rfl

theorem unlockW_eff (s : Mx) (t : Tid) :
    (unlockW s t).1.waitR = s.waitR ∧ (unlockW s t).1.waitW = s.waitW ∧
    (∀ u, u ≠ t → (u ∈ (unlockW s t).1.exec ↔ u ∈ s.exec)) := by
  have hd := dropWrite_eff s t
  unfold unlockW
  split
  · simp
  · split
    · split
      · simp [hd]; exact hd.2.2.2.2.2
      · split
        · simp [hd]; exact hd.2.2.2.2.2
        · simp [hd]; exact hd.2.2.2.2.2
    · simp [hd]; exact hd.2.2.2.2.2

/-! ### program counters after a step -/

theorem startPc_nonwaiting (op : Op) : (startPc op).rWaiting = false ∧ (startPc op).wWaiting = false := by
  cases op <;> simp [startPc, Pc.rWaiting, Pc.wWaiting]

theorem nextOp_nonwaiting (th : Th) : (nextOp th).pc.rWaiting = false ∧ (nextOp th).pc.wWaiting = false := by
  unfold nextOp
  split
  · simp [Pc.rWaiting, Pc.wWaiting]
  · exact startPc_nonwaiting _

theorem finish_nonwaiting (ctx : List Upg) (th : Th) (st : St) :
    (finish ctx th st).1.pc.rWaiting = false ∧ (finish ctx th st).1.pc.wWaiting = false := by
  induction ctx generalizing st with
  | nil => simp only [finish]; exact nextOp_nonwaiting _
  | cons u rest ih =>
    simp only [finish]
    split
    · split
      · exact ih _
      · split <;> simp [Pc.rWaiting, Pc.wWaiting]
    · split
      · exact ih _
      · simp [Pc.rWaiting, Pc.wWaiting]
    · split
      · exact ih _
      · split
        · simp [Pc.rWaiting, Pc.wWaiting]
        · exact ih _

/-- the thread part of `applyRes`: only `t`'s record changes; its new program counter is `waitPc` iff the result is `wait` -/
theorem applyRes_th (c : Cfg) (t : Tid) (s' : Mx) (r : Res) (w : Pc) (m : Mode) :
    (∀ u, u ≠ t → (applyRes c t s' r w m).1.th u = c.th u) ∧
    (r = .wait → ((applyRes c t s' r w m).1.th t).pc = w) ∧
    (r ≠ .wait → ((applyRes c t s' r w m).1.th t).pc.rWaiting = false ∧ ((applyRes c t s' r w m).1.th t).pc.wWaiting = false) := by
  unfold applyRes
  cases r with
  | done st =>
    refine ⟨fun u hu => by simp [upd, hu], by simp, fun _ => ?_⟩
    simp only [upd_same]
    exact finish_nonwaiting _ _ _
  | wait => exact ⟨fun u hu => by simp [upd, hu], by simp, by simp⟩
  | upgrade n =>
    simp only
    split
    · exact ⟨fun u hu => by simp [upd, hu], by simp, fun _ => by simp [Pc.rWaiting, Pc.wWaiting]⟩
    · exact ⟨fun u hu => by simp [upd, hu], by simp, fun _ => by simp [Pc.rWaiting, Pc.wWaiting]⟩


theorem stepEff_applyRes {c : Cfg} {t : Tid} {s' : Mx} {r : Res} {w : Pc} {m : Mode}
    (hexec : ∀ u, u ≠ t → (u ∈ s'.exec ↔ u ∈ c.mx.exec))
    (hw : r = .wait →
          s'.waitR = (if (c.th t).pc.rWaiting = false ∧ w.rWaiting = true then c.mx.waitR ++ [t] else c.mx.waitR) ∧
          s'.waitW = (if (c.th t).pc.wWaiting = false ∧ w.wWaiting = true then c.mx.waitW ++ [t] else c.mx.waitW) ∧
          (t ∉ s'.exec ∨ (((c.th t).pc.rWaiting = true ∨ (c.th t).pc.wWaiting = true) ∧ (t ∈ s'.exec ↔ t ∈ c.mx.exec))) ∧
          ¬ (w.rWaiting = true ∧ w.wWaiting = true) ∧
          ((c.th t).pc.rWaiting = true → w.rWaiting = true) ∧ ((c.th t).pc.wWaiting = true → w.wWaiting = true))
    (hn : r ≠ .wait →
          s'.waitR = (if (c.th t).pc.rWaiting = true then c.mx.waitR.erase t else c.mx.waitR) ∧
          s'.waitW = (if (c.th t).pc.wWaiting = true then c.mx.waitW.erase t else c.mx.waitW)) :
    StepEff c (applyRes c t s' r w m).1 t := by
  obtain ⟨hoth, hpw, hpn⟩ := applyRes_th c t s' r w m
  by_cases hr : r = .wait
  · obtain ⟨h1, h2, h3, h4, h5, h6⟩ := hw hr
    have hpc := hpw hr
    refine ⟨hoth, by simpa using hexec, ?_, ?_, ?_, ?_⟩
    · rw [applyRes_mx, hpc, h1]
      cases ho : (c.th t).pc.rWaiting <;> cases hwr : w.rWaiting <;> simp [ho, hwr] at h5 ⊢
    · rw [applyRes_mx, hpc, h2]
      cases ho : (c.th t).pc.wWaiting <;> cases hwr : w.wWaiting <;> simp [ho, hwr] at h6 ⊢
    · intro _; rw [applyRes_mx]; exact h3
    · rw [hpc]; exact h4
  · obtain ⟨h1, h2⟩ := hn hr
    obtain ⟨hp1, hp2⟩ := hpn hr
    refine ⟨hoth, by simpa using hexec, ?_, ?_, ?_, ?_⟩
    · rw [applyRes_mx, hp1, h1]
      cases ho : (c.th t).pc.rWaiting <;> simp
    · rw [applyRes_mx, hp2, h2]
      cases ho : (c.th t).pc.wWaiting <;> simp
    · intro hx; rw [hp1, hp2] at hx; simp at hx
    · rw [hp1]; simp

theorem stepRun_eff {c c' : Cfg} {t : Tid} {o : Option St} (hi : CtlInv c) (h : stepRun c t = some (c', o)) : StepEff c c' t := by
  unfold stepRun at h
  cases hpc : (c.th t).pc with
  | done => simp [hpc] at h
  | rStart m =>
    simp only [hpc] at h
    have hc := congrArg (fun p : Cfg × Option St => p.1) (Option.some.inj h); simp only at hc; subst hc
    obtain ⟨e1, e2, e3, e4⟩ := lockRStart_eff c.mx t m
    apply stepEff_applyRes e4
    · intro hr; simp [hpc, Pc.rWaiting, Pc.wWaiting, e1, e2 hr]
    · intro hr; simp [hpc, Pc.rWaiting, Pc.wWaiting, e1, e3 hr]
  | wStart m =>
    simp only [hpc] at h
    have hc := congrArg (fun p : Cfg × Option St => p.1) (Option.some.inj h); simp only at hc; subst hc
    obtain ⟨e1, e2, e3, e4⟩ := lockWStart_eff c.mx t m
    apply stepEff_applyRes e4
    · intro hr; simp [hpc, Pc.rWaiting, Pc.wWaiting, e1, e2 hr]
    · intro hr; simp [hpc, Pc.rWaiting, Pc.wWaiting, e1, e3 hr]
  | rWoke m b =>
    simp only [hpc] at h
    have hc := congrArg (fun p : Cfg × Option St => p.1) (Option.some.inj h); simp only at hc; subst hc
    obtain ⟨e1, e2, e3, e4⟩ := lockRWoke_eff c.mx t b
    apply stepEff_applyRes e4
    · intro hr; simp [hpc, Pc.rWaiting, Pc.wWaiting, e2 hr]
    · intro hr; simp [hpc, Pc.rWaiting, Pc.wWaiting, e1, e3 hr]
  | wWoke m b =>
    simp only [hpc] at h
    have hc := congrArg (fun p : Cfg × Option St => p.1) (Option.some.inj h); simp only at hc; subst hc
    obtain ⟨e1, e2, e3, e4⟩ := lockWWoke_eff c.mx t b
    apply stepEff_applyRes e4
    · intro hr; simp [hpc, Pc.rWaiting, Pc.wWaiting, e2 hr]
    · intro hr; simp [hpc, Pc.rWaiting, Pc.wWaiting, e1, e3 hr]
  | uR =>
    simp only [hpc] at h
    have hc := congrArg (fun p : Cfg × Option St => p.1) (Option.some.inj h); simp only at hc; subst hc
    obtain ⟨e1, e2, e4⟩ := unlockR_eff c.mx t
    apply stepEff_applyRes e4
    · intro hr; cases hr
    · intro _; simp [hpc, Pc.rWaiting, Pc.wWaiting, e1, e2]
  | uW =>
    simp only [hpc] at h
    have hc := congrArg (fun p : Cfg × Option St => p.1) (Option.some.inj h); simp only at hc; subst hc
    obtain ⟨e1, e2, e4⟩ := unlockW_eff c.mx t
    apply stepEff_applyRes e4
    · intro hr; cases hr
    · intro _; simp [hpc, Pc.rWaiting, Pc.wWaiting, e1, e2]
  | rWait m =>
    simp only [hpc] at h
    split at h
    · have hc := congrArg (fun p : Cfg × Option St => p.1) (Option.some.inj h); simp only at hc; subst hc
      refine ⟨fun u hu => by simp [upd, hu], fun u _ => by simp [flushWC], ?_, ?_, ?_, ?_⟩ <;>
        simp [hpc, Pc.rWaiting, Pc.wWaiting, flushWC]
    · cases h
  | wWait m =>
    simp only [hpc] at h
    split at h
    · have hc := congrArg (fun p : Cfg × Option St => p.1) (Option.some.inj h); simp only at hc; subst hc
      refine ⟨fun u hu => by simp [upd, hu], fun u _ => by simp [flushWC], ?_, ?_, ?_, ?_⟩ <;>
        simp [hpc, Pc.rWaiting, Pc.wWaiting, flushWC]
    · cases h

theorem stepTimeout_eff {c c' : Cfg} {t : Tid} {o : Option St} (h : stepTimeout c t = some (c', o)) : StepEff c c' t := by
  obtain ⟨_, _, hmx, hcase⟩ := stepTimeout_spec h
  rcases hcase with ⟨hpc, hth⟩ | ⟨hpc, hth⟩
  · refine ⟨fun u hu => by rw [hth]; simp [upd, hu], fun u _ => by rw [hmx], ?_, ?_, ?_, ?_⟩ <;>
      simp [hpc, hth, hmx, Pc.rWaiting, Pc.wWaiting]
  · refine ⟨fun u hu => by rw [hth]; simp [upd, hu], fun u _ => by rw [hmx], ?_, ?_, ?_, ?_⟩ <;>
      simp [hpc, hth, hmx, Pc.rWaiting, Pc.wWaiting]

theorem step_ctlInv {c c' : Cfg} {e : Ev} {o : Option St} (hi : CtlInv c) (h : step c e = some (c', o)) : CtlInv c' := by
  cases e with
  | run t => exact hi.step (stepRun_eff hi h)
  | timeout t => exact hi.step (stepTimeout_eff h)

theorem init_ctlInv (p : Bool) (progs : List (List Op)) : CtlInv (Cfg.init p progs) := by
  have hnw : ∀ t, ((Cfg.init p progs).th t).pc.rWaiting = false ∧ ((Cfg.init p progs).th t).pc.wWaiting = false := by
    intro t
    simp only [Cfg.init]
    split
    · exact nextOp_nonwaiting _
    · simp [Th.idle, Pc.rWaiting, Pc.wWaiting]
  refine ⟨by simp [Cfg.init, Mx.init], by simp [Cfg.init, Mx.init], ?_, ?_, ?_⟩
  · intro t; simp [(hnw t).1]; simp [Cfg.init, Mx.init]
  · intro t; simp [(hnw t).2]; simp [Cfg.init, Mx.init]
  · intro t hw; simp [(hnw t).1, (hnw t).2] at hw

theorem reach_ctlInv (p : Bool) (progs : List (List Op)) {c : Cfg} (h : machine.Reach (Cfg.init p progs) c) : CtlInv c :=
  Machine.Reach.invariant machine CtlInv (init_ctlInv p progs) (fun _ _ _ _ hi hs => step_ctlInv hi hs) h

/-- the statement form used in `Props/C18.lean` -/
theorem CtlInv.waiting {c : Cfg} (h : CtlInv c) (t : Tid) :
    (t ∈ c.mx.waitR ↔ ∃ m, (c.th t).pc = .rWait m ∨ ∃ b, (c.th t).pc = .rWoke m b) ∧
    (t ∈ c.mx.waitW ↔ ∃ m, (c.th t).pc = .wWait m ∨ ∃ b, (c.th t).pc = .wWoke m b) ∧
    ((t ∈ c.mx.waitR ∨ t ∈ c.mx.waitW) → t ∉ c.mx.exec) := by
  refine ⟨?_, ?_, ?_⟩
  · rw [h.inR t]; cases (c.th t).pc <;> simp [Pc.rWaiting]
  · rw [h.inW t]; cases (c.th t).pc <;> simp [Pc.wWaiting]
  · intro hw; apply h.notExec t; rw [← h.inR t, ← h.inW t]; exact hw

end Muscle.Conc.RW
