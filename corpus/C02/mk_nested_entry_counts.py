#!/usr/bin/env python3
"""Generator of corpus/C02/parse-regress-nested-entry-counts.ops (finding C02-nested-entry-counts, fixed by fdd2b0b).

usage: corpus/C02/mk_nested_entry_counts.py <depth> <tail-bytes> [<depth> <tail-bytes> …]  > x.ops
       (the corpus file is:  mk_nested_entry_counts.py 120 20000 250 30000)

One case per (depth, tail) pair: a flattened Message nested <depth> levels (<= MUSCLE_MAX_MESSAGE_NESTING_DEPTH) in which
EVERY level declares the largest entry count its own view admits (view/12: the entry-count sanity check of
Message::Unflatten passes at every level, because all views overlap), stores one sub-Message field, and whose innermost
level is followed by <tail-bytes> zero bytes.  The parse returns an error (the innermost entries are malformed).

Before fdd2b0b each level called _entries.EnsureSize(numEntries) and then stored its first field, so a table of view/12
slots (about 62 bytes each) was allocated per level, all of them live at once: about depth/12 slots per input byte.
Since fdd2b0b the table is presized for min(numEntries, 32) entries and grows by doubling as fields really arrive.

Measured with harness/parse.cpp (cumulative bytes requested from the allocator during the parse; oracle 96*N + 256 KiB):
  depth 120, tail  20000, N =  23582:  fdd2b0b~1  13 845 720 bytes (587 per input byte, peak live 13 844 792; oracle
                                        bound 2 526 016 exceeded)            HEAD (fdd2b0b)   226 392 bytes (9.6 per byte)
  depth 250, tail  30000, N =  37482:  fdd2b0b~1  44 842 376 bytes (1196 per input byte, peak live 44 841 448; oracle
                                        bound 3 860 416 exceeded)            HEAD             472 584 bytes (12.6 per byte)
  depth 250, tail 100000, N = 107482:  fdd2b0b~1 137 797 064 bytes (1282 per input byte, peak live 137 796 136)
                                        HEAD      472 584 bytes (4.4 per byte)      (not in the corpus: 215 KB of hex)
Lean side: Props/C02.lean cost_linear (table <= 3*N with the regenerated cap, for every nesting limit) and
uncapped_table_exceeds_view_twelfth (the uncapped model)."""
import struct, sys


def le32(n):
    return struct.pack('<I', n)


PM = le32(1347235888)      # 'PM00'
MSGG = le32(1297303367)    # B_MESSAGE_TYPE


def build(depth, tail):
    body = PM + le32(0) + le32(tail // 12) + bytes(tail)      # innermost: declares tail/12 entries, zeros follow
    for _ in range(depth - 1):
        payload = le32(len(body)) + body
        rest = le32(2) + b'a\0' + MSGG + le32(len(payload)) + payload
        body = PM + le32(0) + le32(len(rest) // 12) + rest
    return body


if __name__ == '__main__':
    a = [int(x) for x in sys.argv[1:]]
    for i in range(0, len(a) - 1, 2):
        b = build(a[i], a[i + 1])
        sys.stderr.write('case %d: depth %d tail %d N=%d\n' % (i // 2 + 1, a[i], a[i + 1], len(b)))
        print('case %d' % (i // 2 + 1))
        print('parse cpp x' + b.hex())
