#!/bin/bash
# dev helper: runs every registered check on /repo's current tree at several seeds (quick) and once thorough, then once more quick at
# seed 1 so that the committed evidence files are the ones of the quick command; appends one line per run to SWEEP.log
cd "$(dirname "$0")/.."
: > SWEEP.log
IDS=${@:-C01 C02 C03 C04 C05 C06 C07 C08 C09 C10 C11 C12 C13 C14 C15 C16 C17 C18 C19 C20}
for p in $IDS; do
  for s in 2 3; do ./check $p --seed $s 2>&1 | grep -E "^VIOLATION|seed=" | cut -c1-200 >> SWEEP.log; done
  ./check $p --tier thorough 2>&1 | grep -E "^VIOLATION|seed=" | cut -c1-200 >> SWEEP.log
  ./check $p --seed 1 2>&1 | grep -E "^VIOLATION|seed=" | cut -c1-200 >> SWEEP.log
done
echo "sweep done" >> SWEEP.log
