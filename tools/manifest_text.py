"""Manifest texts now live next to each property's check configuration (tools/props.d/Cxx.py: TEXT)."""
from props import TEXT
HOOK_COMMITS = ['e98ba37', '36d25dd']
NOT_APPLICABLE = {}
