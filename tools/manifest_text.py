HOOK_COMMITS = []
NOT_APPLICABLE = {}
TEXT = {
 'C01': {
  'design_ref': 'DESIGN.md section 4, C01',
  'technique': 'Lean 4 theorems (round trip, byte-exact re-encoding, exact size, writer agreement) over a hand-written model of the Message codec + differential correspondence of model and real code on random API op sequences',
  'text': 'Proved in Lean for every well-formed Message value (all field types, counts, nesting, orders): decode(encode m) = canonical m, re-encoding reproduces the bytes, size function = number of bytes written, inline and array writers agree; mutators preserve well-formedness.  The model is tied to the C++ code by running both on the same random op sequences (bytes, sizes, dumps, equality results must be identical) and by a direct round-trip oracle on the real Message class.',
  'note': 'Assumes sizes < 2^32 and nesting within MUSCLE_MAX_MESSAGE_NESTING_DEPTH (explicit hypotheses).  Trusted: Lean kernel, the statement files, the correspondence harness (sampling), constants regenerated from /repo headers.  The model is hand-written; a defect the generators never reach and the model does not share stays invisible.',
 },
}
