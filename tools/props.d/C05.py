"""Configuration of ./check for property C05 (loaded by tools/props.py)."""

PROP = {'engine': 'srv',
 'lean_props': ['MuscleModel.Props.C05', 'MuscleModel.Props.C05Reach'],
 'harnesses': [{'name': 'srv', 'sources': ['harness/srv.cpp']}],
 'trusted_base': ['hand-written Lean model of the reflector: node tree, path matcher, literal wildcard traversal, notification pipeline, command handlers '
                  '(lean/MuscleModel/Reflector/{Glob,Tree,Traverse,Server,Handlers}.lean, Engines/Srv.lean)',
                  'tie: harness/srv.cpp drives a real in-process ReflectServer (one ServerProcessLoop iteration at a time, real MessageIOGateways over socket '
                  "pairs); tree digest, per-node subscriber tables and every Message each client receives must equal the model's prediction line by line",
                  'clause patterns in the reflector model are the fragment {literal, \\\\c, *, ?, top-level comma}; the full pattern syntax is property C15; '
                  'glibc regcomp/regexec trusted as there',
                  'content filters in the reflector engine are int32 comparisons on one field; the full filter language is property C14'],
 'assumptions': ['pattern laws from C15', 'patterns with >= 2 clauses for exactly-once (a 1-clause pattern matches host nodes, which belong to no session)'],
 'rule': 'generated histories over 2-5 sessions on two hosts: attach/detach, SETDATA (incl. ADDTOINDEX), REMOVEDATA with wildcards, SUBSCRIBE with/without '
         'int32 filters, re-filter, unsubscribe, reflect-to-self, max-items, default route, client-to-client Messages with 0-2 key patterns, '
         'INSERTORDEREDDATA, REORDERDATA, BATCH, PING, FindMatchingNodes; every 4th case is the hostile stream (arbitrary structurally valid Messages with '
         'reserved names and wrong types, quiet flags, GETDATA, JETTISONRESULTS with filters while a client is not reading, connection cuts after a byte '
         'prefix) followed by a witness ping after every op; direct oracles evaluated on the real server at every quiescent point; distinct = distinct case '
         'bodies',
 'timeout': 600}

TEXT = {'design_ref': 'DESIGN.md section 4, C05',
 'technique': 'Lean 4 theorems (literal model of NodePathMatcher::DoTraversalAux visits exactly the brute-force matching set, no duplicates; '
              'skip-to-next-session callback records one visit per selected session) + differential correspondence with a real server + brute-force routing '
              'oracle',
 'text': 'Proved in Lean for every tree, every pattern set, both filter modes and every root depth: the literal traversal (hash-lookup fast path, comma lists, '
         'child iteration, known-entry short cut, multi-pattern re-check, alreadyDid set) visits exactly the nodes whose full path matches when tested one by '
         'one, each once (`traversal_eq_bruteforce`); with the delivery callback exactly one visit is recorded in each session that owns a matching node and '
         'none elsewhere (`route_sessions_exact`, `route_once_per_session*`) when every pattern has at least 2 clauses (a pattern that stops at a host node '
         'selects no session).  Tie: FindMatchingNodes and client-to-client routing on a real server agree with the model (visit order included) and with the '
         "harness's brute-force recipient/visit sets; the delivered sender field always names the true sender. FIFO per pair is a theorem as well: nothing "
         'queued for a client is ever removed or reordered, and a later Message of the same sender sits behind everything the receiver had when it was sent '
         '(`send_appends_only_its_text`, `fifo_per_pair`, `fifo_first_occurrences`).',
 'note': 'Hypotheses of the traversal theorem: clause counts equal group keys, sibling names distinct, and the two pattern-layer laws (a "unique" pattern '
         'matches only its unescaped text; a unique-value list matches exactly its elements) — provided by C15 for documented patterns; false for a dangling '
         'final backslash and for lists with an empty element.  Finding F27 (a key set holding a session-level pattern together with a deeper one delivered '
         'twice; the former 3-clause hypothesis) is repaired in the code (fa53600) and the theorems were re-proved for the repaired descent rule; the old rule '
         'is kept as a `decide` counter-example.  The fallback to broadcast without keys/route is covered by correspondence, not by a theorem.'}
