"""Configuration of ./check for property C07 (loaded by tools/props.py)."""

PROP = {'assumptions': ['runtime behaviour observed under sanitizers, not proved'],
 'engine': 'srv',
 'harnesses': [{'name': 'srv', 'sources': ['harness/srv.cpp']}],
 'lean_props': ['MuscleModel.Props.C07'],
 'rule': 'generated histories over 2-5 sessions on two hosts: attach/detach, SETDATA (incl. ADDTOINDEX), REMOVEDATA with wildcards, SUBSCRIBE with/without '
         'int32 filters, re-filter, unsubscribe, reflect-to-self, max-items, default route, client-to-client Messages with 0-2 key patterns, '
         'INSERTORDEREDDATA, REORDERDATA, BATCH, PING, FindMatchingNodes; every 4th case is the hostile stream (arbitrary structurally valid Messages with '
         'reserved names and wrong types, quiet flags, GETDATA, JETTISONRESULTS with filters while a client is not reading, connection cuts after a byte '
         'prefix) followed by a witness ping after every op; direct oracles evaluated on the real server at every quiescent point; distinct = distinct case '
         'bodies',
 'timeout': 600,
 'trusted_base': ['hand-written Lean model of the reflector: node tree, path matcher, literal wildcard traversal, notification pipeline, command handlers '
                  '(lean/MuscleModel/Reflector/{Glob,Tree,Traverse,Server,Handlers}.lean, Engines/Srv.lean)',
                  'tie: harness/srv.cpp drives a real in-process ReflectServer (one ServerProcessLoop iteration at a time, real MessageIOGateways over socket '
                  "pairs); tree digest, per-node subscriber tables and every Message each client receives must equal the model's prediction line by line",
                  'clause patterns in the reflector model are the fragment {literal, \\\\c, *, ?, top-level comma}; the full pattern syntax is property C15; '
                  'glibc regcomp/regexec trusted as there',
                  'content filters in the reflector engine are int32 comparisons on one field; the full filter language is property C14']}

TEXT = {'design_ref': 'DESIGN.md section 4, C07',
 'note': 'Partial by nature: time bounds, stack depth, libc regcomp cost and memory safety of the binary are observed, not proved; work is counted in visits '
         'and deliveries of the model, the pattern tests of a whole traversal are bounded by nodes x entries (`traversal_tests_bounded`, cost-instrumented '
         'twin); the cost of ONE pattern test (C15) or filter evaluation (C14) is not part of the count.  The model covers the command subset of '
         'Engines/Srv.lean.',
 'technique': "Lean 4 theorems (every handler of the reflector model is total; a second session's ping is answered after any command history) + hostile-stream "
              'exploration of a real server with a witness session, per-op alarm and ASan/UBSan',
 'text': 'In the model every handler is a total Lean function and `witness_pong_history` shows that after ANY history of commands by any sessions another '
         'session is still attached and its PING is answered in the next step.  Bounded wall-clock time and absence of crashes are runtime facts: every 4th '
         'generated case sends arbitrary structurally valid Messages (whole PR_COMMAND range +-2, reserved field names with right and wrong types, malformed '
         'patterns, hostile filter archives, JETTISON* while results are queued for a client that does not read, cuts) and pings from a witness session after '
         "every op under a 20 s alarm, ASan and UBSan. Every command, push, arrival and departure of another session only APPENDS to every other session's "
         'queue of results (`inbox_append_only*`, also over histories): what a victim has been sent can not be taken back or reordered by anybody else.  '
         'Bounded work in the model: `traversal_visits_bounded` (for every tree, matcher, callback and fuel a traversal hands at most one visit per node below '
         'its root to the callback - the bound does not depend on the number or shape of the hostile patterns), `traversal_depth_bounded` (no visit path '
         'longer than the depth limit), `travGlobal_bounded`/`travSession_bounded`, and `route_deliveries_bounded`/`send_deliveries_bounded` (one '
         'client-to-client Message enqueues at most max(nodes, sessions) copies in total).  `travSession_bounded_root` bounds every traversal a client can '
         'trigger by the size of the whole tree, `pattern_tests_bounded` the pattern tests per child by the number of entries (through a cost-instrumented '
         'twin of the entry loop proved equal to it), and `cmd_deliveries_bounded_reach` discharges the distinct-ids hypothesis for every reachable state.'}
