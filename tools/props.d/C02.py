"""Configuration of ./check for property C02 (loaded by tools/props.py)."""

PROP = {'engine': 'parse',
 'lean_props': ['MuscleModel.Props.C02'],
 'harnesses': [{'name': 'parse', 'sources': ['harness/parse.cpp'], 'extra': ['c:lang/c/minimessage/MiniMessage.c', 'c:lang/c/micromessage/MicroMessage.c']}],
 'trusted_base': ['hand-written Lean model of Message::Flatten/Unflatten/FlattenedSize and the public mutators (lean/MuscleModel/Wire)',
                  'type codes, protocol version, per-type wire sizes and the nesting limit are regenerated from /repo on every run (tools/extract_consts.cpp)',
                  'ASan/UBSan as detectors of out-of-bounds accesses and undefined behaviour in the compiled parsers; the sanitizer allocator hooks for the '
                  'allocation tally',
                  'harness/cdialects.h (dumps through the public mini/micro getters), tools/pymsg_driver.py'],
 'assumptions': ['memory safety of the binaries is validated (sanitizers on generated hostile inputs), not proved',
                 'the gateway input paths are covered by engine gw (C03), not by this harness'],
 'rule': 'hostile inputs derived from valid encodings (every truncation; every structural 32-bit word and sampled byte offsets replaced by boundary values and '
         'by every type code; splices; random bytes behind a valid header; nesting around and far beyond the limit; huge declared counts), each parsed from an '
         'exact-size heap copy by the C++, mini, micro (valid inputs only) and Python parsers; the C++ result line must equal the Lean model decode; direct '
         'oracle: normal return, reusable object, re-flattenable result, allocation <= 96*N + 256 KiB, watchdog; distinct = distinct case bodies'}

TEXT = {'design_ref': 'DESIGN.md section 4, C02',
 'technique': 'hostile-input correspondence of the Lean parser model `decode` with Message::Unflatten (status and parsed content must agree on every input) + '
              'a model-free direct oracle under ASan/UBSan with an allocation tally (sanitizer allocator hooks) and a watchdog, on the C++, C mini, C micro '
              'and Python Message parsers',
 'text': 'Partial (memory safety of compiled code is validated, not proved).  On every truncation of valid encodings, every structural 32-bit word (and '
         'sampled byte offsets) replaced by boundary values and by every type code, splices, random bytes behind valid headers, nesting around and far beyond '
         'the limit and huge declared counts, each parsed from an exact-size heap copy: the C++ parser returns exactly what the Lean model of the parser '
         'predicts (ok + content, or error); no sanitizer report, no hang; the object is reusable afterwards and an accepted object re-flattens into its '
         'advertised size; bytes requested from the allocator during the parse stay within 96*N + 256 KiB.  The same direct oracle runs on the mini codec '
         '(hostile inputs), the Python codec (hostile inputs) and the micro codec (valid inputs; hostile ones are the known-finding corpus).',
 'note': 'The property theorems of Props/C02.lean are owned by the session owner (this harness ships one true placeholder theorem).  Gateway input paths are '
         'covered by the gateway engine, not here.  Open known findings (corpus/C02/parse-known-*.ops): the micro codec validates nothing (F8, one trigger per '
         'call site), the mini codec recurses without bound (F15) and accepts string items without a NUL terminator.'}
