"""Configuration of ./check for property C02 (loaded by tools/props.py)."""

PROP = {'assumptions': ['memory safety of the binaries is validated (sanitizers on generated hostile inputs), not proved',
                 'the cost theorems are about the tally of the instrumented model; its tie to the bytes the binary really allocates is the regenerated guards '
                 'plus the measured-allocation oracle of the harness (<= 96*N + 256 KiB on the generated inputs), not a proof',
                 'the field-table charge models util/Hashtable.h by hand (capacity set by EnsureSize, array allocated at the first Put, doubled when a new key '
                 'meets a full table, a repeated key re-uses its slot); its bound table <= 3*N is proved for the regenerated presize cap (some 32; any cap <= '
                 '36)',
                 'the gateway and packet-tunnel input paths are exercised by the engines gw and tun (their generated streams incl. hostile/dirty input run '
                 'under this check too: crashes, sanitizer reports, hangs and correspondence breaks count; their own oracles belong to C03/C12)'],
 'engine': 'parse',
 'harnesses': [{'extra': ['c:lang/c/minimessage/MiniMessage.c', 'c:lang/c/micromessage/MicroMessage.c'], 'name': 'parse', 'sources': ['harness/parse.cpp']},
               {'cflags': ['-std=gnu++11',
                           '-O1',
                           '-g',
                           '-w',
                           '-fpermissive',
                           '-fsanitize=address,undefined',
                           '-fno-sanitize=alignment',
                           '-DMUSCLE_ENABLE_ZLIB_ENCODING',
                           '-DMUSCLE_NO_EXCEPTIONS',
                           '-DMUSCLE_VERIF_HOOKS'],
                'engine': 'gw',
                'name': 'gw',
                'sources': ['harness/gw.cpp'],
                'timeout': 900},
               {'engine': 'tun', 'name': 'tun', 'sources': ['harness/tun.cpp']}],
 'lean_props': ['MuscleModel.Props.C02'],
 'rule': 'hostile inputs derived from valid encodings (every truncation; every structural 32-bit word and sampled byte offsets replaced by boundary values and '
         'by every type code; splices; random bytes behind a valid header; nesting around and far beyond the limit; huge declared counts), each parsed from an '
         'exact-size heap copy by the C++, mini, micro (valid inputs only) and Python parsers; the C++ result line must equal the Lean model decode; direct '
         'oracle: normal return, reusable object, re-flattenable result, allocation <= 96*N + 256 KiB, watchdog; distinct = distinct case bodies',
 'trusted_base': ['hand-written Lean model of Message::Flatten/Unflatten/FlattenedSize and the public mutators (lean/MuscleModel/Wire); the parser model '
                  'Wire/Decode.lean is tied to Message::Unflatten by the hostile-input correspondence run of this check',
                  'hand-written instrumented twin of the parser (lean/MuscleModel/Wire/DecodeCost.lean): WHAT is charged where (entry-table slots, array '
                  'slots, pooled objects, buffer bytes, copies, iterations, nest count, reader budgets) was read off Message.cpp / DataUnflattener.h by hand; '
                  'proved equal to the parser model once the tally is erased (erase_tally)',
                  'tools/extract_parse_guards.py: a textual recogniser (regular expressions over comment-stripped source) of the five size/nesting checks in '
                  'message/Message.cpp, of their position in front of the reservation / copy / recursive call they protect, and of the numeric cap in '
                  '_entries.EnsureSize(muscleMin(numEntries, cap), true); regenerated into lean/MuscleModel/Generated/ParseGuards.lean on every run',
                  'type codes, protocol version, per-type wire sizes and the nesting limit are regenerated from /repo on every run (tools/extract_consts.cpp)',
                  'ASan/UBSan as detectors of out-of-bounds accesses and undefined behaviour in the compiled parsers; the sanitizer allocator hooks for the '
                  'allocation tally',
                  'harness/cdialects.h (dumps through the public mini/micro getters), tools/pymsg_driver.py']}

TEXT = {'design_ref': 'DESIGN.md section 4, C02',
 'note': 'The tally is a model quantity: what is charged where was read off the C++ by hand; its tie to the binary is the regenerated guards and the measured '
         'allocation oracle.  Finding C02-nested-entry-counts (found by this cost theorem, fixed by fdd2b0b): the field table used to be presized for the '
         'DECLARED entry count at every nesting level, and the views of nested Messages overlap, so the reservation was linear in N only with the nesting '
         'limit in the constant (107482 bytes requested 137.8 MB); now min(numEntries, 32) + doubling, table <= 3*N proved for every nesting limit; '
         'uncapped_table_exceeds_view_twelfth keeps the fact about the uncapped model, corpus/C02/parse-regress-nested-entry-counts.ops replays the family '
         '(13.8 MB / 44.8 MB before the fix, 226 KB / 473 KB after), mutants/C02/guard-entry-presize-cap-removed.diff breaks cost_linear through the '
         'regenerated constant.  Not proved: cost theorems for the templated parser and the C codecs.  The input paths of the I/O gateways and packet tunnels '
         'are exercised here through the engines gw and tun (same harnesses as C03/C12).  Open known findings (corpus/C02/parse-known-*.ops): the micro codec '
         'validates nothing (F8, one trigger per call site).  Repaired and guarded by regression cases: the mini codec recursed without bound (F15) and '
         'accepted string items without a NUL terminator.',
 'technique': 'Lean 4 theorems over the parser model `decode` and its instrumented twin `decodeT` (cost tally on every path), quantified over all byte '
              'strings, fuels, levels and nesting limits; the guards the cost proofs rest on are re-derived from the source text of Message.cpp on every run '
              '(tools/extract_parse_guards.py -> Generated/ParseGuards.lean), so deleting one breaks the proofs + hostile-input correspondence of `decode` '
              'with Message::Unflatten (status and parsed content must agree on every input) + a model-free direct oracle under ASan/UBSan with an allocation '
              'tally (sanitizer allocator hooks) and a watchdog, on the C++, C mini, C micro and Python Message parsers',
 'text': 'Partial (memory safety of compiled code is validated, not proved).  Proved in Lean for the C++ Message parser model, for EVERY byte string, accepted '
         'or rejected: (erase_tally) the instrumented parser is the parser; (position_monotone) every reader that succeeds leaves an unread rest no longer '
         'than its input, shorter by at least 4 bytes per word/item and 12 per entry/Message, and the unread rest of a limited view is given back without '
         'growing the input; (fuel_irrelevant) any fuel above the input length gives the same result, so the parser terminates and never fails for lack of '
         'fuel; (depth_bounded, too_deep_is_error) Message::Unflatten never reaches a nest count above mx+1 and a parse that reached mx+1 failed; '
         '(too_deep_is_error_nest) the encoding of ANY Message wrapped in k >= mx Messages is refused; (cost_linear) per call on N bytes, with numerals '
         'independent of the nesting limit: field-table slots requested (first allocation + every doubling) <= 3*N, all other reservations <= 2*N, bytes '
         'copied <= N, loop iterations and recursive calls <= N+1, no nested reader gets a budget above N; (declared_*_harmless) an entry count, string count, '
         'ByteBuffer length or sub-Message length that exceeds the bytes present fails with nothing reserved or copied, whatever the declared number; '
         '(decode_result_size) an accepted Message re-flattens into no more bytes than the input.  The cost proofs unfold five guard constants and the presize '
         'cap of the field table, regenerated from the source text; each guard deleted from Message.cpp (mutants/C02/guard-*.diff) regenerates a model whose '
         'proofs no longer compile.  Validated on every truncation of valid encodings, every structural 32-bit word (and sampled byte offsets) replaced by '
         'boundary values and by every type code, splices, random bytes behind valid headers, nesting around and far beyond the limit and huge declared '
         'counts, each parsed from an exact-size heap copy: the C++ parser returns exactly what the Lean model of the parser predicts (ok + content, or '
         'error); no sanitizer report, no hang; the object is reusable afterwards and an accepted object re-flattens into its advertised size; bytes requested '
         'from the allocator during the parse stay within 96*N + 256 KiB.  The same direct oracle runs on the mini codec (hostile inputs), the Python codec '
         '(hostile inputs) and the micro codec (valid inputs; hostile ones are the known-finding corpus).'}
