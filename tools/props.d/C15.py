"""Configuration of ./check for property C15 (loaded by tools/props.py)."""

PROP = {'engine': 'wc',
 'lean_props': ['MuscleModel.Props.C15'],
 'harnesses': [{'name': 'wc', 'sources': ['harness/wc.cpp']}],
 'trusted_base': ['hand-written Lean model of StringMatcher::SetPattern/Match/ToString, EscapeRegexTokens, RemoveEscapeChars, '
                  'CanWildcardStringMatchMultipleValues, HasRegexTokens (lean/MuscleModel/Wildcard/Code.lean); the IsRegexToken table (by calling the compiled '
                  'function, tools/extract_consts.cpp) and the list of characters SetPattern keeps a backslash in front of (parsed from the source text, '
                  'tools/extract_kernels.py) are regenerated from /repo on every run and every fact the proofs use about them is re-derived from the generated '
                  'tables (Wildcard/Tables.lean)',
                  'the specification: Pat.Matches / Top.denote / rangeDenote and Ere.Matches (lean/MuscleModel/Wildcard/Syntax.lean, Ere.lean), read by a '
                  'human against the documentation',
                  'glibc regcomp/regexec implement POSIX ERE matching on the expressions SetPattern can emit for documented patterns (hypothesis GlibcOK of '
                  'match_spec; validated differentially on every generated pattern)',
                  'the pattern parser of the model driver is proved sound (parseTop_sound: its result renders back to the input and is well-formed), not '
                  'complete: a wrongly rejected pattern costs a `?`, never a wrong prediction'],
 'assumptions': ['patterns and subjects are NUL-free C strings',
                 'C locale (bytes are characters)',
                 'documented grammar: unescaped literals are plain characters, classes are non-empty and free of ] [ ^ - \\ as members (, . + * ? are ordinary '
                 'members), numbers in a range list are below MUSCLE_NO_LIMIT = 2^32-1, first character of the body is not an unescaped ~ ` <',
                 'undocumented inputs are mirrored, not judged: empty pattern (matches the empty string although the header speaks of a no-pattern state), '
                 'dangling backslash, { } ^ $ outside classes, backslash inside a class, range-list numbers >= 2^32-1'],
 'rule': 'patterns printed from random ASTs of the documented grammar over {a,b,0,1} + every metacharacter, each matched against every string of length <= 3 '
         '(thorough: 4) over a per-pattern alphabet, against members of its language and their one-edit neighbours; range lists with boundary subjects; a '
         'malformed stream (must not crash; flags/ToString/uniqueness still compared); EscapeRegexTokens on every string of length <= 3 (thorough: 4) over '
         '{a,0} + every metacharacter with all one-edit neighbours as the exactness oracle; IsRegexToken exhaustively; direct oracle = independent '
         'backtracking matcher for the documented syntax; distinct = distinct case bodies'}

TEXT = {'design_ref': 'DESIGN.md section 4, C15',
 'technique': 'Lean 4 theorems (textual translation = rendering of the intended ERE, ERE semantics = documented meaning, escape exact, unescape inverse, '
              'single-valued test sound/complete, range matching) over a literal model of SetPattern/Match + differential correspondence with the real '
              'StringMatcher and an independent matcher for the documented syntax',
 'text': 'Proved in Lean for every pattern of the documented grammar (all nestings of literals, backslash escapes, ?, *, classes, groups, | and , '
         'alternatives, leading ~): the character loop of SetPattern emits exactly the rendering of the intended POSIX ERE, whose standard semantics equals '
         'the documented meaning; EscapeRegexTokens yields a pattern that denotes exactly its argument; RemoveEscapeChars inverts it; a pattern that '
         'CanWildcardStringMatchMultipleValues calls single-valued denotes exactly its unescaped text, hence two matching strings force the answer yes; '
         'SetPattern reads a documented range list as exactly the ranges it denotes and Match answers the documented meaning on every subject (integers of any '
         'size); character classes reach regcomp untranslated.  The model is tied to the C++ code by running both on generated patterns x subjects (Match, '
         'flags, ToString, escape functions must agree) and by a direct oracle on the real code.',
 'note': 'glibc regcomp/regexec are trusted to implement POSIX ERE on the emitted expressions (explicit hypothesis GlibcOK, validated differentially).  Three '
         'deviations found with this check were repaired in /repo and are kept as regression cases (corpus/C15/wc-regress-*.ops) with revert mutants: F9 '
         '(range subjects parsed by numeric prefix, wrapped at 2^32), class (translation was not class-aware), tick (leading backtick not escaped).  The '
         "IsRegexToken table and SetPattern's backslash-keeping list are regenerated from /repo on every run.  The driver's pattern parser is proved sound "
         '(not complete).'}
