"""Configuration of ./check for property C03 (loaded by tools/props.py)."""

PROP = {'assumptions': ['Messages are C01-well-formed, within the nesting limit, the receiver size limit and the 32-bit length field (frameOKZ)',
                 'zlib is an opaque pair of functions with inflate(deflate(x)) = x (CodecOK)',
                 'text lines contain no CR/LF/NUL; one terminator (CR LF, LF or CR) per stream',
                 'a raw/SLIP chunk without bytes contributes nothing (the SLIP decoder drops empty frames: the SLIP unit is the non-empty chunk)',
                 'WebSocket payloads up to the receiver limit of 10 MB (a bigger Message cannot cross a WebSocket link: open finding C03-ws-10mb)',
                 'both templating ends are configured with the same maxLRUCacheSizeBytes and start with empty caches',
                 'the outgoing zlib level of a templating gateway is not changed from one zlib level to another mid-stream (open finding '
                 'C03-tmpl-zlib-level-switch)'],
 'engine': 'gw',
 'harnesses': [{'cflags': ['-std=gnu++11',
                           '-O1',
                           '-g',
                           '-w',
                           '-fpermissive',
                           '-fsanitize=address,undefined',
                           '-fno-sanitize=alignment',
                           '-DMUSCLE_ENABLE_ZLIB_ENCODING',
                           '-DMUSCLE_NO_EXCEPTIONS',
                           '-DMUSCLE_VERIF_HOOKS'],
                'name': 'gw',
                'sources': ['harness/gw.cpp'],
                'timeout': 900}],
 'lean_props': ['MuscleModel.Props.C03'],
 'rule': 'op = one unit sequence sent through a REAL sender/receiver pair of one gateway kind (binary x 10 encodings incl. mid-stream switches, templating, '
         'text, raw, SLIP, WebSocket client->server and server->client with slave gateway and the HTTP handshake whole / in halves / cut at any byte / byte by '
         'byte, C mini/micro <-> C++) under one schedule (per call: maxBytes and the byte count of every Read/Write, 0 = would block; any interleaving of '
         'queueing/output/input), then drained; plus `wire` (sender bytes), `feed` (arbitrary bytes into a receiver) and `share` (one reuse-tagged Message on '
         'two links, every encoding) and `bigws` (one Message of a given size through a WebSocket pair) and `tcache` (templating pairs with cache limits that '
         'hold 1-4 templates and LRU-sensitive layout orders: the frame form the real sender chooses for every Message - create / payload-only / plain, read '
         'off the wire - must be what the model of the two caches predicts, and everything must arrive).  The Lean model executes the same schedule step by '
         'step for binary/text/raw/SLIP (state after the scheduled part, deliveries, error flag must agree), predicts deliveries and wire bytes for the rest.  '
         'Direct oracle on every run op: delivered units = sent units by flattened bytes, no receiver error, link drains.  distinct = distinct case bodies',
 'trusted_base': ['hand-written Lean model of Message::Flatten/Unflatten/FlattenedSize and the public mutators (lean/MuscleModel/Wire)',
                  'type codes, protocol version, per-type wire sizes and the nesting limit are regenerated from /repo on every run (tools/extract_consts.cpp)',
                  'gateway sizes (header 8, scratch buffer 2048, text read 2047, raw read 8192, SLIP bytes) are measured on the compiled code on every run '
                  '(tools/extract_consts.cpp)',
                  'harness/gw.cpp ScheduledDataIO (a DataIO whose every Read/Write transfers exactly what the op line says)',
                  'hand-written Lean model of the call loops of MessageIOGateway (plain and zlib-flagged frames, zlib = an opaque function pair), '
                  'PlainTextMessageIOGateway, RawDataMessageIOGateway, SLIPFramedDataMessageIOGateway and of the WebSocket frame codec: CreateReplyFrame, '
                  'header logic, unmasking (lean/MuscleModel/Gateway)',
                  'zlib: the theorems assume only inflate(deflate(x)) = x for an opaque codec; the history dependence of the real deflate stream, SHA-1/Base64 '
                  'and std::random_device are not modelled.  For the zlib encodings, the templating gateway, the WebSocket gateways and the C mini/micro '
                  'gateways the model predicts the final deliveries (= the units sent, by the theorems), the wire bytes where deterministic, and for WebSocket '
                  'receivers what a clean frame sequence (masked or not) delivers; their call-by-call segmentation behaviour is checked by the direct oracle '
                  'on the real code',
                  'hand-written Lean model of the template-cache protocol of TemplatingMessageIOGateway (both ends: LRU order, byte tally, TrimLRUCache, frame '
                  'form chosen) over template ids, template sizes and layouts that the harness computes with the real code and re-checks on every run '
                  '(lean/MuscleModel/Gateway/Templating.lean)']}

TEXT = {'design_ref': 'DESIGN.md section 4, C03',
 'note': 'Not proved, only validated by correspondence/oracle: history dependence of the zlib streams, the templated payload codec '
         '(TemplatedFlatten/TemplatedUnflatten), WebSocket receive loop and handshake, C gateway call loops.  Hypotheses explicit in the statements (frameOKZ, '
         'CodecOK, clean lines, drained link, equal cache limits).  Open finding kept as corpus/C03/gw-known-*.ops and listed in known_findings.json: '
         'C03-ws-10mb (a Message above 10 MB cannot cross a WebSocket link).  Fixed and guarded by corpus/C03/gw-regress-*.ops and mutants/C03/r*.diff: F24, '
         'WebSocket client mask byte order, WebSocket handshake under a would-block, F7, C03-empty-chunk, C03-tmpl-zlib-level-switch (templating receiver '
         'failed after the sender changed its zlib level).',
 'technique': 'Lean 4 theorems (receiver state is a function of the consumed byte prefix for every maxBytes/grant schedule; any input chunking gives the same '
              'units; any short-write schedule emits the same bytes; any interleaving; frame round trips plain and zlib-flagged over an opaque codec; '
              'text-line, SLIP and WebSocket frame/mask/length round trips) over a hand-written model of the gateway call loops + differential correspondence '
              'of model and real gateways on scheduled transports + direct delivered=sent oracle on the real code',
 'text': 'Proved in Lean, once and generically: a receiver whose single Read results refine a byte-wise machine ends every DoInput call (any maxBytes, any '
         'per-Read byte counts incl. 0) exactly where feeding the consumed prefix byte by byte ends; two arbitrary call lists that empty the transport deliver '
         'the same units; a sender writes, under any short-write schedule, a prefix of its pending bytes and exactly them once drained; after ANY interleaving '
         'of AddOutgoingMessage/DoOutput/DoInput every sent byte is consumed, in transit or pending, in order.  Instantiated and fully proved for the binary '
         'gateway (header/body state machine with the scratch-buffer branch; frames plain or zlib-flagged for any codec with inflate(deflate x)=x; with C01: '
         'drained link => delivered = sent Messages, receiver idle), the text gateway (line splitter under any chunking, CR/LF/CRLF across reads, sender '
         'within its recursion limit; drained => delivered lines = sent lines), the raw gateway (both receive modes) and the SLIP gateway (escape/unescape '
         "round trip for all byte strings, END/ESC state across reads; drained => delivered frames = sent chunks); templating gateway: both ends' template "
         'caches stay in lock-step (same ids, layouts, sizes, recency order, tally) after every Message of any sequence, hence every payload-only Message '
         'finds its template; WebSocket frame kernels: mask involution for all keys, the three length encodings, server and client frame encode/decode.  The '
         'same definitions are executed by the model driver against the real C++ gateways under explicit schedules; a direct oracle (delivered units = sent '
         'units by flattened bytes, no error, link drains) runs on the real code for every gateway kind incl. the 10 encodings, templating, WebSocket in both '
         'directions with slave gateway and split handshakes, and the C mini/micro gateways.'}
