"""Configuration of ./check for property C03 (loaded by tools/props.py)."""

PROP = {'engine': 'gw',
 'lean_props': ['MuscleModel.Props.C03'],
 'harnesses': [{'name': 'gw',
                'sources': ['harness/gw.cpp'],
                'cflags': ['-std=gnu++11',
                           '-O1',
                           '-g',
                           '-w',
                           '-fpermissive',
                           '-fsanitize=address,undefined',
                           '-fno-sanitize=alignment',
                           '-DMUSCLE_ENABLE_ZLIB_ENCODING',
                           '-DMUSCLE_NO_EXCEPTIONS',
                           '-DMUSCLE_VERIF_HOOKS'],
                'timeout': 900}],
 'trusted_base': ['hand-written Lean model of Message::Flatten/Unflatten/FlattenedSize and the public mutators (lean/MuscleModel/Wire)',
                  'type codes, protocol version, per-type wire sizes and the nesting limit are regenerated from /repo on every run (tools/extract_consts.cpp)',
                  'hand-written Lean model of the call loops of MessageIOGateway (default encoding), PlainTextMessageIOGateway, RawDataMessageIOGateway, '
                  'SLIPFramedDataMessageIOGateway and of the WebSocket frame header (lean/MuscleModel/Gateway)',
                  'gateway sizes (header 8, scratch buffer 2048, text read 2047, raw read 8192, SLIP bytes) are measured on the compiled code on every run '
                  '(tools/extract_consts.cpp)',
                  'zlib inflate(deflate(x)) = x with matching history, SHA-1/Base64, std::random_device: not modelled; for the zlib encodings, the templating '
                  'gateway, the WebSocket gateways and the C mini/micro gateways the model predicts only the final deliveries (= the units sent, by the '
                  'theorems) and, where deterministic, the wire bytes; their segmentation behaviour is checked by the direct oracle on the real code only',
                  'harness/gw.cpp ScheduledDataIO (a DataIO whose every Read/Write transfers exactly what the op line says)'],
 'assumptions': ['Messages are C01-well-formed, within the nesting limit, the receiver size limit and the 32-bit length field (frameOK)',
                 'text lines contain no CR/LF/NUL; one terminator (CR LF, LF or CR) per stream',
                 'raw/SLIP chunks are non-empty except in the last position of a Message (an empty chunk makes the sender drop the rest of its Message: '
                 'finding)',
                 'the link ends drained (grants suffice); both templating ends use the same cache size; template ids do not collide (F7)',
                 'WebSocket: server->client direction, handshake text delivered whole (client->server masking and a split handshake fail on the unchanged '
                 'tree: findings)'],
 'rule': 'op = one unit sequence sent through a REAL sender/receiver pair of one gateway kind (binary x 10 encodings incl. mid-stream switches, templating, '
         'text, raw, SLIP, WebSocket with slave gateway, C mini/micro <-> C++) under one schedule (per call: maxBytes and the byte count of every Read/Write, '
         '0 = would block; any interleaving of queueing/output/input), then drained; plus `wire` (sender bytes), `feed` (arbitrary bytes into a receiver) and '
         '`share` (one tagged Message on two links).  The Lean model executes the same schedule step by step for binary/text/raw/SLIP (state after the '
         'scheduled part, deliveries, error flag must agree), predicts deliveries and wire bytes for the rest.  Direct oracle on every run op: delivered units '
         '= sent units by flattened bytes, no receiver error, link drains.  distinct = distinct case bodies'}

TEXT = {'design_ref': 'DESIGN.md section 4, C03',
 'technique': 'Lean 4 theorems (receiver state is a function of the consumed byte prefix for every maxBytes/grant schedule and every interleaving; byte '
              'conservation of the senders; frame, text-line and SLIP round trips) over a hand-written model of the gateway call loops + differential '
              'correspondence of model and real gateways on scheduled transports + direct delivered=sent oracle on the real code',
 'text': 'Proved in Lean, once and generically, that a receiver whose single Read results refine a byte-wise machine ends every DoInput call (any maxBytes, '
         'any per-Read byte counts incl. 0) exactly where feeding the consumed prefix byte by byte ends, and that after ANY interleaving of '
         'AddOutgoingMessage/DoOutput/DoInput every sent byte is consumed, in transit or pending, in order; instantiated and fully proved for the binary '
         'gateway (header/body state machine with the scratch-buffer branch; with C01: drained link => delivered = sent Messages, receiver idle), the text '
         'line splitter (CR, LF, CRLF across reads), the raw gateway (both receive modes) and the SLIP codec (END/ESC state across reads, round trip).  The '
         'same definitions are executed by the model driver against the real C++ gateways under explicit schedules; a direct oracle (delivered units = sent '
         'units by flattened bytes, no error, link drains) runs on the real code for every gateway kind incl. the 10 encodings, templating, WebSocket with '
         'slave gateway and the C mini/micro gateways.',
 'note': 'Not proved, only validated by correspondence/oracle: zlib encodings (codec is outside the model), templating cache protocol, WebSocket receive '
         'loop/handshake, C gateways call loops.  Hypotheses explicit in the statements (frameOK, clean lines, non-empty chunks, drained link).  Open findings '
         'on the unchanged tree, kept as corpus/C03/gw-known-*.ops and listed in known_findings.json: F7, F24, WebSocket client mask byte order, WebSocket '
         'handshake split by a would-block, empty raw/SLIP chunk drops the rest of its Message.'}
