"""Configuration of ./check for property C01 (loaded by tools/props.py)."""

PROP = {'assumptions': ['sizes below 2^32 (Fits32)', 'nesting depth within MUSCLE_MAX_MESSAGE_NESTING_DEPTH', 'B_ANY_TYPE is not used as a data type code'],
 'engine': 'msg',
 'harnesses': [{'name': 'msg', 'sources': ['harness/msg.cpp']}],
 'lean_props': ['MuscleModel.Props.C01'],
 'rule': 'random op sequences over a register file of 8 Messages (add/prepend/remove/replace/rename/copy/flatten/unflatten/compare), every op executed on the '
         'real Message class and on the Lean model; flatten bytes, sizes, dumps and equality results must agree; the direct round-trip oracle runs on every '
         'flatten; distinct = distinct case bodies',
 'trusted_base': ['hand-written Lean model of Message::Flatten/Unflatten/FlattenedSize and the public mutators (lean/MuscleModel/Wire)',
                  'type codes, protocol version, per-type wire sizes and the nesting limit are regenerated from /repo on every run (tools/extract_consts.cpp)']}

TEXT = {'design_ref': 'DESIGN.md section 4, C01',
 'note': 'Assumes sizes < 2^32 and nesting within MUSCLE_MAX_MESSAGE_NESTING_DEPTH (explicit hypotheses).  Trusted: Lean kernel, the statement files, the '
         'correspondence harness (sampling), constants regenerated from /repo headers.  The model is hand-written; a defect the generators never reach and the '
         'model does not share stays invisible.',
 'technique': 'Lean 4 theorems (round trip, byte-exact re-encoding, exact size, writer agreement, checksum invariance, truncation) over a hand-written model '
              'of the Message codec + differential correspondence of model and real code on random API op sequences',
 'text': 'Proved in Lean for every well-formed Message value (all field types, counts, nesting, orders): decode(encode m) = canonical m, re-encoding '
         'reproduces the bytes, size function = number of bytes written, inline and array writers agree; mutators preserve well-formedness.  The model is tied '
         'to the C++ code by running both on the same random op sequences (bytes, sizes, dumps, equality results must be identical) and by a direct round-trip '
         'oracle on the real Message class.  The content checksum is part of the model (`Wire/Checksum.lean`, transcribed from Message::CalculateChecksum, the '
         'array classes, SingleCalculateChecksum, Point/Rect/String/ByteBuffer and the MurmurHash2 of CalculateHashCode; op `cksum` compared line by line): '
         '`checksum_trip` and `checksum_decode_encode` (the parse of the serialisation has the same checksum), `checksum_rep_independent` (inline and array '
         'code paths agree), `checksum_order_independent`.  Equality (`operator==` as modelled by `msgEq`): `eq_trip`, `eq_decode_encode` (the parse compares '
         'equal to the original in both directions), `eq_trip_iff` (equality of two Messages is unchanged by tripping both), `msgEq_refl_of_nanfree` (a '
         'well-formed Message without pointer/tag fields is equal to itself exactly when no float/double/point/rect item is a NaN), `eq_rep_independent`; a '
         'Message holding a pointer/tag field is NOT equal to its parse (the parse lacks the field, `==` counts names) - counter-example in the file, the '
         'engine prints no prediction there.  Truncation: a strict prefix of an encoding never parses to the same Message (`decode_strict_prefix_fails`, '
         '`decode_strict_prefix_smaller`, `decode_truncated_head_fails`); the plain "a truncated buffer is rejected" is false of code and model alike '
         '(`decode_strict_prefix_none_is_false`, corpus/C01/msg-truncated-at-payload.ops) - an observation, no listed property forbids it.'}
