"""Configuration of ./check for property C10 (loaded by tools/props.py)."""

PROP = {'engine': 'rc',
 'lean_props': ['MuscleModel.Props.C10'],
 'harnesses': [{'name': 'rc', 'sources': ['harness/rc.cpp']}],
 'trusted_base': ['hand-written Lean interleaving model of Ref/RefCountable (lean/MuscleModel/Conc/RefCount.lean) and ObjectPool '
                  "(lean/MuscleModel/Conc/Pool.lean): one step = one AtomicCounter operation on a reference count, one critical section of the pool's _mutex, "
                  'the slab delete outside the lock, or one plain local action',
                  'the cooperative scheduler harness/libvh/coop.h and the MUSCLE_VERIF_HOOKS hook sites (AtomicCounter, Mutex): the real threads are '
                  "serialised at those points (plus the harness's own yield points at the start of every operation, inside `delete slabToDelete`, and - by "
                  'interposing on pthread_mutex_unlock - right after ReleaseObject() has released the pool mutex)',
                  'std::atomic<int32> increments/decrements are atomic and std::recursive_mutex excludes (modelled, not verified)',
                  'the instrumented test class Obj (constructor/destructor/assignment counters, canary) of harness/rc.cpp'],
 'assumptions': ['sequentially consistent interleaving of the hooked steps (no weak-memory effects, no compiler reordering)',
                 'a Ref object itself is used by one thread at a time (hand-off between threads only through the global slots, one atomic step) - as the '
                 'documentation of Ref requires',
                 'a non-counting Ref (SetRef(p,false), copies of one, Neutralize) is never dereferenced and is promoted only while another slot of the same '
                 'thread counts the same object (a dangling non-counting Ref is allowed by the documented semantics; dereferencing it is a user error)',
                 "an object's own `next` reference is modified only by a thread that holds the ONLY reference to that object (IsRefPrivate), never made to "
                 'point to the object itself: reference cycles (which reference counting cannot free) are excluded',
                 'counters below 2^32 (maxPool + objects-per-slab < 2^32), no allocation failure',
                 'AtomicCounter operations are single indivisible steps: a split inside AtomicIncrement/AtomicDecrement (e.g. `--_count; return '
                 'GetCount()==0;`) is invisible at the hook granularity (the hook sits before the operation): for such races the check relies on the `stress` '
                 'lines, which are testing by provocation with real threads and prove nothing'],
 'rule': 'one op line = pool parameters (objects per slab 1-4 chosen through the slab-size template parameter, maxPoolSize) + 1-4 thread programs over '
         'new-heap/obtain/copy/SetRef/Reset/swap/hand-off/payload-write/const-cast/link/unlink/pop (objects hold a `next` Ref: linked lists, cascading '
         'release)/non-counting alias/promote/demote/Neutralize + a schedule, executed on real threads against the real Ref/RefCountable/ObjectPool under the '
         'deterministic cooperative scheduler and on the Lean interleaving model; per step the observable events (object created, slab created, object handed '
         'out and its payload, object reset on release, heap object destroyed, slab destroyed) with first-seen identities and the (identity, refcount, '
         'payload, next) tuples of all live objects, at the end _curPoolSize and the in-use counts of the slab list must agree; schedules are enumerated '
         'behind a set-up prefix (shared object, linked list shared by its head, non-counting aliases, pool contention) up to 2 (quick) / 3 (thorough) '
         'preemptions per program (capped, fewest preemptions first) plus random event lists plus single-threaded histories; direct oracle: destroyed/recycled '
         'exactly once and only with count 0 and no visible reference, no Ref to a released object, count = visible references (counting slots + `next` '
         'members of live objects) when no operation is in progress, nothing leaks, an object handed out is in the default state and not handed out already, '
         'free lists acyclic and disjoint from handed-out nodes, _curPoolSize = free nodes, PerformSanityCheck() after every step; distinct = distinct case '
         'bodies.  TESTING, NOT PROOF: each shard additionally runs 7 `stress` lines (lastrefs / churn / pop with 2-4 REAL UNSCHEDULED threads released from a '
         'spin barrier; 200000/60000/30000/20000/10000/50000/20000 rounds, x10 in the thorough tier) whose expected result is a constant that the Lean engine '
         'merely echoes; they provoke races below the hook granularity (oracle: exactly one release per shared object, nothing handed out twice, popped '
         'successor alive, pool all free, PerformSanityCheck, ASan)',
 'timeout': 1500,
 'gen_timeout': 1500}

TEXT = {'design_ref': 'DESIGN.md section 4, C10 (and 3.5 for the hooks and the cooperative scheduler)',
 'technique': 'Lean 4 theorems over a small-step interleaving model of Ref/RefCountable and ObjectPool (every schedule, any number of threads and objects, all '
              'pool parameters: one joint invariant proved by induction over the schedule) + differential correspondence: the same thread programs and '
              'schedules run on real threads against the real code under a deterministic cooperative scheduler (hooks in AtomicCounter/Mutex) and on the model',
 'text': 'Proved in Lean for every reachable configuration of the model (all programs, all schedules, all slab sizes >= 1 and pool limits): the reference '
         'count of every object equals the number of references to it (slots of all threads, global slots, pending decrements); an object with any reference '
         'is alive (never released early), also when the reference is the `next` member of another live object (linked lists; the cascading release of a chain '
         'is modelled step by step); assigning a Ref from the `next` reference held inside the object it points to (head = head()->next) keeps the successor '
         'alive (assign_from_owned_ref_safe; old_order_counterexample shows the state the pre-3dba531 order of SetRef() reaches); non-counting Refs do not '
         'count, promotion/demotion/Neutralize keep count = references; hand-outs = releases + (1 if alive), a heap object is released at most once, a '
         "released object has count 0 and no references; pool bookkeeping: every slab's free list is an acyclic duplicate-free chain of exactly the nodes not "
         'handed out, its length + nodes-in-use = slab size, slab identities distinct, _curPoolSize = free nodes of the listed slabs; the node ObtainObjectAux '
         'hands out is free, not alive, unreferenced, in the default state, and a handed-out raw pointer belongs to one thread only; a slab about to be '
         'deleted outside the lock has no node in use, is off the slab list for good and none of its objects is alive or referenced.  All theorems are full '
         'strength (no _partial).  The model is tied to the C++ code by running both on the same programs and schedules (bounded-preemption exhaustive behind '
         'a set-up prefix + random + single-threaded) and by direct oracles on the real objects and pool.',
 'note': 'Sequential consistency of the hooked steps, counters < 2^32, no allocation failure; only reference-counting Refs; a Ref object is private to one '
         'thread (hand-off through mailboxes); next members are changed only through a private reference; non-counting Refs are never dereferenced.  Finding '
         'C10-assign-from-owned-ref (fixed in /repo 3dba531) has its regression in corpus/C10/rc-regress-assign-from-owned-ref.ops.  Not visible at the hook '
         'granularity: a split inside AtomicDecrement itself; the `stress` op (real unscheduled threads, constant expected result, echoed by the model) is '
         'there to PROVOKE such races - it is testing, not proof, and its absence of failures supports no theorem.  Not proved: absence of leaks as a theorem '
         '(the harness checks it: alive but unreferenced / not everything released at the end is an oracle failure).  Trusted: Lean kernel, statement file, '
         'scheduler + hooks, sampling correspondence.'}
