"""Configuration of ./check for property C08 (loaded by tools/props.py)."""

PROP = {'assumptions': ['Messages within the common repertoire (no pointer/tag fields)', 'sizes below 2^32', 'Python pair: field names and strings valid UTF-8'],
 'engine': 'msg',
 'harnesses': [{'extra': ['c:lang/c/minimessage/MiniMessage.c',
                          'c:lang/c/minimessage/MiniMessageGateway.c:-fno-sanitize=alignment',
                          'c:lang/c/micromessage/MicroMessage.c',
                          'c:lang/c/micromessage/MicroMessageGateway.c'],
                'name': 'xwire',
                'sources': ['harness/xwire.cpp']}],
 'lean_props': ['MuscleModel.Props.C08'],
 'rule': "random op sequences (engine msg) restricted to the common repertoire; at every flatten the C++ bytes must equal the Lean model's encode, and the "
         'mini, micro and Python codecs must read the same content from them, re-serialise / rebuild them byte-identically, be accepted by the C++ parser, and '
         'produce the same 8-byte stream frame; distinct = distinct case bodies',
 'trusted_base': ['hand-written Lean model of Message::Flatten/Unflatten/FlattenedSize and the public mutators (lean/MuscleModel/Wire)',
                  'type codes, protocol version, per-type wire sizes and the nesting limit are regenerated from /repo on every run (tools/extract_consts.cpp)',
                  'Spec/WireConstants.lean: the documented constants, typed by hand from the documentation',
                  'tools/pymsg_driver.py (line protocol around lang/python3/message.py), harness/cdialects.h (dumps/builders through the public mini/micro '
                  'API)',
                  'the internals of the C mini/micro and Python codecs are not modelled: their agreement with the layout is established by the cross check '
                  'only']}

TEXT = {'design_ref': 'DESIGN.md section 4, C08',
 'note': 'The internals of the C and Python codecs are not modelled (correspondence only).  Python pair only for UTF-8 names/strings.  One disagreement is an '
         'open known finding with a corpus trigger (message.py: a signalling-NaN point/rect coordinate comes back quiet, XW-PY-SNAN); its input class is kept '
         'out of the random stream by construction.  Two were repaired and are generated freely again, with regression cases in corpus/C08 (message.py: '
         'FlattenedSize of non-ASCII field names; MicroMessage.c: UMFindData on a zero-length last item).  MiniMessageGateway.c is compiled without the UBSan '
         'alignment check (its output path stores a pointer at a misaligned address on every call).',
 'technique': 'Lean 4 theorems about the model encoder (header/field/payload layout, injectivity, 8-byte frame round trip, regenerated constants = documented '
              'constants by `decide`) + differential correspondence of the model with the C++ writer + a cross-implementation oracle that runs the real C mini '
              'codec, C micro codec (both linked in) and the Python codec (subprocess) on the same Messages',
 'text': 'Proved in Lean: the bytes the model encoder produces are exactly the documented layout (12-byte little-endian header of protocol version, what-code '
         'and flattenable-field count; per field length-prefixed NUL-terminated name, type code, payload length, payload; per-type payload forms incl. 1-byte '
         'bools, count+length prefixes for strings/raw data, NO count for sub-Messages), two well-formed Messages with equal bytes have equal content, the '
         '8-byte length/encoding frame round-trips, and every constant regenerated on this run from the C++ headers, MiniMessage.c, MicroMessage.c, their '
         'gateways, message.py and message_transceiver_thread.py equals the hand-typed documented table.  Validated, not proved: on random Messages of the '
         'common repertoire the C++ bytes equal the model bytes, and the mini, micro and Python codecs read the same content from them, re-serialise/rebuild '
         'them byte-identically, are accepted back by the C++ parser, and write the same stream frame.'}
