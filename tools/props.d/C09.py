"""Configuration of ./check for property C09 (loaded by tools/props.py)."""

PROP = {'assumptions': ['comparison functors of the ordered kinds are strict weak orders (explicit hypothesis StrictWeak)',
                 'tableSize < 2^32 (uint32 field; EnsureSize refuses MUSCLE_NO_LIMIT)',
                 'traversal theorems: plain Hashtable, mutations during the traversal are puts and removals, no key is re-inserted after its removal',
                 'single-threaded use (the iterator registration of a second thread is out of scope)'],
 'engine': 'ht',
 'harnesses': [{'name': 'ht', 'sources': ['harness/ht.cpp']}],
 'lean_props': ['MuscleModel.Props.C09'],
 'rule': 'random op sequences over two tables of one kind (Hashtable / OrderedKeysHashtable / OrderedValuesHashtable) with uint32 keys under a colliding hash '
         'functor or String keys, int values, four live forward/backward iterators, populations walked across 7/8, 255/256 (and 65535/65536 in the thorough '
         'tier), alias mode (arguments that are references into the table); every op executed on the real class and on the Lean model, results (status, '
         'values, iterator positions, full dumps) must be identical; direct oracle = std::list reference + iterator completeness/no-duplicate/no-dangling '
         'bookkeeping; directed scenarios: capacities of exactly 256 / 65536 slots (EnsureSize, preallocating constructor, ShrinkToFit at exactly that '
         'population, copies; keys hashing to the last slot), several iterators parked on one entry across reallocation, re-positioning of updated entries in '
         'sorted tables, auto-sort toggling, moved-from / zero-capacity tables and the whole cross-table family (SwapContents, move construction/assignment, '
         'CopyFrom, Put(table), MoveToTable, CopyToTable, SwapWithTable, Remove(table), Intersect, IsEqualTo); the three findings C09-R1..R3 are repaired: the '
         'harness still probes the code for the old behaviours and passes what it sees on the init line (a switch of the model), so a tree that shows one '
         'again is compared as such and the regression cases corpus/C09/ht-regress-R*.ops report it; on the repaired tree their triggers are part of the '
         'random stream; distinct = distinct case bodies',
 'timeout': 900,
 'trusted_base': ['hand-written Lean model of Hashtable/OrderedKeysHashtable/OrderedValuesHashtable as an association list in iteration order plus the '
                  'registry of live iterators (lean/MuscleModel/Containers/OMap.lean, HTab.lean); bucket chains, hash functions, slot arrays and capacities '
                  'are abstracted to find-by-key',
                  'the capacity -> index-width function and the default capacity are regenerated from the compiled headers on every run '
                  '(tools/extract_consts.cpp measures GetTotalDataSize() per capacity)',
                  'SortByKey/SortByValue/Sort are modelled as a stable sort (core List.mergeSort) rather than by transcribing the linked-list merge sort']}

TEXT = {'design_ref': 'DESIGN.md section 4, C09',
 'note': 'Bucket chains/hash functions/slot arrays are abstracted to find-by-key (memory safety of the slot layer is watched by ASan only, incl. the alias '
         'mode that found F23); sort is modelled as a stable sort; comparison functors assumed strict weak orders; traversal theorems are for the plain '
         'Hashtable under puts/removals without re-insertion of a removed key.  Trusted: Lean kernel, the statement file, the correspondence harness '
         '(sampling), the constants extractor.  A defect the generators never reach and the model does not share stays invisible.',
 'technique': 'Lean 4 theorems (map laws, order laws of every operation, auto-sort invariant, iterator non-dangling invariant over all reachable states, '
              'traversal completeness/no-duplicates under mutation, index-width kernel) over a hand-written ordered-map + iterator-registry model of Hashtable '
              '+ differential correspondence of model and real code on random API op sequences with live iterators',
 'text': 'Proved in Lean for every table state and every operation sequence: the table is an ideal map (get/put/remove laws, sizes) for all three kinds; each '
         'put variant, positional put, move operation, removal, sort (sorted, same entries, stable), clear and reallocation yields exactly the stated '
         'iteration order; auto-sorting tables stay sorted under every operation not documented as disturbing the order (for strict weak comparisons); in '
         'every reachable state no registered iterator refers to an entry that is not in the table, an advanced iterator shows a live entry, a '
         'cleared/destroyed table detaches its iterators; a traversal under puts and removals visits every key that was present throughout and no key twice; '
         'every slot index fits the index width chosen for the capacity and differs from its sentinel (kernel regenerated from the compiled headers).  The '
         'model is tied to the C++ code by running both on the same random op sequences (all results, iterator positions and dumps must be identical) and by a '
         'direct oracle (std::list reference, iterator bookkeeping, ASan/UBSan) on the real classes.'}
