"""Configuration of ./check for property C18 (loaded by tools/props.py)."""

PROP = {'engine': 'rw',
 'lean_props': ['MuscleModel.Props.C18'],
 'harnesses': [{'name': 'rw', 'sources': ['harness/rw.cpp']}],
 'trusted_base': ['hand-written Lean interleaving model of ReaderWriterMutex (lean/MuscleModel/Conc/RWMutex.lean): one step = one critical section of '
                  '_stateMutex or one return from WaitCondition::Wait()',
                  'the cooperative scheduler harness/libvh/coop.h and the MUSCLE_VERIF_HOOKS hook sites (Mutex, WaitCondition): the real threads are '
                  'serialised at those points only',
                  'std::recursive_mutex excludes, std::condition_variable + WaitCondition counter = counting notification (modelled, not verified)'],
 'assumptions': ['sequentially consistent interleaving of the hooked steps (no weak-memory effects)',
                 'no clock: a time-out is a nondeterministic event, real-time deadlines are not claimed',
                 'counters below 2^32, no allocation failure',
                 'fewer simultaneous waiters than one ObjectPool slab of wait conditions',
                 'open finding F13 (timed variant only; the time-out-0 variant is fixed by /repo d881489 and covered by corpus/C18/rw-regress-F13-try.ops): a '
                 'timed LockReadWrite from a read-lock holder (upgrade path) is excluded from timed_returns and from the generated stream; its triggers run '
                 'from corpus/C18/rw-known-F13.ops'],
 'rule': 'one op line = 1-4 thread programs over lockR/lockW/tryR/tryW/timedR/timedW/unlockR/unlockW + a schedule (thread steps and time-out events), executed '
         'on real threads against the real ReaderWriterMutex under the deterministic cooperative scheduler and on the Lean interleaving model; per-event '
         'outcomes, holder tables, verdict (done/deadlock) and the final lock tables must agree; schedules are enumerated exhaustively up to 2 (quick) / 3 '
         '(thorough) preemptions per program with time-out events at every legal point (capped, fewest preemptions first) plus random event lists; direct '
         'oracle: exclusion, table consistency, counts = acquires - releases, failed try/timed leaves the lock unchanged, try never blocks, no deadlock unless '
         'a finished thread still holds; distinct = distinct case bodies'}

TEXT = {'design_ref': 'DESIGN.md section 4, C18 (and 3.5 for the hooks and the cooperative scheduler)',
 'technique': 'Lean 4 theorems over a small-step interleaving model of ReaderWriterMutex (every schedule, any number of threads, both preference settings: '
              'four invariants proved by induction over the schedule) + differential correspondence: the same thread programs and schedules run on real '
              'threads against the real mutex under a deterministic cooperative scheduler (hooks in Mutex/WaitCondition) and on the model',
 'text': 'Proved in Lean for every reachable configuration of the model (all programs, all schedules, both settings): a writer entry is the only executing '
         'entry (exclusion), readers do share, the total equals the sum of write counts, the executing table is a duplicate-free set of exactly the threads '
         'with non-zero counts, the waiting tables are exactly the threads inside a wait and no waiting thread executes, the table counts of every thread '
         'outside the upgrade path equal its successful acquisitions minus successful releases (through recursion and upgrade), whenever nobody executes the '
         'waiters favoured by the hand-off rule have a pending notification or are between wake-up and re-check (no lost wake-up), and every configuration '
         'with an unfinished thread in which no finished thread still holds the lock has an enabled event (deadlock freedom); per step: a failed try '
         '(including a try upgrade, fixed in /repo by d881489) leaves the state unchanged and never waits, a failed timed call removes only its own waiting '
         'entry, with writer preference a new reader is admitted only when no writer waits, after its time-out event a plain timed acquisition returns '
         'B_TIMED_OUT in its next, always enabled, step; and a classification of boundedness: in every reachable configuration a thread inside any try/timed '
         'call has an enabled event of its own (try_timed_calls_bounded) unless it is re-taking its read locks after a FAILED timed upgrade, and a try/timed '
         'call with no enabled own event is exactly that case (only_failed_timed_upgrade_is_unbounded), with a witness schedule.  The model is tied to the C++ code by running both on the same programs and schedules '
         '(bounded-preemption exhaustive + random) and by direct oracles on the real tables.',
 'note': 'No clock (time-outs are events), sequential consistency of the hooked steps, counters < 2^32, no allocation failure.  Finding F13, timed variant (a '
         'timed read-to-write upgrade re-takes its read locks with the untimed LockReadOnly() and can block past its deadline) is open (no small repair: the read locks are dropped before the wait, so once another writer holds the lock they cannot be restored '
         'without waiting for it; a repair must keep them while waiting, i.e. a different upgrade protocol): excluded from '
         'timed_returns, characterised exactly in the model (only_failed_timed_upgrade_is_unbounded, witness f13_timed_upgrade_blocks), triggers kept in corpus/C18/rw-known-F13.ops and reported as KNOWN-FINDING; '
         'the time-out-0 variant is fixed and guarded by corpus/C18/rw-regress-F13-try.ops and try_upgrade_never_blocks.  Trusted: Lean kernel, statement '
         'file, scheduler + hooks, sampling correspondence.'}
