"""Configuration of ./check for property C14 (loaded by tools/props.py)."""
import os

# self-test of the check (mutants/C14/check_mutant.sh): a patched copy of a library source file (regex/QueryFilter.cpp,
# system/SetupSystem.cpp) is compiled into the harness in front of the library, so that its definitions win at link time
_MUTANT_SRC = os.environ.get('VERIF_C14_MUTANT_SRC', '').split()

PROP = {'engine': 'qf',
 'lean_props': ['MuscleModel.Props.C14'],
 'harnesses': [{'name': 'qf', 'sources': ['harness/qf.cpp'] + _MUTANT_SRC}],
 'trusted_base': ['hand-written Lean model of every Matches()/SaveToArchive()/SetFromArchive() of regex/QueryFilter.{h,cpp} and of the factory '
                  '(lean/MuscleModel/Filter), on top of the Message model of C01',
                  'filter class codes, operator enums, MUSCLE_NO_LIMIT, sizeof(Point/Rect/bool) and the bytes of Rect()/Point() are regenerated from /repo on '
                  'every run (tools/extract_consts.cpp); the lexer token table, LTOKEN_* numbering, synonym list and ParseBool word lists are parsed from the '
                  'source text on every run (tools/extract_kernels.py)',
                  'reference evaluator written from the header documentation inside harness/qf.cpp (direct oracle; abstains where the documentation is '
                  'silent)'],
 'assumptions': ['the four wildcard/regex string operators delegate to StringMatcher (parameter `sm` of eval; property C15); the driver prints no prediction '
                 'for them',
                 'a raw-data filter that reaches a Message/pointer/tag field compares the bytes of a reference object (an address): no prediction',
                 'archive_roundtrip assumes a well-formed filter (wf): operands of the operand width, 32-bit indices/counts/type codes, 8-bit operators',
                 'expression strings: lexer + parser are modelled (Filter/Lexer.lean, Filter/Parser.lean) and tied by the expr/exprt ops; atof is modelled '
                 'only on decimal literals that need no rounding (other operands: no prediction); parse_print is proved for the canonical (fully parenthesised, one blank after each token) spelling of printable trees',
                 'IEEE comparison of the hardware is modelled on bit patterns (sign-magnitude key, NaN unordered)'],
 'rule': 'per case: a random filter tree (all 19 classes, depth <= 5) built through the public constructors on the real classes and parsed into the Lean '
         'model; its archive dump; the filter restored from the archive; Messages whose fields sit on both sides of each comparison evaluated on original and '
         'restored; Message-level and byte-level corruptions of the archive and arbitrary Messages offered to the factory; results (ok/err, archive dumps, '
         'true/false) must agree with the model; direct oracle on every eval (reference evaluator from the documentation, Message unchanged, repeatable, '
         'wire-restored twin decides identically); expression strings printed from random ASTs together with the tree the documented grammar denotes (exprt: '
         'direct oracle compares the archives; field names containing keywords, :index and |default suffixes, redundant parentheses, double negation and INT64_MIN operands included) and hostile spellings (expr); corpus: every example of the expression section of html/Beginners Guide.html with its denoted tree; distinct = distinct case bodies'}

TEXT = {'design_ref': 'DESIGN.md section 4, C14',
 'technique': 'Lean 4 theorems (threshold loop = counting spec incl. the documented n=0 rows, and/or/nand/nor/xor/min/max truth tables for every child '
              'valuation, numeric operators per type on bit patterns, missing-data/default rule, archive round trip preserves every decision, factory total '
              'and well-formed on arbitrary Messages) over a hand-written model of regex/QueryFilter + differential correspondence of model and real code on '
              'random filter trees, archives, corrupted archives and Messages, with a documentation-level reference evaluator as direct oracle',
 'text': 'Proved in Lean for every filter tree, every Message and every node: the early-exit threshold loop equals "more than min(n, kids-1) children match" '
         '(true on no children), the seven combinators follow their truth tables for every child valuation, numeric comparison per operator and type is the '
         'mathematical / IEEE relation on the operand values, a missing item means "compare the default if one is given, else false", a filter restored from '
         'its archive is its normal form and decides identically on every Message (all 19 classes, any nesting depth, for well-formed filters), Point/Rect '
         'comparison is the lexicographic order that skips unordered components, the expression lexer always makes progress (termination measure of the '
         'parser), every filter the expression parser returns is well-formed (hence survives archiving), the canonical spelling of a printable tree of the documented grammar parses to exactly its denotation (parse_print), and the factory on an arbitrary Message either fails or returns a well-formed filter.  The model is tied to the C++ code by running both on '
         'the same random trees / archives / corrupted archives / Messages (ok-err, archive dumps and decisions must be identical) and by a direct oracle on '
         'the real classes (reference evaluator from the documentation, Message unchanged, restored twin agrees).',
 'note': 'Expression strings: lexer+parser modelled and tied by correspondence (expr/exprt ops, denotation oracle); parse_print proved for the canonical spelling only (other spellings: correspondence); atof only on '
         'literals needing no rounding.  The four wildcard/regex string operators are a parameter (C15).  Trusted: Lean kernel, the statement file, the '
         'harness (sampling), constants regenerated from /repo headers.  Archive field ORDER is canonicalised (name order) because SaveToArchive uses `a | b` '
         'whose operand order is unspecified in C++.  Fixed in /repo, regression ops kept in corpus/C14 (qf-regress-*.ops): zero-length RawDataQueryFilter default dropped by SaveToArchive / NULL passed to memcmp; expression field name kept '
         'its :index/|default suffix (8495b83); lexer split names at embedded synonyms (b1d5b6e); ((x)) rejected (ef6af3a); Atoll negated INT64_MIN (3186549).'}
