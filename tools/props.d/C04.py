"""Configuration of ./check for property C04 (loaded by tools/props.py)."""

PROP = {'engine': 'srv',
 'lean_props': ['MuscleModel.Props.C04'],
 'harnesses': [{'name': 'srv', 'sources': ['harness/srv.cpp']}],
 'trusted_base': ['hand-written Lean model of the reflector: node tree, path matcher, literal wildcard traversal, notification pipeline, command handlers '
                  '(lean/MuscleModel/Reflector/{Glob,Tree,Traverse,Server,Handlers}.lean, Engines/Srv.lean)',
                  'tie: harness/srv.cpp drives a real in-process ReflectServer (one ServerProcessLoop iteration at a time, real MessageIOGateways over socket '
                  "pairs); tree digest, per-node subscriber tables and every Message each client receives must equal the model's prediction line by line",
                  'clause patterns in the reflector model are the fragment {literal, \\\\c, *, ?, top-level comma}; the full pattern syntax is property C15; '
                  'glibc regcomp/regexec trusted as there',
                  'content filters in the reflector engine are int32 comparisons on one field; the full filter language is property C14'],
 'assumptions': ["SUBSCRIBE paths are GoodPaths (no empty clause; C15's pattern laws) in the theorems about marks and notifications",
                 "no quiet flags / disabled subscriptions / explicit GETDATA in the mirror oracle's scope"],
 'rule': 'generated histories over 2-5 sessions on two hosts: attach/detach, SETDATA (incl. ADDTOINDEX), REMOVEDATA with wildcards, SUBSCRIBE with/without '
         'int32 filters, re-filter, unsubscribe, reflect-to-self, max-items, default route, client-to-client Messages with 0-2 key patterns, '
         'INSERTORDEREDDATA, REORDERDATA, BATCH, PING, FindMatchingNodes; every 4th case is the hostile stream (arbitrary structurally valid Messages with '
         'reserved names and wrong types, quiet flags, GETDATA, JETTISONRESULTS with filters while a client is not reading, connection cuts after a byte '
         'prefix) followed by a witness ping after every op; direct oracles evaluated on the real server at every quiescent point; distinct = distinct case '
         'bodies',
 'timeout': 600}

TEXT = {'design_ref': 'DESIGN.md section 4, C04',
 'technique': 'Lean 4 theorem (batching of update Messages is invisible for every flush schedule and max-items value) over the reflector model + differential '
              'correspondence of the full notification pipeline with a real in-process server + direct mirror-vs-matching-set oracle',
 'text': "Proved in Lean: (1) however the server cuts one subscriber's stream of node events into PR_RESULT_DATAITEMS Messages (max-items limit of any value, "
         'forced flush on remove-after-set, arbitrary extra flushes caused by other sessions), a client applying every Message in order (removals first, then '
         'sets) ends with exactly the event-by-event result (`batching_invisible`, `feed_sound`); (2) in every state reachable from the empty server by '
         "attach, detach, any command and any push/pump, every node's subscriber table counts for every attached session exactly the subscription entries of "
         "that session whose clauses match the node's path, holds no entry of a departed session and no zero entry (`invariant_reach`, `marks_correct`, "
         '`marks_correct_detached` — through the C05 traversal theorem and the C13 tree invariant); (3) a node change notifies exactly the sessions with a '
         'positive mark (other than the author unless it reflects to itself), at most one event per session, and the event is the filter transition rule — '
         'matched before/matches now: set, before and not now: removal, neither: nothing (`nodeChanged_exact`, `notify_exact`, `notify_exact_reach`, '
         "`invariant_primitives`); (4) the delivery twin: what `nodeChangedAux`/`pushAll` append to a session's inbox is exactly what the abstract pipe of (1) "
         "sends (`twin_text`, `delivery_twin`), so a client's replayed mirror equals the event-by-event fold; (5) the property theorem `converges` "
         '(`converges_reach` for every state reached from the empty server): a session that attaches with no subscription and the EMPTY mirror, after ANY run '
         'made of — its own SUBSCRIBEs of new paths with or without filter (snapshot replayed as structured Messages), its own re-subscriptions with another '
         'filter, its own unsubscribes (the client drops what no remaining subscription matches), its own data, index, max-items, route and reflect-to-self '
         'commands, and every command class of every other session (SETDATA on any path incl. several payloads in one command and the index flag, REMOVEDATA '
         'with wildcards and nested subtrees, INSERTORDEREDDATA, REORDERDATA, parameters, subscriptions, routed Messages, pings), pushes, arrivals and '
         'departures of other sessions — holds, at every point where nothing is pending for it, exactly the matching set: a path with a payload IFF some node '
         'has that path, is visible to the subscriber, is matched by its CURRENT subscriptions (clauses and filter) and carries that payload NOW; and the '
         'PR_RESULT_DATAITEMS lines it received are exactly the Messages its client consumed.  The per-step theorems (`step_mirror_set`, `_setm`, `_rm`, '
         '`_detach_other`, `_attach_other`, `_ins_other`, `_subscribe_new`, `_refilter`, `_unsubscribe`, `own_param_step`, `own_self_step`, `story_step`, '
         "`run3_quiescent`) are registered too, as are `getdata_visits` (GetDataCallback's traversal = the brute-force matches outside the own subtree), "
         '`names_unambiguous`, `fresh_sess_node_reach` and the engine-level corollaries (`reach_engine`, `marks_correct_engine`).  Tie: the reflector model '
         "reproduces the real server's deliveries and per-node subscriber tables exactly on every generated history (incl. several payloads in one SETDATA, "
         "re-filtering next to overlapping subscriptions, BATCH); the direct oracle compares each client's replayed mirror with the brute-force matching set "
         '(PathMatcher::MatchesPath + QueryFilter::Matches over the in-process tree) at every quiescent point.',
 'note': 'The last hypothesis the proof could not discharge (no own node newly passes a changed filter of a non-reflecting session) was a defect of the code, '
         'repaired by 2824527; the old behaviour is kept as the counter-example `refilterOld`.  What `converges` does NOT cover is listed in one place, the '
         'header of Props/C04.lean ("COVERAGE OF THE FINAL THEOREM"): (1) a plain session that carries the indexing flag — its snapshots contain its own nodes '
         "by design; (2) setting reflect-to-self while subscriptions are held (no snapshot is sent at that moment); (3) the subscriber's own departure; (4) "
         "paths that are not GoodPaths (empty clause, or outside C15's pattern laws), SETDATA / INSERTORDEREDDATA beyond MUSCLE_MAX_NODE_DEPTH (the model has "
         "no depth check, the code refuses them), host names containing '/'; (5) the engine's clone/save/restore/trees ops; (6) a start with subscriptions "
         'already held (`run3_quiescent` covers it when the mirror is right at the start).  Those and everything else are still decided by correspondence + '
         'the mirror oracle.  Oracle premises: clients that used quiet flags / disabled subscriptions / explicit GETDATA are exempt by definition of those '
         'features.  Finding F10 (two spellings of one subscription path) is repaired in the code (5abe56c: the older spelling is dropped from the '
         'parameters); two spellings are generated freely and the former trigger is the regression case corpus/C04/srv-regress-F10.ops.  The order in which '
         'the subscribers of one node are notified comes from a content-addressed table cache and is not modelled: max-items and multi-payload SETDATA are '
         'only used in single-subscriber cases.'}
