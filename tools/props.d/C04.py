"""Configuration of ./check for property C04 (loaded by tools/props.py)."""

PROP = {'engine': 'srv',
 'lean_props': ['MuscleModel.Props.C04'],
 'harnesses': [{'name': 'srv', 'sources': ['harness/srv.cpp']}],
 'trusted_base': ['hand-written Lean model of the reflector: node tree, path matcher, literal wildcard traversal, notification pipeline, command handlers '
                  '(lean/MuscleModel/Reflector/{Glob,Tree,Traverse,Server,Handlers}.lean, Engines/Srv.lean)',
                  'tie: harness/srv.cpp drives a real in-process ReflectServer (one ServerProcessLoop iteration at a time, real MessageIOGateways over socket '
                  "pairs); tree digest, per-node subscriber tables and every Message each client receives must equal the model's prediction line by line",
                  'clause patterns in the reflector model are the fragment {literal, \\\\c, *, ?, top-level comma}; the full pattern syntax is property C15; '
                  'glibc regcomp/regexec trusted as there',
                  'content filters in the reflector engine are int32 comparisons on one field; the full filter language is property C14'],
 'assumptions': ["no quiet flags / disabled subscriptions in the oracle's scope", 'F10, F11, F12 shapes excluded from the random stream'],
 'rule': 'generated histories over 2-5 sessions on two hosts: attach/detach, SETDATA (incl. ADDTOINDEX), REMOVEDATA with wildcards, SUBSCRIBE with/without '
         'int32 filters, re-filter, unsubscribe, reflect-to-self, max-items, default route, client-to-client Messages with 0-2 key patterns, '
         'INSERTORDEREDDATA, REORDERDATA, BATCH, PING, FindMatchingNodes; every 4th case is the hostile stream (arbitrary structurally valid Messages with '
         'reserved names and wrong types, quiet flags, GETDATA, JETTISONRESULTS with filters while a client is not reading, connection cuts after a byte '
         'prefix) followed by a witness ping after every op; direct oracles evaluated on the real server at every quiescent point; distinct = distinct case '
         'bodies',
 'timeout': 600}

TEXT = {'design_ref': 'DESIGN.md section 4, C04',
 'technique': 'Lean 4 theorem (batching of update Messages is invisible for every flush schedule and max-items value) over the reflector model + differential '
              'correspondence of the full notification pipeline with a real in-process server + direct mirror-vs-matching-set oracle',
 'text': "Proved in Lean: however the server cuts one subscriber's stream of node events into PR_RESULT_DATAITEMS Messages (max-items limit of any value, "
         'forced flush on remove-after-set, arbitrary extra flushes caused by other sessions), a client applying every Message in order (removals first, then '
         'sets) ends with exactly the event-by-event result (`batching_invisible`, `feed_sound`).  Which events reach which subscriber (reference-counted '
         "subscriber tables, filter transitions, initial snapshots, cleanup) is part of the executable reflector model, which reproduces the real server's "
         "deliveries and per-node subscriber tables exactly on every generated history; the direct oracle compares each client's replayed mirror with the "
         'brute-force matching set (PathMatcher::MatchesPath + QueryFilter::Matches over the in-process tree) at every quiescent point.  The full `converges` '
         'theorem (statement kept in Props/C04.lean) is not proved yet: level is proof for the batching layer, correspondence + oracle for the rest.',
 'note': "Partial: `converges` over whole histories is validated (model correspondence + direct oracle), not proved.  Oracle premises: other sessions' nodes "
         'only; histories with quiet flags / disabled subscriptions / explicit GETDATA are exempt by definition of those features; two subscription spellings '
         'normalising to one path (F10), empty path clauses (F11) and re-filtering with overlapping subscriptions (F12) are kept out of the random stream.  '
         'The order in which the subscribers of one node are notified comes from a content-addressed table cache and is not modelled: max-items is only used '
         'in single-subscriber cases.'}
