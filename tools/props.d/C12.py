"""Configuration of ./check for property C12 (loaded by tools/props.py)."""

PROP = {'engine': 'tun',
 'lean_props': ['MuscleModel.Props.C12'],
 'harnesses': [{'name': 'tun', 'sources': ['harness/tun.cpp']}],
 'trusted_base': ['hand-written Lean model of PacketTunnelIOGateway / MiniPacketTunnelIOGateway DoOutputImplementation + DoInputImplementation '
                  '(lean/MuscleModel/Tunnel)',
                  'fragment/packet/chunk header sizes, default magics, the 24-bit mini packet id and the receive-state cap are measured on the compiled '
                  'gateways on every run (tools/extract_consts.cpp)',
                  'zlib (mini tunnel compression) is a model parameter with the law inflate(deflate x) = x; the harness prints compressed packets in inflated '
                  'canonical form',
                  'the tunnelled payload is the flattened Message: Message::Flatten/Unflatten enter through the C01 model (delivery iff the reassembled buffer '
                  'parses)',
                  'private send counters are set through harness/tun_access.h (explicit-instantiation access, or the planned friend hook)'],
 'assumptions': ['message ids distinct per source among deliverable packets (fewer than 2^32 Messages of one source in flight): explicit hypothesis of '
                 '`safety`',
                 'no allocation failure; a transport that returns 0 (would block) or a short count from Write() is modelled (Tunnel/Backpressure.lean) and correspondence-checked, without a general theorem',
                 'liveness: at most 2^32 Messages per queue (ids distinct), receiver MTU >= sender MTU, same magic, source not excluded; Messages over the '
                 "receiver's size limit are dropped, the others delivered (finding C12-oversize fixed by 79d1d2b)",
                 'SetAllowMiscIncomingData(false) for the safety theorems (misc data is delivered verbatim by design)'],
 'rule': 'real sender and receiver gateway objects joined by a scripted in-memory packet transport; every op (configure, send Messages, deliver log packet i '
         'as from address a, forged packet, whole log in order) runs on the real gateways and on the Lean model; packets written and Messages delivered must '
         'agree byte for byte; direct oracle: every delivered Message was sent by that source, perfect transport delivers exactly the sent sequence; '
         'exhaustive delivery sequences for logs of up to 6 packets; distinct = distinct case bodies',
 'timeout': 600}

TEXT = {'design_ref': 'DESIGN.md section 4, C12',
 'technique': 'Lean 4 theorems (reassembly-buffer invariant, safety for every delivered packet list, source independence, exactly-once in-order delivery over '
              'a perfect transport incl. id wrap-around, mini-tunnel analogues) over a hand-written model of the two packet-tunnel gateways + differential '
              'correspondence of model and real gateway objects under scripted loss/duplication/reordering',
 'text': 'Proved in Lean for the model of PacketTunnelIOGateway: for EVERY list of datagrams whose accepted fragments stem from sent Messages with per-source '
         'distinct ids (any loss, duplication, reordering), every reassembly buffer is a prefix of one sent Message and every buffer handed to the receiver '
         'equals a Message sent by that source; states of different sources do not interact; a perfect transport delivers exactly the queued Messages within '
         "the receiver's size limit, each once and in order (larger ones are dropped without affecting their neighbours), for every MTU >= header+1 and every "
         'start value of the 32-bit id counter (wrap-around included); the mini tunnel analogues hold for an arbitrary lawful codec.  The model is tied to the '
         'C++ code by running real sender/receiver gateway objects and the model on the same op streams (packets written and Messages delivered must be '
         'identical), with exhaustive delivery sequences for logs of up to 6 packets, forged packets, > 256 sources, and a direct membership/equality oracle '
         'on the real gateways.',
 'note': 'Safety needs the stated hypothesis that message ids are distinct per source among deliverable packets (unbounded delay defeats any finite id).  '
         'Liveness needs at most 2^32 Messages per queue (ids distinct).  Finding C12-oversize (a Message over SetMaxIncomingMessageSize() made the receiver '
         'discard the rest of that packet and lose the following Message) was fixed in /repo by 79d1d2b; model, theorem and oracle follow the fixed code and '
         'corpus/C12/tun-oversize-swallows-next.ops is the regression case.  Not modelled: allocation failure, partial datagram writes, slave gateways '
         '(payload = Message::Flatten).  Trusted: Lean kernel, statement file, correspondence harness (sampling), zlib law, constants measured on the compiled '
         'gateways.'}
