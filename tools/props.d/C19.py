"""Configuration of ./check for property C19 (loaded by tools/props.py)."""

PROP = {'engine': 'tp',
 'lean_props': ['MuscleModel.Props.C19'],
 'harnesses': [{'name': 'tp', 'sources': ['harness/tp.cpp']}],
 'trusted_base': ['hand-written Lean interleaving model of ThreadPool (lean/MuscleModel/Conc/ThreadPool.lean): one step = one critical section of '
                  '_poolLock (with DispatchPendingMessagesUnsafe inside it), one return from the Wait of UnregisterClient, one join in Shutdown, or one '
                  'leg of a pool thread between its wait for the next batch / the yield inside the handler / the lock of '
                  'ThreadFinishedProcessingClientMessages',
                  'the cooperative scheduler harness/libvh/coop.h and the MUSCLE_VERIF_HOOKS hook sites (Mutex, WaitCondition, Thread): the real threads '
                  '(user threads and the pool\'s own internal threads) are serialised at those points only',
                  'the pool threads\' own inbox (Thread::SendMessageToInternalThread / WaitForNextMessageFromOwner) is abstracted as a FIFO with reliable '
                  'wake-up (that is property C11)'],
 'assumptions': ['progress theorems only: if some program calls Shutdown no program registers a client (a pool that is shut down must not be used again)',
                 'sequentially consistent interleaving of the hooked steps (no weak-memory effects)',
                 'client discipline (IThreadPoolClient is not itself thread-safe: _threadPool is an unsynchronised member): a client that is ever '
                 '(un)registered while threads run is used by one thread only; Shutdown is called at most once and nobody registers with a pool that '
                 'has been shut down; the pool has at least one thread',
                 'no allocation failure, thread creation succeeds, _threadIDCounter below 2^32',
                 'handlers terminate and do not call back into the pool'],
 'rule': 'one op line = pool size 1-3, 1-4 clients (some registered before the threads start), 1-3 user-thread programs over submit / register / '
         'unregister / shutdown + a schedule over the user threads AND the pool threads, executed on real threads against the real ThreadPool under the '
         'deterministic cooperative scheduler and on the Lean interleaving model; per-event outcomes (API results, handler enter/exit with Message '
         'ids, pool-thread exits), verdict (done/deadlock) and the final pool tables must agree; schedules are enumerated exhaustively up to 2 '
         '(quick) / 3 (thorough) preemptions per program (capped, fewest preemptions first) plus random event lists; direct oracle on the handler log '
         'and the real tables: per client no overlapping handler calls, handler order = submission order, every accepted id exactly once (at most '
         'once and a prefix when a shutdown intervenes), unregister returns after the last handler exit with everything handled, Shutdown returns '
         'with every pool thread ended, available+active <= maxThreads, no deadlock; distinct = distinct case bodies'}

TEXT = {'design_ref': 'DESIGN.md section 4, C19 (and 3.5 for the hooks and the cooperative scheduler)',
 'technique': 'Lean 4 theorems over a small-step interleaving model of ThreadPool (every schedule, any number of user threads, clients and pool '
              'threads: invariants by induction over the schedule) + differential correspondence: the same programs and schedules run on real threads '
              'against the real pool under a deterministic cooperative scheduler and on the model',
 'text': 'Proved in Lean for every reachable configuration of the model (any pool size, any number of clients, user threads and pool threads, all '
         'finite programs, all schedules).  For ALL programs: available+active <= maxThreads, the two thread tables are duplicate-free and disjoint and '
         'an available thread serves nobody (thread_limit); two clients are handled in parallel when the pool has two threads (parallel_ok).  Under the '
         'client discipline (a client that some thread (un)registers is used by that thread only): handled ++ in-flight batch ++ pending ++ deferred = '
         'accepted Messages, as one list per client, while nothing was dropped, and nothing is dropped before Shutdown begins (handled_once, '
         'nothing_dropped_before_shutdown); at most one pool thread serves a client, a served client is flagged, a flagged client has no pending '
         'Messages - the MASSERTs of the dispatcher never fire (one_at_a_time); UnregisterClient reaches its final clean-up only when nothing is '
         'outstanding, no thread serves the client and everything accepted has been handled, and its wake-up is never early (unregister_waits, '
         'unregister_wakeup_not_early).  The discipline is necessary: undisciplined_two_handlers.  Progress (additionally: if some program calls Shutdown no program registers a client, and maxThreads >= 1; both shown '
         'necessary by pool_of_size_zero_strands / register_after_shutdown_strands): deadlock_free - in every reachable configuration with an '
         'unfinished user thread some thread can step (a waiter in UnregisterClient is registered and its client has a server or a full pool '
         'working towards it; a pool thread being joined has ended or has its quit Message queued and can run); shutdown_rank_decreases - a ranking '
         'function (rest of the programs and calls, 20 per pool thread still in the tables for a Shutdown call, 4 per inbox Message, 2 per batch '
         'Message of each pool thread) strictly decreases with every step of every thread once _shuttingDown is set; shutdown_terminates - every run '
         'from a configuration inside Shutdown has at most rank steps and can stop only when every user thread, in particular the one inside '
         'Shutdown, has returned; shutdown_join_waits - a join returns only for an ended pool thread.  shutdown_returns_all_exited - if Shutdown is called by one thread only (necessary: two_shutdowns_overtake), then at '
         'its final section every pool thread ever created has ended (cover invariant: each pool thread has ended, or is in one of the two tables, '
         'or is in the list Shutdown is joining; shutdown_join_cover is the same invariant during the joins).  MASSERT freedom (the model does not '
         'represent assertion aborts): massert_dispatch_207 / massert_dispatch_holds_in_loop, massert_finished_252, massert_finished_261, '
         'massert_send_144, massert_received_165 state the asserted conditions of ThreadPool.cpp as predicates on the configuration and prove them; '
         'not covered: the two _internalQueue assertions (lines 145, 166).',
 'note': 'Sequential consistency of the hooked steps; pool-thread inbox abstracted (C11); client discipline as documented for IThreadPoolClient.  '
         'Theorems named *_partial say in their doc comment what is missing.  Trusted: Lean kernel, statement file, scheduler + hooks, sampling '
         'correspondence.'}
