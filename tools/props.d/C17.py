"""Configuration of ./check for property C17 (loaded by tools/props.py)."""

PROP = {'engine': 'str',
 'lean_props': ['MuscleModel.Props.C17'],
 'harnesses': [{'name': 'str', 'sources': ['harness/str.cpp']}],
 'trusted_base': ['hand-written Lean model of muscle::String: ideal byte string (lean/MuscleModel/Containers/StrSpec.lean) and buffer layer with '
                  'EnsureBufferSize/GetNextBufferSize and alias-aware in-place operations (StrBuf.lean)',
                  'the small-buffer capacity String::GetMaxShortStringLength() is regenerated from /repo on every run (tools/extract_consts.cpp -> '
                  'Muscle.Gen.strSmallLen) and is a parameter of every theorem',
                  'glibc string functions in the "C" locale (strstr, strcasecmp, tolower, isdigit, isspace) are mirrored, not verified; printf formatting '
                  '(Arg(double)) is compared with snprintf in the harness only'],
 'assumptions': ['character arguments are not NUL and String operands are NUL-free (Op.WF)',
                 'pointer operands into the String lie within [Cstr(), Cstr()+Length()]',
                 'allocation succeeds and lengths stay below 2^31-2 (B_OUT_OF_MEMORY / B_RESOURCE_LIMIT branches are not modelled)',
                 'the aliasing of the inline length byte with the 16th buffer byte is not modelled (len is a separate field)'],
 'rule': 'random op sequences over a register file of 6 Strings (construct/assign/append/prepend/insert/inserted words/substring/replace (char, string, '
         'table)/trim/pad/indent/escape/case/with- and without-prefix/suffix/operator[] store/IndexOf family/StartsWith/EndsWith/compare incl. ignore-case and '
         'numeric-aware/Levenshtein distance/Arg/numeric parse/Flatten/Unflatten incl. unterminated and empty input) with operand lengths SMALL-2..SMALL+2, 0, '
         '1, 2*SMALL, operands that are the String itself, pointers into it or substrings of it, multi-byte UTF-8; every op runs on the real String (aliased '
         'as written), on an opposite-storage-mode twin with copied operands, on a std::string reference and on the Lean model; values and return values must '
         'agree; distinct = distinct case bodies'}

TEXT = {'design_ref': 'DESIGN.md section 4, C17',
 'technique': 'Lean 4 theorems (buffer invariant preserved, refinement of the buffer layer to an ideal NUL-free byte string for every in-place operation and '
              'every operation sequence, storage-mode irrelevance, alias = copy, flatten/unflatten round trip) over a hand-written model of muscle::String + '
              'differential correspondence of model and real code on random API op sequences with a std::string / opposite-mode-twin direct oracle',
 'text': 'Proved in Lean for every value of the small-buffer capacity, every reachable representation (inline or heap, any capacity, any bytes beyond the '
         'terminator) and every sequence of the 24 in-place operations with arbitrary operands, including the String itself and pointers into its own buffer: '
         'the invariant (len < cap, NUL at len, mode decided by capacity) is preserved, value and return value equal those of the list function on the ideal '
         'byte string, the trace does not depend on the storage mode, alias operands behave like separate copies; flatten = bytes + NUL, unflatten(flatten s '
         '++ r) = (s, r), and unflatten rejects every view without a NUL byte (incl. the empty view).  The model is tied to the C++ code by running both on '
         'the same random op sequences (about 85 op kinds incl. the const query/formatting methods) and by a direct oracle on the real String (opposite-mode '
         'twin with copied operands, std::string reference, terminator/length/capacity invariants, ASan+UBSan).',
 'note': 'Three defects found by this check (Unflatten accepting unterminated input, a UBSan array-bounds abort when a 15-char heap String returns to the '
         'inline buffer, an out-of-bounds read in LastIndexOfIgnoreCase(char, from >= 2^31)) are fixed in /repo (b5e426f, e741838, 05d9120); their triggers '
         'are back in the random stream and their corpus files are regression cases.  The read/write-pointer loop of Replace(String,String) is taken from the '
         'list-level scan rather than modelled pointer by pointer; the per-key matcher of Replace(Hashtable) is mirrored as written (it is not a full '
         'substring search).  Trusted: Lean kernel, the statement file, the correspondence harness (sampling), the extracted capacity constant, glibc in the C '
         'locale.  Allocation failure and lengths >= 2^31-2 are not modelled.'}
