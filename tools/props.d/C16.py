"""Configuration of ./check for property C16 (loaded by tools/props.py)."""

PROP = {'engine': 'q',
 'lean_props': ['MuscleModel.Props.C16'],
 'harnesses': [{'name': 'q', 'sources': ['harness/q.cpp']}],
 'trusted_base': ['hand-written Lean model of the private state and methods of muscle::Queue (lean/MuscleModel/Containers/QRing.lean); the ideal sequence is '
                  'List (Containers/QSpec.lean)',
                  'Queue::Sort (in-place merge sort) is abstracted to a stable sort and the cycle-leader rotation of Queue::Normalize to a rotation of the '
                  'slot array; both are tied to the code by the correspondence run only',
                  'index kernels (NextIndex/PrevIndex/InternalizeIndex) and the growth policy of EnsureSizeAux are transcribed by hand; the inline capacity '
                  'ARRAYITEMS(_smallQueue) is observed from the compiled code and is a parameter of the model',
                  'the std::deque reference model and the canary item types inside harness/q.cpp'],
 'assumptions': ['item counts and indices below 2^32, no allocation failure (B_OUT_OF_MEMORY / B_RESOURCE_LIMIT paths are not modelled)',
                 'findings C16-D3 (SwapContentsAux left items alive in the inline buffer), C16-D4 (self-prepend read shifted items), C16-D5 '
                 '(InsertItemsAt with a pointer into the own array) and C16-D6 (self-move emptied the Queue) are repaired in /repo; the model mirrors the '
                 'repaired code and the trigger classes are part of the random stream and of corpus/C16/q-regress-*.ops',
                 'the item returned by the no-argument AddTailAndGet()/AddHeadAndGet() of a trivial item type is unspecified until written (documented)'],
 'rule': 'random op sequences (66 op kinds, incl. move/copy construction, self-aliased queue and pointer-into-own-array arguments, self-move; four boundary-directed scenario generators: multi-removal landing the head/tail exactly on the physical array end, emptying in every way followed by size-setting growth, transfers between inline-with-head-offset/heap/never-allocated queues, self-aliasing with and without spare slots; single/multi add and remove at both ends, insert/remove/replace at index, self-aliased arguments, swap, reverse, '
         'sort, sorted insert, remove-by-value, de-duplication, EnsureSize with/without set-size/extra/shrink, ShrinkToFit, Normalize, copy, move, '
         'SwapContents, Clear with/without release, IndexOf/LastIndexOf, ==, <, StartsWith/EndsWith) over three Queue registers, for int32, a movable owning '
         'canary and a copy-only owning canary; every op runs on the real Queue and on the Lean ring model and the result lines must agree; after every op the '
         'direct oracle compares the whole observable state (operator[], both iterators, GetArrayPointer runs, head/tail accessors) with a std::deque and the '
         'number of live canaries with the number of visible items; distinct = distinct case bodies'}

TEXT = {'design_ref': 'DESIGN.md section 4, C16',
 'technique': 'Lean 4 refinement proof (ring buffer with head/tail/count over a slot array refines List) over a hand-written model of muscle::Queue + '
              'differential correspondence of model and real code on random API op sequences for a trivial and two owning item types, with a std::deque direct '
              'oracle',
 'text': 'Proved in Lean for every ring state satisfying the representation invariant — which for owning item types includes "every slot outside the window '
         'and the idle inline buffer hold the default item" — hence for every history on any number of fresh Queues, for every inline capacity and item type: '
         'the index kernels stay in range and equal (head+i) mod size; ALL 66 op kinds of the engine (40 single-Queue kinds incl. add/remove at both ends, '
         'get/replace at index, Clear, EnsureSize/ShrinkToFit on all paths, multi-item add/insert/remove from an array, another Queue, the Queue itself and '
         'a pointer into its own array, operator=, CopyFrom, Swap, RemoveItemAt, InsertItemAt, Sort as a stable sort, Normalize in all branches, '
         '==/</StartsWith/EndsWith, IndexOf/LastIndexOf, RemoveFirst/Last/AllInstancesOf, InsertItemAtSortedPosition, RemoveSortedDuplicateItems, '
         'RemoveDuplicateItems, ReverseItemOrdering; 6 multi-Queue kinds: another register as the argument, SwapContents incl. SwapContentsAux, move '
         'assignment, move and copy construction) keep the invariant, commute with the abstraction to the ideal List operation (first/last matching index, '
         'erase at the first/last occurrence, filter, insertion behind the last item that is not greater, collapse of equal adjacent items, reversal of '
         'the clipped sub-range, ...) and return the same result; failure is reported exactly when the ideal operation is undefined and then nothing '
         'changes; the visible result depends only on what was visible before; no stale item survives any operation for owning item types.  One '
         'deliberate exclusion, explicit as the hypothesis Op.specified: the no-argument AddTailAndGet()/AddHeadAndGet() without a following write on a '
         'TRIVIAL item type, whose new item the API documents as uninitialised (theorem raw_add_exposed states what is known); for owning types it is '
         'covered (a default item).',
 'note': 'Sort and the rotation inside Normalize are abstracted to their functional result (stable sort / rotation); Swap with a bad index (an assertion failure in C++) is a refused call in the model.  Findings C16-D1/D2 (EnsureSize with '
         'allowShrink below the item count) are fixed in /repo (97f299d): their trigger class is back in the random stream and the corpus files are regression '
         'cases.  C16-D3..D6 (stale inline items after SwapContentsAux, self-prepend, InsertItemsAt with a pointer into the own array, self-move) are fixed '
         'in /repo as well (c480d7f, d938114, 9a92768, c9f3294): the model mirrors the repaired code, the trigger classes are in the random stream and '
         'corpus/C16/q-regress-*.ops are regression cases.  Trusted: Lean kernel, '
         'the statement file, the correspondence harness (sampling).  The model is hand-written; a defect the generators never reach and the model does not '
         'share stays invisible.'}
