"""Configuration of ./check for property C11 (loaded by tools/props.py)."""

PROP = {'engine': 'thr',
 'lean_props': ['MuscleModel.Props.C11'],
 'harnesses': [{'name': 'thr', 'sources': ['harness/thr.cpp']}],
 'trusted_base': ['hand-written Lean interleaving model of the two Message queues of muscle::Thread (lean/MuscleModel/Conc/ThreadQueue.lean): one step = one '
                  'critical section of a _queueLock, one SignalAux(), one return from select()/Wait(), thread start, join',
                  'the cooperative scheduler harness/libvh/coop.h and the MUSCLE_VERIF_HOOKS hook sites (Mutex, WaitCondition, Thread.cpp: SIG_SEND/SIG_DRAIN/'
                  'SIG_WAIT, THREAD_SPAWN/START/EXIT/JOIN): the real threads are serialised at those points only',
                  'std::recursive_mutex excludes; WaitCondition = counting notification; select() on the socket pair wakes iff a byte is unread or the peer '
                  'closed; std::thread::join returns after exit (modelled, not verified)'],
 'assumptions': ['sequentially consistent interleaving of the hooked steps (no weak-memory effects, no data races on the unlocked reads of _messages / '
                 '_messageSocketsAllocated in StartInternalThread and SignalAux)',
                 'only the owner thread starts, receives replies, shuts down and joins; other threads only call SendMessageToInternalThread()',
                 'no clock: a time-out is a nondeterministic event',
                 'counters below 2^32, no allocation / socket / thread-creation failure'],
 'rule': 'one op line = the program of the owner (start, send, poll/blocking/timed receive, shutdown with and without join, join, restart) and of 0-2 extra '
         'sender threads + a schedule (thread steps and time-out events), executed on real threads against one real muscle::Thread (its own '
         'InternalThreadEntry loop, replies via SendMessageToOwner) under the deterministic cooperative scheduler, in socket-pair and in wait-condition mode, '
         'and on the Lean interleaving model; per-event outcomes (status, Message id received), the verdict (done / deadlock + blocked threads) and the '
         'received / still-queued id sequences of both directions must agree; schedules are enumerated exhaustively up to 2 (quick) / 3 (thorough) '
         'preemptions per program, capped, fewest preemptions first, plus random event lists; direct oracle after every step: received++queued is per '
         'sender a prefix of what it sent and covers every completed send, real-time order across senders, a blocked receiver with a non-empty queue has a '
         'signal pending or a sender about to signal, and at the end every blocked thread is a receiver on an empty queue (or the owner joining one); '
         'distinct = distinct case bodies'}

TEXT = {'design_ref': 'DESIGN.md section 4, C11 (and 3.5 for the hooks and the cooperative scheduler)',
 'technique': 'Lean 4 theorems over a small-step interleaving model of the Thread Message queues (every schedule, any number of sender threads, both '
              'signalling mechanisms: invariants by induction over the schedule, a ranking function for shutdown) + differential correspondence: the same '
              'programs and schedules run on real threads against the real Thread class under a deterministic cooperative scheduler and on the model',
 'text': 'Proved in Lean for every reachable configuration of the model (both signalling mechanisms, every owner program incl. restart, any number of '
         'sender threads, every schedule of thread steps and time-out events), no sorry: fifo_exactly_once (per direction received ++ queued = sent, '
         'hence prefix order and no duplication); no_lost_wakeup / no_lost_wakeup_reply (a receiver blocked in its wait with a Message queued has a '
         'signal pending - or the peer socket closed - or a sender stands between its unlock and its signal, incl. the initial signal of '
         'StartInternalThread) and wakeup_is_enabled (such a configuration always has an enabled step); deadlock_free (when no event is enabled, the '
         'internal thread waits on an empty queue and the only unfinished user thread is the owner waiting on an empty reply queue or joining such a '
         'thread: nobody is ever stuck at a lock, a signal, or a wait with a Message queued); prestart_delivered (start on a non-empty queue leaves the '
         'owner in front of the initial signal; in every quiescent configuration with a live internal thread everything ever queued has been '
         'received); shutdown_completes + no_infinite_run (inside ShutdownInternalThread(true) with the NULL enqueued some step is always enabled; a '
         'ranking function strictly decreases with every step of every thread under every schedule, so every execution is finite and every maximal one '
         'leaves the call through the join step, after which the thread is not running).  The model is tied to the C++ code by running both on the '
         'same programs and schedules (bounded-preemption exhaustive + random, both modes) on real threads and by direct oracles on the real queues.',
 'note': 'Sequential consistency of the hooked steps (the unlocked reads in StartInternalThread/SignalAux are not data-race-checked), no clock (time-outs '
         'are events), counters < 2^32, no allocation/socket/thread-creation failure; usage rule OwnerOnly (only the owner starts, receives, shuts down, '
         'joins) is a hypothesis of every theorem except fifo_exactly_once.  Observed and mirrored (not a property violation): in socket mode a blocking '
         'receive (MUSCLE_TIME_NEVER) can return B_TIMED_OUT after a stale signal byte or after the internal thread closed its socket; with the default '
         'InternalThreadEntry loop the initial signal of StartInternalThread is redundant (the loop dequeues before it waits).  Trusted: Lean kernel, '
         'statement file, scheduler + hooks, sampling correspondence.'}
