"""Configuration of ./check for property C20 (loaded by tools/props.py)."""

PROP = {'assumptions': ['sweep theorems are about runs the model completes (explicit fuel; out of fuel = no statement)',
                 'GetPulseTimeAux-sweep theorems (inv_preserved_gpt_sweep, gpt_sweep_settles, wakeup_never_late, due_nodes_reachable) assume the discipline '
                 'verdict of managerGptC: no GetPulseTime callback invalidates/detaches/attaches a node whose own GetPulseTimeAux is in progress (any other '
                 'node may be invalidated, attached, detached); public operations and the pulse sweep need no discipline',
                 'fires_iff_due (completeness) additionally assumes that the Pulse callbacks of that sweep only change requests (PQuiet) and t < '
                 'MUSCLE_TIME_NEVER; reasked / all_asked_after_sweep assume the sweep discipline and the flagging invariant V (proved for public operations '
                 'and the pulse sweep); each discipline has a necessity witness (examples at the end of Props/C20.lean)',
                 'still partial: wakeup_is_min exactness (>=; false when a callback supersedes an answer within one sweep; needs acyclicity for the witness '
                 'node), termination (only fuel-independence of results; needs acyclicity + a measure)',
                 'now < MUSCLE_TIME_NEVER for "fires iff due"; no attachment that closes a cycle (the harness refuses it)'],
 'engine': 'pn',
 'harnesses': [{'name': 'pn', 'sources': ['harness/pn.cpp']}],
 'lean_props': ['MuscleModel.Props.C20'],
 'rule': 'random histories over a pool of 16 scripted PulseNodes (attach/detach/destroy/invalidate/change request, scripts of re-entrant actions for '
         'GetPulseTime and Pulse callbacks, then for each event-loop cycle: CallGetPulseTimeAux on every root, a simulated wait, CallPulseAux on every root); '
         'returned minimum, callback log (node, now, scheduled/previous time, answer) in call order, parent pointers and scheduled times must agree between '
         'the real PulseNode class and the Lean model; the direct oracle (brute-force min of requests; fired set = due set, once, never early, asked-again '
         'set) runs on every sweep; distinct = distinct case bodies',
 'trusted_base': ['hand-written Lean model of util/PulseNode.cpp (lean/MuscleModel/Pulse/Tree.lean): ReschedulePulseChild, InvalidatePulseTime, '
                  'Put/RemovePulseChild, ClearPulseChildren, destructor, GetPulseTimeAux, PulseAux, PulseNodeManager::Call*Aux',
                  'MUSCLE_TIME_NEVER is regenerated from /repo headers on every run (tools/extract_consts.cpp)',
                  'node behaviour is a script (requested times + re-entrant actions per callback); the simulated clock is an argument of each sweep']}

TEXT = {'design_ref': 'DESIGN.md section 4, C20',
 'note': 'Sweep theorems are partial-correctness statements over fuel-bounded runs, plus termination of both sweeps with request-only scripts under explicit '
         'height/list bounds (finite support and finite height of reachable states are proved; Inv/V across earlier recalculation sweeps stay hypotheses); '
         'theorems named _partial state what is missing.  Finding C20-lost-invalidate (invalidate of a node whose GetPulseTimeAux is in progress was lost) is '
         'repaired in /repo; the model mirrors the repaired code (second pass, aggregate 0 for a node that is invalid even then), theorems '
         'lost_invalidate_reasked/_bounded/_live state it, regression input corpus/C20/pn-regress-inprogress-invalidate.ops.  Trusted: Lean kernel, the '
         'statement file, the correspondence harness (sampling), MUSCLE_TIME_NEVER regenerated from the headers.',
 'technique': 'Lean 4 theorems over a hand-written executable model of the PulseNode scheduler (three child lists per node, aggregate times, both sweeps, '
              'scripted re-entrant callbacks) + differential correspondence of model and real code on random histories under a simulated clock + brute-force '
              'direct oracle',
 'text': 'Proved in Lean over the model of util/PulseNode.cpp: see lean/MuscleModel/Props/C20.lean for the exact statements (structural invariant preserved by '
         'the public operations, sorted insert with the tail shortcut, callbacks never early and with the time asked for, wake-up time is a lower bound / the '
         'minimum of the requested times of a settled tree, fired set = due set for a settled tree).  Added later: the reported wake-up time is EXACTLY the '
         'minimum (attained, or "never") for every sweep whose GetPulseTime callbacks only answer and change requests (`wakeup_is_min_quiet`; '
         '`wakeup_is_min_first_sweep` for the first sweep after any history without further hypotheses); the parent relation has finite height in every '
         'reachable state (`finite_height_reachable`, the guard `isAnc_sound`); both sweeps terminate with fuel B*(N+2) for height bound B and list bound N '
         '(`pulse_sweep_terminates_quiet`, `gpt_sweep_terminates_quiet`), and the bounds exist in every reachable state (`finite_support_reachable`, '
         '`sweeps_terminate_reachable`, `sweeps_terminate_first_sweep`).  For histories whose scripts only change requests nothing about the state is assumed: '
         '`inv_v_history_quiet`, `wakeup_is_min_quiet_history`, `sweeps_terminate_quiet_history`.  The model is tied to the C++ code by running both on the '
         'same random histories (attach/detach/destroy/invalidate, scripts with re-entrant actions, gpt/pulse sweeps): returned minimum and the full callback '
         'log must be identical; a brute-force oracle on the real class checks min-of-requests, fired = due, once, never early, asked again.'}
