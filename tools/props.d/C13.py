"""Configuration of ./check for property C13 (loaded by tools/props.py)."""

PROP = {'engine': 'srv', 'lean_props': ['MuscleModel.Props.C01'], 'harnesses': [{'name': 'srv', 'sources': ['harness/srv.cpp']}]}
